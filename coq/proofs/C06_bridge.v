(* proofs/C06_bridge.v — JUDGE BRIDGE for property C06 (one fresh top Via naming the transport the request
   leaves through, new branch, directly above the received Via headers; own Record-Route entry ahead of the
   others iff one is present or must-record-route is set).

   The executable judge [SpecProxy.judge_C06_event] reads raw bytes with its own minimal reader and predicts,
   from the text of the request alone, WHICH listener identity (if any) the proxy must put on top: it
   re-computes the hop choice (j_choose: Route / static route by To / service match by Request-URI) and looks
   the next-hop host up in its own learned table (js_learned, updated by j_learn).  This file proves that it
   ACCEPTS (returns 0) what the MODEL emits for a datagram.

   Part A  model side: every byte-carrying output is write_message mo with mo [good] (C07_bridge), the Via view
           of C07_pipeline, own entry pushed or not, and the Record-Route HEADERS (own header ahead of the
           received ones, untouched), according to C03.effective_hop and the learned table (C06_outputs)
   Part B  judge side: the judge unfolded (judge_C06_udp_unfold), one output accepted (c06_check_ok)
   Part C  learned tables: agree_learned, preserved by j_learn / learn
   Part D  C06_judge_bridge_udp_partial: the bridge under [ident_agree] (the identity the judge expects is the
           one the model uses) — reason codes 1, 2, 3 never arise
   Part E  hop agreement on the grammar domain: j_choose / the judge's host = C03.effective_hop
           (Route entries, To, Request-URI written in the C14 grammar)
   Part F  C06_judge_bridge_udp, C06_judge_bridge_step (conditions on the input side only),
           C06_agree_step (the agreement of the learned tables is kept by a datagram)
   Part G  example
   No axioms, no admits. *)
From Coq Require Import List Ascii String ZArith NArith Bool Arith Lia.
From Coq Require Import ZifyBool ZifyNat ZifyN.
From Model Require Import Bytes BytesLemmas Wire Uri Hdr Message Msg Rx Glob StaticRoute RoundRobin Pins
     Proxy RunProxy SpecProxy SpecC14.
From Model.proofs Require Import C14_uri C14_hdr MsgLemmas C06 C01 C13 C03.
From Model.proofs Require C07 C14_via C07_bridge C13_bridge.
Import ListNotations.
Open Scope list_scope.
Module B7 := C07_bridge.
Module B13 := C13_bridge.

Notation RRn := (s2b "Record-Route") (only parsing).

(* ====================================================================== Part A: the model side *)
Definition must_of (e : env) : bool := pa_must_rr (wire_proxy (e_lc e)).

(* what the proxy makes of [m1] when it inserts itself for transport [t] *)
Lemma pushed_desc e t m1 :
  B7.t_ok (e_branch e) t -> B7.good m1 ->
  let mo := px_add_record_route (must_of e) t (px_add_via e t m1) in
  B7.good mo /\ m_start mo = m_start m1 /\ m_body mo = m_body m1 /\
  C07.via_hdrs mo = Some [C07.own_via (e_branch e) t] :: C07.via_hdrs m1 /\
  sel RRn (m_headers mo) =
    (if (has_header RRn m1 || must_of e)%bool
     then own_rr_header t :: sel RRn (m_headers m1) else sel RRn (m_headers m1)).
Proof.
  intros Ht G mo.
  destruct (B7.pushed_sb e (must_of e) t m1) as [Sa Sb].
  split; [apply B7.good_pushed; assumption|]. split; [exact Sa|]. split; [exact Sb|].
  split; [apply C07.pushed_view|].
  destruct (C06_via_pushed e t m1) as (_ & _ & _ & _ & _ & Fr).
  assert (FR : frame RRn m1 (px_add_via e t m1)) by (apply Fr; reflexivity).
  pose proof (C06_rr_policy (must_of e) t (px_add_via e t m1)) as P.
  rewrite (has_header_frame _ _ _ FR) in P.
  subst mo. destruct (has_header RRn m1 || must_of e)%bool.
  - destruct P as (_ & _ & _ & S & _). rewrite S. f_equal. exact (proj1 FR).
  - rewrite P. exact (proj1 FR).
Qed.

(* [mo] against the received request [m]: good, same start line and body, the Via view of C07_pipeline
   beneath the own entry of [t] (if any), the Record-Route headers of [m] beneath the own header (by policy) *)
Definition relayed6 (br : bytes) (must rs : bool) (src : bytes) (sport : Z) (m : message)
           (t : option stransport) (mo : message) : Prop :=
  B7.good mo /\ m_start mo = m_start m /\ m_body mo = m_body m /\
  match t with
  | Some t =>
      C07.via_hdrs mo = Some [C07.own_via br t] :: C07.stamp_hdrs rs src sport (C07.via_hdrs m) /\
      sel RRn (m_headers mo) =
        (if (has_header RRn m || must)%bool then own_rr_header t :: sel RRn (m_headers m) else sel RRn (m_headers m))
  | None =>
      C07.via_hdrs mo = C07.stamp_hdrs rs src sport (C07.via_hdrs m) /\
      sel RRn (m_headers mo) = sel RRn (m_headers m)
  end.

Lemma relayed6_frame br must rs src sport m t m1 m2 :
  relayed6 br must rs src sport m t m1 -> B7.good m2 -> C07.veq m1 m2 -> frame RRn m1 m2 ->
  relayed6 br must rs src sport m t m2.
Proof.
  intros (_ & S & B & K) G (Va & Vb & Vc) (Fa & _).
  split; [exact G|]. split; [congruence|]. split; [congruence|].
  destruct t as [t|]; destruct K as (K1 & K2); split; congruence.
Qed.

Lemma relayed6_push e rs src sport m m1 t :
  relayed6 (e_branch e) (must_of e) rs src sport m None m1 -> B7.t_ok (e_branch e) t ->
  relayed6 (e_branch e) (must_of e) rs src sport m (Some t)
           (px_add_record_route (must_of e) t (px_add_via e t m1)).
Proof.
  intros (G & S & B & K1 & K2) Ht.
  destruct (pushed_desc e t m1 Ht G) as (G' & S' & B' & V' & R').
  split; [exact G'|]. split; [congruence|]. split; [congruence|]. split; [rewrite V', K1; reflexivity|].
  rewrite R', K2. rewrite !has_header_sel, K2. reflexivity.
Qed.

(* sendMessage of the routed request, decorated when the hop host is learned *)
Lemma sm_branch e host port tr rs src sport m m1 x :
  relayed6 (e_branch e) (must_of e) rs src sport m None m1 -> B7.learned_ok (e_branch e) (x_learned x) ->
  exists extra,
    x_outs (fst (send_message e host port tr (decorate e (x_learned x) host m1) x)) = x_outs x ++ extra /\
    forall o, In o extra -> is_msg o = true ->
      exists mo, snd o = write_message mo /\
                 relayed6 (e_branch e) (must_of e) rs src sport m (alookup host (x_learned x)) mo.
Proof.
  intros Rl HL.
  destruct (send_message_shape e host port tr (decorate e (x_learned x) host m1) x)
    as (Sm & _ & extra & O & (_ & Fo) & _).
  exists extra. split; [exact O|]. intros o Io Mo. rewrite Forall_forall in Fo.
  eexists. split; [exact (Fo o Io Mo)|]. rewrite Sm.
  assert (RD : relayed6 (e_branch e) (must_of e) rs src sport m (alookup host (x_learned x))
                        (decorate e (x_learned x) host m1)).
  { unfold decorate. destruct (alookup host (x_learned x)) as [t|] eqn:A; [|exact Rl].
    apply relayed6_push; [exact Rl|exact (HL _ _ A)]. }
  eapply relayed6_frame; [exact RD| | |].
  - apply (B7.gpres_mtry _ B7.gpres_s_client_transaction). exact (proj1 RD).
  - apply (C07.vpres_mtry _ C07.vpres_s_client_transaction).
  - apply (mframe_try _ _ (mframe_client_transaction _ dj_RR_Via dj_RR_CSeq) _).
Qed.

(* sendToBackend *)
Lemma bk_branch e rs src sport m m1 x :
  relayed6 (e_branch e) (must_of e) rs src sport m None m1 ->
  (forall t0, first_transport (e_lc e) = Some t0 -> B7.t_ok (e_branch e) t0) ->
  exists extra, x_outs (fst (send_to_backend e m1 x)) = x_outs x ++ extra /\
    forall o, In o extra -> is_msg o = true ->
      exists mo, snd o = write_message mo /\
        exists t0, first_transport (e_lc e) = Some t0 /\
                   relayed6 (e_branch e) (must_of e) rs src sport m (Some t0) mo.
Proof.
  intros Rl HF. destruct (send_to_backend_shape e m1 x) as (_ & extra & O & D). exists extra. split; [exact O|].
  destruct D as [->|(t0 & a & d & FT & _ & -> & _)]; [intros o []|].
  intros o [<-|[]] _. eexists. split; [reflexivity|]. exists t0. split; [exact FT|].
  unfold backend_message. apply relayed6_push; [|exact (HF t0 FT)].
  eapply relayed6_frame; [exact Rl| | |].
  - exact (B7.gpres_find_backend_by_dialog e (x_p x) m1 (proj1 Rl)).
  - apply C07.vpres_find_backend_by_dialog.
  - apply (mframe_find_backend_by_dialog _ dj_RR_CSeq dj_RR_From dj_RR_To).
Qed.

(* a datagram carrying a request, up to HandleMessage *)
Lemma pm_request6 e peer pp from rs m0 x x' :
  is_request m0 = true -> B7.good m0 -> B7.src_ok peer -> B7.t_ok (e_branch e) from ->
  B7.learned_ok (e_branch e) (x_learned x) ->
  process_message e peer pp from rs None m0 x = Ok x' ->
  exists m4,
    (forall nm, disjoint_names nm (s2b "Via") -> disjoint_names nm (s2b "Route") -> frame nm m0 m4) /\
    relayed6 (e_branch e) (must_of e) rs peer pp m0 None m4 /\
    route_view m4 = drop_own (e_cfg e) from (route_view m0) /\
    B7.learned_ok (e_branch e) (learned_after peer from m0 x) /\
    is_request m4 = true /\
    x' = fst (handle_message e from m4
                {| x_learned := learned_after peer from m0 x; x_p := x_p x; x_conns := x_conns x;
                   x_world := x_world x; x_outs := x_outs x |}).
Proof.
  intros R G0 Hs Hf HL. rewrite process_message_unfold.
  destruct (pm_learn_spec peer from m0 x) as (L & F1).
  assert (GL : B7.good (fst (pm_learn peer from m0 x)) /\
               B7.learned_ok (e_branch e) (snd (pm_learn peer from m0 x)) /\
               C07.veq m0 (fst (pm_learn peer from m0 x))).
  { unfold pm_learn. destruct (is_request m0 && negb (amem peer (ps_backends (x_p x))))%bool;
      [|split; [assumption|split; [assumption|apply C07.veq_refl]]].
    pose proof (B7.gpres_s_all_via_params m0 G0) as GA.
    destruct (C07.s_all_via_params_spec m0) as (_ & A & B & C).
    destruct (s_all_via_params m0) as [m' vs]. cbn [fst snd] in *. split; [exact GA|]. split.
    - apply B7.learned_ok_fold; [exact Hf|]. apply B7.learned_ok_learn; assumption.
    - split; [exact B|split; [exact C|exact A]]. }
  destruct (pm_learn peer from m0 x) as [m1 l1]. cbn [fst snd] in L, F1, GL. subst l1.
  destruct GL as (G1 & HL1 & V1). cbv zeta.
  assert (R1 : is_request m1 = true) by (rewrite (C07.veq_is_request _ _ V1); exact R).
  rewrite R1. cbn [andb].
  set (m2 := if rs then fst (s_set_received peer pp m1) else m1).
  assert (P2 : (forall nm, disjoint_names nm (s2b "Via") -> frame nm m1 m2) /\ B7.good m2 /\
               m_start m2 = m_start m0 /\ m_body m2 = m_body m0 /\
               C07.via_hdrs m2 = C07.stamp_hdrs rs peer pp (C07.via_hdrs m0)).
  { subst m2. destruct V1 as (A & B & C). destruct rs.
    - destruct (C07.s_set_received_view peer pp m1) as (S1 & S2 & S3).
      split; [intros nm DV; apply (mframe_set_received nm DV)|].
      split; [apply B7.gpres_s_set_received; assumption|].
      rewrite S1, S2, S3, A, B, C. repeat split.
    - split; [intros nm _; apply frame_refl|]. split; [exact G1|]. cbn [C07.stamp_hdrs]. repeat split; assumption. }
  destruct P2 as (F2 & G2 & S2 & B2 & V2).
  change (pm_conn e None m2 x) with (m2, Ok (x_p x)). cbv beta iota.
  intros H. unfold pm_tail in H. cbv zeta in H.
  set (m4 := fst (mtry (try_remove_top_route (e_cfg e) from) m2)) in *.
  assert (F4 : forall nm, disjoint_names nm (s2b "Route") -> frame nm m2 m4).
  { intros nm D. apply (mframe_try _ _ (mframe_try_remove_top_route nm (e_cfg e) from D)). }
  assert (V4 : C07.veq m2 m4) by (apply (C07.vpres_mtry _ (C07.vpres_try_remove_top_route _ _))).
  assert (G4 : B7.good m4) by (exact (B7.gpres_mtry _ (B7.gpres_try_remove_top_route (e_cfg e) from) m2 G2)).
  assert (R4 : is_request m4 = true).
  { rewrite (C07.veq_is_request _ _ V4). unfold is_request in *. rewrite S2. exact R. }
  assert (R4' : is_response m4 = false) by (unfold is_response; rewrite R4; reflexivity).
  rewrite R4' in H. injection H as <-. exists m4.
  assert (F02 : forall nm, disjoint_names nm (s2b "Via") -> frame nm m0 m2).
  { intros nm DV. eapply frame_trans; [apply F1; exact DV|apply F2; exact DV]. }
  split; [intros nm DV DR; eapply frame_trans; [apply F02; exact DV|apply F4; exact DR]|].
  split.
  { destruct V4 as (A4 & B4 & C4). split; [exact G4|]. split; [congruence|]. split; [congruence|].
    split; [congruence|]. rewrite (proj1 (F4 _ dj_RR_Route)). exact (proj1 (F02 _ dj_RR_Via)). }
  split.
  { subst m4. rewrite try_remove_top_route_pops_iff_own.
    rewrite (route_view_frame m0 m2 (F02 _ dj_Route_Via)). reflexivity. }
  split; [exact HL1|]. split; [exact R4|reflexivity].
Qed.

(* what a hop prescribes for an output *)
Definition post6 (e : env) (rs : bool) (src : bytes) (sport : Z) (m0 : message) (L : learned) (h : hop)
           (mo : message) : Prop :=
  match h with
  | HopAddr host _ _ => relayed6 (e_branch e) (must_of e) rs src sport m0 (alookup host L) mo
  | HopBackend => exists t0, first_transport (e_lc e) = Some t0 /\
                             relayed6 (e_branch e) (must_of e) rs src sport m0 (Some t0) mo
  | _ => False
  end.

(* MODEL SIDE.  For EVERY request: each byte-carrying output is the serialisation of a [good] message that is
   the received one with the sender entry stamped, and with the proxy's Via / Record-Route of the transport
   the next-hop host was learned through (sendMessage), of the listener's first transport (sendToBackend) *)
Theorem C06_outputs : forall e peer pp from rs m0 x x',
  is_request m0 = true -> B7.good m0 -> B7.src_ok peer -> B7.t_ok (e_branch e) from ->
  B7.learned_ok (e_branch e) (x_learned x) ->
  (forall t0, first_transport (e_lc e) = Some t0 -> B7.t_ok (e_branch e) t0) ->
  process_message e peer pp from rs None m0 x = Ok x' ->
  exists extra, x_outs x' = x_outs x ++ extra /\
    forall o, In o extra -> is_msg o = true ->
      exists mo, snd o = write_message mo /\
                 post6 e rs peer pp m0 (learned_after peer from m0 x) (effective_hop (e_cfg e) from m0) mo.
Proof.
  intros e peer pp from rs m0 x x' R G0 Hs Hf HL HF H.
  destruct (pm_request6 _ _ _ _ _ _ _ _ R G0 Hs Hf HL H) as (m4 & F & Rl4 & V4 & HL1 & R4 & ->).
  rewrite (handle_message_request e from m4 _ R4). cbn [x_learned].
  set (keep := c_keep_next_hop (e_cfg e)). set (rt := route_table_of (e_cfg e)).
  set (L1 := learned_after peer from m0 x) in *.
  set (x1 := {| x_learned := L1; x_p := x_p x; x_conns := x_conns x; x_world := x_world x; x_outs := x_outs x |}).
  pose proof (next_request_hop_choice keep rt m4) as CH. cbv zeta in CH.
  pose proof (frame_next_request_hop RRn keep rt m4 dj_RR_Route dj_RR_To) as FN.
  pose proof (C07.vpres_next_request_hop keep rt m4) as VN.
  pose proof (B7.gpres_next_request_hop keep rt m4 (proj1 Rl4)) as GN.
  destruct (next_request_hop keep rt m4) as [m1 r]. cbn [fst snd] in *.
  assert (Rl1 : relayed6 (e_branch e) (must_of e) rs peer pp m0 None m1)
    by (exact (relayed6_frame _ _ _ _ _ _ _ _ _ Rl4 GN VN FN)).
  assert (ST : static_hop rt m4 = static_hop rt m0).
  { unfold static_hop. rewrite (decoded_to_frame m0 m4 (F _ dj_To_Via dj_To_Route)). reflexivity. }
  assert (MY : is_my_message (new_my_name (c_name (e_cfg e))) from m1 =
               is_my_message (new_my_name (c_name (e_cfg e))) from m0).
  { apply is_my_message_start. exact (proj1 (proj2 Rl1)). }
  assert (SM : forall host port tr,
            exists extra, x_outs (fst (send_message e host port tr (decorate e L1 host m1) x1)) = x_outs x ++ extra /\
              forall o, In o extra -> is_msg o = true ->
                exists mo, snd o = write_message mo /\ post6 e rs peer pp m0 L1 (HopAddr host port tr) mo).
  { intros host port tr. exact (sm_branch e host port tr rs peer pp m0 m1 x1 Rl1 HL1). }
  assert (LOW : match static_hop rt m4 with Some v => r = Ok v | None => is_ok r = false end ->
            exists extra,
              x_outs (fst match r with
                          | Ok (host, port, transport) => send_message e host port transport (decorate e L1 host m1) x1
                          | _ => if is_my_message (new_my_name (c_name (e_cfg e))) from m1
                                 then send_to_backend e m1 x1 else (x1, m1)
                          end) = x_outs x ++ extra /\
              forall o, In o extra -> is_msg o = true ->
                exists mo, snd o = write_message mo /\ post6 e rs peer pp m0 L1 (lower_choice (e_cfg e) from m0) mo).
  { intros BC. unfold lower_choice. fold rt. rewrite <- ST.
    destruct (static_hop rt m4) as [[[h p] t]|].
    - rewrite BC. apply SM.
    - rewrite <- MY.
      assert (BK : exists extra,
                x_outs (fst (if is_my_message (new_my_name (c_name (e_cfg e))) from m1
                             then send_to_backend e m1 x1 else (x1, m1))) = x_outs x ++ extra /\
                forall o, In o extra -> is_msg o = true ->
                  exists mo, snd o = write_message mo /\
                    post6 e rs peer pp m0 L1 (if is_my_message (new_my_name (c_name (e_cfg e))) from m1
                                              then HopBackend else HopNone) mo).
      { destruct (is_my_message _ from m1).
        - exact (bk_branch e rs peer pp m0 m1 x1 Rl1 HF).
        - exists []. cbn [fst x_outs x1]. rewrite app_nil_r. split; [reflexivity|]. intros o []. }
      destruct r as [v| |]; [discriminate BC|exact BK|exact BK]. }
  rewrite effective_hop_spec, <- V4.
  destruct (route_view m4) as [|[rp|v] rest].
  - apply LOW, CH.
  - destruct (na_addr (r_addr rp)) as [u|s].
    + rewrite CH. apply SM.
    + apply LOW, CH.
  - apply LOW, CH.
Qed.

(* ====================================================================== Part B: the judge side *)
(* the host the judge looks up in its learned table *)
Definition c06_host (c : cfg) (lc : listen_cfg) (tcp : bool) (q : jreq) : option bytes :=
  let remaining := match jq_routes q with e :: r => if j_own c lc tcp e then r else e :: r | [] => [] end in
  match remaining with
  | e :: _ => Some (ju_host (j_entry_uri e))
  | [] => match jq_to q with
          | Some t => match find_route (route_table_of c) (ju_host (j_entry_uri t)) with
                      | Some it => Some (ri_host it) | None => None end
          | None => None end
  end.
(* which listener identity, if any, the judge wants on top *)
Definition c06_ident (c : cfg) (lc : listen_cfg) (tcp : bool) (q : jreq) (learned : list (bytes * (nat * bool)))
  : option (bytes * bytes * Z) :=
  match j_choose c lc tcp q with
  | HBackend => Some (first_of lc)
  | HHop _ =>
      match c06_host c lc tcp q with
      | Some h => match alookup h learned with
                  | Some (li', tcp') => jident_of c li' tcp'
                  | None => None end
      | None => None
      end
  | _ => None
  end.
Definition c06_must (lc : listen_cfg) (hop : jhop) : bool :=
  match hop with HBackend => lc_must_rr lc | _ => lc_must_rr lc end.
Lemma c06_must_eq lc hop : c06_must lc hop = lc_must_rr lc.
Proof. destruct hop; reflexivity. Qed.

(* the judge's verdict on one output *)
Definition c06_check (br : bytes) (ident : option (bytes * bytes * Z)) (must : bool) (ivs : list jvia)
           (in_rr : list bytes) (o : bytes * bytes) : nat :=
  match j_read (snd o) with
  | Some om =>
      match opt_all (map j_via (j_flat_via (jm_headers om))) with
      | Some ovs =>
          let out_rr := j_flat is_rr (jm_headers om) in
          match ident with
          | Some (proto, addr, port) =>
              match ovs with
              | top :: rest =>
                  if negb (beq (jv_transport top) proto && beq (jv_host top) addr &&
                           match jv_port top with
                           | Some p => negb (Z.eqb port 0) && Z.eqb p port
                           | None => Z.eqb port 0 end &&
                           Nat.eqb (List.length rest) (List.length ivs) &&
                           forallb (fun '(a, b) => beq (jv_host a) (jv_host b) && beq (jv_proto a) (jv_proto b))
                                   (combine rest ivs))%bool then 1%nat
                  else if negb (match j_get (s2b "branch") (jv_params top) with
                                | Some b => beq b br | None => false end) then 3%nat
                  else
                    let own_rr := if Z.eqb port 0 then s2b "<sip:" ++ addr ++ s2b ";lr>"
                                  else s2b "<sip:" ++ addr ++ ":"%char :: itoa port ++ s2b ";lr>" in
                    let want_rr := if (match in_rr with [] => false | _ => true end || must)%bool
                                   then own_rr :: in_rr else in_rr in
                    if (Nat.eqb (List.length out_rr) (List.length want_rr) &&
                        forallb (fun '(a, b) => beq a b) (combine out_rr want_rr))%bool then O else 2%nat
              | [] => 1%nat
              end
          | None =>
              if negb (Nat.eqb (List.length ovs) (List.length ivs)) then 1%nat
              else if (Nat.eqb (List.length out_rr) (List.length in_rr) &&
                       forallb (fun '(a, b) => beq a b) (combine out_rr in_rr))%bool then O else 2%nat
          end
      | None => 1%nat
      end
  | None => O
  end.

Definition jin_udp (li : nat) (src : bytes) (sport : Z) (data : bytes) : jin :=
  {| ji_li := li; ji_tcp := false; ji_conn := 0; ji_src := src; ji_sport := sport; ji_data := data |}.

Lemma judge_C06_udp_unfold pc st li src sport data outs closed :
  judge_C06_event pc st (EvUdp li src sport data) outs closed =
  match j_read data, nth_opt (c_listens (pc_cfg pc)) li with
  | Some m, Some lc =>
      if (negb (j_is_response m) && jm_has_cl m && (negb false || single_message m))%bool then
        match j_request m, opt_all (map j_via (j_flat_via (jm_headers m))) with
        | Some q, Some ivs =>
            if match j_choose (pc_cfg pc) lc false q with HOut => true | _ => false end then O else
            first_nonzero
              (map (c06_check (branch_of (js_event st))
                              (c06_ident (pc_cfg pc) lc false q (j_learn st (jin_udp li src sport data) m))
                              (c06_must lc (j_choose (pc_cfg pc) lc false q)) ivs (j_flat is_rr (jm_headers m)))
                   (msgs_of outs))
        | _, _ => O
        end
      else O
  | _, _ => O
  end.
Proof. reflexivity. Qed.

(* ---- what the judge's reader sees in headers the model holds ---- *)
Lemma j_flat_sel (p : bytes -> bool) nm hs : (forall n, same_header n nm = p n) ->
  j_flat p (map (fun h => jpair (hpair h)) hs) = B13.tview (sel nm hs).
Proof.
  intros E. unfold j_flat, j_entries, B13.tview, sel. induction hs as [|h r IH]; [reflexivity|].
  cbn [map flat_map filter]. change (fst (jpair (hpair h))) with (h_name h). rewrite <- E.
  destruct (same_header (h_name h) nm); cbn [flat_map]; rewrite IH; reflexivity.
Qed.

Lemma dj_RR_CL : disjoint_names RRn (s2b "Content-Length").
Proof. solve_disj. Qed.

Lemma sel_emitted nm mo : disjoint_names nm (s2b "Content-Length") ->
  sel nm (emitted_headers mo) = sel nm (m_headers mo).
Proof.
  intros D. unfold emitted_headers, sel. rewrite filter_app. cbn [filter].
  assert (E : same_header (h_name (cl_header mo)) nm = false).
  { cbn [cl_header h_name]. apply (disjoint_concrete nm _ D). reflexivity. }
  rewrite E, app_nil_r. induction (m_headers mo) as [|h r IH]; [reflexivity|].
  cbn [filter]. unfold is_cl_h at 1. destruct (same_header (h_name h) (s2b "Content-Length")) eqn:C; cbn [negb filter].
  - destruct (same_header (h_name h) nm) eqn:E2; [rewrite (D _ E2) in C; discriminate|exact IH].
  - destruct (same_header (h_name h) nm); [f_equal|]; exact IH.
Qed.

(* an output of the model, read by the judge *)
Lemma c06_read mo : B7.good mo -> start_ok (start_line_print (m_start mo)) ->
  (Z.of_nat (List.length (m_body mo)) <= int_max)%Z ->
  exists om, j_read (write_message mo) = Some om /\
    opt_all (map j_via (j_flat_via (jm_headers om))) = Some (map B7.jv_of (C07.flat_view (C07.via_hdrs mo))) /\
    j_flat is_rr (jm_headers om) = B13.tview (sel RRn (m_headers mo)).
Proof.
  intros G S B. eexists.
  split; [apply C01_single_content_length_read; [apply B7.good_line_safe; exact G|exact S|exact B]|].
  cbn [jm_headers]. split.
  - rewrite (B7.via_read _ (B7.emitted_good _ G)), B7.emitted_view. reflexivity.
  - rewrite (j_flat_sel is_rr RRn _ same_header_rr). rewrite (sel_emitted _ _ dj_RR_CL). reflexivity.
Qed.

(* ---- the Via stack beneath the pushed entry: same hosts, same protocols ---- *)
Definition hp_eq (p : jvia * jvia) : bool :=
  let '(a, b) := p in (beq (jv_host a) (jv_host b) && beq (jv_proto a) (jv_proto b))%bool.
Lemma hp_all_refl l : forallb (fun '(a, b) => beq (jv_host a) (jv_host b) && beq (jv_proto a) (jv_proto b))%bool
                              (combine l l) = true.
Proof. induction l as [|a l IH]; [reflexivity|]. cbn [combine forallb]. rewrite !beq_refl, IH. reflexivity. Qed.

Lemma stamp_compat (rs : bool) src sport vh :
  Forall (fun o => exists l : list via_param, o = Some l /\ l <> []) vh ->
  let ovs := map B7.jv_of (C07.flat_view (C07.stamp_hdrs rs src sport vh)) in
  let ivs := map B7.jv_of (C07.flat_view vh) in
  List.length ovs = List.length ivs /\
  forallb (fun '(a, b) => beq (jv_host a) (jv_host b) && beq (jv_proto a) (jv_proto b))%bool (combine ovs ivs) = true.
Proof.
  intros F. cbv zeta. rewrite (B7.flat_stamp rs src sport vh F).
  destruct (C07.flat_view vh) as [|v t]; [split; reflexivity|].
  cbn [map List.length combine forallb]. split; [reflexivity|]. rewrite hp_all_refl, andb_true_r.
  destruct rs; [|rewrite !beq_refl; reflexivity].
  unfold B7.jv_of. cbn [jv_host jv_proto C07.stamp v_name v_version v_transport v_host]. rewrite !beq_refl. reflexivity.
Qed.

(* ---- the proxy's own Record-Route header, read by the judge ---- *)
Definition own_rr_text (addr : bytes) (port : Z) : bytes :=
  s2b "<sip:" ++ addr ++ ":"%char :: itoa port ++ s2b ";lr>".

Lemma own_rr_hT t : safe1 (t_addr t) = true -> t_port t <> 0%Z ->
  B13.hT (own_rr_header t) = [own_rr_text (t_addr t) (t_port t)].
Proof.
  intros Ha P. unfold B13.hT, own_rr_header. cbn [h_val hval_print]. rewrite (own_record_route_text t P).
  fold (own_rr_text (t_addr t) (t_port t)). set (X := own_rr_text (t_addr t) (t_port t)).
  apply safe1_parts in Ha. destruct Ha as [_ Ha].
  assert (NC : ~ In ","%char X).
  { unfold X, own_rr_text. intros I. apply in_app_or in I. destruct I as [I|I]; [vm_compute in I; intuition discriminate|].
    apply in_app_or in I. destruct I as [I|[I|I]]; [exact (safe_no_comma _ Ha I)|discriminate I|].
    apply in_app_or in I. destruct I as [I|I]; [exact (C14_via.itoa_no_comma _ I)|vm_compute in I; intuition discriminate]. }
  assert (T : trim_space_go X = X).
  { apply B7.trim_fix_iff. split.
    - unfold X, own_rr_text. change (s2b "<sip:") with ("<"%char :: s2b "sip:"). cbn [app].
      apply B7.lclean_ascii_start; reflexivity.
    - replace X with ((s2b "<sip:" ++ t_addr t ++ ":"%char :: itoa (t_port t)) ++ s2b ";lr>")
        by (unfold X, own_rr_text; rewrite <- !app_assoc; reflexivity).
      apply B7.rclean_tail_clean; [discriminate|reflexivity]. }
  rewrite trim_space_go_sp by reflexivity. rewrite T.
  change X with (join_byte ","%char [X]) at 1. rewrite split_join; [|discriminate|constructor; [exact NC|constructor]].
  cbn [map]. rewrite T. reflexivity.
Qed.

Lemma hT_nonnil h : B13.hT h <> [].
Proof.
  unfold B13.hT. pose proof (split_byte_nonempty ","%char (trim_space_go (" "%char :: hval_print (h_val h)))) as N.
  destruct (split_byte _ _); [contradiction|discriminate].
Qed.
Lemma tview_nonnil_iff hs : match B13.tview hs with [] => false | _ => true end = match hs with [] => false | _ => true end.
Proof.
  destruct hs as [|h r]; [reflexivity|]. unfold B13.tview. cbn [flat_map].
  pose proof (hT_nonnil h) as N. destruct (B13.hT h); [contradiction|reflexivity].
Qed.

Lemma beq_all_refl l : forallb (fun '(a, b) => beq a b) (combine l l) = true.
Proof. apply B13.combine_beq_refl. Qed.

(* ONE OUTPUT ACCEPTED.  [mo] relates to the request [m] as the model prescribes for the transport [t]
   (None: the proxy does not insert itself); the judge expects the identity of [t] and the branch [br] *)
Lemma c06_check_ok br must rs src sport m t mo (o : bytes * bytes) :
  B7.good m -> start_ok (start_line_print (m_start m)) -> (Z.of_nat (List.length (m_body m)) <= int_max)%Z ->
  relayed6 br must rs src sport m t mo -> snd o = write_message mo ->
  (forall t', t = Some t' -> safe1 (t_addr t') = true /\ t_port t' <> 0%Z) ->
  c06_check br (option_map (fun t => (t_proto t, t_addr t, t_port t)) t) must
            (map B7.jv_of (C07.flat_view (C07.via_hdrs m))) (B13.tview (sel RRn (m_headers m))) o = O.
Proof.
  intros G So Bd (G' & S' & B' & K) Eo Ht. unfold c06_check. rewrite Eo.
  destruct (c06_read mo G') as (om & -> & Ev & Er); [rewrite S'; exact So|rewrite B'; exact Bd|].
  rewrite Ev, Er. cbv zeta.
  assert (GV : Forall (fun o => exists l : list via_param, o = Some l /\ l <> []) (C07.via_hdrs m)).
  { apply B7.good_view. eapply Forall_impl; [|exact G]. intros h Gh _. exact Gh. }
  destruct (stamp_compat rs src sport _ GV) as (LE & HP). cbv zeta in LE, HP.
  destruct t as [t|]; cbn [option_map]; destruct K as (K1 & K2); rewrite K1, K2.
  - destruct (Ht t eq_refl) as (Ha & Pn).
    rewrite B7.flat_view_cons. cbn [app map].
    assert (TOP : B7.jv_of (C07.own_via br t) =
                  {| jv_proto := s2b "SIP" ++ "/"%char :: s2b "2.0" ++ "/"%char :: t_proto t;
                     jv_transport := t_proto t; jv_host := t_addr t;
                     jv_port := if Z.eqb (t_port t) 0 then None else Some (t_port t);
                     jv_params := [(s2b "branch", br)] |}) by reflexivity.
    rewrite TOP. cbn [jv_transport jv_host jv_port jv_params].
    replace (Z.eqb (t_port t) 0) with false by (symmetry; apply Z.eqb_neq; exact Pn).
    cbv beta iota. rewrite !beq_refl, Z.eqb_refl, LE, Nat.eqb_refl, HP. cbn [andb negb].
    assert (JB : j_get (s2b "branch") [(s2b "branch", br)] = Some br) by reflexivity.
    rewrite JB. cbv beta iota. rewrite beq_refl. cbn [negb].
    rewrite tview_nonnil_iff, has_header_sel. fold (own_rr_text (t_addr t) (t_port t)).
    destruct (match sel RRn (m_headers m) with [] => false | _ :: _ => true end || must)%bool.
    + assert (TV : B13.tview (own_rr_header t :: sel RRn (m_headers m)) =
                   own_rr_text (t_addr t) (t_port t) :: B13.tview (sel RRn (m_headers m))).
      { unfold B13.tview. cbn [flat_map]. rewrite (own_rr_hT t Ha Pn). reflexivity. }
      rewrite TV, Nat.eqb_refl, beq_all_refl. reflexivity.
    + rewrite Nat.eqb_refl, beq_all_refl. reflexivity.
  - rewrite LE, Nat.eqb_refl. cbn [negb]. rewrite Nat.eqb_refl, beq_all_refl. reflexivity.
Qed.

(* ====================================================================== Part C: the learned tables *)
Definition tr3 (t : stransport) : bytes * bytes * Z := (t_proto t, t_addr t, t_port t).

(* the judge's table (host -> listen entry, TCP?) names, through the configuration, the transport the model
   has learned for the host; same domain.  (jident_of: an entry with SpecProxy.dial_mark, filed for a host learned
   over a connection the proxy dialled, names that connection's port-less transport.) *)
Definition agree_learned (c : cfg) (js : list (bytes * (nat * bool))) (l : learned) : Prop :=
  forall h, match alookup h js, alookup h l with
            | Some (li', tcp'), Some t => jident_of c li' tcp' = Some (tr3 t)
            | None, None => True
            | _, _ => False
            end.

Lemma agree_learn1 c js l h li tcp t :
  agree_learned c js l -> jident_of c li tcp = Some (tr3 t) ->
  agree_learned c (aset h (li, tcp) js) (learn h t l).
Proof.
  intros A J k. rewrite learn_lookup. destruct (beq k h) eqn:E.
  - apply beq_eq in E. subst k. rewrite alookup_aset_same. specialize (A h).
    destruct (alookup h js) as [[li' tcp']|]; destruct (alookup h l) as [old|]; try contradiction; cbv beta iota.
    + destruct (same_transport old t) eqn:S; [|exact J].
      unfold same_transport in S. apply andb_true_iff in S. destruct S as [S S3].
      apply andb_true_iff in S. destruct S as [S1 S2]. apply beq_eq in S1, S2. apply Z.eqb_eq in S3.
      rewrite J. unfold tr3. rewrite S1, S2, S3. reflexivity.
    + exact J.
  - apply beq_neq in E. rewrite alookup_aset_other by exact E. exact (A k).
Qed.

Lemma agree_fold c li tcp t hosts : jident_of c li tcp = Some (tr3 t) -> forall js l, agree_learned c js l ->
  agree_learned c (fold_left (fun l h => aset h (li, tcp) l) hosts js) (fold_left (fun l h => learn h t l) hosts l).
Proof.
  intros J. induction hosts as [|h r IH]; intros js l A; [exact A|]. cbn [fold_left]. apply IH.
  apply agree_learn1; assumption.
Qed.

Lemma hosts_agree ents : forall vs, opt_all (map j_via ents) = Some vs ->
  flat_map (fun e => match j_via e with Some v => [jv_host v] | None => [] end) ents = map jv_host vs.
Proof.
  induction ents as [|e r IH]; intros vs H; cbn [map opt_all] in H.
  - injection H as <-. reflexivity.
  - destruct (j_via e) as [v|] eqn:E; [|discriminate H].
    destruct (opt_all (map j_via r)) as [x|]; [|discriminate H]. injection H as <-.
    cbn [flat_map map]. rewrite E. cbn [app]. f_equal. apply IH. reflexivity.
Qed.

Lemma all_vias_flat m : all_vias (m_headers m) = C07.flat_view (C07.via_hdrs m).
Proof. rewrite <- decode_all_vias_snd. apply C07.flat_vias_decode. Qed.

(* the judge's j_learn and the model's learning keep the tables in agreement *)
Lemma j_learn_agree c stj li lc src sport data jin m x :
  agree_learned c (js_learned stj) (x_learned x) ->
  nth_opt (c_listens c) li = Some lc ->
  j_is_response jin = false -> is_request m = true -> amem src (ps_backends (x_p x)) = false ->
  opt_all (map j_via (j_flat_via (jm_headers jin))) = Some (map B7.jv_of (C07.flat_view (C07.via_hdrs m))) ->
  agree_learned c (j_learn stj (jin_udp li src sport data) jin) (learned_after src (B13.udp_transport lc) m x).
Proof.
  intros A N Rj Rm NB EV. unfold j_learn, learned_after, jin_udp, ji_dialled. rewrite Rj, Rm, NB.
  cbn [andb negb ji_src ji_li ji_tcp].
  rewrite (hosts_agree _ _ EV), map_map, all_vias_flat.
  change (map (fun x0 : via_param => jv_host (B7.jv_of x0))) with (map v_host).
  apply (agree_fold c li false (B13.udp_transport lc)); [|exact A].
  unfold jident_of, jtrans_of. cbn [andb]. rewrite N. reflexivity.
Qed.

(* learned transports print as readable own entries *)
Definition lrn_ok (l : learned) : Prop :=
  forall h t, alookup h l = Some t -> safe1 (t_addr t) = true /\ (1 <= t_port t <= 65535)%Z.
Lemma lrn_ok_learn ip t l : safe1 (t_addr t) = true -> (1 <= t_port t <= 65535)%Z -> lrn_ok l -> lrn_ok (learn ip t l).
Proof.
  intros Ha Hp Hl h t' A. rewrite learn_lookup in A. destruct (beq h ip).
  - destruct (alookup ip l) as [old|] eqn:Ao.
    + destruct (same_transport old t); injection A as <-; [exact (Hl _ _ Ao)|split; assumption].
    + injection A as <-. split; assumption.
  - exact (Hl _ _ A).
Qed.
Lemma lrn_ok_fold t hosts : safe1 (t_addr t) = true -> (1 <= t_port t <= 65535)%Z ->
  forall l, lrn_ok l -> lrn_ok (fold_left (fun l h => learn h t l) hosts l).
Proof.
  intros Ha Hp. induction hosts as [|h r IH]; intros l Hl; [exact Hl|]. cbn [fold_left]. apply IH.
  apply lrn_ok_learn; assumption.
Qed.
Lemma lrn_ok_after src from m x : safe1 (t_addr from) = true -> (1 <= t_port from <= 65535)%Z ->
  lrn_ok (x_learned x) -> lrn_ok (learned_after src from m x).
Proof.
  intros Ha Hp Hl. unfold learned_after. destruct (_ && _)%bool; [|exact Hl]. apply lrn_ok_fold; assumption.
Qed.
Lemma lrn_learned_ok br l : B7.branch_ok br -> lrn_ok l -> B7.learned_ok br l.
Proof. intros Hb Hl h t A. destruct (Hl h t A) as [A1 A2]. apply B7.t_ok_intro; [exact A1|lia|exact Hb]. Qed.

(* ====================================================================== Part D: the bridge under ident_agree *)
(* the identity the MODEL puts on top: None = nothing is sent; Some None = relayed without own entry *)
Definition model_ident (c : cfg) (lc : listen_cfg) (from : stransport) (m : message) (L : learned)
  : option (option (bytes * bytes * Z)) :=
  match effective_hop c from m with
  | HopAddr host _ _ => Some (option_map tr3 (alookup host L))
  | HopBackend => match first_transport lc with Some t0 => Some (Some (tr3 t0)) | None => None end
  | _ => None
  end.
(* ... is the one the JUDGE expects (when the request is in the judge's domain) *)
Definition ident_agree (c : cfg) (lc : listen_cfg) (q : jreq) (LJ : list (bytes * (nat * bool)))
           (from : stransport) (m : message) (L : learned) : Prop :=
  match j_choose c lc false q with
  | HOut => True
  | _ => match model_ident c lc from m L with Some i => c06_ident c lc false q LJ = i | None => True end
  end.

Lemma labelled_snd o : is_msg o = true -> snd (B13.labelled o) = snd o.
Proof. destruct o as [[ip p|c|ip p c] b]; [reflexivity|reflexivity|discriminate]. Qed.

(* PARTIAL FORM (what is missing is discharged in Part E/F): reason codes 1 (Via stack), 2 (Record-Route stack)
   and 3 (branch) never arise for what the model emits, PROVIDED the listener identity the judge expects is
   the one the model uses ([ident_agree]: same hop choice, same learned transport for the hop host). *)
Theorem C06_judge_bridge_udp_partial :
  forall pc stj li lc src sport data closed jin m rest e rs x x' pre,
  nth_opt (c_listens (pc_cfg pc)) li = Some lc -> e_cfg e = pc_cfg pc -> e_lc e = lc ->
  e_branch e = branch_of (js_event stj) ->
  j_read data = Some jin -> parse_message data = Ok (m, rest) ->
  B7.via_domain m -> B7.src_ok src -> B7.branch_ok (e_branch e) ->
  safe1 (lc_addr lc) = true -> (1 <= lc_udp lc <= 65535)%Z -> (0 <= lc_tcp lc <= 65535)%Z ->
  lrn_ok (x_learned x) ->
  (forall q, j_request jin = Some q ->
     ident_agree (pc_cfg pc) lc q (j_learn stj (jin_udp li src sport data) jin)
                 (B13.udp_transport lc) m (learned_after src (B13.udp_transport lc) m x)) ->
  process_message e src sport (B13.udp_transport lc) rs None m x = Ok x' ->
  x_outs x' = x_outs x ++ pre ->
  forall vis, judge_C06_event pc stj (EvUdp li src sport data) (map B13.labelled (filter vis pre)) closed = 0%nat.
Proof.
  intros pc stj li lc src sport data closed jin m rest e rs x x' pre
         N He Hlc Hbe J P HV Hsrc Hbr Ha Hu Ht HLn IA EP EO vis.
  rewrite judge_C06_udp_unfold, J, N.
  destruct (negb (j_is_response jin) && jm_has_cl jin && (negb false || single_message jin))%bool eqn:Cond;
    [|reflexivity].
  destruct (j_request jin) as [q|] eqn:Q; [|reflexivity].
  destruct (read_agree _ _ _ _ J P) as (_ & _ & _ & Bd & PS).
  destruct (B7.read_agree_all _ _ _ _ J P) as (EH & PR).
  assert (Hq : is_request m = true).
  { unfold is_request. rewrite (B7.parse_start_line_kind _ _ PS).
    apply andb_true_iff in Cond. destruct Cond as [Cond _]. apply andb_true_iff in Cond.
    destruct Cond as [Cond _]. exact Cond. }
  assert (Hst : start_ok (start_line_print (m_start m))).
  { unfold is_request in Hq. destruct (m_start m) as [meth uri ver|] eqn:Em; [|discriminate Hq].
    exact (B7.request_line_ok _ _ _ _ PS). }
  assert (G0 : B7.good m) by (apply B7.good_of_parse; assumption).
  rewrite EH. rewrite (B7.via_read (m_headers m)) by (eapply Forall_impl; [|exact G0]; intros h Gh _; exact Gh).
  rewrite (j_flat_sel is_rr RRn _ same_header_rr), c06_must_eq.
  specialize (IA q eq_refl). unfold ident_agree in IA.
  set (from := B13.udp_transport lc) in *.
  set (L1 := learned_after src from m x) in *.
  assert (Hfa : safe1 (t_addr from) = true) by exact Ha.
  assert (Hfp : (1 <= t_port from <= 65535)%Z) by exact Hu.
  assert (Hfrom : B7.t_ok (e_branch e) from) by (apply B7.t_ok_intro; [exact Hfa|cbn; lia|exact Hbr]).
  assert (HL : B7.learned_ok (e_branch e) (x_learned x)) by (apply lrn_learned_ok; assumption).
  assert (HL1 : lrn_ok L1) by (apply lrn_ok_after; assumption).
  assert (FT : first_transport lc = Some from).
  { unfold first_transport. replace (Z.ltb 0 (lc_udp lc)) with true by (symmetry; apply Z.ltb_lt; lia). reflexivity. }
  assert (HF : forall t0, first_transport (e_lc e) = Some t0 -> B7.t_ok (e_branch e) t0).
  { intros t0 E0. rewrite Hlc, FT in E0. injection E0 as <-. exact Hfrom. }
  destruct (C06_outputs e src sport from rs m x x' Hq G0 Hsrc Hfrom HL HF EP) as (extra & E1 & W).
  rewrite E1 in EO. apply app_inv_head in EO. subst extra.
  assert (MAIN : forall idj,
            match model_ident (pc_cfg pc) lc from m L1 with Some i => idj = i | None => True end ->
            first_nonzero
              (map (c06_check (branch_of (js_event stj)) idj (lc_must_rr lc)
                              (map B7.jv_of (C07.flat_view (C07.via_view (m_headers m))))
                              (B13.tview (sel RRn (m_headers m))))
                   (msgs_of (map B13.labelled (filter vis pre)))) = 0%nat).
  { intros idj MI. rewrite B13.msgs_of_labelled. apply B13.first_nonzero_zero. intros lo Ilo.
    apply in_map_iff in Ilo. destruct Ilo as (o & <- & Io).
    apply filter_In in Io. destruct Io as [Io Mo]. apply filter_In in Io. destruct Io as [Io _].
    destruct (W o Io Mo) as (mo & Bo & Po). rewrite He in Po. fold L1 in Po.
    unfold post6 in Po. unfold model_ident in MI.
    assert (MU : must_of e = lc_must_rr lc) by (unfold must_of, wire_proxy; cbn [pa_must_rr]; rewrite Hlc; reflexivity).
    rewrite MU, Hbe in Po.
    destruct (effective_hop (pc_cfg pc) from m) as [host port tr| | |]; try contradiction.
    - subst idj.
      apply (c06_check_ok _ _ rs src sport m (alookup host L1) mo _ G0 Hst Bd Po).
      + rewrite labelled_snd by exact Mo. exact Bo.
      + intros t' A. destruct (HL1 _ _ A) as [A1 A2]. split; [exact A1|]. clear - A2. lia.
    - destruct Po as (t0 & F0 & Po). rewrite Hlc, FT in F0. injection F0 as <-. rewrite FT in MI. subst idj.
      apply (c06_check_ok _ _ rs src sport m (Some from) mo _ G0 Hst Bd Po).
      + rewrite labelled_snd by exact Mo. exact Bo.
      + intros t' A. injection A as <-. split; [exact Hfa|]. clear - Hfp. lia. }
  destruct (j_choose (pc_cfg pc) lc false q); [reflexivity|exact (MAIN _ IA)|exact (MAIN _ IA)|exact (MAIN _ IA)].
Qed.

(* ====================================================================== Part E: the hop choice *)
(* ---- the judge's URI reader on reference text, user part included ---- *)
Lemma j_userhost_full o hp : wf_user o = true -> ~ In "@"%char hp ->
  B13.j_userhost (rp_user o ++ hp) = (emb_user o, hp).
Proof.
  intros H Hhp. unfold B13.j_userhost.
  destruct o as [[usr [pw|]]|]; cbn [wf_user rp_user emb_user] in *.
  - apply andb_true_iff in H. destruct H as [H1 H2].
    apply safe1_parts in H1, H2. destruct H1 as [_ H1], H2 as [_ H2].
    assert (N : ~ In "@"%char (usr ++ ":"%char :: pw)).
    { apply notin_app; [apply safe_no_at, H1|]. apply notin_cons; [discriminate|apply safe_no_at, H2]. }
    replace ((usr ++ ":"%char :: pw ++ ["@"%char]) ++ hp)
      with ((usr ++ ":"%char :: pw) ++ "@"%char :: hp) by (norm_app; reflexivity).
    destruct (index_cut _ _ hp N) as (E1 & E2 & E3). rewrite E1. cbv beta iota. rewrite E2, E3.
    destruct (index_cut ":"%char usr pw (safe_no_colon _ H1)) as (F1 & _ & _). rewrite F1.
    rewrite <- app_assoc, firstn_len_app. reflexivity.
  - rewrite andb_true_r in H. apply safe1_parts in H. destruct H as [_ H].
    replace ((usr ++ ["@"%char]) ++ hp) with (usr ++ "@"%char :: hp) by (norm_app; reflexivity).
    destruct (index_cut _ usr hp (safe_no_at _ H)) as (E1 & E2 & E3). rewrite E1. cbv beta iota. rewrite E2, E3.
    rewrite index_notin by (apply safe_no_colon, H). reflexivity.
  - cbn [app]. rewrite index_notin by exact Hhp. reflexivity.
Qed.

Lemma j_go_full txt u : wf_sipuri u = true ->
  B13.j_go txt ((rp_core u ++ rp_params (au_params u)) ++ rp_hdrs (au_headers u)) =
    {| ju_sip := true; ju_text := txt; ju_user := emb_user (au_user u); ju_host := au_host u; ju_port := au_port u;
       ju_params := map j_kv (map rp_param (au_params u)) |}.
Proof.
  intros H. destruct (wf_sipuri_parts u H) as (Hu & Hh & Hp & Hps & Hhs).
  apply safe1_parts in Hh. destruct Hh as [_ Hh].
  set (S1 := rp_core u ++ rp_params (au_params u)).
  assert (N : ~ In "?"%char S1) by (apply (pm_notin "?"%char _ eq_refl), rp_core_params_pm, H).
  assert (B1 : match index_byte "?"%char (S1 ++ rp_hdrs (au_headers u)) with
               | Some p => firstn p (S1 ++ rp_hdrs (au_headers u))
               | None => S1 ++ rp_hdrs (au_headers u) end = S1).
  { destruct (au_headers u) as [|h r]; cbn [rp_hdrs].
    - rewrite app_nil_r, index_notin by exact N. reflexivity.
    - destruct (index_cut _ S1 (rp_hdr h ++ flat_map (fun y => "&"%char :: rp_hdr y) r) N) as (E1 & E2 & _).
      rewrite E1. exact E2. }
  assert (SP : split_byte ";"%char S1 = rp_core u :: map rp_param (au_params u)).
  { unfold S1, rp_params. apply split_flat.
    - apply (hp_notin ";"%char _ eq_refl), rp_core_hp, H.
    - apply (forallb_Forall_wf wf_param); [apply rp_param_no_semi|exact Hps]. }
  unfold B13.j_go. rewrite B1. cbv zeta. rewrite SP. cbv beta iota.
  assert (NA : ~ In "@"%char (au_host u ++ rp_port (au_port u))).
  { apply notin_app; [apply safe_no_at, Hh|apply rp_port_notin; [discriminate|reflexivity]]. }
  pose proof (j_userhost_full (au_user u) _ Hu NA) as K. fold (rp_core u) in K.
  rewrite K. cbv beta iota. rewrite (B13.j_hostport_ok _ _ Hh Hp). reflexivity.
Qed.

Lemma j_uri_full u : wf_sipuri u = true ->
  exists txt, j_uri (rp_sipuri u) =
    {| ju_sip := true; ju_text := txt; ju_user := emb_user (au_user u); ju_host := au_host u;
       ju_port := au_port u; ju_params := map j_kv (map rp_param (au_params u)) |}.
Proof.
  intros H. rewrite B13.j_uri_unfold, rp_sipuri_eq2.
  set (B := (rp_core u ++ rp_params (au_params u)) ++ rp_hdrs (au_headers u)).
  destruct (au_secure u); unfold rp_scheme.
  - change (has_prefix (s2b "sip:") (s2b "sips:" ++ B)) with false.
    change (has_prefix (s2b "sips:") (s2b "sips:" ++ B)) with true.
    change (skipn 5 (s2b "sips:" ++ B)) with B. cbv iota.
    eexists. apply (j_go_full _ u H).
  - change (has_prefix (s2b "sip:") (s2b "sip:" ++ B)) with true.
    change (skipn 4 (s2b "sip:" ++ B)) with B. cbv iota.
    eexists. apply (j_go_full _ u H).
Qed.

Lemma eff_port_full txt u : wf_sipuri u = true ->
  ju_eff_port {| ju_sip := true; ju_text := txt; ju_user := emb_user (au_user u); ju_host := au_host u;
                 ju_port := au_port u; ju_params := map j_kv (map rp_param (au_params u)) |}
  = sip_uri_get_port (embed_sipuri u).
Proof.
  intros H. destruct (wf_sipuri_parts u H) as (_ & _ & Hpt & Hps & _).
  rewrite (sip_uri_get_port_embed u Hpt). unfold ju_eff_port, ju_transport. cbn [ju_port ju_params].
  rewrite (B13.j_get_params _ _ Hps). fold (x_transport u).
  destruct (au_port u) as [z|]; [|reflexivity].
  apply wf_port_range in Hpt. replace (Z.eqb z 0) with false; [reflexivity|]. symmetry. apply Z.eqb_neq. lia.
Qed.

(* a Route entry: what the judge reads in its text / what the model decodes *)
Lemma top_agree a : wf_relem a = true ->
  match na_addr (r_addr (embed_relem a)) with
  | ASip u => ju_sip (j_entry_uri (rp_relem a)) = true /\ ju_host (j_entry_uri (rp_relem a)) = u_host u
  | AAbs _ => ju_sip (j_entry_uri (rp_relem a)) = false
  end.
Proof.
  intros W. destruct (wf_relem_parts a W) as [Hn _]. destruct (wf_nameaddr_parts _ Hn) as [_ Hw].
  rewrite (B13.j_entry_relem a W). cbn [embed_relem r_addr embed_nameaddr na_addr].
  destruct (an_addr (ar_na a)) as [u|s]; cbn [embed_addr rp_addr wf_addr] in *.
  - destruct (j_uri_full u Hw) as (txt & ->). split; reflexivity.
  - destruct (wf_other_parts s Hw) as (_ & _ & E1 & E2). rewrite B13.j_uri_unfold, E1, E2. reflexivity.
Qed.

(* ---- Request-URI: the service match ---- *)
(* the Request-URI is written in the C14 grammar *)
(* ... and strings.Fields (the proxy) splits the request line like the judge's ASCII split: no
   UTF-8 encoding of a Unicode white-space rune inside it ([no_usp (jm_start jin) = true] is
   sufficient, BytesLemmas.fields_go_no_usp; [wf_addr] allows bytes >= 128 in the Request-URI) *)
Definition ruri_domain (jin : jmsg) : Prop :=
  fields_go (jm_start jin) = fields (jm_start jin) /\
  forall q, j_request jin = Some q -> exists a, wf_addr a = true /\ jq_ruri q = rp_addr a.

Lemma service_agree c lc from jin m q :
  t_addr from = lc_addr lc -> t_port from = listener_port lc false ->
  parse_start_line (jm_start jin) = Ok (m_start m) -> j_request jin = Some q ->
  fields_go (jm_start jin) = fields (jm_start jin) ->
  (exists a, wf_addr a = true /\ jq_ruri q = rp_addr a) ->
  j_service_match c lc false (jq_ruri q) = is_my_message (new_my_name (c_name c)) from m.
Proof.
  intros Ha Hp PS Q G (a & Hw & Eu).
  unfold j_request, j_is_response in Q. unfold parse_start_line in PS.
  destruct (has_prefix (s2b "SIP/") (jm_start jin)); [discriminate Q|].
  unfold parse_request_line in PS. rewrite G in PS.
  destruct (fields (jm_start jin)) as [|meth [|u [|v [|x y]]]]; try discriminate Q.
  injection Q as <-. cbn [jq_ruri] in *. subst u.
  rewrite (parse_addr_spec_rp a Hw) in PS. cbn [rbind] in PS. injection PS as PS.
  unfold is_my_message. rewrite <- PS. unfold j_service_match.
  destruct a as [u|s]; cbn [rp_addr embed_addr wf_addr] in *.
  - destruct (j_uri_full u Hw) as (txt & ->). cbn [ju_sip]. rewrite (eff_port_full txt u Hw).
    cbn [ju_host ju_user embed_sipuri u_host u_user]. rewrite Ha, Hp. reflexivity.
  - destruct (wf_other_parts s Hw) as (_ & _ & E1 & E2). rewrite B13.j_uri_unfold, E1, E2. reflexivity.
Qed.

(* ---- To: the static route ---- *)
Lemma same_header_to n : same_header n (s2b "To") = is_to n.
Proof. reflexivity. Qed.

Lemma j_first_get (p : bytes -> bool) nm hs : (forall n, same_header n nm = p n) ->
  j_first p (map (fun h => jpair (hpair h)) hs) = option_map (fun h => snd (jpair (hpair h))) (get_header nm hs).
Proof.
  intros E. unfold j_first. induction hs as [|h r IH]; [reflexivity|].
  cbn [map filter get_header]. change (fst (jpair (hpair h))) with (h_name h). rewrite <- E.
  destruct (same_header (h_name h) nm); [reflexivity|exact IH].
Qed.
Lemma j_request_to jin q : j_request jin = Some q -> jq_to q = j_first is_to (jm_headers jin).
Proof.
  unfold j_request. destruct (j_is_response jin); [discriminate|].
  destruct (fields (jm_start jin)) as [|a [|b [|c [|d l]]]]; try discriminate.
  intros H. injection H as <-. reflexivity.
Qed.

(* the (first) To header value is written in the C14 grammar *)
Definition to_domain (m : message) : Prop :=
  forall h, get_header (s2b "To") (m_headers m) = Some h ->
    exists f, wf_fromto f = true /\ h_val h = HRaw (rp_fromto f).

Lemma j_entry_nameaddr n tail : wf_nameaddr n = true ->
  j_entry_uri (rp_nameaddr n ++ tail) = j_uri (rp_addr (an_addr n)).
Proof.
  intros Hn. unfold j_entry_uri.
  destruct (nameaddr_cut n tail Hn) as (E1 & E2 & _).
  rewrite E1, E2. f_equal.
  unfold slice, na_pos. rewrite rp_nameaddr_app, <- app_assoc. cbn [app].
  rewrite skipn_S_len_app, app_length. cbn [List.length].
  replace (List.length (an_display n) + S (List.length (rp_addr (an_addr n))) - S (List.length (an_display n)))%nat
    with (List.length (rp_addr (an_addr n))) by lia.
  apply firstn_len_app.
Qed.

Lemma j_entry_fromto f : wf_fromto f = true -> j_entry_uri (rp_fromto f) = j_uri (rp_addr (a_ft_addr f)).
Proof.
  intros H. destruct (wf_fromto_parts f H) as [Ha Hps]. unfold rp_fromto, a_ft_addr.
  destruct (af_addr f) as [n|a]; cbn [wf_ftaddr] in Ha.
  - apply j_entry_nameaddr, Ha.
  - pose proof (wf_bare_addr a Ha) as Hw. unfold j_entry_uri.
    rewrite index_notin by (apply notin_app; [apply rp_addr_no_lt, Hw|apply rp_params_no_lt, Hps]).
    cbv beta iota. f_equal.
    destruct (af_params f) as [|p ps].
    + cbn [rp_params flat_map]. rewrite app_nil_r, index_notin by (apply rp_bare_no_semi, Ha). reflexivity.
    + rewrite rp_params_cons.
      destruct (index_cut ";"%char (rp_addr a) (rp_param p ++ rp_params ps) (rp_bare_no_semi a Ha)) as (F1 & F2 & _).
      rewrite F1. exact F2.
Qed.

(* ---- the judge's choice, restated ---- *)
Definition rem_j (c : cfg) (lc : listen_cfg) (tcp : bool) (routes : list bytes) : list bytes :=
  match routes with e :: r => if j_own c lc tcp e then r else e :: r | [] => [] end.
Definition j_static (c : cfg) (q : jreq) : option (option jdest) :=
  match jq_to q with
  | Some t => let u := j_entry_uri t in
              if ju_sip u then
                match find_route (route_table_of c) (ju_host u) with
                | Some it => Some (Some (j_dest c (ri_proto it) (ri_host it) (ri_port it)))
                | None => Some None
                end
              else Some None
  | None => Some None
  end.
Definition j_lower (c : cfg) (lc : listen_cfg) (tcp : bool) (q : jreq) : jhop :=
  match j_static c q with
  | None => HOut
  | Some (Some d) => HHop d
  | Some None => if j_service_match c lc tcp (jq_ruri q) then HBackend else HDrop
  end.
Definition host_low (c : cfg) (q : jreq) : option bytes :=
  match jq_to q with
  | Some t => match find_route (route_table_of c) (ju_host (j_entry_uri t)) with
              | Some it => Some (ri_host it) | None => None end
  | None => None end.
Lemma j_choose_rem c lc tcp q :
  j_choose c lc tcp q =
  match rem_j c lc tcp (jq_routes q) with
  | e :: _ => if ju_sip (j_entry_uri e)
              then HHop (j_dest c (ju_transport (j_entry_uri e)) (ju_host (j_entry_uri e)) (ju_eff_port (j_entry_uri e)))
              else HOut
  | [] => j_lower c lc tcp q
  end.
Proof. reflexivity. Qed.
Lemma c06_host_rem c lc tcp q :
  c06_host c lc tcp q =
  match rem_j c lc tcp (jq_routes q) with e :: _ => Some (ju_host (j_entry_uri e)) | [] => host_low c q end.
Proof. reflexivity. Qed.

(* the judge's hop [jh] and host against the model's hop [mh] *)
Definition hop_rel (jh : jhop) (host : option bytes) (mh : hop) : Prop :=
  match jh with
  | HOut => True
  | HDrop => mh = HopNone
  | HBackend => mh = HopBackend
  | HHop _ => exists h p t, mh = HopAddr h p t /\ host = Some h
  end.

Lemma lower_agree c lc from jin m q :
  t_addr from = lc_addr lc -> t_port from = listener_port lc false ->
  jm_headers jin = map (fun h => jpair (hpair h)) (m_headers m) -> Forall B7.praw (m_headers m) ->
  parse_start_line (jm_start jin) = Ok (m_start m) -> j_request jin = Some q ->
  to_domain m -> ruri_domain jin ->
  hop_rel (j_lower c lc false q) (host_low c q) (lower_choice c from m).
Proof.
  intros Ha Hp EH PR PS Q TD RD.
  pose proof (service_agree c lc from jin m q Ha Hp PS Q (proj1 RD) (proj2 RD q Q)) as SV.
  unfold j_lower, j_static, host_low, lower_choice, static_hop, decoded_to.
  rewrite (j_request_to _ _ Q), EH, (j_first_get is_to (s2b "To") _ same_header_to), SV.
  set (my := is_my_message (new_my_name (c_name c)) from m).
  assert (SVC : forall host, hop_rel (if my then HBackend else HDrop) host (if my then HopBackend else HopNone))
    by (intros host; destruct my; reflexivity).
  destruct (get_header (s2b "To") (m_headers m)) as [h|] eqn:GT; cbn [option_map]; [|apply SVC].
  destruct (TD h GT) as (f & Wf & Ev).
  destruct (get_header_in _ _ _ GT) as [Ih _]. rewrite Forall_forall in PR.
  destruct (PR h Ih) as (_ & v & Hv & _ & T). rewrite Ev in Hv. injection Hv as <-.
  assert (SN : snd (jpair (hpair h)) = rp_fromto f).
  { unfold jpair, hpair. cbn [fst snd]. rewrite Ev. cbn [hval_print].
    rewrite trim_space_go_sp by reflexivity. exact T. }
  rewrite SN, Ev, (parse_fromto_rp f Wf), fromto_host_embed, (j_entry_fromto f Wf).
  pose proof (wf_fromto_addr f Wf) as Hw.
  destruct (a_ft_addr f) as [u|s]; cbn [rp_addr wf_addr] in *.
  - destruct (j_uri_full u Hw) as (txt & ->). cbn [ju_sip ju_host].
    destruct (find_route (route_table_of c) (au_host u)) as [it|]; [|apply SVC].
    exists (ri_host it), (ri_port it), (ri_proto it). split; reflexivity.
  - destruct (wf_other_parts s Hw) as (_ & _ & E1 & E2). rewrite B13.j_uri_unfold, E1, E2. cbn [ju_sip].
    apply SVC.
Qed.

(* ---- Route: the judge's entries / the model's entries ---- *)
Definition ent_of (a : a_relem) : rentry := EDec (embed_relem a).

Lemma entries_good h rest l : B13.good_hdr h l -> entries_of (h :: rest) = map ent_of l ++ entries_of rest.
Proof.
  intros ((NE & W & _ & _) & E). unfold entries_of. cbn [flat_map]. f_equal.
  assert (D : dec_route (h_val h) = Some (map embed_relem l)).
  { destruct E as [E|E]; rewrite E; cbn [dec_route]; [rewrite (parse_route_rp l NE W)|]; reflexivity. }
  unfold hval_entries. rewrite D. destruct l as [|a l]; [contradiction|]. cbn [map]. rewrite map_map. reflexivity.
Qed.

Lemma routes_split jin m :
  jm_headers jin = map (fun h => jpair (hpair h)) (m_headers m) -> Forall B7.praw (m_headers m) ->
  B13.route_domain_in (B13.RS m) ->
  exists pre jt mt,
    forallb wf_relem pre = true /\
    j_flat is_route (jm_headers jin) = map rp_relem pre ++ jt /\
    route_view m = map ent_of pre ++ mt /\
    ((List.length pre <= 1)%nat -> jt = [] /\ mt = []).
Proof.
  intros EH PR Dom. rewrite EH, (j_flat_sel is_route (s2b "Route") _ same_header_route).
  unfold route_view. change (sel (s2b "Route") (m_headers m)) with (B13.RS m).
  assert (RD : B13.route_domain (B13.RS m)).
  { apply B13.domain_in_good; [|exact Dom]. unfold B13.RS, sel. apply Forall_forall. intros h Ih v Ev.
    apply filter_In in Ih. destruct Ih as [Ih _]. rewrite Forall_forall in PR.
    destruct (PR h Ih) as (_ & v' & Hv & _ & T). rewrite Hv in Ev. injection Ev as <-. exact T. }
  destruct (B13.RS m) as [|h1 [|h2 rest]].
  - exists [], [], []. split; [reflexivity|]. split; [reflexivity|]. split; [reflexivity|]. intros _. split; reflexivity.
  - destruct RD as ((l1 & G1) & _). exists l1, [], [].
    split; [exact (proj1 (proj2 (proj1 G1)))|].
    split; [rewrite (B13.tview_good h1 [] l1 G1); reflexivity|].
    split; [rewrite (entries_good h1 [] l1 G1); reflexivity|]. intros _. split; reflexivity.
  - destruct RD as ((l1 & G1) & (l2 & G2)). exists (l1 ++ l2), (B13.tview rest), (entries_of rest).
    split; [rewrite forallb_app, (proj1 (proj2 (proj1 G1))), (proj1 (proj2 (proj1 G2))); reflexivity|].
    split; [rewrite (B13.tview_good h1 _ l1 G1), (B13.tview_good h2 _ l2 G2), map_app, <- app_assoc; reflexivity|].
    split; [rewrite (entries_good h1 _ l1 G1), (entries_good h2 _ l2 G2), map_app, <- app_assoc; reflexivity|].
    intros L. exfalso. destruct G1 as ((NE1 & _) & _). destruct G2 as ((NE2 & _) & _).
    destruct l1 as [|a1 l1]; [contradiction|]. destruct l2 as [|a2 l2]; [contradiction|].
    rewrite app_length in L. cbn [List.length] in L. lia.
Qed.

(* HOP AGREEMENT.  On the grammar domain (Route entries of the first two Route headers, the first To header,
   the Request-URI written in the C14 grammar) the hop the judge computes from the TEXT (j_choose) and the
   host it looks up in its learned table are the hop the model takes (C03.effective_hop) and its host *)
Theorem hop_agree c lc from jin m q :
  t_addr from = lc_addr lc -> t_port from = listener_port lc false ->
  jm_headers jin = map (fun h => jpair (hpair h)) (m_headers m) -> Forall B7.praw (m_headers m) ->
  parse_start_line (jm_start jin) = Ok (m_start m) -> j_request jin = Some q ->
  B13.route_domain_in (B13.RS m) -> to_domain m -> ruri_domain jin ->
  hop_rel (j_choose c lc false q) (c06_host c lc false q) (effective_hop c from m).
Proof.
  intros Ha Hp EH PR PS Q Dom TD RD.
  pose proof (lower_agree c lc from jin m q Ha Hp EH PR PS Q TD RD) as LOW.
  rewrite j_choose_rem, c06_host_rem, effective_hop_spec, (B13.j_request_routes _ _ Q).
  destruct (routes_split jin m EH PR Dom) as (pre & jt & mt & W & EJ & EM & SH). rewrite EJ, EM.
  assert (TOP : forall x jr mr, wf_relem x = true ->
            hop_rel (match rp_relem x :: jr with
                     | e :: _ => if ju_sip (j_entry_uri e)
                                 then HHop (j_dest c (ju_transport (j_entry_uri e)) (ju_host (j_entry_uri e))
                                                   (ju_eff_port (j_entry_uri e)))
                                 else HOut
                     | [] => j_lower c lc false q end)
                    (match rp_relem x :: jr with e :: _ => Some (ju_host (j_entry_uri e)) | [] => host_low c q end)
                    (match ent_of x :: mr with
                     | EDec rp :: _ => match na_addr (r_addr rp) with
                                       | ASip u => HopAddr (u_host u) (sip_uri_get_port u) (sip_uri_transport u)
                                       | AAbs _ => lower_choice c from m
                                       end
                     | _ => lower_choice c from m
                     end)).
  { intros x jr mr Wx. unfold ent_of. cbv beta iota. pose proof (top_agree x Wx) as TA.
    destruct (na_addr (r_addr (embed_relem x))) as [u|s].
    - destruct TA as (Sip & Hh). rewrite Sip, Hh. eexists _, _, _. split; reflexivity.
    - rewrite TA. exact I. }
  destruct pre as [|a pre'].
  - destruct (SH (le_S _ _ (le_n 0))) as (-> & ->). exact LOW.
  - cbn [forallb] in W. apply andb_true_iff in W. destruct W as [Wa W'].
    cbn [map app]. unfold rem_j, drop_own.
    rewrite (B13.own_agree c lc false from a Ha Hp Wa). unfold ent_of at 1.
    destruct (designates c from (embed_relem a)).
    + destruct pre' as [|b pre''].
      * destruct (SH (le_n 1)) as (-> & ->). exact LOW.
      * cbn [forallb] in W'. apply andb_true_iff in W'. destruct W' as [Wb _].
        cbn [map app]. exact (TOP b (map rp_relem pre'' ++ jt) (map ent_of pre'' ++ mt) Wb).
    + exact (TOP a (map rp_relem pre' ++ jt) (map ent_of pre' ++ mt) Wa).
Qed.

(* ====================================================================== Part F: the bridge *)
Lemma first_of_agree lc : match first_transport lc with Some t0 => first_of lc = tr3 t0 | None => True end.
Proof.
  unfold first_transport, first_of. destruct (Z.ltb 0 (lc_udp lc)); [reflexivity|].
  destruct (Z.ltb 0 (lc_tcp lc)); [reflexivity|exact I].
Qed.

Lemma ident_agree_of c lc q LJ from m L :
  hop_rel (j_choose c lc false q) (c06_host c lc false q) (effective_hop c from m) ->
  agree_learned c LJ L -> ident_agree c lc q LJ from m L.
Proof.
  intros HR AG. unfold ident_agree, model_ident, c06_ident.
  destruct (j_choose c lc false q); cbn [hop_rel] in HR; [exact I| | |].
  - rewrite HR. exact I.
  - destruct HR as (h & p & t & -> & ->). specialize (AG h).
    destruct (alookup h LJ) as [[li' tcp']|]; destruct (alookup h L) as [t0|]; try contradiction;
      [exact AG|reflexivity].
  - rewrite HR. pose proof (first_of_agree lc) as FA.
    destruct (first_transport lc) as [t0|]; [rewrite FA; reflexivity|exact I].
Qed.

Lemma j_request_not_response jin q : j_request jin = Some q -> j_is_response jin = false.
Proof. unfold j_request. destruct (j_is_response jin); [discriminate|reflexivity]. Qed.

(* THE BRIDGE, process_message level.  Conditions on the input / the state before the event only:
     agree_learned            the judge's learned table names the transports of the model's table
     amem src backends = false the sender is not a key of the backend table (keys are "ip:port" texts, the
                              sender a bare IP: the model learns from every such request, as j_learn does)
     B7.via_domain m          Via header values in the C14 grammar
     B13.route_domain_in      the first two Route headers in the C14 grammar (no leading blank)
     to_domain m              the first To header value in the C14 grammar
     ruri_domain jin          the Request-URI in the C14 grammar
     B7.src_ok, B7.branch_ok, safe1 (lc_addr lc), port ranges (UDP port >= 1), lrn_ok: the proxy's own Via /
                              Record-Route entries are readable lines and carry a port
   Record-Route header VALUES need no grammar: the judge compares their text, which the model relays untouched. *)
Theorem C06_judge_bridge_udp :
  forall pc stj li lc src sport data closed jin m rest e rs x x' pre,
  nth_opt (c_listens (pc_cfg pc)) li = Some lc -> e_cfg e = pc_cfg pc -> e_lc e = lc ->
  e_branch e = branch_of (js_event stj) ->
  j_read data = Some jin -> parse_message data = Ok (m, rest) ->
  agree_learned (pc_cfg pc) (js_learned stj) (x_learned x) ->
  amem src (ps_backends (x_p x)) = false ->
  B7.via_domain m -> B13.route_domain_in (B13.RS m) -> to_domain m -> ruri_domain jin ->
  B7.src_ok src -> B7.branch_ok (e_branch e) ->
  safe1 (lc_addr lc) = true -> (1 <= lc_udp lc <= 65535)%Z -> (0 <= lc_tcp lc <= 65535)%Z ->
  lrn_ok (x_learned x) ->
  process_message e src sport (B13.udp_transport lc) rs None m x = Ok x' ->
  x_outs x' = x_outs x ++ pre ->
  forall vis, judge_C06_event pc stj (EvUdp li src sport data) (map B13.labelled (filter vis pre)) closed = 0%nat.
Proof.
  intros pc stj li lc src sport data closed jin m rest e rs x x' pre
         N He Hlc Hbe J P AG NB HV Dom TD RD Hsrc Hbr Ha Hu Ht HLn EP EO vis.
  apply (C06_judge_bridge_udp_partial pc stj li lc src sport data closed jin m rest e rs x x' pre
           N He Hlc Hbe J P HV Hsrc Hbr Ha Hu Ht HLn); [|exact EP|exact EO].
  intros q Q.
  destruct (read_agree _ _ _ _ J P) as (_ & _ & _ & _ & PS).
  destruct (B7.read_agree_all _ _ _ _ J P) as (EH & PR).
  pose proof (j_request_not_response _ _ Q) as Rj.
  assert (Hq : is_request m = true).
  { unfold is_request. rewrite (B7.parse_start_line_kind _ _ PS). unfold j_is_response in Rj. rewrite Rj. reflexivity. }
  assert (G0 : B7.good m) by (apply B7.good_of_parse; assumption).
  assert (EV : opt_all (map j_via (j_flat_via (jm_headers jin))) =
               Some (map B7.jv_of (C07.flat_view (C07.via_hdrs m)))).
  { rewrite EH. apply B7.via_read. eapply Forall_impl; [|exact G0]. intros h Gh _. exact Gh. }
  apply ident_agree_of.
  - exact (hop_agree (pc_cfg pc) lc (B13.udp_transport lc) jin m q eq_refl eq_refl EH PR PS Q Dom TD RD).
  - exact (j_learn_agree (pc_cfg pc) stj li lc src sport data jin m x AG N Rj Hq NB EV).
Qed.

Lemma judge_C06_udp_nil pc st li src sport data closed :
  judge_C06_event pc st (EvUdp li src sport data) [] closed = 0%nat.
Proof.
  rewrite judge_C06_udp_unfold. destruct (j_read data); [|reflexivity].
  destruct (nth_opt _ _); [|reflexivity]. destruct (_ && _)%bool; [|reflexivity].
  destruct (j_request _); [|reflexivity]. destruct (opt_all _); [|reflexivity].
  destruct (j_choose _ _ _ _); reflexivity.
Qed.

(* ... and for one step of the whole proxy on a datagram, as the run judges it: the branch handed to the step
   is the stand-in the judge expects (branch_of of the event index it has counted); [outs] is what RunProxy
   prints for the event (through [labelled] = e_output; [vis] = the destinations the driver observes) *)
Corollary C06_judge_bridge_step :
  forall pc stj fx now br st st' outs li lc src sport data closed jin m rest,
  nth_opt (c_listens (pc_cfg pc)) li = Some lc ->
  j_read data = Some jin -> parse_message data = Ok (m, rest) ->
  br = branch_of (js_event stj) ->
  agree_learned (pc_cfg pc) (js_learned stj) (st_learned st) ->
  (forall p, nth_p (st_proxies st) li = Some p -> amem src (ps_backends p) = false) ->
  B7.via_domain m -> B13.route_domain_in (B13.RS m) -> to_domain m -> ruri_domain jin ->
  B7.src_ok src -> B7.branch_ok br ->
  safe1 (lc_addr lc) = true -> (1 <= lc_udp lc <= 65535)%Z -> (0 <= lc_tcp lc <= 65535)%Z ->
  lrn_ok (st_learned st) ->
  proxy_step fx (pc_cfg pc) now br st (EvUdp li src sport data) = Ok (st', outs) ->
  forall vis, judge_C06_event pc stj (EvUdp li src sport data) (map B13.labelled (filter vis outs)) closed = 0%nat.
Proof.
  intros pc stj fx now br st st' outs li lc src sport data closed jin m rest
         N J P Hbe AG NB HV Dom TD RD Hsrc Hbr Ha Hu Ht HLn H vis.
  unfold proxy_step in H. rewrite N, P in H. unfold run_ctx in H.
  destruct (nth_p (st_proxies st) li) as [p|] eqn:NP.
  - match type of H with context [process_message ?e ?a ?b ?f ?r ?t ?mm ?xx] =>
      destruct (process_message e a b f r t mm xx) as [x'| |] eqn:PM; try discriminate H;
      pose proof (C06_judge_bridge_udp pc stj li lc src sport data closed jin m rest e r xx x' (x_outs x')
                    N eq_refl eq_refl Hbe J P AG (NB p eq_refl) HV Dom TD RD Hsrc Hbr Ha Hu Ht HLn PM eq_refl) as K end.
    injection H as _ <-. apply K.
  - injection H as _ <-. apply judge_C06_udp_nil.
Qed.

(* THE AGREEMENT IS KEPT by a datagram: the judge's bookkeeping after the event (js_step_c: j_learn) against the
   model's learned table after the step (learn).  [outs'] / [closed] are whatever was observed: the learned
   table of the judge does not depend on them. *)
Theorem C06_agree_step :
  forall pc stj fx now br st st' outs li lc src sport data jin m rest outs' closed,
  nth_opt (c_listens (pc_cfg pc)) li = Some lc ->
  j_read data = Some jin -> parse_message data = Ok (m, rest) ->
  agree_learned (pc_cfg pc) (js_learned stj) (st_learned st) ->
  (exists p, nth_p (st_proxies st) li = Some p /\ amem src (ps_backends p) = false) ->
  B7.via_domain m ->
  proxy_step fx (pc_cfg pc) now br st (EvUdp li src sport data) = Ok (st', outs) ->
  agree_learned (pc_cfg pc) (js_learned (js_step_c stj (EvUdp li src sport data) outs' closed)) (st_learned st').
Proof.
  intros pc stj fx now br st st' outs li lc src sport data jin m rest outs' closed N J P AG (p & NP & NB) HV H.
  assert (EJ : js_learned (js_step_c stj (EvUdp li src sport data) outs' closed) =
               j_learn stj (jin_udp li src sport data) jin).
  { unfold js_step_c, js_step. cbn [js_learned j_input ji_data]. rewrite J. reflexivity. }
  rewrite EJ.
  unfold proxy_step in H. rewrite N, P in H. unfold run_ctx in H. rewrite NP in H.
  match type of H with context [process_message ?e ?a ?b ?f ?r ?t ?mm ?xx] =>
    destruct (process_message e a b f r t mm xx) as [x'| |] eqn:PM; try discriminate H;
    pose proof (C06_learning e a b f r t mm xx x' PM) as LE end.
  injection H as <- _. cbn [st_learned]. rewrite LE. cbn [x_p x_learned].
  destruct (read_agree _ _ _ _ J P) as (_ & _ & _ & _ & PS).
  destruct (B7.read_agree_all _ _ _ _ J P) as (EH & PR).
  assert (Hq : is_request m = negb (j_is_response jin)).
  { unfold is_request. rewrite (B7.parse_start_line_kind _ _ PS). reflexivity. }
  destruct (j_is_response jin) eqn:Rj.
  - rewrite Hq. cbn [negb andb]. unfold j_learn. rewrite Rj. exact AG.
  - cbn [negb] in Hq.
    assert (G0 : B7.good m) by (apply B7.good_of_parse; assumption).
    assert (EV : opt_all (map j_via (j_flat_via (jm_headers jin))) =
                 Some (map B7.jv_of (C07.flat_view (C07.via_hdrs m)))).
    { rewrite EH. apply B7.via_read. eapply Forall_impl; [|exact G0]. intros h Gh _. exact Gh. }
    pose proof (j_learn_agree (pc_cfg pc) stj li lc src sport data jin m
                  {| x_learned := st_learned st; x_p := p; x_conns := st_conns st; x_world := st_world st; x_outs := [] |}
                  AG N Rj Hq NB EV) as K.
    unfold learned_after in K. cbn [x_p x_learned] in K. exact K.
Qed.

(* the readability invariant of the learned table is kept as well *)
Theorem C06_lrn_ok_step :
  forall fx c now br st st' outs li lc src sport data,
  nth_opt (c_listens c) li = Some lc -> safe1 (lc_addr lc) = true -> (1 <= lc_udp lc <= 65535)%Z ->
  lrn_ok (st_learned st) ->
  proxy_step fx c now br st (EvUdp li src sport data) = Ok (st', outs) -> lrn_ok (st_learned st').
Proof.
  intros fx c now br st st' outs li lc src sport data N Ha Hu HL H.
  unfold proxy_step in H. rewrite N in H.
  destruct (parse_message data) as [[m rest]| |]; [|injection H as <- _; exact HL|injection H as <- _; exact HL].
  unfold run_ctx in H. destruct (nth_p (st_proxies st) li) as [p|]; [|injection H as <- _; exact HL].
  match type of H with context [process_message ?e ?a ?b ?f ?r ?t ?mm ?xx] =>
    destruct (process_message e a b f r t mm xx) as [x'| |] eqn:PM; try discriminate H;
    pose proof (C06_learning e a b f r t mm xx x' PM) as LE;
    pose proof (lrn_ok_after a f mm xx Ha Hu HL) as K end.
  injection H as <- _. cbn [st_learned]. rewrite LE. exact K.
Qed.

(* ====================================================================== Part G: example *)
(* the run of C13_bridge: a request from 10.0.0.9:5070 whose Route names the receiving listener, then
   10.0.0.9:5070 (the sender itself: learned from this very request, through the UDP listener), then one more;
   must-record-route is on.  The proxy puts its own Via on top and its own Record-Route in front. *)
Module C06_bridge_example.
Definition ex_jin : jmsg :=
  match j_read B13.b13_req with Some j => j | None => Build_jmsg [] [] [] [] false 0 None end.
Example ex_read : j_read B13.b13_req = Some ex_jin.
Proof. vm_compute. reflexivity. Qed.

Example ex_out_via :
  map (fun o => option_map (fun om => map (fun e => option_map jv_host (j_via e)) (j_flat_via (jm_headers om)))
                           (j_read (snd o))) B13.b13_outs
  = [Some [Some (s2b "10.0.0.1"); Some (s2b "10.0.0.9")]].
Proof. vm_compute. reflexivity. Qed.
Example ex_out_rr :
  map (fun o => option_map (fun om => j_flat is_rr (jm_headers om)) (j_read (snd o))) B13.b13_outs
  = [Some [s2b "<sip:10.0.0.1:5060;lr>"]].
Proof. vm_compute. reflexivity. Qed.

Definition ex_to : a_fromto :=
  {| af_addr := AFName {| an_display := [];
                          an_addr := AASip {| au_secure := false; au_user := Some (s2b "svc", None);
                                              au_host := s2b "example.com"; au_port := None;
                                              au_params := []; au_headers := [] |} |};
     af_params := [] |}.
Definition ex_ruri : a_addr :=
  AASip {| au_secure := false; au_user := Some (s2b "bob", None); au_host := s2b "elsewhere.example";
           au_port := None; au_params := []; au_headers := [] |}.

Example ex_hyp_to : to_domain (parsed B13.b13_req).
Proof.
  intros h GT. vm_compute in GT. injection GT as <-. exists ex_to. split; vm_compute; reflexivity.
Qed.
Example ex_hyp_ruri : ruri_domain ex_jin.
Proof.
  split; [vm_compute; reflexivity|].
  intros q Q. vm_compute in Q. injection Q as <-. exists ex_ruri. split; vm_compute; reflexivity.
Qed.

(* every hypothesis of the step theorem holds of the run: the judge accepts, by the theorem *)
Example C06_bridge_ex :
  forall vis, judge_C06_event B13.b13_pc (js_init C01.ex_cfg) B13.b13_ev
                (map B13.labelled (filter vis B13.b13_outs)) [] = 0%nat.
Proof.
  assert (Hrun : exists s, proxy_step all_fixed (pc_cfg B13.b13_pc) 1000 (branch_of 0) C01.ex_st
                             (EvUdp 0 (s2b "10.0.0.9") 5070%Z B13.b13_req) = Ok (s, B13.b13_outs)).
  { unfold B13.b13_outs, B13.b13_run, B13.b13_ev.
    match goal with |- context [match ?X with Ok _ => _ | Err => _ | Panic => _ end] =>
      destruct X as [[s o]| |] eqn:E end;
      [exists s; reflexivity|vm_compute in E; discriminate E|vm_compute in E; discriminate E]. }
  destruct Hrun as (s & Hrun).
  refine (C06_judge_bridge_step B13.b13_pc (js_init C01.ex_cfg) all_fixed 1000%Z (branch_of 0) C01.ex_st s B13.b13_outs
           0%nat C01.ex_lc (s2b "10.0.0.9") 5070%Z B13.b13_req [] ex_jin (parsed B13.b13_req) []
           B13.b13_hyp_listener ex_read B13.b13_hyp_parse eq_refl _ _ _ B13.b13_hyp_routes ex_hyp_to ex_hyp_ruri
           _ _ _ _ _ _ Hrun).
  - intros h. exact I.
  - intros p NP. vm_compute in NP. injection NP as <-. vm_compute. reflexivity.
  - apply B7.via_domain_b_sound. vm_compute. reflexivity.
  - split; vm_compute; reflexivity.
  - split; vm_compute; reflexivity.
  - vm_compute. reflexivity.
  - unfold C01.ex_lc. cbn [lc_udp]. lia.
  - unfold C01.ex_lc. cbn [lc_tcp]. lia.
  - intros h t A. discriminate A.
Qed.

(* the agreement of the learned tables after the event, by the theorem; the tables are not empty any more *)
Example C06_agree_ex :
  match B13.b13_run with
  | Ok (st', _) =>
      agree_learned C01.ex_cfg (js_learned (js_step_c (js_init C01.ex_cfg) B13.b13_ev [] [])) (st_learned st') /\
      st_learned st' = [(s2b "10.0.0.9", B13.udp_transport C01.ex_lc)]
  | _ => False
  end.
Proof.
  unfold B13.b13_run, B13.b13_ev.
  match goal with |- match ?X with Ok _ => _ | Err => _ | Panic => _ end =>
    destruct X as [[st' outs]| |] eqn:E end; [|vm_compute in E; discriminate E|vm_compute in E; discriminate E].
  split.
  - refine (C06_agree_step B13.b13_pc (js_init C01.ex_cfg) all_fixed 1000%Z (branch_of 0) C01.ex_st st' outs
              0%nat C01.ex_lc (s2b "10.0.0.9") 5070%Z B13.b13_req ex_jin (parsed B13.b13_req) [] [] []
              B13.b13_hyp_listener ex_read B13.b13_hyp_parse _ _ _ E).
    + intros h. exact I.
    + eexists. split; [vm_compute; reflexivity|vm_compute; reflexivity].
    + apply B7.via_domain_b_sound. vm_compute. reflexivity.
  - vm_compute in E. injection E as <- _. reflexivity.
Qed.

(* the judge does look: the same request relayed as it came (no own Via) is rejected *)
Example C06_bridge_ex_sensitive :
  judge_C06_event B13.b13_pc (js_init C01.ex_cfg) B13.b13_ev [(s2b "udp:10.0.0.9:5070", B13.b13_req)] [] <> 0%nat.
Proof. vm_compute. discriminate. Qed.
End C06_bridge_example.

Print Assumptions C06_outputs.
Print Assumptions c06_check_ok.
Print Assumptions C06_judge_bridge_udp_partial.
Print Assumptions hop_agree.
Print Assumptions j_learn_agree.
Print Assumptions C06_judge_bridge_udp.
Print Assumptions C06_judge_bridge_step.
Print Assumptions C06_agree_step.
Print Assumptions C06_lrn_ok_step.
Print Assumptions C06_bridge_example.C06_bridge_ex.
Print Assumptions C06_bridge_example.C06_agree_ex.
