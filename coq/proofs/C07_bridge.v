(* proofs/C07_bridge.v — JUDGE BRIDGE for property C07 (received / rport stamping).

   The executable judge [SpecProxy.judge_C07_event] reads raw bytes with its own minimal reader
   (j_read, j_flat_via, j_via, stamped, p_set, jvia_eqb, received_on).  This file proves that it
   ACCEPTS (returns 0) what the MODEL emits for a datagram, for every configuration, listener,
   source, state and every message whose Via header values are reference renderings of
   well-formed Via entry lists of the C14 grammar (any layout: comma lists, repeated lines, compact
   name "v", any case), tying the byte-level judge to the decoded-message theorems of
   proofs/C07.v (C07_stamp, C07_stamp_params, C07_kv_set_char, C07_pipeline) and to the own-Via
   push of proofs/C06.v.

   Part 1  a concrete Via entry as an abstract one (unembed), the judge's reading of its text
   Part 2  strings.TrimSpace at the two ends of a header value (Unicode white space)
   Part 3  [good]: the invariant of the message while it travels through the pipeline
           (every Via header prints as a list of well-formed entries, every line stays a line)
   Part 4  every step of the pipeline keeps [good]
   Part 5  the pipeline: what leaves the proxy is write_message m' with m' good and the Via view
           of C07_pipeline
   Part 6  what the judge reads: in the input (agreement with parse_message) and in an output
   Part 6b for EVERY line-feed-free raw value, what From / To / CSeq / Route / the Request-URI decode
           to prints without a line feed (so every emitted line is a line for the judge's reader)
   Part 7  the judge's arithmetic: p_set = kv_set, stamped = stamp, the skip-one-entry rule
   Part 8  C07_judge_bridge_udp (full statement, no partial version needed)
   Part 9  example (non-vacuity) and a sensitivity check of the judge
   No axioms, no admits. *)
From Coq Require Import List Ascii String ZArith NArith Bool Lia.
From Coq Require Import ZifyBool ZifyNat ZifyN.
From Model Require Import Bytes BytesLemmas Uri Hdr Message Msg Rx Glob StaticRoute RoundRobin Pins Wire
     Proxy RunProxy SpecProxy SpecC14.
From Model.proofs Require C06.
From Model.proofs Require Import MsgLemmas C14_via C01 C07.
Import ListNotations.
Open Scope Z_scope.
Open Scope list_scope.

Ltac acases :=
  let c := fresh "c" in
  intros c; destruct c as [[|] [|] [|] [|] [|] [|] [|] [|]]; vm_compute;
  try reflexivity; intros; try discriminate; try reflexivity.

(* ====================================================================== Part 0: small facts *)
(* The judge's record of a connection THE PROXY DIALLED carries the listen entry with SpecProxy.dial_mark added;
   a record below the mark is one of an ACCEPTED connection: the input is read with that listen entry and is
   not "dialled" (used by all the *_bridge_tcp files) *)
Lemma unmark_small li : (li < dial_mark)%nat -> unmark li = li.
Proof. intros H. unfold unmark. apply Nat.leb_gt in H. rewrite H. reflexivity. Qed.
Lemma unmark_marked li : unmark (li + dial_mark) = li.
Proof.
  unfold unmark. assert (E : Nat.leb dial_mark (li + dial_mark) = true) by (apply Nat.leb_le; apply Nat.le_add_l).
  rewrite E. apply Nat.add_sub.
Qed.
Lemma conn_dialled_accepted st cid li ip port :
  find (fun y => Nat.eqb (fst y) cid) (js_conns st) = Some (cid, (li, ip, port)) -> (li < dial_mark)%nat ->
  conn_dialled st cid = false.
Proof. intros H M. unfold conn_dialled. rewrite H. apply Nat.leb_gt. exact M. Qed.
Lemma j_input_accepted st cid li ip port data :
  find (fun y => Nat.eqb (fst y) cid) (js_conns st) = Some (cid, (li, ip, port)) -> (li < dial_mark)%nat ->
  j_input st (EvTcpData cid data) =
  Some {| ji_li := li; ji_tcp := true; ji_conn := cid; ji_src := ip; ji_sport := port; ji_data := data |}.
Proof. intros H M. unfold j_input. rewrite H, (unmark_small li M). reflexivity. Qed.
Lemma ji_dialled_accepted st cid li ip port data :
  find (fun y => Nat.eqb (fst y) cid) (js_conns st) = Some (cid, (li, ip, port)) -> (li < dial_mark)%nat ->
  ji_dialled st {| ji_li := li; ji_tcp := true; ji_conn := cid; ji_src := ip; ji_sport := port; ji_data := data |} = false.
Proof. intros H M. unfold ji_dialled. cbn [ji_tcp ji_conn andb]. exact (conn_dialled_accepted st cid li ip port H M). Qed.
Lemma zero_below_mark : (0 < dial_mark)%nat.
Proof. apply Nat.ltb_lt. reflexivity. Qed.

Lemma cb_in_firstn {A} (x : A) n l : In x (firstn n l) -> In x l.
Proof. intros H. rewrite <- (firstn_skipn n l). apply in_or_app. left. exact H. Qed.
Lemma cb_in_skipn {A} (x : A) n l : In x (skipn n l) -> In x l.
Proof. intros H. rewrite <- (firstn_skipn n l). apply in_or_app. right. exact H. Qed.

Lemma cb_in_join c d l : In c (join_byte d l) -> c = d \/ exists x, In x l /\ In c x.
Proof.
  induction l as [|a r IH]; [intros []|].
  destruct r as [|b r'].
  - cbn [join_byte]. intros H. right. exists a. split; [left; reflexivity|exact H].
  - rewrite join_byte_cons2 by discriminate. intros H. apply in_app_or in H. destruct H as [H|[H|H]].
    + right. exists a. split; [left; reflexivity|exact H].
    + left. symmetry. exact H.
    + destruct (IH H) as [E|(x & I & J)]; [left; exact E|right; exists x; split; [right; exact I|exact J]].
Qed.

Definition lf_free (s : bytes) : Prop := ~ In jLF s.
Lemma lf_is_space : is_space jLF = true.
Proof. reflexivity. Qed.
Lemma nospace_lf s : nospace s -> lf_free s.
Proof. intros N I. pose proof (N _ I) as X. rewrite lf_is_space in X. discriminate X. Qed.

Lemma opt_all_app {A} (a b : list (option A)) :
  opt_all (a ++ b) = match opt_all a, opt_all b with Some x, Some y => Some (x ++ y) | _, _ => None end.
Proof.
  induction a as [|[x|] a IH]; cbn [app opt_all].
  - destruct (opt_all b); reflexivity.
  - rewrite IH. destruct (opt_all a); [destruct (opt_all b); reflexivity|reflexivity].
  - reflexivity.
Qed.
Lemma opt_all_map_some {A B} (f : A -> option B) (g : A -> B) l :
  (forall x, In x l -> f x = Some (g x)) -> opt_all (map f l) = Some (map g l).
Proof.
  induction l as [|a l IH]; intros H; [reflexivity|]. cbn [map opt_all].
  rewrite (H a (or_introl eq_refl)), IH by (intros x Hx; apply H; right; exact Hx). reflexivity.
Qed.
Lemma first_nonzero_zero {A} (f : A -> nat) l : (forall x, In x l -> f x = O) -> first_nonzero (map f l) = O.
Proof.
  induction l as [|a l IH]; intros H; [reflexivity|]. cbn [map first_nonzero].
  rewrite (H a (or_introl eq_refl)). apply IH. intros x Hx. apply H. right. exact Hx.
Qed.

(* ====================================================================== Part 1: one Via entry *)
Definition unembed_param (p : kv) : a_param :=
  {| ap_key := k_key p; ap_val := match k_val p with [] => None | _ :: _ => Some (k_val p) end |}.
Definition unembed_via (v : via_param) : a_via :=
  {| av_name := v_name v; av_version := v_version v; av_transport := v_transport v; av_host := v_host v;
     av_port := if Z.eqb (v_port v) 0 then None else Some (v_port v);
     av_params := map unembed_param (v_params v) |}.

Lemma embed_unembed_param p : embed_param (unembed_param p) = p.
Proof. destruct p as [k [|c v]]; reflexivity. Qed.

Lemma embed_unembed_via v : embed_via (unembed_via v) = v.
Proof.
  destruct v as [n ve t h p ps]. unfold embed_via, unembed_via.
  cbn [av_name av_version av_transport av_host av_port av_params v_name v_version v_transport v_host v_port v_params].
  f_equal.
  - destruct (Z.eqb_spec p 0) as [->|_]; reflexivity.
  - rewrite map_map. transitivity (map (fun x : kv => x) ps); [|apply map_id].
    apply map_ext. intros q. apply embed_unembed_param.
Qed.

Lemma unembed_embed_param p : wf_param p = true -> unembed_param (embed_param p) = p.
Proof.
  intros H. apply wf_param_inv in H. destruct H as (_ & _ & Hv).
  destruct p as [k [v|]]; cbn in *; [|reflexivity].
  destruct Hv as [Hv _]. destruct v as [|c v]; [exfalso; apply Hv; reflexivity|reflexivity].
Qed.

Lemma unembed_embed_via a : wf_via_shape a = true -> unembed_via (embed_via a) = a.
Proof.
  intros H. pose proof (wf_via_shape_inv a H) as (_ & _ & _ & _ & Hport & Hps).
  destruct a as [n ve t h p ps]. unfold embed_via, unembed_via.
  cbn [av_name av_version av_transport av_host av_port av_params v_name v_version v_transport v_host v_port v_params] in *.
  f_equal.
  - destruct p as [z|]; [|reflexivity]. cbn [wf_port] in Hport.
    destruct (Z.eqb_spec z 0) as [E|_]; [lia|reflexivity].
  - rewrite map_map. transitivity (map (fun x : a_param => x) ps); [|apply map_id].
    apply map_ext_in. intros q Hq. apply unembed_embed_param. rewrite forallb_forall in Hps. apply Hps. exact Hq.
Qed.

(* a concrete entry of the C14 grammar *)
Definition vp_ok (v : via_param) : bool := wf_via_shape (unembed_via v).

Lemma vp_ok_embed a : wf_via_shape a = true -> vp_ok (embed_via a) = true.
Proof. intros H. unfold vp_ok. rewrite unembed_embed_via by exact H. exact H. Qed.

Lemma vp_print_rp v : vp_ok v = true -> via_param_print v = rp_via1 (unembed_via v).
Proof.
  intros H. transitivity (via_param_print (embed_via (unembed_via v))).
  - rewrite embed_unembed_via. reflexivity.
  - apply via_param_print_embed. exact H.
Qed.

Lemma via_print_rp l : forallb vp_ok l = true -> via_print l = rp_via (map unembed_via l).
Proof.
  intros H. unfold via_print, rp_via. f_equal. rewrite map_map. apply map_ext_in. intros v Hv.
  apply vp_print_rp. rewrite forallb_forall in H. apply H. exact Hv.
Qed.

(* ---- the judge's reading of the reference text of an abstract entry ---- *)
Definition a_pair (p : a_param) : bytes * bytes := (ap_key p, match ap_val p with Some v => v | None => [] end).
(* The judge reads every entry of a comma list with its LEFT end trimmed like strings.TrimSpace
   ([j_trim_via]): the protocol name it sees is the name without leading Unicode white space ([safe]
   allows bytes >= 128, so a name of the grammar may begin with, say, C2 85).  The name is compared,
   never interpreted, and it is read the same way in the received message and in the relayed one. *)
Definition via_proto_t (a : a_via) : bytes :=
  trim_left_go (av_name a) ++ "/"%char :: av_version a ++ "/"%char :: av_transport a.
Definition ja_of (a : a_via) : jvia :=
  {| jv_proto := via_proto_t a; jv_transport := av_transport a; jv_host := av_host a; jv_port := av_port a;
     jv_params := map a_pair (av_params a) |}.
Definition pair_of (p : kv) : bytes * bytes := (k_key p, k_val p).
(* ... of a concrete entry: what j_via (j_trim_via (via_param_print v)) is *)
Definition jv_of (v : via_param) : jvia :=
  {| jv_proto := trim_left_go (v_name v) ++ "/"%char :: v_version v ++ "/"%char :: v_transport v;
     jv_transport := v_transport v; jv_host := v_host v;
     jv_port := if Z.eqb (v_port v) 0 then None else Some (v_port v);
     jv_params := map pair_of (v_params v) |}.

Lemma ja_of_unembed v : ja_of (unembed_via v) = jv_of v.
Proof.
  unfold ja_of, jv_of, unembed_via, via_proto_t.
  cbn [av_name av_version av_transport av_host av_port av_params].
  f_equal. rewrite map_map. apply map_ext. intros [k [|c x]]; reflexivity.
Qed.

Lemma j_kv_rp_param p : wf_param p = true -> j_kv (rp_param p) = a_pair p.
Proof.
  intros H. apply wf_param_inv in H. destruct H as (_ & Hk & _).
  apply safe_no_eq in Hk. unfold j_kv, rp_param, a_pair.
  destruct (ap_val p) as [v|].
  - rewrite index_byte_app_notin by exact Hk.
    rewrite firstn_length_app, skipn_S_length_app. reflexivity.
  - rewrite (proj2 (index_byte_none _ _) Hk). reflexivity.
Qed.

Lemma map_j_kv_params ps : forallb wf_param ps = true -> map j_kv (map rp_param ps) = map a_pair ps.
Proof.
  intros H. rewrite map_map. apply map_ext_in. intros p Hp.
  apply j_kv_rp_param. rewrite forallb_forall in H. apply H. exact Hp.
Qed.

(* ---- the text of an entry of the grammar: no blank inside its two halves ---- *)
Lemma via_proto_text a : wf_via_shape a = true -> via_proto a <> [] /\ nospace (via_proto a).
Proof.
  intros H. apply wf_via_shape_inv in H. destruct H as (Hn & Hv & Ht & _).
  apply safe1_inv in Hn, Hv, Ht. destruct Hn as [Nn Hn], Hv as [_ Hv], Ht as [_ Ht].
  unfold via_proto. split.
  - destruct (av_name a); [exfalso; apply Nn; reflexivity|discriminate].
  - apply nospace_app; [apply safe_nospace; exact Hn|].
    apply nospace_cons; [reflexivity|].
    apply nospace_app; [apply safe_nospace; exact Hv|].
    apply nospace_cons; [reflexivity|apply safe_nospace; exact Ht].
Qed.
Lemma via_sentby_text a : wf_via_shape a = true -> via_sentby a <> [] /\ nospace (via_sentby a).
Proof.
  intros H. apply wf_via_shape_inv in H. destruct H as (_ & _ & _ & Hh & _).
  apply safe1_inv in Hh. destruct Hh as [Nh Hh]. unfold via_sentby. split.
  - destruct (av_host a); [exfalso; apply Nh; reflexivity|discriminate].
  - apply nospace_app; [apply safe_nospace; exact Hh|apply rp_port_nospace].
Qed.
Lemma rp_param_nospace p : wf_param p = true -> nospace (rp_param p).
Proof.
  intros H. apply wf_param_inv in H. destruct H as (_ & Hk & Hv). unfold rp_param. destruct (ap_val p) as [v|].
  - apply nospace_app; [apply safe_nospace; exact Hk|].
    apply nospace_cons; [reflexivity|apply val_ok_nospace; exact (proj2 Hv)].
  - apply safe_nospace; exact Hk.
Qed.
Lemma rp_params_nospace ps : forallb wf_param ps = true -> nospace (rp_params ps).
Proof.
  induction ps as [|p ps IH]; intros H; [intros c []|].
  cbn [forallb] in H. apply andb_true_iff in H. destruct H as [Hp Hps].
  rewrite rp_params_cons. apply nospace_cons; [reflexivity|].
  apply nospace_app; [apply rp_param_nospace; exact Hp|apply IH; exact Hps].
Qed.

Lemma rp_via1_two a :
  rp_via1 a = via_proto a ++ " "%char :: (via_sentby a ++ rp_params (av_params a)).
Proof. rewrite rp_via1_shape. unfold via_head. rewrite <- app_assoc. reflexivity. Qed.

Lemma rp_via1_parts a : wf_via_shape a = true ->
  via_proto a <> [] /\ via_sentby a ++ rp_params (av_params a) <> [] /\
  nospace (via_proto a) /\ nospace (via_sentby a ++ rp_params (av_params a)).
Proof.
  intros H. destruct (via_proto_text a H) as [P1 P2]. destruct (via_sentby_text a H) as [S1 S2].
  pose proof (wf_via_shape_inv a H) as (_ & _ & _ & _ & _ & Hps).
  split; [exact P1|]. split; [|split; [exact P2|]].
  - destruct (via_sentby a); [exfalso; apply S1; reflexivity|discriminate].
  - apply nospace_app; [exact S2|apply rp_params_nospace; exact Hps].
Qed.

(* ---- strings.TrimSpace at the LEFT end of an entry (what [j_trim_via] does there) ---- *)
(* an ASCII byte that is not a blank stops the left trim, whatever precedes it *)
Lemma trim_left_u_sep p2 p3 (NA : seq_nonascii p2 p3) d T : is_ascii d = true -> is_space d = false ->
  forall x, trim_left_u p2 p3 (x ++ d :: T) = trim_left_u p2 p3 x ++ d :: T.
Proof.
  intros Ad Sd x. pattern x. apply bytes_ind_len. clear x. intros x IH.
  destruct x as [|c r].
  - cbn [app trim_left_u]. rewrite Sd. destruct T as [|c2 r2]; [reflexivity|].
    rewrite (p2_ascii_l _ _ NA _ _ Ad). destruct r2 as [|c3 r3]; [reflexivity|].
    rewrite (p3_ascii_1 _ _ NA _ _ _ Ad). reflexivity.
  - cbn [app trim_left_u]. destruct (is_space c) eqn:Ec; [apply IH; cbn [List.length]; lia|].
    destruct r as [|c2 r2].
    + cbn [app]. rewrite (p2_ascii_r _ _ NA _ _ Ad). destruct T as [|c3 r3]; [reflexivity|].
      rewrite (p3_ascii_2 _ _ NA _ _ _ Ad). reflexivity.
    + cbn [app]. destruct (p2 c c2) eqn:E2; [apply IH; cbn [List.length]; lia|].
      destruct r2 as [|c3 r3].
      * cbn [app]. rewrite (p3_ascii_3 _ _ NA _ _ _ Ad). reflexivity.
      * cbn [app]. destruct (p3 c c2 c3) eqn:E3; [apply IH; cbn [List.length]; lia|]. reflexivity.
Qed.
Lemma trim_left_go_sep d T x : is_ascii d = true -> is_space d = false ->
  trim_left_go (x ++ d :: T) = trim_left_go x ++ d :: T.
Proof. intros Ad Sd. exact (trim_left_u_sep usp2 usp3 usp_nonascii d T Ad Sd x). Qed.
Lemma trim_left_go_in c s : In c (trim_left_go s) -> In c s.
Proof. intros I. destruct (trim_left_go_split s) as [w E]. rewrite E. apply in_or_app. right. exact I. Qed.
Lemma trim_left_go_idem s : trim_left_go (trim_left_go s) = trim_left_go s.
Proof. exact (trim_left_u_idem usp2 usp3 s). Qed.
Lemma jt_lead p : j_trim_via (trim_left_go p) = j_trim_via p.
Proof. unfold j_trim_via. rewrite trim_left_go_idem. reflexivity. Qed.

Lemma trim_right_fix s : match rev s with c :: _ => is_space c = false | [] => True end -> trim_right s = s.
Proof. intros H. unfold trim_right. rewrite (trim_left_fix _ H). apply rev_involutive. Qed.
Lemma rev_tail_nospace (A B : bytes) : B <> [] -> nospace B ->
  match rev (A ++ B) with c :: _ => is_space c = false | [] => True end.
Proof.
  intros NE H. rewrite rev_app_distr. destruct (rev B) as [|c t] eqn:E.
  - apply (f_equal (@rev ascii)) in E. rewrite rev_involutive in E. contradiction.
  - cbn [app]. apply H. apply in_rev. rewrite E. left. reflexivity.
Qed.

(* the text of an entry as the judge trims it: the name loses its leading Unicode white space, if
   any; nothing else changes (the text ends with a byte that is no blank) *)
Lemma jt_rp_via1 a : wf_via_shape a = true ->
  j_trim_via (rp_via1 a) = via_proto_t a ++ " "%char :: (via_sentby a ++ rp_params (av_params a)).
Proof.
  intros H. destruct (rp_via1_parts a H) as (_ & B & _ & D).
  assert (E : rp_via1 a = av_name a ++ "/"%char :: av_version a ++ "/"%char :: av_transport a ++ " "%char ::
                          (via_sentby a ++ rp_params (av_params a))).
  { unfold rp_via1, via_sentby. rewrite <- (app_assoc (av_host a)). reflexivity. }
  unfold j_trim_via. rewrite E, (trim_left_go_sep "/"%char) by reflexivity.
  assert (EY : trim_left_go (av_name a) ++ "/"%char :: av_version a ++ "/"%char :: av_transport a ++ " "%char ::
                 (via_sentby a ++ rp_params (av_params a))
               = via_proto_t a ++ " "%char :: (via_sentby a ++ rp_params (av_params a))).
  { unfold via_proto_t. repeat (rewrite <- app_assoc; cbn [app]). reflexivity. }
  rewrite EY. apply trim_right_fix.
  replace (via_proto_t a ++ " "%char :: (via_sentby a ++ rp_params (av_params a)))
    with ((via_proto_t a ++ [" "%char]) ++ (via_sentby a ++ rp_params (av_params a)))
    by (rewrite <- app_assoc; reflexivity).
  apply rev_tail_nospace; assumption.
Qed.

Lemma via_proto_t_in a c : In c (via_proto_t a) -> In c (via_proto a).
Proof.
  unfold via_proto_t, via_proto. intros I. apply in_app_or in I. apply in_or_app.
  destruct I as [I|I]; [left; exact (trim_left_go_in _ _ I)|right; exact I].
Qed.
Lemma via_head_t_in a c : In c (via_proto_t a ++ " "%char :: via_sentby a) -> In c (via_head a).
Proof.
  unfold via_head. intros I. apply in_app_or in I. apply in_or_app.
  destruct I as [I|I]; [left; exact (via_proto_t_in _ _ I)|right; exact I].
Qed.
Lemma via_proto_t_split a : wf_via_shape a = true ->
  split_byte "/"%char (via_proto_t a) = [trim_left_go (av_name a); av_version a; av_transport a].
Proof.
  intros H. apply wf_via_shape_inv in H. destruct H as (Hn & Hv & Ht & _).
  apply safe1_inv in Hn, Hv, Ht. destruct Hn as [_ Hn], Hv as [_ Hv], Ht as [_ Ht].
  unfold via_proto_t.
  rewrite split_byte_app by (intros I; exact (safe_no_slash _ Hn (trim_left_go_in _ _ I))).
  rewrite split_byte_app by (apply safe_no_slash; exact Hv).
  rewrite split_byte_single by (apply safe_no_slash; exact Ht). reflexivity.
Qed.

(* the judge's reading of the (trimmed) reference text of an abstract entry *)
Theorem j_via_rp a : wf_via_shape a = true -> j_via (j_trim_via (rp_via1 a)) = Some (ja_of a).
Proof.
  intros H. pose proof (wf_via_shape_inv a H) as (_ & _ & _ & _ & Hport & Hps).
  destruct (via_proto_text a H) as [_ P2]. destruct (via_sentby_text a H) as [S1 S2].
  rewrite (jt_rp_via1 a H).
  replace (via_proto_t a ++ " "%char :: (via_sentby a ++ rp_params (av_params a)))
    with ((via_proto_t a ++ " "%char :: via_sentby a) ++ rp_params (av_params a))
    by (rewrite <- app_assoc; reflexivity).
  unfold j_via.
  rewrite split_semi_params; [|intros I; exact (via_head_no_semi a H (via_head_t_in _ _ I))|exact Hps].
  cbv beta iota.
  rewrite (fields_two (via_proto_t a) (via_sentby a));
    [|unfold via_proto_t; destruct (trim_left_go (av_name a)); discriminate|exact S1
     |intros c I; exact (P2 c (via_proto_t_in _ _ I))|exact S2].
  cbv beta iota.
  rewrite via_proto_t_split by exact H. cbv beta iota.
  rewrite via_sentby_split by exact H.
  rewrite map_j_kv_params by exact Hps.
  unfold ja_of. destruct (av_port a) as [z|].
  - cbn [wf_port] in Hport. cbv beta iota zeta. rewrite atoi_itoa_port by exact Hport. reflexivity.
  - reflexivity.
Qed.

Lemma rp_via1_lf a : wf_via_shape a = true -> lf_free (rp_via1 a).
Proof.
  intros H. rewrite rp_via1_two. destruct (rp_via1_parts a H) as (_ & _ & C & D).
  intros I. apply in_app_or in I. destruct I as [I|[I|I]].
  - exact (nospace_lf _ C I).
  - discriminate I.
  - exact (nospace_lf _ D I).
Qed.

(* ---- a header value: comma list ---- *)
Definition jline (x : bytes) : option (list jvia) :=
  opt_all (map j_via (map j_trim_via (split_byte ","%char x))).

Lemma jline_rp al : al <> [] -> forallb wf_via_shape al = true -> jline (rp_via al) = Some (map ja_of al).
Proof.
  intros NE H. rewrite forallb_forall in H. unfold jline, rp_via.
  rewrite split_join.
  - rewrite !map_map. apply opt_all_map_some. intros a Ha. cbv beta.
    apply j_via_rp. apply H. exact Ha.
  - destruct al; [exfalso; apply NE; reflexivity|discriminate].
  - apply Forall_forall. intros s Hs. apply in_map_iff in Hs. destruct Hs as (v & <- & Hv).
    apply rp_via1_no_comma. apply H. exact Hv.
Qed.

Lemma jline_print l : l <> [] -> forallb vp_ok l = true -> jline (via_print l) = Some (map jv_of l).
Proof.
  intros NE H. rewrite via_print_rp by exact H. rewrite jline_rp.
  - rewrite map_map. f_equal. apply map_ext. intros v. apply ja_of_unembed.
  - destruct l; [exfalso; apply NE; reflexivity|discriminate].
  - rewrite forallb_forall in *. intros a Ha. apply in_map_iff in Ha. destruct Ha as (v & <- & Hv).
    exact (H v Hv).
Qed.

(* ====================================================================== Part 2: TrimSpace at the ends *)
Definition lclean (s : bytes) : Prop := lstuck usp2 usp3 s = true.
Definition rclean (s : bytes) : Prop := lstuck usp2r usp3r (rev s) = true.

Lemma trim_fix_iff s : trim_space_go s = s <-> lclean s /\ rclean s.
Proof.
  unfold lclean, rclean. split.
  - intros H. destruct (trim_space_go_fix_inv s H) as [HL HR]. split.
    + apply lstuck_of_fix. exact HL.
    + apply lstuck_of_fix. unfold trim_right_go, trim_left_go_r in HR.
      apply (f_equal (@rev ascii)) in HR. rewrite rev_involutive in HR. exact HR.
  - intros [HL HR]. apply trim_space_go_fix.
    + apply lstuck_fix. exact HL.
    + unfold trim_right_go, trim_left_go_r. rewrite (lstuck_fix _ _ _ HR). apply rev_involutive.
Qed.

(* what follows an ASCII separator does not matter for the left end *)
Lemma lstuck_sep p2 p3 (NA : seq_nonascii p2 p3) n d t t' :
  n <> [] -> is_ascii d = true -> lstuck p2 p3 (n ++ d :: t) = lstuck p2 p3 (n ++ d :: t').
Proof.
  intros Hn Hd. destruct n as [|c [|c2 [|c3 n']]]; [exfalso; apply Hn; reflexivity| | |reflexivity].
  - cbn [app lstuck uprefix]. rewrite (p2_ascii_r _ _ NA _ _ Hd).
    destruct t as [|x t], t' as [|y t']; cbn [orb]; rewrite ?(p3_ascii_2 _ _ NA _ _ _ Hd); reflexivity.
  - cbn [app lstuck uprefix]. rewrite (p3_ascii_3 _ _ NA _ _ _ Hd). reflexivity.
Qed.

Lemma lclean_sep n d t t' : n <> [] -> is_ascii d = true -> lclean (n ++ d :: t) -> lclean (n ++ d :: t').
Proof. unfold lclean. intros Hn Hd H. rewrite (lstuck_sep _ _ usp_nonascii n d t' t Hn Hd). exact H. Qed.

Lemma rclean_sep n d t t' : n <> [] -> is_ascii d = true -> rclean (t ++ d :: n) -> rclean (t' ++ d :: n).
Proof.
  unfold rclean. intros Hn Hd. rewrite !rev_app_distr. cbn [rev]. rewrite <- !app_assoc. cbn [app].
  intros H. rewrite (lstuck_sep _ _ uspr_nonascii (rev n) d (rev t') (rev t)); [exact H| |exact Hd].
  intros E. apply Hn. rewrite <- (rev_involutive n), E. reflexivity.
Qed.

(* the right end of a suffix is the right end of the whole *)
Lemma rclean_suffix a b : rclean (a ++ b) -> rclean b.
Proof. unfold rclean. rewrite rev_app_distr. apply lstuck_prefix. Qed.
(* a value whose right end is clean: strings.TrimSpace only works at its left end *)
Lemma rclean_trim s : rclean s -> trim_space_go s = trim_left_go s.
Proof.
  intros R. unfold trim_space_go. destruct (trim_left_go_split s) as [w E].
  rewrite E in R. apply rclean_suffix in R. unfold rclean in R.
  unfold trim_right_go, trim_left_go_r. rewrite (lstuck_fix _ _ _ R). apply rev_involutive.
Qed.
(* the judge's entries of a comma list read through TrimSpace at its left end = its entries of the
   list itself (the left end of the first entry is trimmed anyway) *)
Lemma entries_lead l : l <> [] -> Forall (fun x => ~ In ","%char x) l ->
  map j_trim_via (split_byte ","%char (trim_left_go (join_byte ","%char l))) = map j_trim_via l.
Proof.
  intros NE F. destruct l as [|p [|q r]]; [contradiction| |].
  - cbn [join_byte]. inversion F as [|? ? Hp _]; subst.
    rewrite split_byte_single by (intros I; exact (Hp (trim_left_go_in _ _ I))).
    cbn [map]. rewrite jt_lead. reflexivity.
  - rewrite join_byte_cons2 by discriminate. rewrite (trim_left_go_sep ","%char) by reflexivity.
    inversion F as [|? ? Hp Fq]; subst.
    rewrite split_byte_app by (intros I; exact (Hp (trim_left_go_in _ _ I))).
    rewrite split_join; [|discriminate|exact Fq].
    cbn [map]. rewrite jt_lead. reflexivity.
Qed.

Lemma lclean_ascii_start c r : is_ascii c = true -> is_space c = false -> lclean (c :: r).
Proof.
  intros A N. unfold lclean. cbn [lstuck]. rewrite N.
  rewrite (uprefix_head_ascii _ _ usp_nonascii); [reflexivity|exact A].
Qed.
Lemma rclean_ascii_end s c : is_ascii c = true -> is_space c = false -> rclean (s ++ [c]).
Proof.
  intros A N. unfold rclean. rewrite rev_app_distr. cbn [rev app]. cbn [lstuck]. rewrite N.
  rewrite (uprefix_head_ascii _ _ uspr_nonascii); [reflexivity|exact A].
Qed.

(* ASCII, no blank *)
Definition cleanb (s : bytes) : bool := forallb (fun c => is_ascii c && negb (is_space c)) s.
Lemma cleanb_app a b : cleanb (a ++ b) = cleanb a && cleanb b.
Proof. apply forallb_app. Qed.
Lemma cleanb_last s c : cleanb (s ++ [c]) = true -> is_ascii c = true /\ is_space c = false.
Proof.
  rewrite cleanb_app. intros H. apply andb_true_iff in H. destruct H as [_ H].
  unfold cleanb in H. cbn [forallb] in H. rewrite andb_true_r in H. apply andb_true_iff in H.
  destruct H as [A N]. apply negb_true_iff in N. split; assumption.
Qed.
Lemma rclean_tail_clean pre s : s <> [] -> cleanb s = true -> rclean (pre ++ s).
Proof.
  intros NE C. destruct (exists_last NE) as (s' & c & ->). destruct (cleanb_last _ _ C) as [A N].
  rewrite app_assoc. apply rclean_ascii_end; assumption.
Qed.
Lemma rclean_sep_clean pre d K : K <> [] -> cleanb K = true -> rclean (pre ++ d :: K).
Proof.
  intros NE C. change (pre ++ d :: K) with (pre ++ [d] ++ K). rewrite app_assoc.
  apply rclean_tail_clean; assumption.
Qed.
Lemma cleanb_itoa z : cleanb (itoa z) = true.
Proof.
  unfold cleanb. apply forallb_forall. intros c I.
  pose proof (itoa_ascii z) as A. pose proof (itoa_no_space z) as N. rewrite Forall_forall in A.
  rewrite (A c I), (N c I). reflexivity.
Qed.
Lemma ok_clean s : val_ok s = true -> forallb is_ascii s = true -> cleanb s = true.
Proof.
  unfold val_ok, cleanb. intros H1 H2. rewrite forallb_forall in *. intros c I.
  rewrite (H2 c I), (val_char_nospace c (H1 c I)). reflexivity.
Qed.
Lemma kv_print_clean k v : cleanb k = true -> cleanb v = true ->
  cleanb (kv_print {| k_key := k; k_val := v |}) = true.
Proof.
  intros Hk Hv. unfold kv_print. cbn [k_key k_val]. destruct v as [|c v]; [exact Hk|].
  rewrite cleanb_app, Hk. cbn [andb].
  change ("="%char :: c :: v) with ([ "="%char ] ++ c :: v). rewrite cleanb_app, Hv. reflexivity.
Qed.
Lemma kv_print_nonnil q : k_key q <> [] -> kv_print q <> [].
Proof.
  unfold kv_print. intros H. destruct (k_val q); [exact H|].
  destruct (k_key q); [exfalso; apply H; reflexivity|discriminate].
Qed.

(* ---- the printed entry ---- *)
Definition vhead (v : via_param) : bytes :=
  v_name v ++ "/"%char :: v_version v ++ "/"%char :: v_transport v ++ " "%char ::
  (if Z.eqb (v_port v) 0 then v_host v else v_host v ++ ":"%char :: itoa (v_port v)).
Lemma print_vhead v : via_param_print v = vhead v ++ print_params ";"%char (v_params v).
Proof. unfold via_param_print, vhead. repeat (rewrite <- app_assoc; cbn [app]). reflexivity. Qed.
Lemma print_head_name v : exists T, via_param_print v = v_name v ++ "/"%char :: T.
Proof. unfold via_param_print. eexists. reflexivity. Qed.
Lemma print_params_snoc sep init q :
  print_params sep (init ++ [q]) = print_params sep init ++ sep :: kv_print q.
Proof. unfold print_params. rewrite flat_map_app. cbn [flat_map]. rewrite app_nil_r. reflexivity. Qed.
Lemma print_params_one sep q : print_params sep [q] = sep :: kv_print q.
Proof. unfold print_params. cbn [flat_map]. apply app_nil_r. Qed.
Lemma via_print_cons2 x r0 rs :
  via_print (x :: r0 :: rs) = via_param_print x ++ ","%char :: via_print (r0 :: rs).
Proof. unfold via_print. cbn [map]. apply join_byte_cons2. discriminate. Qed.
Lemma via_print_one x : via_print [x] = via_param_print x.
Proof. reflexivity. Qed.
Lemma via_print_nonnil x r : via_print (x :: r) <> [].
Proof.
  destruct (print_head_name x) as [T E]. destruct r as [|r0 rs].
  - rewrite via_print_one, E. intros H. destruct (v_name x); discriminate H.
  - rewrite via_print_cons2, E. intros H. destruct (v_name x); discriminate H.
Qed.
Lemma via_print_head x r : exists T, via_print (x :: r) = v_name x ++ "/"%char :: T.
Proof.
  destruct (print_head_name x) as [T E]. destruct r as [|r0 rs].
  - exists T. rewrite via_print_one. exact E.
  - exists (T ++ ","%char :: via_print (r0 :: rs)). rewrite via_print_cons2, E. rewrite <- app_assoc. reflexivity.
Qed.

(* ---- well-formedness of a concrete entry, spelled out ---- *)
Definition pk_ok (q : kv) : bool := safe1 (k_key q) && val_ok (k_val q).
Lemma pk_ok_eq q : wf_param (unembed_param q) = pk_ok q.
Proof. destruct q as [k [|c v]]; reflexivity. Qed.
Lemma forallb_pk ps : forallb wf_param (map unembed_param ps) = forallb pk_ok ps.
Proof. induction ps as [|q r IH]; [reflexivity|]. cbn [map forallb]. rewrite pk_ok_eq, IH. reflexivity. Qed.

Lemma vp_ok_iff v : vp_ok v = true <->
  safe1 (v_name v) = true /\ safe1 (v_version v) = true /\ safe1 (v_transport v) = true /\
  safe1 (v_host v) = true /\ (0 <= v_port v <= 65535) /\ forallb pk_ok (v_params v) = true.
Proof.
  unfold vp_ok, wf_via_shape, noslash, unembed_via.
  cbn [av_name av_version av_transport av_host av_port av_params].
  rewrite forallb_pk, !andb_true_iff.
  assert (P : wf_port (if Z.eqb (v_port v) 0 then None else Some (v_port v)) = true <-> 0 <= v_port v <= 65535).
  { destruct (Z.eqb_spec (v_port v) 0) as [E|E]; cbn [wf_port].
    - rewrite E. split; intros _; [lia|reflexivity].
    - split; lia. }
  rewrite P. tauto.
Qed.

Lemma kv_set_pk k v l : forallb pk_ok l = true -> safe1 k = true -> val_ok v = true ->
  forallb pk_ok (kv_set k v l) = true.
Proof.
  intros H Hk Hv. induction l as [|p r IH]; cbn [kv_set forallb].
  - unfold pk_ok. cbn [k_key k_val]. rewrite Hk, Hv. reflexivity.
  - cbn [forallb] in H. apply andb_true_iff in H. destruct H as [Hp Hr].
    destruct (beq (k_key p) k); cbn [forallb].
    + rewrite Hr, andb_true_r. unfold pk_ok in *. cbn [k_key k_val]. apply andb_true_iff in Hp.
      rewrite (proj1 Hp), Hv. reflexivity.
    + rewrite Hp, (IH Hr). reflexivity.
Qed.

Lemma digit_val_char : forall c, is_digit c = true -> val_char c = true.
Proof. acases. Qed.
Lemma val_ok_itoa z : val_ok (itoa z) = true.
Proof.
  unfold val_ok. apply forallb_forall. intros c I. pose proof (itoa_chars z) as F.
  rewrite Forall_forall in F. destruct (F c I) as [D| ->]; [apply digit_val_char; exact D|reflexivity].
Qed.

Lemma stamp_vp_ok peer port v : val_ok peer = true -> vp_ok v = true -> vp_ok (C07.stamp peer port v) = true.
Proof.
  intros Hs H. apply vp_ok_iff in H. apply vp_ok_iff.
  cbn [C07.stamp v_name v_version v_transport v_host v_port v_params].
  destruct H as (A & B & C & D & E & F).
  split; [exact A|]. split; [exact B|]. split; [exact C|]. split; [exact D|]. split; [exact E|].
  unfold stamp_params. destruct (kv_has _ _).
  - apply kv_set_pk; [apply kv_set_pk; [exact F|reflexivity|exact Hs]|reflexivity|apply val_ok_itoa].
  - apply kv_set_pk; [exact F|reflexivity|exact Hs].
Qed.

(* ---- SetParam: the last parameter afterwards ---- *)
Lemma kv_set_last k v l : exists init q, kv_set k v l = init ++ [q] /\
  (q = {| k_key := k; k_val := v |} \/ exists init0, l = init0 ++ [q]).
Proof.
  induction l as [|p r IH]; cbn [kv_set].
  - exists [], {| k_key := k; k_val := v |}. split; [reflexivity|left; reflexivity].
  - destruct (beq (k_key p) k) eqn:E.
    + apply beq_eq in E. destruct r as [|r0 rs].
      * exists [], {| k_key := k_key p; k_val := v |}. split; [reflexivity|left; rewrite E; reflexivity].
      * destruct (@exists_last _ (r0 :: rs)) as (init & q & Eq); [discriminate|].
        exists ({| k_key := k_key p; k_val := v |} :: init), q. split; [rewrite Eq; reflexivity|].
        right. exists (p :: init). rewrite Eq. reflexivity.
    + destruct IH as (init & q & E1 & E2). exists (p :: init), q. split; [rewrite E1; reflexivity|].
      destruct E2 as [E2|(init0 & E2)]; [left; exact E2|right; exists (p :: init0); rewrite E2; reflexivity].
Qed.

Lemma stamp_last peer port ps : exists init q, stamp_params peer port ps = init ++ [q] /\
  (q = {| k_key := s2b "received"; k_val := peer |} \/ q = {| k_key := s2b "rport"; k_val := itoa port |} \/
   exists init0, ps = init0 ++ [q]).
Proof.
  unfold stamp_params.
  destruct (kv_set_last (s2b "received") peer ps) as (i1 & q1 & A1 & B1).
  destruct (kv_has _ _).
  - destruct (kv_set_last (s2b "rport") (itoa port) (kv_set (s2b "received") peer ps)) as (i2 & q2 & A2 & B2).
    exists i2, q2. split; [exact A2|]. destruct B2 as [->|(init0 & B2)]; [right; left; reflexivity|].
    rewrite A1 in B2. apply app_inj_tail in B2. destruct B2 as [_ <-].
    destruct B1 as [->|B1]; [left; reflexivity|right; right; exact B1].
  - exists i1, q1. split; [exact A1|]. destruct B1 as [->|B1]; [left; reflexivity|right; right; exact B1].
Qed.

(* the source address / the branch the judge will read back *)
Definition src_ok (s : bytes) : Prop := val_ok s = true /\ forallb is_ascii s = true.

Lemma stamp_rclean peer port v : src_ok peer -> forallb pk_ok (v_params v) = true ->
  rclean (via_param_print v) -> rclean (via_param_print (C07.stamp peer port v)).
Proof.
  intros [S1 S2] PK. rewrite !print_vhead.
  change (vhead (C07.stamp peer port v)) with (vhead v).
  cbn [C07.stamp v_params].
  destruct (stamp_last peer port (v_params v)) as (init & q & E & C). rewrite E, print_params_snoc, app_assoc.
  destruct C as [->|[->|(init0 & E0)]].
  - intros _. apply rclean_sep_clean.
    + apply kv_print_nonnil. discriminate.
    + apply kv_print_clean; [reflexivity|apply ok_clean; assumption].
  - intros _. apply rclean_sep_clean.
    + apply kv_print_nonnil. discriminate.
    + apply kv_print_clean; [reflexivity|apply cleanb_itoa].
  - rewrite E0, print_params_snoc, app_assoc. apply rclean_sep; [|reflexivity].
    apply kv_print_nonnil. rewrite E0 in PK. rewrite forallb_app in PK. apply andb_true_iff in PK.
    destruct PK as [_ PK]. cbn [forallb] in PK. rewrite andb_true_r in PK. unfold pk_ok in PK.
    apply andb_true_iff in PK. destruct PK as [PK _]. apply safe1_inv in PK. exact (proj1 PK).
Qed.

(* ====================================================================== Part 3: good messages *)
Definition hname_ok (n : bytes) : Prop := ~ In ":"%char n /\ ~ In jLF n.
Definition rl_ok (l : list route_param) : Prop := Forall (fun r => lf_free (route_param_print r)) l.
(* whatever a raw value decodes to (From / To, CSeq, Route) prints without a line feed *)
Definition dec_ok (s : bytes) : Prop :=
  (forall f, parse_fromto s = Ok f -> lf_free (fromto_print f)) /\
  (forall c, parse_cseq s = Ok c -> lf_free (cseq_print c)) /\
  (forall l, parse_route s = Ok l -> rl_ok l).
(* a decoded Via header: entries of the grammar, and TrimSpace leaves the RIGHT end of the printed
   value alone.  (Its left end may begin with Unicode white space once the entries in front have been
   popped: the judge trims the left end of every entry, [j_trim_via], so that does not matter.) *)
Definition vl_ok (l : list via_param) : Prop :=
  l <> [] /\ forallb vp_ok l = true /\ rclean (via_print l).

Definition good_h (h : header) : Prop :=
  hname_ok (h_name h) /\
  match h_val h with
  | HRaw s => lf_free s /\ dec_ok s /\
              (is_via_name (h_name h) = true -> exists l, parse_via s = Ok l /\ vl_ok l /\ via_print l = s)
  | HVia l => vl_ok l
  | HRoute l => is_via_name (h_name h) = false /\ rl_ok l
  | HRecRoute l => is_via_name (h_name h) = false /\ rl_ok l
  | HFrom f => is_via_name (h_name h) = false /\ lf_free (fromto_print f)
  | HTo f => is_via_name (h_name h) = false /\ lf_free (fromto_print f)
  | HCSeq c => is_via_name (h_name h) = false /\ lf_free (cseq_print c)
  end.
Definition good (m : message) : Prop := Forall good_h (m_headers m).

Lemma good_h_raw h s : good_h h -> h_val h = HRaw s ->
  hname_ok (h_name h) /\ lf_free s /\ dec_ok s /\
  (is_via_name (h_name h) = true -> exists l, parse_via s = Ok l /\ vl_ok l /\ via_print l = s).
Proof.
  intros (N & G) V. rewrite V in G. destruct G as (A & B & C).
  split; [exact N|]. split; [exact A|]. split; [exact B|exact C].
Qed.

Lemma vl_ok_lf l : vl_ok l -> lf_free (via_print l).
Proof.
  intros (_ & OK & _). rewrite via_print_rp by exact OK. unfold rp_via. intros I.
  apply cb_in_join in I. destruct I as [E|(x & Ix & Ic)]; [discriminate E|].
  apply in_map_iff in Ix. destruct Ix as (a & <- & Ia). apply in_map_iff in Ia. destruct Ia as (v & <- & Iv).
  rewrite forallb_forall in OK. exact (rp_via1_lf _ (OK v Iv) Ic).
Qed.

Lemma rl_ok_lf l : rl_ok l -> lf_free (route_print l).
Proof.
  intros R I. unfold route_print in I. apply cb_in_join in I. destruct I as [E|(x & Ix & Ic)]; [discriminate E|].
  apply in_map_iff in Ix. destruct Ix as (r & <- & Ir). unfold rl_ok in R. rewrite Forall_forall in R.
  exact (R r Ir Ic).
Qed.

(* a Via header of a good message: its decoded entries, and its printed value *)
Lemma good_via_h h : good_h h -> is_via_name (h_name h) = true ->
  exists l, hval_vias (h_val h) = Some l /\ vl_ok l /\ hval_print (h_val h) = via_print l.
Proof.
  intros (N & G) Hn. destruct (h_val h) as [s|l|l|l|f|f|c]; cbn [hval_vias hval_print].
  - destruct G as (_ & _ & K). destruct (K Hn) as (l & P & OK & E). exists l. rewrite P.
    split; [reflexivity|]. split; [exact OK|symmetry; exact E].
  - exists l. split; [reflexivity|]. split; [exact G|reflexivity].
  - destruct G as [F _]. rewrite Hn in F. discriminate F.
  - destruct G as [F _]. rewrite Hn in F. discriminate F.
  - destruct G as [F _]. rewrite Hn in F. discriminate F.
  - destruct G as [F _]. rewrite Hn in F. discriminate F.
  - destruct G as [F _]. rewrite Hn in F. discriminate F.
Qed.

Lemma good_line_safe m : good m -> line_safe m.
Proof.
  unfold good, line_safe. intros G. eapply Forall_impl; [|exact G]. intros h ((N1 & N2) & Gv).
  split; [exact N1|]. split; [exact N2|].
  destruct (h_val h) as [s|l|l|l|f|f|c]; cbn [hval_print].
  - exact (proj1 Gv).
  - exact (vl_ok_lf _ Gv).
  - exact (rl_ok_lf _ (proj2 Gv)).
  - exact (rl_ok_lf _ (proj2 Gv)).
  - exact (proj2 Gv).
  - exact (proj2 Gv).
  - exact (proj2 Gv).
Qed.

(* ---- header operations ---- *)
Lemma good_set_val name v m : good m ->
  (forall h, get_header name (m_headers m) = Some h -> good_h {| h_name := h_name h; h_val := v |}) ->
  good (set_val name v m).
Proof.
  intros G K. unfold good, set_val. cbn [m_headers with_headers]. apply Forall_forall. intros x I.
  destruct (in_update_header _ _ _ _ I) as [J|(h & E & ->)].
  - exact (proj1 (Forall_forall _ _) G x J).
  - exact (K h E).
Qed.
Lemma good_get name m h : good m -> get_header name (m_headers m) = Some h ->
  good_h h /\ same_header (h_name h) name = true.
Proof.
  intros G E. destruct (get_header_in _ _ _ E) as [I N]. split; [|exact N].
  exact (proj1 (Forall_forall _ _) G h I).
Qed.
Lemma good_remove name m : good m -> good (with_headers m (remove_header name (m_headers m))).
Proof.
  intros G. unfold good. cbn [m_headers with_headers]. apply Forall_forall. intros x I.
  exact (proj1 (Forall_forall _ _) G x (in_remove_header _ _ _ I)).
Qed.
Lemma good_insert n h m : good_h h -> good m -> good (with_headers m (insert_at n h (m_headers m))).
Proof.
  intros Gh G. unfold good. cbn [m_headers with_headers]. apply Forall_forall. intros x I.
  apply in_insert_at in I. destruct I as [->|I]; [exact Gh|exact (proj1 (Forall_forall _ _) G x I)].
Qed.

(* ---- SetReceived keeps a decoded Via header good ---- *)
Lemma stamp_vl_ok peer port v rest : src_ok peer -> vl_ok (v :: rest) -> vl_ok (C07.stamp peer port v :: rest).
Proof.
  intros Hs (_ & OK & TR). cbn [forallb] in OK. apply andb_true_iff in OK. destruct OK as [Ov Or].
  split; [discriminate|]. split.
  - cbn [forallb]. rewrite (stamp_vp_ok peer port v (proj1 Hs) Ov), Or. reflexivity.
  - pose proof (proj1 (vp_ok_iff v) Ov) as (_ & _ & _ & _ & _ & PK).
    destruct rest as [|r0 rs].
    + rewrite via_print_one in *. apply stamp_rclean; assumption.
    + rewrite via_print_cons2 in *.
      exact (rclean_sep _ ","%char _ _ (via_print_nonnil r0 rs) eq_refl TR).
Qed.

(* ---- the proxy's own entry ---- *)
Definition branch_ok (br : bytes) : Prop := val_ok br = true /\ forallb is_ascii br = true.
Definition t_ok (br : bytes) (t : stransport) : Prop := vl_ok [C07.own_via br t].

Lemma t_ok_intro br t : safe1 (t_addr t) = true -> 0 <= t_port t <= 65535 -> branch_ok br -> t_ok br t.
Proof.
  intros Ha Hp [Hb1 Hb2]. unfold t_ok, vl_ok. split; [discriminate|]. split.
  - cbn [forallb]. rewrite andb_true_r. apply vp_ok_iff.
    unfold C07.own_via, via_set_param, create_via_param.
    cbn [v_name v_version v_transport v_host v_port v_params kv_set].
    split; [reflexivity|]. split; [reflexivity|]. split; [unfold t_proto; destruct (t_kind t); reflexivity|].
    split; [exact Ha|]. split; [exact Hp|].
    cbn [forallb]. unfold pk_ok. cbn [k_key k_val]. rewrite Hb1. reflexivity.
  - rewrite via_print_one. rewrite print_vhead.
    change (v_params (C07.own_via br t)) with [{| k_key := s2b "branch"; k_val := br |}].
    rewrite print_params_one. apply rclean_sep_clean.
    + apply kv_print_nonnil. discriminate.
    + apply kv_print_clean; [reflexivity|apply ok_clean; assumption].
Qed.

Lemma t_ok_addr br t : t_ok br t -> lf_free (t_addr t).
Proof.
  intros (_ & OK & _). cbn [forallb] in OK. rewrite andb_true_r in OK.
  apply vp_ok_iff in OK. destruct OK as (_ & _ & _ & H & _).
  change (v_host (C07.own_via br t)) with (t_addr t) in H.
  apply safe1_inv in H. apply nospace_lf. apply safe_nospace. exact (proj2 H).
Qed.

Lemma hname_ok_via : hname_ok (s2b "Via").
Proof. split; intros H; vm_compute in H; intuition discriminate. Qed.
Lemma hname_ok_rr : hname_ok (s2b "Record-Route").
Proof. split; intros H; vm_compute in H; intuition discriminate. Qed.

Lemma good_add_via v m : vl_ok [v] -> good m -> good (add_via v m).
Proof.
  intros Hv G. unfold add_via. apply good_insert; [|exact G]. split; [exact hname_ok_via|exact Hv].
Qed.

Lemma own_rr_lf t : lf_free (t_addr t) -> lf_free (route_param_print (own_record_route t)).
Proof.
  intros Ha. change (route_param_print (own_record_route t)) with (route_print [own_record_route t]).
  destruct (Z.eq_dec (t_port t) 0) as [E|E].
  - rewrite (C06.own_record_route_text_noport t E). intros I.
    apply in_app_or in I. destruct I as [I|I]; [vm_compute in I; intuition discriminate|].
    apply in_app_or in I. destruct I as [I|I]; [exact (Ha I)|vm_compute in I; intuition discriminate].
  - rewrite (C06.own_record_route_text t E). intros I.
    apply in_app_or in I. destruct I as [I|I]; [vm_compute in I; intuition discriminate|].
    apply in_app_or in I. destruct I as [I|[I|I]]; [exact (Ha I)|discriminate I|].
    apply in_app_or in I. destruct I as [I|I]; [exact (itoa_no_lf _ I)|vm_compute in I; intuition discriminate].
Qed.

Lemma good_add_rr t m : lf_free (t_addr t) -> good m -> good (add_record_route (own_record_route t) m).
Proof.
  intros Ha G. unfold add_record_route. apply good_insert; [|exact G].
  split; [exact hname_ok_rr|]. cbn [h_val h_name]. split; [vm_compute; reflexivity|].
  constructor; [apply own_rr_lf; exact Ha|constructor].
Qed.

Lemma good_pushed e must t m : t_ok (e_branch e) t -> good m ->
  good (px_add_record_route must t (px_add_via e t m)).
Proof.
  intros Ht G.
  assert (G1 : good (px_add_via e t m)) by (unfold px_add_via; apply good_add_via; [exact Ht|exact G]).
  unfold px_add_record_route. destruct (_ && _)%bool; [exact G1|].
  apply good_add_rr; [exact (t_ok_addr _ _ Ht)|exact G1].
Qed.

Lemma pushed_sb e must t m :
  m_start (px_add_record_route must t (px_add_via e t m)) = m_start m /\
  m_body (px_add_record_route must t (px_add_via e t m)) = m_body m.
Proof.
  destruct (px_add_record_route_veq must t (px_add_via e t m)) as (A & B & _). rewrite A, B.
  split; reflexivity.
Qed.

(* ====================================================================== Part 4: the steps keep [good] *)
Definition gpres {A} (x : M A) : Prop := forall m, good m -> good (fst (x m)).
Lemma gpres_mret {A} (a : A) : gpres (mret a). Proof. intros m G. exact G. Qed.
Lemma gpres_merr {A} : gpres (@merr A). Proof. intros m G. exact G. Qed.
Lemma gpres_mlift {A} (r : res A) : gpres (mlift r). Proof. intros m G. exact G. Qed.
Lemma gpres_read {A} (g : message -> res A) : gpres (fun m => (m, g m)).
Proof. intros m G. exact G. Qed.
Lemma gpres_mbind {A B} (x : M A) (f : A -> M B) : gpres x -> (forall a, gpres (f a)) -> gpres (mbind x f).
Proof.
  intros Hx Hf m G. unfold mbind. specialize (Hx m G). destruct (x m) as [m1 r]. cbn [fst] in Hx.
  destruct r; cbn [fst]; try exact Hx. apply Hf. exact Hx.
Qed.
Lemma gpres_mtry {A} (x : M A) : gpres x -> gpres (mtry x).
Proof. intros Hx m G. unfold mtry. specialize (Hx m G). destruct (x m) as [m1 r]. destruct r; exact Hx. Qed.

Lemma gpres_typed_get {A} name proj parse (inj : A -> hval) :
  (forall h s a, good_h h -> same_header (h_name h) name = true -> h_val h = HRaw s -> parse s = Ok a ->
                 good_h {| h_name := h_name h; h_val := inj a |}) ->
  gpres (typed_get name proj parse inj).
Proof.
  intros K m G. unfold typed_get.
  destruct (get_header name (m_headers m)) as [h|] eqn:E; [|exact G].
  destruct (proj (h_val h)); [exact G|].
  destruct (h_val h) as [s| | | | | |] eqn:V; try exact G.
  destruct (parse s) as [a| |] eqn:P; try exact G. cbn [fst].
  destruct (good_get _ _ _ G E) as [Gh N0].
  apply good_set_val; [exact G|]. intros h1 E1. rewrite E in E1. injection E1 as <-.
  exact (K h s a Gh N0 V P).
Qed.

(* the value a typed getter returns *)
Lemma typed_get_ret {A} name proj parse (inj : A -> hval) (Q : A -> Prop) :
  (forall h a, good_h h -> same_header (h_name h) name = true -> proj (h_val h) = Some a -> Q a) ->
  (forall h s a, good_h h -> same_header (h_name h) name = true -> h_val h = HRaw s -> parse s = Ok a -> Q a) ->
  forall m a, good m -> snd (typed_get name proj parse inj m) = Ok a -> Q a.
Proof.
  intros K1 K2 m a G. unfold typed_get.
  destruct (get_header name (m_headers m)) as [h|] eqn:E; [|discriminate].
  destruct (good_get _ _ _ G E) as [Gh N].
  destruct (proj (h_val h)) as [a0|] eqn:Pj.
  - cbn [snd]. intros H. injection H as <-. exact (K1 h a0 Gh N Pj).
  - destruct (h_val h) as [s| | | | | |] eqn:V; try discriminate.
    destruct (parse s) as [a0| |] eqn:P; try discriminate. cbn [snd]. intros H. injection H as <-.
    exact (K2 h s a0 Gh N V P).
Qed.

Lemma gpres_s_get_via : gpres s_get_via.
Proof.
  apply gpres_typed_get. intros h s a Gh Hn V P.
  destruct (good_h_raw h s Gh V) as (N & _ & _ & K). destruct (K Hn) as (l & P' & OK & _).
  rewrite P in P'. injection P' as <-. split; [exact N|exact OK].
Qed.
Lemma s_get_via_ret m l : good m -> snd (s_get_via m) = Ok l -> vl_ok l.
Proof.
  unfold s_get_via. apply typed_get_ret.
  - intros h a Gh Hn. destruct Gh as (N & Gv). revert Gv. destruct (h_val h); intros Gv Pj; try discriminate Pj.
    injection Pj as <-. exact Gv.
  - intros h s a Gh Hn V P. destruct (good_h_raw h s Gh V) as (_ & _ & _ & K).
    destruct (K Hn) as (l0 & P' & OK & _). rewrite P in P'. injection P' as <-. exact OK.
Qed.
Lemma gpres_s_get_route : gpres s_get_route.
Proof.
  apply gpres_typed_get. intros h s a Gh Hn V P.
  destruct (good_h_raw h s Gh V) as (N & _ & (_ & _ & D) & _).
  split; [exact N|]. split; [exact (not_via_false _ _ nv_route Hn)|exact (D a P)].
Qed.
Lemma s_get_route_ret m l : good m -> snd (s_get_route m) = Ok l -> rl_ok l.
Proof.
  unfold s_get_route. apply typed_get_ret.
  - intros h a Gh Hn. destruct Gh as (N & Gv). revert Gv. destruct (h_val h); intros Gv Pj; try discriminate Pj.
    injection Pj as <-. exact (proj2 Gv).
  - intros h s a Gh Hn V P. destruct (good_h_raw h s Gh V) as (_ & _ & (_ & _ & D) & _). exact (D a P).
Qed.
Lemma gpres_s_get_from : gpres s_get_from.
Proof.
  apply gpres_typed_get. intros h s a Gh Hn V P.
  destruct (good_h_raw h s Gh V) as (N & _ & (D & _ & _) & _).
  split; [exact N|]. split; [exact (not_via_false _ _ nv_from Hn)|exact (D a P)].
Qed.
Lemma gpres_s_get_to : gpres s_get_to.
Proof.
  apply gpres_typed_get. intros h s a Gh Hn V P.
  destruct (good_h_raw h s Gh V) as (N & _ & (D & _ & _) & _).
  split; [exact N|]. split; [exact (not_via_false _ _ nv_to Hn)|exact (D a P)].
Qed.
Lemma gpres_s_get_cseq : gpres s_get_cseq.
Proof.
  apply gpres_typed_get. intros h s a Gh Hn V P.
  destruct (good_h_raw h s Gh V) as (N & _ & (_ & D & _) & _).
  split; [exact N|]. split; [exact (not_via_false _ _ nv_cseq Hn)|exact (D a P)].
Qed.
Lemma gpres_s_get_raw name : gpres (s_get_raw name).
Proof. apply gpres_read. Qed.
Lemma gpres_s_get_expires d : gpres (s_get_expires d).
Proof. intros m G. exact G. Qed.
Lemma gpres_s_get_method : gpres s_get_method.
Proof.
  intros m G. unfold s_get_method. destruct (m_start m); [exact G|].
  apply (gpres_mbind s_get_cseq); [exact gpres_s_get_cseq|intros c; apply gpres_mret|exact G].
Qed.
Lemma gpres_s_top_via : gpres s_top_via.
Proof. apply gpres_mbind; [apply gpres_s_get_via|]. intros [|v l]; [apply gpres_merr|apply gpres_mret]. Qed.
Lemma gpres_s_client_transaction : gpres s_client_transaction.
Proof.
  apply gpres_mbind; [apply gpres_s_get_cseq|intros c].
  apply gpres_mbind; [apply gpres_s_top_via|intros v].
  apply gpres_mbind; [apply gpres_mlift|intros b]. apply gpres_mret.
Qed.
Lemma gpres_s_get_dialog : gpres s_get_dialog.
Proof.
  apply gpres_mbind; [apply gpres_s_get_raw|intros cid].
  apply gpres_mbind; [apply gpres_s_get_from|intros f].
  apply gpres_mbind; [apply gpres_mlift|intros ft].
  apply gpres_mbind; [apply gpres_s_get_to|intros t].
  apply gpres_mbind; [apply gpres_mlift|intros tt]. apply gpres_mret.
Qed.

Lemma gpres_s_pop_route : gpres s_pop_route.
Proof.
  intros m G. unfold s_pop_route, mbind.
  pose proof (gpres_s_get_route m G) as G1. pose proof (s_get_route_ret m) as R.
  destruct (s_get_route m) as [m1 r]. cbn [fst snd] in G1, R.
  destruct r as [l| |]; cbn [fst]; try exact G1.
  specialize (R l G eq_refl).
  destruct l as [|a [|b l']]; unfold mmodify; cbn [fst].
  - apply good_remove. exact G1.
  - apply good_remove. exact G1.
  - apply good_set_val; [exact G1|]. intros h E. destruct (good_get _ _ _ G1 E) as [(N & _) Hn].
    split; [exact N|]. split; [exact (not_via_false _ _ nv_route Hn)|]. inversion R; assumption.
Qed.

Lemma gpres_s_set_received peer port : src_ok peer -> gpres (s_set_received peer port).
Proof.
  intros Hs m G. unfold s_set_received, mbind.
  pose proof (gpres_s_get_via m G) as G1. pose proof (s_get_via_ret m) as R.
  destruct (s_get_via m) as [m1 r]. cbn [fst snd] in G1, R.
  destruct r as [l| |]; cbn [fst]; try exact G1.
  specialize (R l G eq_refl).
  destruct l as [|v rest]; [exact G1|]. unfold mmodify. cbn [fst].
  rewrite stamp_eq.
  apply good_set_val; [exact G1|]. intros h E. destruct (good_get _ _ _ G1 E) as [(N & _) Hn].
  split; [exact N|]. apply stamp_vl_ok; assumption.
Qed.

Lemma good_decode_all hs : Forall good_h hs -> Forall good_h (fst (decode_all_vias hs)).
Proof.
  induction 1 as [|h r Gh Gr IH]; [constructor|]. cbn [decode_all_vias].
  destruct (decode_all_vias r) as [r' vs]. cbn [fst] in IH.
  destruct (same_header (h_name h) (s2b "Via")) eqn:E; [|cbn [fst]; constructor; assumption].
  destruct (h_val h) as [s| | | | | |] eqn:V; cbn [fst]; try (constructor; assumption).
  destruct (parse_via s) as [l| |] eqn:P; cbn [fst]; try (constructor; assumption).
  constructor; [|exact IH].
  destruct (good_h_raw h s Gh V) as (N & _ & _ & K). destruct (K E) as (l' & P' & OK & _).
  rewrite P in P'. injection P' as <-. split; [exact N|exact OK].
Qed.
Lemma gpres_s_all_via_params : gpres s_all_via_params.
Proof.
  intros m G. unfold s_all_via_params. pose proof (good_decode_all _ G) as H.
  destruct (decode_all_vias (m_headers m)) as [hs vs]. cbn [fst] in *. exact H.
Qed.

Lemma gpres_next_response_hop : gpres next_response_hop.
Proof.
  apply gpres_mbind; [apply gpres_s_top_via|]. intros v. destruct (via_get_received v); apply gpres_mret.
Qed.
Lemma gpres_next_hop_by_route keep : gpres (next_hop_by_route keep).
Proof.
  apply gpres_mbind; [apply gpres_s_get_route|]. intros [|rp l]; [apply gpres_merr|].
  apply gpres_mbind.
  - destruct keep; [apply gpres_mret|apply gpres_mtry, gpres_s_pop_route].
  - intros _. destruct (na_addr (r_addr rp)); [apply gpres_mret|apply gpres_merr].
Qed.
Lemma gpres_next_hop_by_config rt : gpres (next_hop_by_config rt).
Proof.
  apply gpres_mbind; [apply gpres_s_get_to|]. intros t. destruct (fromto_host t) as [h|]; [|apply gpres_merr].
  destruct (find_route rt h); [apply gpres_mret|apply gpres_merr].
Qed.
Lemma gpres_next_request_hop keep rt : gpres (next_request_hop keep rt).
Proof.
  intros m G. unfold next_request_hop. pose proof (gpres_next_hop_by_route keep m G) as H.
  destruct (next_hop_by_route keep m) as [m1 r]. cbn [fst] in H. destruct r; cbn [fst]; try exact H.
  apply gpres_next_hop_by_config. exact H.
Qed.
Lemma gpres_try_remove_top_route c from : gpres (try_remove_top_route c from).
Proof.
  apply gpres_mbind; [apply gpres_s_get_route|]. intros [|rp l]; [apply gpres_mret|].
  destruct (na_addr (r_addr rp)); [|apply gpres_mret].
  destruct (_ && _)%bool; [apply gpres_s_pop_route|apply gpres_mret].
Qed.
Lemma gpres_find_backend_by_dialog e p : gpres (find_backend_by_dialog e p).
Proof.
  apply gpres_mbind; [apply gpres_s_get_method|]. intros meth. destruct (_ && _)%bool; [apply gpres_mret|].
  apply gpres_mbind; [apply gpres_mtry, gpres_s_get_dialog|]. intros [d|]; [|apply gpres_mret].
  destruct (pins_get (e_now e) d (ps_pins p)) as [pins1 ob]. cbv zeta.
  destruct (_ && _)%bool; [apply gpres_mret|].
  apply gpres_mbind; [apply gpres_mtry, gpres_s_get_raw|]. intros ss. apply gpres_mret.
Qed.

(* ====================================================================== Part 5: the pipeline *)
(* learned transports: each prints as a readable own entry *)
Definition learned_ok (br : bytes) (l : learned) : Prop := forall h t, alookup h l = Some t -> t_ok br t.
Lemma learned_ok_learn br ip t l : t_ok br t -> learned_ok br l -> learned_ok br (learn ip t l).
Proof.
  intros Ht Hl h t' A. rewrite C06.learn_lookup in A. destruct (beq h ip).
  - destruct (alookup ip l) as [old|] eqn:Ao.
    + destruct (same_transport old t); injection A as <-; [exact (Hl _ _ Ao)|exact Ht].
    + injection A as <-. exact Ht.
  - exact (Hl _ _ A).
Qed.
Lemma learned_ok_fold br from vs : t_ok br from -> forall l, learned_ok br l ->
  learned_ok br (fold_left (fun l v => learn (v_host v) from l) vs l).
Proof.
  intros Ht. induction vs as [|v r IH]; intros l Hl; [exact Hl|]. cbn [fold_left]. apply IH.
  apply learned_ok_learn; assumption.
Qed.

(* an output of the proxy: a dial marker, or write_message m' with m' good, the start line and
   body of the request, and the Via view [vh], possibly beneath the proxy's own entry *)
Definition relayed2 (br : bytes) (vh : list (option (list via_param))) (st : start_line) (bd : bytes)
           (o : output) : Prop :=
  match fst o with
  | DDial _ _ _ => True
  | _ => exists m', snd o = write_message m' /\ good m' /\ m_start m' = st /\ m_body m' = bd /\
                    (via_hdrs m' = vh \/ exists t, via_hdrs m' = Some [C07.own_via br t] :: vh)
  end.

Lemma out_is_relayed2 br vh st bd m o : good m -> m_start m = st -> m_body m = bd ->
  (via_hdrs m = vh \/ exists t, via_hdrs m = Some [C07.own_via br t] :: vh) ->
  out_is m o -> relayed2 br vh st bd o.
Proof.
  unfold out_is, relayed2. intros G S B H. destruct (fst o); intros Ho; try exact I;
    (exists m; split; [exact Ho|split; [exact G|split; [exact S|split; [exact B|exact H]]]]).
Qed.

Lemma send_to_backend_outs2 e m x : good m ->
  (forall t0, first_transport (e_lc e) = Some t0 -> t_ok (e_branch e) t0) ->
  exists outs, x_outs (fst (send_to_backend e m x)) = x_outs x ++ outs /\
               Forall (relayed2 (e_branch e) (via_hdrs m) (m_start m) (m_body m)) outs.
Proof.
  intros G HF.
  assert (NIL : exists outs, x_outs x = x_outs x ++ outs /\
                             Forall (relayed2 (e_branch e) (via_hdrs m) (m_start m) (m_body m)) outs).
  { exists []. split; [symmetry; apply app_nil_r|constructor]. }
  unfold send_to_backend. destruct (negb (ps_has_rr (x_p x))); [exact NIL|].
  destruct (first_transport (e_lc e)) as [t0|] eqn:FT; [|exact NIL].
  pose proof (vpres_find_backend_by_dialog e (x_p x) m) as V.
  pose proof (gpres_find_backend_by_dialog e (x_p x) m G) as G1.
  destruct (find_backend_by_dialog e (x_p x) m) as [m1 r]. cbn [fst] in V, G1.
  set (pb := match r with Ok v => v | _ => (x_p x, None) end). destruct pb as [p1 ob].
  set (b := match ob with Some b => b | None => BRR end).
  set (m2 := px_add_record_route _ t0 (px_add_via e t0 m1)).
  assert (V2 : via_hdrs m2 = Some [C07.own_via (e_branch e) t0] :: via_hdrs m).
  { subst m2. rewrite pushed_view. destruct V as (_ & _ & ->). reflexivity. }
  assert (G2 : good m2) by (subst m2; apply good_pushed; [exact (HF t0 eq_refl)|exact G1]).
  assert (S2 : m_start m2 = m_start m /\ m_body m2 = m_body m).
  { subst m2. destruct (pushed_sb e (pa_must_rr (wire_proxy (e_lc e))) t0 m1) as [A B].
    destruct V as (Va & Vb & _). rewrite A, B. split; assumption. }
  destruct (backend_send b (write_message m2) p1) as [[p2 outs] ok] eqn:EB.
  assert (F : Forall (relayed2 (e_branch e) (via_hdrs m) (m_start m) (m_body m)) outs).
  { destruct (backend_send_outs _ _ _ _ _ _ EB) as [->|(ip & port & ->)]; [constructor|].
    constructor; [|constructor]. unfold relayed2. cbn [fst snd]. exists m2. destruct S2 as [Sa Sb].
    split; [reflexivity|]. split; [exact G2|]. split; [exact Sa|]. split; [exact Sb|].
    right. exists t0. exact V2. }
  destruct ok.
  - destruct (mtry s_client_transaction m2) as [m3 tid]. cbn. exists outs. split; [reflexivity|exact F].
  - cbn. exact NIL.
Qed.

Lemma handle_request_outs2 e from m x : is_request m = true -> good m ->
  learned_ok (e_branch e) (x_learned x) ->
  (forall t0, first_transport (e_lc e) = Some t0 -> t_ok (e_branch e) t0) ->
  exists outs, x_outs (fst (handle_message e from m x)) = x_outs x ++ outs /\
               Forall (relayed2 (e_branch e) (via_hdrs m) (m_start m) (m_body m)) outs.
Proof.
  intros Hq G HL HF. unfold handle_message. rewrite Hq.
  pose proof (vpres_next_request_hop (c_keep_next_hop (e_cfg e)) (route_table_of (e_cfg e)) m) as V.
  pose proof (gpres_next_request_hop (c_keep_next_hop (e_cfg e)) (route_table_of (e_cfg e)) m G) as G1.
  destruct (next_request_hop _ _ m) as [m1 r]. cbn [fst] in V, G1. destruct V as (Va & Vb & V).
  assert (BK : exists outs, x_outs (fst (if is_my_message (new_my_name (c_name (e_cfg e))) from m1
                                          then send_to_backend e m1 x else (x, m1))) = x_outs x ++ outs /\
                            Forall (relayed2 (e_branch e) (via_hdrs m) (m_start m) (m_body m)) outs).
  { destruct (is_my_message _ from m1).
    - destruct (send_to_backend_outs2 e m1 x G1 HF) as (outs & H1 & H2). exists outs.
      rewrite V, Va, Vb in H2. split; assumption.
    - exists []. split; [symmetry; apply app_nil_r|constructor]. }
  destruct r as [[[host port] tr]| |]; try exact BK.
  set (m2 := match alookup host (x_learned x) with Some t => _ | None => m1 end).
  assert (V2 : good m2 /\ m_start m2 = m_start m /\ m_body m2 = m_body m /\
               (via_hdrs m2 = via_hdrs m \/ exists t, via_hdrs m2 = Some [C07.own_via (e_branch e) t] :: via_hdrs m)).
  { subst m2. destruct (alookup host (x_learned x)) as [t|] eqn:A.
    - destruct (pushed_sb e (pa_must_rr (wire_proxy (e_lc e))) t m1) as [Sa Sb].
      split; [apply good_pushed; [exact (HL _ _ A)|exact G1]|].
      split; [rewrite Sa; exact Va|]. split; [rewrite Sb; exact Vb|].
      right. exists t. rewrite pushed_view, V. reflexivity.
    - split; [exact G1|]. split; [exact Va|]. split; [exact Vb|]. left. exact V. }
  destruct V2 as (G2 & S2 & B2 & V2).
  destruct (send_message_out_is e host port tr m2 x) as (outs & H1 & H2). exists outs. split; [exact H1|].
  eapply Forall_impl; [|exact H2]. intros o.
  destruct (veq_sent_msg m2) as (Sa & Sb & Sv).
  apply out_is_relayed2.
  - unfold sent_msg. apply (gpres_mtry _ gpres_s_client_transaction). exact G2.
  - rewrite Sa. exact S2.
  - rewrite Sb. exact B2.
  - rewrite Sv. exact V2.
Qed.

(* C07_pipeline with the invariant [good] carried along *)
Theorem pipeline2 : forall e peer port from rs tcp m0 x x',
  is_request m0 = true -> good m0 -> src_ok peer -> t_ok (e_branch e) from ->
  learned_ok (e_branch e) (x_learned x) ->
  (forall t0, first_transport (e_lc e) = Some t0 -> t_ok (e_branch e) t0) ->
  process_message e peer port from rs tcp m0 x = Ok x' ->
  exists outs, x_outs x' = x_outs x ++ outs /\
               Forall (relayed2 (e_branch e) (stamp_hdrs rs peer port (via_hdrs m0)) (m_start m0) (m_body m0)) outs.
Proof.
  intros e peer port from rs tcp m0 x x' Hq G0 Hsrc Hfrom HL HF. unfold process_message.
  set (LP := if (is_request m0 && negb (amem peer (ps_backends (x_p x))))%bool then _ else (m0, x_learned x)).
  assert (VL : veq m0 (fst LP) /\ good (fst LP) /\ learned_ok (e_branch e) (snd LP)).
  { subst LP. destruct (_ && _)%bool; [|split; [apply veq_refl|split; assumption]].
    destruct (s_all_via_params_spec m0) as (_ & A & B & C).
    pose proof (gpres_s_all_via_params m0 G0) as GA.
    destruct (s_all_via_params m0) as [m' vs]. cbn [fst snd] in *.
    split; [repeat split; assumption|]. split; [exact GA|].
    apply learned_ok_fold; [exact Hfrom|]. apply learned_ok_learn; assumption. }
  clearbody LP. destruct LP as [m1 l1]. cbn [fst snd] in VL. destruct VL as (VL & G1 & HL1).
  rewrite (veq_is_request _ _ VL), Hq.
  set (m2 := if (true && rs)%bool then _ else m1).
  assert (V2 : m_start m2 = m_start m0 /\ m_body m2 = m_body m0 /\
               via_hdrs m2 = stamp_hdrs rs peer port (via_hdrs m0) /\ good m2).
  { subst m2. destruct VL as (A & B & C). destruct rs; cbn [andb].
    - destruct (s_set_received_view peer port m1) as (S1 & S2 & S3). rewrite S1, S2, S3, A, B, C.
      split; [reflexivity|]. split; [reflexivity|]. split; [reflexivity|].
      apply gpres_s_set_received; assumption.
    - split; [exact A|]. split; [exact B|]. split; [exact C|exact G1]. }
  destruct V2 as (V2a & V2c & V2b & G2).
  assert (Q2 : is_request m2 = true) by (unfold is_request in *; rewrite V2a; exact Hq).
  clearbody m2.
  set (TP := match tcp with Some c => _ | None => (m2, Ok (x_p x)) end).
  assert (VT : veq m2 (fst TP) /\ good (fst TP)).
  { subst TP. destruct tcp as [c|]; [|split; [apply veq_refl|exact G2]]. rewrite Q2.
    pose proof (vpres_mtry _ vpres_next_response_hop m2) as VH.
    pose proof (gpres_mtry _ gpres_next_response_hop m2 G2) as GH.
    destruct (mtry next_response_hop m2) as [m' hop]. cbn [fst] in VH, GH.
    destruct hop as [oh| |]; try (cbn [fst]; split; assumption).
    destruct (if has_prefix _ _ then _ else _) as [host| |]; try (cbn [fst]; split; assumption).
    destruct oh as [hh|]; [|cbn [fst]; split; assumption].
    pose proof (vpres_mtry _ vpres_s_client_transaction m') as VC.
    pose proof (gpres_mtry _ gpres_s_client_transaction m' GH) as GC.
    destruct (mtry s_client_transaction m') as [m'' tid]. cbn [fst] in VC, GC.
    assert (VV : veq m2 m'') by (eapply veq_trans; eassumption).
    destruct tid as [[t|]| |]; try (cbn [fst]; split; assumption).
    destruct (get_transport _ _ _ _ _ _) as [p1 rk]. destruct rk; cbn [fst]; split; assumption. }
  clearbody TP. destruct TP as [m3 rp]. cbn [fst] in VT. destruct VT as (VT & G3).
  destruct rp as [p1| |]; try discriminate. intros H. cbv zeta in H.
  set (m4 := fst (mtry (try_remove_top_route (e_cfg e) from) m3)) in H.
  assert (V4 : veq m3 m4) by (apply (vpres_mtry _ (vpres_try_remove_top_route _ _))).
  assert (G4 : good m4) by (apply (gpres_mtry _ (gpres_try_remove_top_route _ _)); exact G3).
  assert (V : veq m2 m4) by (eapply veq_trans; eassumption).
  assert (Q4 : is_request m4 = true) by (rewrite (veq_is_request _ _ V); exact Q2).
  assert (R4 : is_response m4 = false) by (unfold is_response; rewrite Q4; reflexivity).
  clearbody m4. rewrite R4 in H. injection H as <-.
  match goal with |- context [handle_message e from m4 ?x1] =>
    destruct (handle_request_outs2 e from m4 x1 Q4 G4 HL1 HF) as (outs & H1 & H2) end.
  cbn [x_outs] in H1. exists outs. split; [exact H1|].
  destruct V as (Va & Vb & Vc). rewrite Vc, V2b, Va, V2a, Vb, V2c in H2. exact H2.
Qed.

(* ====================================================================== Part 6: what the judge reads *)
(* the entries the judge extracts from one header (name, value) *)
Definition jentries (p : bytes * bytes) : list bytes :=
  if is_via (fst p) then map j_trim_via (split_byte ","%char (snd p)) else [].
Lemma j_flat_entries hs : j_flat_via hs = flat_map jentries hs.
Proof. reflexivity. Qed.

Lemma via_param_print_no_comma v : vp_ok v = true -> ~ In ","%char (via_param_print v).
Proof. intros H. rewrite (vp_print_rp v H). apply rp_via1_no_comma. exact H. Qed.

(* one header value as [j_header] hands it over (TrimSpace), cut at the commas, every entry trimmed *)
Lemma jline_value l : vl_ok l ->
  opt_all (map j_via (map j_trim_via (split_byte ","%char (trim_space_go (via_print l))))) = Some (map jv_of l).
Proof.
  intros (NE & OK & TR). rewrite (rclean_trim _ TR). unfold via_print.
  rewrite entries_lead.
  - rewrite <- (jline_print l NE OK). unfold jline, via_print.
    rewrite split_join; [reflexivity| |].
    + destruct l; [contradiction|discriminate].
    + apply Forall_forall. intros s Hs. apply in_map_iff in Hs. destruct Hs as (v & <- & Hv).
      rewrite forallb_forall in OK. exact (via_param_print_no_comma v (OK v Hv)).
  - destruct l; [contradiction|discriminate].
  - apply Forall_forall. intros s Hs. apply in_map_iff in Hs. destruct Hs as (v & <- & Hv).
    rewrite forallb_forall in OK. exact (via_param_print_no_comma v (OK v Hv)).
Qed.

Lemma via_view_cons_gen h r :
  via_view (h :: r) = if is_via_name (h_name h) then hval_vias (h_val h) :: via_view r else via_view r.
Proof. unfold via_view, via_headers. cbn [filter]. destruct (is_via_name (h_name h)); reflexivity. Qed.

Lemma jentries_via h l : good_h h -> is_via_name (h_name h) = true -> hval_vias (h_val h) = Some l ->
  opt_all (map j_via (jentries (jpair (hpair h)))) = Some (map jv_of l).
Proof.
  intros Gh Hn Hv. destruct (good_via_h h Gh Hn) as (l' & Hv' & VL & Hp).
  rewrite Hv in Hv'. injection Hv' as <-.
  assert (Ev : is_via (h_name h) = true) by (rewrite <- same_header_via; exact Hn).
  unfold jentries, jpair, hpair. cbn [fst snd]. rewrite Ev, Hp.
  rewrite trim_space_go_sp by reflexivity. exact (jline_value l VL).
Qed.
Lemma jentries_other h : is_via_name (h_name h) = false -> jentries (jpair (hpair h)) = [].
Proof.
  intros Hn. assert (Ev : is_via (h_name h) = false) by (rewrite <- same_header_via; exact Hn).
  unfold jentries, jpair, hpair. cbn [fst snd]. rewrite Ev. reflexivity.
Qed.

(* every Via header good: the judge reads the decoded entries *)
Theorem via_read hs : Forall (fun h => is_via_name (h_name h) = true -> good_h h) hs ->
  opt_all (map j_via (j_flat_via (map (fun h => jpair (hpair h)) hs))) =
  Some (map jv_of (flat_view (via_view hs))).
Proof.
  rewrite j_flat_entries. induction 1 as [|h r Gh Gr IH]; [reflexivity|].
  cbn [map flat_map]. rewrite map_app, opt_all_app, IH, via_view_cons_gen.
  destruct (is_via_name (h_name h)) eqn:Hn.
  - destruct (good_via_h h (Gh eq_refl) Hn) as (l & Hv & _ & _).
    rewrite (jentries_via h l (Gh eq_refl) Hn Hv), Hv. cbn [flat_view flat_map]. rewrite map_app. reflexivity.
  - rewrite (jentries_other h Hn). reflexivity.
Qed.

Lemma good_view hs : Forall (fun h => is_via_name (h_name h) = true -> good_h h) hs ->
  Forall (fun o => exists l, o = Some l /\ l <> []) (via_view hs).
Proof.
  induction 1 as [|h r Gh Gr IH]; [constructor|]. rewrite via_view_cons_gen.
  destruct (is_via_name (h_name h)) eqn:Hn; [|exact IH].
  destruct (good_via_h h (Gh eq_refl) Hn) as (l & Hv & (NE & _) & _).
  constructor; [exists l; split; assumption|exact IH].
Qed.

(* ---- the headers write_message emits ---- *)
Lemma cl_not_via n : same_header n (s2b "Content-Length") = true -> is_via_name n = false.
Proof. apply (same_header_disjoint (s2b "Content-Length") VIA n). vm_compute. reflexivity. Qed.

Lemma emitted_view m : via_view (emitted_headers m) = via_hdrs m.
Proof.
  unfold emitted_headers, via_hdrs. rewrite via_view_app.
  assert (E : via_view [cl_header m] = []) by (rewrite via_view_cons_gen; reflexivity).
  rewrite E, app_nil_r. induction (m_headers m) as [|h r IH]; [reflexivity|].
  cbn [filter]. unfold is_cl_h at 1. destruct (same_header (h_name h) (s2b "Content-Length")) eqn:C; cbn [negb].
  - rewrite (via_view_cons_gen h r), (cl_not_via _ C). exact IH.
  - rewrite !via_view_cons_gen, IH. reflexivity.
Qed.
Lemma emitted_good m : good m -> Forall (fun h => is_via_name (h_name h) = true -> good_h h) (emitted_headers m).
Proof.
  intros G. unfold emitted_headers. apply Forall_app. split.
  - apply Forall_forall. intros h I Hn. apply filter_In in I. exact (proj1 (Forall_forall _ _) G h (proj1 I)).
  - constructor; [|constructor]. intros Hn. vm_compute in Hn. discriminate Hn.
Qed.

(* ---- the INPUT: the judge's headers are the model's raw headers ---- *)
Definition praw (h : header) : Prop :=
  hname_ok (h_name h) /\ exists v, h_val h = HRaw v /\ lf_free v /\ trim_space_go v = v.

Lemma j_lines_lf : forall f s acc ls rest,
  j_lines f s acc = Some (ls, rest) -> Forall lf_free acc -> Forall lf_free ls.
Proof.
  induction f as [|f IH]; intros s acc ls rest J A; [discriminate J|]. cbn [j_lines] in J.
  destruct (index_byte jLF s) as [i|] eqn:Ei; [|discriminate J].
  destruct (index_byte_some _ _ _ Ei) as (_ & Nlf & _).
  destruct (j_strip_cr (firstn i s)) as [|c l] eqn:El.
  - inversion J; subst. apply Forall_rev. exact A.
  - apply (IH _ _ _ _ J). constructor; [|exact A]. intros I. rewrite <- El in I.
    apply j_strip_cr_in in I. exact (Nlf I).
Qed.

Lemma parse_header_line_praw line h : lf_free line -> parse_header_line line = Ok h -> praw h.
Proof.
  unfold parse_header_line. intros L. destruct (index_byte ":"%char line) as [p|] eqn:E; [|discriminate].
  intros H. injection H as <-. cbn [h_name h_val]. destruct (index_byte_some _ _ _ E) as (_ & Nc & _).
  split; [split; [exact Nc|intros I; apply L; exact (cb_in_firstn _ _ _ I)]|].
  eexists. split; [reflexivity|]. split; [|apply trim_space_go_idem].
  apply trim_space_go_notin. intros I. apply L. exact (cb_in_skipn jLF (S p) line I).
Qed.

Lemma read_agree_all b jin m rest :
  j_read b = Some jin -> parse_message b = Ok (m, rest) ->
  jm_headers jin = map (fun h => jpair (hpair h)) (m_headers m) /\ Forall praw (m_headers m).
Proof.
  unfold j_read, parse_message. intros J P.
  set (s := trim_left b) in *. clearbody s.
  cbn [j_lines] in J.
  destruct (index_byte jLF s) as [i|] eqn:Ei; [|discriminate J].
  rewrite (read_line_index _ _ Ei) in P.
  destruct (index_byte_some _ _ _ Ei) as (_ & Nlf & _).
  destruct (j_strip_cr (firstn i s)) as [|c l] eqn:El.
  { change (rev (@nil bytes)) with (@nil bytes) in J. cbv beta iota in J. discriminate J. }
  cbv beta iota in J. cbv beta iota in P.
  match type of J with context [j_lines ?f ?r ?a] =>
    destruct (j_lines f r a) as [[ls jrest]|] eqn:JL end; [|discriminate J].
  destruct (parse_start_line (c :: l)) as [st| |] eqn:PS; try discriminate P. cbn [rbind] in P.
  match type of P with context [parse_headers ?f ?r []] =>
    destruct (parse_headers f r []) as [[hs rest1]| |] eqn:PH end; try discriminate P.
  cbn [rbind] in P. cbv beta iota in P.
  destruct (lines_sim _ _ _ _ _ _ _ _ _ JL PH) as (jl & hl & E1 & E2 & F & Er).
  cbn [rev app] in E1, E2. subst ls hs jrest. cbv beta iota in J.
  destruct (j_headers jl) as [jhs|] eqn:JH; [|discriminate J].
  pose proof (j_headers_rel _ _ F _ JH) as R.
  match type of P with context [get_header_int ?n ?mm] =>
    destruct (get_header_int n mm) as [cl| |] eqn:G end; try discriminate P.
  cbn [rbind] in P.
  destruct (Z.ltb cl 0); [discriminate P|]. destruct (Z.ltb _ cl); [discriminate P|].
  inversion P; subst m rest. clear P.
  cbv zeta in J. inversion J; subst jin. clear J. cbn [jm_headers m_headers].
  split.
  - clear -R. induction R as [|p h jhs hl (En & v & Hv & Es) R IH]; [reflexivity|]. cbn [map].
    rewrite <- IH. f_equal. destruct p as [n x]. cbn [fst snd] in En, Es. subst.
    unfold jpair, hpair. cbn [fst snd]. rewrite Hv. reflexivity.
  - assert (LJ : Forall lf_free ((c :: l) :: jl)).
    { apply (j_lines_lf _ _ _ _ _ JL). constructor; [|constructor]. intros I. rewrite <- El in I.
      apply j_strip_cr_in in I. exact (Nlf I). }
    inversion LJ as [|? ? _ LJ']; subst. clear -F LJ'.
    induction F as [|line h jl hl Ph F IH]; [constructor|]. inversion LJ' as [|? ? L1 L2]; subst.
    constructor; [exact (parse_header_line_praw _ _ L1 Ph)|exact (IH L2)].
Qed.

(* request or response: the judge and the model agree *)
Lemma parse_start_line_kind l st : parse_start_line l = Ok st ->
  (match st with SReq _ _ _ => true | _ => false end) = negb (has_prefix (s2b "SIP/") l).
Proof.
  unfold parse_start_line. destruct (has_prefix (s2b "SIP/") l).
  - unfold parse_status_line. destruct (fields_go l) as [|v [|c0 [|r1 rs]]]; try discriminate.
    destruct (atoi c0); [|discriminate]. intros H. injection H as <-. reflexivity.
  - unfold parse_request_line. destruct (fields_go l) as [|m0 [|u [|v [|x y]]]]; try discriminate.
    destruct (parse_addr_spec u); try discriminate. cbn [rbind]. intros H. injection H as <-. reflexivity.
Qed.

(* ====================================================================== Part 6b: decoded values stay in a line *)
(* Whatever the lazy getters decode out of a line-feed-free raw value (From / To, CSeq, Route) prints
   without a line feed: every component is cut out of the text, and the printers only add
   punctuation and decimal numbers.  For EVERY text, in or out of the grammar. *)
Ltac nlf := let H := fresh in intros H; vm_compute in H; discriminate H.
Lemma lf_nil : lf_free [].
Proof. intros []. Qed.
Lemma lf_app_i a b : lf_free a -> lf_free b -> lf_free (a ++ b).
Proof. intros A B I. apply in_app_or in I. destruct I as [I|I]; [exact (A I)|exact (B I)]. Qed.
Lemma lf_cons_i c a : c <> jLF -> lf_free a -> lf_free (c :: a).
Proof. intros N A [I|I]; [exact (N I)|exact (A I)]. Qed.
Lemma lf_tail c a : lf_free (c :: a) -> lf_free a.
Proof. intros L I. apply L. right. exact I. Qed.
Lemma lf_firstn n s : lf_free s -> lf_free (firstn n s).
Proof. intros L I. exact (L (cb_in_firstn _ _ _ I)). Qed.
Lemma lf_skipn n s : lf_free s -> lf_free (skipn n s).
Proof. intros L I. exact (L (cb_in_skipn _ _ _ I)). Qed.
Lemma lf_slice s a b : lf_free s -> lf_free (slice s a b).
Proof. intros L. unfold slice. apply lf_firstn, lf_skipn, L. Qed.
Lemma cb_join_in c l p x : In p l -> In x p -> In x (join_byte c l).
Proof.
  induction l as [|a r IH]; [intros []|]. intros Ip Ix. destruct r as [|b r'].
  - destruct Ip as [->|[]]. exact Ix.
  - rewrite join_byte_cons2 by discriminate. apply in_or_app. destruct Ip as [->|Ip]; [left; exact Ix|].
    right. right. exact (IH Ip Ix).
Qed.
Lemma lf_split c s : lf_free s -> Forall lf_free (split_byte c s).
Proof.
  intros L. apply Forall_forall. intros p Ip I. apply L. rewrite <- (join_split c s).
  exact (cb_join_in c _ p _ Ip I).
Qed.

Definition kv_lf (p : kv) : Prop := lf_free (k_key p) /\ lf_free (k_val p).
Lemma kv_split_lf s : lf_free s -> kv_lf (kv_split s).
Proof.
  intros L. unfold kv_split. destruct (index_byte "="%char s) as [pos|]; (split; cbn [k_key k_val]).
  - apply lf_firstn. exact L.
  - apply lf_skipn. exact L.
  - exact L.
  - exact lf_nil.
Qed.
Lemma kv_print_lf p : kv_lf p -> lf_free (kv_print p).
Proof.
  intros [A B]. unfold kv_print. destruct (k_val p) as [|c v] eqn:E; [exact A|].
  apply lf_app_i; [exact A|]. apply lf_cons_i; [nlf|]. exact B.
Qed.
Lemma print_params_lf sep l : sep <> jLF -> Forall kv_lf l -> lf_free (print_params sep l).
Proof.
  intros N F. unfold print_params. induction F as [|p r Hp Hr IH]; [exact lf_nil|]. cbn [flat_map].
  apply lf_app_i; [|exact IH]. apply lf_cons_i; [exact N|apply kv_print_lf; exact Hp].
Qed.
Lemma map_kv_split_lf l : Forall lf_free l -> Forall kv_lf (map kv_split l).
Proof. intros F. induction F; cbn [map]; constructor; [apply kv_split_lf; assumption|assumption]. Qed.
Lemma params_lf x : lf_free x -> Forall kv_lf (parse_uri_parameters x).
Proof. intros L. unfold parse_uri_parameters. apply map_kv_split_lf, lf_split, L. Qed.
Lemma headers_aux_lf l : Forall lf_free l -> Forall kv_lf (parse_uri_headers_aux l).
Proof.
  intros F. induction F as [|p r Hp Hr IH]; cbn [parse_uri_headers_aux]; [constructor|].
  destruct (index_byte "="%char p); [constructor; [apply kv_split_lf; exact Hp|exact IH]|constructor].
Qed.
Lemma headers_lf x : lf_free x -> Forall kv_lf (parse_uri_headers x).
Proof. intros L. unfold parse_uri_headers. apply headers_aux_lf, lf_split, L. Qed.
Lemma generic_params_lf l : Forall lf_free l -> forall ps, parse_generic_params l = Ok ps -> Forall kv_lf ps.
Proof.
  induction 1 as [|s r Hs Hr IH]; intros ps; cbn [parse_generic_params].
  - intros H. injection H as <-. constructor.
  - unfold parse_generic_param. destruct s as [|c s']; [discriminate|]. cbn [rbind].
    destruct (parse_generic_params r) as [qs| |]; try discriminate. cbn [rbind]. intros H. injection H as <-.
    constructor; [apply kv_split_lf; exact Hs|exact (IH _ eq_refl)].
Qed.

Definition uri_lf (u : sip_uri) : Prop :=
  lf_free (u_scheme u) /\ lf_free (u_user u) /\ lf_free (u_password u) /\ lf_free (u_host u) /\
  Forall kv_lf (u_params u) /\ Forall kv_lf (u_headers u).
Lemma lf_sip : lf_free (s2b "sip").
Proof. intros H. vm_compute in H. intuition discriminate. Qed.
Lemma lf_sips : lf_free (s2b "sips").
Proof. intros H. vm_compute in H. intuition discriminate. Qed.
Lemma lf_skipn_S n x : lf_free x -> lf_free (match x with [] => [] | _ :: l => skipn n l end).
Proof. intros L. exact (lf_skipn (S n) x L). Qed.
Ltac lfs := repeat first
  [ assumption | exact lf_nil | exact lf_sip | exact lf_sips | apply Forall_nil
  | apply lf_firstn | apply lf_skipn | apply lf_skipn_S | apply params_lf | apply headers_lf ].

Lemma parse_sip_uri_lf s u : lf_free s -> parse_sip_uri s = Ok u -> uri_lf u.
Proof.
  intros L. unfold parse_sip_uri, parse_sip_uri_with. cbv zeta.
  assert (L4 : lf_free (skipn 4 s)) by (apply lf_skipn; exact L).
  assert (L5 : lf_free (skipn 5 s)) by (apply lf_skipn; exact L).
  set (s4 := skipn 4 s) in *. set (s5 := skipn 5 s) in *. clearbody s4 s5.
  destruct (has_prefix (s2b "sip:") s); [|destruct (has_prefix (s2b "sips:") s); [|discriminate]].
  all: cbv beta; unfold parse_user_info, parse_host_port;
    repeat (match goal with |- context [match index_byte ?c ?x with _ => _ end] => destruct (index_byte c x) end;
            cbv beta iota zeta);
    intros H; injection H as <-; unfold uri_lf;
    cbn [u_scheme u_user u_password u_host u_port u_params u_headers];
    repeat split; lfs.
Qed.

Lemma sip_uri_print_lf a b u : uri_lf u -> lf_free (sip_uri_print_with a b u).
Proof.
  intros (A & B & C & D & E & F). unfold sip_uri_print_with.
  apply lf_app_i; [exact A|]. apply lf_cons_i; [nlf|].
  apply lf_app_i.
  { destruct (u_user u) as [|c r] eqn:Eu; [exact lf_nil|].
    destruct (u_password u) as [|d q] eqn:Ep.
    - apply lf_app_i; [exact B|]. apply lf_cons_i; [nlf|exact lf_nil].
    - apply lf_app_i; [exact B|]. apply lf_cons_i; [nlf|].
      apply lf_app_i; [exact C|]. apply lf_cons_i; [nlf|exact lf_nil]. }
  apply lf_app_i.
  { destruct (Z.eqb (u_port u) 0); [exact D|]. apply lf_app_i; [exact D|].
    apply lf_cons_i; [nlf|apply itoa_no_lf]. }
  apply lf_app_i.
  { destruct a; [apply print_params_lf; [nlf|exact E]|exact lf_nil]. }
  destruct b; [|exact lf_nil]. revert F. destruct (u_headers u) as [|h r]; intros F; [exact lf_nil|].
  inversion F as [|? ? Hh Hr]; subst. destruct Hh as [H1 H2].
  apply lf_cons_i; [nlf|]. apply lf_app_i; [exact H1|]. apply lf_cons_i; [nlf|]. apply lf_app_i; [exact H2|].
  clear F. induction Hr as [|p r' Hp Hr' IH]; [exact lf_nil|]. cbn [flat_map]. destruct Hp as [P1 P2].
  apply lf_app_i; [|exact IH]. apply lf_cons_i; [nlf|]. apply lf_app_i; [exact P1|].
  apply lf_cons_i; [nlf|exact P2].
Qed.

Definition addr_lf (a : addr_spec) : Prop := match a with ASip u => uri_lf u | AAbs s => lf_free s end.
Lemma parse_addr_spec_lf s a : lf_free s -> parse_addr_spec s = Ok a -> addr_lf a.
Proof.
  intros L. unfold parse_addr_spec, parse_addr_spec_with. destruct (_ || _)%bool.
  - pose proof (parse_sip_uri_lf s) as P. unfold parse_sip_uri in P.
    destruct (parse_sip_uri_with parse_uri_parameters s) as [u| |]; try discriminate.
    cbn [rmap]. intros H. injection H as <-. exact (P u L eq_refl).
  - intros H. injection H as <-. exact L.
Qed.
Lemma addr_spec_print_lf a : addr_lf a -> lf_free (addr_spec_print a).
Proof. destruct a as [u|s]; cbn [addr_lf addr_spec_print]; intros H; [exact (sip_uri_print_lf true true u H)|exact H]. Qed.

Definition na_lf (n : name_addr) : Prop := lf_free (na_display n) /\ addr_lf (na_addr n).
Lemma parse_name_addr_lf s n : lf_free s -> parse_name_addr s = Ok n -> na_lf n.
Proof.
  intros L. unfold parse_name_addr. destruct (index_byte "<"%char s) as [p1|]; [|discriminate].
  destruct (index_byte ">"%char s) as [p2|]; [|discriminate]. destruct (Nat.ltb p2 p1); [discriminate|].
  destruct (parse_addr_spec (slice s (S p1) p2)) as [a| |] eqn:E; try discriminate. cbn [rbind].
  intros H. injection H as <-. split; cbn [na_display na_addr]; [apply lf_firstn; exact L|].
  exact (parse_addr_spec_lf _ _ (lf_slice _ _ _ L) E).
Qed.
Lemma name_addr_print_lf n : na_lf n -> lf_free (name_addr_print n).
Proof.
  intros [A B]. unfold name_addr_print. apply lf_app_i; [exact A|]. apply lf_cons_i; [nlf|].
  apply lf_app_i; [apply addr_spec_print_lf; exact B|]. apply lf_cons_i; [nlf|exact lf_nil].
Qed.

Lemma parse_route_param_lf s r : lf_free s -> parse_route_param s = Ok r -> lf_free (route_param_print r).
Proof.
  intros L. unfold parse_route_param. destruct (index_byte ">"%char s) as [pos|]; [|discriminate].
  destruct (parse_name_addr (firstn (S pos) s)) as [na| |] eqn:E; try discriminate. cbn [rbind].
  pose proof (parse_name_addr_lf _ _ (lf_firstn _ _ L) E) as Hn.
  assert (Lt : lf_free (trim_space_go (skipn (S pos) s))) by (apply trim_space_go_notin; apply lf_skipn; exact L).
  revert Lt. destruct (trim_space_go (skipn (S pos) s)) as [|c rest]; intros Lt.
  - intros H. injection H as <-. unfold route_param_print. cbn [r_addr r_params].
    apply lf_app_i; [apply name_addr_print_lf; exact Hn|exact lf_nil].
  - destruct (Ascii.eqb c ";"%char); [|discriminate].
    destruct (parse_generic_params (split_byte ";"%char rest)) as [ps| |] eqn:Ep; try discriminate. cbn [rbind].
    intros H. injection H as <-. unfold route_param_print. cbn [r_addr r_params].
    apply lf_app_i; [apply name_addr_print_lf; exact Hn|]. apply print_params_lf; [nlf|].
    exact (generic_params_lf _ (lf_split _ _ (lf_tail _ _ Lt)) _ Ep).
Qed.

Lemma parse_all_forall {A} (f : bytes -> res A) (P : A -> Prop) l :
  (forall s a, In s l -> f s = Ok a -> P a) -> forall rs, parse_all f l = Ok rs -> Forall P rs.
Proof.
  induction l as [|s r IH]; intros K rs; cbn [parse_all].
  - intros H. injection H as <-. constructor.
  - destruct (f s) as [a| |] eqn:E; try discriminate. cbn [rbind].
    destruct (parse_all f r) as [rest| |] eqn:Er; try discriminate. cbn [rbind]. intros H. injection H as <-.
    constructor; [exact (K s a (or_introl eq_refl) E)|].
    exact (IH (fun s0 a0 I => K s0 a0 (or_intror I)) rest eq_refl).
Qed.
Lemma parse_route_lf s l : lf_free s -> parse_route s = Ok l -> rl_ok l.
Proof.
  intros L H. unfold parse_route in H. unfold rl_ok.
  refine (parse_all_forall parse_route_param _ _ _ l H). intros p r I E.
  pose proof (lf_split ","%char s L) as F. rewrite Forall_forall in F. exact (parse_route_param_lf p r (F p I) E).
Qed.

Lemma finish_lf (a : ft_addr) (params : bytes) f :
  lf_free params ->
  match params with
  | [] => Ok {| ft_addr_of := a; ft_params := [] |}
  | _ :: _ => let! ps := parse_generic_params (split_byte ";"%char params) in
              Ok {| ft_addr_of := a; ft_params := ps |}
  end = Ok f -> ft_addr_of f = a /\ Forall kv_lf (ft_params f).
Proof.
  intros L. destruct params as [|c r].
  - intros H. injection H as <-. split; [reflexivity|constructor].
  - destruct (parse_generic_params _) as [ps| |] eqn:E; try discriminate. cbn [rbind].
    intros H. injection H as <-. split; [reflexivity|]. exact (generic_params_lf _ (lf_split _ _ L) _ E).
Qed.
Lemma parse_fromto_lf s f : lf_free s -> parse_fromto s = Ok f -> lf_free (fromto_print f).
Proof.
  intros L.
  assert (K : forall a params f0, lf_free params ->
            match a with FtName n => na_lf n | FtSpec x => addr_lf x end ->
            match params with
            | [] => Ok {| ft_addr_of := a; ft_params := [] |}
            | _ :: _ => let! ps := parse_generic_params (split_byte ";"%char params) in
                        Ok {| ft_addr_of := a; ft_params := ps |}
            end = Ok f0 -> lf_free (fromto_print f0)).
  { intros a params f0 Lp Ha H. destruct (finish_lf a params f0 Lp H) as [E1 E2]. unfold fromto_print. rewrite E1.
    apply lf_app_i; [|apply print_params_lf; [nlf|exact E2]].
    destruct a; [apply name_addr_print_lf|apply addr_spec_print_lf]; exact Ha. }
  unfold parse_fromto, parse_fromto_with. cbv zeta beta.
  destruct (index_byte "<"%char s) as [la|].
  - destruct (index_byte ">"%char s) as [ra|]; [|discriminate]. destruct (Nat.ltb ra la); [discriminate|].
    destruct (parse_name_addr (firstn (S ra) s)) as [na| |] eqn:E; try discriminate. cbn [rbind].
    pose proof (parse_name_addr_lf _ _ (lf_firstn _ _ L) E) as Hn.
    destruct (index_byte ";"%char (skipn (S ra) s)) as [pos|].
    + intros H. exact (K (FtName na) _ f (lf_skipn _ _ (lf_skipn _ _ L)) Hn H).
    + intros H. exact (K (FtName na) [] f lf_nil Hn H).
  - destruct (index_byte ";"%char s) as [pos|].
    + destruct (parse_addr_spec (firstn pos s)) as [a| |] eqn:E; try discriminate. cbn [rbind].
      intros H. exact (K (FtSpec a) _ f (lf_skipn _ _ L) (parse_addr_spec_lf _ _ (lf_firstn _ _ L) E) H).
    + destruct (parse_addr_spec s) as [a| |] eqn:E; try discriminate. cbn [rbind].
      intros H. exact (K (FtSpec a) [] f lf_nil (parse_addr_spec_lf _ _ L E) H).
Qed.

(* strings.Fields: the fields are non-empty and blank-free *)
Lemma fields_aux_spec s : forall cur f, nospace cur -> In f (fields_aux s cur) -> f <> [] /\ nospace f.
Proof.
  induction s as [|c r IH]; intros cur f N I; cbn [fields_aux] in I.
  - destruct cur as [|x cur']; [destruct I|]. destruct I as [<-|[]]. split.
    + apply rev_nonnil. discriminate.
    + intros y Iy. apply N. apply in_rev. exact Iy.
  - destruct (is_space c) eqn:Ec.
    + destruct cur as [|x cur'].
      * exact (IH [] f (fun _ F => match F with end) I).
      * destruct I as [<-|I].
        -- split; [apply rev_nonnil; discriminate|]. intros y Iy. apply N. apply in_rev. exact Iy.
        -- exact (IH [] f (fun _ F => match F with end) I).
    + apply (IH (c :: cur) f); [|exact I]. intros y [<-|Iy]; [exact Ec|exact (N y Iy)].
Qed.
Lemma fields_spec s f : In f (fields s) -> f <> [] /\ nospace f.
Proof. apply fields_aux_spec. intros c []. Qed.

Lemma parse_cseq_lf s c : parse_cseq s = Ok c -> lf_free (cseq_print c).
Proof.
  unfold parse_cseq. destruct (fields_go s) as [|n [|m [|x y]]] eqn:F; try discriminate.
  destruct (atoi n); [|discriminate]. intros H. injection H as <-. unfold cseq_print. cbn [cs_seq cs_method].
  apply lf_app_i; [apply itoa_no_lf|]. apply lf_cons_i; [nlf|]. apply nospace_lf.
  refine (proj2 (fields_go_spec s m _)). rewrite F. right. left. reflexivity.
Qed.

Theorem dec_ok_lf s : lf_free s -> dec_ok s.
Proof.
  intros L. split; [|split].
  - intros f P. exact (parse_fromto_lf s f L P).
  - intros c P. exact (parse_cseq_lf s c P).
  - intros l P. exact (parse_route_lf s l L P).
Qed.

(* the re-encoded request line is a line that does not begin with a blank *)
Lemma request_line_ok l meth uri ver :
  parse_start_line l = Ok (SReq meth uri ver) -> start_ok (start_line_print (SReq meth uri ver)).
Proof.
  unfold parse_start_line. destruct (has_prefix (s2b "SIP/") l).
  - unfold parse_status_line. destruct (fields_go l) as [|v [|c0 [|r1 rs]]]; try discriminate.
    destruct (atoi c0); discriminate.
  - unfold parse_request_line. destruct (fields_go l) as [|m0 [|u [|v [|x y]]]] eqn:F; try discriminate.
    destruct (parse_addr_spec u) as [a| |] eqn:E; try discriminate. cbn [rbind]. intros H. injection H as <- <- <-.
    destruct (fields_go_spec l m0) as [M1 M2]; [rewrite F; left; reflexivity|].
    destruct (fields_go_spec l u) as [_ U2]; [rewrite F; right; left; reflexivity|].
    destruct (fields_go_spec l v) as [_ V2]; [rewrite F; right; right; left; reflexivity|].
    cbn [start_line_print]. split.
    + apply lf_app_i; [apply nospace_lf; exact M2|]. apply lf_cons_i; [nlf|].
      apply lf_app_i; [apply addr_spec_print_lf; exact (parse_addr_spec_lf _ _ (nospace_lf _ U2) E)|].
      apply lf_cons_i; [nlf|apply nospace_lf; exact V2].
    + destruct m0 as [|c r]; [exfalso; apply M1; reflexivity|]. cbn [app]. eexists. eexists.
      split; [reflexivity|]. apply M2. left. reflexivity.
Qed.

(* ---- the domain ---- *)
(* Via header values = reference renderings of well-formed entry lists of the C14 grammar *)
Definition via_domain (m : message) : Prop :=
  forall h s, In h (m_headers m) -> is_via_name (h_name h) = true -> h_val h = HRaw s ->
    exists al, al <> [] /\ forallb wf_via al = true /\ s = rp_via al.

Lemma good_of_parse m : Forall praw (m_headers m) -> via_domain m -> good m.
Proof.
  intros PR HV. unfold good. apply Forall_forall. intros h I.
  rewrite Forall_forall in PR. destruct (PR h I) as (N & s & V & L & T).
  split; [exact N|]. rewrite V. split; [exact L|]. split; [exact (dec_ok_lf s L)|].
  intros Hn. destruct (HV h s I Hn V) as (al & NE & W & ->).
  exists (map embed_via al). split; [apply parse_via_rp; assumption|]. split.
  - split; [destruct al; [exfalso; apply NE; reflexivity|discriminate]|]. split.
    + apply forallb_forall. intros v Iv. apply in_map_iff in Iv. destruct Iv as (a & <- & Ia).
      apply vp_ok_embed, wf_via_weaken. rewrite forallb_forall in W. exact (W a Ia).
    + rewrite via_print_embed by exact W. exact (proj2 (proj1 (trim_fix_iff _) T)).
  - apply via_print_embed. exact W.
Qed.

(* ====================================================================== Part 7: the judge's arithmetic *)
Lemma pairs_kv_set k v l : map pair_of (kv_set k v l) = p_set k v (map pair_of l).
Proof.
  induction l as [|p r IH]; cbn [kv_set p_set map]; [reflexivity|].
  unfold pair_of at 2. rewrite (beq_sym k (k_key p)).
  destruct (beq (k_key p) k); cbn [map]; [reflexivity|rewrite IH; reflexivity].
Qed.
Lemma kv_has_pairs k l : kv_has k l = match j_get k (map pair_of l) with Some _ => true | None => false end.
Proof.
  unfold kv_has. induction l as [|p r IH]; cbn [kv_get j_get map]; [reflexivity|].
  unfold pair_of at 1. rewrite (beq_sym k (k_key p)). destruct (beq (k_key p) k); [reflexivity|exact IH].
Qed.

(* the judge's [stamped] on its own reading = its reading of the model's stamped entry *)
Theorem jv_stamp peer port v : jv_of (C07.stamp peer port v) = stamped true peer port (jv_of v).
Proof.
  unfold stamped, jv_of.
  cbn [jv_proto jv_transport jv_host jv_port jv_params C07.stamp v_name v_version v_transport v_host v_port v_params].
  f_equal. unfold stamp_params. rewrite kv_has_pairs, pairs_kv_set.
  destruct (j_get (s2b "rport") (p_set (s2b "received") peer (map pair_of (v_params v)))); cbv iota;
    rewrite ?pairs_kv_set; reflexivity.
Qed.
Lemma jv_stamp_rs (rs : bool) peer port v :
  jv_of (if rs then C07.stamp peer port v else v) = stamped rs peer port (jv_of v).
Proof. destruct rs; [apply jv_stamp|reflexivity]. Qed.

Lemma jvia_eqb_refl a : jvia_eqb a a = true.
Proof.
  unfold jvia_eqb. rewrite !beq_refl, Nat.eqb_refl. destruct (jv_port a); rewrite ?Z.eqb_refl; cbn [andb].
  - induction (jv_params a) as [|[k v] r IH]; [reflexivity|]. cbn [combine forallb]. rewrite !beq_refl, IH. reflexivity.
  - induction (jv_params a) as [|[k v] r IH]; [reflexivity|]. cbn [combine forallb]. rewrite !beq_refl, IH. reflexivity.
Qed.
Lemma jvia_all_refl l : forallb (fun '(a, b) => jvia_eqb a b) (combine l l) = true.
Proof. induction l as [|a l IH]; [reflexivity|]. cbn [combine forallb]. rewrite jvia_eqb_refl, IH. reflexivity. Qed.

(* the comparison the judge makes for one output *)
Definition jcheck (want ovs : list jvia) : nat :=
  let ovs' := match ovs with
              | v :: r => if Nat.ltb (List.length want) (List.length ovs) then r else ovs
              | [] => [] end in
  match ovs', want with
  | o1 :: orest, w1 :: wrest =>
      if negb (jvia_eqb o1 w1) then 1%nat
      else if (Nat.eqb (List.length orest) (List.length wrest) &&
               forallb (fun '(a, b) => jvia_eqb a b) (combine orest wrest))%bool then O else 2%nat
  | _, _ => 2%nat
  end.
Definition jout (want : list jvia) (o : bytes * bytes) : nat :=
  match j_read (snd o) with
  | Some om =>
      match opt_all (map j_via (j_flat_via (jm_headers om))) with
      | Some ovs => jcheck want ovs
      | None => 2%nat
      end
  | None => O
  end.

Lemma judge_C07_udp_unfold pc st li src sport data outs closed :
  judge_C07_event pc st (EvUdp li src sport data) outs closed =
  match j_read data, nth_opt (c_listens (pc_cfg pc)) li with
  | Some m, Some lc =>
      if (negb (j_is_response m) && jm_has_cl m && (negb false || single_message m))%bool then
        match opt_all (map j_via (j_flat_via (jm_headers m))) with
        | Some (v1 :: vrest) =>
            first_nonzero (map (jout (stamped (received_on lc) src sport v1 :: vrest)) (msgs_of outs))
        | _ => O
        end
      else O
  | _, _ => O
  end.
Proof. reflexivity. Qed.

Lemma jcheck_same w1 wrest : jcheck (w1 :: wrest) (w1 :: wrest) = O.
Proof.
  unfold jcheck. rewrite Nat.ltb_irrefl. cbv beta iota zeta. rewrite jvia_eqb_refl. cbn [negb].
  rewrite Nat.eqb_refl, jvia_all_refl. reflexivity.
Qed.
(* one more entry than expected: the proxy's own one on top is skipped *)
Lemma jcheck_pushed x w1 wrest : jcheck (w1 :: wrest) (x :: w1 :: wrest) = O.
Proof.
  unfold jcheck.
  assert (E : Nat.ltb (List.length (w1 :: wrest)) (List.length (x :: w1 :: wrest)) = true)
    by (apply Nat.ltb_lt; cbn [List.length]; lia).
  rewrite E. cbv beta iota zeta. rewrite jvia_eqb_refl. cbn [negb].
  rewrite Nat.eqb_refl, jvia_all_refl. reflexivity.
Qed.

Lemma flat_stamp rs peer port vh : Forall (fun o => exists l : list via_param, o = Some l /\ l <> []) vh ->
  flat_view (stamp_hdrs rs peer port vh) =
  match flat_view vh with v :: t => (if rs then C07.stamp peer port v else v) :: t | [] => [] end.
Proof.
  intros F. destruct rs; cbn [stamp_hdrs]; [|destruct (flat_view vh); reflexivity].
  destruct F as [|o t (l & -> & NE) F']; [reflexivity|].
  destruct l as [|v rest]; [exfalso; apply NE; reflexivity|]. reflexivity.
Qed.

(* ====================================================================== Part 8: the bridge *)
(* an output as the correspondence run prints it: label, payload *)
Definition lab (o : output) : bytes * bytes := (label_of (fst o), snd o).
Lemma is_dial_label ip port c b : is_dial (label_of (DDial ip port c), b) = true.
Proof. reflexivity. Qed.
Lemma flat_view_cons l t : flat_view (Some l :: t) = l ++ flat_view t.
Proof. reflexivity. Qed.

(* one output of the pipeline, read by the judge *)
Lemma out_accepted br (rs : bool) src sport m o v vrest :
  good m -> start_ok (start_line_print (m_start m)) -> (Z.of_nat (List.length (m_body m)) <= int_max)%Z ->
  flat_view (via_hdrs m) = v :: vrest ->
  relayed2 br (stamp_hdrs rs src sport (via_hdrs m)) (m_start m) (m_body m) o ->
  negb (is_dial (lab o)) = true ->
  jout (stamped rs src sport (jv_of v) :: map jv_of vrest) (lab o) = O.
Proof.
  intros G So Bd FV R Nd. destruct o as [d b]. unfold relayed2 in R. unfold lab in *. cbn [fst snd] in *.
  assert (K : exists m', b = write_message m' /\ good m' /\ m_start m' = m_start m /\ m_body m' = m_body m /\
                         (via_hdrs m' = stamp_hdrs rs src sport (via_hdrs m) \/
                          exists t, via_hdrs m' = Some [C07.own_via br t] :: stamp_hdrs rs src sport (via_hdrs m))).
  { destruct d; try exact R. rewrite is_dial_label in Nd. discriminate Nd. }
  destruct K as (m' & -> & G' & S' & B' & V').
  unfold jout. cbn [snd].
  rewrite (C01_single_content_length_read m' (good_line_safe _ G'));
    [|rewrite S'; exact So|rewrite B'; exact Bd].
  cbv beta iota. cbn [jm_headers].
  rewrite (via_read _ (emitted_good _ G')), emitted_view.
  assert (GV : Forall (fun o => exists l : list via_param, o = Some l /\ l <> []) (via_hdrs m)).
  { apply good_view. eapply Forall_impl; [|exact G]. intros h Gh _. exact Gh. }
  pose proof (flat_stamp rs src sport _ GV) as FS. rewrite FV in FS.
  destruct V' as [->|(t & ->)].
  - rewrite FS. cbn [map]. rewrite jv_stamp_rs. apply jcheck_same.
  - rewrite flat_view_cons, FS. cbn [app map]. rewrite jv_stamp_rs. apply jcheck_pushed.
Qed.

(* REQUESTED AND PROVED (full layout generality: comma lists, repeated lines, compact name, any case).
   For every configuration, listener, judge state, source, datagram that both readers accept, every model state:
   the judge of C07 accepts what process_message appends (any sub-selection [keep] of it, as the run only shows
   the visible outputs), labelled as the correspondence run labels it.
   Requests and responses alike (for a response the judge has nothing to check).
   What is assumed, all of it about the INPUT / the configuration:
     via_domain m   the Via header values are reference renderings of well-formed entry lists (C14 grammar)
     src_ok src     the source address has no separator of the Via grammar and is ASCII (an IP literal)
     branch_ok br, safe1 (lc_addr lc), port ranges, learned transports: the proxy's own Via entry is readable
     fx_wiring fx = true   the repaired startProxy wiring (with the legacy wiring C07 is refuted, see C07.v) *)
Theorem C07_judge_bridge_udp :
  forall (pc : proxy_case) (st : jstate) (fx : fixes) (now : Z) (br : bytes) (li : nat) (lc : listen_cfg)
         (src : bytes) (sport : Z) (data : bytes) (jin : jmsg) (m : message) (rest : bytes)
         (x x' : ctx) (pre : list output) (keep : output -> bool) (closed : list nat),
  let c := pc_cfg pc in
  let e := mk_env fx c (item_rs_of (fx_wiring fx)) li lc now br in
  fx_wiring fx = true ->
  nth_opt (c_listens c) li = Some lc ->
  j_read data = Some jin -> parse_message data = Ok (m, rest) ->
  via_domain m ->
  src_ok src -> branch_ok br ->
  safe1 (lc_addr lc) = true -> 0 <= lc_udp lc <= 65535 -> 0 <= lc_tcp lc <= 65535 ->
  (forall h t, alookup h (x_learned x) = Some t -> safe1 (t_addr t) = true /\ 0 <= t_port t <= 65535) ->
  process_message e src sport {| t_kind := KUdp; t_addr := lc_addr lc; t_port := lc_udp lc |}
                  (e_item_rs e) None m x = Ok x' ->
  x_outs x' = x_outs x ++ pre ->
  judge_C07_event pc st (EvUdp li src sport data) (map lab (filter keep pre)) closed = O.
Proof.
  intros pc st fx now br li lc src sport data jin m rest x x' pre keep closed c e
         Hfx EL HJ HP HV Hsrc Hbr Ha Hu Ht HLn EP EO.
  subst c. rewrite judge_C07_udp_unfold. rewrite HJ, EL.
  destruct (negb (j_is_response jin) && jm_has_cl jin && (negb false || single_message jin))%bool eqn:Cond;
    [|reflexivity].
  destruct (read_agree _ _ _ _ HJ HP) as (_ & _ & _ & Bd & PS).
  destruct (read_agree_all _ _ _ _ HJ HP) as (EH & PR).
  assert (Hq : is_request m = true).
  { unfold is_request. rewrite (parse_start_line_kind _ _ PS).
    apply andb_true_iff in Cond. destruct Cond as [Cond _]. apply andb_true_iff in Cond.
    destruct Cond as [Cond _]. exact Cond. }
  assert (Hst : start_ok (start_line_print (m_start m))).
  { unfold is_request in Hq. destruct (m_start m) as [meth uri ver|] eqn:Em; [|discriminate Hq].
    exact (request_line_ok _ _ _ _ PS). }
  assert (G0 : good m) by (apply good_of_parse; assumption).
  rewrite EH. rewrite (via_read (m_headers m)) by (eapply Forall_impl; [|exact G0]; intros h Gh _; exact Gh).
  fold (via_hdrs m).
  destruct (flat_view (via_hdrs m)) as [|v vrest] eqn:FV; [reflexivity|]. cbn [map].
  apply first_nonzero_zero. intros o Ho.
  unfold msgs_of in Ho. apply filter_In in Ho. destruct Ho as [Ho Nd].
  apply in_map_iff in Ho. destruct Ho as (o0 & <- & Ho0). apply filter_In in Ho0. destruct Ho0 as [Ho0 _].
  assert (RS : e_item_rs e = received_on lc).
  { unfold e, mk_env. cbn [e_item_rs]. rewrite Hfx. reflexivity. }
  assert (Hfrom : t_ok (e_branch e) {| t_kind := KUdp; t_addr := lc_addr lc; t_port := lc_udp lc |})
    by (apply t_ok_intro; assumption).
  assert (HL : learned_ok (e_branch e) (x_learned x)).
  { intros h t A. destruct (HLn h t A) as [A1 A2]. apply t_ok_intro; assumption. }
  assert (HF : forall t0, first_transport (e_lc e) = Some t0 -> t_ok (e_branch e) t0).
  { intros t0 E0. unfold first_transport in E0. change (e_lc e) with lc in E0.
    destruct (Z.ltb 0 (lc_udp lc)); [injection E0 as <-; apply t_ok_intro; assumption|].
    destruct (Z.ltb 0 (lc_tcp lc)); [injection E0 as <-; apply t_ok_intro; assumption|discriminate E0]. }
  destruct (pipeline2 e src sport _ (e_item_rs e) None m x x' Hq G0 Hsrc Hfrom HL HF EP) as (outs & E1 & F).
  rewrite E1 in EO. apply app_inv_head in EO. subst outs.
  rewrite Forall_forall in F. specialize (F o0 Ho0). rewrite RS in F.
  exact (out_accepted (e_branch e) (received_on lc) src sport m o0 v vrest G0 Hst Bd FV F Nd).
Qed.

(* ---- the same for one step of the whole proxy: what proxy_step emits for the datagram (the run shows
   the sub-list [filter (visible ue) outs] of it) ---- *)
Lemma judge_C07_nil pc st ev closed : judge_C07_event pc st ev [] closed = O.
Proof.
  unfold judge_C07_event. destruct (j_input st ev) as [i|]; [|reflexivity].
  destruct (j_read (ji_data i)); [|reflexivity]. destruct (nth_opt _ _); [|reflexivity].
  destruct (_ && _)%bool; [|reflexivity]. destruct (opt_all _) as [[|v r]|]; reflexivity.
Qed.

Corollary C07_judge_bridge_step :
  forall (pc : proxy_case) (stj : jstate) (fx : fixes) (now : Z) (br : bytes) (st : state) (li : nat)
         (lc : listen_cfg) (src : bytes) (sport : Z) (data : bytes) (jin : jmsg) (m : message) (rest : bytes)
         (st' : state) (outs : list output) (keep : output -> bool) (closed : list nat),
  fx_wiring fx = true -> nth_opt (c_listens (pc_cfg pc)) li = Some lc ->
  j_read data = Some jin -> parse_message data = Ok (m, rest) ->
  via_domain m -> src_ok src -> branch_ok br ->
  safe1 (lc_addr lc) = true -> 0 <= lc_udp lc <= 65535 -> 0 <= lc_tcp lc <= 65535 ->
  (forall h t, alookup h (st_learned st) = Some t -> safe1 (t_addr t) = true /\ 0 <= t_port t <= 65535) ->
  proxy_step fx (pc_cfg pc) now br st (EvUdp li src sport data) = Ok (st', outs) ->
  judge_C07_event pc stj (EvUdp li src sport data) (map lab (filter keep outs)) closed = O.
Proof.
  intros pc stj fx now br st li lc src sport data jin m rest st' outs keep closed
         Hfx EL HJ HP HV Hsrc Hbr Ha Hu Ht HLn H.
  cbn [proxy_step] in H. rewrite EL, HP in H. unfold run_ctx in H.
  destruct (nth_p (st_proxies st) li) as [p|]; [|injection H as <- <-; apply judge_C07_nil].
  destruct (process_message _ _ _ _ _ _ _ _) as [x'| |] eqn:E; try discriminate.
  injection H as <- <-.
  eapply (C07_judge_bridge_udp pc stj fx now br li lc src sport data jin m rest _ x' (x_outs x') keep closed
            Hfx EL HJ HP HV Hsrc Hbr Ha Hu Ht); [|exact E|reflexivity].
  exact HLn.
Qed.

(* ---- executable form of the domain hypothesis (for concrete instances):
   the Via domain = decodable, well-formed entries, printed back byte for byte ---- *)
Definition via_domain_b (m : message) : bool :=
  forallb (fun h => if is_via_name (h_name h) then
                      match h_val h with
                      | HRaw s => match parse_via s with
                                  | Ok l => match l with [] => false | _ :: _ => true end &&
                                            forallb (fun v => wf_via (unembed_via v)) l && beq (via_print l) s
                                  | _ => false end
                      | _ => true end
                    else true) (m_headers m).
Lemma via_domain_b_sound m : via_domain_b m = true -> via_domain m.
Proof.
  unfold via_domain_b, via_domain. intros H h s I Hn V. rewrite forallb_forall in H. specialize (H h I).
  cbv beta in H. rewrite Hn, V in H. destruct (parse_via s) as [l| |]; try discriminate H.
  apply andb_true_iff in H. destruct H as [H H3]. apply andb_true_iff in H. destruct H as [H1 H2].
  apply beq_eq in H3. exists (map unembed_via l). split; [destruct l; [discriminate H1|discriminate]|].
  split.
  - apply forallb_forall. intros a Ia. apply in_map_iff in Ia. destruct Ia as (v & <- & Iv).
    rewrite forallb_forall in H2. exact (H2 v Iv).
  - rewrite <- H3. apply via_print_rp. rewrite forallb_forall in *. intros v Iv.
    exact (wf_via_weaken _ (H2 v Iv)).
Qed.

(* ====================================================================== Part 9: example *)
Module C07_bridge_example.
Open Scope string_scope.
Open Scope list_scope.
Open Scope Z_scope.
Definition ex_lc : listen_cfg :=
  {| lc_addr := s2b "10.0.0.1"; lc_udp := 5060; lc_tcp := 5060; lc_backends := []; lc_dynamic := false;
     lc_no_received := false; lc_def_route := false; lc_must_rr := false |}.
Definition ex_cfg : cfg :=
  {| c_name := s2b "proxy.example"; c_keep_next_hop := false; c_dialog_timeout := 60; c_routes := [];
     c_hosts := []; c_listens := [ex_lc] |}.
Definition ex_pc : proxy_case :=
  {| pc_cfg := ex_cfg; pc_tcp_listeners := []; pc_udp_endpoints := []; pc_events := []; pc_waits := [] |}.
Definition ln (s : string) : bytes := s2b s ++ crlf.
(* top entry: ";rport;x=1" and a spoofed received=10.9.9.9; two more entries (comma list + compact name) *)
Definition ex_data : bytes :=
  flat_map ln ["INVITE sip:bob@example.com SIP/2.0";
               "Via: SIP/2.0/UDP 10.9.9.9:5070;rport;x=1;received=10.9.9.9,SIP/2.0/TCP 10.8.8.8;branch=z9hG4bKdef";
               "v: SIP/2.0/UDP 10.7.7.7:5062;branch=z9hG4bKghi";
               "Route: <sip:10.0.0.2:5070;lr>";
               "From: <sip:a@example.com>;tag=1";
               "To: <sip:bob@example.com>";
               "Call-ID: c1";
               "CSeq: 1 INVITE";
               "Content-Length: 0"] ++ crlf.
Definition ex_src : bytes := s2b "127.0.0.9".
Definition ex_br : bytes := s2b "z9hG4bKpx".
Definition dummy : message := {| m_start := SResp [] 0 []; m_headers := []; m_body := [] |}.
Definition ex_m : message := match parse_message ex_data with Ok (m, _) => m | _ => dummy end.
Definition ex_jin : jmsg :=
  match j_read ex_data with Some j => j | None => Build_jmsg [] [] [] [] false 0 None end.
Definition ex_from : stransport := {| t_kind := KUdp; t_addr := s2b "10.0.0.1"; t_port := 5060 |}.
(* the next hop 10.0.0.2 was learned before: the proxy pushes its own Via on top *)
Definition ex_x : ctx :=
  {| x_learned := [(s2b "10.0.0.2", ex_from)]; x_p := init_pstate ex_cfg 0 ex_lc; x_conns := [];
     x_world := {| w_tcp_listeners := []; w_next_conn := 0 |}; x_outs := [] |}.
Definition ex_e : env := mk_env all_fixed ex_cfg (item_rs_of true) 0 ex_lc 0 ex_br.
Definition ex_x' : ctx :=
  match process_message ex_e ex_src 40000 ex_from (e_item_rs ex_e) None ex_m ex_x with Ok y => y | _ => ex_x end.
Definition ex_pre : list output := x_outs ex_x'.

(* what leaves the proxy: own entry on top, sender entry stamped (received overwritten in place,
   valueless rport filled, x=1 kept), the other two entries as they came *)
Example ex_output :
  ex_pre = [(DUdp (s2b "10.0.0.2") 5070,
    flat_map ln ["INVITE sip:bob@example.com SIP/2.0";
                 "Via: SIP/2.0/UDP 10.0.0.1:5060;branch=z9hG4bKpx";
                 "Via: SIP/2.0/UDP 10.9.9.9:5070;rport=40000;x=1;received=127.0.0.9,SIP/2.0/TCP 10.8.8.8;branch=z9hG4bKdef";
                 "v: SIP/2.0/UDP 10.7.7.7:5062;branch=z9hG4bKghi";
                 "From: <sip:a@example.com>;tag=1";
                 "To: <sip:bob@example.com>";
                 "Call-ID: c1";
                 "CSeq: 1 INVITE";
                 "Content-Length: 0"] ++ crlf)].
Proof. vm_compute. reflexivity. Qed.

(* the hypotheses of the bridge hold of this instance, hence the judge accepts *)
Example C07_bridge_ex :
  judge_C07_event ex_pc (js_init ex_cfg) (EvUdp 0 ex_src 40000 ex_data)
                  (map lab (filter (fun _ => true) ex_pre)) [] = O.
Proof.
  apply (C07_judge_bridge_udp ex_pc (js_init ex_cfg) all_fixed 0 ex_br 0%nat ex_lc ex_src 40000 ex_data
            ex_jin ex_m [] ex_x ex_x' ex_pre (fun _ => true) []).
  - reflexivity.
  - reflexivity.
  - vm_compute. reflexivity.
  - vm_compute. reflexivity.
  - apply via_domain_b_sound. vm_compute. reflexivity.
  - split; vm_compute; reflexivity.
  - split; vm_compute; reflexivity.
  - reflexivity.
  - cbn. lia.
  - cbn. lia.
  - intros h t A. cbn [ex_x x_learned alookup] in A. destruct (beq h (s2b "10.0.0.2")); [|discriminate A].
    injection A as <-. split; [reflexivity|cbn; lia].
  - vm_compute. reflexivity.
  - reflexivity.
Qed.

(* the judge does look: the same request relayed WITHOUT stamping is rejected with reason 1 *)
Example C07_bridge_ex_sensitive :
  judge_C07_event ex_pc (js_init ex_cfg) (EvUdp 0 ex_src 40000 ex_data) [(s2b "udp:10.0.0.2:5070", ex_data)] [] = 1%nat.
Proof. vm_compute. reflexivity. Qed.

(* WHY THE RIGHT END OF A VIA ENTRY IS NOT READ THROUGH strings.TrimSpace (SpecProxy.j_flat_via: left end
   TrimSpace, right end ASCII blanks only).  The top entry is followed by a comma and its last parameter
   value ends with U+00A0 (bytes C2 A0; inside the C14 grammar: [val_char] allows bytes >= 128).  ParseVia
   keeps the parameter as it stands and the proxy writes ";received=..." BEHIND it, so the two bytes are
   still part of the value of x in what is relayed.  The judge accepts (it is inside the domain of
   C07_judge_bridge_udp); a reader that trimmed the right end of the received entry with TrimSpace
   semantics would read x=a, stamp, find x=a<C2 A0> in the output and reject a correct relay. *)
Definition nbsp : bytes := [ascii_of_nat 194; ascii_of_nat 160].
Definition ex_top : bytes := s2b "SIP/2.0/UDP 10.9.9.9:5070;x=a" ++ nbsp.
Definition ex_tail_data : bytes :=
  ln "INVITE sip:bob@example.com SIP/2.0" ++
  s2b "Via: " ++ ex_top ++ s2b ",SIP/2.0/TCP 10.8.8.8;branch=z9hG4bKdef" ++ crlf ++
  flat_map ln ["Route: <sip:10.0.0.2:5070;lr>"; "From: <sip:a@example.com>;tag=1"; "To: <sip:bob@example.com>";
               "Call-ID: c1"; "CSeq: 1 INVITE"; "Content-Length: 0"] ++ crlf.
Definition ex_tail_outs : list output :=
  match proxy_step all_fixed ex_cfg 0 ex_br (init_state ex_cfg 0 []) (EvUdp 0 ex_src 40000 ex_tail_data) with
  | Ok (_, o) => o | _ => [] end.
Example C07_bridge_ex_tail :
  via_domain_b (match parse_message ex_tail_data with Ok (m, _) => m | _ => dummy end) = true /\
  existsb (fun e => beq e (ex_top ++ s2b ";received=127.0.0.9"))
          (flat_map (fun o => match j_read (snd o) with Some om => j_flat_via (jm_headers om) | None => [] end)
                    (map lab ex_tail_outs)) = true /\
  judge_C07_event ex_pc (js_init ex_cfg) (EvUdp 0 ex_src 40000 ex_tail_data) (map lab ex_tail_outs) [] = O /\
  option_map jv_params (j_via (j_trim_via ex_top)) = Some [(s2b "x", s2b "a" ++ nbsp)] /\
  option_map jv_params (j_via (trim_space_go ex_top)) = Some [(s2b "x", s2b "a")].
Proof. repeat split; vm_compute; reflexivity. Qed.
End C07_bridge_example.

Print Assumptions j_via_rp.
Print Assumptions via_read.
Print Assumptions jv_stamp.
Print Assumptions pipeline2.
Print Assumptions dec_ok_lf.
Print Assumptions read_agree_all.
Print Assumptions C07_judge_bridge_udp.
Print Assumptions C07_judge_bridge_step.
Print Assumptions C07_bridge_example.C07_bridge_ex.
