(* proofs/C18.v — static route table: precedence (literal > first configured matching
   wildcard > default), stability w.r.t. Go map enumeration order, next-hop port rules.
   Statements: see proofs/C18_statements.txt.  No axioms, no admits. *)
From Coq Require Import List Ascii String ZArith NArith Bool Lia Permutation.
From Model Require Import Bytes BytesLemmas Glob StaticRoute Spec Run.
Import ListNotations.
Open Scope list_scope.

(* ------------------------------------------------------------------ glob *)
Lemma glob_star p s :
  glob (star :: p) s =
  (glob p s || match s with [] => false | _ :: s' => glob (star :: p) s' end)%bool.
Proof. destruct s; reflexivity. Qed.

Lemma glob_char c p s : c <> star ->
  glob (c :: p) s =
  match s with [] => false | x :: s' => (Ascii.eqb x c && glob p s')%bool end.
Proof.
  intros H. cbn [glob].
  destruct (Ascii.eqb_spec c star) as [E|E]; [contradiction|reflexivity].
Qed.

Lemma Glob_star_inv p s : Glob (star :: p) s -> exists s1 s2, s = s1 ++ s2 /\ Glob p s2.
Proof.
  intros H. inversion H as [|c p' s' Hc Hp|p' s1 s2 Hp]; subst.
  - exfalso. apply Hc. reflexivity.
  - exists s1, s2. split; [reflexivity|exact Hp].
Qed.

Lemma glob_sound p : forall s, glob p s = true -> Glob p s.
Proof.
  induction p as [|c p IH]; intros s H.
  - destruct s; [constructor|discriminate].
  - destruct (Ascii.eqb_spec c star) as [E|E].
    + subst c. induction s as [|x s IHs].
      * rewrite glob_star in H. rewrite orb_false_r in H.
        apply (GStar p [] []). apply IH. exact H.
      * rewrite glob_star in H. apply orb_true_iff in H. destruct H as [H|H].
        -- apply (GStar p [] (x :: s)). apply IH. exact H.
        -- destruct (Glob_star_inv _ _ (IHs H)) as (s1 & s2 & -> & Hp).
           apply (GStar p (x :: s1) s2). exact Hp.
    + rewrite glob_char in H by exact E.
      destruct s as [|x s]; [discriminate|].
      apply andb_true_iff in H. destruct H as [H1 H2].
      apply Ascii.eqb_eq in H1. subst x.
      apply GChar; [exact E|apply IH; exact H2].
Qed.

Lemma glob_complete p s : Glob p s -> glob p s = true.
Proof.
  intros H. induction H as [|c p s Hc Hp IH|p s1 s2 Hp IH].
  - reflexivity.
  - rewrite glob_char by exact Hc. rewrite Ascii.eqb_refl, IH. reflexivity.
  - induction s1 as [|x s1 IHs]; cbn [app].
    + rewrite glob_star, IH. reflexivity.
    + rewrite glob_star, IHs. apply orb_true_r.
Qed.

Lemma glob_correct p s : glob p s = true <-> Glob p s.
Proof. split; [apply glob_sound|apply glob_complete]. Qed.

Lemma glob_false p s : glob p s = false <-> ~ Glob p s.
Proof.
  split.
  - intros H G. apply glob_correct in G. congruence.
  - intros H. destruct (glob p s) eqn:E; [|reflexivity].
    exfalso. apply H. apply glob_correct. exact E.
Qed.

(* ------------------------------------------------------------------ the table *)
Definition ans_of (it : route_item) : c18_answer := (ri_proto it, (ri_host it, ri_port it)).

Definition step (t : route_table) (e : bytes * (bytes * bytes)) : route_table :=
  let '(p, (d, n)) := e in add_route_item t p d n.

Lemma build_table_step cfg : build_table cfg = fold_left step cfg [].
Proof. reflexivity. Qed.

Lemma build_table_ind (P : route_table -> Prop) :
  P [] -> (forall t p d n, P t -> P (add_route_item t p d n)) ->
  forall cfg, P (build_table cfg).
Proof.
  intros H0 HS cfg. rewrite build_table_step.
  assert (G : forall t, P t -> P (fold_left step cfg t)).
  { induction cfg as [|[p [d n]] cfg IH]; intros t Ht; cbn [fold_left]; [exact Ht|].
    apply IH. cbn [step]. apply HS. exact Ht. }
  apply G. exact H0.
Qed.

Lemma new_pre_route_item_dest p d n it : new_pre_route_item p d n = Some it -> ri_dest it = d.
Proof.
  unfold new_pre_route_item.
  destruct (last_index_byte colon n) as [pos|].
  - destruct (atoi (skipn (S pos) n)) as [z|]; [|discriminate].
    intros H. injection H as <-. reflexivity.
  - intros H. injection H as <-. reflexivity.
Qed.

(* the table built from a configuration has duplicate-free keys *)
Lemma build_table_nodup cfg : NoDup (map fst (build_table cfg)).
Proof.
  apply build_table_ind.
  - constructor.
  - intros t p d n H. unfold add_route_item.
    destruct (new_pre_route_item p d n) as [it|]; [|exact H].
    apply aset_keys_nodup. exact H.
Qed.

Lemma build_table_dest cfg d it : In (d, it) (build_table cfg) -> ri_dest it = d.
Proof.
  revert d it. apply build_table_ind.
  - intros d it [].
  - intros t p d n H d0 it0 HI. unfold add_route_item in HI.
    destruct (new_pre_route_item p d n) as [it|] eqn:E; [|apply H; exact HI].
    apply aset_in in HI. destruct HI as [[-> ->]|HI]; [|apply H; exact HI].
    apply (new_pre_route_item_dest _ _ _ _ E).
Qed.

(* the model's next-hop parser and the Spec's reading of the rule agree *)
Lemma nexthop_agree p d n :
  option_map ans_of (new_pre_route_item p d n) =
  option_map (fun hp => (p, hp)) (c18_nexthop p n).
Proof.
  unfold new_pre_route_item, c18_nexthop, colon.
  destruct (last_index_byte ":"%char n) as [pos|].
  - destruct (atoi (skipn (S pos) n)) as [z|]; reflexivity.
  - cbn. unfold ans_of. cbn. rewrite equal_fold_sym. reflexivity.
Qed.

Lemma c18_valid_cons p d n cfg :
  c18_valid ((p, (d, n)) :: cfg) =
  match c18_nexthop p n with
  | Some (h, port) => [(d, (p, (h, port)))]
  | None => []
  end ++ c18_valid cfg.
Proof. reflexivity. Qed.

Lemma fold_lookup cfg : forall t d,
  option_map ans_of (alookup d (fold_left step cfg t)) =
  match c18_last d (c18_valid cfg) with
  | Some a => Some a
  | None => option_map ans_of (alookup d t)
  end.
Proof.
  induction cfg as [|[p [d' n]] cfg IH]; intros t d.
  - reflexivity.
  - cbn [fold_left]. rewrite IH. rewrite c18_valid_cons.
    cbn [step]. unfold add_route_item.
    pose proof (nexthop_agree p d' n) as HA.
    destruct (new_pre_route_item p d' n) as [it|];
      destruct (c18_nexthop p n) as [[h port]|]; cbn [option_map] in HA; try discriminate.
    + assert (HA' : ans_of it = (p, (h, port))) by congruence. cbn [app c18_last].
      destruct (c18_last d (c18_valid cfg)) as [a'|]; [reflexivity|].
      destruct (beq_spec d d') as [E|E].
      * subst d'. rewrite alookup_aset_same. cbn [option_map]. rewrite HA'. reflexivity.
      * rewrite alookup_aset_other by exact E. reflexivity.
    + reflexivity.
Qed.

(* the table holds, for each dest, the last valid configuration entry for it *)
Lemma build_table_lookup cfg d :
  option_map ans_of (alookup d (build_table cfg)) = c18_last d (c18_valid cfg).
Proof.
  rewrite build_table_step, fold_lookup. cbn [alookup option_map].
  destruct (c18_last d (c18_valid cfg)); reflexivity.
Qed.

(* ------------------------------------------------------------------ first_glob *)
Lemma first_glob_some t host it :
  first_glob t host = Some it -> exists d, In (d, it) t /\ glob d host = true.
Proof.
  induction t as [|[d i] r IH]; cbn; [discriminate|].
  destruct (glob d host) eqn:E.
  - intros H. injection H as <-. exists d. split; [left; reflexivity|exact E].
  - intros H. destruct (IH H) as (d0 & H1 & H2). exists d0. split; [right; exact H1|exact H2].
Qed.

Lemma first_glob_none t host :
  first_glob t host = None -> forall d it, In (d, it) t -> glob d host = false.
Proof.
  induction t as [|[d i] r IH]; cbn; intros H d0 it0 HI; [contradiction|].
  destruct (glob d host) eqn:E; [discriminate|].
  destruct HI as [HI|HI].
  - injection HI as <- <-. exact E.
  - apply (IH H d0 it0 HI).
Qed.

(* ------------------------------------------------------------------ the judge *)
Lemma c18_answer_eqb_refl a : c18_answer_eqb a a = true.
Proof.
  destruct a as [p [h n]]. cbn. rewrite !beq_refl, Z.eqb_refl. reflexivity.
Qed.

Lemma c18_opt_eqb_refl o : c18_opt_eqb o o = true.
Proof. destruct o as [a|]; cbn; [apply c18_answer_eqb_refl|reflexivity]. Qed.

Lemma c18_last_in d l a : c18_last d l = Some a -> In (d, a) l.
Proof.
  induction l as [|[d' a'] r IH]; cbn; [discriminate|].
  destruct (c18_last d r) as [a0|].
  - intros H. right. apply IH. exact H.
  - destruct (beq_spec d d') as [E|E]; [|discriminate].
    intros H. injection H as <-. subst d'. left. reflexivity.
Qed.

Definition c18_ms (host : bytes) (l : list (bytes * c18_answer)) : list (bytes * c18_answer) :=
  filter (fun '(d, _) => glob d host) (c18_effective l).

Lemma judge_C18_unfold cfg host o :
  judge_C18 cfg host [o] =
  match c18_last host (c18_valid cfg) with
  | Some a => c18_opt_eqb o (Some a)
  | None =>
      match c18_ms host (c18_valid cfg) with
      | _ :: _ => match o with
                  | Some a => existsb (fun '(_, a') => c18_answer_eqb a a') (c18_ms host (c18_valid cfg))
                  | None => false
                  end
      | [] => c18_opt_eqb o (c18_last (s2b "default") (c18_valid cfg))
      end
  end.
Proof.
  unfold judge_C18, c18_ms. cbv zeta.
  destruct (c18_last host (c18_valid cfg)); [reflexivity|].
  destruct (filter _ (c18_effective (c18_valid cfg))); reflexivity.
Qed.

Lemma c18_ms_in host l d a :
  In (d, a) (c18_ms host l) <->
  In (d, a) l /\ c18_last d l = Some a /\ glob d host = true.
Proof.
  unfold c18_ms, c18_effective. rewrite !filter_In. split.
  - intros [[H1 H2] H3]. split; [exact H1|]. split; [|exact H3].
    destruct (c18_last d l) as [a'|]; [|discriminate].
    destruct a as [p1 [h1 n1]], a' as [p2 [h2 n2]]. cbn in H2.
    apply andb_true_iff in H2. destruct H2 as [H2 Hn].
    apply andb_true_iff in H2. destruct H2 as [Hp Hh].
    apply beq_eq in Hp. apply beq_eq in Hh. apply Z.eqb_eq in Hn. subst. reflexivity.
  - intros (H1 & H2 & H3). split; [|exact H3]. split; [exact H1|].
    rewrite H2. apply c18_answer_eqb_refl.
Qed.

(* every table entry whose pattern matches shows up among the judge's candidates *)
Lemma table_entry_in_ms cfg host d it :
  In (d, it) (build_table cfg) -> glob d host = true ->
  In (d, ans_of it) (c18_ms host (c18_valid cfg)).
Proof.
  intros HI HG. apply c18_ms_in.
  assert (HL : c18_last d (c18_valid cfg) = Some (ans_of it)).
  { rewrite <- build_table_lookup.
    rewrite (in_alookup _ _ _ (build_table_nodup cfg) HI). reflexivity. }
  split; [apply c18_last_in; exact HL|]. split; [exact HL|exact HG].
Qed.

(* C18_precedence, boolean form *)
Lemma find_route_judged cfg host :
  judge_C18 cfg host [option_map ans_of (find_route (build_table cfg) host)] = true.
Proof.
  rewrite judge_C18_unfold. unfold find_route.
  pose proof (build_table_lookup cfg host) as Lh.
  destruct (c18_last host (c18_valid cfg)) as [a|] eqn:EL.
  - destruct (alookup host (build_table cfg)) as [it|]; cbn in Lh; [|discriminate].
    injection Lh as <-. cbn [option_map]. apply c18_opt_eqb_refl.
  - destruct (alookup host (build_table cfg)) as [it|]; cbn in Lh; [discriminate|].
    clear Lh.
    destruct (first_glob (build_table cfg) host) as [it|] eqn:EF.
    + apply first_glob_some in EF. destruct EF as (d & Hin & Hg).
      pose proof (table_entry_in_ms cfg host d it Hin Hg) as Hms.
      destruct (c18_ms host (c18_valid cfg)) as [|x ms] eqn:EM; [contradiction|].
      cbn [option_map]. apply existsb_exists.
      exists (d, ans_of it). split; [exact Hms|apply c18_answer_eqb_refl].
    + destruct (c18_ms host (c18_valid cfg)) as [|[d a] ms] eqn:EM.
      * rewrite build_table_lookup. apply c18_opt_eqb_refl.
      * exfalso.
        assert (HI : In (d, a) (c18_ms host (c18_valid cfg))) by (rewrite EM; left; reflexivity).
        apply c18_ms_in in HI. destruct HI as (_ & HL & HG).
        rewrite <- build_table_lookup in HL.
        destruct (alookup d (build_table cfg)) as [it|] eqn:EA; [|discriminate].
        apply alookup_in in EA.
        rewrite (first_glob_none _ _ EF d it EA) in HG. discriminate.
Qed.

(* C18_precedence, readable form *)
Lemma find_route_spec t host :
  match find_route t host with
  | Some it =>
      alookup host t = Some it
      \/ (alookup host t = None /\ exists d, In (d, it) t /\ Glob d host)
      \/ (alookup host t = None /\ (forall d it', In (d, it') t -> ~ Glob d host)
          /\ alookup (s2b "default") t = Some it)
  | None => alookup host t = None /\ (forall d it', In (d, it') t -> ~ Glob d host)
            /\ alookup (s2b "default") t = None
  end.
Proof.
  unfold find_route.
  destruct (alookup host t) as [it|] eqn:EA.
  - left. reflexivity.
  - destruct (first_glob t host) as [it|] eqn:EF.
    + right. left. split; [reflexivity|].
      apply first_glob_some in EF. destruct EF as (d & H1 & H2).
      exists d. split; [exact H1|apply glob_correct; exact H2].
    + assert (HN : forall d it', In (d, it') t -> ~ Glob d host).
      { intros d it' HI. apply glob_false. apply (first_glob_none _ _ EF d it' HI). }
      destruct (alookup (s2b "default") t) as [it|] eqn:ED.
      * right. right. split; [reflexivity|]. split; [exact HN|reflexivity].
      * split; [reflexivity|]. split; [exact HN|reflexivity].
Qed.

(* ------------------------------------------------------------------ C18_stable *)
Lemma scan_dests_ext m1 m2 dests host :
  (forall d, alookup d m1 = alookup d m2) ->
  scan_dests m1 dests host = scan_dests m2 dests host.
Proof.
  intros H. induction dests as [|d r IH]; cbn; [reflexivity|].
  rewrite H. destruct (alookup d m2) as [it|]; [|exact IH].
  destruct (glob (ri_dest it) host); [reflexivity|exact IH].
Qed.

Lemma find_route_go_perm m1 m2 dests host :
  NoDup (map fst m1) -> Permutation m1 m2 ->
  find_route_go m1 dests host = find_route_go m2 dests host.
Proof.
  intros ND P. unfold find_route_go.
  assert (H : forall d, alookup d m1 = alookup d m2)
    by (intros d; apply alookup_perm; assumption).
  rewrite (scan_dests_ext m1 m2 dests host H). rewrite !H. reflexivity.
Qed.

Lemma scan_dests_first_glob t host :
  NoDup (map fst t) -> (forall d it, In (d, it) t -> ri_dest it = d) ->
  forall t', incl t' t -> scan_dests t (map fst t') host = first_glob t' host.
Proof.
  intros ND HD. induction t' as [|[d it] r IH]; intros HI; cbn; [reflexivity|].
  assert (Hin : In (d, it) t) by (apply HI; left; reflexivity).
  rewrite (in_alookup _ _ _ ND Hin). rewrite (HD _ _ Hin).
  destruct (glob d host); [reflexivity|].
  apply IH. intros x Hx. apply HI. right. exact Hx.
Qed.

Lemma find_route_go_eq t host :
  NoDup (map fst t) -> (forall d it, In (d, it) t -> ri_dest it = d) ->
  find_route_go t (map fst t) host = find_route t host.
Proof.
  intros ND HD. unfold find_route_go, find_route.
  rewrite (scan_dests_first_glob t host ND HD t (incl_refl t)). reflexivity.
Qed.

(* the two together, for tables that come from a configuration *)
Corollary find_route_go_build_table cfg m host :
  Permutation (build_table cfg) m ->
  find_route_go m (map fst (build_table cfg)) host = find_route (build_table cfg) host.
Proof.
  intros P.
  rewrite <- (find_route_go_perm _ _ _ _ (build_table_nodup cfg) P).
  apply find_route_go_eq; [apply build_table_nodup|].
  intros d it. apply build_table_dest.
Qed.

(* legacy (map-order scan) is unstable: computed witness *)
Lemma find_route_legacy_unstable :
  exists t o1 o2 host, Permutation o1 t /\ Permutation o2 t /\
     find_route_legacy o1 t host <> find_route_legacy o2 t host.
Proof.
  pose (it1 := {| ri_proto := s2b "udp"; ri_dest := s2b "*a"; ri_host := s2b "h1"; ri_port := 5060%Z |}).
  pose (it2 := {| ri_proto := s2b "udp"; ri_dest := s2b "a*"; ri_host := s2b "h2"; ri_port := 5060%Z |}).
  exists [(s2b "*a", it1); (s2b "a*", it2)].
  exists [(s2b "*a", it1); (s2b "a*", it2)].
  exists [(s2b "a*", it2); (s2b "*a", it1)].
  exists (s2b "a").
  split; [apply Permutation_refl|]. split; [apply perm_swap|].
  vm_compute. intros H. discriminate H.
Qed.

(* ------------------------------------------------------------------ C18_port *)
Lemma nexthop_no_port proto dest h : ~ In ":"%char h ->
  new_pre_route_item proto dest h =
    Some {| ri_proto := proto; ri_dest := dest; ri_host := h;
            ri_port := if equal_fold (s2b "tls") proto then 5061%Z else 5060%Z |}.
Proof.
  intros H. unfold new_pre_route_item, colon.
  rewrite (proj2 (last_index_byte_none _ _) H). reflexivity.
Qed.

Lemma skipn_app_sep (h : bytes) c r : skipn (S (List.length h)) (h ++ c :: r) = r.
Proof. induction h as [|x h IH]; [reflexivity|exact IH]. Qed.

Lemma firstn_app_len (h r : bytes) : firstn (List.length h) (h ++ r) = h.
Proof. induction h as [|x h IH]; cbn; [reflexivity|]. f_equal. exact IH. Qed.

Lemma nexthop_with_port proto dest h p : (0 <= p <= int_max)%Z ->
  new_pre_route_item proto dest (h ++ ":"%char :: itoa p) =
    Some {| ri_proto := proto; ri_dest := dest; ri_host := h; ri_port := p |}.
Proof.
  intros [Hlo Hhi]. unfold new_pre_route_item, colon.
  rewrite last_index_byte_app by apply itoa_no_colon.
  rewrite skipn_app_sep, firstn_app_len.
  rewrite atoi_itoa; [reflexivity|].
  split; [|exact Hhi]. unfold int_min. lia.
Qed.

(* ------------------------------------------------------------------ non-vacuity *)
(* A concrete table where literal, two overlapping wildcards and default all compete.
   "*.com" is configured BEFORE the more specific "*.example.com": the first configured
   matching wildcard wins (not the most specific one), the literal beats both, and a host
   matched by nothing falls to default.  The literal entry is also re-configured once
   (second entry for "sip.example.com" overwrites the first in place). *)
Definition ex_cfg : list (bytes * (bytes * bytes)) :=
  [ (s2b "udp", (s2b "sip.example.com", s2b "10.0.0.1"));
    (s2b "tcp", (s2b "*.com",           s2b "10.0.0.2:5070"));
    (s2b "TLS", (s2b "*.example.com",   s2b "10.0.0.3"));
    (s2b "udp", (s2b "default",         s2b "10.0.0.9:5080"));
    (s2b "udp", (s2b "bad.example.com", s2b "10.0.0.4:notaport"));
    (s2b "tcp", (s2b "sip.example.com", s2b "10.0.0.5:5062")) ].

Definition ex_route (host : string) : option c18_answer :=
  option_map ans_of (find_route (build_table ex_cfg) (s2b host)).

Example find_route_example :
  (* four live entries, in first-configuration order *)
  map fst (build_table ex_cfg)
    = [s2b "sip.example.com"; s2b "*.com"; s2b "*.example.com"; s2b "default"]
  (* literal host: the literal entry (its latest configuration), although both wildcards match *)
  /\ ex_route "sip.example.com" = Some (s2b "tcp", (s2b "10.0.0.5", 5062%Z))
  (* wildcard-only host matched by BOTH wildcards: the first configured one, "*.com" *)
  /\ ex_route "a.example.com" = Some (s2b "tcp", (s2b "10.0.0.2", 5070%Z))
  (* host matched by the first wildcard only *)
  /\ ex_route "other.com" = Some (s2b "tcp", (s2b "10.0.0.2", 5070%Z))
  (* rejected entry (bad port) left no trace: its host is served by the wildcard *)
  /\ ex_route "bad.example.com" = Some (s2b "tcp", (s2b "10.0.0.2", 5070%Z))
  (* nothing matches: default *)
  /\ ex_route "example.org" = Some (s2b "udp", (s2b "10.0.0.9", 5080%Z))
  (* and the judge of Spec.v accepts exactly these answers, rejects a wrong one *)
  /\ judge_C18 ex_cfg (s2b "a.example.com") [ex_route "a.example.com"] = true
  /\ judge_C18 ex_cfg (s2b "example.org") [ex_route "a.example.com"] = false.
Proof. vm_compute. repeat split; reflexivity. Qed.

(* with the two wildcards configured the other way round the other one wins, and the tls
   default port 5061 is visible (proto "TLS": case-insensitive) *)
Example find_route_example_swapped :
  option_map ans_of
    (find_route
       (build_table [ (s2b "TLS", (s2b "*.example.com", s2b "10.0.0.3"));
                      (s2b "tcp", (s2b "*.com",         s2b "10.0.0.2:5070")) ])
       (s2b "a.example.com"))
  = Some (s2b "TLS", (s2b "10.0.0.3", 5061%Z)).
Proof. vm_compute. reflexivity. Qed.

(* ------------------------------------------------------------------ audit *)
Print Assumptions glob_correct.
Print Assumptions build_table_nodup.
Print Assumptions build_table_lookup.
Print Assumptions find_route_judged.
Print Assumptions find_route_spec.
Print Assumptions find_route_go_perm.
Print Assumptions find_route_go_eq.
Print Assumptions build_table_dest.
Print Assumptions find_route_legacy_unstable.
Print Assumptions nexthop_no_port.
Print Assumptions nexthop_with_port.
Print Assumptions find_route_example.
