(* C13_bridge_tcp.v — the judge bridge of C13 (proofs/C13_bridge.v) lifted to TCP events: the executable
   judge SpecProxy.judge_C13_event accepts what the MODEL emits for a request that arrived on an ACCEPTED
   TCP connection.  For such a request the own Route entry is the one naming the listener's address and
   its TCP port: the model pops it with [designates c (cn_from cn)] where cn_from is the KTcpListen
   transport (lc_addr, lc_tcp); the judge uses [j_own c lc true] = listener_port lc true = lc_tcp.

   Parts:
     A. the invariant [good] of proofs/C07_bridge.v along the pipeline for ANY [tcp] argument
        (C13_bridge.pm_request_good / C13_route_headers_good fix [None]): pm_conn_good,
        pm_request_good_tcp, C13_route_headers_good_tcp.
     B. the judge on an EvTcpData event, unfolded (judge_C13_tcp_unfold), and the judge side
        C13_judge_accepts_tcp (C13_bridge.C13_judge_accepts with ji_tcp = true and the KTcpListen transport).
     C. C13_judge_bridge_tcp_msg_gen / C13_judge_bridge_tcp_msg (process_message level),
        tcp_messages_single (a chunk holding exactly one message is one process_message),
        C13_judge_bridge_tcp_step (proxy_step level).
     D. a concrete run t13_*: EvTcpAccept, then EvTcpData with a request that has two Via headers and three
        Route entries, the first naming the listener's address and its TCP port 5062 (the UDP port is 5060);
        the hypotheses of the step theorem hold, verdict 0 by the theorem; sensitivity: the same judge
        answers 1 when the request is relayed with its Route set untouched, and 1 on the right relay of a
        request whose first entry names the UDP port when the judge is told it is own.

   About the hypotheses (compared with C13_judge_bridge_udp / _step):
     - [find ... (js_conns stj) = Some (cid, (li, cn_peer cn, cn_peer_port cn))]: the judge learns the listen
       entry of the connection from its own bookkeeping (j_input); it must be the one of the model's record.
     - [(li < dial_mark)%nat]: that record of the judge is one of an ACCEPTED connection (the judge files the
       connections the proxy dialled with the listen entry + SpecProxy.dial_mark, and for a request read on one
       of those no Route entry is the proxy's own).
     - [cn_from cn = tcp_transport lc]: the connection is an accepted one.  NEEDED: for a connection the proxy
       dialled cn_from is a KTcpConn transport with another port, the model would compare the Route entry with
       that port while the judge always compares with lc_tcp.
     - [cn_li cn = li] is needed at the proxy_step level only (proxy_step reads the listen entry in the
       connection record); [cn_id cn = cid] follows from the [find] in st_conns at the step level.
     - NOTHING is needed about the received-support flag (cn_received_support) nor about
       [received_on lc]: judge_C13_event reads Route entries only; the flag changes the top Via only.
     - the judge's [single_message] condition is NOT needed either: when it fails the judge answers 0 at
       once (it only judges a chunk holding one message), when it holds the argument goes through.  What IS
       needed, at the proxy_step level, is that the MODEL processes one message only: [trim_left rest = []]
       (tcp_messages_single); with more messages in the chunk the outputs of the later ones would be judged
       against the Route set of the first.
     - [B7.src_ok (cn_peer cn)]: the source address is the peer address of the connection record. *)
From Coq Require Import List Ascii String ZArith NArith Bool Arith Lia.
From Model Require Import Bytes BytesLemmas Wire Uri Hdr Message Msg Rx Glob StaticRoute RoundRobin Pins
     Proxy RunProxy SpecProxy SpecC14.
From Model.proofs Require Import C14_uri C14_hdr MsgLemmas C06 C01 C13 C13_bridge.
From Model.proofs Require C07_bridge.
Import ListNotations.
Open Scope list_scope.

(* ================================================================== A. [good] and the Route headers, any [tcp] *)
(* remembering the connection for the responses (handleRawMessage on a TCP request) only decodes Via / CSeq in place *)
Lemma pm_conn_good e tcp m2 x : B7.good m2 -> B7.good (fst (pm_conn e tcp m2 x)).
Proof.
  intros G2. unfold pm_conn. destruct tcp as [c|]; [|exact G2].
  destruct (is_request m2); [|exact G2].
  pose proof (B7.gpres_mtry _ B7.gpres_next_response_hop m2 G2) as GH.
  destruct (mtry next_response_hop m2) as [m' hop]. cbn [fst] in GH.
  destruct hop as [oh| |]; try exact GH.
  match goal with |- context [match ?X with Ok _ => _ | Err => _ | Panic => _ end] => destruct X as [host| |] end;
    try exact GH.
  destruct oh as [hp|]; [|exact GH].
  pose proof (B7.gpres_mtry _ B7.gpres_s_client_transaction m' GH) as GC.
  destruct (mtry s_client_transaction m') as [m'' tid]. cbn [fst] in GC.
  destruct tid as [[t|]| |]; try exact GC.
  destruct (get_transport _ _ _ _ _ _) as [p1 rk]. destruct rk; exact GC.
Qed.

(* C13_bridge.pm_request_good for any [tcp]: the pool may have changed (the connection was filed) *)
Lemma pm_request_good_tcp e peer pp from rs tcp m0 x x' :
  is_request m0 = true -> B7.good m0 -> B7.src_ok peer -> B7.t_ok (e_branch e) from ->
  B7.learned_ok (e_branch e) (x_learned x) ->
  process_message e peer pp from rs tcp m0 x = Ok x' ->
  exists m3 p1, frame (s2b "Route") m0 m3 /\ B7.good m3 /\
    B7.learned_ok (e_branch e) (learned_after peer from m0 x) /\
    x' = fst (handle_message e from (fst (mtry (try_remove_top_route (e_cfg e) from) m3))
                {| x_learned := learned_after peer from m0 x; x_p := p1; x_conns := x_conns x;
                   x_world := x_world x; x_outs := x_outs x |}).
Proof.
  intros R G0 Hs Hf HL. rewrite process_message_unfold.
  destruct (pm_learn_spec peer from m0 x) as (L & F1).
  assert (GL : B7.good (fst (pm_learn peer from m0 x)) /\
               B7.learned_ok (e_branch e) (snd (pm_learn peer from m0 x))).
  { unfold pm_learn. destruct (is_request m0 && negb (amem peer (ps_backends (x_p x))))%bool; [|split; assumption].
    pose proof (B7.gpres_s_all_via_params m0 G0) as GA.
    destruct (s_all_via_params m0) as [m' vs]. cbn [fst snd] in *. split; [exact GA|].
    apply B7.learned_ok_fold; [exact Hf|]. apply B7.learned_ok_learn; assumption. }
  destruct (pm_learn peer from m0 x) as [m1 l1]. cbn [fst snd] in L, F1, GL. subst l1.
  destruct GL as (G1 & HL1). cbv zeta.
  set (m2 := if (is_request m1 && rs)%bool then fst (s_set_received peer pp m1) else m1).
  assert (F2 : frame (s2b "Route") m1 m2 /\ B7.good m2).
  { subst m2. destruct (is_request m1 && rs)%bool; [|split; [apply frame_refl|exact G1]].
    split; [apply (mframe_set_received _ dj_Route_Via)|apply B7.gpres_s_set_received; assumption]. }
  destruct F2 as (F2 & G2).
  assert (F02 : frame (s2b "Route") m0 m2) by (eapply frame_trans; [apply F1; exact dj_Route_Via|exact F2]).
  pose proof (pm_conn_frame e tcp m2 x (s2b "Route") dj_Route_Via dj_Route_CSeq) as F3.
  pose proof (pm_conn_good e tcp m2 x G2) as G3.
  destruct (pm_conn e tcp m2 x) as [m3 rp]. cbn [fst] in F3, G3.
  destruct rp as [p1| |]; try discriminate.
  assert (F03 : frame (s2b "Route") m0 m3) by (eapply frame_trans; eassumption).
  intros H. unfold pm_tail in H. cbv zeta in H.
  set (m4 := fst (mtry (try_remove_top_route (e_cfg e) from) m3)) in *.
  assert (R4 : is_response m4 = false).
  { unfold is_response. replace (is_request m4) with true; [reflexivity|]. symmetry.
    rewrite (frame_request (s2b "To") m3 m4)
      by (apply (mframe_try _ _ (mframe_try_remove_top_route _ _ _ dj_To_Route))).
    rewrite (frame_request _ _ _ F03). exact R. }
  rewrite R4 in H. injection H as <-. exists m3, p1.
  split; [exact F03|]. split; [exact G3|]. split; [exact HL1|reflexivity].
Qed.

(* C13_bridge.C13_route_headers_good for any [tcp] *)
Theorem C13_route_headers_good_tcp : forall e peer pp from rs tcp m0 x x',
  is_request m0 = true -> B7.good m0 -> B7.src_ok peer -> B7.t_ok (e_branch e) from ->
  B7.learned_ok (e_branch e) (x_learned x) ->
  (forall t0, first_transport (e_lc e) = Some t0 -> B7.t_ok (e_branch e) t0) ->
  process_message e peer pp from rs tcp m0 x = Ok x' ->
  exists extra, x_outs x' = x_outs x ++ extra /\ (msg_count extra <= 1)%nat /\
    forall o, In o extra -> is_msg o = true ->
      exists mo, snd o = write_message mo /\ B7.good mo /\
                 routed (fun hs => step_next (c_keep_next_hop (e_cfg e)) (step_own (e_cfg e) from hs)) m0 mo.
Proof.
  intros e peer pp from rs tcp m0 x x' R G0 Hs Hf HL HF H.
  destruct (pm_request_good_tcp _ _ _ _ _ _ _ _ _ R G0 Hs Hf HL H) as (m3 & p1 & F & G3 & HL1 & ->).
  set (m4 := fst (mtry (try_remove_top_route (e_cfg e) from) m3)).
  assert (R4 : is_request m4 = true).
  { rewrite (frame_request (s2b "To") m3 m4 (mframe_try _ _ (mframe_try_remove_top_route _ (e_cfg e) from dj_To_Route) m3)).
    rewrite (frame_request _ _ _ F). exact R. }
  assert (G4 : B7.good m4) by (exact (B7.gpres_mtry _ (B7.gpres_try_remove_top_route (e_cfg e) from) m3 G3)).
  rewrite (handle_message_request e from m4 _ R4). cbn [x_learned].
  pose proof (next_request_hop_RS (c_keep_next_hop (e_cfg e)) (route_table_of (e_cfg e)) m4) as NR.
  pose proof (B7.gpres_next_request_hop (c_keep_next_hop (e_cfg e)) (route_table_of (e_cfg e)) m4 G4) as G1.
  destruct (next_request_hop _ _ m4) as [m1 r]. cbn [fst] in NR, G1.
  set (x1 := {| x_learned := learned_after peer from m0 x; x_p := p1; x_conns := x_conns x;
                x_world := x_world x; x_outs := x_outs x |}).
  assert (V1 : routed (fun hs => step_next (c_keep_next_hop (e_cfg e)) (step_own (e_cfg e) from hs)) m0 m1).
  { eapply routed_frame_l; [exact F|].
    exact (routed_comp _ _ _ _ _ (try_remove_RS (e_cfg e) from m3) NR). }
  assert (SB : let r := (if is_my_message (new_my_name (c_name (e_cfg e))) from m1 then send_to_backend e m1 x1
                         else (x1, m1)) in
               exists extra, x_outs (fst r) = x_outs x ++ extra /\ (msg_count extra <= 1)%nat /\
                 forall o, In o extra -> is_msg o = true ->
                   exists mo, snd o = write_message mo /\ B7.good mo /\ frame (s2b "Route") m1 mo).
  { cbv zeta. destruct (is_my_message _ from m1).
    2:{ exists []. rewrite app_nil_r. split; [reflexivity|]. split; [apply Nat.le_0_l|]. intros o []. }
    destruct (send_to_backend_shape e m1 x1) as (_ & extra & O & D). exists extra. split; [exact O|].
    destruct D as [->|(t0 & a & d & FT & _ & -> & _)].
    - split; [apply Nat.le_0_l|]. intros o [].
    - split; [unfold msg_count; cbn [filter]; destruct (is_msg _); cbn [List.length]; lia|].
      intros o [<-|[]] _. eexists. split; [reflexivity|]. unfold backend_message. split.
      + apply B7.good_pushed; [exact (HF t0 FT)|].
        exact (B7.gpres_find_backend_by_dialog e (x_p x1) m1 G1).
      + change (px_add_record_route (pa_must_rr (wire_proxy (e_lc e))) t0
                  (px_add_via e t0 (fst (find_backend_by_dialog e (x_p x1) m1))))
          with (decorate e [(s2b "h", t0)] (s2b "h") (fst (find_backend_by_dialog e (x_p x1) m1))).
        eapply frame_trans; [|apply frame_decorate].
        apply (mframe_find_backend_by_dialog _ dj_Route_CSeq dj_Route_From dj_Route_To). }
  assert (FIN : forall extra,
            (forall o, In o extra -> is_msg o = true ->
               exists mo, snd o = write_message mo /\ B7.good mo /\ frame (s2b "Route") m1 mo) ->
            forall o, In o extra -> is_msg o = true ->
              exists mo, snd o = write_message mo /\ B7.good mo /\
                routed (fun hs => step_next (c_keep_next_hop (e_cfg e)) (step_own (e_cfg e) from hs)) m0 mo).
  { intros extra W o Io Mo. destruct (W o Io Mo) as (mo & B & Gm & Fr). exists mo. split; [exact B|].
    split; [exact Gm|]. exact (routed_frame_r _ _ _ _ V1 Fr). }
  destruct r as [[[host port] transport]| |].
  2,3: cbv zeta in SB; destruct SB as (extra & O & C & W); exists extra; split; [exact O|]; split; [exact C|];
       exact (FIN extra W).
  destruct (send_message_shape e host port transport (decorate e (x_learned x1) host m1) x1)
    as (Sm & _ & extra & O & (C & Fo) & _).
  exists extra. split; [exact O|]. split; [exact C|]. apply FIN. intros o Io Mo.
  rewrite Forall_forall in Fo.
  exists (snd (send_message e host port transport (decorate e (x_learned x1) host m1) x1)).
  split; [exact (Fo o Io Mo)|]. rewrite Sm. split.
  - apply (B7.gpres_mtry _ B7.gpres_s_client_transaction). apply good_decorate; [exact HL1|exact G1].
  - eapply frame_trans; [apply frame_decorate|].
    apply (mframe_try _ _ (mframe_client_transaction _ dj_Route_Via dj_Route_CSeq) _).
Qed.

(* ================================================================== B. the judge on a TCP chunk *)
(* the ServerTransport of an accepted connection: the listener (Proxy.proxy_step, EvTcpAccept) *)
Definition tcp_transport (lc : listen_cfg) : stransport :=
  {| t_kind := KTcpListen; t_addr := lc_addr lc; t_port := lc_tcp lc |}.

(* C13_bridge.relayed_as with the receiving transport as an argument *)
Definition relayed_from (pc : proxy_case) (from : stransport) (m : message) (o : output) (mo : message) : Prop :=
  snd o = write_message mo /\
  routed (fun hs => step_next (c_keep_next_hop (pc_cfg pc)) (step_own (pc_cfg pc) from hs)) m mo.

Lemma judge_C13_tcp_unfold pc st cid li ip port data outs closed jin lc :
  find (fun x => Nat.eqb (fst x) cid) (js_conns st) = Some (cid, (li, ip, port)) -> (li < dial_mark)%nat ->
  j_read data = Some jin -> nth_opt (c_listens (pc_cfg pc)) li = Some lc ->
  judge_C13_event pc st (EvTcpData cid data) outs closed =
  if (jm_has_cl jin && single_message jin)%bool then
    match j_request jin with
    | Some q => if all_sip (jq_routes q)
                then first_nonzero (map (check_out (j_expected (pc_cfg pc) lc true (jq_routes q))) (msgs_of outs))
                else O
    | None => O
    end
  else O.
Proof.
  intros Fd M J N. unfold judge_C13_event. rewrite (C07_bridge.j_input_accepted st cid li ip port data Fd M).
  cbv beta iota zeta delta [ji_data ji_li ji_tcp]. rewrite J, N.
  rewrite (C07_bridge.ji_dialled_accepted st cid li ip port data Fd M).
  cbv beta iota. cbn [negb orb]. reflexivity.
Qed.

(* no output: nothing to judge, whatever the event *)
Lemma judge_C13_no_output pc st ev closed vis :
  judge_C13_event pc st ev (map labelled (filter vis [])) closed = 0%nat.
Proof.
  unfold judge_C13_event. cbv zeta.
  destruct (j_input st ev) as [i|]; [|reflexivity].
  destruct (j_read (ji_data i)) as [jm|]; [|reflexivity].
  destruct (nth_opt (c_listens (pc_cfg pc)) (ji_li i)) as [lc|]; [|reflexivity].
  destruct (jm_has_cl jm && (negb (ji_tcp i) || single_message jm))%bool; [|reflexivity].
  destruct (j_request jm) as [q|]; [|reflexivity].
  destruct (all_sip (jq_routes q)); reflexivity.
Qed.

(* JUDGE SIDE (C13_bridge.C13_judge_accepts for a chunk read on an accepted connection).  The judge decides
   which entry is the proxy's own with [j_own c lc true], i.e. with the listener's TCP port; the
   model's messages carry the Route headers computed with the KTcpListen transport of that listener. *)
Theorem C13_judge_accepts_tcp :
  forall pc st cid li ip port lc data closed jin m rest pre mos,
  find (fun x => Nat.eqb (fst x) cid) (js_conns st) = Some (cid, (li, ip, port)) -> (li < dial_mark)%nat ->
  nth_opt (c_listens (pc_cfg pc)) li = Some lc ->
  j_read data = Some jin -> parse_message data = Ok (m, rest) ->
  start_ok (start_line_print (m_start m)) ->
  route_domain_in (RS m) ->
  Forall2 (relayed_from pc (tcp_transport lc) m) (filter is_msg pre) mos -> Forall line_safe mos ->
  forall vis, judge_C13_event pc st (EvTcpData cid data) (map labelled (filter vis pre)) closed = 0%nat.
Proof.
  intros pc st cid li ip port lc data closed jin m rest pre mos Fd M N J P Sok Dom F2 LS vis.
  pose proof (read_headers_agree _ _ _ _ J P) as HR.
  destruct (read_agree _ _ _ _ J P) as (_ & _ & _ & Bd & _).
  rewrite (judge_C13_tcp_unfold pc st cid li ip port data _ closed jin lc Fd M J N).
  destruct (jm_has_cl jin && single_message jin)%bool; [|reflexivity].
  destruct (j_request jin) as [q|] eqn:Q; [|reflexivity].
  destruct (all_sip (jq_routes q)); [|reflexivity].
  rewrite msgs_of_labelled. apply first_nonzero_zero. intros lo Ilo.
  apply in_map_iff in Ilo. destruct Ilo as (o & <- & Io).
  apply filter_In in Io. destruct Io as [Io Mo]. apply filter_In in Io. destruct Io as [Io _].
  assert (Iof : In o (filter is_msg pre)) by (apply filter_In; split; assumption).
  destruct (forall2_pick _ line_safe _ _ F2 LS o Iof) as (mo & (B & RT & St & Bo) & Lmo).
  unfold check_out.
  replace (snd (labelled o)) with (snd o) by (destruct o as [[ip' p|c|ip' p c] b]; [reflexivity|reflexivity|discriminate Mo]).
  rewrite B.
  destruct (j_flat_output mo Lmo) as (om & -> & Fl); [rewrite St; exact Sok|rewrite Bo; exact Bd|].
  rewrite Fl, RT.
  rewrite (judge_expected (pc_cfg pc) lc true (tcp_transport lc) (RS m) eq_refl eq_refl).
  2:{ apply domain_in_good; [|exact Dom]. unfold RS, sel.
      pose proof (raw_trimmed_of_rel _ _ HR) as T. rewrite Forall_forall in *.
      intros h Ih. apply filter_In in Ih. apply T, Ih. }
  rewrite (j_request_routes _ _ Q), (j_flat_input _ _ HR). fold (RS m).
  rewrite Nat.eqb_refl, combine_beq_refl. reflexivity.
Qed.

(* ================================================================== C. the bridge *)
(* THE BRIDGE, process_message level, minimal hypotheses: a request read on the accepted connection [cn]
   (the model is run with the peer, the transport and the received-support flag of the record, and with
   [Some (cn_id cn)]: the connection is filed for the responses); the judge's bookkeeping files the
   connection [cid] under the same listen entry. *)
Theorem C13_judge_bridge_tcp_msg_gen :
  forall pc stj cid li lc cn ip port data closed jin m rest e x x',
  nth_opt (c_listens (pc_cfg pc)) li = Some lc -> e_cfg e = pc_cfg pc -> e_lc e = lc ->
  find (fun x => Nat.eqb (fst x) cid) (js_conns stj) = Some (cid, (li, ip, port)) -> (li < dial_mark)%nat ->
  cn_from cn = tcp_transport lc ->
  j_read data = Some jin -> parse_message data = Ok (m, rest) ->
  is_request m = true ->
  route_domain_in (RS m) ->
  B7.via_domain m -> B7.src_ok (cn_peer cn) -> B7.branch_ok (e_branch e) ->
  safe1 (lc_addr lc) = true -> (0 <= lc_udp lc <= 65535)%Z -> (0 <= lc_tcp lc <= 65535)%Z ->
  (forall h t, alookup h (x_learned x) = Some t -> safe1 (t_addr t) = true /\ (0 <= t_port t <= 65535)%Z) ->
  process_message e (cn_peer cn) (cn_peer_port cn) (cn_from cn) (cn_received_support cn) (Some (cn_id cn)) m x = Ok x' ->
  exists pre, x_outs x' = x_outs x ++ pre /\ (msg_count pre <= 1)%nat /\
    forall vis, judge_C13_event pc stj (EvTcpData cid data) (map labelled (filter vis pre)) closed = 0%nat.
Proof.
  intros pc stj cid li lc cn ip port data closed jin m rest e x x' N He Hlc Fd HMk Hcf J P R Dom HV Hsrc Hbr Ha Hu Ht HLn H.
  rewrite Hcf in H.
  destruct (read_agree _ _ _ _ J P) as (_ & _ & _ & _ & PS).
  destruct (B7.read_agree_all _ _ _ _ J P) as (_ & PR).
  assert (G0 : B7.good m) by (apply B7.good_of_parse; assumption).
  assert (Sok : start_ok (start_line_print (m_start m))).
  { unfold is_request in R. destruct (m_start m) as [meth uri ver|] eqn:Em; [|discriminate R].
    exact (B7.request_line_ok _ _ _ _ PS). }
  assert (Hfrom : B7.t_ok (e_branch e) (tcp_transport lc)) by (apply B7.t_ok_intro; assumption).
  assert (HL : B7.learned_ok (e_branch e) (x_learned x)).
  { intros h t A. destruct (HLn h t A) as [A1 A2]. apply B7.t_ok_intro; assumption. }
  assert (HF : forall t0, first_transport (e_lc e) = Some t0 -> B7.t_ok (e_branch e) t0).
  { intros t0 E0. unfold first_transport in E0. rewrite Hlc in E0.
    destruct (Z.ltb 0 (lc_udp lc)); [injection E0 as <-; apply B7.t_ok_intro; assumption|].
    destruct (Z.ltb 0 (lc_tcp lc)); [injection E0 as <-; apply B7.t_ok_intro; assumption|discriminate E0]. }
  destruct (C13_route_headers_good_tcp e (cn_peer cn) (cn_peer_port cn) (tcp_transport lc) (cn_received_support cn)
              (Some (cn_id cn)) m x x' R G0 Hsrc Hfrom HL HF H) as (pre & O & C & W).
  rewrite He in W. exists pre. split; [exact O|]. split; [exact C|]. intros vis.
  destruct (forall_exists_list (fun o mo => relayed_from pc (tcp_transport lc) m o mo /\ line_safe mo) (filter is_msg pre))
    as (mos & F2).
  { intros o I. apply filter_In in I. destruct I as [I M]. destruct (W o I M) as (mo & B & Gm & Rt).
    exists mo. split; [split; assumption|apply B7.good_line_safe; exact Gm]. }
  destruct (forall2_and_r _ _ _ _ F2) as (F2a & F2b).
  exact (C13_judge_accepts_tcp pc stj cid li ip port lc data closed jin m rest pre mos Fd HMk N J P Sok Dom F2a F2b vis).
Qed.

(* The same in the requested shape: the judge's record of the connection holds the peer of the model's
   record, [cn_li cn = li], [cn_id cn = cid], and the chunk holds exactly that one message.  (These four facts
   are not used at this level: the judge of C13 does not look at the peer, and what the model does with
   the rest of the chunk is the business of tcp_messages, see C13_judge_bridge_tcp_step.) *)
Theorem C13_judge_bridge_tcp_msg :
  forall pc stj cid li lc cn data closed jin m rest e x x',
  nth_opt (c_listens (pc_cfg pc)) li = Some lc -> e_cfg e = pc_cfg pc -> e_lc e = lc ->
  find (fun x => Nat.eqb (fst x) cid) (js_conns stj) = Some (cid, (li, cn_peer cn, cn_peer_port cn)) ->
  (li < dial_mark)%nat ->
  cn_li cn = li -> cn_id cn = cid ->
  cn_from cn = {| t_kind := KTcpListen; t_addr := lc_addr lc; t_port := lc_tcp lc |} ->
  j_read data = Some jin -> parse_message data = Ok (m, rest) -> trim_left rest = [] ->
  is_request m = true ->
  route_domain_in (RS m) ->
  B7.via_domain m -> B7.src_ok (cn_peer cn) -> B7.branch_ok (e_branch e) ->
  safe1 (lc_addr lc) = true -> (0 <= lc_udp lc <= 65535)%Z -> (0 <= lc_tcp lc <= 65535)%Z ->
  (forall h t, alookup h (x_learned x) = Some t -> safe1 (t_addr t) = true /\ (0 <= t_port t <= 65535)%Z) ->
  process_message e (cn_peer cn) (cn_peer_port cn) (cn_from cn) (cn_received_support cn) (Some (cn_id cn)) m x = Ok x' ->
  exists pre, x_outs x' = x_outs x ++ pre /\ (msg_count pre <= 1)%nat /\
    forall vis, judge_C13_event pc stj (EvTcpData cid data) (map labelled (filter vis pre)) closed = 0%nat.
Proof.
  intros pc stj cid li lc cn data closed jin m rest e x x' N He Hlc Fd M _ _ Hcf J P _ R Dom HV Hsrc Hbr Ha Hu Ht HLn H.
  exact (C13_judge_bridge_tcp_msg_gen pc stj cid li lc cn (cn_peer cn) (cn_peer_port cn) data closed jin m rest e x x'
           N He Hlc Fd M Hcf J P R Dom HV Hsrc Hbr Ha Hu Ht HLn H).
Qed.

(* a chunk that holds one message and then only blanks (keep-alive CR LF): one process_message, then the
   reader waits.  (parse_message succeeded, so the chunk is not blank and the fuel [length data] left
   for the rest is irrelevant.) *)
Lemma tcp_messages_single e cn data m rest x :
  parse_message data = Ok (m, rest) -> trim_left rest = [] ->
  tcp_messages (S (List.length data)) e cn data x =
  match process_message e (cn_peer cn) (cn_peer_port cn) (cn_from cn) (cn_received_support cn)
                        (Some (cn_id cn)) m x with
  | Ok x1 => Ok x1
  | Err => Err
  | Panic => Panic
  end.
Proof.
  intros P Hr. cbn [tcp_messages].
  destruct (trim_left data) as [|a t] eqn:T.
  { exfalso. unfold parse_message in P. rewrite T in P. cbn [read_line] in P. discriminate P. }
  rewrite P.
  destruct (process_message e (cn_peer cn) (cn_peer_port cn) (cn_from cn) (cn_received_support cn)
                            (Some (cn_id cn)) m x) as [x1| |]; try reflexivity.
  destruct (List.length data) as [|f]; cbn [tcp_messages]; [reflexivity|]. rewrite Hr. reflexivity.
Qed.

(* ... and for one step of the whole proxy on a chunk read on connection [cid]: [outs] is what RunProxy
   prints for the event (through [labelled] = e_output; [vis] = the destinations the driver observes).
   [cn] is the model's record of the connection; an already closed connection emits nothing. *)
Theorem C13_judge_bridge_tcp_step :
  forall pc stj fx now br st st' outs cid li lc cn data closed jin m rest,
  nth_opt (c_listens (pc_cfg pc)) li = Some lc ->
  find (fun x => Nat.eqb (fst x) cid) (js_conns stj) = Some (cid, (li, cn_peer cn, cn_peer_port cn)) ->
  (li < dial_mark)%nat ->
  find (fun x => Nat.eqb (cn_id x) cid) (st_conns st) = Some cn ->
  cn_li cn = li ->
  cn_from cn = {| t_kind := KTcpListen; t_addr := lc_addr lc; t_port := lc_tcp lc |} ->
  j_read data = Some jin -> parse_message data = Ok (m, rest) -> trim_left rest = [] ->
  is_request m = true ->
  route_domain_in (RS m) ->
  B7.via_domain m -> B7.src_ok (cn_peer cn) -> B7.branch_ok br ->
  safe1 (lc_addr lc) = true -> (0 <= lc_udp lc <= 65535)%Z -> (0 <= lc_tcp lc <= 65535)%Z ->
  (forall h t, alookup h (st_learned st) = Some t -> safe1 (t_addr t) = true /\ (0 <= t_port t <= 65535)%Z) ->
  proxy_step fx (pc_cfg pc) now br st (EvTcpData cid data) = Ok (st', outs) ->
  forall vis, judge_C13_event pc stj (EvTcpData cid data) (map labelled (filter vis outs)) closed = 0%nat.
Proof.
  intros pc stj fx now br st st' outs cid li lc cn data closed jin m rest
         N Fd M Fc Hli Hcf J P Hr R Dom HV Hsrc Hbr Ha Hu Ht HLn H vis.
  subst li.
  unfold proxy_step in H. rewrite Fc in H.
  destruct (cn_open cn); [|injection H as _ <-; apply judge_C13_no_output].
  cbv zeta in H. rewrite N in H. unfold run_ctx in H.
  destruct (nth_p (st_proxies st) (cn_li cn)) as [p|]; [|injection H as _ <-; apply judge_C13_no_output].
  rewrite (tcp_messages_single _ cn data m rest _ P Hr) in H.
  match type of H with context [process_message ?e ?a ?b ?f ?r ?t ?mm ?xx] =>
    destruct (process_message e a b f r t mm xx) as [x'| |] eqn:PM; try discriminate H;
    destruct (C13_judge_bridge_tcp_msg_gen pc stj cid (cn_li cn) lc cn (cn_peer cn) (cn_peer_port cn) data closed
                jin m rest e xx x' N eq_refl eq_refl Fd M Hcf J P R Dom HV Hsrc Hbr Ha Hu Ht HLn PM)
      as (pre & O & _ & K) end.
  cbn [x_outs app] in O. injection H as _ <-. rewrite O. apply K.
Qed.

(* ================================================================== D. concrete instance *)
(* the example of proofs/C13_bridge.v with a listener whose TCP port (5062) differs from its UDP port
   (5060); a peer connects, then sends on the connection a request with two Via headers and three Route
   entries: the own entry (address of the listener, its TCP port), the next hop, one more; a keep-alive
   CR LF follows the body; keep-next-hop-route off *)
Definition t13_lc : listen_cfg :=
  {| lc_addr := s2b "10.0.0.1"; lc_udp := 5060; lc_tcp := 5062; lc_backends := [s2b "10.0.0.2:5080"];
     lc_dynamic := false; lc_no_received := false; lc_def_route := false; lc_must_rr := true |}.
Definition t13_cfg : cfg :=
  {| c_name := c_name C01.ex_cfg; c_keep_next_hop := false; c_dialog_timeout := 3600;
     c_routes := c_routes C01.ex_cfg; c_hosts := []; c_listens := [t13_lc] |}.
Definition t13_pc : proxy_case :=
  {| pc_cfg := t13_cfg; pc_tcp_listeners := [(s2b "10.0.0.7", 5080%Z)];
     pc_udp_endpoints := [(s2b "10.0.0.9", 5070%Z)]; pc_events := []; pc_waits := [] |}.
Definition t13_st0 : state := init_state t13_cfg 0 [(s2b "10.0.0.7", 5080%Z)].
Definition t13_accept : event := EvTcpAccept 0 (s2b "10.0.0.9") 40000%Z.
(* model state and judge bookkeeping after the accept *)
Definition t13_st1 : state :=
  match proxy_step all_fixed t13_cfg 500 (branch_of 0) t13_st0 t13_accept with Ok (s, _) => s | _ => t13_st0 end.
Definition t13_js1 : jstate := js_step_c (js_init t13_cfg) t13_accept [] [].
Definition t13_routes : list a_relem :=
  [b13_elem "" "10.0.0.1" (Some 5062%Z); b13_elem "" "10.0.0.9" (Some 5070%Z); b13_elem """Far"" " "far.example.com" None].
Definition t13_tail : bytes :=
  s2b "Via: SIP/2.0/TCP 10.0.0.9:5070;branch=z9hG4bKabc;rport" ++ crlf ++
  s2b "Via: SIP/2.0/UDP 10.0.0.8:5071;branch=z9hG4bK0" ++ crlf ++
  s2b "From: <sip:alice@a.example.com>;tag=1" ++ crlf ++
  s2b "To: <sip:svc@example.com>" ++ crlf ++
  s2b "Call-ID: call-1@host" ++ crlf ++
  s2b "CSeq: 7 INVITE" ++ crlf ++
  s2b "Content-Length: 3" ++ crlf ++ crlf ++ s2b "abc" ++ crlf.
Definition t13_req : bytes :=
  s2b "INVITE sip:bob@elsewhere.example SIP/2.0" ++ crlf ++
  s2b "Route: <sip:10.0.0.1:5062;lr>,<sip:10.0.0.9:5070;lr>,""Far"" <sip:far.example.com;lr>" ++ crlf ++ t13_tail.
Definition t13_ev : event := EvTcpData 0 t13_req.
Definition t13_run : res (state * list output) :=
  proxy_step all_fixed (pc_cfg t13_pc) 1000 (branch_of 1) t13_st1 t13_ev.
Definition t13_outs : list output := match t13_run with Ok (_, outs) => outs | _ => [] end.
(* the model's record of the connection *)
Definition t13_cn : conn :=
  {| cn_id := 0; cn_li := 0; cn_open := true; cn_peer := s2b "10.0.0.9"; cn_peer_port := 40000;
     cn_from := {| t_kind := KTcpListen; t_addr := lc_addr t13_lc; t_port := lc_tcp t13_lc |};
     cn_received_support := true |}.

Example t13_text : rp_route t13_routes =
  s2b "<sip:10.0.0.1:5062;lr>,<sip:10.0.0.9:5070;lr>,""Far"" <sip:far.example.com;lr>".
Proof. vm_compute. reflexivity. Qed.

(* the hypotheses of C13_judge_bridge_tcp_step hold *)
Example t13_hyp_listener : nth_opt (c_listens (pc_cfg t13_pc)) 0 = Some t13_lc.
Proof. reflexivity. Qed.
Example t13_hyp_judge_conn :
  find (fun x => Nat.eqb (fst x) 0) (js_conns t13_js1) = Some (0%nat, (0%nat, cn_peer t13_cn, cn_peer_port t13_cn)).
Proof. vm_compute. reflexivity. Qed.
Example t13_hyp_model_conn : find (fun x => Nat.eqb (cn_id x) 0) (st_conns t13_st1) = Some t13_cn.
Proof. vm_compute. reflexivity. Qed.
Example t13_hyp_read :
  option_map (fun jin => (jm_has_cl jin, single_message jin, option_map (fun q => all_sip (jq_routes q)) (j_request jin)))
             (j_read t13_req)
  = Some (true, true, Some true).
Proof. vm_compute. reflexivity. Qed.
Example t13_hyp_parse : parse_message t13_req = Ok (parsed t13_req, crlf).
Proof. vm_compute. reflexivity. Qed.
Example t13_hyp_rest : trim_left crlf = [].
Proof. vm_compute. reflexivity. Qed.
Example t13_hyp_request : is_request (parsed t13_req) = true.
Proof. vm_compute. reflexivity. Qed.
Example t13_hyp_two_vias :
  List.length (filter (fun h => is_via (h_name h)) (m_headers (parsed t13_req))) = 2%nat.
Proof. vm_compute. reflexivity. Qed.
Example t13_hyp_routes : route_domain_in (RS (parsed t13_req)).
Proof.
  assert (E : RS (parsed t13_req) = [{| h_name := s2b "Route"; h_val := HRaw (rp_route t13_routes) |}])
    by (vm_compute; reflexivity).
  rewrite E. cbn [route_domain_in]. split; [|exact I]. exists t13_routes.
  split; [discriminate|]. split; [vm_compute; reflexivity|]. split; [vm_compute; reflexivity|reflexivity].
Qed.

(* the run: one datagram to the next hop (the Route entry names no transport); it carries the third
   entry only (own entry and next hop consumed); the proxy's own Via names the TCP listener; the
   executable judge accepts what RunProxy prints for the event *)
Example t13_run_labels : map (fun o => fst (labelled o)) t13_outs = [s2b "udp:10.0.0.9:5070"].
Proof. vm_compute. reflexivity. Qed.
Example t13_run_routes :
  map (fun o => option_map (fun om => j_flat is_route (jm_headers om)) (j_read (snd o))) t13_outs
    = [Some [s2b """Far"" <sip:far.example.com;lr>"]].
Proof. vm_compute. reflexivity. Qed.
Example t13_run_top_via :
  map (fun o => option_map (fun om => hd [] (j_flat_via (jm_headers om))) (j_read (snd o))) t13_outs
    = [Some (s2b "SIP/2.0/TCP 10.0.0.1:5062;branch=z9hG4bK@@@@@@000001")].
Proof. vm_compute. reflexivity. Qed.
Example t13_run_judged :
  judge_C13_event t13_pc t13_js1 t13_ev
    (map labelled (filter (visible (pc_udp_endpoints t13_pc)) t13_outs)) [] = 0%nat.
Proof. vm_compute. reflexivity. Qed.

(* the step theorem instantiated on the run: every hypothesis is on the input side and holds *)
Example t13_accepted_by_theorem :
  forall vis, judge_C13_event t13_pc t13_js1 (EvTcpData 0 t13_req) (map labelled (filter vis t13_outs)) [] = 0%nat.
Proof.
  destruct (j_read t13_req) as [jin|] eqn:J; [|vm_compute in J; discriminate J].
  assert (Hrun : exists s, proxy_step all_fixed (pc_cfg t13_pc) 1000 (branch_of 1) t13_st1
                             (EvTcpData 0 t13_req) = Ok (s, t13_outs)).
  { unfold t13_outs, t13_run, t13_ev.
    match goal with |- context [match ?X with Ok _ => _ | Err => _ | Panic => _ end] =>
      destruct X as [[s o]| |] eqn:E end;
      [exists s; reflexivity|vm_compute in E; discriminate E|vm_compute in E; discriminate E]. }
  destruct Hrun as (s & Hrun).
  assert (HV : B7.via_domain (parsed t13_req)) by (apply B7.via_domain_b_sound; vm_compute; reflexivity).
  assert (Hsrc : B7.src_ok (cn_peer t13_cn)) by (split; vm_compute; reflexivity).
  assert (Hbr : B7.branch_ok (branch_of 1)) by (split; vm_compute; reflexivity).
  assert (Ha : safe1 (lc_addr t13_lc) = true) by (vm_compute; reflexivity).
  assert (Hu : (0 <= lc_udp t13_lc <= 65535)%Z) by (unfold t13_lc; cbn [lc_udp]; lia).
  assert (Ht : (0 <= lc_tcp t13_lc <= 65535)%Z) by (unfold t13_lc; cbn [lc_tcp]; lia).
  assert (HLn : forall h t, alookup h (st_learned t13_st1) = Some t ->
                            safe1 (t_addr t) = true /\ (0 <= t_port t <= 65535)%Z).
  { assert (E : st_learned t13_st1 = []) by (vm_compute; reflexivity). rewrite E. intros h t A. discriminate A. }
  exact (C13_judge_bridge_tcp_step t13_pc t13_js1 all_fixed 1000%Z (branch_of 1) t13_st1 s t13_outs
           0%nat 0%nat t13_lc t13_cn t13_req [] jin (parsed t13_req) crlf
           t13_hyp_listener t13_hyp_judge_conn C07_bridge.zero_below_mark t13_hyp_model_conn eq_refl eq_refl J t13_hyp_parse t13_hyp_rest
           t13_hyp_request t13_hyp_routes HV Hsrc Hbr Ha Hu Ht HLn Hrun).
Qed.

(* SENSITIVITY 1: a wrong output.  The request relayed with its Route set untouched (the bytes received,
   sent to the same destination): the same judge, same bookkeeping, same event, answers 1. *)
Definition t13_wrong : list (bytes * bytes) :=
  map (fun o => (fst (labelled o), t13_req)) (filter (visible (pc_udp_endpoints t13_pc)) t13_outs).
Example t13_wrong_rejected :
  map fst t13_wrong = [s2b "udp:10.0.0.9:5070"] /\
  judge_C13_event t13_pc t13_js1 t13_ev t13_wrong [] = 1%nat.
Proof. split; vm_compute; reflexivity. Qed.

(* SENSITIVITY 2: the port that makes an entry "own" on a TCP connection is the TCP port.  The same request
   with a first entry naming the UDP port 5060 of the listener: on the connection that entry is NOT the
   proxy's own; the model leaves it, takes it for the next hop and relays the two others; the judge
   (ji_tcp = true: lc_tcp) agrees, verdict 0.  Had the proxy popped it as own (what it does for a datagram:
   the run t13_outs relays one entry), the judge would answer 1. *)
Definition t13u_req : bytes :=
  s2b "INVITE sip:bob@elsewhere.example SIP/2.0" ++ crlf ++
  s2b "Route: <sip:10.0.0.1:5060;lr>,<sip:10.0.0.9:5070;lr>,""Far"" <sip:far.example.com;lr>" ++ crlf ++ t13_tail.
Definition t13u_ev : event := EvTcpData 0 t13u_req.
Definition t13u_outs : list output :=
  match proxy_step all_fixed (pc_cfg t13_pc) 1000 (branch_of 1) t13_st1 t13u_ev with Ok (_, outs) => outs | _ => [] end.
Example t13u_not_own :
  map (fun o => option_map (fun om => j_flat is_route (jm_headers om)) (j_read (snd o))) t13u_outs
    = [Some [s2b "<sip:10.0.0.9:5070;lr>"; s2b """Far"" <sip:far.example.com;lr>"]] /\
  map (fun o => fst (labelled o)) t13u_outs = [s2b "udp:10.0.0.1:5060"] /\
  judge_C13_event t13_pc t13_js1 t13u_ev (map labelled t13u_outs) [] = 0%nat /\
  judge_C13_event t13_pc t13_js1 t13u_ev
    (map labelled (filter (visible (pc_udp_endpoints t13_pc)) t13_outs)) [] = 1%nat.
Proof. repeat split; vm_compute; reflexivity. Qed.

Print Assumptions pm_request_good_tcp.
Print Assumptions C13_route_headers_good_tcp.
Print Assumptions C13_judge_accepts_tcp.
Print Assumptions tcp_messages_single.
Print Assumptions C13_judge_bridge_tcp_msg_gen.
Print Assumptions C13_judge_bridge_tcp_msg.
Print Assumptions C13_judge_bridge_tcp_step.
Print Assumptions t13_accepted_by_theorem.
