(* C17 -- header spelling and list layout do not change what the proxy does.
   Part 1: [same_header] is the kernel of [canon] (the full lower-case name), for ALL names.
   Part 2: every look-up / update / insertion of Message.v and Msg.v commutes with respelling.
   Part 3: a simulation of the whole per-message pipeline, generic in the relation between the
           two messages (Section Sim), instantiated with "respelled" (Part 4) and with
           "re-laid-out" (Part 5).
   Part 6: concrete twins through [proxy_step]; the counterexample that forces the size condition.
   Part 7: the event-level statement for a datagram.
   FOUND: the behaviour is NOT invariant unconditionally -- what is relayed depends on the
   serialised length (UDP datagram limit), which spelling and layout change.  The invariance
   theorems therefore carry the condition "both serialised messages on the same side of the
   limit" (see C17_size_counterexample). *)
From Coq Require Import List Ascii String ZArith Bool Arith Lia.
From Model Require Import Bytes BytesLemmas Uri Hdr Message Msg Rx Glob StaticRoute RoundRobin Pins Proxy.
Import ListNotations.
Local Open Scope nat_scope.

(* ================================================================== Part 1: same_header *)
(* the full lower-case name: a compact letter is expanded through the table *)
Definition expand (l : bytes) : bytes :=
  match l with
  | [_] => match alookup l compact_table with Some full => full | None => l end
  | _ => l
  end.
Definition canon (n : bytes) : bytes := expand (to_lower n).

(* the finite facts about the table, checked by computation ... *)
Definition table_ok (kv : bytes * bytes) : bool :=
  let '(k, v) := kv in
  match alookup v compact_table with Some k' => beq k' k | None => false end   (* symmetric, closed *)
  && beq (to_lower v) v && beq (to_lower k) k                                   (* lower case *)
  && Bool.eqb (Nat.eqb (List.length k) 1) (negb (Nat.eqb (List.length v) 1)).   (* letter <-> full name *)
Lemma compact_table_ok : forallb table_ok compact_table = true.
Proof. vm_compute. reflexivity. Qed.

(* ... and lifted to every look-up *)
Lemma compact_table_sym a b : alookup a compact_table = Some b ->
  alookup b compact_table = Some a /\ to_lower b = b /\ to_lower a = a /\
  (List.length a = 1 <-> List.length b <> 1).
Proof.
  intros H. apply alookup_in in H.
  pose proof (proj1 (forallb_forall _ _) compact_table_ok _ H) as T. unfold table_ok in T.
  apply andb_true_iff in T. destruct T as [T T4]. apply andb_true_iff in T. destruct T as [T T3].
  apply andb_true_iff in T. destruct T as [T1 T2].
  destruct (alookup b compact_table) as [k'|]; [|discriminate]. apply beq_eq in T1. subst k'.
  apply beq_eq in T2. apply beq_eq in T3. split; [reflexivity|]. split; [exact T2|]. split; [exact T3|].
  apply Bool.eqb_prop in T4.
  rewrite <- Nat.eqb_eq, <- Nat.eqb_neq.
  destruct (Nat.eqb (List.length a) 1); destruct (Nat.eqb (List.length b) 1); cbn [negb] in T4; try discriminate;
    split; intros; try reflexivity; try discriminate.
Qed.

Lemma expand_letter l f : List.length l = 1 -> alookup l compact_table = Some f -> expand l = f.
Proof. destruct l as [|a [|b r]]; try discriminate. intros _ H. unfold expand. rewrite H. reflexivity. Qed.
Lemma expand_long l : List.length l <> 1 -> expand l = l.
Proof. destruct l as [|a [|b r]]; try reflexivity. intros H; exfalso; apply H; reflexivity. Qed.
Lemma expand_cases l :
  expand l = l \/ exists f, alookup l compact_table = Some f /\ expand l = f /\ List.length l = 1.
Proof.
  destruct l as [|a [|b r]]; try (left; reflexivity). unfold expand.
  destruct (alookup [a] compact_table) as [f|]; [|left; reflexivity].
  right. exists f. repeat split.
Qed.

Lemma same_header_unfold n1 n2 :
  same_header n1 n2 = (beq (to_lower n1) (to_lower n2) ||
    match alookup (to_lower n2) compact_table with Some c => beq (to_lower n1) (to_lower c) | None => false end)%bool.
Proof. reflexivity. Qed.

(* f. for ALL names: isSameHeader(n1, n2) holds exactly when the two names have the same full
   lower-case form *)
Theorem C17_same_header_equiv : forall n1 n2, same_header n1 n2 = true <-> canon n1 = canon n2.
Proof.
  intros n1 n2. rewrite same_header_unfold. unfold canon.
  set (l1 := to_lower n1). set (l2 := to_lower n2). split.
  - intros H. apply orb_true_iff in H. destruct H as [H|H].
    + apply beq_eq in H. rewrite H. reflexivity.
    + destruct (alookup l2 compact_table) as [c|] eqn:E; [|discriminate].
      destruct (compact_table_sym _ _ E) as (Hs & Hc & _ & Hlen). rewrite Hc in H. apply beq_eq in H.
      destruct (Nat.eq_dec (List.length l2) 1) as [L|L].
      * rewrite (expand_letter _ _ L E). rewrite H. apply expand_long. apply Hlen. exact L.
      * rewrite (expand_long _ L). rewrite H. apply expand_letter; [|exact Hs].
        destruct (Nat.eq_dec (List.length c) 1) as [Lc|Lc]; [exact Lc|]. exfalso. apply L. apply Hlen. exact Lc.
  - intros H. apply orb_true_iff.
    destruct (expand_cases l1) as [E1|(f1 & A1 & E1 & L1)]; destruct (expand_cases l2) as [E2|(f2 & A2 & E2 & L2)];
      rewrite E1, E2 in H.
    + left. apply beq_eq. exact H.
    + right. rewrite A2. destruct (compact_table_sym _ _ A2) as (_ & Hc & _). rewrite Hc. apply beq_eq. exact H.
    + right. subst l2. rewrite <- H. destruct (compact_table_sym _ _ A1) as (Hs & _ & Hl & _). rewrite Hs, Hl.
      apply beq_eq. reflexivity.
    + left. subst f2. destruct (compact_table_sym _ _ A1) as (Hs1 & _). destruct (compact_table_sym _ _ A2) as (Hs2 & _).
      rewrite Hs1 in Hs2. injection Hs2 as ->. apply beq_eq. reflexivity.
Qed.

Corollary same_header_canon_eq n1 n2 n1' n2' :
  canon n1 = canon n1' -> canon n2 = canon n2' -> same_header n1 n2 = same_header n1' n2'.
Proof.
  intros H1 H2. destruct (same_header n1 n2) eqn:E.
  - symmetry. apply C17_same_header_equiv. rewrite <- H1, <- H2. apply C17_same_header_equiv. exact E.
  - destruct (same_header n1' n2') eqn:E'; [|reflexivity].
    apply C17_same_header_equiv in E'. rewrite <- H1, <- H2 in E'. apply C17_same_header_equiv in E'. congruence.
Qed.
(* hence an equivalence relation (in particular symmetric, although the definition is not) *)
Corollary C17_same_header_refl : forall n, same_header n n = true.
Proof. intros n. apply C17_same_header_equiv. reflexivity. Qed.
Corollary C17_same_header_sym : forall a b, same_header a b = same_header b a.
Proof.
  intros a b. destruct (same_header b a) eqn:E.
  - apply C17_same_header_equiv. symmetry. apply C17_same_header_equiv. exact E.
  - destruct (same_header a b) eqn:E'; [|reflexivity]. apply C17_same_header_equiv in E'. symmetry in E'.
    apply C17_same_header_equiv in E'. congruence.
Qed.
Corollary C17_same_header_trans : forall a b c, same_header a b = true -> same_header b c = true -> same_header a c = true.
Proof.
  intros a b c H1 H2. apply C17_same_header_equiv. apply C17_same_header_equiv in H1. apply C17_same_header_equiv in H2.
  congruence.
Qed.

(* the names the code looks up *)
Definition lookup_names : list bytes :=
  map s2b ["Via"; "Route"; "Record-Route"; "From"; "To"; "Call-ID"; "CSeq"; "Content-Length"; "Max-Forwards";
           "Expires"; "Subscription-State"]%string.
Example C17_canon_lookup_names :
  map canon lookup_names =
  map s2b ["via"; "route"; "record-route"; "from"; "to"; "call-id"; "cseq"; "content-length"; "max-forwards";
           "expires"; "subscription-state"]%string
  /\ map canon (map s2b ["v"; "V"; "VIA"; "f"; "T"; "i"; "L"; "cONTENT-lENGTH"; "x"; ""]%string)
     = map s2b ["via"; "via"; "via"; "from"; "to"; "call-id"; "content-length"; "content-length"; "x"; ""]%string.
Proof. split; vm_compute; reflexivity. Qed.

(* ================================================================== Part 2: respelling *)
(* two headers that differ in the spelling of the name only; two messages that differ in the
   spelling of header names only *)
Definition hdr_rel (h1 h2 : header) : Prop := canon (h_name h1) = canon (h_name h2) /\ h_val h1 = h_val h2.
Definition hs_rel : list header -> list header -> Prop := Forall2 hdr_rel.
Definition respelled (m1 m2 : message) : Prop :=
  m_start m1 = m_start m2 /\ m_body m1 = m_body m2 /\ hs_rel (m_headers m1) (m_headers m2).

(* a respelling function: every name is mapped to a name with the same full form *)
Definition spelling (s : bytes -> bytes) : Prop := forall n, canon (s n) = canon n.
Definition rename (s : bytes -> bytes) (h : header) : header := {| h_name := s (h_name h); h_val := h_val h |}.
Definition respell (s : bytes -> bytes) (m : message) : message := with_headers m (map (rename s) (m_headers m)).
(* canonical spelling of every name: two messages are respellings of each other iff they have
   the same canonical form *)
Definition canon_names (m : message) : message := respell canon m.

Lemma canon_idem n : canon (canon n) = canon n.
Proof.
  assert (I : to_lower (to_lower n) = to_lower n).
  { unfold to_lower. rewrite map_map. apply map_ext. intros c. unfold lower_byte.
    destruct (N.leb 65 (N_of_ascii c) && N.leb (N_of_ascii c) 90)%bool eqn:T; [|rewrite T; reflexivity].
    apply andb_true_iff in T. destruct T as [T1 T2]. apply N.leb_le in T1. apply N.leb_le in T2.
    rewrite N_ascii_embedding by lia.
    destruct (N.leb 65 (N_of_ascii c + 32) && N.leb (N_of_ascii c + 32) 90)%bool eqn:T'; [|reflexivity].
    apply andb_true_iff in T'. destruct T' as [_ T']. apply N.leb_le in T'. lia. }
  assert (C : canon n = expand (to_lower n)) by reflexivity.
  destruct (expand_cases (to_lower n)) as [E|(f & A & E & L)]; rewrite C, E.
  - unfold canon. rewrite I. exact E.
  - destruct (compact_table_sym _ _ A) as (Hs & Hf & _ & Hl). unfold canon. rewrite Hf. apply expand_long. apply Hl. exact L.
Qed.
Lemma spelling_canon : spelling canon.
Proof. intros n. apply canon_idem. Qed.
Lemma spelling_id : spelling (fun n => n).
Proof. intros n. reflexivity. Qed.

Lemma hdr_rel_refl h : hdr_rel h h.
Proof. split; reflexivity. Qed.
Lemma hs_rel_refl hs : hs_rel hs hs.
Proof. induction hs; constructor; [apply hdr_rel_refl|assumption]. Qed.
Lemma respelled_refl m : respelled m m.
Proof. split; [reflexivity|]. split; [reflexivity|apply hs_rel_refl]. Qed.
Lemma hs_rel_sym hs1 hs2 : hs_rel hs1 hs2 -> hs_rel hs2 hs1.
Proof. induction 1 as [|h1 h2 l1 l2 [Hn Hv] _ IH]; constructor; [split; congruence|exact IH]. Qed.
Lemma respelled_sym m1 m2 : respelled m1 m2 -> respelled m2 m1.
Proof. intros (H1 & H2 & H3). split; [congruence|]. split; [congruence|apply hs_rel_sym; exact H3]. Qed.
Lemma hs_rel_trans hs1 hs2 : hs_rel hs1 hs2 -> forall hs3, hs_rel hs2 hs3 -> hs_rel hs1 hs3.
Proof.
  induction 1 as [|h1 h2 l1 l2 [Hn Hv] _ IH]; intros hs3 H3; inversion H3 as [|h2' h3 l2' l3 [Hn' Hv'] H3']; subst; constructor.
  - split; congruence.
  - apply IH. exact H3'.
Qed.
Lemma respelled_trans m1 m2 m3 : respelled m1 m2 -> respelled m2 m3 -> respelled m1 m3.
Proof.
  intros (H1 & H2 & H3) (H1' & H2' & H3'). split; [congruence|]. split; [congruence|].
  exact (hs_rel_trans _ _ H3 _ H3').
Qed.

Lemma hs_rel_rename s hs : spelling s -> hs_rel (map (rename s) hs) hs.
Proof. intros Hs. induction hs as [|h r IH]; constructor; [split; [apply Hs|reflexivity]|exact IH]. Qed.
Lemma respell_respelled s m : spelling s -> respelled (respell s m) m.
Proof. intros Hs. split; [reflexivity|]. split; [reflexivity|]. apply hs_rel_rename. exact Hs. Qed.
Lemma respelled_canon_names m1 m2 : respelled m1 m2 <-> canon_names m1 = canon_names m2.
Proof.
  split.
  - intros (H1 & H2 & H3). unfold canon_names, respell, with_headers. rewrite H1, H2. f_equal.
    induction H3 as [|h1 h2 l1 l2 [Hn Hv] _ IH]; [reflexivity|]. cbn [map]. rewrite IH. unfold rename. rewrite Hn, Hv. reflexivity.
  - intros H. apply (respelled_trans _ (canon_names m1)).
    + apply respelled_sym, respell_respelled, spelling_canon.
    + rewrite H. apply respell_respelled, spelling_canon.
Qed.

(* --- look-ups see the same thing --- *)
Lemma hdr_rel_same h1 h2 name : hdr_rel h1 h2 -> same_header (h_name h1) name = same_header (h_name h2) name.
Proof. intros [Hn _]. apply same_header_canon_eq; [exact Hn|reflexivity]. Qed.

Definition opt_rel {A} (P : A -> A -> Prop) (o1 o2 : option A) : Prop :=
  match o1, o2 with Some a, Some b => P a b | None, None => True | _, _ => False end.

Lemma get_header_rel name hs1 hs2 : hs_rel hs1 hs2 -> opt_rel hdr_rel (get_header name hs1) (get_header name hs2).
Proof.
  induction 1 as [|h1 h2 l1 l2 Hh _ IH]; [exact I|]. cbn [get_header]. rewrite (hdr_rel_same _ _ name Hh).
  destruct (same_header (h_name h2) name); [exact Hh|exact IH].
Qed.
Lemma find_header_pos_from_rel name hs1 hs2 : hs_rel hs1 hs2 ->
  forall i, find_header_pos_from name hs1 i = find_header_pos_from name hs2 i.
Proof.
  induction 1 as [|h1 h2 l1 l2 Hh _ IH]; intros i; [reflexivity|]. cbn [find_header_pos_from].
  rewrite (hdr_rel_same _ _ name Hh). destruct (same_header (h_name h2) name); [reflexivity|apply IH].
Qed.
Lemma find_header_pos_rel name hs1 hs2 : hs_rel hs1 hs2 -> find_header_pos name hs1 = find_header_pos name hs2.
Proof. intros H. apply find_header_pos_from_rel. exact H. Qed.
Lemma update_header_rel name f hs1 hs2 : hs_rel hs1 hs2 -> hs_rel (update_header name f hs1) (update_header name f hs2).
Proof.
  induction 1 as [|h1 h2 l1 l2 Hh Hl IH]; [constructor|]. cbn [update_header]. rewrite (hdr_rel_same _ _ name Hh).
  destruct (same_header (h_name h2) name); constructor; try assumption.
  destruct Hh as [Hn Hv]. split; cbn [h_name h_val]; congruence.
Qed.
Lemma remove_header_rel name hs1 hs2 : hs_rel hs1 hs2 -> hs_rel (remove_header name hs1) (remove_header name hs2).
Proof.
  induction 1 as [|h1 h2 l1 l2 Hh Hl IH]; [constructor|]. cbn [remove_header]. rewrite (hdr_rel_same _ _ name Hh).
  destruct (same_header (h_name h2) name); [exact Hl|constructor; assumption].
Qed.
Lemma hs_rel_app a1 a2 b1 b2 : hs_rel a1 a2 -> hs_rel b1 b2 -> hs_rel (a1 ++ b1) (a2 ++ b2).
Proof. intros Ha Hb. apply Forall2_app; assumption. Qed.
Lemma hs_rel_firstn n hs1 hs2 : hs_rel hs1 hs2 -> hs_rel (firstn n hs1) (firstn n hs2).
Proof.
  intros H. revert n. induction H as [|h1 h2 l1 l2 Hh Hl IH]; intros [|n]; cbn [firstn]; constructor;
    [exact Hh|apply IH].
Qed.
Lemma hs_rel_skipn n hs1 hs2 : hs_rel hs1 hs2 -> hs_rel (skipn n hs1) (skipn n hs2).
Proof.
  intros H. revert n. induction H as [|h1 h2 l1 l2 Hh Hl IH]; intros [|n]; cbn [skipn];
    [constructor|constructor|constructor; assumption|apply IH].
Qed.
Lemma insert_at_rel n h1 h2 hs1 hs2 : hdr_rel h1 h2 -> hs_rel hs1 hs2 -> hs_rel (insert_at n h1 hs1) (insert_at n h2 hs2).
Proof.
  intros Hh H. unfold insert_at. apply hs_rel_app; [apply hs_rel_firstn; exact H|].
  constructor; [exact Hh|apply hs_rel_skipn; exact H].
Qed.
Lemma decode_all_vias_rel hs1 hs2 : hs_rel hs1 hs2 ->
  hs_rel (fst (decode_all_vias hs1)) (fst (decode_all_vias hs2)) /\ snd (decode_all_vias hs1) = snd (decode_all_vias hs2).
Proof.
  induction 1 as [|h1 h2 l1 l2 Hh Hl IH]; [split; [constructor|reflexivity]|]. cbn [decode_all_vias].
  destruct (decode_all_vias l1) as [r1 v1]. destruct (decode_all_vias l2) as [r2 v2]. cbn [fst snd] in IH. destruct IH as [IH1 IH2].
  rewrite (hdr_rel_same _ _ (s2b "Via") Hh). destruct Hh as [Hn Hv]. rewrite Hv.
  assert (Hh : hdr_rel h1 h2) by (split; assumption).
  destruct (same_header (h_name h2) (s2b "Via")); [|cbn [fst snd]; split; [constructor; assumption|exact IH2]].
  destruct (h_val h2) as [s|l|l|l|f|f|c]; cbn [fst snd]; try (split; [constructor; assumption|congruence]).
  destruct (parse_via s); cbn [fst snd]; (split; [constructor; try assumption|congruence]).
  split; cbn [h_name h_val]; congruence.
Qed.

(* --- the same facts in "commutes with the respelling function" form --- *)
Section Respell.
  Variable s : bytes -> bytes.
  Hypothesis Hs : spelling s.
  Lemma same_header_respell n name : same_header (s n) name = same_header n name.
  Proof. apply same_header_canon_eq; [apply Hs|reflexivity]. Qed.
  Lemma get_header_respell name hs : get_header name (map (rename s) hs) = option_map (rename s) (get_header name hs).
  Proof.
    induction hs as [|h r IH]; [reflexivity|]. cbn [map get_header rename h_name]. rewrite same_header_respell.
    destruct (same_header (h_name h) name); [reflexivity|exact IH].
  Qed.
  Lemma find_header_pos_from_respell name hs : forall i,
    find_header_pos_from name (map (rename s) hs) i = find_header_pos_from name hs i.
  Proof.
    induction hs as [|h r IH]; intros i; [reflexivity|]. cbn [map find_header_pos_from rename h_name].
    rewrite same_header_respell. destruct (same_header (h_name h) name); [reflexivity|apply IH].
  Qed.
  Lemma find_header_pos_respell name hs : find_header_pos name (map (rename s) hs) = find_header_pos name hs.
  Proof. apply find_header_pos_from_respell. Qed.
  Lemma has_header_respell name m : has_header name (respell s m) = has_header name m.
  Proof. unfold has_header, respell. cbn [m_headers with_headers]. rewrite get_header_respell. destruct (get_header name (m_headers m)); reflexivity. Qed.
  Lemma update_header_respell name f hs :
    update_header name f (map (rename s) hs) = map (rename s) (update_header name f hs).
  Proof.
    induction hs as [|h r IH]; [reflexivity|]. cbn [map update_header rename h_name]. rewrite same_header_respell.
    destruct (same_header (h_name h) name); [reflexivity|]. cbn [map]. rewrite IH. reflexivity.
  Qed.
  Lemma remove_header_respell name hs : remove_header name (map (rename s) hs) = map (rename s) (remove_header name hs).
  Proof.
    induction hs as [|h r IH]; [reflexivity|]. cbn [map remove_header rename h_name]. rewrite same_header_respell.
    destruct (same_header (h_name h) name); [reflexivity|]. cbn [map]. rewrite IH. reflexivity.
  Qed.
  Lemma set_val_respell name v m : set_val name v (respell s m) = respell s (set_val name v m).
  Proof. unfold set_val, respell, with_headers. cbn [m_start m_headers m_body]. rewrite update_header_respell. reflexivity. Qed.
  Lemma typed_get_respell {A} name (proj : hval -> option A) parse inj m :
    typed_get name proj parse inj (respell s m) =
    (respell s (fst (typed_get name proj parse inj m)), snd (typed_get name proj parse inj m)).
  Proof.
    unfold typed_get. cbn [respell m_headers with_headers]. rewrite get_header_respell.
    destruct (get_header name (m_headers m)) as [h|]; cbn [option_map]; [|reflexivity].
    cbn [rename h_val]. destruct (proj (h_val h)); [reflexivity|].
    destruct (h_val h); try reflexivity. destruct (parse s0); try reflexivity.
    cbn [fst snd]. rewrite <- set_val_respell. reflexivity.
  Qed.
  Lemma get_raw_respell name m : get_raw name (respell s m) = get_raw name m.
  Proof. unfold get_raw, respell. cbn [m_headers with_headers]. rewrite get_header_respell. destruct (get_header name (m_headers m)); reflexivity. Qed.
  Lemma get_header_int_respell name m : get_header_int name (respell s m) = get_header_int name m.
  Proof. unfold get_header_int. rewrite get_raw_respell. reflexivity. Qed.
  Lemma get_expires_respell m d : get_expires (respell s m) d = get_expires m d.
  Proof. unfold get_expires. rewrite get_header_int_respell. reflexivity. Qed.
  Lemma decode_all_vias_respell hs :
    decode_all_vias (map (rename s) hs) = (map (rename s) (fst (decode_all_vias hs)), snd (decode_all_vias hs)).
  Proof.
    induction hs as [|h r IH]; [reflexivity|]. cbn [map decode_all_vias]. rewrite IH.
    destruct (decode_all_vias r) as [r' vs]. cbn [fst snd rename h_name h_val]. rewrite same_header_respell.
    destruct (same_header (h_name h) (s2b "Via")); [|reflexivity].
    destruct (h_val h); try reflexivity. destruct (parse_via s0); reflexivity.
  Qed.
  Lemma find_record_route_pos_respell hs : find_record_route_pos (map (rename s) hs) = find_record_route_pos hs.
  Proof. unfold find_record_route_pos. rewrite !find_header_pos_respell. reflexivity. Qed.
  Lemma insert_at_map {A B} (g : A -> B) n x l : insert_at n (g x) (map g l) = map g (insert_at n x l).
  Proof. unfold insert_at. rewrite map_app, firstn_map, skipn_map. reflexivity. Qed.
  (* the inserted header keeps the literal name "Via" / "Record-Route": same position, and every
     other header respelled *)
  Lemma add_via_respell v m :
    m_headers (add_via v (respell s m)) =
    insert_at (match find_header_pos (s2b "Via") (m_headers m) with Some i => i | None => O end)
              {| h_name := s2b "Via"; h_val := HVia [v] |} (map (rename s) (m_headers m)).
  Proof. unfold add_via, respell. cbn [m_headers with_headers]. rewrite find_header_pos_respell. reflexivity. Qed.
  Lemma add_record_route_respell r m :
    m_headers (add_record_route r (respell s m)) =
    insert_at (find_record_route_pos (m_headers m))
              {| h_name := s2b "Record-Route"; h_val := HRecRoute [r] |} (map (rename s) (m_headers m)).
  Proof. unfold add_record_route, respell. cbn [m_headers with_headers]. rewrite find_record_route_pos_respell. reflexivity. Qed.
End Respell.

(* --- what is written: every header that is not a Content-Length (under any spelling), then
       exactly one Content-Length --- *)
Definition not_cl (h : header) : bool := negb (same_header (h_name h) (s2b "Content-Length")).
Definition out_headers (m : message) : list header :=
  filter not_cl (m_headers m) ++
  [{| h_name := s2b "Content-Length"; h_val := HRaw (itoa (Z.of_nat (List.length (m_body m)))) |}].
Lemma write_message_out_headers m :
  write_message m = start_line_print (m_start m) ++ crlf ++ flat_map header_print (out_headers m) ++ crlf ++ m_body m.
Proof.
  assert (E : forall x, header_print {| h_name := s2b "Content-Length"; h_val := HRaw x |} = s2b "Content-Length: " ++ x ++ crlf)
    by (intros x; reflexivity).
  unfold write_message, out_headers. rewrite flat_map_app. cbn [flat_map]. rewrite app_nil_r, E, <- !app_assoc. reflexivity.
Qed.
Theorem C17_one_content_length : forall m,
  List.length (filter (fun h => same_header (h_name h) (s2b "Content-Length")) (out_headers m)) = 1.
Proof.
  intros m. unfold out_headers. rewrite filter_app, app_length.
  assert (E : filter (fun h => same_header (h_name h) (s2b "Content-Length")) (filter not_cl (m_headers m)) = []).
  { induction (m_headers m) as [|h r IH]; [reflexivity|]. cbn [filter]. unfold not_cl at 1.
    destruct (same_header (h_name h) (s2b "Content-Length")) eqn:E; cbn [negb]; [exact IH|]. cbn [filter]. rewrite E. exact IH. }
  rewrite E. reflexivity.
Qed.
Lemma out_headers_rel m1 m2 : respelled m1 m2 -> hs_rel (out_headers m1) (out_headers m2).
Proof.
  intros (_ & Hb & Hh). unfold out_headers. rewrite Hb. apply hs_rel_app; [|apply hs_rel_refl].
  induction Hh as [|h1 h2 l1 l2 Hh Hl IH]; [constructor|]. cbn [filter].
  assert (E : not_cl h1 = not_cl h2) by (unfold not_cl; rewrite (hdr_rel_same _ _ _ Hh); reflexivity).
  rewrite E. destruct (not_cl h2); [constructor; assumption|exact IH].
Qed.

(* ================================================================== Part 3: the pipeline in pieces *)
(* Model-level refactorings (no relation involved, each tied to the model by an equation):
   the head of the Route list; the part of sendMessage / sendToBackend that sees the message
   only through its serialised bytes; HandleMessage as "decide, then send"; process_message as
   "prefix, then HandleMessage".  They make visible WHICH message is serialised. *)
Definition s_route_head : M (option route_param) := mlet l := s_get_route in mret (hd_error l).

Lemma next_hop_by_route_head keep m :
  next_hop_by_route keep m =
  (mlet o := s_route_head in
   match o with
   | None => merr
   | Some rp =>
       mlet _ := (if keep then mret (Some tt) else mtry s_pop_route) in
       match na_addr (r_addr rp) with
       | ASip u => mret (u_host u, sip_uri_get_port u, sip_uri_transport u)
       | AAbs _ => merr
       end
   end) m.
Proof.
  unfold next_hop_by_route, s_route_head, mbind, mret. destruct (s_get_route m) as [m1 [[|rp l]| |]]; reflexivity.
Qed.
Lemma try_remove_top_route_head c from m :
  try_remove_top_route c from m =
  (mlet o := s_route_head in
   match o with
   | Some rp =>
       match na_addr (r_addr rp) with
       | ASip u => if (Z.eqb (sip_uri_get_port u) (t_port from) && is_same_address c (u_host u) (t_addr from))%bool
                   then s_pop_route else mret tt
       | AAbs _ => mret tt
       end
   | None => mret tt
   end) m.
Proof.
  unfold try_remove_top_route, s_route_head, mbind, mret. destruct (s_get_route m) as [m1 [[|rp l]| |]]; reflexivity.
Qed.

Definition mk_ctx (l : learned) (p : pstate) (cs : list conn) (w : world) (o : list output) : ctx :=
  {| x_learned := l; x_p := p; x_conns := cs; x_world := w; x_outs := o |}.

Definition send_core (e : env) (host : bytes) (port : Z) (transport : bytes) (tid : res (option bytes))
           (fin : bool) (b : bytes) (x : ctx) : ctx :=
  let ip := match get_ip (e_cfg e) host with Some i => i | None => host end in
  let trans_id := match tid with Ok (Some t) => t | _ => [] end in
  let '(p1, rkey) := get_transport (now_s e) transport ip port trans_id (x_p x) in
  match rkey with
  | Ok key =>
      let p2 :=
        match alookup key (ps_table p1) with
        | Some {| fo_pri := None |} =>
            if (fx_udp_via_listener (e_fx e) && negb (equal_fold transport (s2b "udp")))%bool then p1 else
            match alookup ip (x_learned x) with
            | Some {| t_kind := KUdp |} => if resolvable ip port then set_primary key (PUdpVia ip port) p1 else p1
            | _ => p1
            end
        | _ => p1
        end in
      match alookup key (ps_table p2) with
      | None => mk_ctx (x_learned x) p2 (x_conns x) (x_world x) (x_outs x)
      | Some f =>
          let p3 := if fin then remove_transport transport (if fx_resolved_key (e_fx e) then ip else host) port trans_id p2 else p2 in
          let '(p4, cs, w, outs, ok, f') :=
            failover_send (e_li e) (lc_addr (e_lc e)) (pa_received_support (wire_proxy (e_lc e))) f b p3 (x_conns x) (x_world x) in
          let p5 := match alookup key (ps_table p4) with
                    | Some _ => with_table p4 (aset key f' (ps_table p4))
                    | None => p4 end in
          mk_ctx (x_learned x) p5 cs w (x_outs x ++ outs)
      end
  | _ => mk_ctx (x_learned x) p1 (x_conns x) (x_world x) (x_outs x)
  end.

Lemma send_message_core e host port tr m x :
  send_message e host port tr m x =
  (send_core e host port tr (snd (mtry s_client_transaction m)) (is_final_response (fst (mtry s_client_transaction m)))
             (write_message (fst (mtry s_client_transaction m))) x,
   fst (mtry s_client_transaction m)).
Proof.
  unfold send_message, send_core. destruct (mtry s_client_transaction m) as [m1 tid]. cbn [fst snd].
  destruct (get_transport _ _ _ _ _ _) as [p1 [key| |]]; try reflexivity.
  match goal with |- context [alookup key (ps_table ?P)] =>
    match P with p1 => fail 1 | _ => set (p2 := P) end end.
  destruct (alookup key (ps_table p2)) as [f|]; [|reflexivity].
  destruct (failover_send _ _ _ f _ _ _ _) as [[[[[p4 cs] w] outs] ok] f']. reflexivity.
Qed.

(* sendToBackend: choose the backend and decorate the message; then send and pin *)
Definition stb_prep (e : env) (m : message) (x : ctx) : option (message * pstate * bref) :=
  let p := x_p x in
  if negb (ps_has_rr p) then None
  else
    match first_transport (e_lc e) with
    | None => None
    | Some t0 =>
        let '(m1, r) := find_backend_by_dialog e p m in
        let '(p1, ob) := match r with Ok v => v | _ => (p, None) end in
        let b := match ob with Some b => b | None => BRR end in
        Some (px_add_record_route (pa_must_rr (wire_proxy (e_lc e))) t0 (px_add_via e t0 m1), p1, b)
    end.
Definition stb_finish (e : env) (m2 : message) (p1 : pstate) (b : bref) (x : ctx) : ctx :=
  let '(p2, outs, ok) := backend_send b (write_message m2) p1 in
  if ok then
    let '(m3, tid) := mtry s_client_transaction m2 in
    let p3 := match tid with
              | Ok (Some t) => with_pins p2 (pins_add (e_now e) t (bref_val b) (get_expires m3 0) (ps_pins p2))
              | _ => p2 end in
    mk_ctx (x_learned x) p3 (x_conns x) (x_world x) (x_outs x ++ outs)
  else mk_ctx (x_learned x) p2 (x_conns x) (x_world x) (x_outs x).
Lemma send_to_backend_split e m x :
  fst (send_to_backend e m x) =
  match stb_prep e m x with None => x | Some (m2, p1, b) => stb_finish e m2 p1 b x end.
Proof.
  unfold send_to_backend, stb_prep, stb_finish. destruct (negb (ps_has_rr (x_p x))); [reflexivity|].
  destruct (first_transport (e_lc e)) as [t0|]; [|reflexivity].
  destruct (find_backend_by_dialog e (x_p x) m) as [m1 r].
  destruct (match r with Ok v => v | _ => (x_p x, None) end) as [p1 ob].
  destruct (backend_send _ _ p1) as [[p2 outs] [|]]; [|reflexivity].
  destruct (mtry s_client_transaction _) as [m3 tid]. reflexivity.
Qed.

(* HandleMessage decides ... *)
Inductive plan :=
| PSend (host : bytes) (port : Z) (tr : bytes) (m : message) (x : ctx)
| PBackend (m : message) (x : ctx)
| PNone (m : message) (x : ctx).

Definition hm_plan (e : env) (from : stransport) (m : message) (x : ctx) : plan :=
  if is_request m then
    let '(m1, r) := next_request_hop (c_keep_next_hop (e_cfg e)) (route_table_of (e_cfg e)) m in
    match r with
    | Ok (host, port, transport) =>
        let m2 := match alookup host (x_learned x) with
                  | Some t => px_add_record_route (pa_must_rr (wire_proxy (e_lc e))) t (px_add_via e t m1)
                  | None => m1 end in
        PSend host port transport m2 x
    | _ =>
        if is_my_message (new_my_name (c_name (e_cfg e))) from m1 then PBackend m1 x else PNone m1 x
    end
  else
    let '(m1, _) := mtry s_pop_via m in
    let '(m2, hop) := mtry next_response_hop m1 in
    let '(m3, ometh) := mtry s_get_method m2 in
    let '(m4, p1) :=
      match hop, ometh with
      | Ok (Some (host, port, _)), Ok (Some meth) =>
          if beq meth (s2b "SUBSCRIBE") then
            let addr := host ++ ":"%char :: itoa port in
            match alookup addr (ps_backends (x_p x)) with
            | Some g =>
                let '(m', od) := mtry s_get_dialog m3 in
                match od with
                | Ok (Some d) => (m', with_pins (x_p x) (pins_add (e_now e) d (pin_val_backend addr g) (get_expires m' 0) (ps_pins (x_p x))))
                | _ => (m', x_p x)
                end
            | None => (m3, x_p x)
            end
          else (m3, x_p x)
      | _, _ => (m3, x_p x)
      end in
    let x1 := {| x_learned := x_learned x; x_p := p1; x_conns := x_conns x; x_world := x_world x; x_outs := x_outs x |} in
    match hop with
    | Ok (Some (host, port, transport)) => PSend host port transport m4 x1
    | _ => PNone m4 x1
    end.
(* ... then sends *)
Definition run_plan (e : env) (pl : plan) : ctx * message :=
  match pl with
  | PSend host port tr m x => send_message e host port tr m x
  | PBackend m x => send_to_backend e m x
  | PNone m x => (x, m)
  end.
Lemma handle_message_plan e from m x : handle_message e from m x = run_plan e (hm_plan e from m x).
Proof.
  unfold handle_message, hm_plan. destruct (is_request m).
  - destruct (next_request_hop _ _ m) as [m1 [[[host port] tr]| |]]; try reflexivity;
      destruct (is_my_message _ from m1); reflexivity.
  - destruct (mtry s_pop_via m) as [m1 r1]. destruct (mtry next_response_hop m1) as [m2 hop].
    destruct (mtry s_get_method m2) as [m3 ometh].
    destruct (match hop, ometh with Ok (Some (host, port, _)), Ok (Some meth) => _ | _, _ => (m3, x_p x) end) as [m4 p1].
    destruct hop as [[[[host port] tr]|]| |]; reflexivity.
Qed.
(* the one message a plan serialises (whether or not a transport is found for it) *)
Definition plan_written (e : env) (pl : plan) : option message :=
  match pl with
  | PSend _ _ _ m _ => Some (fst (mtry s_client_transaction m))
  | PBackend m x => option_map (fun t => fst (fst t)) (stb_prep e m x)
  | PNone _ _ => None
  end.

(* process_message up to the call of HandleMessage, in four steps *)
Definition pm_learn (peer : bytes) (from : stransport) (m0 : message) (p : pstate) (l : learned) : message * learned :=
  if (is_request m0 && negb (amem peer (ps_backends p)))%bool then
    let '(m', vs) := s_all_via_params m0 in
    (m', fold_left (fun l v => learn (v_host v) from l)
                   (match vs with Ok l => l | _ => [] end) (learn peer from l))
  else (m0, l).
Definition pm_stamp (peer : bytes) (peer_port : Z) (rs : bool) (m1 : message) : message :=
  if (is_request m1 && rs)%bool then fst (s_set_received peer peer_port m1) else m1.
Definition pm_conn (e : env) (tcp : option nat) (m2 : message) (p : pstate) : message * res pstate :=
  match tcp with
  | Some c =>
      if is_request m2 then
        let '(m', hop) := mtry next_response_hop m2 in
        match hop with
        | Ok oh =>
            let host0 := match oh with Some (h, _, _) => h | None => [] end in
            let port := match oh with Some (_, p, _) => p | None => 0%Z end in
            match (if has_prefix (s2b "[") host0
                   then (if (fx_bracket_host (e_fx e) && negb (has_suffix (s2b "]") host0 && Nat.leb 2 (List.length host0)))%bool
                         then Ok host0 else slice_chk host0 1 (List.length host0 - 1))
                   else Ok host0) with
            | Panic => (m', Panic)
            | Err => (m', Err)
            | Ok host =>
                match oh with
                | None => (m', Ok p)
                | Some _ =>
                    let '(m'', tid) := mtry s_client_transaction m' in
                    match tid with
                    | Ok (Some t) =>
                        let host_r := if fx_resolved_key (e_fx e)
                                      then match get_ip (e_cfg e) host with Some i => i | None => host end else host in
                        let '(p1, rk) := get_transport (now_s e) (s2b "tcp") host_r port t p in
                        match rk with
                        | Ok key => (m'', Ok (set_primary key (PConn c (now_s e + 3600)%Z) p1))
                        | _ => (m'', Ok p1)
                        end
                    | _ => (m'', Ok p)
                    end
                end
            end
        | _ => (m', Ok p)
        end
      else (m2, Ok p)
  | None => (m2, Ok p)
  end.
Definition pm_dialog (e : env) (peer : bytes) (peer_port : Z) (from : stransport) (m3 : message) (p1 : pstate)
  : message * pstate :=
  let m4 := fst (mtry (try_remove_top_route (e_cfg e) from) m3) in
  if is_response m4 then
    let '(m', r) := handle_dialog e peer peer_port p1 m4 in
    (m', match r with Ok p' => p' | _ => p1 end)
  else (m4, p1).
Definition pm_prefix (e : env) (peer : bytes) (peer_port : Z) (from : stransport) (rs : bool)
           (tcp : option nat) (m0 : message) (x : ctx) : res (message * ctx) :=
  let '(m1, l1) := pm_learn peer from m0 (x_p x) (x_learned x) in
  let '(m3, rp) := pm_conn e tcp (pm_stamp peer peer_port rs m1) (x_p x) in
  match rp with
  | Panic => Panic
  | Err => Err
  | Ok p1 =>
      let '(m5, p2) := pm_dialog e peer peer_port from m3 p1 in
      Ok (m5, {| x_learned := l1; x_p := p2; x_conns := x_conns x; x_world := x_world x; x_outs := x_outs x |})
  end.
Lemma process_message_prefix e peer pp from rs tcp m0 x :
  process_message e peer pp from rs tcp m0 x =
  let! (m5, x1) := pm_prefix e peer pp from rs tcp m0 x in Ok (fst (handle_message e from m5 x1)).
Proof.
  unfold process_message, pm_prefix, pm_learn, pm_stamp, pm_conn, pm_dialog. cbv zeta.
  destruct (if (is_request m0 && negb (amem peer (ps_backends (x_p x))))%bool then _ else _) as [m1 l1].
  destruct (match tcp with Some c => _ | None => _ end) as [m3 [p1| |]]; try reflexivity.
  destruct (if is_response _ then _ else _) as [m5 p2]. reflexivity.
Qed.
(* the message process_message serialises, if it gets that far *)
Definition pm_written (e : env) (peer : bytes) (pp : Z) (from : stransport) (rs : bool)
           (tcp : option nat) (m0 : message) (x : ctx) : option message :=
  match pm_prefix e peer pp from rs tcp m0 x with
  | Ok (m5, x1) => plan_written e (hm_plan e from m5 x1)
  | _ => None
  end.

(* ================================================================== Part 3b: the generic simulation *)
(* [R] relates the message of run 1 to the message of run 2.  The instance provides the
   primitive accesses (the hypotheses of the section); everything the proxy does with a message is derived. *)
Definition fits_opt (o : option message) : bool :=
  match o with Some w => fits_datagram (write_message w) | None => true end.

Section Sim.
  Variable R : message -> message -> Prop.

  Definition msim {A} (f : M A) : Prop :=
    forall m1 m2, R m1 m2 -> R (fst (f m1)) (fst (f m2)) /\ snd (f m1) = snd (f m2).
  Definition mpres (g : message -> message) : Prop := forall m1 m2, R m1 m2 -> R (g m1) (g m2).
  Definition mread {A} (g : message -> A) : Prop := forall m1 m2, R m1 m2 -> g m1 = g m2.

  Hypothesis H_start : mread m_start.
  Hypothesis H_cseq : msim s_get_cseq.
  Hypothesis H_from : msim s_get_from.
  Hypothesis H_to : msim s_get_to.
  Hypothesis H_call_id : mread (get_raw (s2b "Call-ID")).
  Hypothesis H_expires : mread (get_raw (s2b "Expires")).
  Hypothesis H_sub_state : mread (get_raw (s2b "Subscription-State")).
  Hypothesis H_top_via : msim s_top_via.
  Hypothesis H_pop_via : msim s_pop_via.
  Hypothesis H_set_received : forall peer port, msim (s_set_received peer port).
  Hypothesis H_all_vias : msim s_all_via_params.
  Hypothesis H_route_head : msim s_route_head.
  Hypothesis H_pop_route : msim s_pop_route.
  Hypothesis H_add_via : forall v, mpres (add_via v).
  Hypothesis H_add_rr : forall r, mpres (add_record_route r).
  Hypothesis H_has_rr : mread (has_header (s2b "Record-Route")).

  (* --- combinators --- *)
  Lemma msim_mret {A} (a : A) : msim (mret a).
  Proof. intros m1 m2 H. split; [exact H|reflexivity]. Qed.
  Lemma msim_merr {A} : msim (@merr A).
  Proof. intros m1 m2 H. split; [exact H|reflexivity]. Qed.
  Lemma msim_mlift {A} (r : res A) : msim (mlift r).
  Proof. intros m1 m2 H. split; [exact H|reflexivity]. Qed.
  Lemma msim_mbind {A B} (x : M A) (f : A -> M B) : msim x -> (forall a, msim (f a)) -> msim (mbind x f).
  Proof.
    intros Hx Hf m1 m2 H. unfold mbind. destruct (Hx m1 m2 H) as [HR Hr].
    destruct (x m1) as [m1' r1]. destruct (x m2) as [m2' r2]. cbn [fst snd] in HR, Hr. subst r2.
    destruct r1 as [a| |]; [apply Hf; exact HR|split; [exact HR|reflexivity]|split; [exact HR|reflexivity]].
  Qed.
  Lemma msim_mtry {A} (x : M A) : msim x -> msim (mtry x).
  Proof.
    intros Hx m1 m2 H. unfold mtry. destruct (Hx m1 m2 H) as [HR Hr].
    destruct (x m1) as [m1' r1]. destruct (x m2) as [m2' r2]. cbn [fst snd] in HR, Hr. subst r2.
    destruct r1 as [a| |]; (split; [exact HR|reflexivity]).
  Qed.
  Lemma msim_read {A} (g : message -> res A) : mread g -> msim (fun m => (m, g m)).
  Proof. intros Hg m1 m2 H. split; [exact H|]. cbn [snd]. apply Hg. exact H. Qed.
  Lemma msim_mmodify g : mpres g -> msim (mmodify g).
  Proof. intros Hg m1 m2 H. split; [apply Hg; exact H|reflexivity]. Qed.
  Lemma msim_ext {A} (x y : M A) : (forall m, x m = y m) -> msim y -> msim x.
  Proof. intros E Hy m1 m2 H. rewrite !E. apply Hy. exact H. Qed.

  (* --- reads of the start line --- *)
  Lemma mread_is_request : mread is_request.
  Proof. intros m1 m2 H. unfold is_request. rewrite (H_start _ _ H). reflexivity. Qed.
  Lemma mread_is_response : mread is_response.
  Proof. intros m1 m2 H. unfold is_response. rewrite (mread_is_request _ _ H). reflexivity. Qed.
  Lemma mread_is_final : mread is_final_response.
  Proof. intros m1 m2 H. unfold is_final_response. rewrite (H_start _ _ H). reflexivity. Qed.
  Lemma mread_is_my n from : mread (is_my_message n from).
  Proof. intros m1 m2 H. unfold is_my_message. rewrite (H_start _ _ H). reflexivity. Qed.
  Lemma mread_get_expires d : mread (fun m => get_expires m d).
  Proof. intros m1 m2 H. unfold get_expires, get_header_int. rewrite (H_expires _ _ H). reflexivity. Qed.

  (* --- the derived getters --- *)
  Lemma msim_s_get_method : msim s_get_method.
  Proof.
    intros m1 m2 H. unfold s_get_method. rewrite (H_start _ _ H).
    destruct (m_start m2); [split; [exact H|reflexivity]|].
    exact (msim_mbind _ _ H_cseq (fun c => msim_mret _) m1 m2 H).
  Qed.
  Lemma msim_s_client_transaction : msim s_client_transaction.
  Proof.
    apply msim_mbind; [exact H_cseq|]. intros c. apply msim_mbind; [exact H_top_via|]. intros v.
    apply msim_mbind; [apply msim_mlift|]. intros b. apply msim_mret.
  Qed.
  Lemma msim_s_get_dialog : msim s_get_dialog.
  Proof.
    apply msim_mbind; [exact (msim_read _ H_call_id)|]. intros cid.
    apply msim_mbind; [exact H_from|]. intros f. apply msim_mbind; [apply msim_mlift|]. intros ft.
    apply msim_mbind; [exact H_to|]. intros t. apply msim_mbind; [apply msim_mlift|]. intros tt. apply msim_mret.
  Qed.
  Lemma msim_next_response_hop : msim next_response_hop.
  Proof. apply msim_mbind; [exact H_top_via|]. intros v. destruct (via_get_received v); apply msim_mret. Qed.
  Lemma msim_next_hop_by_route keep : msim (next_hop_by_route keep).
  Proof.
    eapply msim_ext; [intros m; apply next_hop_by_route_head|].
    apply msim_mbind; [exact H_route_head|]. intros [rp|]; [|apply msim_merr].
    apply msim_mbind; [destruct keep; [apply msim_mret|apply msim_mtry, H_pop_route]|].
    intros _. destruct (na_addr (r_addr rp)); [apply msim_mret|apply msim_merr].
  Qed.
  Lemma msim_next_hop_by_config rt : msim (next_hop_by_config rt).
  Proof.
    apply msim_mbind; [exact H_to|]. intros t. destruct (fromto_host t) as [h|]; [|apply msim_merr].
    destruct (find_route rt h); [apply msim_mret|apply msim_merr].
  Qed.
  Lemma msim_next_request_hop keep rt : msim (next_request_hop keep rt).
  Proof.
    intros m1 m2 H. unfold next_request_hop. destruct (msim_next_hop_by_route keep m1 m2 H) as [HR Hr].
    destruct (next_hop_by_route keep m1) as [m1' r1]. destruct (next_hop_by_route keep m2) as [m2' r2].
    cbn [fst snd] in HR, Hr. subst r2.
    destruct r1 as [v| |]; [split; [exact HR|reflexivity]|apply msim_next_hop_by_config; exact HR|split; [exact HR|reflexivity]].
  Qed.
  Lemma msim_try_remove_top_route c from : msim (try_remove_top_route c from).
  Proof.
    eapply msim_ext; [intros m; apply try_remove_top_route_head|].
    apply msim_mbind; [exact H_route_head|]. intros [rp|]; [|apply msim_mret].
    destruct (na_addr (r_addr rp)); [|apply msim_mret].
    destruct (_ && _)%bool; [exact H_pop_route|apply msim_mret].
  Qed.
  Lemma msim_find_backend_by_dialog e p : msim (find_backend_by_dialog e p).
  Proof.
    apply msim_mbind; [exact msim_s_get_method|]. intros meth.
    destruct (_ && _)%bool; [apply msim_mret|].
    apply msim_mbind; [apply msim_mtry, msim_s_get_dialog|]. intros [d|]; [|apply msim_mret].
    destruct (pins_get (e_now e) d (ps_pins p)) as [pins1 ob]. cbv zeta.
    destruct (_ && _)%bool; [apply msim_mret|].
    apply msim_mbind; [apply msim_mtry; exact (msim_read _ H_sub_state)|]. intros ss. apply msim_mret.
  Qed.
  Lemma msim_handle_dialog e peer pp p : msim (handle_dialog e peer pp p).
  Proof.
    unfold handle_dialog. apply msim_mbind.
    - destruct (alookup _ (ps_backends p)); [apply msim_mret|].
      apply msim_mbind; [exact msim_s_client_transaction|]. intros tid.
      destruct (pins_get (e_now e) tid (ps_pins p)) as [pins1 ob].
      apply msim_mbind; [exact (msim_read (fun m => Ok (is_final_response m)) (fun m1 m2 H => f_equal Ok (mread_is_final m1 m2 H)))|].
      intros fin. apply msim_mret.
    - intros [p1 [b|]]; [|apply msim_mret].
      apply msim_mbind; [apply msim_mtry, msim_s_get_method|]. intros [meth|]; [|apply msim_mret].
      destruct (beq meth (s2b "INVITE")).
      + apply msim_mbind; [apply msim_mtry, msim_s_get_dialog|]. intros od.
        apply msim_mbind; [exact (msim_read (fun m => Ok (get_expires m 0)) (fun m1 m2 H => f_equal Ok (mread_get_expires 0 m1 m2 H)))|].
        intros ex. destruct od; apply msim_mret.
      + destruct (beq meth (s2b "BYE")); [|apply msim_mret].
        apply msim_mbind; [apply msim_mtry, msim_s_get_dialog|]. intros od. destruct od; apply msim_mret.
  Qed.
  Lemma mpres_px_add_via e t : mpres (px_add_via e t).
  Proof. intros m1 m2 H. apply H_add_via. exact H. Qed.
  Lemma mpres_px_add_record_route must t : mpres (px_add_record_route must t).
  Proof.
    intros m1 m2 H. unfold px_add_record_route. rewrite (H_has_rr _ _ H).
    destruct (_ && _)%bool; [exact H|apply H_add_rr; exact H].
  Qed.

  (* --- contexts and outputs --- *)
  Definition pay_rel (b1 b2 : bytes) : Prop :=
    b1 = b2 \/ exists w1 w2, R w1 w2 /\ b1 = write_message w1 /\ b2 = write_message w2.
  Definition out_rel (o1 o2 : output) : Prop := fst o1 = fst o2 /\ pay_rel (snd o1) (snd o2).
  Definition outs_rel : list output -> list output -> Prop := Forall2 out_rel.
  Definition ctx_rel (x1 x2 : ctx) : Prop :=
    x_learned x1 = x_learned x2 /\ x_p x1 = x_p x2 /\ x_conns x1 = x_conns x2 /\ x_world x1 = x_world x2 /\
    outs_rel (x_outs x1) (x_outs x2).
  Definition res_ctx_rel (r1 r2 : res ctx) : Prop :=
    match r1, r2 with
    | Ok a, Ok b => ctx_rel a b
    | Err, Err => True
    | Panic, Panic => True
    | _, _ => False
    end.

  Lemma outs_rel_refl o : outs_rel o o.
  Proof. induction o as [|a r IH]; constructor; [split; [reflexivity|left; reflexivity]|exact IH]. Qed.
  Lemma ctx_rel_refl x : ctx_rel x x.
  Proof. repeat split; try reflexivity. apply outs_rel_refl. Qed.
  Lemma ctx_rel_mk l p cs w o1 o2 : outs_rel o1 o2 -> ctx_rel (mk_ctx l p cs w o1) (mk_ctx l p cs w o2).
  Proof. intros H. repeat split; try reflexivity. exact H. Qed.
  Lemma out_rel_same d b1 b2 : pay_rel b1 b2 -> out_rel (d, b1) (d, b2).
  Proof. intros H. split; [reflexivity|exact H]. Qed.

  Lemma tcp_client_send_sim b1 b2 : pay_rel b1 b2 -> forall n li local rs id p cs w outs1 outs2,
    outs_rel outs1 outs2 ->
    exists p' cs' w' ok o1 o2,
      tcp_client_send n li local rs id b1 p cs w outs1 = (p', cs', w', o1, ok) /\
      tcp_client_send n li local rs id b2 p cs w outs2 = (p', cs', w', o2, ok) /\ outs_rel o1 o2.
  Proof.
    intros Hb. induction n as [|n IH]; intros li local rs id p cs w outs1 outs2 Ho; cbn [tcp_client_send].
    - do 6 eexists. split; [reflexivity|]. split; [reflexivity|exact Ho].
    - destruct (find_client id (ps_clients p)) as [cl|]; [|do 6 eexists; split; [reflexivity|]; split; [reflexivity|exact Ho]].
      destruct (tc_cached cl) as [c|].
      + destruct (conn_open cs c).
        * do 6 eexists. split; [reflexivity|]. split; [reflexivity|].
          apply Forall2_app; [exact Ho|]. constructor; [apply out_rel_same; exact Hb|constructor].
        * apply IH. exact Ho.
      + destruct (existsb _ (w_tcp_listeners w)); [|do 6 eexists; split; [reflexivity|]; split; [reflexivity|exact Ho]].
        do 6 eexists. split; [reflexivity|]. split; [reflexivity|].
        apply Forall2_app; [exact Ho|].
        constructor; [apply out_rel_same; left; reflexivity|].
        constructor; [apply out_rel_same; exact Hb|constructor].
  Qed.

  Lemma failover_send_sim li local rs f b1 b2 p cs w :
    fits_datagram b1 = fits_datagram b2 -> pay_rel b1 b2 ->
    exists p' cs' w' ok f' o1 o2,
      failover_send li local rs f b1 p cs w = (p', cs', w', o1, ok, f') /\
      failover_send li local rs f b2 p cs w = (p', cs', w', o2, ok, f') /\ outs_rel o1 o2.
  Proof.
    intros Hf Hb. unfold failover_send. rewrite Hf.
    assert (T : forall f1,
      exists p' cs' w' ok f' o1 o2,
        match fo_sec f1 with
        | Some id => let '(p2, cs2, w2, outs2, ok) := tcp_client_send 2 li local rs id b1 p cs w [] in
                     (p2, cs2, w2, outs2, ok, f1)
        | None => (p, cs, w, [], false, f1)
        end = (p', cs', w', o1, ok, f') /\
        match fo_sec f1 with
        | Some id => let '(p2, cs2, w2, outs2, ok) := tcp_client_send 2 li local rs id b2 p cs w [] in
                     (p2, cs2, w2, outs2, ok, f1)
        | None => (p, cs, w, [], false, f1)
        end = (p', cs', w', o2, ok, f') /\ outs_rel o1 o2).
    { intros f1. destruct (fo_sec f1) as [id|].
      - destruct (tcp_client_send_sim b1 b2 Hb 2 li local rs id p cs w [] [] (Forall2_nil _))
          as (p' & cs' & w' & ok & o1 & o2 & E1 & E2 & Ho).
        rewrite E1, E2. do 7 eexists. split; [reflexivity|]. split; [reflexivity|exact Ho].
      - do 7 eexists. split; [reflexivity|]. split; [reflexivity|constructor]. }
    assert (S1 : forall d, exists p' cs' w' ok f' o1 o2,
       (p, cs, w, [(d, b1)], true, f) = (p', cs', w', o1, ok, f') /\
       (p, cs, w, [(d, b2)], true, f) = (p', cs', w', o2, ok, f') /\ outs_rel o1 o2).
    { intros d. do 7 eexists. split; [reflexivity|]. split; [reflexivity|].
      constructor; [apply out_rel_same; exact Hb|constructor]. }
    destruct (fo_pri f) as [[ip port|ip port|c ex]|].
    - destruct (fits_datagram b2); [apply S1|apply T].
    - destruct (fits_datagram b2); [apply S1|apply T].
    - destruct (conn_open cs c); [apply S1|apply T].
    - apply T.
  Qed.

  Lemma backend_send_sim b b1 b2 p :
    fits_datagram b1 = fits_datagram b2 -> pay_rel b1 b2 ->
    exists p' ok o1 o2,
      backend_send b b1 p = (p', o1, ok) /\ backend_send b b2 p = (p', o2, ok) /\ outs_rel o1 o2.
  Proof.
    intros Hf Hb. unfold backend_send. rewrite Hf.
    assert (T : forall a, outs_rel
       (match last_index_byte ":"%char a with
        | Some pos => [(DUdp (firstn pos a) (atoi_val (skipn (S pos) a)), b1)] | None => [] end)
       (match last_index_byte ":"%char a with
        | Some pos => [(DUdp (firstn pos a) (atoi_val (skipn (S pos) a)), b2)] | None => [] end)).
    { intros a. destruct (last_index_byte ":"%char a); constructor; [apply out_rel_same; exact Hb|constructor]. }
    destruct b as [a g|].
    - destruct (_ && _)%bool; do 4 eexists; (split; [reflexivity|]; split; [reflexivity|]); [apply T|constructor].
    - destruct (rr_dispatch (ps_rr p)) as [r' [a|]].
      + destruct (fits_datagram b2); do 4 eexists; (split; [reflexivity|]; split; [reflexivity|]); [apply T|constructor].
      + do 4 eexists. split; [reflexivity|]. split; [reflexivity|constructor].
  Qed.

  Lemma send_core_sim e host port tr tid fin b1 b2 x1 x2 :
    fits_datagram b1 = fits_datagram b2 -> pay_rel b1 b2 -> ctx_rel x1 x2 ->
    ctx_rel (send_core e host port tr tid fin b1 x1) (send_core e host port tr tid fin b2 x2).
  Proof.
    intros Hf Hb (Hl & Hp & Hc & Hw & Ho). unfold send_core. rewrite Hl, Hp, Hc, Hw.
    destruct (get_transport _ _ _ _ _ (x_p x2)) as [p1 [key| |]]; try (apply ctx_rel_mk; exact Ho).
    match goal with |- context [alookup key (ps_table ?P)] =>
      match P with p1 => fail 1 | _ => set (p2 := P) end end.
    destruct (alookup key (ps_table p2)) as [f|]; [|apply ctx_rel_mk; exact Ho].
    match goal with |- context [failover_send ?a ?b ?c f b1 ?p ?cs ?w] =>
      destruct (failover_send_sim a b c f b1 b2 p cs w Hf Hb) as (p' & cs' & w' & ok & f' & o1 & o2 & E1 & E2 & Ho') end.
    rewrite E1, E2. apply ctx_rel_mk. apply Forall2_app; assumption.
  Qed.

  Lemma send_message_sim e host port tr m1 m2 x1 x2 : R m1 m2 -> ctx_rel x1 x2 ->
    R (fst (mtry s_client_transaction m1)) (fst (mtry s_client_transaction m2)) /\
    (fits_datagram (write_message (fst (mtry s_client_transaction m1))) =
     fits_datagram (write_message (fst (mtry s_client_transaction m2))) ->
     ctx_rel (fst (send_message e host port tr m1 x1)) (fst (send_message e host port tr m2 x2))).
  Proof.
    intros H Hx. destruct (msim_mtry _ msim_s_client_transaction m1 m2 H) as [HR Hr]. split; [exact HR|].
    intros Hf. rewrite !send_message_core. cbn [fst]. rewrite Hr, (mread_is_final _ _ HR).
    apply send_core_sim; [exact Hf| |exact Hx]. right. eexists; eexists. split; [exact HR|]. split; reflexivity.
  Qed.

  Definition prep_rel (o1 o2 : option (message * pstate * bref)) : Prop :=
    match o1, o2 with
    | Some (a1, p1, b1), Some (a2, p2, b2) => R a1 a2 /\ p1 = p2 /\ b1 = b2
    | None, None => True
    | _, _ => False
    end.
  Lemma stb_prep_sim e m1 m2 x1 x2 : R m1 m2 -> ctx_rel x1 x2 -> prep_rel (stb_prep e m1 x1) (stb_prep e m2 x2).
  Proof.
    intros H (Hl & Hp & Hc & Hw & Ho). unfold stb_prep. rewrite Hp.
    destruct (negb (ps_has_rr (x_p x2))); [exact I|]. destruct (first_transport (e_lc e)) as [t0|]; [|exact I].
    destruct (msim_find_backend_by_dialog e (x_p x2) m1 m2 H) as [HR Hr].
    destruct (find_backend_by_dialog e (x_p x2) m1) as [m1' r1]. destruct (find_backend_by_dialog e (x_p x2) m2) as [m2' r2].
    cbn [fst snd] in HR, Hr. subst r2.
    destruct (match r1 with Ok v => v | _ => (x_p x2, None) end) as [p1 ob]. cbn.
    split; [|split; reflexivity]. apply mpres_px_add_record_route, mpres_px_add_via. exact HR.
  Qed.
  Lemma stb_finish_sim e a1 a2 p b x1 x2 : R a1 a2 -> ctx_rel x1 x2 ->
    fits_datagram (write_message a1) = fits_datagram (write_message a2) ->
    ctx_rel (stb_finish e a1 p b x1) (stb_finish e a2 p b x2).
  Proof.
    intros H (Hl & Hp & Hc & Hw & Ho) Hf. unfold stb_finish. rewrite Hl, Hc, Hw.
    assert (Hb : pay_rel (write_message a1) (write_message a2)).
    { right. eexists; eexists. split; [exact H|]. split; reflexivity. }
    destruct (backend_send_sim b _ _ p Hf Hb) as (p' & ok & o1 & o2 & E1 & E2 & Ho'). rewrite E1, E2.
    destruct ok; [|apply ctx_rel_mk; exact Ho].
    destruct (msim_mtry _ msim_s_client_transaction a1 a2 H) as [HR Hr].
    destruct (mtry s_client_transaction a1) as [m3a tid1]. destruct (mtry s_client_transaction a2) as [m3b tid2].
    cbn [fst snd] in HR, Hr. subst tid2. rewrite (mread_get_expires 0%Z _ _ HR).
    apply ctx_rel_mk. apply Forall2_app; assumption.
  Qed.

  Inductive plan_rel : plan -> plan -> Prop :=
  | PRSend h p t m1 m2 x1 x2 : R m1 m2 -> ctx_rel x1 x2 -> plan_rel (PSend h p t m1 x1) (PSend h p t m2 x2)
  | PRBackend m1 m2 x1 x2 : R m1 m2 -> ctx_rel x1 x2 -> plan_rel (PBackend m1 x1) (PBackend m2 x2)
  | PRNone m1 m2 x1 x2 : R m1 m2 -> ctx_rel x1 x2 -> plan_rel (PNone m1 x1) (PNone m2 x2).

  Lemma run_plan_sim e pl1 pl2 : plan_rel pl1 pl2 ->
    opt_rel R (plan_written e pl1) (plan_written e pl2) /\
    (fits_opt (plan_written e pl1) = fits_opt (plan_written e pl2) ->
     ctx_rel (fst (run_plan e pl1)) (fst (run_plan e pl2))).
  Proof.
    intros [h p t m1 m2 x1 x2 H Hx|m1 m2 x1 x2 H Hx|m1 m2 x1 x2 H Hx]; cbn [plan_written run_plan fits_opt opt_rel].
    - apply send_message_sim; assumption.
    - rewrite !send_to_backend_split. pose proof (stb_prep_sim e m1 m2 x1 x2 H Hx) as Hp.
      destruct (stb_prep e m1 x1) as [[[a1 p1] b1]|]; destruct (stb_prep e m2 x2) as [[[a2 p2] b2]|]; cbn in Hp; try contradiction.
      + destruct Hp as (Ha & -> & ->). cbn. split; [exact Ha|]. intros Hf. apply stb_finish_sim; assumption.
      + cbn. split; [exact I|]. intros _. exact Hx.
    - split; [exact I|]. intros _. exact Hx.
  Qed.

  Lemma hm_plan_sim e from m1 m2 x1 x2 : R m1 m2 -> ctx_rel x1 x2 ->
    plan_rel (hm_plan e from m1 x1) (hm_plan e from m2 x2).
  Proof.
    intros H Hx. pose proof Hx as (Hl & Hp & Hc & Hw & Ho). unfold hm_plan. rewrite (mread_is_request _ _ H).
    destruct (is_request m2).
    - destruct (msim_next_request_hop (c_keep_next_hop (e_cfg e)) (route_table_of (e_cfg e)) m1 m2 H) as [HR Hr].
      destruct (next_request_hop _ _ m1) as [m1' r1]. destruct (next_request_hop _ _ m2) as [m2' r2].
      cbn [fst snd] in HR, Hr. subst r2.
      destruct r1 as [[[host port] tr]| |].
      + constructor; [|exact Hx]. rewrite Hl. destruct (alookup host (x_learned x2)) as [t|]; [|exact HR].
        apply mpres_px_add_record_route, mpres_px_add_via. exact HR.
      + rewrite (mread_is_my _ from _ _ HR). destruct (is_my_message _ from m2'); constructor; assumption.
      + rewrite (mread_is_my _ from _ _ HR). destruct (is_my_message _ from m2'); constructor; assumption.
    - destruct (msim_mtry _ H_pop_via m1 m2 H) as [HR1 Hr1].
      destruct (mtry s_pop_via m1) as [m1a r1]. destruct (mtry s_pop_via m2) as [m1b r1']. cbn [fst snd] in HR1, Hr1. clear Hr1.
      destruct (msim_mtry _ msim_next_response_hop m1a m1b HR1) as [HR2 Hr2].
      destruct (mtry next_response_hop m1a) as [m2a hop]. destruct (mtry next_response_hop m1b) as [m2b hop'].
      cbn [fst snd] in HR2, Hr2. subst hop'.
      destruct (msim_mtry _ msim_s_get_method m2a m2b HR2) as [HR3 Hr3].
      destruct (mtry s_get_method m2a) as [m3a ometh]. destruct (mtry s_get_method m2b) as [m3b ometh'].
      cbn [fst snd] in HR3, Hr3. subst ometh'. rewrite Hl, Hp, Hc, Hw.
      assert (X0 : forall p, ctx_rel {| x_learned := x_learned x2; x_p := p; x_conns := x_conns x2; x_world := x_world x2; x_outs := x_outs x1 |}
                                     {| x_learned := x_learned x2; x_p := p; x_conns := x_conns x2; x_world := x_world x2; x_outs := x_outs x2 |}).
      { intros p. repeat split; try reflexivity. exact Ho. }
      destruct hop as [[[[host port] tr]|]| |]; try (constructor; [exact HR3|apply X0]).
      destruct ometh as [[meth|]| |]; try (constructor; [exact HR3|apply X0]).
      destruct (beq meth (s2b "SUBSCRIBE")); [|constructor; [exact HR3|apply X0]].
      destruct (alookup _ (ps_backends (x_p x2))) as [g|]; [|constructor; [exact HR3|apply X0]].
      destruct (msim_mtry _ msim_s_get_dialog m3a m3b HR3) as [HR4 Hr4].
      destruct (mtry s_get_dialog m3a) as [m4a od]. destruct (mtry s_get_dialog m3b) as [m4b od'].
      cbn [fst snd] in HR4, Hr4. subst od'. rewrite (mread_get_expires 0%Z _ _ HR4).
      destruct od as [[d|]| |]; constructor; try exact HR4; apply X0.
  Qed.

  Definition pair_sim {A} (r1 r2 : message * A) : Prop := R (fst r1) (fst r2) /\ snd r1 = snd r2.

  Lemma pm_learn_sim peer from p l m1 m2 : R m1 m2 -> pair_sim (pm_learn peer from m1 p l) (pm_learn peer from m2 p l).
  Proof.
    intros H. unfold pm_learn. rewrite (mread_is_request _ _ H).
    destruct (_ && _)%bool; [|split; [exact H|reflexivity]].
    destruct (H_all_vias m1 m2 H) as [HR Hr].
    destruct (s_all_via_params m1) as [ma vs]. destruct (s_all_via_params m2) as [mb vs']. cbn [fst snd] in HR, Hr. subst vs'.
    split; [exact HR|reflexivity].
  Qed.
  Lemma pm_stamp_sim peer pp rs : mpres (pm_stamp peer pp rs).
  Proof.
    intros m1 m2 H. unfold pm_stamp. rewrite (mread_is_request _ _ H).
    destruct (_ && _)%bool; [apply H_set_received; exact H|exact H].
  Qed.
  Lemma pm_conn_sim e tcp p m1 m2 : R m1 m2 -> pair_sim (pm_conn e tcp m1 p) (pm_conn e tcp m2 p).
  Proof.
    intros H. unfold pm_conn. destruct tcp as [c|]; [|split; [exact H|reflexivity]].
    rewrite (mread_is_request _ _ H). destruct (is_request m2); [|split; [exact H|reflexivity]].
    destruct (msim_mtry _ msim_next_response_hop m1 m2 H) as [HR3 Hr3].
    destruct (mtry next_response_hop m1) as [m' hop]. destruct (mtry next_response_hop m2) as [mb' hop'].
    cbn [fst snd] in HR3, Hr3. subst hop'.
    destruct hop as [oh| |]; try (split; [exact HR3|reflexivity]).
    cbv zeta.
    destruct (if has_prefix (s2b "[") _ then _ else _) as [host| |]; try (split; [exact HR3|reflexivity]).
    destruct oh as [[[h0 p0] t0]|]; [|split; [exact HR3|reflexivity]].
    destruct (msim_mtry _ msim_s_client_transaction m' mb' HR3) as [HR4 Hr4].
    destruct (mtry s_client_transaction m') as [m'' tid]. destruct (mtry s_client_transaction mb') as [mb'' tid'].
    cbn [fst snd] in HR4, Hr4. subst tid'.
    destruct tid as [[t|]| |]; try (split; [exact HR4|reflexivity]).
    destruct (get_transport _ _ _ _ _ _) as [p1 [key| |]]; (split; [exact HR4|reflexivity]).
  Qed.
  Lemma pm_dialog_sim e peer pp from p m1 m2 : R m1 m2 ->
    pair_sim (pm_dialog e peer pp from m1 p) (pm_dialog e peer pp from m2 p).
  Proof.
    intros H. unfold pm_dialog. cbv zeta.
    destruct (msim_mtry _ (msim_try_remove_top_route (e_cfg e) from) m1 m2 H) as [HR4 _].
    set (m4a := fst (mtry (try_remove_top_route (e_cfg e) from) m1)) in *.
    set (m4b := fst (mtry (try_remove_top_route (e_cfg e) from) m2)) in *. clearbody m4a m4b.
    rewrite (mread_is_response _ _ HR4). destruct (is_response m4b); [|split; [exact HR4|reflexivity]].
    destruct (msim_handle_dialog e peer pp p m4a m4b HR4) as [HR5 Hr5].
    destruct (handle_dialog e peer pp p m4a) as [m5a r]. destruct (handle_dialog e peer pp p m4b) as [m5b r'].
    cbn [fst snd] in HR5, Hr5. subst r'. split; [exact HR5|reflexivity].
  Qed.

  Definition prefix_rel (r1 r2 : res (message * ctx)) : Prop :=
    match r1, r2 with
    | Ok (a, x), Ok (b, y) => R a b /\ ctx_rel x y
    | Err, Err => True
    | Panic, Panic => True
    | _, _ => False
    end.

  Lemma pm_prefix_sim e peer pp from rs tcp m1 m2 x1 x2 : R m1 m2 -> ctx_rel x1 x2 ->
    prefix_rel (pm_prefix e peer pp from rs tcp m1 x1) (pm_prefix e peer pp from rs tcp m2 x2).
  Proof.
    intros H (Hl & Hp & Hc & Hw & Ho). unfold pm_prefix. rewrite Hl, Hp, Hc, Hw.
    destruct (pm_learn_sim peer from (x_p x2) (x_learned x2) m1 m2 H) as [HR1 Hr1].
    destruct (pm_learn peer from m1 (x_p x2) (x_learned x2)) as [ma l]. destruct (pm_learn peer from m2 (x_p x2) (x_learned x2)) as [mb l'].
    cbn [fst snd] in HR1, Hr1. subst l'.
    destruct (pm_conn_sim e tcp (x_p x2) _ _ (pm_stamp_sim peer pp rs ma mb HR1)) as [HR3 Hr3].
    destruct (pm_conn e tcp (pm_stamp peer pp rs ma) (x_p x2)) as [m3a rp]. destruct (pm_conn e tcp (pm_stamp peer pp rs mb) (x_p x2)) as [m3b rp'].
    cbn [fst snd] in HR3, Hr3. subst rp'.
    destruct rp as [p1| |]; cbn [prefix_rel]; try exact I.
    destruct (pm_dialog_sim e peer pp from p1 m3a m3b HR3) as [HR5 Hr5].
    destruct (pm_dialog e peer pp from m3a p1) as [m5a p2]. destruct (pm_dialog e peer pp from m3b p1) as [m5b p2'].
    cbn [fst snd] in HR5, Hr5. subst p2'. split; [exact HR5|]. repeat split; try reflexivity. exact Ho.
  Qed.

  (* the whole of process_message: the serialised messages are related, and if they fall on the
     same side of the datagram limit, so is everything else *)
  Theorem process_message_sim e peer pp from rs tcp m1 m2 x1 x2 : R m1 m2 -> ctx_rel x1 x2 ->
    opt_rel R (pm_written e peer pp from rs tcp m1 x1) (pm_written e peer pp from rs tcp m2 x2) /\
    (fits_opt (pm_written e peer pp from rs tcp m1 x1) = fits_opt (pm_written e peer pp from rs tcp m2 x2) ->
     res_ctx_rel (process_message e peer pp from rs tcp m1 x1) (process_message e peer pp from rs tcp m2 x2)).
  Proof.
    intros H Hx. rewrite !process_message_prefix. unfold pm_written.
    pose proof (pm_prefix_sim e peer pp from rs tcp m1 m2 x1 x2 H Hx) as P.
    destruct (pm_prefix e peer pp from rs tcp m1 x1) as [[m5a xa]| |];
      destruct (pm_prefix e peer pp from rs tcp m2 x2) as [[m5b xb]| |]; cbn [prefix_rel] in P; try contradiction;
      cbn [rbind res_ctx_rel opt_rel]; try (split; [exact I|intros _; exact I]).
    destruct P as [HR Hxx]. rewrite !handle_message_plan.
    apply run_plan_sim. apply hm_plan_sim; assumption.
  Qed.
End Sim.

(* ================================================================== Part 4: respelling, the instance *)
Lemma set_val_rel name v m1 m2 : respelled m1 m2 -> respelled (set_val name v m1) (set_val name v m2).
Proof. intros (H1 & H2 & H3). split; [exact H1|]. split; [exact H2|]. apply update_header_rel. exact H3. Qed.
Lemma remove_rel name m1 m2 : respelled m1 m2 ->
  respelled (with_headers m1 (remove_header name (m_headers m1))) (with_headers m2 (remove_header name (m_headers m2))).
Proof. intros (H1 & H2 & H3). split; [exact H1|]. split; [exact H2|]. apply remove_header_rel. exact H3. Qed.

(* g. every typed getter returns the same value and leaves respelled messages *)
Lemma typed_get_rel {A} name (proj : hval -> option A) parse inj : msim respelled (typed_get name proj parse inj).
Proof.
  intros m1 m2 H. unfold typed_get. pose proof H as (H1 & H2 & H3).
  pose proof (get_header_rel name _ _ H3) as G.
  destruct (get_header name (m_headers m1)) as [h1|]; destruct (get_header name (m_headers m2)) as [h2|];
    cbn [opt_rel] in G; try contradiction; [|split; [exact H|reflexivity]].
  destruct G as [_ Gv]. rewrite Gv. destruct (proj (h_val h2)); [split; [exact H|reflexivity]|].
  destruct (h_val h2); try (split; [exact H|reflexivity]).
  destruct (parse s); cbn [fst snd]; (split; [|reflexivity]); [apply set_val_rel; exact H|exact H|exact H].
Qed.
Lemma get_raw_rel name : mread respelled (get_raw name).
Proof.
  intros m1 m2 (H1 & H2 & H3). unfold get_raw. pose proof (get_header_rel name _ _ H3) as G.
  destruct (get_header name (m_headers m1)) as [h1|]; destruct (get_header name (m_headers m2)) as [h2|];
    cbn [opt_rel] in G; try contradiction; [|reflexivity].
  destruct G as [_ Gv]. rewrite Gv. reflexivity.
Qed.
Lemma has_header_rel name : mread respelled (has_header name).
Proof.
  intros m1 m2 (H1 & H2 & H3). unfold has_header. pose proof (get_header_rel name _ _ H3) as G.
  destruct (get_header name (m_headers m1)); destruct (get_header name (m_headers m2)); cbn [opt_rel] in G; try contradiction; reflexivity.
Qed.
Lemma respelled_top_via : msim respelled s_top_via.
Proof. apply msim_mbind; [apply typed_get_rel|]. intros [|v r]; [apply msim_merr|apply msim_mret]. Qed.
Lemma respelled_pop_via : msim respelled s_pop_via.
Proof.
  apply msim_mbind; [apply typed_get_rel|].
  intros [|a [|b r]]; apply msim_mmodify; intros m1 m2 H; first [apply remove_rel; exact H|apply set_val_rel; exact H].
Qed.
Lemma respelled_pop_route : msim respelled s_pop_route.
Proof.
  apply msim_mbind; [apply typed_get_rel|].
  intros [|a [|b r]]; apply msim_mmodify; intros m1 m2 H; first [apply remove_rel; exact H|apply set_val_rel; exact H].
Qed.
Lemma respelled_set_received peer port : msim respelled (s_set_received peer port).
Proof.
  apply msim_mbind; [apply typed_get_rel|]. intros [|v r]; [apply msim_merr|].
  apply msim_mmodify. intros m1 m2 H. apply set_val_rel. exact H.
Qed.
Lemma respelled_all_vias : msim respelled s_all_via_params.
Proof.
  intros m1 m2 (H1 & H2 & H3). unfold s_all_via_params. destruct (decode_all_vias_rel _ _ H3) as [D1 D2].
  destruct (decode_all_vias (m_headers m1)) as [hs1 vs1]. destruct (decode_all_vias (m_headers m2)) as [hs2 vs2].
  cbn [fst snd] in *. subst vs2. split; [|reflexivity]. split; [exact H1|]. split; [exact H2|exact D1].
Qed.
Lemma respelled_route_head : msim respelled s_route_head.
Proof. apply msim_mbind; [apply typed_get_rel|]. intros l. apply msim_mret. Qed.
Lemma respelled_add_via v : mpres respelled (add_via v).
Proof.
  intros m1 m2 (H1 & H2 & H3). unfold add_via. rewrite (find_header_pos_rel _ _ _ H3).
  split; [exact H1|]. split; [exact H2|]. apply insert_at_rel; [apply hdr_rel_refl|exact H3].
Qed.
Lemma find_record_route_pos_rel hs1 hs2 : hs_rel hs1 hs2 -> find_record_route_pos hs1 = find_record_route_pos hs2.
Proof. intros H. unfold find_record_route_pos. rewrite !(find_header_pos_rel _ _ _ H). reflexivity. Qed.
Lemma respelled_add_rr r : mpres respelled (add_record_route r).
Proof.
  intros m1 m2 (H1 & H2 & H3). unfold add_record_route. rewrite (find_record_route_pos_rel _ _ H3).
  split; [exact H1|]. split; [exact H2|]. apply insert_at_rel; [apply hdr_rel_refl|exact H3].
Qed.
Lemma respelled_start : mread respelled m_start.
Proof. intros m1 m2 (H1 & _). exact H1. Qed.

(* what "related outputs" means for two respelled messages: same start line, same body, the
   same header values in the same order under names with the same full form, and exactly one
   Content-Length in each *)
Theorem C17_written_respelled : forall w1 w2, respelled w1 w2 ->
  write_message w1 = start_line_print (m_start w1) ++ crlf ++ flat_map header_print (out_headers w1) ++ crlf ++ m_body w1 /\
  write_message w2 = start_line_print (m_start w1) ++ crlf ++ flat_map header_print (out_headers w2) ++ crlf ++ m_body w1 /\
  hs_rel (out_headers w1) (out_headers w2) /\
  List.length (filter (fun h => same_header (h_name h) (s2b "Content-Length")) (out_headers w1)) = 1 /\
  List.length (filter (fun h => same_header (h_name h) (s2b "Content-Length")) (out_headers w2)) = 1.
Proof.
  intros w1 w2 H. pose proof H as (H1 & H2 & H3).
  split; [apply write_message_out_headers|]. split; [rewrite H1, H2; apply write_message_out_headers|].
  split; [apply out_headers_rel; exact H|]. split; apply C17_one_content_length.
Qed.

(* h. the whole per-message pipeline, for every fix set, environment, state and message:
   the two serialised messages are respellings of each other; if they fall on the same side of
   the UDP datagram limit (the proxy's behaviour depends on the serialised LENGTH, which a
   respelling changes), then the learned table, the pins / transport table / rotation (x_p),
   the connections and the world are EQUAL, and the outputs go pairwise to the same destinations
   with payloads that are serialisations of respelled messages *)
Theorem C17_respell_invariance : forall e peer pp from rs tcp m1 m2 x1 x2,
  respelled m1 m2 -> ctx_rel respelled x1 x2 ->
  opt_rel respelled (pm_written e peer pp from rs tcp m1 x1) (pm_written e peer pp from rs tcp m2 x2) /\
  (fits_opt (pm_written e peer pp from rs tcp m1 x1) = fits_opt (pm_written e peer pp from rs tcp m2 x2) ->
   res_ctx_rel respelled (process_message e peer pp from rs tcp m1 x1) (process_message e peer pp from rs tcp m2 x2)).
Proof.
  apply (process_message_sim respelled).
  - exact respelled_start.
  - apply typed_get_rel.
  - apply typed_get_rel.
  - apply typed_get_rel.
  - apply get_raw_rel.
  - apply get_raw_rel.
  - apply get_raw_rel.
  - exact respelled_top_via.
  - exact respelled_pop_via.
  - exact respelled_set_received.
  - exact respelled_all_vias.
  - exact respelled_route_head.
  - exact respelled_pop_route.
  - exact respelled_add_via.
  - exact respelled_add_rr.
  - apply has_header_rel.
Qed.

(* the same for a respelling FUNCTION and one state *)
Corollary C17_respell_invariance_fun : forall s e peer pp from rs tcp m x, spelling s ->
  opt_rel respelled (pm_written e peer pp from rs tcp (respell s m) x) (pm_written e peer pp from rs tcp m x) /\
  (fits_opt (pm_written e peer pp from rs tcp (respell s m) x) = fits_opt (pm_written e peer pp from rs tcp m x) ->
   res_ctx_rel respelled (process_message e peer pp from rs tcp (respell s m) x) (process_message e peer pp from rs tcp m x)).
Proof.
  intros s e peer pp from rs tcp m x Hs. apply C17_respell_invariance; [apply respell_respelled; exact Hs|apply ctx_rel_refl].
Qed.

(* ================================================================== Part 5: re-layout *)
(* A list-valued routing header (Via, Route) may be cut into header lines in any way.  [kind]
   abstracts the two list headers the proxy decodes. *)
Record kind (A : Type) : Type :=
  { k_name : bytes; k_proj : hval -> option (list A); k_parse : bytes -> res (list A); k_inj : list A -> hval }.
Arguments k_name {A} _.
Arguments k_proj {A} _ _.
Arguments k_parse {A} _ _.
Arguments k_inj {A} _ _.
Definition via_kind : kind via_param :=
  {| k_name := s2b "Via"; k_proj := fun v => match v with HVia l => Some l | _ => None end;
     k_parse := parse_via; k_inj := HVia |}.
Definition route_kind : kind route_param :=
  {| k_name := s2b "Route"; k_proj := fun v => match v with HRoute l => Some l | _ => None end;
     k_parse := parse_route; k_inj := HRoute |}.
Definition kget {A} (K : kind A) : M (list A) := typed_get (k_name K) (k_proj K) (k_parse K) (k_inj K).
Definition kgood {A} (K : kind A) : Prop := forall l, k_proj K (k_inj K l) = Some l.
Lemma via_kind_good : kgood via_kind. Proof. intros l; reflexivity. Qed.
Lemma route_kind_good : kgood route_kind. Proof. intros l; reflexivity. Qed.

(* the entries a header line contributes, if it is a decodable line of that kind *)
Definition line {A} (K : kind A) (h : header) : option (list A) :=
  if same_header (h_name h) (k_name K) then
    match k_proj K (h_val h) with
    | Some l => Some l
    | None => match h_val h with
              | HRaw s => match k_parse K s with Ok l => Some l | _ => None end
              | _ => None
              end
    end
  else None.
(* adjacent decodable non-empty lines of one kind, and their flattened list *)
Inductive block {A} (K : kind A) : list header -> list A -> Prop :=
| blk_nil : block K [] []
| blk_cons h b l ls : line K h = Some l -> l <> [] -> block K b ls -> block K (h :: b) (l ++ ls).

Lemma block_app {A} (K : kind A) b1 l1 b2 l2 : block K b1 l1 -> block K b2 l2 -> block K (b1 ++ b2) (l1 ++ l2).
Proof.
  induction 1 as [|h b l ls Hl Hn Hb IH]; intros H2; [exact H2|].
  cbn [app]. rewrite <- app_assoc. constructor; auto.
Qed.
Lemma block_nil_inv {A} (K : kind A) b : block K b [] -> b = [].
Proof.
  inversion 1 as [|h b' l ls Hl Hn Hb E1 E2]; [reflexivity|].
  destruct l; [congruence|discriminate].
Qed.
Lemma block_of_nil {A} (K : kind A) l : block K [] l -> l = [].
Proof. inversion 1. reflexivity. Qed.

Definition nomatch (name : bytes) (b : list header) : Prop := Forall (fun h => same_header (h_name h) name = false) b.
Lemma line_name {A} (K : kind A) h l : line K h = Some l -> same_header (h_name h) (k_name K) = true.
Proof. unfold line. destruct (same_header (h_name h) (k_name K)); [reflexivity|discriminate]. Qed.
Lemma same_header_through n nm name : same_header n nm = true -> same_header n name = same_header nm name.
Proof. intros H. apply same_header_canon_eq; [apply C17_same_header_equiv; exact H|reflexivity]. Qed.
Lemma block_nomatch {A} (K : kind A) b l name : same_header (k_name K) name = false -> block K b l -> nomatch name b.
Proof.
  intros Hn. induction 1 as [|h b l ls Hl Hne Hb IH]; constructor; [|exact IH].
  rewrite (same_header_through _ _ name (line_name K h l Hl)). exact Hn.
Qed.

(* --- list surgery under a prefix that does not match --- *)
Lemma get_header_app_nomatch name b r : nomatch name b -> get_header name (b ++ r) = get_header name r.
Proof. induction 1 as [|h b Hh Hb IH]; [reflexivity|]. cbn [app get_header]. rewrite Hh. exact IH. Qed.
Lemma update_header_app_nomatch name f b r : nomatch name b -> update_header name f (b ++ r) = b ++ update_header name f r.
Proof. induction 1 as [|h b Hh Hb IH]; [reflexivity|]. cbn [app update_header]. rewrite Hh, IH. reflexivity. Qed.
Lemma remove_header_app_nomatch name b r : nomatch name b -> remove_header name (b ++ r) = b ++ remove_header name r.
Proof. induction 1 as [|h b Hh Hb IH]; [reflexivity|]. cbn [app remove_header]. rewrite Hh, IH. reflexivity. Qed.
Lemma nomatch_app name a b : nomatch name a -> nomatch name b -> nomatch name (a ++ b).
Proof. intros Ha Hb. apply Forall_app. split; assumption. Qed.

(* positions: first header satisfying a predicate *)
Fixpoint qpos (q : header -> bool) (hs : list header) : option nat :=
  match hs with
  | [] => None
  | h :: r => if q h then Some O else option_map S (qpos q r)
  end.
Lemma find_from_shift name hs : forall i,
  find_header_pos_from name hs i = option_map (fun k => i + k) (find_header_pos_from name hs 0).
Proof.
  induction hs as [|h r IH]; intros i; [reflexivity|]. cbn [find_header_pos_from].
  destruct (same_header (h_name h) name); [cbn; rewrite Nat.add_0_r; reflexivity|].
  rewrite (IH (S i)), (IH 1). destruct (find_header_pos_from name r 0); cbn; [f_equal; lia|reflexivity].
Qed.
Lemma find_header_pos_qpos name hs : find_header_pos name hs = qpos (fun h => same_header (h_name h) name) hs.
Proof.
  unfold find_header_pos. induction hs as [|h r IH]; [reflexivity|]. cbn [find_header_pos_from qpos].
  destruct (same_header (h_name h) name); [reflexivity|]. rewrite find_from_shift, IH.
  destruct (qpos _ r); reflexivity.
Qed.
Lemma qpos_or q1 q2 hs :
  qpos (fun h => q1 h || q2 h)%bool hs =
  match qpos q1 hs, qpos q2 hs with
  | Some a, Some b => Some (Nat.min a b)
  | Some a, None => Some a
  | None, Some b => Some b
  | None, None => None
  end.
Proof.
  induction hs as [|h r IH]; [reflexivity|]. cbn [qpos].
  destruct (q1 h), (q2 h); cbn [orb].
  - reflexivity.
  - destruct (qpos q2 r); reflexivity.
  - destruct (qpos q1 r); reflexivity.
  - rewrite IH. destruct (qpos q1 r), (qpos q2 r); reflexivity.
Qed.
Lemma qpos_app_none q b r : Forall (fun h => q h = false) b -> qpos q (b ++ r) = option_map (fun k => List.length b + k) (qpos q r).
Proof.
  induction 1 as [|h b Hh Hb IH]; [cbn [app List.length]; destruct (qpos q r); reflexivity|]. cbn [app qpos List.length]. rewrite Hh, IH.
  destruct (qpos q r); reflexivity.
Qed.
Lemma insert_at_app_len {X} (b r : list X) i x : insert_at (List.length b + i) x (b ++ r) = b ++ insert_at i x r.
Proof.
  unfold insert_at. rewrite firstn_app, skipn_app.
  replace (List.length b + i - List.length b) with i by lia.
  rewrite firstn_all2 by lia. rewrite skipn_all2 by lia. rewrite <- app_assoc. reflexivity.
Qed.

Section Lay.
  Context {A B : Type} (K : kind A) (K' : kind B).
  (* two header lists that differ only in how the lists of the two kinds are cut into lines *)
  Inductive lay : list header -> list header -> Prop :=
  | lay_nil : lay [] []
  | lay_plain h r1 r2 : lay r1 r2 -> lay (h :: r1) (h :: r2)
  | lay_own b1 b2 l r1 r2 : block K b1 l -> block K b2 l -> lay r1 r2 -> lay (b1 ++ r1) (b2 ++ r2)
  | lay_other b1 b2 l r1 r2 : block K' b1 l -> block K' b2 l -> lay r1 r2 -> lay (b1 ++ r1) (b2 ++ r2).

  Lemma lay_refl hs : lay hs hs.
  Proof. induction hs; constructor; assumption. Qed.
  Lemma lay_app a1 a2 b1 b2 : lay a1 a2 -> lay b1 b2 -> lay (a1 ++ b1) (a2 ++ b2).
  Proof.
    induction 1 as [|h r1 r2 H IH|c1 c2 l r1 r2 H1 H2 H IH|c1 c2 l r1 r2 H1 H2 H IH]; intros Hb.
    - exact Hb.
    - cbn [app]. constructor. apply IH. exact Hb.
    - rewrite <- !app_assoc. eapply lay_own; eauto.
    - rewrite <- !app_assoc. eapply lay_other; eauto.
  Qed.

  Hypothesis Hdist : same_header (k_name K') (k_name K) = false.
  Hypothesis Hgood : kgood K.

  Definition matches (h : header) : bool := same_header (h_name h) (k_name K).
  Definition nom (b : list header) : Prop := nomatch (k_name K) b.

  (* the first header of kind K, in both lists *)
  Inductive focus : list header -> list header -> Prop :=
  | f_none hs1 hs2 : get_header (k_name K) hs1 = None -> get_header (k_name K) hs2 = None -> lay hs1 hs2 -> focus hs1 hs2
  | f_plain p1 p2 h r1 r2 : nom p1 -> nom p2 -> lay p1 p2 -> matches h = true -> lay r1 r2 ->
      focus (p1 ++ h :: r1) (p2 ++ h :: r2)
  | f_block p1 p2 h1 h2 v l1 l2 b1 b2 t1 t2 r1 r2 : nom p1 -> nom p2 -> lay p1 p2 ->
      line K h1 = Some (v :: l1) -> line K h2 = Some (v :: l2) -> block K b1 t1 -> block K b2 t2 ->
      l1 ++ t1 = l2 ++ t2 -> lay r1 r2 ->
      focus (p1 ++ h1 :: b1 ++ r1) (p2 ++ h2 :: b2 ++ r2).

  Lemma focus_under b1 b2 hs1 hs2 : nom b1 -> nom b2 -> lay b1 b2 -> focus hs1 hs2 -> focus (b1 ++ hs1) (b2 ++ hs2).
  Proof.
    intros N1 N2 L F. destruct F as [hs1 hs2 G1 G2 H|p1 p2 h r1 r2 P1 P2 Lp Hm Lr|p1 p2 h1 h2 v l1 l2 c1 c2 t1 t2 r1 r2 P1 P2 Lp H1 H2 B1 B2 E Lr].
    - apply f_none; [rewrite get_header_app_nomatch; assumption|rewrite get_header_app_nomatch; assumption|apply lay_app; assumption].
    - rewrite !app_assoc. apply f_plain; try assumption; try (apply nomatch_app; assumption). apply lay_app; assumption.
    - rewrite !app_assoc. eapply f_block; eauto; try (apply nomatch_app; assumption). apply lay_app; assumption.
  Qed.

  Lemma lay_focus hs1 hs2 : lay hs1 hs2 -> focus hs1 hs2.
  Proof.
    induction 1 as [|h r1 r2 H IH|c1 c2 l r1 r2 H1 H2 H IH|c1 c2 l r1 r2 H1 H2 H IH].
    - apply f_none; [reflexivity|reflexivity|constructor].
    - destruct (matches h) eqn:Hm.
      + apply (f_plain [] [] h r1 r2); try constructor; assumption.
      + apply (focus_under [h] [h]); try (constructor; [exact Hm|constructor]); [apply lay_refl|exact IH].
    - destruct H1 as [|h1 c1 la lsa Hla Hna Hba].
      + apply block_nil_inv in H2. subst c2. exact IH.
      + inversion H2 as [E0 E1|h2 c2' lb lsb Hlb Hnb Hbb E1 E2]; [destruct la; [congruence|discriminate]|]. subst c2.
        destruct la as [|v l1]; [congruence|]. destruct lb as [|v' l2]; [congruence|].
        cbn [app] in E2. injection E2 as -> E2.
        apply (f_block [] [] h1 h2 v l1 l2 c1 c2' lsa lsb r1 r2); try constructor; try assumption. symmetry; exact E2.
    - apply focus_under; try (eapply block_nomatch; eassumption).
      + assert (L : lay (c1 ++ []) (c2 ++ [])) by (eapply lay_other; [eassumption|eassumption|constructor]).
        rewrite !app_nil_r in L. exact L.
      + exact IH.
  Qed.
End Lay.

(* --- the operations on the first header of a kind --- *)
Lemma get_header_at name p h r : nomatch name p -> same_header (h_name h) name = true ->
  get_header name (p ++ h :: r) = Some h.
Proof. intros N Hm. rewrite get_header_app_nomatch by exact N. cbn [get_header]. rewrite Hm. reflexivity. Qed.
Lemma update_header_at name f p h r : nomatch name p -> same_header (h_name h) name = true ->
  update_header name f (p ++ h :: r) = p ++ {| h_name := h_name h; h_val := f (h_val h) |} :: r.
Proof. intros N Hm. rewrite update_header_app_nomatch by exact N. cbn [update_header]. rewrite Hm. reflexivity. Qed.
Lemma remove_header_at name p h r : nomatch name p -> same_header (h_name h) name = true ->
  remove_header name (p ++ h :: r) = p ++ r.
Proof. intros N Hm. rewrite remove_header_app_nomatch by exact N. cbn [remove_header]. rewrite Hm. reflexivity. Qed.
Lemma with_headers_same m : with_headers m (m_headers m) = m.
Proof. destruct m; reflexivity. Qed.

Section Ops.
  Context {A B : Type} (K : kind A) (K' : kind B).
  Hypothesis Hdist : same_header (k_name K') (k_name K) = false.
  Hypothesis Hgood : kgood K.

  Definition relK (m1 m2 : message) : Prop :=
    m_start m1 = m_start m2 /\ m_body m1 = m_body m2 /\ lay K K' (m_headers m1) (m_headers m2).

  (* what the lazy getter does to the header it finds *)
  Definition act_get (h : header) : header * res (list A) :=
    match k_proj K (h_val h) with
    | Some a => (h, Ok a)
    | None => match h_val h with
              | HRaw s => match k_parse K s with
                          | Ok a => ({| h_name := h_name h; h_val := k_inj K a |}, Ok a)
                          | Err => (h, Err)
                          | Panic => (h, Panic)
                          end
              | _ => (h, Err)
              end
    end.
  Lemma act_get_name h : h_name (fst (act_get h)) = h_name h.
  Proof.
    unfold act_get. destruct (k_proj K (h_val h)); [reflexivity|]. destruct (h_val h); try reflexivity.
    destruct (k_parse K s); reflexivity.
  Qed.
  Lemma act_get_line h l : line K h = Some l ->
    snd (act_get h) = Ok l /\ k_proj K (h_val (fst (act_get h))) = Some l.
  Proof.
    unfold line, act_get. destruct (same_header (h_name h) (k_name K)); [|discriminate].
    destruct (k_proj K (h_val h)) as [a|] eqn:E; [intros H; injection H as ->; split; [reflexivity|exact E]|].
    destruct (h_val h); try discriminate. destruct (k_parse K s); try discriminate.
    intros H; injection H as ->. split; [reflexivity|apply Hgood].
  Qed.
  Lemma line_of_proj h l : same_header (h_name h) (k_name K) = true -> k_proj K (h_val h) = Some l -> line K h = Some l.
  Proof. intros Hm E. unfold line. rewrite Hm, E. reflexivity. Qed.

  Lemma kget_none m : get_header (k_name K) (m_headers m) = None -> kget K m = (m, Err).
  Proof. intros E. unfold kget, typed_get. rewrite E. reflexivity. Qed.
  Lemma kget_at m p h r : m_headers m = p ++ h :: r -> nomatch (k_name K) p -> same_header (h_name h) (k_name K) = true ->
    kget K m = (with_headers m (p ++ fst (act_get h) :: r), snd (act_get h)).
  Proof.
    intros E N Hm. unfold kget, typed_get, act_get. rewrite E, (get_header_at _ _ _ _ N Hm).
    destruct (k_proj K (h_val h)) as [a|]; cbn [fst snd]; [rewrite <- E, with_headers_same; reflexivity|].
    destruct (h_val h) eqn:Ev; cbn [fst snd]; try (rewrite <- E, with_headers_same; reflexivity).
    destruct (k_parse K s); cbn [fst snd]; try (rewrite <- E, with_headers_same; reflexivity).
    unfold set_val. rewrite E, (update_header_at _ _ _ _ _ N Hm). reflexivity.
  Qed.

  (* a computation that only looks at / rewrites / removes the first header of kind K *)
  Definition local {T} (x : M T) (act : header -> list header * res T) : Prop :=
    (forall m, get_header (k_name K) (m_headers m) = None -> x m = (m, Err)) /\
    (forall m p h r, m_headers m = p ++ h :: r -> nomatch (k_name K) p -> same_header (h_name h) (k_name K) = true ->
       x m = (with_headers m (p ++ fst (act h) ++ r), snd (act h))).

  Lemma local_bind {T} (G : list A -> M T) (g : list A -> header -> list header * res T) :
    (forall l m p h r, m_headers m = p ++ h :: r -> nomatch (k_name K) p -> same_header (h_name h) (k_name K) = true ->
       G l m = (with_headers m (p ++ fst (g l h) ++ r), snd (g l h))) ->
    local (mbind (kget K) G)
          (fun h => match snd (act_get h) with
                    | Ok l => g l (fst (act_get h))
                    | Err => ([fst (act_get h)], Err)
                    | Panic => ([fst (act_get h)], Panic)
                    end).
  Proof.
    intros HG. split.
    - intros m E. unfold mbind. rewrite (kget_none m E). reflexivity.
    - intros m p h r E N Hm. unfold mbind. rewrite (kget_at m p h r E N Hm).
      destruct (snd (act_get h)) as [l| |]; try reflexivity.
      rewrite (HG l (with_headers m (p ++ fst (act_get h) :: r)) p (fst (act_get h)) r eq_refl N).
      + reflexivity.
      + rewrite act_get_name. exact Hm.
  Qed.

  Theorem local_sim {T} (x : M T) act (pre : A -> list A) (out : A -> T) :
    local x act ->
    (forall h v l, line K h = Some (v :: l) -> block K (fst (act h)) (pre v ++ l) /\ snd (act h) = Ok (out v)) ->
    msim relK x.
  Proof.
    intros [Ln La] Hb m1 m2 (Hs & Hbd & Hl). apply (lay_focus K K' Hdist) in Hl.
    remember (m_headers m1) as hs1 eqn:E1. remember (m_headers m2) as hs2 eqn:E2.
    destruct Hl as [hs1 hs2 G1 G2 H|p1 p2 h r1 r2 P1 P2 Lp Hm Lr|p1 p2 h1 h2 v l1 l2 c1 c2 t1 t2 r1 r2 P1 P2 Lp H1 H2 B1 B2 E Lr].
    - rewrite (Ln m1), (Ln m2) by congruence. split; [|reflexivity]. cbn [fst]. split; [exact Hs|]. split; [exact Hbd|]. congruence.
    - rewrite (La m1 p1 h r1), (La m2 p2 h r2) by auto. cbn [fst snd]. split; [|reflexivity].
      split; [exact Hs|]. split; [exact Hbd|]. cbn [m_headers with_headers].
      apply lay_app; [exact Lp|]. apply lay_app; [apply lay_refl|exact Lr].
    - pose proof (line_name K _ _ H1) as M1. pose proof (line_name K _ _ H2) as M2.
      rewrite (La m1 p1 h1 (c1 ++ r1)), (La m2 p2 h2 (c2 ++ r2)) by auto. cbn [fst snd].
      destruct (Hb h1 v l1 H1) as [B1' O1]. destruct (Hb h2 v l2 H2) as [B2' O2]. rewrite O1, O2. split; [|reflexivity].
      split; [exact Hs|]. split; [exact Hbd|]. cbn [m_headers with_headers].
      apply lay_app; [exact Lp|]. rewrite !app_assoc.
      pose proof (block_app K _ _ _ _ B1' B1) as C1. pose proof (block_app K _ _ _ _ B2' B2) as C2.
      rewrite <- app_assoc in C1, C2. rewrite <- E in C2.
      eapply lay_own; [exact C1|exact C2|exact Lr].
  Qed.

  (* read the list (its head decides the result) *)
  Definition kread {T} (rd : list A -> res T) : M T := mbind (kget K) (fun l => mlift (rd l)).
  (* PopVia / PopRoute *)
  Definition kpop : M unit :=
    mbind (kget K) (fun l =>
      match l with
      | _ :: (_ :: _) as rest => mmodify (set_val (k_name K) (k_inj K rest))
      | _ => mmodify (fun m => with_headers m (remove_header (k_name K) (m_headers m)))
      end).
  (* rewrite the first entry *)
  Definition kmap (g0 : A -> A) : M unit :=
    mbind (kget K) (fun l =>
      match l with
      | v :: rest => mmodify (set_val (k_name K) (k_inj K (g0 v :: rest)))
      | [] => merr
      end).

  Lemma app_one {X} (p : list X) h r : p ++ h :: r = p ++ [h] ++ r.
  Proof. reflexivity. Qed.

  Theorem kread_sim {T} (rd : list A -> res T) (out : A -> T) :
    (forall v l, rd (v :: l) = Ok (out v)) -> msim relK (kread rd).
  Proof.
    intros Hrd.
    assert (HL : forall l m p h r, m_headers m = p ++ h :: r -> nomatch (k_name K) p -> same_header (h_name h) (k_name K) = true ->
       (fun l0 : list A => mlift (rd l0)) l m =
       (with_headers m (p ++ fst ((fun (l0 : list A) (h0 : header) => ([h0], rd l0)) l h) ++ r),
        snd ((fun (l0 : list A) (h0 : header) => ([h0], rd l0)) l h))).
    { intros l m p h r E N Hm. unfold mlift. cbn [fst snd]. rewrite <- app_one, <- E, with_headers_same. reflexivity. }
    apply (local_sim _ _ (fun v => [v]) out (local_bind (fun l => mlift (rd l)) (fun l h => ([h], rd l)) HL)).
    intros h v l Hl. destruct (act_get_line h _ Hl) as [E1 E2]. rewrite E1. cbn [fst snd]. split; [|apply Hrd].
    assert (L : line K (fst (act_get h)) = Some (v :: l)).
    { apply line_of_proj; [rewrite act_get_name; exact (line_name K _ _ Hl)|exact E2]. }
    pose proof (blk_cons K _ [] _ [] L ltac:(discriminate) (blk_nil K)) as Bk. rewrite app_nil_r in Bk. exact Bk.
  Qed.

  Definition pop_g (l : list A) (h : header) : list header * res unit :=
    match l with
    | _ :: (_ :: _) as rest => ([{| h_name := h_name h; h_val := k_inj K rest |}], Ok tt)
    | _ => ([], Ok tt)
    end.
  Lemma kpop_local : local kpop (fun h => match snd (act_get h) with
                                          | Ok l => pop_g l (fst (act_get h))
                                          | Err => ([fst (act_get h)], Err)
                                          | Panic => ([fst (act_get h)], Panic)
                                          end).
  Proof.
    apply local_bind. intros l m p h r E N Hm.
    assert (Rm : mmodify (fun m => with_headers m (remove_header (k_name K) (m_headers m))) m = (with_headers m (p ++ [] ++ r), Ok tt)).
    { unfold mmodify. rewrite E, (remove_header_at _ _ _ _ N Hm). reflexivity. }
    destruct l as [|a [|b l']]; try exact Rm.
    unfold pop_g, mmodify, set_val. cbn [fst snd]. rewrite E, (update_header_at _ _ _ _ _ N Hm). reflexivity.
  Qed.
  Theorem kpop_sim : msim relK kpop.
  Proof.
    apply (local_sim _ _ (fun _ => []) (fun _ => tt) kpop_local).
    intros h v l Hl. destruct (act_get_line h _ Hl) as [E1 E2]. rewrite E1. cbn [app].
    destruct l as [|b l']; cbn [pop_g fst snd]; (split; [|reflexivity]); [constructor|].
    assert (L : line K {| h_name := h_name (fst (act_get h)); h_val := k_inj K (b :: l') |} = Some (b :: l')).
    { apply line_of_proj; [cbn [h_name]; rewrite act_get_name; exact (line_name K _ _ Hl)|apply Hgood]. }
    pose proof (blk_cons K _ [] _ [] L ltac:(discriminate) (blk_nil K)) as Bk. rewrite app_nil_r in Bk. exact Bk.
  Qed.

  Definition map_g (g0 : A -> A) (l : list A) (h : header) : list header * res unit :=
    match l with
    | v :: rest => ([{| h_name := h_name h; h_val := k_inj K (g0 v :: rest) |}], Ok tt)
    | [] => ([h], Err)
    end.
  Lemma kmap_local g0 : local (kmap g0) (fun h => match snd (act_get h) with
                                                | Ok l => map_g g0 l (fst (act_get h))
                                                | Err => ([fst (act_get h)], Err)
                                                | Panic => ([fst (act_get h)], Panic)
                                                end).
  Proof.
    apply local_bind. intros l m p h r E N Hm. destruct l as [|v rest].
    - unfold merr, map_g. cbn [fst snd]. rewrite <- app_one, <- E, with_headers_same. reflexivity.
    - unfold map_g, mmodify, set_val. cbn [fst snd]. rewrite E, (update_header_at _ _ _ _ _ N Hm). reflexivity.
  Qed.
  Theorem kmap_sim g0 : msim relK (kmap g0).
  Proof.
    apply (local_sim _ _ (fun v => [g0 v]) (fun _ => tt) (kmap_local g0)).
    intros h v l Hl. destruct (act_get_line h _ Hl) as [E1 E2]. rewrite E1. cbn [map_g fst snd]. split; [|reflexivity].
    assert (L : line K {| h_name := h_name (fst (act_get h)); h_val := k_inj K (g0 v :: l) |} = Some (g0 v :: l)).
    { apply line_of_proj; [cbn [h_name]; rewrite act_get_name; exact (line_name K _ _ Hl)|apply Hgood]. }
    pose proof (blk_cons K _ [] _ [] L ltac:(discriminate) (blk_nil K)) as Bk. rewrite app_nil_r in Bk. exact Bk.
  Qed.

  (* --- headers of neither kind --- *)
  Section Plain.
    Variable name : bytes.
    Hypothesis Hn : same_header (k_name K) name = false.
    Hypothesis Hn' : same_header (k_name K') name = false.
    Lemma lay_get_plain hs1 hs2 : lay K K' hs1 hs2 -> get_header name hs1 = get_header name hs2.
    Proof.
      induction 1 as [|h r1 r2 H IH|c1 c2 l r1 r2 H1 H2 H IH|c1 c2 l r1 r2 H1 H2 H IH].
      - reflexivity.
      - cbn [get_header]. rewrite IH. reflexivity.
      - rewrite !get_header_app_nomatch by (apply (block_nomatch K _ l name Hn); assumption). exact IH.
      - rewrite !get_header_app_nomatch by (apply (block_nomatch K' _ l name Hn'); assumption). exact IH.
    Qed.
    Lemma lay_update_plain f hs1 hs2 : lay K K' hs1 hs2 -> lay K K' (update_header name f hs1) (update_header name f hs2).
    Proof.
      induction 1 as [|h r1 r2 H IH|c1 c2 l r1 r2 H1 H2 H IH|c1 c2 l r1 r2 H1 H2 H IH].
      - constructor.
      - cbn [update_header]. destruct (same_header (h_name h) name); constructor; assumption.
      - rewrite !update_header_app_nomatch by (apply (block_nomatch K _ l name Hn); assumption). eapply lay_own; eassumption.
      - rewrite !update_header_app_nomatch by (apply (block_nomatch K' _ l name Hn'); assumption). eapply lay_other; eassumption.
    Qed.
    Lemma relK_typed_get_plain {T} (proj : hval -> option T) parse inj : msim relK (typed_get name proj parse inj).
    Proof.
      intros m1 m2 (Hs & Hb & Hl). unfold typed_get. rewrite (lay_get_plain _ _ Hl).
      destruct (get_header name (m_headers m2)) as [h|]; [|split; [repeat split; assumption|reflexivity]].
      destruct (proj (h_val h)); [split; [repeat split; assumption|reflexivity]|].
      destruct (h_val h); try (split; [repeat split; assumption|reflexivity]).
      destruct (parse s); cbn [fst snd]; (split; [|reflexivity]); try (repeat split; assumption).
      split; [exact Hs|]. split; [exact Hb|]. apply lay_update_plain. exact Hl.
    Qed.
    Lemma relK_get_raw_plain : mread relK (get_raw name).
    Proof. intros m1 m2 (Hs & Hb & Hl). unfold get_raw. rewrite (lay_get_plain _ _ Hl). reflexivity. Qed.
    Lemma relK_has_header_plain : mread relK (has_header name).
    Proof. intros m1 m2 (Hs & Hb & Hl). unfold has_header. rewrite (lay_get_plain _ _ Hl). reflexivity. Qed.
  End Plain.

  (* --- insertions --- *)
  Definition opt_pos_rel (h0 : header) (hs1 hs2 : list header) (o1 o2 : option nat) : Prop :=
    match o1, o2 with
    | Some i1, Some i2 => lay K K' (insert_at i1 h0 hs1) (insert_at i2 h0 hs2)
    | None, None => True
    | _, _ => False
    end.
  (* a position defined by a predicate that no line of either kind satisfies *)
  Lemma lay_insert_q (q : header -> bool) h0 :
    (forall h, same_header (h_name h) (k_name K) = true -> q h = false) ->
    (forall h, same_header (h_name h) (k_name K') = true -> q h = false) ->
    forall hs1 hs2, lay K K' hs1 hs2 -> opt_pos_rel h0 hs1 hs2 (qpos q hs1) (qpos q hs2).
  Proof.
    intros Q1 Q2.
    assert (QB : forall X (KK : kind X) c l, (forall h, same_header (h_name h) (k_name KK) = true -> q h = false) ->
                 block KK c l -> Forall (fun h => q h = false) c).
    { intros X KK c l Q. induction 1 as [|h b l0 ls Hl0 Hne Hb IH]; constructor; [|exact IH]. apply Q. exact (line_name KK _ _ Hl0). }
    induction 1 as [|h r1 r2 H IH|c1 c2 l r1 r2 H1 H2 H IH|c1 c2 l r1 r2 H1 H2 H IH]; unfold opt_pos_rel in *.
    - exact I.
    - cbn [qpos]. destruct (q h).
      + unfold insert_at. cbn [firstn skipn app]. constructor. constructor. exact H.
      + destruct (qpos q r1) as [i1|]; destruct (qpos q r2) as [i2|]; cbn [option_map]; try exact IH.
        unfold insert_at in *. cbn [firstn skipn app]. constructor. exact IH.
    - rewrite (qpos_app_none q c1 r1 (QB _ K c1 l Q1 H1)), (qpos_app_none q c2 r2 (QB _ K c2 l Q1 H2)).
      destruct (qpos q r1) as [i1|]; destruct (qpos q r2) as [i2|]; cbn [option_map]; try exact IH.
      rewrite !insert_at_app_len. eapply lay_own; eassumption.
    - rewrite (qpos_app_none q c1 r1 (QB _ K' c1 l Q2 H1)), (qpos_app_none q c2 r2 (QB _ K' c2 l Q2 H2)).
      destruct (qpos q r1) as [i1|]; destruct (qpos q r2) as [i2|]; cbn [option_map]; try exact IH.
      rewrite !insert_at_app_len. eapply lay_other; eassumption.
  Qed.
  (* the position of the first line of kind K *)
  Lemma lay_insert_own h0 hs1 hs2 : lay K K' hs1 hs2 ->
    opt_pos_rel h0 hs1 hs2 (find_header_pos (k_name K) hs1) (find_header_pos (k_name K) hs2).
  Proof.
    rewrite !find_header_pos_qpos. set (q := fun h => same_header (h_name h) (k_name K)).
    assert (QO : forall c l, block K c l -> c <> [] -> exists h c', c = h :: c' /\ q h = true).
    { intros c l Hb Hne. destruct Hb as [|h b l0 ls Hl0 Hn0 Hb]; [congruence|]. exists h, b. split; [reflexivity|exact (line_name K _ _ Hl0)]. }
    assert (QB : forall c l, block K' c l -> Forall (fun h => q h = false) c).
    { intros c l. induction 1 as [|h b l0 ls Hl0 Hne Hb IH]; constructor; [|exact IH].
      unfold q. rewrite (same_header_through _ _ (k_name K) (line_name K' _ _ Hl0)). exact Hdist. }
    induction 1 as [|h r1 r2 H IH|c1 c2 l r1 r2 H1 H2 H IH|c1 c2 l r1 r2 H1 H2 H IH]; unfold opt_pos_rel in *.
    - exact I.
    - cbn [qpos]. destruct (q h).
      + unfold insert_at. cbn [firstn skipn app]. constructor. constructor. exact H.
      + destruct (qpos q r1) as [i1|]; destruct (qpos q r2) as [i2|]; cbn [option_map]; try exact IH.
        unfold insert_at in *. cbn [firstn skipn app]. constructor. exact IH.
    - destruct c1 as [|h1 c1'].
      + apply block_of_nil in H1. subst l. apply block_nil_inv in H2. subst c2. exact IH.
      + destruct c2 as [|h2 c2']; [apply block_of_nil in H2; subst l; apply block_nil_inv in H1; discriminate|].
        destruct (QO _ _ H1 ltac:(discriminate)) as (x1 & y1 & E1 & Q1). injection E1 as <- <-.
        destruct (QO _ _ H2 ltac:(discriminate)) as (x2 & y2 & E2 & Q2). injection E2 as <- <-.
        cbn [app qpos]. rewrite Q1, Q2. unfold insert_at. cbn [firstn skipn app]. constructor.
        change (lay K K' ((h1 :: c1') ++ r1) ((h2 :: c2') ++ r2)). eapply lay_own; eassumption.
    - rewrite (qpos_app_none q c1 r1 (QB _ _ H1)), (qpos_app_none q c2 r2 (QB _ _ H2)).
      destruct (qpos q r1) as [i1|]; destruct (qpos q r2) as [i2|]; cbn [option_map]; try exact IH.
      rewrite !insert_at_app_len. eapply lay_other; eassumption.
  Qed.
End Ops.

(* --- the instance: Via and Route --- *)
Definition relaid : message -> message -> Prop := relK via_kind route_kind.

Lemma dist_rv : same_header (k_name route_kind) (k_name via_kind) = false.
Proof. vm_compute. reflexivity. Qed.
Lemma dist_vr : same_header (k_name via_kind) (k_name route_kind) = false.
Proof. vm_compute. reflexivity. Qed.

Lemma lay_swap {A B} (K : kind A) (K' : kind B) hs1 hs2 : lay K K' hs1 hs2 -> lay K' K hs1 hs2.
Proof.
  induction 1 as [|h r1 r2 H IH|c1 c2 l r1 r2 H1 H2 H IH|c1 c2 l r1 r2 H1 H2 H IH];
    [constructor|constructor; assumption|eapply lay_other; eassumption|eapply lay_own; eassumption].
Qed.
Lemma relK_swap {A B} (K : kind A) (K' : kind B) m1 m2 : relK K K' m1 m2 -> relK K' K m1 m2.
Proof. intros (H1 & H2 & H3). split; [exact H1|]. split; [exact H2|apply lay_swap; exact H3]. Qed.
Lemma msim_swap {A B T} (K : kind A) (K' : kind B) (x : M T) : msim (relK K' K) x -> msim (relK K K') x.
Proof.
  intros H m1 m2 HR. destruct (H m1 m2 (relK_swap _ _ _ _ HR)) as [H1 H2]. split; [apply relK_swap; exact H1|exact H2].
Qed.
Lemma relaid_refl m : relaid m m.
Proof. split; [reflexivity|]. split; [reflexivity|apply lay_refl]. Qed.

Lemma relaid_start : mread relaid m_start.
Proof. intros m1 m2 (H & _). exact H. Qed.
Lemma relaid_plain_get {T} name (proj : hval -> option T) parse inj :
  same_header (s2b "Via") name = false -> same_header (s2b "Route") name = false ->
  msim relaid (typed_get name proj parse inj).
Proof. intros H1 H2. exact (relK_typed_get_plain via_kind route_kind name H1 H2 proj parse inj). Qed.
Lemma relaid_plain_raw name :
  same_header (s2b "Via") name = false -> same_header (s2b "Route") name = false -> mread relaid (get_raw name).
Proof. intros H1 H2. exact (relK_get_raw_plain via_kind route_kind name H1 H2). Qed.

(* i. the top Via is the same *)
Lemma relaid_top_via : msim relaid s_top_via.
Proof.
  apply (msim_ext relaid _ (kread via_kind (fun l => match l with v :: _ => Ok v | [] => Err end))).
  - intros m. unfold s_top_via, kread, mbind. change (s_get_via m) with (kget via_kind m).
    destruct (kget via_kind m) as [m1 [[|v l]| |]]; reflexivity.
  - apply (kread_sim via_kind route_kind dist_rv via_kind_good _ (fun v => v)). intros v l. reflexivity.
Qed.
(* i. PopVia pops the same entry whether it shares its line with others or not *)
Lemma relaid_pop_via : msim relaid s_pop_via.
Proof. exact (kpop_sim via_kind route_kind dist_rv via_kind_good). Qed.
(* i. SetReceived stamps the same (first) entry *)
Lemma relaid_set_received peer port : msim relaid (s_set_received peer port).
Proof.
  exact (kmap_sim via_kind route_kind dist_rv via_kind_good
           (fun v => let v1 := via_set_param (s2b "received") peer v in
                     if kv_has (s2b "rport") (v_params v1) then via_set_param (s2b "rport") (itoa port) v1 else v1)).
Qed.
(* i. the top Route / PopRoute *)
Lemma relaid_route_head : msim relaid s_route_head.
Proof.
  apply msim_swap.
  exact (kread_sim route_kind via_kind dist_vr route_kind_good (fun l => Ok (hd_error l)) (fun v => Some v) (fun v l => eq_refl)).
Qed.
Lemma relaid_pop_route : msim relaid s_pop_route.
Proof. apply msim_swap. exact (kpop_sim route_kind via_kind dist_vr route_kind_good). Qed.

(* i. ForEachVia: the same flattened list, the decoded lines again a re-layout *)
Lemma decode_via_block b l : block via_kind b l -> forall r,
  exists b', decode_all_vias (b ++ r) = (b' ++ fst (decode_all_vias r), l ++ snd (decode_all_vias r)) /\ block via_kind b' l.
Proof.
  induction 1 as [|h b l0 ls Hl Hne Hb IH]; intros r.
  - exists []. split; [cbn [app]; destruct (decode_all_vias r); reflexivity|constructor].
  - destruct (IH r) as (b' & E & Bb'). cbn [app decode_all_vias]. rewrite E.
    unfold line in Hl. cbn [k_name via_kind k_proj k_parse] in Hl.
    destruct (same_header (h_name h) (s2b "Via")) eqn:Hm; [|discriminate].
    destruct (h_val h) as [s|lv|lr|lr|f|f|c] eqn:Ev; try discriminate.
    + destruct (parse_via s) as [lp| |] eqn:Ep; try discriminate. injection Hl as ->.
      exists ({| h_name := h_name h; h_val := HVia l0 |} :: b'). split; [rewrite <- app_assoc; reflexivity|].
      constructor; [|exact Hne|exact Bb']. unfold line. cbn [k_name via_kind k_proj h_name h_val]. rewrite Hm. reflexivity.
    + injection Hl as ->. exists (h :: b'). split; [rewrite <- app_assoc; reflexivity|].
      constructor; [|exact Hne|exact Bb']. unfold line. cbn [k_name via_kind k_proj]. rewrite Hm, Ev. reflexivity.
Qed.
Lemma decode_route_block b l : block route_kind b l -> forall r,
  decode_all_vias (b ++ r) = (b ++ fst (decode_all_vias r), snd (decode_all_vias r)).
Proof.
  induction 1 as [|h b l0 ls Hl Hne Hb IH]; intros r.
  - cbn [app]. destruct (decode_all_vias r); reflexivity.
  - cbn [app decode_all_vias]. rewrite IH.
    rewrite (same_header_through _ _ (s2b "Via") (line_name route_kind _ _ Hl)). change (same_header (k_name route_kind) (s2b "Via")) with (same_header (k_name route_kind) (k_name via_kind)).
    rewrite dist_rv. reflexivity.
Qed.
Lemma lay_decode hs1 hs2 : lay via_kind route_kind hs1 hs2 ->
  lay via_kind route_kind (fst (decode_all_vias hs1)) (fst (decode_all_vias hs2)) /\
  snd (decode_all_vias hs1) = snd (decode_all_vias hs2).
Proof.
  induction 1 as [|h r1 r2 H IH|c1 c2 l r1 r2 H1 H2 H IH|c1 c2 l r1 r2 H1 H2 H IH].
  - split; [constructor|reflexivity].
  - cbn [decode_all_vias]. destruct (decode_all_vias r1) as [r1' v1]. destruct (decode_all_vias r2) as [r2' v2].
    cbn [fst snd] in IH. destruct IH as [IH1 IH2]. subst v2.
    destruct (same_header (h_name h) (s2b "Via")); [|split; [constructor; exact IH1|reflexivity]].
    destruct (h_val h); try (split; [constructor; exact IH1|reflexivity]).
    destruct (parse_via s); (split; [constructor; exact IH1|reflexivity]).
  - destruct (decode_via_block _ _ H1 r1) as (b1' & E1 & B1). destruct (decode_via_block _ _ H2 r2) as (b2' & E2 & B2).
    rewrite E1, E2. cbn [fst snd]. destruct IH as [IH1 IH2]. split; [eapply lay_own; eassumption|rewrite IH2; reflexivity].
  - rewrite (decode_route_block _ _ H1), (decode_route_block _ _ H2). cbn [fst snd]. destruct IH as [IH1 IH2].
    split; [eapply lay_other; eassumption|exact IH2].
Qed.
Lemma relaid_all_vias : msim relaid s_all_via_params.
Proof.
  intros m1 m2 (H1 & H2 & H3). unfold s_all_via_params. destruct (lay_decode _ _ H3) as [D1 D2].
  destruct (decode_all_vias (m_headers m1)) as [hs1 vs1]. destruct (decode_all_vias (m_headers m2)) as [hs2 vs2].
  cbn [fst snd] in *. subst vs2. split; [|reflexivity]. split; [exact H1|]. split; [exact H2|exact D1].
Qed.

(* AddVia: before the first Via line in both; AddRecordRoute: at a position defined by headers
   that are not list lines *)
Lemma relaid_add_via v : mpres relaid (add_via v).
Proof.
  intros m1 m2 (H1 & H2 & H3). unfold add_via. split; [exact H1|]. split; [exact H2|]. cbn [m_headers with_headers].
  pose proof (lay_insert_own via_kind route_kind dist_rv {| h_name := s2b "Via"; h_val := HVia [v] |} _ _ H3) as P.
  unfold opt_pos_rel in P. change (k_name via_kind) with (s2b "Via") in P.
  destruct (find_header_pos (s2b "Via") (m_headers m1)); destruct (find_header_pos (s2b "Via") (m_headers m2)); try contradiction.
  - exact P.
  - unfold insert_at. cbn [firstn skipn app]. constructor. exact H3.
Qed.
Lemma find_record_route_pos_q hs :
  find_record_route_pos hs =
  match qpos (fun h => same_header (h_name h) (s2b "Record-Route")) hs with
  | Some p => p
  | None => match qpos (fun h => same_header (h_name h) (s2b "From") || same_header (h_name h) (s2b "Max-Forwards"))%bool hs with
            | Some p => p
            | None => O
            end
  end.
Proof.
  unfold find_record_route_pos. rewrite !find_header_pos_qpos, qpos_or.
  destruct (qpos _ hs); [reflexivity|]. destruct (qpos _ hs); destruct (qpos _ hs); reflexivity.
Qed.
Lemma not_list_name (q : header -> bool) name1 name2 :
  same_header (s2b "Via") name1 = false -> same_header (s2b "Via") name2 = false ->
  same_header (s2b "Route") name1 = false -> same_header (s2b "Route") name2 = false ->
  (forall h, q h = (same_header (h_name h) name1 || same_header (h_name h) name2)%bool) ->
  (forall h, same_header (h_name h) (k_name via_kind) = true -> q h = false) /\
  (forall h, same_header (h_name h) (k_name route_kind) = true -> q h = false).
Proof.
  intros V1 V2 R1 R2 Hq. split; intros h Hm; rewrite Hq, !(same_header_through _ _ _ Hm).
  - change (k_name via_kind) with (s2b "Via"). rewrite V1, V2. reflexivity.
  - change (k_name route_kind) with (s2b "Route"). rewrite R1, R2. reflexivity.
Qed.
Lemma relaid_add_rr r : mpres relaid (add_record_route r).
Proof.
  intros m1 m2 (H1 & H2 & H3). unfold add_record_route. split; [exact H1|]. split; [exact H2|]. cbn [m_headers with_headers].
  rewrite !find_record_route_pos_q.
  set (h0 := {| h_name := s2b "Record-Route"; h_val := HRecRoute [r] |}).
  set (q1 := fun h => same_header (h_name h) (s2b "Record-Route")).
  set (q2 := fun h => (same_header (h_name h) (s2b "From") || same_header (h_name h) (s2b "Max-Forwards"))%bool).
  assert (A : (forall h, same_header (h_name h) (k_name via_kind) = true -> q1 h = false) /\
              (forall h, same_header (h_name h) (k_name route_kind) = true -> q1 h = false)).
  { apply (not_list_name q1 (s2b "Record-Route") (s2b "Record-Route")); try (vm_compute; reflexivity).
    intros h. unfold q1. destruct (same_header (h_name h) (s2b "Record-Route")); reflexivity. }
  destruct A as [A1 A2].
  assert (Bq : (forall h, same_header (h_name h) (k_name via_kind) = true -> q2 h = false) /\
               (forall h, same_header (h_name h) (k_name route_kind) = true -> q2 h = false)).
  { apply (not_list_name q2 (s2b "From") (s2b "Max-Forwards")); try (vm_compute; reflexivity). }
  destruct Bq as [B1 B2].
  pose proof (lay_insert_q via_kind route_kind q1 h0 A1 A2 _ _ H3) as P1.
  pose proof (lay_insert_q via_kind route_kind q2 h0 B1 B2 _ _ H3) as P2.
  unfold opt_pos_rel in P1, P2.
  destruct (qpos q1 (m_headers m1)); destruct (qpos q1 (m_headers m2)); try contradiction; [exact P1|].
  destruct (qpos q2 (m_headers m1)); destruct (qpos q2 (m_headers m2)); try contradiction; [exact P2|].
  unfold insert_at. cbn [firstn skipn app]. constructor. exact H3.
Qed.
Lemma relaid_has_rr : mread relaid (has_header (s2b "Record-Route")).
Proof. apply (relK_has_header_plain via_kind route_kind); vm_compute; reflexivity. Qed.

(* i. the metamorphic consequence for the whole per-message pipeline, same shape as for
   respelling: related serialised messages; same side of the datagram limit => equal learned
   table, pins, transport table, rotation, connections; same destinations; payloads that are
   serialisations of re-laid-out messages *)
Theorem C17_relayout_invariance : forall e peer pp from rs tcp m1 m2 x1 x2,
  relaid m1 m2 -> ctx_rel relaid x1 x2 ->
  opt_rel relaid (pm_written e peer pp from rs tcp m1 x1) (pm_written e peer pp from rs tcp m2 x2) /\
  (fits_opt (pm_written e peer pp from rs tcp m1 x1) = fits_opt (pm_written e peer pp from rs tcp m2 x2) ->
   res_ctx_rel relaid (process_message e peer pp from rs tcp m1 x1) (process_message e peer pp from rs tcp m2 x2)).
Proof.
  apply (process_message_sim relaid).
  - exact relaid_start.
  - apply relaid_plain_get; vm_compute; reflexivity.
  - apply relaid_plain_get; vm_compute; reflexivity.
  - apply relaid_plain_get; vm_compute; reflexivity.
  - apply relaid_plain_raw; vm_compute; reflexivity.
  - apply relaid_plain_raw; vm_compute; reflexivity.
  - apply relaid_plain_raw; vm_compute; reflexivity.
  - exact relaid_top_via.
  - exact relaid_pop_via.
  - exact relaid_set_received.
  - exact relaid_all_vias.
  - exact relaid_route_head.
  - exact relaid_pop_route.
  - exact relaid_add_via.
  - exact relaid_add_rr.
  - exact relaid_has_rr.
Qed.

(* what two re-laid-out messages have in common: the flattened decoded Via and Route lists and
   every other header, in order *)
Definition flat {A} (K : kind A) (hs : list header) : list A :=
  flat_map (fun h => match line K h with Some l => l | None => [] end) hs.
Definition flatten_vias (m : message) : list via_param := flat via_kind (m_headers m).
Definition flatten_routes (m : message) : list route_param := flat route_kind (m_headers m).
Definition is_list_header (h : header) : bool :=
  same_header (h_name h) (s2b "Via") || same_header (h_name h) (s2b "Route").
Definition plain_headers (m : message) : list header :=
  filter (fun h => negb (match line via_kind h, line route_kind h with None, None => false | _, _ => true end)) (m_headers m).

Lemma flat_app {A} (K : kind A) a b : flat K (a ++ b) = flat K a ++ flat K b.
Proof. unfold flat. apply flat_map_app. Qed.
Lemma block_flat {A} (K : kind A) b l : block K b l -> flat K b = l.
Proof.
  induction 1 as [|h b l0 ls Hl Hne Hb IH]; [reflexivity|]. unfold flat in *. cbn [flat_map]. rewrite Hl, IH. reflexivity.
Qed.
Lemma block_flat_other {A B} (K : kind A) (K' : kind B) b l :
  same_header (k_name K) (k_name K') = false -> block K b l -> flat K' b = [].
Proof.
  intros Hd. induction 1 as [|h b l0 ls Hl Hne Hb IH]; [reflexivity|]. unfold flat in *. cbn [flat_map]. rewrite IH.
  unfold line. rewrite (same_header_through _ _ (k_name K') (line_name K _ _ Hl)), Hd. reflexivity.
Qed.
Lemma lay_flat hs1 hs2 : lay via_kind route_kind hs1 hs2 ->
  flat via_kind hs1 = flat via_kind hs2 /\ flat route_kind hs1 = flat route_kind hs2.
Proof.
  induction 1 as [|h r1 r2 H IH|c1 c2 l r1 r2 H1 H2 H IH|c1 c2 l r1 r2 H1 H2 H IH].
  - split; reflexivity.
  - destruct IH as [I1 I2]. unfold flat in *. cbn [flat_map]. rewrite I1, I2. split; reflexivity.
  - destruct IH as [I1 I2]. rewrite !flat_app, (block_flat _ _ _ H1), (block_flat _ _ _ H2), I1, I2.
    rewrite (block_flat_other via_kind route_kind _ _ dist_vr H1), (block_flat_other via_kind route_kind _ _ dist_vr H2). split; reflexivity.
  - destruct IH as [I1 I2]. rewrite !flat_app, (block_flat _ _ _ H1), (block_flat _ _ _ H2), I1, I2.
    rewrite (block_flat_other route_kind via_kind _ _ dist_rv H1), (block_flat_other route_kind via_kind _ _ dist_rv H2). split; reflexivity.
Qed.
Lemma decode_flat hs : snd (decode_all_vias hs) = flat via_kind hs.
Proof.
  induction hs as [|h r IH]; [reflexivity|]. cbn [decode_all_vias]. destruct (decode_all_vias r) as [r' vs]. cbn [snd] in IH.
  unfold flat in *. cbn [flat_map]. rewrite <- IH. unfold line. cbn [k_name via_kind k_proj k_parse].
  destruct (same_header (h_name h) (s2b "Via")); [|reflexivity].
  destruct (h_val h); try reflexivity. destruct (parse_via s); reflexivity.
Qed.

Definition is_line (h : header) : bool :=
  match line via_kind h, line route_kind h with None, None => false | _, _ => true end.
Lemma block_filter_via c l : block via_kind c l -> filter (fun h => negb (is_line h)) c = [].
Proof.
  induction 1 as [|h b l0 ls Hl Hne Hb IH]; [reflexivity|]. cbn [filter]. unfold is_line at 1. rewrite Hl. cbn [negb]. exact IH.
Qed.
Lemma block_filter_route c l : block route_kind c l -> filter (fun h => negb (is_line h)) c = [].
Proof.
  induction 1 as [|h b l0 ls Hl Hne Hb IH]; [reflexivity|]. cbn [filter]. unfold is_line at 1. rewrite Hl.
  destruct (line via_kind h); cbn [negb]; exact IH.
Qed.
Lemma lay_filter hs1 hs2 : lay via_kind route_kind hs1 hs2 ->
  filter (fun h => negb (is_line h)) hs1 = filter (fun h => negb (is_line h)) hs2.
Proof.
  induction 1 as [|h r1 r2 H IH|c1 c2 l r1 r2 B1 B2 H IH|c1 c2 l r1 r2 B1 B2 H IH].
  - reflexivity.
  - cbn [filter]. rewrite IH. reflexivity.
  - rewrite !filter_app, IH, (block_filter_via _ _ B1), (block_filter_via _ _ B2). reflexivity.
  - rewrite !filter_app, IH, (block_filter_route _ _ B1), (block_filter_route _ _ B2). reflexivity.
Qed.
Theorem C17_written_relaid : forall w1 w2, relaid w1 w2 ->
  m_start w1 = m_start w2 /\ m_body w1 = m_body w2 /\
  flatten_vias w1 = flatten_vias w2 /\ flatten_routes w1 = flatten_routes w2 /\
  plain_headers w1 = plain_headers w2.
Proof.
  intros w1 w2 (H1 & H2 & H3). split; [exact H1|]. split; [exact H2|].
  destruct (lay_flat _ _ H3) as [F1 F2]. split; [exact F1|]. split; [exact F2|].
  exact (lay_filter _ _ H3).
Qed.

(* i. PopVia then flatten gives the tail -- in any layout *)
Theorem C17_pop_via_flat : forall m1 m2, relaid m1 m2 ->
  flatten_vias (fst (s_pop_via m1)) = flatten_vias (fst (s_pop_via m2)) /\ snd (s_pop_via m1) = snd (s_pop_via m2) /\
  flatten_vias m1 = flatten_vias m2 /\ snd (s_all_via_params m1) = snd (s_all_via_params m2) /\
  snd (next_response_hop m1) = snd (next_response_hop m2).
Proof.
  intros m1 m2 H. destruct (relaid_pop_via m1 m2 H) as [(_ & _ & L) E]. destruct (lay_flat _ _ L) as [F _].
  split; [exact F|]. split; [exact E|]. destruct H as (H1 & H2 & H3). destruct (lay_flat _ _ H3) as [F' _].
  split; [exact F'|]. split; [apply (relaid_all_vias m1 m2); repeat split; assumption|].
  assert (N : msim relaid next_response_hop).
  { apply msim_mbind; [exact relaid_top_via|]. intros v. destruct (via_get_received v); apply msim_mret. }
  apply N. repeat split; assumption.
Qed.

(* i. Route: tryRemoveTopRoute / getNextRequestHopByRoute / PopRoute act on the flattened list *)
Lemma relaid_try_remove_top_route c from : msim relaid (try_remove_top_route c from).
Proof. apply msim_try_remove_top_route; [exact relaid_route_head|exact relaid_pop_route]. Qed.
Lemma relaid_next_hop_by_route keep : msim relaid (next_hop_by_route keep).
Proof. apply msim_next_hop_by_route; [exact relaid_route_head|exact relaid_pop_route]. Qed.
Theorem C17_route_layout : forall c from keep m1 m2, relaid m1 m2 ->
  (snd (try_remove_top_route c from m1) = snd (try_remove_top_route c from m2) /\
   flatten_routes (fst (try_remove_top_route c from m1)) = flatten_routes (fst (try_remove_top_route c from m2))) /\
  (snd (next_hop_by_route keep m1) = snd (next_hop_by_route keep m2) /\
   flatten_routes (fst (next_hop_by_route keep m1)) = flatten_routes (fst (next_hop_by_route keep m2))) /\
  (snd (s_pop_route m1) = snd (s_pop_route m2) /\
   flatten_routes (fst (s_pop_route m1)) = flatten_routes (fst (s_pop_route m2))).
Proof.
  intros c from keep m1 m2 H.
  destruct (relaid_try_remove_top_route c from m1 m2 H) as [(_ & _ & L1) E1].
  destruct (relaid_next_hop_by_route keep m1 m2 H) as [(_ & _ & L2) E2].
  destruct (relaid_pop_route m1 m2 H) as [(_ & _ & L3) E3].
  repeat split; try assumption; [exact (proj2 (lay_flat _ _ L1))|exact (proj2 (lay_flat _ _ L2))|exact (proj2 (lay_flat _ _ L3))].
Qed.
(* a Via list cut differently: "a,b" on one line / "a" and "b" on two lines are re-layouts *)
Example C17_ex_relaid :
  forall a b r, parse_via a = Ok [r] -> forall x y, parse_via b = Ok [x; y] -> forall st bd pre post,
  relaid {| m_start := st; m_headers := pre ++ [{| h_name := s2b "Via"; h_val := HRaw a |}; {| h_name := s2b "v"; h_val := HRaw b |}] ++ post; m_body := bd |}
         {| m_start := st; m_headers := pre ++ [{| h_name := s2b "VIA"; h_val := HVia [r; x; y] |}] ++ post; m_body := bd |}.
Proof.
  intros a b r Ha x y Hb st bd pre post. split; [reflexivity|]. split; [reflexivity|]. cbn [m_headers].
  assert (E1 : same_header (s2b "Via") (s2b "Via") = true) by (vm_compute; reflexivity).
  assert (E2 : same_header (s2b "v") (s2b "Via") = true) by (vm_compute; reflexivity).
  assert (E3 : same_header (s2b "VIA") (s2b "Via") = true) by (vm_compute; reflexivity).
  apply lay_app; [apply lay_refl|].
  apply (lay_own via_kind route_kind _ _ [r; x; y]); [| |apply lay_refl].
  - change [r; x; y] with ([r] ++ [x; y] ++ []).
    constructor; [unfold line; cbn [k_name k_proj k_parse via_kind h_name h_val]; rewrite E1, Ha; reflexivity|discriminate|].
    constructor; [unfold line; cbn [k_name k_proj k_parse via_kind h_name h_val]; rewrite E2, Hb; reflexivity|discriminate|constructor].
  - change [r; x; y] with ([r; x; y] ++ []).
    constructor; [unfold line; cbn [k_name k_proj k_parse via_kind h_name h_val]; rewrite E3; reflexivity|discriminate|constructor].
Qed.

(* ================================================================== Part 6: concrete twins *)
Definition crlf_s : string := String (ascii_of_nat 13) (String (ascii_of_nat 10) EmptyString).
Definition lines (l : list string) : bytes := flat_map (fun s => s2b s ++ s2b crlf_s) l.

Definition ex_lc : listen_cfg :=
  {| lc_addr := s2b "10.0.0.1"; lc_udp := 5060%Z; lc_tcp := 5060%Z; lc_backends := []; lc_dynamic := false;
     lc_no_received := false; lc_def_route := false; lc_must_rr := true |}.
Definition ex_cfg : cfg :=
  {| c_name := s2b "proxy.example.org"; c_keep_next_hop := false; c_dialog_timeout := 3600%Z;
     c_routes := []; c_hosts := []; c_listens := [ex_lc] |}.

(* one request, spelled canonically / compact and odd case / with the Via and Route lines
   joined / both *)
Definition req_canon : bytes :=
  lines ["INVITE sip:bob@example.net SIP/2.0";
         "Via: SIP/2.0/UDP 10.0.0.9:5070;branch=z9hG4bK1;rport";
         "Via: SIP/2.0/UDP 10.0.0.8:5071;branch=z9hG4bK0";
         "Route: <sip:10.0.0.8:5071;lr>"; "Route: <sip:10.0.0.7:5062;lr>";
         "Max-Forwards: 70"; "From: <sip:alice@a.example>;tag=1"; "To: <sip:bob@example.net>";
         "Call-ID: abc"; "CSeq: 1 INVITE"; "Expires: 60"; "Content-Length: 4"; ""; "body"]%string.
Definition req_respelled : bytes :=
  lines ["INVITE sip:bob@example.net SIP/2.0";
         "v: SIP/2.0/UDP 10.0.0.9:5070;branch=z9hG4bK1;rport";
         "VIA: SIP/2.0/UDP 10.0.0.8:5071;branch=z9hG4bK0";
         "rOUTE: <sip:10.0.0.8:5071;lr>"; "ROUTE: <sip:10.0.0.7:5062;lr>";
         "max-forwards: 70"; "f: <sip:alice@a.example>;tag=1"; "T: <sip:bob@example.net>";
         "i: abc"; "cSeQ: 1 INVITE"; "EXPIRES: 60"; "l: 4"; ""; "body"]%string.
Definition req_relaid : bytes :=
  lines ["INVITE sip:bob@example.net SIP/2.0";
         "Via: SIP/2.0/UDP 10.0.0.9:5070;branch=z9hG4bK1;rport,SIP/2.0/UDP 10.0.0.8:5071;branch=z9hG4bK0";
         "Route: <sip:10.0.0.8:5071;lr>,<sip:10.0.0.7:5062;lr>";
         "Max-Forwards: 70"; "From: <sip:alice@a.example>;tag=1"; "To: <sip:bob@example.net>";
         "Call-ID: abc"; "CSeq: 1 INVITE"; "Expires: 60"; "Content-Length: 4"; ""; "body"]%string.
Definition req_both : bytes :=
  lines ["INVITE sip:bob@example.net SIP/2.0";
         "V: SIP/2.0/UDP 10.0.0.9:5070;branch=z9hG4bK1;rport,SIP/2.0/UDP 10.0.0.8:5071;branch=z9hG4bK0";
         "route: <sip:10.0.0.8:5071;lr>,<sip:10.0.0.7:5062;lr>";
         "MAX-forwards: 70"; "F: <sip:alice@a.example>;tag=1"; "t: <sip:bob@example.net>";
         "I: abc"; "CSEQ: 1 INVITE"; "expires: 60"; "L: 4"; ""; "body"]%string.

Definition run1 (d : bytes) : res (state * list output) :=
  proxy_step all_fixed ex_cfg 0%Z (s2b "z9hG4bKpx") (init_state ex_cfg 0%Z []) (EvUdp 0 (s2b "10.0.0.9") 5070%Z d).

(* what is compared on an output: destination; start line; the flattened decoded Via and
   Route lists; every other header under its canonical name with its printed value; body *)
Definition observe (o : output) :=
  (fst o,
   match parse_message (snd o) with
   | Ok (m, _) => Some (m_start m, flatten_vias m, flatten_routes m,
                        map (fun h => (canon (h_name h), hval_print (h_val h))) (plain_headers m),
                        m_body m)
   | _ => None
   end).
Definition observe_run (r : res (state * list output)) :=
  match r with Ok (st, outs) => Some (st, map observe outs) | _ => None end.

(* the parsed inputs are related as the theorems require *)
Example C17_ex_inputs :
  match parse_message req_canon, parse_message req_respelled, parse_message req_relaid with
  | Ok (m, _), Ok (ms, _), Ok (ml, _) =>
      canon_names ms = canon_names m /\ map h_name (m_headers ms) = map s2b ["v"; "VIA"; "rOUTE"; "ROUTE"; "max-forwards"; "f"; "T"; "i"; "cSeQ"; "EXPIRES"; "l"]%string /\
      flatten_vias ml = flatten_vias m /\ flatten_routes ml = flatten_routes m /\ plain_headers ml = plain_headers m /\
      List.length (m_headers ml) + 2 = List.length (m_headers m)
  | _, _, _ => False
  end.
Proof. vm_compute. repeat split; reflexivity. Qed.

Example C17_ex_twins :
  observe_run (run1 req_respelled) = observe_run (run1 req_canon) /\
  observe_run (run1 req_relaid) = observe_run (run1 req_canon) /\
  observe_run (run1 req_both) = observe_run (run1 req_canon) /\
  (* non-trivial: one datagram to the popped Route's host, our Via on top of the two received
     ones, our Record-Route, one Route left *)
  match observe_run (run1 req_canon) with
  | Some (_, [(d, Some (_, vias, routes, others, body))]) =>
      d = DUdp (s2b "10.0.0.8") 5071%Z /\ List.length vias = 3 /\ List.length routes = 1 /\
      map fst others = map s2b ["record-route"; "max-forwards"; "from"; "to"; "call-id"; "cseq"; "expires"; "content-length"]%string /\
      body = s2b "body"
  | _ => False
  end.
Proof. vm_compute. repeat split; reflexivity. Qed.

(* COUNTEREXAMPLE to the invariance without the size condition: FailOverClientTransport /
   Backend.Send give up on what does not fit a UDP datagram (65507 bytes; failover_send,
   backend_send), and a compact name is shorter.  The same message (any body of 65445 bytes)
   with one header spelled "s" fits, spelled "Subject" it does not: relayed in one case,
   silently dropped in the other.  Hence the condition [fits_opt .. = fits_opt ..] in
   C17_respell_invariance / C17_relayout_invariance cannot be removed. *)
Definition w_big (name : string) (bd : bytes) : message :=
  {| m_start := SReq (s2b "OPTIONS")
                     (ASip {| u_scheme := s2b "sip"; u_user := []; u_password := []; u_host := s2b "h.example";
                              u_port := 0%Z; u_params := []; u_headers := [] |}) (s2b "SIP/2.0");
     m_headers := [{| h_name := s2b name; h_val := HRaw (s2b "x") |}];
     m_body := bd |}.
Example C17_size_counterexample : forall bd, Z.of_nat (List.length bd) = 65445%Z ->
  respelled (w_big "s" bd) (w_big "Subject" bd) /\
  fits_datagram (write_message (w_big "s" bd)) = true /\
  fits_datagram (write_message (w_big "Subject" bd)) = false.
Proof.
  intros bd H. split.
  { split; [reflexivity|]. split; [reflexivity|]. constructor; [|constructor]. split; [vm_compute; reflexivity|reflexivity]. }
  split; unfold fits_datagram, write_message, w_big; cbn [m_start m_headers m_body]; rewrite H, !app_assoc;
    match goal with |- context [List.length (?p ++ bd)] =>
      rewrite (app_length p bd); let n := eval vm_compute in (List.length p) in change (List.length p) with n end;
    unfold max_datagram; [apply Z.leb_le|apply Z.leb_gt]; lia.
Qed.
Example C17_size_counterexample_nonvacuous : exists bd : bytes, Z.of_nat (List.length bd) = 65445%Z.
Proof. exists (repeat "x"%char (Z.to_nat 65445)). rewrite repeat_length, Z2Nat.id; lia. Qed.

Print Assumptions C17_same_header_equiv.
Print Assumptions C17_same_header_sym.
Print Assumptions C17_same_header_trans.
Print Assumptions compact_table_sym.
Print Assumptions respelled_canon_names.
Print Assumptions typed_get_respell.
Print Assumptions decode_all_vias_respell.
Print Assumptions add_via_respell.
Print Assumptions add_record_route_respell.
Print Assumptions C17_one_content_length.
Print Assumptions C17_written_respelled.
Print Assumptions process_message_sim.
Print Assumptions C17_respell_invariance.
Print Assumptions C17_respell_invariance_fun.
Print Assumptions C17_relayout_invariance.
Print Assumptions C17_written_relaid.
Print Assumptions C17_pop_via_flat.
Print Assumptions C17_route_layout.
Print Assumptions C17_ex_twins.
Print Assumptions C17_size_counterexample.

(* ================================================================== Part 7: one datagram, event level *)
(* the same at the level of proxy_step for a datagram: two datagrams that decode to related
   messages leave the SAME state and produce related outputs (generic in the relation) *)
Lemma proxy_step_udp_rel (R : message -> message -> Prop) fx c now br st li src sport d1 d2 m1 m2 r1 r2 lc p :
  (forall e peer pp from rs tcp a b x y, R a b -> ctx_rel R x y ->
     opt_rel R (pm_written e peer pp from rs tcp a x) (pm_written e peer pp from rs tcp b y) /\
     (fits_opt (pm_written e peer pp from rs tcp a x) = fits_opt (pm_written e peer pp from rs tcp b y) ->
      res_ctx_rel R (process_message e peer pp from rs tcp a x) (process_message e peer pp from rs tcp b y))) ->
  parse_message d1 = Ok (m1, r1) -> parse_message d2 = Ok (m2, r2) -> R m1 m2 ->
  nth_opt (c_listens c) li = Some lc -> nth_p (st_proxies st) li = Some p ->
  let e := mk_env fx c (item_rs_of (fx_wiring fx)) li lc now br in
  let x := {| x_learned := st_learned st; x_p := p; x_conns := st_conns st; x_world := st_world st; x_outs := [] |} in
  let from := {| t_kind := KUdp; t_addr := lc_addr lc; t_port := lc_udp lc |} in
  fits_opt (pm_written e src sport from (e_item_rs e) None m1 x) = fits_opt (pm_written e src sport from (e_item_rs e) None m2 x) ->
  match proxy_step fx c now br st (EvUdp li src sport d1), proxy_step fx c now br st (EvUdp li src sport d2) with
  | Ok (st1, o1), Ok (st2, o2) => st1 = st2 /\ outs_rel R o1 o2
  | Err, Err => True
  | Panic, Panic => True
  | _, _ => False
  end.
Proof.
  intros Hsim P1 P2 HR Hlc Hp e x from Hf. cbn [proxy_step]. rewrite Hlc, P1, P2. unfold run_ctx. rewrite Hp.
  fold e. fold from. fold x.
  destruct (Hsim e src sport from (e_item_rs e) None m1 m2 x x HR (ctx_rel_refl R x)) as [_ S]. specialize (S Hf).
  destruct (process_message e src sport from (e_item_rs e) None m1 x) as [x1| |];
    destruct (process_message e src sport from (e_item_rs e) None m2 x) as [x2| |]; cbn [res_ctx_rel] in S; try contradiction; try exact I.
  destruct S as (S1 & S2 & S3 & S4 & S5). rewrite S1, S2, S3, S4. split; [reflexivity|exact S5].
Qed.
Theorem C17_respell_udp : forall fx c now br st li src sport d1 d2 m1 m2 r1 r2 lc p,
  parse_message d1 = Ok (m1, r1) -> parse_message d2 = Ok (m2, r2) -> respelled m1 m2 ->
  nth_opt (c_listens c) li = Some lc -> nth_p (st_proxies st) li = Some p ->
  let e := mk_env fx c (item_rs_of (fx_wiring fx)) li lc now br in
  let x := {| x_learned := st_learned st; x_p := p; x_conns := st_conns st; x_world := st_world st; x_outs := [] |} in
  let from := {| t_kind := KUdp; t_addr := lc_addr lc; t_port := lc_udp lc |} in
  fits_opt (pm_written e src sport from (e_item_rs e) None m1 x) = fits_opt (pm_written e src sport from (e_item_rs e) None m2 x) ->
  match proxy_step fx c now br st (EvUdp li src sport d1), proxy_step fx c now br st (EvUdp li src sport d2) with
  | Ok (st1, o1), Ok (st2, o2) => st1 = st2 /\ outs_rel respelled o1 o2
  | Err, Err => True
  | Panic, Panic => True
  | _, _ => False
  end.
Proof. intros fx c now br st li src sport d1 d2 m1 m2 r1 r2 lc p. apply proxy_step_udp_rel. exact C17_respell_invariance. Qed.
Theorem C17_relayout_udp : forall fx c now br st li src sport d1 d2 m1 m2 r1 r2 lc p,
  parse_message d1 = Ok (m1, r1) -> parse_message d2 = Ok (m2, r2) -> relaid m1 m2 ->
  nth_opt (c_listens c) li = Some lc -> nth_p (st_proxies st) li = Some p ->
  let e := mk_env fx c (item_rs_of (fx_wiring fx)) li lc now br in
  let x := {| x_learned := st_learned st; x_p := p; x_conns := st_conns st; x_world := st_world st; x_outs := [] |} in
  let from := {| t_kind := KUdp; t_addr := lc_addr lc; t_port := lc_udp lc |} in
  fits_opt (pm_written e src sport from (e_item_rs e) None m1 x) = fits_opt (pm_written e src sport from (e_item_rs e) None m2 x) ->
  match proxy_step fx c now br st (EvUdp li src sport d1), proxy_step fx c now br st (EvUdp li src sport d2) with
  | Ok (st1, o1), Ok (st2, o2) => st1 = st2 /\ outs_rel relaid o1 o2
  | Err, Err => True
  | Panic, Panic => True
  | _, _ => False
  end.
Proof. intros fx c now br st li src sport d1 d2 m1 m2 r1 r2 lc p. apply proxy_step_udp_rel. exact C17_relayout_invariance. Qed.
Print Assumptions C17_respell_udp.
Print Assumptions C17_relayout_udp.
