(* proofs/C07_bridge_tcp.v — JUDGE BRIDGE for property C07 (received / rport stamping), TCP events.

   proofs/C07_bridge.v proves that the executable judge [SpecProxy.judge_C07_event] answers 0 on what the
   MODEL emits for a datagram ([EvUdp]).  This file lifts the bridge to a request that arrives on an
   ACCEPTED TCP connection ([EvTcpData cid data]):

   Part 1  the judge on an [EvTcpData] event, spelled out (the bookkeeping [js_conns] gives the listen entry
           and the peer the judge stamps with)
   Part 2  C07_judge_bridge_tcp_msg: the process_message-level statement
   Part 3  tcp_messages_single: a chunk holding exactly one message (only blanks behind it) is one
           process_message; C07_judge_bridge_tcp_step: the proxy_step-level statement
   Part 4  what EvTcpAccept records in the model state (the connection record the hypotheses of Part 2 / 3
           talk about), so that the hypotheses are those of a connection the model itself accepted
   Part 5  example (accept, then a request with three Via entries, a spoofed received and a valueless rport)
           and a sensitivity check
   Everything heavy is reused from C07_bridge.v ([pipeline2] is already stated for any server transport, any
   received-support flag and any connection; [out_accepted], [via_read], [good_of_parse], ...).
   No axioms, no admits.

   WHAT THE JUDGE USES OF A TCP EVENT (SpecProxy.judge_C07_event):
     - [j_input]: the connection must be in the judge's bookkeeping: (cid, (li, ip, port)); the judge then works
       with listen entry li, source ip, source port port, and ji_tcp = true;
     - [received_on lc] of THAT listen entry decides whether the top entry is expected stamped;
     - ji_tcp only matters through "negb (ji_tcp i) || single_message m": for a chunk with several
       messages the judge does not look at all (answer 0).
     ([listener_port lc true] is used by the judges of C02/C03/C13, not by the one of C07.)

   HYPOTHESES THAT THE UDP THEOREM DID NOT NEED
     H_conn   find (fun y => Nat.eqb (fst y) cid) (js_conns stj) = Some (cid, (li, cn_peer cn, cn_peer_port cn)):
              the judge's record of the connection carries the listen entry and the peer address / port of the
              model's connection record [cn] (for UDP the event itself carries li, src, sport).
     H_mark   (li < dial_mark)%nat: that record is one of an ACCEPTED connection (the judge files the connections
              the proxy dialled with the listen entry + SpecProxy.dial_mark).
     H_from   cn_from cn = {| t_kind := KTcpListen; t_addr := lc_addr lc; t_port := lc_tcp lc |}: the connection is
              an ACCEPTED one, read by the listen entry's TCP server transport (a dialled connection is read by
              a KTcpConn transport with port 0; its own Via entry is readable as well, but that is another
              theorem: C20/TB).  Needed for [t_ok]: learning may file this transport, and its own-Via rendering
              must be readable by the judge.
     H_rs     cn_received_support cn = received_on lc: the flag STORED IN THE CONNECTION RECORD when it was
              accepted is the listen entry's one.  For UDP the flag is e_item_rs e, computed at the event, and
              the theorem assumed fx_wiring fx = true; for TCP the flag was computed when the connection was
              accepted, so the statement is about the record (Part 4: with fx_wiring fx = true EvTcpAccept
              stores exactly received_on lc).  In exchange fx_wiring fx = true is NOT a hypothesis here.
     step level only:
     H_find   find (fun y => Nat.eqb (cn_id y) cid) (st_conns st) = Some cn  (which record the model uses),
     H_li     cn_li cn = li  (the model takes the listen entry from the record, the judge from its bookkeeping),
     H_one    trim_left rest = []  (nothing but blanks behind the message: tcp_messages stops after it).
   NOT needed although announced in the task text: cn_id cn = cid at the message level (the judge never looks at
   the id once the record is found; at the step level it follows from H_find), and the judge's
   [single_message jin]: if it is false the judge answers 0 without looking, if it is true the proof goes
   through; so the theorems hold in both cases and the condition is not a hypothesis.  (It cannot be derived
   from H_one in general: the judge takes the body length from the FIRST Content-Length / l header, the model
   from get_header_int; they agree in the domain of C01, which is not assumed here.) *)
From Coq Require Import List Ascii String ZArith NArith Bool Lia.
From Coq Require Import ZifyBool ZifyNat ZifyN.
From Model Require Import Bytes BytesLemmas Uri Hdr Message Msg Rx Glob StaticRoute RoundRobin Pins Wire
     Proxy RunProxy SpecProxy SpecC14.
From Model.proofs Require C06.
From Model.proofs Require Import MsgLemmas C14_via C01 C07 C07_bridge.
Import ListNotations.
Open Scope Z_scope.
Open Scope list_scope.

(* ====================================================================== Part 1: the judge on EvTcpData *)
Lemma judge_C07_tcp_unfold pc st cid data outs closed li ip port :
  find (fun y => Nat.eqb (fst y) cid) (js_conns st) = Some (cid, (li, ip, port)) -> (li < dial_mark)%nat ->
  judge_C07_event pc st (EvTcpData cid data) outs closed =
  match j_read data, nth_opt (c_listens (pc_cfg pc)) li with
  | Some m, Some lc =>
      if (negb (j_is_response m) && jm_has_cl m && (negb true || single_message m))%bool then
        match opt_all (map j_via (j_flat_via (jm_headers m))) with
        | Some (v1 :: vrest) =>
            first_nonzero (map (jout (stamped (received_on lc) ip port v1 :: vrest)) (msgs_of outs))
        | _ => O
        end
      else O
  | _, _ => O
  end.
Proof. intros H M. unfold judge_C07_event. rewrite (j_input_accepted st cid li ip port data H M). reflexivity. Qed.

(* ====================================================================== Part 2: one message *)
(* REQUESTED AND PROVED.  For every configuration, judge state, model connection record [cn] of an accepted
   connection, chunk that both readers accept, every model state: the judge of C07 accepts what process_message
   appends for the message read from connection cid (any sub-selection [keep] of it), labelled as the
   correspondence run labels it.  Same domain hypotheses as C07_judge_bridge_udp (with the peer of the
   connection in the place of the datagram's source), plus H_conn, H_from, H_rs (see the head of the file). *)
Theorem C07_judge_bridge_tcp_msg :
  forall (pc : proxy_case) (stj : jstate) (fx : fixes) (now : Z) (br : bytes) (cid li : nat) (lc : listen_cfg)
         (cn : conn) (data : bytes) (jin : jmsg) (m : message) (rest : bytes)
         (x x' : ctx) (pre : list output) (keep : output -> bool) (closed : list nat),
  let c := pc_cfg pc in
  let e := mk_env fx c (item_rs_of (fx_wiring fx)) li lc now br in
  nth_opt (c_listens c) li = Some lc ->
  find (fun y => Nat.eqb (fst y) cid) (js_conns stj) = Some (cid, (li, cn_peer cn, cn_peer_port cn)) ->
  (li < dial_mark)%nat ->
  cn_from cn = {| t_kind := KTcpListen; t_addr := lc_addr lc; t_port := lc_tcp lc |} ->
  cn_received_support cn = received_on lc ->
  j_read data = Some jin -> parse_message data = Ok (m, rest) ->
  via_domain m ->
  src_ok (cn_peer cn) -> branch_ok br ->
  safe1 (lc_addr lc) = true -> 0 <= lc_udp lc <= 65535 -> 0 <= lc_tcp lc <= 65535 ->
  (forall h t, alookup h (x_learned x) = Some t -> safe1 (t_addr t) = true /\ 0 <= t_port t <= 65535) ->
  process_message e (cn_peer cn) (cn_peer_port cn) (cn_from cn) (cn_received_support cn) (Some (cn_id cn)) m x
    = Ok x' ->
  x_outs x' = x_outs x ++ pre ->
  judge_C07_event pc stj (EvTcpData cid data) (map lab (filter keep pre)) closed = O.
Proof.
  intros pc stj fx now br cid li lc cn data jin m rest x x' pre keep closed c e
         EL HC HM HFr HRS HJ HP HV Hsrc Hbr Ha Hu Ht HLn EP EO.
  subst c. rewrite (judge_C07_tcp_unfold pc stj cid data _ closed li _ _ HC HM). rewrite HJ, EL.
  destruct (negb (j_is_response jin) && jm_has_cl jin && (negb true || single_message jin))%bool eqn:Cond;
    [|reflexivity].
  destruct (read_agree _ _ _ _ HJ HP) as (_ & _ & _ & Bd & PS).
  destruct (read_agree_all _ _ _ _ HJ HP) as (EH & PR).
  assert (Hq : is_request m = true).
  { unfold is_request. rewrite (parse_start_line_kind _ _ PS).
    apply andb_true_iff in Cond. destruct Cond as [Cond _]. apply andb_true_iff in Cond.
    destruct Cond as [Cond _]. exact Cond. }
  assert (Hst : start_ok (start_line_print (m_start m))).
  { unfold is_request in Hq. destruct (m_start m) as [meth uri ver|] eqn:Em; [|discriminate Hq].
    exact (request_line_ok _ _ _ _ PS). }
  assert (G0 : good m) by (apply good_of_parse; assumption).
  rewrite EH. rewrite (via_read (m_headers m)) by (eapply Forall_impl; [|exact G0]; intros h Gh _; exact Gh).
  fold (via_hdrs m).
  destruct (flat_view (via_hdrs m)) as [|v vrest] eqn:FV; [reflexivity|]. cbn [map].
  apply first_nonzero_zero. intros o Ho.
  unfold msgs_of in Ho. apply filter_In in Ho. destruct Ho as [Ho Nd].
  apply in_map_iff in Ho. destruct Ho as (o0 & <- & Ho0). apply filter_In in Ho0. destruct Ho0 as [Ho0 _].
  assert (Hfrom : t_ok (e_branch e) (cn_from cn)) by (rewrite HFr; apply t_ok_intro; assumption).
  assert (HL : learned_ok (e_branch e) (x_learned x)).
  { intros h t A. destruct (HLn h t A) as [A1 A2]. apply t_ok_intro; assumption. }
  assert (HF : forall t0, first_transport (e_lc e) = Some t0 -> t_ok (e_branch e) t0).
  { intros t0 E0. unfold first_transport in E0. change (e_lc e) with lc in E0.
    destruct (Z.ltb 0 (lc_udp lc)); [injection E0 as <-; apply t_ok_intro; assumption|].
    destruct (Z.ltb 0 (lc_tcp lc)); [injection E0 as <-; apply t_ok_intro; assumption|discriminate E0]. }
  destruct (pipeline2 e (cn_peer cn) (cn_peer_port cn) (cn_from cn) (cn_received_support cn) (Some (cn_id cn))
                      m x x' Hq G0 Hsrc Hfrom HL HF EP) as (outs & E1 & F).
  rewrite E1 in EO. apply app_inv_head in EO. subst outs.
  rewrite Forall_forall in F. specialize (F o0 Ho0). rewrite HRS in F.
  exact (out_accepted (e_branch e) (received_on lc) (cn_peer cn) (cn_peer_port cn) m o0 v vrest G0 Hst Bd FV F Nd).
Qed.

(* ====================================================================== Part 3: one step of the proxy *)
(* only keep-alive blanks left: the reader waits, nothing happens, whatever the fuel *)
Lemma tcp_messages_blank f e cn s x : trim_left s = [] -> tcp_messages f e cn s x = Ok x.
Proof. intros T. destruct f as [|f]; cbn [tcp_messages]; [reflexivity|]. rewrite T. reflexivity. Qed.

(* a chunk that decodes does not consist of blanks *)
Lemma parse_message_nonblank data m rest : parse_message data = Ok (m, rest) -> trim_left data <> [].
Proof.
  intros P E. unfold parse_message in P. rewrite E in P.
  cbv beta iota zeta delta [read_line] in P. discriminate P.
Qed.

(* a chunk holding exactly one message: tcp_messages = process_message of that message *)
Lemma tcp_messages_single e cn data x m rest :
  parse_message data = Ok (m, rest) -> trim_left rest = [] ->
  tcp_messages (S (List.length data)) e cn data x =
  process_message e (cn_peer cn) (cn_peer_port cn) (cn_from cn) (cn_received_support cn) (Some (cn_id cn)) m x.
Proof.
  intros P T. cbn [tcp_messages].
  destruct (trim_left data) as [|c0 r0] eqn:TD; [exfalso; exact (parse_message_nonblank _ _ _ P TD)|].
  rewrite P.
  destruct (process_message e (cn_peer cn) (cn_peer_port cn) (cn_from cn) (cn_received_support cn)
                            (Some (cn_id cn)) m x) as [x1| |]; [|reflexivity|reflexivity].
  apply tcp_messages_blank. exact T.
Qed.

Lemma find_conn_id cid cs cn : find (fun y => Nat.eqb (cn_id y) cid) cs = Some cn -> cn_id cn = cid.
Proof. intros H. apply find_some in H. destruct H as [_ H]. apply Nat.eqb_eq in H. exact H. Qed.

(* REQUESTED AND PROVED: the same for one step of the whole proxy.  [cn] is the record the model finds for
   the connection (H_find); a closed connection yields no output (the judge accepts the empty list). *)
Theorem C07_judge_bridge_tcp_step :
  forall (pc : proxy_case) (stj : jstate) (fx : fixes) (now : Z) (br : bytes) (st : state) (cid li : nat)
         (lc : listen_cfg) (cn : conn) (data : bytes) (jin : jmsg) (m : message) (rest : bytes)
         (st' : state) (outs : list output) (keep : output -> bool) (closed : list nat),
  nth_opt (c_listens (pc_cfg pc)) li = Some lc ->
  find (fun y => Nat.eqb (cn_id y) cid) (st_conns st) = Some cn ->
  find (fun y => Nat.eqb (fst y) cid) (js_conns stj) = Some (cid, (li, cn_peer cn, cn_peer_port cn)) ->
  (li < dial_mark)%nat ->
  cn_li cn = li ->
  cn_from cn = {| t_kind := KTcpListen; t_addr := lc_addr lc; t_port := lc_tcp lc |} ->
  cn_received_support cn = received_on lc ->
  j_read data = Some jin -> parse_message data = Ok (m, rest) -> trim_left rest = [] ->
  via_domain m -> src_ok (cn_peer cn) -> branch_ok br ->
  safe1 (lc_addr lc) = true -> 0 <= lc_udp lc <= 65535 -> 0 <= lc_tcp lc <= 65535 ->
  (forall h t, alookup h (st_learned st) = Some t -> safe1 (t_addr t) = true /\ 0 <= t_port t <= 65535) ->
  proxy_step fx (pc_cfg pc) now br st (EvTcpData cid data) = Ok (st', outs) ->
  judge_C07_event pc stj (EvTcpData cid data) (map lab (filter keep outs)) closed = O.
Proof.
  intros pc stj fx now br st cid li lc cn data jin m rest st' outs keep closed
         EL HF HC HM HLi HFr HRS HJ HP HT HV Hsrc Hbr Ha Hu Ht HLn H.
  subst li. cbn [proxy_step] in H. rewrite HF in H.
  destruct (cn_open cn); [|injection H as <- <-; apply judge_C07_nil].
  cbv zeta in H. rewrite EL in H. unfold run_ctx in H.
  destruct (nth_p (st_proxies st) (cn_li cn)) as [p|]; [|injection H as <- <-; apply judge_C07_nil].
  rewrite (tcp_messages_single _ cn data _ m rest HP HT) in H.
  destruct (process_message _ _ _ _ _ _ _ _) as [x'| |] eqn:E; try discriminate.
  injection H as <- <-.
  eapply (C07_judge_bridge_tcp_msg pc stj fx now br cid (cn_li cn) lc cn data jin m rest _ x' (x_outs x') keep closed
            EL HC HM HFr HRS HJ HP HV Hsrc Hbr Ha Hu Ht); [|exact E|reflexivity].
  exact HLn.
Qed.

(* ====================================================================== Part 4: what EvTcpAccept records *)
(* With the repaired wiring, the record the model files for an accepted connection satisfies H_from and H_rs
   (and carries the listen entry, peer and port the judge's bookkeeping [js_step] files for the same event:
   (js_next_conn, (li, src, sport))). *)
Definition accepted_conn (st : state) (li : nat) (lc : listen_cfg) (src : bytes) (sport : Z) : conn :=
  {| cn_id := w_next_conn (st_world st); cn_li := li; cn_open := true; cn_peer := src; cn_peer_port := sport;
     cn_from := {| t_kind := KTcpListen; t_addr := lc_addr lc; t_port := lc_tcp lc |};
     cn_received_support := received_on lc |}.

Lemma C07_tcp_accept_records fx c now br st li src sport lc p :
  fx_wiring fx = true -> nth_opt (c_listens c) li = Some lc -> nth_p (st_proxies st) li = Some p ->
  exists st', proxy_step fx c now br st (EvTcpAccept li src sport) = Ok (st', []) /\
              st_learned st' = st_learned st /\
              st_conns st' = st_conns st ++ [accepted_conn st li lc src sport].
Proof.
  intros Hfx EL EP. cbn [proxy_step]. rewrite EL, EP. cbv zeta.
  destruct (get_transport _ _ _ _ _ _) as [p1 rk].
  eexists. split; [reflexivity|]. cbn [st_learned st_conns]. split; [reflexivity|].
  unfold accepted_conn, mk_env. cbn [e_item_rs]. rewrite Hfx. reflexivity.
Qed.

Lemma js_step_accept_records stj li src sport outs :
  js_conns (js_step stj (EvTcpAccept li src sport) outs) =
  (js_conns stj ++ [(js_next_conn stj, (li, src, sport))]) ++ dialled O outs.
Proof. reflexivity. Qed.

(* ====================================================================== Part 5: example *)
Module C07_bridge_tcp_example.
Import C07_bridge_example.
Open Scope string_scope.
Open Scope list_scope.
Open Scope Z_scope.

(* top entry: TCP, ";rport;x=1" and a spoofed received=10.9.9.9; two more entries (comma list + compact name) *)
Definition tx_data : bytes :=
  flat_map ln ["INVITE sip:bob@example.com SIP/2.0";
               "Via: SIP/2.0/TCP 10.9.9.9:5070;rport;x=1;received=10.9.9.9,SIP/2.0/TCP 10.8.8.8;branch=z9hG4bKdef";
               "v: SIP/2.0/UDP 10.7.7.7:5062;branch=z9hG4bKghi";
               "Route: <sip:10.0.0.2:5070;lr>";
               "From: <sip:a@example.com>;tag=1";
               "To: <sip:bob@example.com>";
               "Call-ID: c1";
               "CSeq: 1 INVITE";
               "Content-Length: 0"] ++ crlf.
Definition tx_m : message := match parse_message tx_data with Ok (m, _) => m | _ => dummy end.
Definition tx_jin : jmsg :=
  match j_read tx_data with Some j => j | None => Build_jmsg [] [] [] [] false 0 None end.

(* the next hop 10.0.0.2 was learned before (over UDP): the proxy pushes its own Via on top *)
Definition tx_st0 : state :=
  {| st_learned := [(s2b "10.0.0.2", ex_from)]; st_proxies := [init_pstate ex_cfg 0 ex_lc]; st_conns := [];
     st_world := {| w_tcp_listeners := []; w_next_conn := 0 |} |}.
Definition tx_accept : event := EvTcpAccept 0 ex_src 40000.
Definition tx_ev : event := EvTcpData 0 tx_data.
(* model: accept, then the chunk *)
Definition tx_st1 : state :=
  match proxy_step all_fixed ex_cfg 0 ex_br tx_st0 tx_accept with Ok (s, _) => s | _ => tx_st0 end.
Definition tx_step2 : res (state * list output) := proxy_step all_fixed ex_cfg 0 ex_br tx_st1 tx_ev.
Definition tx_st2 : state := match tx_step2 with Ok (s, _) => s | _ => tx_st1 end.
Definition tx_outs : list output := match tx_step2 with Ok (_, o) => o | _ => [] end.
(* judge: the bookkeeping after the accept *)
Definition tx_stj1 : jstate := js_step_c (js_init ex_cfg) tx_accept [] [].
Definition tx_cn : conn := accepted_conn tx_st0 0 ex_lc ex_src 40000.

Example tx_accept_ok : proxy_step all_fixed ex_cfg 0 ex_br tx_st0 tx_accept = Ok (tx_st1, []).
Proof. vm_compute. reflexivity. Qed.
Example tx_step2_ok : tx_step2 = Ok (tx_st2, tx_outs).
Proof. vm_compute. reflexivity. Qed.
Example tx_conn_found : find (fun y => Nat.eqb (cn_id y) 0) (st_conns tx_st1) = Some tx_cn.
Proof. vm_compute. reflexivity. Qed.
Example tx_judge_conn :
  find (fun y => Nat.eqb (fst y) 0%nat) (js_conns tx_stj1) = Some (0%nat, (0%nat, cn_peer tx_cn, cn_peer_port tx_cn)).
Proof. vm_compute. reflexivity. Qed.

(* what leaves the proxy: own entry on top, sender entry stamped with the PEER OF THE CONNECTION (received
   overwritten in place, valueless rport filled, x=1 kept), the other two entries as they came *)
Example tx_output :
  tx_outs = [(DUdp (s2b "10.0.0.2") 5070,
    flat_map ln ["INVITE sip:bob@example.com SIP/2.0";
                 "Via: SIP/2.0/UDP 10.0.0.1:5060;branch=z9hG4bKpx";
                 "Via: SIP/2.0/TCP 10.9.9.9:5070;rport=40000;x=1;received=127.0.0.9,SIP/2.0/TCP 10.8.8.8;branch=z9hG4bKdef";
                 "v: SIP/2.0/UDP 10.7.7.7:5062;branch=z9hG4bKghi";
                 "From: <sip:a@example.com>;tag=1";
                 "To: <sip:bob@example.com>";
                 "Call-ID: c1";
                 "CSeq: 1 INVITE";
                 "Content-Length: 0"] ++ crlf)].
Proof. vm_compute. reflexivity. Qed.

(* the hypotheses of the step-level bridge hold of this instance, hence the judge accepts *)
Example C07_bridge_tcp_ex :
  judge_C07_event ex_pc tx_stj1 tx_ev (map lab (filter (fun _ => true) tx_outs)) [] = O.
Proof.
  apply (C07_judge_bridge_tcp_step ex_pc tx_stj1 all_fixed 0 ex_br tx_st1 0%nat 0%nat ex_lc tx_cn tx_data
            tx_jin tx_m [] tx_st2 tx_outs (fun _ => true) []).
  - reflexivity.
  - exact tx_conn_found.
  - exact tx_judge_conn.
  - exact zero_below_mark.
  - reflexivity.
  - reflexivity.
  - reflexivity.
  - vm_compute. reflexivity.
  - vm_compute. reflexivity.
  - reflexivity.
  - apply via_domain_b_sound. vm_compute. reflexivity.
  - split; vm_compute; reflexivity.
  - split; vm_compute; reflexivity.
  - reflexivity.
  - cbn. lia.
  - cbn. lia.
  - intros h t A.
    assert (L : st_learned tx_st1 = [(s2b "10.0.0.2", ex_from)]) by (vm_compute; reflexivity).
    rewrite L in A. cbn [alookup] in A. destruct (beq h (s2b "10.0.0.2")); [|discriminate A].
    injection A as <-. split; [reflexivity|cbn; lia].
  - exact tx_step2_ok.
Qed.
(* ... and the verdict computed directly *)
Example C07_bridge_tcp_ex_computed : judge_C07_event ex_pc tx_stj1 tx_ev (map lab tx_outs) [] = O.
Proof. vm_compute. reflexivity. Qed.

(* the message-level theorem on the same instance *)
Definition tx_e : env := mk_env all_fixed ex_cfg (item_rs_of true) 0 ex_lc 0 ex_br.
Definition tx_x : ctx :=
  {| x_learned := st_learned tx_st1;
     x_p := match nth_p (st_proxies tx_st1) 0 with Some p => p | None => init_pstate ex_cfg 0 ex_lc end;
     x_conns := st_conns tx_st1; x_world := st_world tx_st1; x_outs := [] |}.
Definition tx_x' : ctx :=
  match process_message tx_e (cn_peer tx_cn) (cn_peer_port tx_cn) (cn_from tx_cn) (cn_received_support tx_cn)
                        (Some (cn_id tx_cn)) tx_m tx_x
  with Ok y => y | _ => tx_x end.
Example C07_bridge_tcp_msg_ex :
  x_outs tx_x' = tx_outs /\
  judge_C07_event ex_pc tx_stj1 tx_ev (map lab (filter (fun _ => true) (x_outs tx_x'))) [] = O.
Proof. split; vm_compute; reflexivity. Qed.

(* the judge does look: the same request relayed WITHOUT stamping is rejected with reason 1, ... *)
Example C07_bridge_tcp_ex_sensitive :
  judge_C07_event ex_pc tx_stj1 tx_ev [(s2b "udp:10.0.0.2:5070", tx_data)] [] = 1%nat.
Proof. vm_compute. reflexivity. Qed.
(* ... stamped with the address the sender claimed instead of the peer of the connection: reason 1, ... *)
Example C07_bridge_tcp_ex_sensitive_peer :
  judge_C07_event ex_pc tx_stj1 tx_ev
    [(s2b "udp:10.0.0.2:5070",
      flat_map ln ["INVITE sip:bob@example.com SIP/2.0";
                   "Via: SIP/2.0/TCP 10.9.9.9:5070;rport=40000;x=1;received=10.9.9.9,SIP/2.0/TCP 10.8.8.8;branch=z9hG4bKdef";
                   "v: SIP/2.0/UDP 10.7.7.7:5062;branch=z9hG4bKghi";
                   "From: <sip:a@example.com>;tag=1"; "To: <sip:bob@example.com>"; "Call-ID: c1"; "CSeq: 1 INVITE";
                   "Content-Length: 0"] ++ crlf)] [] = 1%nat.
Proof. vm_compute. reflexivity. Qed.
(* ... and a lower entry touched: reason 2 *)
Example C07_bridge_tcp_ex_sensitive_lower :
  judge_C07_event ex_pc tx_stj1 tx_ev
    [(s2b "udp:10.0.0.2:5070",
      flat_map ln ["INVITE sip:bob@example.com SIP/2.0";
                   "Via: SIP/2.0/TCP 10.9.9.9:5070;rport=40000;x=1;received=127.0.0.9,SIP/2.0/TCP 10.8.8.8;branch=z9hG4bKdef;received=1.2.3.4";
                   "v: SIP/2.0/UDP 10.7.7.7:5062;branch=z9hG4bKghi";
                   "From: <sip:a@example.com>;tag=1"; "To: <sip:bob@example.com>"; "Call-ID: c1"; "CSeq: 1 INVITE";
                   "Content-Length: 0"] ++ crlf)] [] = 2%nat.
Proof. vm_compute. reflexivity. Qed.
(* without the judge's record of the connection there is no verdict (the hypothesis H_conn is not idle) *)
Example C07_bridge_tcp_ex_unknown_conn :
  judge_C07_event ex_pc (js_init ex_cfg) tx_ev [(s2b "udp:10.0.0.2:5070", tx_data)] [] = O.
Proof. vm_compute. reflexivity. Qed.

(* Part 4 on this instance: the record the model filed is the one Part 4 describes *)
Example tx_accept_records : st_conns tx_st1 = st_conns tx_st0 ++ [accepted_conn tx_st0 0 ex_lc ex_src 40000].
Proof. vm_compute. reflexivity. Qed.
End C07_bridge_tcp_example.

Print Assumptions judge_C07_tcp_unfold.
Print Assumptions tcp_messages_single.
Print Assumptions C07_tcp_accept_records.
Print Assumptions C07_judge_bridge_tcp_msg.
Print Assumptions C07_judge_bridge_tcp_step.
Print Assumptions C07_bridge_tcp_example.C07_bridge_tcp_ex.
