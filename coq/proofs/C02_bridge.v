(* proofs/C02_bridge.v — JUDGE BRIDGE for property C02 (responses follow the Via chain).

   The executable judge [SpecProxy.judge_C02_event] reads raw bytes with its own minimal reader
   (j_read, j_flat_via, j_via, j_get, jvia_port, j_dest, dest_ok, jvia_eqb).  This file proves that
   it ACCEPTS (returns 0) what the MODEL emits for a datagram carrying a response, for every
   configuration, listener, source, model state and every response whose Via header values are
   reference renderings of well-formed Via entry lists of the C14 grammar (any layout: comma lists,
   repeated lines, compact name "v", any case), tying the byte-level judge to the decoded-message
   theorems of proofs/C02.v (C02_response_general, C02_dest_udp, C02_dest_tcp, C02_dest_unsupported).

   Part 1  the Via view of a message whose Via headers all decode: pop / top on the flat list
   Part 2  the invariant [good] of proofs/C07_bridge.v along the RESPONSE pipeline (PopVia keeps it: the
           entry that becomes the first one may begin with Unicode white space, the judge trims the
           left end of every entry like strings.TrimSpace); the message that is serialised, as an
           explicit function of the input: [relayed_response]
   Part 3  the judge unfolded ([jc02_body], [jc02_two], [jvias_ok]); its host / port arithmetic is
           hop_host / hop_port of C02.v ([jhop_of])
   Part 4  C02_judge_bridge_core: the judge accepts as soon as its destination check [dest_ok] holds
           of the visible outputs (everything else - Via stack of the relayed response, readable
           output, drop of a single-Via response - is discharged here)
   Part 5  the destinations:
             C02_judge_bridge_step_udp          next Via says UDP, host resolvable        (no agreement needed)
             C02_judge_bridge_step_drop         one Via entry or none: nothing is relayed (no agreement needed)
             C02_judge_bridge_step_unsupported  next Via says neither udp nor tcp         (no agreement needed)
             C02_judge_bridge_step_unresolved   host not in the host table (judge: JAny)  (no agreement needed)
             C02_judge_bridge_step_tcp_partial  next Via says TCP; agreement = [tcp_quiet_ok] (stated on the
                                                outputs: when nothing was written the judge must not
                                                know a listener / a connection for that address)
             C02_judge_bridge_step_tcp_sent     ... corollary: something was written: no agreement needed
             C02_judge_bridge_step_tcp_fresh    next Via says TCP, first use of that address by this
                                                listener: agreement on the STATES only ([tcp_agree])
   Part 6  examples (non-vacuity), a sensitivity check of the judge, and two runs with Unicode white
           space inside a Via comma list: [via_lead_ok_needed] (second entry BEGINS with U+0085: the
           judge's former reader rejected this correct relay, the present one accepts it, and the
           hypothesis [via_lead_ok] the theorems used to carry is gone; since parse_via_param is
           modelled with strings.Fields proper the decoder drops those two bytes and the input is
           outside [via_domain], the judge's verdict 0 is shown by computation) and [via_tail_kept] (second
           entry ENDS with U+00A0: why the right end of a Via entry is not read through TrimSpace)
   Not covered: responses whose Via values are outside the C14 grammar (the judge's own j_via failing
   on an entry is not related to parse_via failing), responses arriving over TCP (EvTcpData).
   No axioms, no admits. *)
From Coq Require Import List Ascii String ZArith NArith Bool Arith Lia.
From Coq Require Import ZifyBool ZifyNat ZifyN.
From Model Require Import Bytes BytesLemmas Uri Hdr Message Msg Rx Glob StaticRoute RoundRobin Pins Wire
     Proxy RunProxy SpecProxy SpecC14.
From Model.proofs Require C06 C13_bridge.
From Model.proofs Require Import MsgLemmas C14_via C01 C07 C02 C07_bridge.
Import ListNotations.
Open Scope Z_scope.
Open Scope list_scope.
Module B13 := C13_bridge.

(* ====================================================================== Part 1: the view *)
Definition allsome (vh : list (option (list via_param))) : Prop :=
  Forall (fun o => exists l : list via_param, o = Some l /\ l <> []) vh.

Lemma pop_two vh v1 v2 vrest : allsome vh -> flat_view vh = v1 :: v2 :: vrest ->
  top_view (pop_view vh) = Some v2 /\ flat_view (pop_view vh) = v2 :: vrest.
Proof.
  intros A F. destruct A as [|o t (l & -> & NE) A']; [discriminate F|].
  destruct l as [|a [|b r]]; [exfalso; apply NE; reflexivity| |].
  - unfold flat_view in F. cbn [flat_map app] in F. injection F as -> F.
    cbn [pop_view]. destruct A' as [|o2 t2 (l2 & -> & NE2) A'']; [discriminate F|].
    destruct l2 as [|c r2]; [exfalso; apply NE2; reflexivity|].
    cbn [flat_map app] in F. injection F as -> F. cbn [top_view]. split; [reflexivity|].
    unfold flat_view. cbn [flat_map app]. rewrite F. reflexivity.
  - unfold flat_view in F. cbn [flat_map app] in F. injection F as -> -> F.
    cbn [pop_view top_view]. split; [reflexivity|].
    unfold flat_view. cbn [flat_map app]. rewrite F. reflexivity.
Qed.

Lemma pop_short vh : allsome vh -> (List.length (flat_view vh) <= 1)%nat -> top_view (pop_view vh) = None.
Proof.
  intros A F. destruct A as [|o t (l & -> & NE) A']; [reflexivity|].
  destruct l as [|a [|b r]]; [exfalso; apply NE; reflexivity| |].
  - cbn [pop_view]. destruct A' as [|o2 t2 (l2 & -> & NE2) A'']; [reflexivity|].
    destruct l2 as [|c r2]; [exfalso; apply NE2; reflexivity|]. exfalso.
    unfold flat_view in F. cbn [flat_map app List.length] in F. lia.
  - exfalso. unfold flat_view in F. cbn [flat_map app List.length] in F. lia.
Qed.

(* ====================================================================== Part 2: [good] along the response pipeline *)
(* The entry that becomes the first one of the first Via header after the pop (second entry of a comma
   list) may begin with Unicode white space ([safe] allows bytes >= 128): the judge reads header values
   through strings.TrimSpace, and it trims the left end of EVERY entry of a comma list the same way
   (SpecProxy.j_flat_via), so it reads that entry the same way in the received response (after a comma)
   and in the relayed one (first of its header value).  [vl_ok] only asks for a clean RIGHT end, which
   the rest of a list inherits.  (Before j_flat_via an extra hypothesis [via_lead_ok] was needed here,
   see [via_lead_ok_needed] below.) *)
Lemma vl_ok_tl a b l : vl_ok (a :: b :: l) -> vl_ok (b :: l).
Proof.
  intros (_ & OK & TR). cbn [forallb] in OK. apply andb_true_iff in OK. destruct OK as [_ OK].
  split; [discriminate|]. split; [exact OK|].
  rewrite via_print_cons2 in TR. exact (rclean_suffix [","%char] _ (rclean_suffix _ _ TR)).
Qed.

Lemma good_pop_via m : good m -> good (fst (s_pop_via m)).
Proof.
  intros G. unfold s_pop_via, mbind.
  pose proof (gpres_s_get_via m G) as G1. pose proof (s_get_via_ret m) as R.
  assert (K : forall l, snd (s_get_via m) = Ok l -> exists t, via_hdrs m = Some l :: t).
  { intros l E. destruct (via_hdrs m) as [|[l0|] t] eqn:EV.
    - destruct (s_get_via_fail m (or_introl EV)) as (r & Hr & Hn). rewrite Hr in E. cbn [snd] in E.
      exfalso. exact (Hn l E).
    - destruct (s_get_via_ok m l0 t EV) as (m' & Hr & _). rewrite Hr in E. cbn [snd] in E.
      injection E as <-. exists t. reflexivity.
    - destruct (s_get_via_fail m (or_intror (ex_intro _ t EV))) as (r & Hr & Hn). rewrite Hr in E.
      cbn [snd] in E. exfalso. exact (Hn l E). }
  destruct (s_get_via m) as [m1 r]. cbn [fst snd] in G1, R, K.
  destruct r as [l| |]; cbn [fst]; try exact G1.
  specialize (R l G eq_refl). destruct (K l eq_refl) as (t & EV).
  destruct l as [|a [|b l']]; unfold mmodify; cbn [fst].
  - apply good_remove. exact G1.
  - apply good_remove. exact G1.
  - apply good_set_val; [exact G1|]. intros h E. destruct (good_get _ _ _ G1 E) as [(N & _) Hn].
    split; [exact N|]. exact (vl_ok_tl a b l' R).
Qed.

Lemma gpres_handle_dialog e peer port p : gpres (handle_dialog e peer port p).
Proof.
  apply gpres_mbind.
  - destruct (alookup _ (ps_backends p)); [apply gpres_mret|].
    apply gpres_mbind; [apply gpres_s_client_transaction|intros tid].
    destruct (pins_get (e_now e) tid (ps_pins p)) as [pins1 ob].
    apply gpres_mbind; [apply (gpres_read (fun m => Ok (is_final_response m)))|intros fin; apply gpres_mret].
  - intros [p1 ob]. destruct ob as [b|]; [|apply gpres_mret].
    apply gpres_mbind; [apply gpres_mtry, gpres_s_get_method|]. intros [meth|]; [|apply gpres_mret].
    destruct (beq meth (s2b "INVITE")).
    + apply gpres_mbind; [apply gpres_mtry, gpres_s_get_dialog|intros od].
      apply gpres_mbind; [apply gpres_s_get_expires|intros ex]. destruct od; apply gpres_mret.
    + destruct (beq meth (s2b "BYE")); [|apply gpres_mret].
      apply gpres_mbind; [apply gpres_mtry, gpres_s_get_dialog|intros od]. destruct od; apply gpres_mret.
Qed.

(* C02_response_general with the invariant carried along *)
Lemma handle_response_good e from m x : is_request m = false -> good m ->
  match top_view (pop_view (via_hdrs m)) with
  | Some v2 =>
      exists m4 pins',
        handle_message e from m x =
          send_message e (hop_host v2) (hop_port v2) (v_transport v2) m4
            {| x_learned := x_learned x; x_p := with_pins (x_p x) pins'; x_conns := x_conns x;
               x_world := x_world x; x_outs := x_outs x |} /\
        good m4 /\ m_start m4 = m_start m /\ m_body m4 = m_body m /\ via_hdrs m4 = pop_view (via_hdrs m)
  | None => fst (handle_message e from m x) = x
  end.
Proof.
  intros Hq G. unfold handle_message. rewrite Hq.
  destruct (s_pop_via_view m) as (P1 & P2 & P3). pose proof (good_pop_via m G) as GP.
  rewrite <- (fst_mtry s_pop_via m) in P1, P2, P3, GP.
  destruct (mtry s_pop_via m) as [m1 r1]. cbn [fst] in P1, P2, P3, GP.
  destruct (next_response_hop_spec m1) as ((N1 & N2 & N3) & NS). rewrite P3 in NS.
  pose proof (gpres_next_response_hop m1 GP) as GN.
  rewrite (mtry_unfold next_response_hop m1).
  destruct (next_response_hop m1) as [m2 r2]. cbn [fst snd] in N1, N2, N3, NS, GN |- *.
  pose proof (vpres_mtry _ vpres_s_get_method) as VM.
  pose proof (gpres_mtry _ gpres_s_get_method m2 GN) as GM.
  destruct (top_view (pop_view (via_hdrs m))) as [v2|].
  - subst r2. cbv iota. specialize (VM m2). destruct (mtry s_get_method m2) as [m3 ometh]. cbn [fst] in VM, GM.
    destruct VM as (M1 & M2 & M3).
    assert (V3 : good m3 /\ m_start m3 = m_start m /\ m_body m3 = m_body m /\ via_hdrs m3 = pop_view (via_hdrs m))
      by (split; [exact GM|repeat split; congruence]).
    assert (FIN : forall m', good m' /\ m_start m' = m_start m /\ m_body m' = m_body m /\ via_hdrs m' = pop_view (via_hdrs m) ->
              exists m4 pins',
                send_message e (hop_host v2) (hop_port v2) (v_transport v2) m'
                  {| x_learned := x_learned x; x_p := x_p x; x_conns := x_conns x; x_world := x_world x; x_outs := x_outs x |} =
                send_message e (hop_host v2) (hop_port v2) (v_transport v2) m4
                  {| x_learned := x_learned x; x_p := with_pins (x_p x) pins'; x_conns := x_conns x; x_world := x_world x; x_outs := x_outs x |} /\
                good m4 /\ m_start m4 = m_start m /\ m_body m4 = m_body m /\ via_hdrs m4 = pop_view (via_hdrs m)).
    { intros m' H. exists m', (ps_pins (x_p x)). rewrite with_pins_same. split; [reflexivity|exact H]. }
    destruct ometh as [[meth|]| |]; try (apply FIN; exact V3).
    destruct (beq meth (s2b "SUBSCRIBE")); [|apply FIN; exact V3].
    destruct (alookup _ (ps_backends (x_p x))) as [g|]; [|apply FIN; exact V3].
    pose proof (vpres_mtry _ vpres_s_get_dialog m3) as VD.
    pose proof (gpres_mtry _ gpres_s_get_dialog m3 GM) as GD.
    destruct (mtry s_get_dialog m3) as [m' od]. cbn [fst] in VD, GD. destruct VD as (D1 & D2 & D3).
    assert (V' : good m' /\ m_start m' = m_start m /\ m_body m' = m_body m /\ via_hdrs m' = pop_view (via_hdrs m))
      by (destruct V3 as (_ & A & B & C); split; [exact GD|repeat split; congruence]).
    destruct od as [[d|]| |]; try (apply FIN; exact V').
    eexists m', _. split; [reflexivity|exact V'].
  - destruct r2 as [a| |]; [exfalso; exact (NS a eq_refl)| |]; cbv iota;
      destruct (mtry s_get_method m2) as [m3 ometh]; cbn; destruct x; reflexivity.
Qed.

(* what process_message does with a response that arrived in a datagram, as one expression:
   tryRemoveTopRoute, handleDialog, HandleMessage; its second component is the message that was
   handed to the transport (= serialised) *)
Definition response_hm (e : env) (peer : bytes) (pport : Z) (from : stransport) (x : ctx) (m0 : message)
  : ctx * message :=
  let m4 := fst (mtry (try_remove_top_route (e_cfg e) from) m0) in
  let '(m', r) := handle_dialog e peer pport (x_p x) m4 in
  handle_message e from m'
    {| x_learned := x_learned x; x_p := match r with Ok p' => p' | _ => x_p x end; x_conns := x_conns x;
       x_world := x_world x; x_outs := x_outs x |}.
Definition relayed_response (e : env) (peer : bytes) (pport : Z) (from : stransport) (x : ctx) (m0 : message)
  : message := snd (response_hm e peer pport from x m0).

Lemma process_response_hm e peer port from rs m0 x x' :
  is_response m0 = true -> process_message e peer port from rs None m0 x = Ok x' ->
  x' = fst (response_hm e peer port from x m0).
Proof.
  intros Hr.
  assert (Hq : is_request m0 = false) by (unfold is_response in Hr; apply negb_true_iff; exact Hr).
  unfold process_message, response_hm. cbv zeta. repeat (progress (rewrite ?Hq; cbn [andb]; cbv beta iota)).
  set (m4 := fst (mtry (try_remove_top_route (e_cfg e) from) m0)).
  assert (V4 : veq m0 m4) by (apply (vpres_mtry _ (vpres_try_remove_top_route _ _))).
  rewrite (veq_is_response _ _ V4), Hr. cbv beta iota.
  destruct (handle_dialog e peer port (x_p x) m4) as [m5 r].
  intros H. injection H as <-. reflexivity.
Qed.

Lemma response_hm_good e peer port from x m0 :
  is_response m0 = true -> good m0 ->
  match top_view (pop_view (via_hdrs m0)) with
  | Some v2 =>
      exists m4 pins',
        response_hm e peer port from x m0 =
          send_message e (hop_host v2) (hop_port v2) (v_transport v2) m4
            {| x_learned := x_learned x; x_p := with_pins (x_p x) pins'; x_conns := x_conns x;
               x_world := x_world x; x_outs := x_outs x |} /\
        good m4 /\ m_start m4 = m_start m0 /\ m_body m4 = m_body m0 /\ via_hdrs m4 = pop_view (via_hdrs m0)
  | None => x_outs (fst (response_hm e peer port from x m0)) = x_outs x
  end.
Proof.
  intros Hr G0.
  assert (Hq : is_request m0 = false) by (unfold is_response in Hr; apply negb_true_iff; exact Hr).
  unfold response_hm. cbv zeta.
  set (m4 := fst (mtry (try_remove_top_route (e_cfg e) from) m0)).
  assert (V4 : veq m0 m4) by (apply (vpres_mtry _ (vpres_try_remove_top_route _ _))).
  assert (G4 : good m4) by (apply (gpres_mtry _ (gpres_try_remove_top_route _ _)); exact G0).
  clearbody m4.
  pose proof (vpres_handle_dialog e peer port (x_p x) m4) as VD.
  pose proof (handle_dialog_pins e peer port (x_p x) m4) as PD.
  pose proof (gpres_handle_dialog e peer port (x_p x) m4 G4) as GD.
  destruct (handle_dialog e peer port (x_p x) m4) as [m5 r]. cbn [fst snd] in VD, PD, GD.
  assert (V5 : veq m0 m5) by (eapply veq_trans; eassumption).
  assert (P2 : exists pins2, match r with Ok p' => p' | _ => x_p x end = with_pins (x_p x) pins2).
  { destruct r as [p'| |]; [exact (PD p' eq_refl)| |]; exists (ps_pins (x_p x)); symmetry; apply with_pins_same. }
  destruct P2 as (pins2 & ->).
  assert (Q5 : is_request m5 = false) by (rewrite (veq_is_request _ _ V5); exact Hq).
  destruct V5 as (S5 & B5 & H5).
  match goal with |- context [handle_message e from m5 ?X] =>
    pose proof (handle_response_good e from m5 X Q5 GD) as GG end.
  rewrite H5 in GG. destruct (top_view (pop_view (via_hdrs m0))) as [v2|].
  - destruct GG as (m6 & pins' & G1 & G2 & G3 & G4' & G5). exists m6, pins'. rewrite G1.
    split; [reflexivity|]. split; [exact G2|]. repeat split; congruence.
  - rewrite GG. reflexivity.
Qed.

(* ---- one step of the whole proxy on a datagram ---- *)
Definition udp_from (lc : listen_cfg) : stransport :=
  {| t_kind := KUdp; t_addr := lc_addr lc; t_port := lc_udp lc |}.
Definition step_env (fx : fixes) (c : cfg) (li : nat) (lc : listen_cfg) (now : Z) (br : bytes) : env :=
  mk_env fx c (item_rs_of (fx_wiring fx)) li lc now br.
Definition pin_ctx (st : state) (p : pstate) (pins' : pins) : ctx :=
  {| x_learned := st_learned st; x_p := with_pins p pins'; x_conns := st_conns st; x_world := st_world st;
     x_outs := [] |}.
Definition step_ctx (st : state) (p : pstate) : ctx :=
  {| x_learned := st_learned st; x_p := p; x_conns := st_conns st; x_world := st_world st; x_outs := [] |}.
(* the bytes of the relayed response, as a function of the input (for the datagram size limit) *)
Definition relayed_bytes (fx : fixes) (c : cfg) (now : Z) (br : bytes) (st : state) (li : nat) (lc : listen_cfg)
           (p : pstate) (src : bytes) (sport : Z) (m : message) : bytes :=
  write_message (relayed_response (step_env fx c li lc now br) src sport (udp_from lc) (step_ctx st p) m).

Lemma step_response_good fx c now br st li src sport data lc p m rest st' outs :
  nth_opt (c_listens c) li = Some lc -> nth_p (st_proxies st) li = Some p ->
  parse_message data = Ok (m, rest) -> is_response m = true -> good m ->
  proxy_step fx c now br st (EvUdp li src sport data) = Ok (st', outs) ->
  match top_view (pop_view (via_hdrs m)) with
  | Some v2 =>
      exists m4 pins',
        outs = x_outs (fst (send_message (step_env fx c li lc now br) (hop_host v2) (hop_port v2) (v_transport v2) m4
                              (pin_ctx st p pins'))) /\
        sent_msg m4 = relayed_response (step_env fx c li lc now br) src sport (udp_from lc) (step_ctx st p) m /\
        good m4 /\ m_start m4 = m_start m /\ m_body m4 = m_body m /\ via_hdrs m4 = pop_view (via_hdrs m)
  | None => outs = []
  end.
Proof.
  intros EL EP EM Hr G H.
  cbn [proxy_step] in H. rewrite EL, EM in H. unfold run_ctx in H. rewrite EP in H.
  destruct (process_message _ _ _ _ _ _ _ _) as [x'| |] eqn:E; try discriminate.
  injection H as <- <-.
  pose proof (process_response_hm _ _ _ _ _ _ _ _ Hr E) as EX.
  fold (step_env fx c li lc now br) in EX. fold (udp_from lc) in EX. fold (step_ctx st p) in EX.
  pose proof (response_hm_good (step_env fx c li lc now br) src sport (udp_from lc) (step_ctx st p) m Hr G) as GG.
  destruct (top_view (pop_view (via_hdrs m))) as [v2|].
  - destruct GG as (m4 & pins' & G1 & G2 & G3 & G4 & G5). exists m4, pins'.
    split; [rewrite EX, G1; reflexivity|]. split; [|repeat split; assumption].
    unfold relayed_response. rewrite G1.
    symmetry. exact (proj1 (send_message_outs _ _ _ _ _ _)).
  - rewrite EX. exact GG.
Qed.

(* ---- the re-encoded status line is a line that does not begin with a blank ---- *)
Lemma response_line_ok l v c r :
  parse_start_line l = Ok (SResp v c r) -> start_ok (start_line_print (SResp v c r)).
Proof.
  unfold parse_start_line. destruct (has_prefix (s2b "SIP/") l).
  - unfold parse_status_line. destruct (fields_go l) as [|v0 [|c0 [|r1 rs]]] eqn:F; try discriminate.
    destruct (atoi c0) as [code|]; [|discriminate]. intros H. injection H as <- <- <-.
    destruct (fields_go_spec l v0) as [V1 V2]; [rewrite F; left; reflexivity|].
    cbn [start_line_print]. split.
    + apply lf_app_i; [apply nospace_lf; exact V2|]. apply lf_cons_i; [intros HH; vm_compute in HH; discriminate HH|].
      apply lf_app_i; [apply itoa_no_lf|]. apply lf_cons_i; [intros HH; vm_compute in HH; discriminate HH|].
      intros I. change (In jLF (join_byte " "%char (r1 :: rs))) in I. apply cb_in_join in I. destruct I as [E|(x & Ix & Ic)]; [vm_compute in E; discriminate E|].
      destruct (fields_go_spec l x) as [_ X2]; [rewrite F; right; right; exact Ix|].
      exact (nospace_lf _ X2 Ic).
    + destruct v0 as [|ch t]; [exfalso; apply V1; reflexivity|]. cbn [app]. eexists. eexists.
      split; [reflexivity|]. apply V2. left. reflexivity.
  - unfold parse_request_line. destruct (fields_go l) as [|m0 [|u [|v1 [|x y]]]]; try discriminate.
    destruct (parse_addr_spec u); try discriminate.
Qed.

(* ====================================================================== Part 3: the judge, unfolded *)
Definition jhop (v2 : jvia) : bytes * Z :=
  match j_get (s2b "received") (jv_params v2) with
  | Some h => (h, match j_get (s2b "rport") (jv_params v2) with
                  | Some r => match atoi r with Some p => p | None => jvia_port v2 end
                  | None => jvia_port v2 end)
  | None => (jv_host v2, jvia_port v2)
  end.
Definition jvias_ok (ob : bytes) (v2 : jvia) (vrest : list jvia) : nat :=
  match j_read ob with
  | Some om =>
      match opt_all (map j_via (j_flat_via (jm_headers om))) with
      | Some ovs =>
          if (Nat.eqb (List.length ovs) (S (List.length vrest)) &&
              forallb (fun '(a, b) => jvia_eqb a b) (combine ovs (v2 :: vrest)))%bool
          then O else 2%nat
      | None => 2%nat
      end
  | None => 3%nat
  end.
Definition jc02_two (pc : proxy_case) (st : jstate) (ms : list (bytes * bytes)) (v2 : jvia) (vrest : list jvia) : nat :=
  let '(host, port) := jhop v2 in
  let d := j_dest (pc_cfg pc) (jv_transport v2) host port in
  if negb (dest_ok pc st d ms) then 1%nat
  else match ms with
       | [(_, ob)] => jvias_ok ob v2 vrest
       | _ => O
       end.
Definition jc02_body (pc : proxy_case) (st : jstate) (es : list bytes) (ms : list (bytes * bytes)) : nat :=
  match es with
  | [] | [_] => if dest_ok pc st JDrop ms then O else 1%nat
  | e1 :: e2 :: rest =>
      match j_via e1, j_via e2 with
      | Some _, Some v2 =>
          match opt_all (map j_via rest) with
          | None => O
          | Some vrest => jc02_two pc st ms v2 vrest
          end
      | _, _ => if dest_ok pc st JDrop ms then O else 1%nat
      end
  end.

Lemma judge_C02_udp_unfold pc st li src sport data outs closed :
  judge_C02_event pc st (EvUdp li src sport data) outs closed =
  match j_read data with
  | Some m => if (j_is_response m && jm_has_cl m && (negb false || single_message m))%bool
              then jc02_body pc st (j_flat_via (jm_headers m)) (msgs_of outs) else O
  | None => O
  end.
Proof. reflexivity. Qed.

Lemma jc02_body_two pc st es ms j1 j2 jrest :
  opt_all (map j_via es) = Some (j1 :: j2 :: jrest) -> jc02_body pc st es ms = jc02_two pc st ms j2 jrest.
Proof.
  destruct es as [|e1 [|e2 rest]]; unfold jc02_body; cbn [map opt_all].
  - discriminate.
  - destruct (j_via e1); discriminate.
  - destruct (j_via e1); [|discriminate]. destruct (j_via e2); [|discriminate].
    destruct (opt_all (map j_via rest)); [|discriminate]. intros H. injection H as <- <- <-. reflexivity.
Qed.

Lemma jc02_body_short pc st es l :
  opt_all (map j_via es) = Some l -> (List.length l <= 1)%nat -> jc02_body pc st es [] = O.
Proof.
  destruct es as [|e1 [|e2 rest]]; unfold jc02_body; cbn [map opt_all]; try reflexivity.
  destruct (j_via e1); [|discriminate]. destruct (j_via e2); [|discriminate].
  destruct (opt_all (map j_via rest)); [|discriminate]. intros H. injection H as <-. cbn [List.length]. lia.
Qed.

Lemma j_get_pairs k l : j_get k (map pair_of l) = kv_get k l.
Proof.
  induction l as [|p r IH]; cbn [kv_get j_get map]; [reflexivity|].
  unfold pair_of at 1. rewrite (beq_sym k (k_key p)). destruct (beq (k_key p) k); [reflexivity|exact IH].
Qed.
Lemma jvia_port_of v : jvia_port (jv_of v) = via_get_port v.
Proof.
  unfold jvia_port, via_get_port, jv_of. cbn [jv_port jv_transport].
  destruct (Z.eqb (v_port v) 0); reflexivity.
Qed.
(* where the judge sends the response = where getNextReponseHop sends it *)
Theorem jhop_of v : jhop (jv_of v) = (hop_host v, hop_port v).
Proof.
  unfold jhop. rewrite jvia_port_of. unfold jv_of at 1 2 3. cbn [jv_params jv_host].
  rewrite !j_get_pairs. unfold hop_host, hop_port, via_get_received, via_get_rport.
  destruct (kv_get (s2b "received") (v_params v)); [|reflexivity].
  destruct (kv_get (s2b "rport") (v_params v)) as [r|]; [|reflexivity].
  destruct (atoi r); reflexivity.
Qed.

Lemma jc02_two_of pc st ms v2 vrest :
  jc02_two pc st ms (jv_of v2) vrest =
  if negb (dest_ok pc st (j_dest (pc_cfg pc) (v_transport v2) (hop_host v2) (hop_port v2)) ms) then 1%nat
  else match ms with
       | [(_, ob)] => jvias_ok ob (jv_of v2) vrest
       | _ => O
       end.
Proof. unfold jc02_two. rewrite jhop_of. reflexivity. Qed.

(* the Via stack the judge reads in a serialised good message *)
Lemma jvias_accept m' v2 vrest :
  good m' -> start_ok (start_line_print (m_start m')) -> (Z.of_nat (List.length (m_body m')) <= int_max)%Z ->
  flat_view (via_hdrs m') = v2 :: vrest ->
  jvias_ok (write_message m') (jv_of v2) (map jv_of vrest) = O.
Proof.
  intros G' So Bd FV. unfold jvias_ok.
  rewrite (C01_single_content_length_read m' (good_line_safe _ G') So Bd).
  cbv beta iota. cbn [jm_headers].
  rewrite (via_read _ (emitted_good _ G')), emitted_view, FV. cbn [map List.length].
  rewrite Nat.eqb_refl. cbn [andb].
  change (jv_of v2 :: map jv_of vrest) with (map jv_of (v2 :: vrest)).
  rewrite jvia_all_refl. reflexivity.
Qed.

(* the payload of the one message the judge sees *)
Lemma single_msg_payload m' outs vis l ob :
  Forall (out_is m') outs -> msgs_of (map B13.labelled (filter vis outs)) = [(l, ob)] -> ob = write_message m'.
Proof.
  intros F E. rewrite B13.msgs_of_labelled in E.
  assert (I : In (l, ob) (map B13.labelled (filter C06.is_msg (filter vis outs)))) by (rewrite E; left; reflexivity).
  apply in_map_iff in I. destruct I as (o & Eo & Io). apply filter_In in Io. destruct Io as [Io Mo].
  apply filter_In in Io. destruct Io as [Io _].
  rewrite Forall_forall in F. specialize (F o Io). unfold out_is in F.
  destruct o as [[ip pt|c|ip pt c] b]; cbn [fst snd] in F; unfold B13.labelled in Eo; cbn [fst snd] in Eo.
  - injection Eo as _ <-. exact F.
  - injection Eo as _ <-. exact F.
  - discriminate Mo.
Qed.

(* ====================================================================== Part 4: the core *)
(* The judge of C02 accepts what proxy_step emits for a datagram as soon as its destination check
   holds of the visible outputs; the check is only asked for when the response has at least two Via
   entries, and may use what the model emitted: ONE sendMessage call for the entry v2 on top after
   the pop, on a message whose serialisation is [relayed_bytes]. *)
Theorem C02_judge_bridge_core :
  forall (pc : proxy_case) (stj : jstate) (fx : fixes) (now : Z) (br : bytes) (st : state) (li : nat)
         (lc : listen_cfg) (src : bytes) (sport : Z) (data : bytes) (jin : jmsg) (m : message) (rest : bytes)
         (p : pstate) (st' : state) (outs : list output) (vis : output -> bool) (closed : list nat),
  nth_opt (c_listens (pc_cfg pc)) li = Some lc -> nth_p (st_proxies st) li = Some p ->
  j_read data = Some jin -> parse_message data = Ok (m, rest) ->
  via_domain m ->
  proxy_step fx (pc_cfg pc) now br st (EvUdp li src sport data) = Ok (st', outs) ->
  (forall v1 v2 vrest m4 pins',
     is_response m = true ->
     flat_view (via_hdrs m) = v1 :: v2 :: vrest ->
     outs = x_outs (fst (send_message (step_env fx (pc_cfg pc) li lc now br) (hop_host v2) (hop_port v2)
                           (v_transport v2) m4 (pin_ctx st p pins'))) ->
     write_message (sent_msg m4) = relayed_bytes fx (pc_cfg pc) now br st li lc p src sport m ->
     dest_ok pc stj (j_dest (pc_cfg pc) (v_transport v2) (hop_host v2) (hop_port v2))
             (msgs_of (map B13.labelled (filter vis outs))) = true) ->
  judge_C02_event pc stj (EvUdp li src sport data) (map B13.labelled (filter vis outs)) closed = O.
Proof.
  intros pc stj fx now br st li lc src sport data jin m rest p st' outs vis closed
         EL EP HJ HP HV H Hdest.
  rewrite judge_C02_udp_unfold, HJ.
  destruct (j_is_response jin && jm_has_cl jin && (negb false || single_message jin))%bool eqn:Cond; [|reflexivity].
  destruct (read_agree _ _ _ _ HJ HP) as (_ & _ & _ & Bd & PS).
  destruct (read_agree_all _ _ _ _ HJ HP) as (EH & PR).
  assert (Hq : is_request m = false).
  { unfold is_request. rewrite (parse_start_line_kind _ _ PS).
    apply andb_true_iff in Cond. destruct Cond as [Cond _]. apply andb_true_iff in Cond.
    destruct Cond as [Cond _]. unfold j_is_response in Cond. rewrite Cond. reflexivity. }
  assert (Hr : is_response m = true) by (unfold is_response; rewrite Hq; reflexivity).
  assert (Hst : start_ok (start_line_print (m_start m))).
  { unfold is_request in Hq. destruct (m_start m) as [meth uri ver|v c r] eqn:Em; [discriminate Hq|].
    exact (response_line_ok _ _ _ _ PS). }
  assert (G0 : good m) by (apply good_of_parse; assumption).
  assert (GA : Forall (fun h => is_via_name (h_name h) = true -> good_h h) (m_headers m))
    by (eapply Forall_impl; [|exact G0]; intros h Gh _; exact Gh).
  pose proof (via_read (m_headers m) GA) as VR. rewrite <- EH in VR. fold (via_hdrs m) in VR.
  pose proof (good_view _ GA) as GV. fold (via_hdrs m) in GV.
  pose proof (step_response_good _ _ _ _ _ _ _ _ _ _ _ _ _ _ _ EL EP HP Hr G0 H) as SG.
  destruct (flat_view (via_hdrs m)) as [|v1 [|v2 vrest]] eqn:FV.
  - rewrite (pop_short _ GV) in SG by (rewrite FV; cbn [List.length]; lia). subst outs.
    exact (jc02_body_short pc stj _ _ VR (Nat.le_0_l _)).
  - rewrite (pop_short _ GV) in SG by (rewrite FV; cbn [List.length]; lia). subst outs.
    refine (jc02_body_short pc stj _ _ VR _). cbn [map List.length]. lia.
  - destruct (pop_two _ _ _ _ GV FV) as (TV & FP). rewrite TV in SG.
    destruct SG as (m4 & pins' & EO & ES & G4 & S4 & B4 & V4).
    assert (EB : write_message (sent_msg m4) = relayed_bytes fx (pc_cfg pc) now br st li lc p src sport m)
      by (unfold relayed_bytes; rewrite ES; reflexivity).
    specialize (Hdest v1 v2 vrest m4 pins' Hr eq_refl EO EB).
    cbn [map] in VR. rewrite (jc02_body_two pc stj _ _ _ _ _ VR), jc02_two_of, Hdest. cbn [negb].
    destruct (msgs_of (map B13.labelled (filter vis outs))) as [|[l ob] [|q qs]] eqn:Ems; try reflexivity.
    destruct (send_message_out_is (step_env fx (pc_cfg pc) li lc now br) (hop_host v2) (hop_port v2)
                (v_transport v2) m4 (pin_ctx st p pins')) as (os & O1 & O2).
    cbn [pin_ctx x_outs app] in O1. rewrite <- EO in O1. subst os.
    rewrite (single_msg_payload _ _ _ _ _ O2 Ems).
    destruct (veq_sent_msg m4) as (Sa & Sb & Sv).
    apply jvias_accept.
    + unfold sent_msg. apply (gpres_mtry _ gpres_s_client_transaction). exact G4.
    + rewrite Sa, S4. exact Hst.
    + rewrite Sb, B4. exact Bd.
    + rewrite Sv, V4. exact FP.
Qed.

(* ====================================================================== Part 5: the destinations *)
Lemma visible_udp ue ip port b : visible ue (DUdp ip port, b) = has_peer ue ip port.
Proof. reflexivity. Qed.

Lemma msgs_len_le vis os :
  (List.length (msgs_of (map B13.labelled (filter vis os))) <= List.length (filter C06.is_msg os))%nat.
Proof.
  rewrite B13.msgs_of_labelled, map_length.
  induction os as [|a r IH]; [apply Nat.le_refl|]. cbn [filter].
  destruct (vis a); cbn [filter]; destruct (C06.is_msg a); cbn [List.length]; lia.
Qed.

(* ---------------------------------------------------------------- (a) UDP *)
Lemma dest_ok_udp_one pc st ip port b :
  dest_ok pc st (JUdp ip port)
    (msgs_of (map B13.labelled (filter (visible (pc_udp_endpoints pc)) [(DUdp ip port, b)]))) = true.
Proof.
  cbn [filter]. rewrite visible_udp. unfold dest_ok.
  destruct (has_peer (pc_udp_endpoints pc) ip port) eqn:HP; [|reflexivity].
  rewrite B13.msgs_of_labelled. unfold C06.is_msg. cbn [filter fst map]. unfold B13.labelled. cbn [fst snd].
  exact (beq_refl _).
Qed.

(* REQUESTED AND PROVED.  The next Via entry (after the proxy's own has been removed) says UDP.
   No agreement between judge state and model state is needed: for a UDP destination the judge's
   [dest_ok] reads only the case (the UDP endpoints the driver can observe), so [stj] is arbitrary.
   Conditions, all on the input / the configuration / the model state:
     via_domain m      Via header values are reference renderings of well-formed entry lists (C14 grammar)
     flat_view (via_hdrs m) = v1 :: v2 :: vrest   at least two Via entries (any layout)
     to_lower (v_transport v2) = "udp", get_ip = Some ip, resolvable ip port   (C02_dest_udp)
     udp_slot_ok       the table slot of that destination is free or holds a UDP client (C02_dest_udp; it can
                       hold a forgotten primary after a send to it FAILED, see C02.v)
     fits_datagram (relayed_bytes ...)   the re-encoded response fits a datagram (65507 bytes) *)
Theorem C02_judge_bridge_step_udp :
  forall (pc : proxy_case) (stj : jstate) (fx : fixes) (now : Z) (br : bytes) (st : state) (li : nat)
         (lc : listen_cfg) (src : bytes) (sport : Z) (data : bytes) (jin : jmsg) (m : message) (rest : bytes)
         (p : pstate) (st' : state) (outs : list output) (closed : list nat)
         (v1 v2 : via_param) (vrest : list via_param) (ip : bytes),
  nth_opt (c_listens (pc_cfg pc)) li = Some lc -> nth_p (st_proxies st) li = Some p ->
  j_read data = Some jin -> parse_message data = Ok (m, rest) ->
  via_domain m ->
  flat_view (via_hdrs m) = v1 :: v2 :: vrest ->
  to_lower (v_transport v2) = s2b "udp" ->
  get_ip (pc_cfg pc) (hop_host v2) = Some ip -> resolvable ip (hop_port v2) = true ->
  udp_slot_ok ip (hop_port v2) p ->
  fits_datagram (relayed_bytes fx (pc_cfg pc) now br st li lc p src sport m) = true ->
  proxy_step fx (pc_cfg pc) now br st (EvUdp li src sport data) = Ok (st', outs) ->
  judge_C02_event pc stj (EvUdp li src sport data)
    (map B13.labelled (filter (visible (pc_udp_endpoints pc)) outs)) closed = O.
Proof.
  intros pc stj fx now br st li lc src sport data jin m rest p st' outs closed v1 v2 vrest ip
         EL EP HJ HP HV FV Htr Hip Hres Hslot Hfit H.
  apply (C02_judge_bridge_core pc stj fx now br st li lc src sport data jin m rest p st' outs _ closed
           EL EP HJ HP HV H).
  intros v1' v2' vrest' m4 pins' Hr FV' EO EB. rewrite FV in FV'. injection FV' as <- <- <-.
  rewrite <- EB in Hfit.
  rewrite EO.
  rewrite (C02_dest_udp (step_env fx (pc_cfg pc) li lc now br) (hop_host v2) (hop_port v2) (v_transport v2) m4
             (pin_ctx st p pins') ip Htr Hip Hres Hslot Hfit).
  cbn [pin_ctx x_outs app].
  unfold j_dest, lower_is. rewrite Htr. change (beq (s2b "udp") (s2b "udp")) with true. cbv iota. rewrite Hip.
  apply dest_ok_udp_one.
Qed.

(* ---------------------------------------------------------------- (b) drop: at most one Via entry *)
(* a response with a single Via entry (the proxy's own) or none: nothing is relayed, the judge accepts *)
Theorem C02_judge_bridge_step_drop :
  forall (pc : proxy_case) (stj : jstate) (fx : fixes) (now : Z) (br : bytes) (st : state) (li : nat)
         (lc : listen_cfg) (src : bytes) (sport : Z) (data : bytes) (jin : jmsg) (m : message) (rest : bytes)
         (p : pstate) (st' : state) (outs : list output) (vis : output -> bool) (closed : list nat),
  nth_opt (c_listens (pc_cfg pc)) li = Some lc -> nth_p (st_proxies st) li = Some p ->
  j_read data = Some jin -> parse_message data = Ok (m, rest) ->
  via_domain m ->
  (List.length (flat_view (via_hdrs m)) <= 1)%nat ->
  proxy_step fx (pc_cfg pc) now br st (EvUdp li src sport data) = Ok (st', outs) ->
  judge_C02_event pc stj (EvUdp li src sport data) (map B13.labelled (filter vis outs)) closed = O.
Proof.
  intros pc stj fx now br st li lc src sport data jin m rest p st' outs vis closed EL EP HJ HP HV Hlen H.
  apply (C02_judge_bridge_core pc stj fx now br st li lc src sport data jin m rest p st' outs vis closed
           EL EP HJ HP HV H).
  intros v1 v2 vrest m4 pins' _ FV _ _. rewrite FV in Hlen. cbn [List.length] in Hlen. lia.
Qed.

(* ---------------------------------------------------------------- (c) a transport that is neither udp nor tcp *)
Theorem C02_judge_bridge_step_unsupported :
  forall (pc : proxy_case) (stj : jstate) (fx : fixes) (now : Z) (br : bytes) (st : state) (li : nat)
         (lc : listen_cfg) (src : bytes) (sport : Z) (data : bytes) (jin : jmsg) (m : message) (rest : bytes)
         (p : pstate) (st' : state) (outs : list output) (vis : output -> bool) (closed : list nat)
         (v1 v2 : via_param) (vrest : list via_param),
  nth_opt (c_listens (pc_cfg pc)) li = Some lc -> nth_p (st_proxies st) li = Some p ->
  j_read data = Some jin -> parse_message data = Ok (m, rest) ->
  via_domain m ->
  flat_view (via_hdrs m) = v1 :: v2 :: vrest ->
  supported_proto (to_lower (v_transport v2)) = false ->
  proxy_step fx (pc_cfg pc) now br st (EvUdp li src sport data) = Ok (st', outs) ->
  judge_C02_event pc stj (EvUdp li src sport data) (map B13.labelled (filter vis outs)) closed = O.
Proof.
  intros pc stj fx now br st li lc src sport data jin m rest p st' outs vis closed v1 v2 vrest
         EL EP HJ HP HV FV Hun H.
  apply (C02_judge_bridge_core pc stj fx now br st li lc src sport data jin m rest p st' outs vis closed
           EL EP HJ HP HV H).
  intros v1' v2' vrest' m4 pins' Hr FV' EO EB. rewrite FV in FV'. injection FV' as <- <- <-.
  rewrite EO, (C02_dest_unsupported _ _ _ _ _ _ Hun). cbn [pin_ctx x_outs filter map].
  unfold supported_proto in Hun. apply orb_false_iff in Hun. destruct Hun as [U1 U2].
  unfold j_dest, lower_is. rewrite U1, U2. reflexivity.
Qed.

(* ---------------------------------------------------------------- (d) the host is not in the host table *)
Lemma shape_one_msg b os :
  (os = [] \/ (exists ip p, os = [(DUdp ip p, b)]) \/ tcp_shape b os) ->
  (List.length (filter C06.is_msg os) <= 1)%nat.
Proof.
  intros [->|[(ip & pt & ->)|[->|[(c & ->)|[(h & pt & c & ->)|(h & pt & c & c' & ->)]]]]];
    cbn [filter C06.is_msg fst List.length]; lia.
Qed.

(* udp or tcp, the address cannot be told from the configuration (judge: JAny = at most one message,
   whose Via stack is then checked) *)
Theorem C02_judge_bridge_step_unresolved :
  forall (pc : proxy_case) (stj : jstate) (fx : fixes) (now : Z) (br : bytes) (st : state) (li : nat)
         (lc : listen_cfg) (src : bytes) (sport : Z) (data : bytes) (jin : jmsg) (m : message) (rest : bytes)
         (p : pstate) (st' : state) (outs : list output) (vis : output -> bool) (closed : list nat)
         (v1 v2 : via_param) (vrest : list via_param),
  nth_opt (c_listens (pc_cfg pc)) li = Some lc -> nth_p (st_proxies st) li = Some p ->
  j_read data = Some jin -> parse_message data = Ok (m, rest) ->
  via_domain m ->
  flat_view (via_hdrs m) = v1 :: v2 :: vrest ->
  get_ip (pc_cfg pc) (hop_host v2) = None ->
  proxy_step fx (pc_cfg pc) now br st (EvUdp li src sport data) = Ok (st', outs) ->
  judge_C02_event pc stj (EvUdp li src sport data) (map B13.labelled (filter vis outs)) closed = O.
Proof.
  intros pc stj fx now br st li lc src sport data jin m rest p st' outs vis closed v1 v2 vrest
         EL EP HJ HP HV FV Hip H.
  apply (C02_judge_bridge_core pc stj fx now br st li lc src sport data jin m rest p st' outs vis closed
           EL EP HJ HP HV H).
  intros v1' v2' vrest' m4 pins' Hr FV' EO EB. rewrite FV in FV'. injection FV' as <- <- <-.
  destruct (send_message_outs (step_env fx (pc_cfg pc) li lc now br) (hop_host v2) (hop_port v2)
              (v_transport v2) m4 (pin_ctx st p pins')) as (_ & _ & os & O1 & O2).
  cbn [pin_ctx x_outs app] in O1. rewrite <- EO in O1. subst os.
  pose proof (Nat.le_trans _ _ _ (msgs_len_le vis outs) (shape_one_msg _ _ O2)) as LE.
  unfold j_dest. rewrite Hip.
  destruct (lower_is (v_transport v2) "udp") eqn:U1.
  - unfold dest_ok. apply Nat.leb_le. exact LE.
  - destruct (lower_is (v_transport v2) "tcp") eqn:U2.
    + unfold dest_ok. apply Nat.leb_le. exact LE.
    + (* neither: JDrop; the model sends nothing *)
      assert (Hun : supported_proto (to_lower (v_transport v2)) = false).
      { unfold supported_proto. unfold lower_is in U1, U2. rewrite U1, U2. reflexivity. }
      rewrite EO, (C02_dest_unsupported _ _ _ _ _ _ Hun). reflexivity.
Qed.

(* ---------------------------------------------------------------- (e) TCP *)
(* does the judge's bookkeeping know a connection whose peer is ip:port ? *)
Definition jconn_to (st : jstate) (ip : bytes) (port : Z) : bool :=
  existsb (fun '(_, (_, i, p)) => beq i ip && Z.eqb p port) (js_conns st).
Lemma dest_ok_tcp_nil pc st ip port :
  dest_ok pc st (JTcp ip port) [] = negb (has_peer (pc_tcp_listeners pc) ip port) && negb (jconn_to st ip port).
Proof. reflexivity. Qed.

(* the agreement the judge needs for a TCP destination, stated on the outputs: when the model wrote
   nothing, the judge must know neither a listener nor an open connection for that address
   ("a TCP destination that neither listens nor has a connection open yields nothing") *)
Definition tcp_quiet_ok (pc : proxy_case) (stj : jstate) (ip : bytes) (port : Z) (outs : list output) : Prop :=
  filter C06.is_msg outs = [] ->
  has_peer (pc_tcp_listeners pc) ip port = false /\ jconn_to stj ip port = false.

Lemma dest_ok_tcp pc st ip port b os vis :
  tcp_shape b os -> (forall o, In o os -> vis o = true) -> tcp_quiet_ok pc st ip port os ->
  dest_ok pc st (JTcp ip port) (msgs_of (map B13.labelled (filter vis os))) = true.
Proof.
  intros SH V Q.
  assert (FV : filter vis os = os).
  { clear SH Q. induction os as [|a r IH]; [reflexivity|]. cbn [filter].
    rewrite (V a (or_introl eq_refl)), IH; [reflexivity|]. intros o I. apply V. right. exact I. }
  rewrite FV, B13.msgs_of_labelled.
  assert (QN : filter C06.is_msg os = [] -> dest_ok pc st (JTcp ip port) [] = true).
  { intros E. destruct (Q E) as [Q1 Q2]. rewrite dest_ok_tcp_nil, Q1, Q2. reflexivity. }
  destruct SH as [->|[(c & ->)|[(h & pt & c & ->)|(h & pt & c & c' & ->)]]];
    cbn [filter C06.is_msg fst map] in *.
  - apply QN. reflexivity.
  - reflexivity.
  - apply QN. reflexivity.
  - reflexivity.
Qed.

Lemma tcp_shape_visible ue b os : tcp_shape b os -> forall o, In o os -> visible ue o = true.
Proof.
  intros [->|[(c & ->)|[(h & pt & c & ->)|(h & pt & c & c' & ->)]]] o I; cbn [In] in I;
    repeat (destruct I as [<-|I]; [reflexivity|]); destruct I.
Qed.

(* PARTIAL (named so because the agreement [tcp_quiet_ok] is stated on the OUTPUTS of the step, not on
   the two states).  The next Via entry says TCP and its host resolves.  The model emits, in every
   state of the repaired tree (tcp_slot_ok: C02_tcp_slot_reachable): nothing, or one write on a
   connection (remembered for the transaction / cached by the reconnectable client / just dialled,
   then preceded by the dial marker).  The judge accepts the write on any connection; when nothing
   was written it demands that the address neither listens (pc_tcp_listeners) nor has a connection
   open in its bookkeeping (js_conns): that is [tcp_quiet_ok].
   MISSING for a statement on the states alone: an invariant of the transport table saying that the
   secondary (reconnectable) client of every tcp://ip:port[-tid] slot exists, names ip:port and can
   dial as soon as ip:port is among the world's listeners, plus world-listeners = pc_tcp_listeners
   and "js_conns knows a connection to ip:port -> ip:port listens or the slot holds that connection".
   C02_judge_bridge_step_tcp_fresh below proves it from the states for the first use of an address. *)
Theorem C02_judge_bridge_step_tcp_partial :
  forall (pc : proxy_case) (stj : jstate) (fx : fixes) (now : Z) (br : bytes) (st : state) (li : nat)
         (lc : listen_cfg) (src : bytes) (sport : Z) (data : bytes) (jin : jmsg) (m : message) (rest : bytes)
         (p : pstate) (st' : state) (outs : list output) (closed : list nat)
         (v1 v2 : via_param) (vrest : list via_param) (ip : bytes),
  nth_opt (c_listens (pc_cfg pc)) li = Some lc -> nth_p (st_proxies st) li = Some p ->
  j_read data = Some jin -> parse_message data = Ok (m, rest) ->
  via_domain m ->
  flat_view (via_hdrs m) = v1 :: v2 :: vrest ->
  to_lower (v_transport v2) = s2b "tcp" ->
  get_ip (pc_cfg pc) (hop_host v2) = Some ip ->
  fx_udp_via_listener fx = true -> tcp_slot_ok p ->
  proxy_step fx (pc_cfg pc) now br st (EvUdp li src sport data) = Ok (st', outs) ->
  tcp_quiet_ok pc stj ip (hop_port v2) outs ->
  judge_C02_event pc stj (EvUdp li src sport data)
    (map B13.labelled (filter (visible (pc_udp_endpoints pc)) outs)) closed = O.
Proof.
  intros pc stj fx now br st li lc src sport data jin m rest p st' outs closed v1 v2 vrest ip
         EL EP HJ HP HV FV Htr Hip Hfx Hslot H HQ.
  apply (C02_judge_bridge_core pc stj fx now br st li lc src sport data jin m rest p st' outs _ closed
           EL EP HJ HP HV H).
  intros v1' v2' vrest' m4 pins' Hr FV' EO EB. rewrite FV in FV'. injection FV' as <- <- <-.
  destruct (C02_dest_tcp (step_env fx (pc_cfg pc) li lc now br) (hop_host v2) (hop_port v2) (v_transport v2) m4
              (pin_ctx st p pins') Hfx Htr Hslot) as (os & O1 & O2).
  cbn [pin_ctx x_outs app] in O1. rewrite <- EO in O1. subst os.
  unfold j_dest, lower_is. rewrite Htr.
  change (beq (s2b "tcp") (s2b "udp")) with false. change (beq (s2b "tcp") (s2b "tcp")) with true. cbv iota.
  rewrite Hip.
  exact (dest_ok_tcp pc stj ip (hop_port v2) _ outs _ O2 (tcp_shape_visible _ _ _ O2) HQ).
Qed.

(* ... in particular: whenever the model wrote the response on a connection, the judge accepts, whatever
   its bookkeeping says *)
Corollary C02_judge_bridge_step_tcp_sent :
  forall (pc : proxy_case) (stj : jstate) (fx : fixes) (now : Z) (br : bytes) (st : state) (li : nat)
         (lc : listen_cfg) (src : bytes) (sport : Z) (data : bytes) (jin : jmsg) (m : message) (rest : bytes)
         (p : pstate) (st' : state) (outs : list output) (closed : list nat)
         (v1 v2 : via_param) (vrest : list via_param) (ip : bytes),
  nth_opt (c_listens (pc_cfg pc)) li = Some lc -> nth_p (st_proxies st) li = Some p ->
  j_read data = Some jin -> parse_message data = Ok (m, rest) ->
  via_domain m ->
  flat_view (via_hdrs m) = v1 :: v2 :: vrest ->
  to_lower (v_transport v2) = s2b "tcp" ->
  get_ip (pc_cfg pc) (hop_host v2) = Some ip ->
  fx_udp_via_listener fx = true -> tcp_slot_ok p ->
  proxy_step fx (pc_cfg pc) now br st (EvUdp li src sport data) = Ok (st', outs) ->
  filter C06.is_msg outs <> [] ->
  judge_C02_event pc stj (EvUdp li src sport data)
    (map B13.labelled (filter (visible (pc_udp_endpoints pc)) outs)) closed = O.
Proof.
  intros pc stj fx now br st li lc src sport data jin m rest p st' outs closed v1 v2 vrest ip
         EL EP HJ HP HV FV Htr Hip Hfx Hslot H NE.
  apply (C02_judge_bridge_step_tcp_partial pc stj fx now br st li lc src sport data jin m rest p st' outs closed
           v1 v2 vrest ip EL EP HJ HP HV FV Htr Hip Hfx Hslot H).
  intros E. exfalso. exact (NE E).
Qed.

(* ---- first use of a TCP address by this listener: everything from the states ---- *)
(* no slot for ip:port (with or without a transaction suffix), and the next client id is unused *)
Definition tcp_fresh (ip : bytes) (port : Z) (p : pstate) : Prop :=
  (forall tid, alookup (full_addr (s2b "tcp") ip port tid) (ps_table p) = None) /\
  find_client (List.length (ps_clients p)) (ps_clients p) = None.

Lemma find_client_snoc id l cl : find_client id l = None -> tc_id cl = id -> find_client id (l ++ [cl]) = Some cl.
Proof.
  unfold find_client. intros N E. induction l as [|x r IH]; cbn [app find] in *.
  - rewrite E, Nat.eqb_refl. reflexivity.
  - destruct (Nat.eqb (tc_id x) id); [discriminate N|]. exact (IH N).
Qed.
Lemma find_set_cached_some id v l cl : find_client id l = Some cl ->
  find_client id (set_client_cached id v l) =
    Some {| tc_id := id; tc_host := tc_host cl; tc_port := tc_port cl; tc_cached := v |}.
Proof.
  unfold find_client. induction l as [|x r IH]; cbn [find set_client_cached]; [discriminate|].
  destruct (Nat.eqb (tc_id x) id) eqn:E.
  - intros H. injection H as <-. cbn [find tc_id]. rewrite Nat.eqb_refl. reflexivity.
  - intros H. cbn [find]. rewrite E. exact (IH H).
Qed.

(* TCPClientTransport.Send of a client that has no connection yet *)
Lemma tcs_fresh_outs li local rs b p cs w ip port id :
  find_client id (ps_clients p) = Some {| tc_id := id; tc_host := ip; tc_port := port; tc_cached := None |} ->
  snd (fst (tcp_client_send 2 li local rs id b p cs w [])) =
    if has_peer (w_tcp_listeners w) ip port
    then [(DDial ip port (w_next_conn w), []); (DConn (w_next_conn w), b)] else [].
Proof.
  intros F. cbn [tcp_client_send]. rewrite F. cbn [tc_cached tc_host tc_port].
  change (existsb (fun '(h, pt) => beq h ip && Z.eqb pt port) (w_tcp_listeners w))
    with (has_peer (w_tcp_listeners w) ip port).
  destruct (has_peer (w_tcp_listeners w) ip port); reflexivity.
Qed.

Lemma ps_clients_clean now p : ps_clients (clean_expired now p) = ps_clients p.
Proof. unfold clean_expired. destruct (Z.ltb _ 60); reflexivity. Qed.
Lemma ps_clients_remove proto host port tid p : ps_clients (remove_transport proto host port tid p) = ps_clients p.
Proof. unfold remove_transport. cbv zeta. destruct (negb _); reflexivity. Qed.

(* sendMessage over TCP to an address this listener has not used yet: the reconnectable client is
   created, dials when the address listens, and writes on the new connection; else nothing *)
Lemma send_message_tcp_fresh e host port tr m x ip :
  fx_udp_via_listener (e_fx e) = true -> to_lower tr = s2b "tcp" -> get_ip (e_cfg e) host = Some ip ->
  tcp_fresh ip port (x_p x) ->
  x_outs (fst (send_message e host port tr m x)) =
    x_outs x ++ (if has_peer (w_tcp_listeners (x_world x)) ip port
                 then [(DDial ip port (w_next_conn (x_world x)), []);
                       (DConn (w_next_conn (x_world x)), write_message (sent_msg m))]
                 else []).
Proof.
  intros Hfx Htr Hip (HT & HC). unfold send_message, sent_msg. rewrite Hip.
  destruct (mtry s_client_transaction m) as [m1 tid]. cbn [fst].
  set (trans_id := match tid with Ok (Some t) => t | _ => [] end).
  unfold get_transport. cbv zeta. rewrite Htr.
  change (negb (supported_proto (s2b "tcp"))) with false. cbv iota.
  rewrite (clean_lookup_none _ _ _ (HT trans_id)).
  change (beq (s2b "tcp") (s2b "udp")) with false. cbv iota.
  rewrite (clean_lookup_none _ _ _ (HT [])).
  cbv beta iota. cbn [ps_table with_table]. rewrite alookup_aset_same.
  rewrite Hfx. assert (EU : equal_fold tr (s2b "udp") = false) by (unfold equal_fold; rewrite Htr; reflexivity).
  rewrite EU. cbn [andb negb]. cbv iota. cbn [ps_table with_table]. rewrite alookup_aset_same.
  set (id := List.length (ps_clients (clean_expired (now_s e) (x_p x)))).
  match goal with |- context [failover_send ?a ?b ?c ?d ?bb ?p3 ?g ?h] =>
    assert (FC : find_client id (ps_clients p3) =
                 Some {| tc_id := id; tc_host := ip; tc_port := port; tc_cached := None |});
    [|unfold failover_send; cbn [fo_pri fo_sec];
      pose proof (tcs_fresh_outs a b c bb p3 g h ip port id FC) as TO;
      destruct (tcp_client_send 2 a b c id bb p3 g h []) as [[[[p4 cs4] w4] outs4] ok4]; cbn [fst snd] in TO;
      subst outs4 ]
  end.
  - destruct (is_final_response m1); rewrite ?ps_clients_remove; cbn [ps_clients with_table with_clients];
      (apply find_client_snoc; [subst id; rewrite ps_clients_clean; exact HC|reflexivity]).
  - destruct (alookup _ (ps_table p4)); reflexivity.
Qed.

(* the agreement between the judge's bookkeeping / the case and the model state, as weak as the
   judge needs for a TCP destination ip:port:
   - a peer the case lists as accepting TCP connections does so in the model's world;
   - every connection the judge has booked to ip:port belongs to a peer that listens there (true of
     the connections the proxy dialled: it could only dial a listening peer) *)
Definition tcp_agree (pc : proxy_case) (stj : jstate) (st : state) (ip : bytes) (port : Z) : Prop :=
  (has_peer (pc_tcp_listeners pc) ip port = true -> has_peer (w_tcp_listeners (st_world st)) ip port = true) /\
  (jconn_to stj ip port = true -> has_peer (w_tcp_listeners (st_world st)) ip port = true).

(* REQUESTED AND PROVED for the first use of the address (tcp_fresh: true of a fresh proxy, slots_fresh_init).
   Dial + write when ip:port listens, nothing otherwise; the judge accepts under [tcp_agree]. *)
Theorem C02_judge_bridge_step_tcp_fresh :
  forall (pc : proxy_case) (stj : jstate) (fx : fixes) (now : Z) (br : bytes) (st : state) (li : nat)
         (lc : listen_cfg) (src : bytes) (sport : Z) (data : bytes) (jin : jmsg) (m : message) (rest : bytes)
         (p : pstate) (st' : state) (outs : list output) (closed : list nat)
         (v1 v2 : via_param) (vrest : list via_param) (ip : bytes),
  tcp_agree pc stj st ip (hop_port v2) ->
  nth_opt (c_listens (pc_cfg pc)) li = Some lc -> nth_p (st_proxies st) li = Some p ->
  j_read data = Some jin -> parse_message data = Ok (m, rest) ->
  via_domain m ->
  flat_view (via_hdrs m) = v1 :: v2 :: vrest ->
  to_lower (v_transport v2) = s2b "tcp" ->
  get_ip (pc_cfg pc) (hop_host v2) = Some ip ->
  fx_udp_via_listener fx = true -> tcp_fresh ip (hop_port v2) p ->
  proxy_step fx (pc_cfg pc) now br st (EvUdp li src sport data) = Ok (st', outs) ->
  judge_C02_event pc stj (EvUdp li src sport data)
    (map B13.labelled (filter (visible (pc_udp_endpoints pc)) outs)) closed = O.
Proof.
  intros pc stj fx now br st li lc src sport data jin m rest p st' outs closed v1 v2 vrest ip
         (AG1 & AG2) EL EP HJ HP HV FV Htr Hip Hfx Hfresh H.
  apply (C02_judge_bridge_core pc stj fx now br st li lc src sport data jin m rest p st' outs _ closed
           EL EP HJ HP HV H).
  intros v1' v2' vrest' m4 pins' Hr FV' EO EB. rewrite FV in FV'. injection FV' as <- <- <-.
  rewrite EO.
  rewrite (send_message_tcp_fresh (step_env fx (pc_cfg pc) li lc now br) (hop_host v2) (hop_port v2)
             (v_transport v2) m4 (pin_ctx st p pins') ip Hfx Htr Hip Hfresh).
  cbn [pin_ctx x_outs x_world app].
  unfold j_dest, lower_is. rewrite Htr.
  change (beq (s2b "tcp") (s2b "udp")) with false. change (beq (s2b "tcp") (s2b "tcp")) with true. cbv iota.
  rewrite Hip.
  assert (Q : has_peer (w_tcp_listeners (st_world st)) ip (hop_port v2) = false ->
              has_peer (pc_tcp_listeners pc) ip (hop_port v2) = false /\ jconn_to stj ip (hop_port v2) = false).
  { intros W. split.
    - destruct (has_peer (pc_tcp_listeners pc) ip (hop_port v2)); [|reflexivity].
      rewrite (AG1 eq_refl) in W. discriminate W.
    - destruct (jconn_to stj ip (hop_port v2)); [|reflexivity].
      rewrite (AG2 eq_refl) in W. discriminate W. }
  clear AG1 AG2.
  destruct (has_peer (w_tcp_listeners (st_world st)) ip (hop_port v2)).
  - reflexivity.
  - cbn [filter map]. change (msgs_of []) with (@nil (bytes * bytes)). rewrite dest_ok_tcp_nil.
    destruct (Q eq_refl) as [-> ->]. reflexivity.
Qed.

Lemma slots_fresh_init c now lc ip port : tcp_fresh ip port (init_pstate c now lc).
Proof. split; [intros tid; reflexivity|reflexivity]. Qed.

(* ====================================================================== Part 6: examples *)
Module C02_bridge_example.
Open Scope string_scope.
Open Scope list_scope.
Open Scope Z_scope.
Ltac vc := vm_compute; first [reflexivity | exact I].
Definition ex_lc : listen_cfg :=
  {| lc_addr := s2b "10.0.0.1"; lc_udp := 5060; lc_tcp := 5060; lc_backends := []; lc_dynamic := false;
     lc_no_received := false; lc_def_route := false; lc_must_rr := false |}.
Definition ex_cfg : cfg :=
  {| c_name := s2b "proxy.example"; c_keep_next_hop := false; c_dialog_timeout := 60; c_routes := [];
     c_hosts := [(s2b "ua.example", s2b "10.1.1.1")]; c_listens := [ex_lc] |}.
(* the driver owns a UDP socket at 127.0.0.9:40000 and accepts TCP connections at 10.8.8.8:5080 *)
Definition ex_pc : proxy_case :=
  {| pc_cfg := ex_cfg; pc_tcp_listeners := [(s2b "10.8.8.8", 5080)]; pc_udp_endpoints := [(s2b "127.0.0.9", 40000)];
     pc_events := []; pc_waits := [] |}.
Definition ln (s : string) : bytes := s2b s ++ crlf.
Definition resp (vias : list string) : bytes :=
  flat_map ln (["SIP/2.0 200 OK"] ++ vias ++
               ["From: <sip:a@example.com>;tag=1"; "To: <sip:bob@example.com>;tag=2"; "Call-ID: c1";
                "CSeq: 1 INVITE"; "Content-Length: 0"]) ++ crlf.
Definition own := "Via: SIP/2.0/UDP 10.0.0.1:5060;branch=z9hG4bKpx".
(* comma list (own entry, then an entry with received + numeric rport) and a compact-name line *)
Definition ex_data : bytes :=
  resp ["Via: SIP/2.0/UDP 10.0.0.1:5060;branch=z9hG4bKpx,SIP/2.0/UDP 10.9.9.9:5070;rport=40000;branch=z9hG4bKabc;received=127.0.0.9";
        "v: SIP/2.0/TCP 10.8.8.8;branch=z9hG4bKdef"].
Definition ex_src : bytes := s2b "10.0.0.2".
Definition ex_br : bytes := s2b "z9hG4bKpx".
Definition ex_st : state := init_state ex_cfg 0 (pc_tcp_listeners ex_pc).
Definition ex_p : pstate := init_pstate ex_cfg 0 ex_lc.
Definition dummy : message := {| m_start := SResp [] 0 []; m_headers := []; m_body := [] |}.
Definition parsed (b : bytes) : message := match parse_message b with Ok (m, _) => m | _ => dummy end.
Definition jread (b : bytes) : jmsg :=
  match j_read b with Some j => j | None => Build_jmsg [] [] [] [] false 0 None end.
Definition step (b : bytes) : res (state * list output) :=
  proxy_step all_fixed ex_cfg 0 ex_br ex_st (EvUdp 0 ex_src 5070 b).
Definition outs_of (b : bytes) : list output := match step b with Ok (_, o) => o | _ => [] end.
Definition st_of (b : bytes) : state := match step b with Ok (s, _) => s | _ => ex_st end.
Definition dv : via_param :=
  {| v_name := []; v_version := []; v_transport := []; v_host := []; v_port := 0; v_params := [] |}.
Definition via_n (b : bytes) (n : nat) : via_param := nth n (flat_view (via_hdrs (parsed b))) dv.
Definition seen (b : bytes) : list (bytes * bytes) :=
  map B13.labelled (filter (visible (pc_udp_endpoints ex_pc)) (outs_of b)).

(* what leaves the proxy: one datagram to received:rport of the second entry *)
Example ex_output :
  map fst (seen ex_data) = [s2b "udp:127.0.0.9:40000"] /\
  map (fun o => option_map (fun om => j_flat_via (jm_headers om)) (j_read (snd o))) (seen ex_data) =
    [Some [s2b "SIP/2.0/UDP 10.9.9.9:5070;rport=40000;branch=z9hG4bKabc;received=127.0.0.9";
           s2b "SIP/2.0/TCP 10.8.8.8;branch=z9hG4bKdef"]].
Proof. split; vm_compute; reflexivity. Qed.

(* the hypotheses of C02_judge_bridge_step_udp hold of this instance, hence the judge accepts *)
Example C02_bridge_ex_udp :
  judge_C02_event ex_pc (js_init ex_cfg) (EvUdp 0 ex_src 5070 ex_data) (seen ex_data) [] = O.
Proof.
  apply (C02_judge_bridge_step_udp ex_pc (js_init ex_cfg) all_fixed 0 ex_br ex_st 0%nat ex_lc ex_src 5070 ex_data
           (jread ex_data) (parsed ex_data) [] ex_p (st_of ex_data) (outs_of ex_data) []
           (via_n ex_data 0) (via_n ex_data 1) [via_n ex_data 2] (s2b "127.0.0.9")).
  - reflexivity.
  - vc.
  - vc.
  - vc.
  - apply via_domain_b_sound. vc.
  - vc.
  - vc.
  - vc.
  - vc.
  - vc.
  - vc.
  - vc.
Qed.

(* the judge does look: the same bytes at another address are rejected (1), the received response
   relayed unchanged to the right address is rejected for its Via stack (2) *)
Example C02_bridge_ex_sensitive :
  judge_C02_event ex_pc (js_init ex_cfg) (EvUdp 0 ex_src 5070 ex_data)
    [(s2b "udp:10.9.9.9:5070", match outs_of ex_data with (_, b) :: _ => b | [] => [] end)] [] = 1%nat /\
  judge_C02_event ex_pc (js_init ex_cfg) (EvUdp 0 ex_src 5070 ex_data)
    [(s2b "udp:127.0.0.9:40000", ex_data)] [] = 2%nat.
Proof. split; vm_compute; reflexivity. Qed.

(* a single Via entry: dropped *)
Definition ex_single : bytes := resp [own].
Example C02_bridge_ex_drop :
  outs_of ex_single = [] /\
  judge_C02_event ex_pc (js_init ex_cfg) (EvUdp 0 ex_src 5070 ex_single) (seen ex_single) [] = O.
Proof.
  split; [vc|].
  apply (C02_judge_bridge_step_drop ex_pc (js_init ex_cfg) all_fixed 0 ex_br ex_st 0%nat ex_lc ex_src 5070 ex_single
           (jread ex_single) (parsed ex_single) [] ex_p (st_of ex_single) (outs_of ex_single)
           (visible (pc_udp_endpoints ex_pc)) []).
  - reflexivity.
  - vc.
  - vc.
  - vc.
  - apply via_domain_b_sound. vc.
  - vm_compute. lia.
  - vc.
Qed.

(* TCP next hop, first use of the address: the peer listens (dial + write) / does not (nothing) *)
Definition ex_tcp : bytes := resp [own; "Via: SIP/2.0/TCP 10.8.8.8:5080;branch=z9hG4bKdef"].
Definition ex_tcp_quiet : bytes := resp [own; "Via: SIP/2.0/tcp 10.7.7.7:5090;branch=z9hG4bKdef"].
Example ex_tcp_outputs :
  map fst (seen ex_tcp) = [s2b "dial:10.8.8.8:5080"; s2b "conn:0"] /\ seen ex_tcp_quiet = [].
Proof. split; vm_compute; reflexivity. Qed.
Example C02_bridge_ex_tcp :
  judge_C02_event ex_pc (js_init ex_cfg) (EvUdp 0 ex_src 5070 ex_tcp) (seen ex_tcp) [] = O.
Proof.
  apply (C02_judge_bridge_step_tcp_fresh ex_pc (js_init ex_cfg) all_fixed 0 ex_br ex_st 0%nat ex_lc ex_src 5070 ex_tcp
           (jread ex_tcp) (parsed ex_tcp) [] ex_p (st_of ex_tcp) (outs_of ex_tcp) []
           (via_n ex_tcp 0) (via_n ex_tcp 1) [] (s2b "10.8.8.8")).
  - split; intros _; vc.
  - reflexivity.
  - vc.
  - vc.
  - vc.
  - apply via_domain_b_sound. vc.
  - vc.
  - vc.
  - vc.
  - reflexivity.
  - apply slots_fresh_init.
  - vc.
Qed.
Example C02_bridge_ex_tcp_quiet :
  judge_C02_event ex_pc (js_init ex_cfg) (EvUdp 0 ex_src 5070 ex_tcp_quiet) (seen ex_tcp_quiet) [] = O.
Proof.
  apply (C02_judge_bridge_step_tcp_fresh ex_pc (js_init ex_cfg) all_fixed 0 ex_br ex_st 0%nat ex_lc ex_src 5070 ex_tcp_quiet
           (jread ex_tcp_quiet) (parsed ex_tcp_quiet) [] ex_p (st_of ex_tcp_quiet) (outs_of ex_tcp_quiet) []
           (via_n ex_tcp_quiet 0) (via_n ex_tcp_quiet 1) [] (s2b "10.7.7.7")).
  - split; intros X; vm_compute in X; discriminate X.
  - reflexivity.
  - vc.
  - vc.
  - vc.
  - apply via_domain_b_sound. vc.
  - vc.
  - vc.
  - vc.
  - reflexivity.
  - apply slots_fresh_init.
  - vc.
Qed.

(* THE STORY OF [via_lead_ok].  The second entry of the comma list begins with U+0085 (bytes C2 85: Unicode
   white space for strings.TrimSpace, but neither a blank of the Via grammar nor ASCII).  The response is
   in [via_domain]; the model relays it to the right address with that entry FIRST in its header value.
   The judge's former reader (SpecProxy.j_flat trimmed the entries of a comma list with the ASCII-only
   trim_space while j_header reads header values through TrimSpace) kept the two bytes on the input side
   (entry after a comma), lost them on the output side (entry first in its value) and rejected its own
   expectation (reason 2).  The bridge theorems of this file therefore carried the hypothesis
     via_lead_ok m := match via_hdrs m with Some (_ :: b :: r) :: _ => lclean (via_print (b :: r)) | _ => True end
   and this Example stated that it could not be dropped (verdict 2 on a correct relay: a defect of the
   judge's reader on exotic input).  The judge now trims the LEFT end of every Via entry like
   strings.TrimSpace (SpecProxy.j_flat_via); the hypothesis is gone from every theorem, and on this very
   input - which violates it - the judge answers 0: by computation, and by C02_judge_bridge_step_udp. *)
Definition nel : bytes := [ascii_of_nat 194; ascii_of_nat 133].
Definition ex_nel : bytes :=
  ln "SIP/2.0 200 OK" ++
  s2b "Via: SIP/2.0/UDP 10.0.0.1:5060;branch=z9hG4bKpx," ++ nel ++
  s2b "SIP/2.0/UDP 127.0.0.9:40000;branch=z9hG4bKabc" ++ crlf ++
  flat_map ln ["From: <sip:a@example.com>;tag=1"; "To: <sip:bob@example.com>;tag=2"; "Call-ID: c1";
               "CSeq: 1 INVITE"; "Content-Length: 0"] ++ crlf.
(* SINCE THE MODEL USES strings.Fields PROPER (Bytes.fields_go) in parse_via_param: the sent-protocol /
   sent-by text of an entry is split at Unicode white space too, so the leading U+0085 of the second
   entry is DROPPED by the decoder (the decoded protocol name is "SIP"), decode-then-encode is not the
   identity on this value, and the response is no longer in [via_domain] ([wf_via] excludes Unicode-space
   sequences inside the protocol name: SpecC14.via_no_usp).  The relayed entry is printed without the
   two bytes; the judge, which trims the left end of every entry, still answers 0 (by computation; the
   bridge theorem does not apply to this input any more).  Former first two conjuncts, true of the
   ASCII-only split:  via_domain (parsed ex_nel)  and
   ~ lclean (via_print (tl (flat_view (via_hdrs (parsed ex_nel))))). *)
Example via_lead_ok_needed :
  via_domain_b (parsed ex_nel) = false /\
  via_print (tl (flat_view (via_hdrs (parsed ex_nel)))) = s2b "SIP/2.0/UDP 127.0.0.9:40000;branch=z9hG4bKabc" /\
  map fst (seen ex_nel) = [s2b "udp:127.0.0.9:40000"] /\
  map (fun o => option_map (fun om => j_flat_via (jm_headers om)) (j_read (snd o))) (seen ex_nel) =
    [Some [s2b "SIP/2.0/UDP 127.0.0.9:40000;branch=z9hG4bKabc"]] /\
  judge_C02_event ex_pc (js_init ex_cfg) (EvUdp 0 ex_src 5070 ex_nel) (seen ex_nel) [] = O.
Proof.
  split; [vm_compute; reflexivity|]. split; [vm_compute; reflexivity|].
  split; [vm_compute; reflexivity|]. split; vm_compute; reflexivity.
Qed.
Example via_lead_ok_needed_by_theorem :
  judge_C02_event ex_pc (js_init ex_cfg) (EvUdp 0 ex_src 5070 ex_nel) (seen ex_nel) [] = O.
Proof. (* the input is outside [via_domain] now (see above): by computation *) vm_compute. reflexivity. Qed.

(* WHY THE RIGHT END OF A VIA ENTRY IS NOT READ THROUGH strings.TrimSpace (SpecProxy.j_flat_via: left end
   TrimSpace, right end ASCII blanks only).  The second entry is followed by a comma and its last parameter,
   received, ends with U+00A0 (bytes C2 A0; inside [via_domain]: [val_char] allows bytes >= 128).  ParseVia
   keeps the parameter as it stands: the proxy looks up the host "127.0.0.9" C2 A0, which it does not
   know, and sends nothing.  The judge reads the same host and accepts.  A reader that trimmed the right
   end of the entry with TrimSpace semantics would read received=127.0.0.9, rport=40000 - an address the
   driver observes - and demand a datagram there (reason 1 on a correct run). *)
Definition nbsp : bytes := [ascii_of_nat 194; ascii_of_nat 160].
Definition ex_e2 : bytes := s2b "SIP/2.0/UDP 10.9.9.9:5070;rport=40000;received=127.0.0.9" ++ nbsp.
Definition ex_tail : bytes :=
  ln "SIP/2.0 200 OK" ++
  s2b "Via: SIP/2.0/UDP 10.0.0.1:5060;branch=z9hG4bKpx," ++ ex_e2 ++ s2b ",SIP/2.0/TCP 10.8.8.8;branch=z9hG4bKdef" ++ crlf ++
  flat_map ln ["From: <sip:a@example.com>;tag=1"; "To: <sip:bob@example.com>;tag=2"; "Call-ID: c1";
               "CSeq: 1 INVITE"; "Content-Length: 0"] ++ crlf.
Example via_tail_kept :
  via_domain (parsed ex_tail) /\
  hop_host (via_n ex_tail 1) = s2b "127.0.0.9" ++ nbsp /\
  seen ex_tail = [] /\
  judge_C02_event ex_pc (js_init ex_cfg) (EvUdp 0 ex_src 5070 ex_tail) (seen ex_tail) [] = O /\
  option_map (fun v => j_get (s2b "received") (jv_params v)) (j_via (j_trim_via ex_e2)) =
    Some (Some (s2b "127.0.0.9" ++ nbsp)) /\
  option_map (fun v => j_get (s2b "received") (jv_params v)) (j_via (trim_space_go ex_e2)) =
    Some (Some (s2b "127.0.0.9")) /\
  dest_ok ex_pc (js_init ex_cfg) (j_dest ex_cfg (s2b "UDP") (s2b "127.0.0.9") 40000) (msgs_of (seen ex_tail)) = false.
Proof.
  split; [apply via_domain_b_sound; vc|]. repeat split; vm_compute; reflexivity.
Qed.
End C02_bridge_example.

Print Assumptions jhop_of.
Print Assumptions good_pop_via.
Print Assumptions handle_response_good.
Print Assumptions step_response_good.
Print Assumptions C02_judge_bridge_core.
Print Assumptions C02_judge_bridge_step_udp.
Print Assumptions C02_judge_bridge_step_drop.
Print Assumptions C02_judge_bridge_step_unsupported.
Print Assumptions C02_judge_bridge_step_unresolved.
Print Assumptions C02_judge_bridge_step_tcp_partial.
Print Assumptions C02_judge_bridge_step_tcp_sent.
Print Assumptions send_message_tcp_fresh.
Print Assumptions C02_judge_bridge_step_tcp_fresh.
Print Assumptions C02_bridge_example.C02_bridge_ex_udp.
Print Assumptions C02_bridge_example.C02_bridge_ex_tcp.
Print Assumptions C02_bridge_example.via_lead_ok_needed.
Print Assumptions C02_bridge_example.via_lead_ok_needed_by_theorem.
