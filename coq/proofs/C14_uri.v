(* proofs/C14_uri.v — property C14 for SIP-URI / addr-spec / name-addr:
   for EVERY well-formed abstract value (no bound on lengths), the model's decoder applied to
   the reference text returns exactly the embedded value, the encoder gives the text back
   byte for byte, the accessors report what the value denotes, and the judge observation is the
   expected one.  Structural reasoning on index_byte / split_byte over concatenations.
   No axioms, no admits. *)
From Coq Require Import List Ascii String ZArith NArith Bool Lia.
From Model Require Import Bytes BytesLemmas Wire Uri Hdr Message Codec SpecC14.
Import ListNotations.
Open Scope list_scope.

(* ================================================================== generic list facts *)
Lemma forallb_notin (f : ascii -> bool) c s : f c = false -> forallb f s = true -> ~ In c s.
Proof.
  intros Hc Hs Hin. rewrite forallb_forall in Hs. apply Hs in Hin. congruence.
Qed.

Lemma forallb_impl (f g : ascii -> bool) s :
  (forall c, f c = true -> g c = true) -> forallb f s = true -> forallb g s = true.
Proof.
  intros H Hs. rewrite forallb_forall in Hs. apply forallb_forall. intros c Hc. apply H, Hs, Hc.
Qed.

Lemma notin_app {A} (c : A) a b : ~ In c a -> ~ In c b -> ~ In c (a ++ b).
Proof. intros Ha Hb H. apply in_app_or in H. tauto. Qed.

Lemma notin_cons {A} (c x : A) a : x <> c -> ~ In c a -> ~ In c (x :: a).
Proof. intros Hx Ha [H|H]; contradiction. Qed.

Lemma firstn_len_app {A} (a b : list A) : firstn (List.length a) (a ++ b) = a.
Proof. induction a as [|x a IH]; cbn; [reflexivity|f_equal; exact IH]. Qed.

Lemma skipn_len_app {A} (a b : list A) : skipn (List.length a) (a ++ b) = b.
Proof. induction a as [|x a IH]; cbn; [reflexivity|exact IH]. Qed.

Lemma skipn_S_len_app {A} (a : list A) c b : skipn (S (List.length a)) (a ++ c :: b) = b.
Proof. induction a as [|x a IH]; cbn; [reflexivity|exact IH]. Qed.

(* the three facts every "cut at the first separator" step uses *)
Lemma index_cut c a b : ~ In c a ->
  index_byte c (a ++ c :: b) = Some (List.length a) /\
  firstn (List.length a) (a ++ c :: b) = a /\
  skipn (S (List.length a)) (a ++ c :: b) = b.
Proof.
  intros H. split; [apply index_byte_app_notin; exact H|].
  split; [apply firstn_len_app|apply skipn_S_len_app].
Qed.

Lemma index_notin c a : ~ In c a -> index_byte c a = None.
Proof. apply index_byte_none. Qed.

(* split of [x c f(y1) c f(y2) ...] when no piece contains c *)
Lemma split_flat {A} c (f : A -> bytes) l : forall x,
  ~ In c x -> Forall (fun y => ~ In c (f y)) l ->
  split_byte c (x ++ flat_map (fun y => c :: f y) l) = x :: map f l.
Proof.
  induction l as [|a l IH]; intros x Hx HF; cbn [flat_map map].
  - rewrite app_nil_r. apply split_byte_single. exact Hx.
  - inversion HF as [|a' l' Ha Hl]; subst.
    change ((c :: f a) ++ flat_map (fun y => c :: f y) l)
      with (c :: (f a ++ flat_map (fun y => c :: f y) l)).
    rewrite split_byte_app by exact Hx. f_equal. apply IH; assumption.
Qed.

Ltac norm_app := repeat (rewrite <- app_assoc || rewrite <- app_comm_cons); cbn [app].

(* ================================================================== character classes *)
(* chars of user / password / host / port text *)
Definition hp_char (c : ascii) : bool := safe_char c || in_str c ":@".
(* ... plus parameters *)
Definition pm_char (c : ascii) : bool := val_char c || in_str c ";".
(* ... plus headers: every char of a printed SIP URI *)
Definition uri_char (c : ascii) : bool := val_char c || in_str c ";?&".

Ltac ascii_brute :=
  let c := fresh "c" in
  intros c; destruct c as [[|] [|] [|] [|] [|] [|] [|] [|]]; vm_compute; auto.

Lemma safe_char_val : forall c, safe_char c = true -> val_char c = true.
Proof. ascii_brute. Qed.
Lemma safe_char_hp : forall c, safe_char c = true -> hp_char c = true.
Proof. ascii_brute. Qed.
Lemma hp_char_val : forall c, hp_char c = true -> val_char c = true.
Proof. ascii_brute. Qed.
Lemma val_char_pm : forall c, val_char c = true -> pm_char c = true.
Proof. ascii_brute. Qed.
Lemma pm_char_uri : forall c, pm_char c = true -> uri_char c = true.
Proof. ascii_brute. Qed.
Lemma uri_char_other : forall c, uri_char c = true -> other_char c = true.
Proof. ascii_brute. Qed.
Lemma digit_safe_char : forall c, is_digit c = true -> safe_char c = true.
Proof. ascii_brute. Qed.

(* separators are outside the classes (by computation on the character) *)
Lemma safe_notin c s : safe_char c = false -> safe s = true -> ~ In c s.
Proof. apply forallb_notin. Qed.
Lemma val_notin c s : val_char c = false -> val_ok s = true -> ~ In c s.
Proof. apply forallb_notin. Qed.
Lemma other_notin c s : other_char c = false -> forallb other_char s = true -> ~ In c s.
Proof. apply forallb_notin. Qed.
Lemma display_notin c s : display_char c = false -> display_ok s = true -> ~ In c s.
Proof. apply forallb_notin. Qed.

(* the individual facts, for direct use *)
Lemma safe_no_semi s : safe s = true -> ~ In ";"%char s.  Proof. apply safe_notin. reflexivity. Qed.
Lemma safe_no_qmark s : safe s = true -> ~ In "?"%char s. Proof. apply safe_notin. reflexivity. Qed.
Lemma safe_no_at s : safe s = true -> ~ In "@"%char s.    Proof. apply safe_notin. reflexivity. Qed.
Lemma safe_no_colon s : safe s = true -> ~ In ":"%char s. Proof. apply safe_notin. reflexivity. Qed.
Lemma safe_no_lt s : safe s = true -> ~ In "<"%char s.    Proof. apply safe_notin. reflexivity. Qed.
Lemma safe_no_gt s : safe s = true -> ~ In ">"%char s.    Proof. apply safe_notin. reflexivity. Qed.
Lemma safe_no_comma s : safe s = true -> ~ In ","%char s. Proof. apply safe_notin. reflexivity. Qed.
Lemma safe_no_eq s : safe s = true -> ~ In "="%char s.    Proof. apply safe_notin. reflexivity. Qed.
Lemma safe_no_amp s : safe s = true -> ~ In "&"%char s.   Proof. apply safe_notin. reflexivity. Qed.
Lemma safe_no_slash s : safe s = true -> ~ In "/"%char s. Proof. apply safe_notin. reflexivity. Qed.
Lemma safe_no_space s : safe s = true -> ~ In " "%char s. Proof. apply safe_notin. reflexivity. Qed.
Lemma val_no_semi s : val_ok s = true -> ~ In ";"%char s.  Proof. apply val_notin. reflexivity. Qed.
Lemma val_no_qmark s : val_ok s = true -> ~ In "?"%char s. Proof. apply val_notin. reflexivity. Qed.
Lemma val_no_amp s : val_ok s = true -> ~ In "&"%char s.   Proof. apply val_notin. reflexivity. Qed.
Lemma val_no_lt s : val_ok s = true -> ~ In "<"%char s.    Proof. apply val_notin. reflexivity. Qed.
Lemma val_no_gt s : val_ok s = true -> ~ In ">"%char s.    Proof. apply val_notin. reflexivity. Qed.
Lemma val_no_comma s : val_ok s = true -> ~ In ","%char s. Proof. apply val_notin. reflexivity. Qed.

Lemma safe_val s : safe s = true -> val_ok s = true.
Proof. apply forallb_impl, safe_char_val. Qed.
Lemma safe_hp s : safe s = true -> forallb hp_char s = true.
Proof. apply forallb_impl, safe_char_hp. Qed.
Lemma hp_pm s : forallb hp_char s = true -> forallb pm_char s = true.
Proof. apply forallb_impl. intros c H. apply val_char_pm, hp_char_val, H. Qed.
Lemma val_pm s : val_ok s = true -> forallb pm_char s = true.
Proof. apply forallb_impl, val_char_pm. Qed.
Lemma pm_uri s : forallb pm_char s = true -> forallb uri_char s = true.
Proof. apply forallb_impl, pm_char_uri. Qed.
Lemma val_uri s : val_ok s = true -> forallb uri_char s = true.
Proof. intros H. apply pm_uri, val_pm, H. Qed.
Lemma uri_other s : forallb uri_char s = true -> forallb other_char s = true.
Proof. apply forallb_impl, uri_char_other. Qed.

Lemma safe1_parts s : safe1 s = true -> s <> [] /\ safe s = true.
Proof.
  unfold safe1. intros H. apply andb_true_iff in H. destruct H as [H1 H2].
  split; [|exact H2]. intros ->. cbn in H1. discriminate.
Qed.

(* ---- numbers ---- *)
Lemma itoa_safe z : safe (itoa z) = true.
Proof.
  apply forallb_forall. intros c Hc. pose proof (itoa_chars z) as HF.
  rewrite Forall_forall in HF. destruct (HF c Hc) as [H| ->].
  - apply digit_safe_char. exact H.
  - reflexivity.
Qed.

Lemma atoi_val_itoa z : (int_min <= z <= int_max)%Z -> atoi_val (itoa z) = z.
Proof. intros H. unfold atoi_val. rewrite atoi_itoa by exact H. reflexivity. Qed.

Lemma wf_port_range z : wf_port (Some z) = true -> (1 <= z <= 65535)%Z.
Proof.
  cbn [wf_port]. intros H. apply andb_true_iff in H. destruct H as [H1 H2].
  apply Z.leb_le in H1. apply Z.leb_le in H2. split; assumption.
Qed.

Lemma atoi_val_port z : wf_port (Some z) = true -> atoi_val (itoa z) = z.
Proof.
  intros H. apply wf_port_range in H. apply atoi_val_itoa. unfold int_min, int_max. lia.
Qed.

(* ================================================================== embedding *)
Definition embed_param (p : a_param) : kv :=
  {| k_key := ap_key p; k_val := match ap_val p with Some v => v | None => [] end |}.
Definition embed_hdr (h : bytes * bytes) : kv := {| k_key := fst h; k_val := snd h |}.
Definition emb_scheme (b : bool) : bytes := if b then s2b "sips" else s2b "sip".
Definition emb_user (o : option (bytes * option bytes)) : bytes :=
  match o with Some (usr, _) => usr | None => [] end.
Definition emb_pw (o : option (bytes * option bytes)) : bytes :=
  match o with Some (_, Some pw) => pw | _ => [] end.
Definition emb_port (p : option Z) : Z := match p with Some z => z | None => 0%Z end.
Definition embed_sipuri (u : a_sipuri) : sip_uri :=
  {| u_scheme := emb_scheme (au_secure u);
     u_user := emb_user (au_user u);
     u_password := emb_pw (au_user u);
     u_host := au_host u;
     u_port := emb_port (au_port u);
     u_params := map embed_param (au_params u);
     u_headers := map embed_hdr (au_headers u) |}.
Definition embed_addr (a : a_addr) : addr_spec :=
  match a with AASip u => ASip (embed_sipuri u) | AAOther s => AAbs s end.
Definition embed_nameaddr (n : a_nameaddr) : name_addr :=
  {| na_display := an_display n; na_addr := embed_addr (an_addr n) |}.

(* ---- the pieces of wf_sipuri and rp_sipuri, named ---- *)
Definition wf_user (o : option (bytes * option bytes)) : bool :=
  match o with
  | Some (usr, pw) => safe1 usr && match pw with Some p => safe1 p | None => true end
  | None => true
  end.
Definition wf_hdr (h : bytes * bytes) : bool := let '(k, v) := h in safe1 k && val_ok v.

Lemma wf_sipuri_parts u : wf_sipuri u = true ->
  wf_user (au_user u) = true /\ safe1 (au_host u) = true /\ wf_port (au_port u) = true /\
  forallb wf_param (au_params u) = true /\ forallb wf_hdr (au_headers u) = true.
Proof.
  unfold wf_sipuri. intros H.
  apply andb_true_iff in H. destruct H as [H H5].
  apply andb_true_iff in H. destruct H as [H H4].
  apply andb_true_iff in H. destruct H as [H H3].
  apply andb_true_iff in H. destruct H as [H1 H2].
  repeat split; assumption.
Qed.

Definition rp_scheme (b : bool) : bytes := if b then s2b "sips:" else s2b "sip:".
Definition rp_user (o : option (bytes * option bytes)) : bytes :=
  match o with
  | Some (usr, Some pw) => usr ++ ":"%char :: pw ++ [ "@"%char ]
  | Some (usr, None) => usr ++ [ "@"%char ]
  | None => []
  end.
Definition rp_hdr (h : bytes * bytes) : bytes := fst h ++ "="%char :: snd h.
Definition rp_hdrs (l : list (bytes * bytes)) : bytes :=
  match l with
  | [] => []
  | h :: r => "?"%char :: rp_hdr h ++ flat_map (fun y => "&"%char :: rp_hdr y) r
  end.

Lemma rp_hdrs_eq l :
  match l with
  | [] => []
  | (k, v) :: r => "?"%char :: k ++ "="%char :: v ++
                   flat_map (fun '(k, v) => "&"%char :: k ++ "="%char :: v) r
  end = rp_hdrs l.
Proof.
  destruct l as [|[k v] r]; [reflexivity|].
  unfold rp_hdrs, rp_hdr. cbn [fst snd]. norm_app. do 4 f_equal.
  apply flat_map_ext. intros [k' v']. reflexivity.
Qed.

Lemma rp_sipuri_eq u :
  rp_sipuri u = rp_scheme (au_secure u) ++ rp_user (au_user u) ++ au_host u ++
                rp_port (au_port u) ++ rp_params (au_params u) ++ rp_hdrs (au_headers u).
Proof. unfold rp_sipuri. rewrite rp_hdrs_eq. reflexivity. Qed.

(* ================================================================== parameters *)
Lemma wf_param_parts p : wf_param p = true ->
  ap_key p <> [] /\ safe (ap_key p) = true /\
  match ap_val p with Some v => v <> [] /\ val_ok v = true | None => True end.
Proof.
  unfold wf_param. intros H. apply andb_true_iff in H. destruct H as [H1 H2].
  apply safe1_parts in H1. destruct H1 as [H1 H1'].
  split; [exact H1|]. split; [exact H1'|].
  destruct (ap_val p) as [v|]; [|exact I].
  apply andb_true_iff in H2. destruct H2 as [H2 H3]. split; [|exact H3].
  intros ->. cbn in H2. discriminate.
Qed.

Lemma kv_split_cut k v : ~ In "="%char k -> kv_split (k ++ "="%char :: v) = {| k_key := k; k_val := v |}.
Proof.
  intros H. unfold kv_split. destruct (index_cut _ k v H) as (E1 & E2 & E3).
  rewrite E1, E2, E3. reflexivity.
Qed.

Lemma kv_split_nocut k : ~ In "="%char k -> kv_split k = {| k_key := k; k_val := [] |}.
Proof. intros H. unfold kv_split. rewrite index_notin by exact H. reflexivity. Qed.

Lemma kv_split_param p : wf_param p = true -> kv_split (rp_param p) = embed_param p.
Proof.
  intros H. destruct (wf_param_parts p H) as (_ & Hk & _).
  apply safe_no_eq in Hk. unfold rp_param, embed_param.
  destruct (ap_val p) as [v|]; [apply kv_split_cut|apply kv_split_nocut]; exact Hk.
Qed.

Lemma kv_print_param p : wf_param p = true -> kv_print (embed_param p) = rp_param p.
Proof.
  intros H. destruct (wf_param_parts p H) as (_ & _ & Hv).
  unfold kv_print, rp_param, embed_param. cbn [k_key k_val].
  destruct (ap_val p) as [v|]; [|reflexivity].
  destruct Hv as [Hv _]. destruct v; [contradiction|reflexivity].
Qed.

Lemma rp_param_val p : wf_param p = true -> val_ok (rp_param p) = true.
Proof.
  intros H. destruct (wf_param_parts p H) as (_ & Hk & Hv).
  apply safe_val in Hk. unfold rp_param. destruct (ap_val p) as [v|]; [|exact Hk].
  destruct Hv as [_ Hv]. unfold val_ok in *. rewrite forallb_app. cbn [forallb].
  rewrite Hk, Hv. reflexivity.
Qed.

Lemma rp_param_nonempty p : wf_param p = true -> rp_param p <> [].
Proof.
  intros H. destruct (wf_param_parts p H) as (Hk & _ & _). unfold rp_param.
  destruct (ap_val p); destruct (ap_key p); try contradiction; discriminate.
Qed.

Lemma rp_param_no_semi p : wf_param p = true -> ~ In ";"%char (rp_param p).
Proof. intros H. apply val_no_semi, rp_param_val, H. Qed.

Lemma rp_params_pm l : forallb wf_param l = true -> forallb pm_char (rp_params l) = true.
Proof.
  induction l as [|p l IH]; intros H; [reflexivity|].
  cbn [forallb] in H. apply andb_true_iff in H. destruct H as [Hp Hl].
  change (rp_params (p :: l)) with (";"%char :: rp_param p ++ rp_params l).
  cbn [forallb]. rewrite forallb_app.
  rewrite (val_pm _ (rp_param_val p Hp)). rewrite (IH Hl). reflexivity.
Qed.

Lemma forallb_Forall_wf {A} (wf : A -> bool) (P : A -> Prop) l :
  (forall a, wf a = true -> P a) -> forallb wf l = true -> Forall P l.
Proof.
  intros HP H. rewrite forallb_forall in H. apply Forall_forall. intros a Ha. apply HP, H, Ha.
Qed.

(* split_byte ";" of the text after the first ';' gives back the printed parameters *)
Lemma split_params p r : forallb wf_param (p :: r) = true ->
  split_byte ";"%char (rp_param p ++ rp_params r) = map rp_param (p :: r).
Proof.
  intros H. cbn [forallb] in H. apply andb_true_iff in H. destruct H as [Hp Hr].
  unfold rp_params. rewrite split_flat.
  - reflexivity.
  - apply rp_param_no_semi, Hp.
  - apply (forallb_Forall_wf wf_param); [apply rp_param_no_semi|exact Hr].
Qed.

Lemma split_params_tl l : l <> [] -> forallb wf_param l = true ->
  split_byte ";"%char (tl (rp_params l)) = map rp_param l.
Proof. destruct l as [|p r]; [contradiction|]. intros _. apply split_params. Qed.

Lemma parse_uri_parameters_ok p r : forallb wf_param (p :: r) = true ->
  parse_uri_parameters (rp_param p ++ rp_params r) = map embed_param (p :: r).
Proof.
  intros H. unfold parse_uri_parameters. rewrite split_params by exact H.
  rewrite map_map. apply map_ext_in. intros a Ha. apply kv_split_param.
  rewrite forallb_forall in H. apply H, Ha.
Qed.

Lemma print_params_ok l : forallb wf_param l = true ->
  print_params ";"%char (map embed_param l) = rp_params l.
Proof.
  induction l as [|p l IH]; intros H; [reflexivity|].
  cbn [forallb] in H. apply andb_true_iff in H. destruct H as [Hp Hl].
  unfold print_params, rp_params in *. cbn [map flat_map].
  rewrite (kv_print_param p Hp), (IH Hl). reflexivity.
Qed.

(* the generic-parameter parser used after '>' in Route / From / To (for the next file) *)
Lemma parse_generic_params_ok l : forallb wf_param l = true ->
  parse_generic_params (map rp_param l) = Ok (map embed_param l).
Proof.
  induction l as [|p l IH]; intros H; [reflexivity|].
  cbn [forallb] in H. apply andb_true_iff in H. destruct H as [Hp Hl].
  cbn [map parse_generic_params]. rewrite (IH Hl).
  unfold parse_generic_param. pose proof (rp_param_nonempty p Hp) as NE.
  destruct (rp_param p) as [|c s] eqn:E; [contradiction|].
  rewrite <- E, (kv_split_param p Hp). reflexivity.
Qed.

(* ================================================================== URI headers *)
Lemma wf_hdr_parts k v : wf_hdr (k, v) = true -> k <> [] /\ safe k = true /\ val_ok v = true.
Proof.
  cbn [wf_hdr]. intros H. apply andb_true_iff in H. destruct H as [H1 H2].
  apply safe1_parts in H1. destruct H1 as [H1 H1']. repeat split; assumption.
Qed.

Lemma rp_hdr_val h : wf_hdr h = true -> val_ok (rp_hdr h) = true.
Proof.
  destruct h as [k v]. intros H. destruct (wf_hdr_parts k v H) as (_ & Hk & Hv).
  apply safe_val in Hk. unfold rp_hdr, val_ok in *. cbn [fst snd].
  rewrite forallb_app. cbn [forallb]. rewrite Hk, Hv. reflexivity.
Qed.

Lemma rp_hdr_no_amp h : wf_hdr h = true -> ~ In "&"%char (rp_hdr h).
Proof. intros H. apply val_no_amp, rp_hdr_val, H. Qed.

Lemma headers_aux_ok l : forallb wf_hdr l = true ->
  parse_uri_headers_aux (map rp_hdr l) = map embed_hdr l.
Proof.
  induction l as [|[k v] l IH]; intros H; [reflexivity|].
  cbn [forallb] in H. apply andb_true_iff in H. destruct H as [Hh Hl].
  destruct (wf_hdr_parts k v Hh) as (_ & Hk & _). apply safe_no_eq in Hk.
  cbn [map parse_uri_headers_aux]. unfold rp_hdr at 1 2. cbn [fst snd].
  rewrite index_byte_app_notin by exact Hk. rewrite kv_split_cut by exact Hk.
  rewrite (IH Hl). reflexivity.
Qed.

Lemma parse_uri_headers_ok h r : forallb wf_hdr (h :: r) = true ->
  parse_uri_headers (rp_hdr h ++ flat_map (fun y => "&"%char :: rp_hdr y) r) = map embed_hdr (h :: r).
Proof.
  intros H. unfold parse_uri_headers.
  pose proof H as H'. cbn [forallb] in H'. apply andb_true_iff in H'. destruct H' as [Hh Hr].
  rewrite split_flat.
  - change (rp_hdr h :: map rp_hdr r) with (map rp_hdr (h :: r)). apply headers_aux_ok, H.
  - apply rp_hdr_no_amp, Hh.
  - apply (forallb_Forall_wf wf_hdr); [apply rp_hdr_no_amp|exact Hr].
Qed.

Lemma rp_hdrs_uri l : forallb wf_hdr l = true -> forallb uri_char (rp_hdrs l) = true.
Proof.
  destruct l as [|h r]; intros H; [reflexivity|].
  cbn [forallb] in H. apply andb_true_iff in H. destruct H as [Hh Hr].
  cbn [rp_hdrs forallb]. rewrite forallb_app. rewrite (val_uri _ (rp_hdr_val h Hh)).
  cbn [andb]. replace (uri_char "?"%char) with true by reflexivity. cbn [andb].
  induction r as [|h' r IH]; [reflexivity|].
  cbn [forallb] in Hr. apply andb_true_iff in Hr. destruct Hr as [Hh' Hr].
  cbn [flat_map app forallb]. rewrite forallb_app. rewrite (val_uri _ (rp_hdr_val h' Hh')).
  rewrite (IH Hr). reflexivity.
Qed.
