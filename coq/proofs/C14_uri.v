(* proofs/C14_uri.v — property C14 for SIP-URI / addr-spec / name-addr:
   for EVERY well-formed abstract value (no bound on lengths), the model's decoder applied to
   the reference text returns exactly the embedded value, the encoder gives the text back
   byte for byte, the accessors report what the value denotes, and the judge observation is the
   expected one.  Structural reasoning on index_byte / split_byte over concatenations.
   Main theorems (each kind X in sip_uri / addr_spec / name_addr):
     parse_X_rp, X_print_embed, obs_X_embed, X_roundtrip, C14_sipuri / C14_addrspec / C14_nameaddr,
     dialog_addr_embed, sip_uri_print_with_embed, sip_uri_get_port_embed, sip_uri_transport_embed;
   witnesses: C14_sipuri_legacy_refuted (pre-fix decoder), C14_ipv6_refuted (K1),
     C14_user_semicolon_refuted (K2); examples ex_uri_*, ex_addr_*, ex_na_*.
   proofs/C14_hdr.v continues with Route / Record-Route / From / To.
   No axioms, no admits. *)
From Coq Require Import List Ascii String ZArith NArith Bool Lia.
From Model Require Import Bytes BytesLemmas Wire Uri Hdr Message Codec SpecC14.
Import ListNotations.
Open Scope list_scope.

(* ================================================================== generic list facts *)
Lemma forallb_notin (f : ascii -> bool) c s : f c = false -> forallb f s = true -> ~ In c s.
Proof.
  intros Hc Hs Hin. rewrite forallb_forall in Hs. apply Hs in Hin. congruence.
Qed.

Lemma forallb_impl (f g : ascii -> bool) s :
  (forall c, f c = true -> g c = true) -> forallb f s = true -> forallb g s = true.
Proof.
  intros H Hs. rewrite forallb_forall in Hs. apply forallb_forall. intros c Hc. apply H, Hs, Hc.
Qed.

Lemma notin_app {A} (c : A) a b : ~ In c a -> ~ In c b -> ~ In c (a ++ b).
Proof. intros Ha Hb H. apply in_app_or in H. tauto. Qed.

Lemma notin_cons {A} (c x : A) a : x <> c -> ~ In c a -> ~ In c (x :: a).
Proof. intros Hx Ha [H|H]; contradiction. Qed.

Lemma firstn_len_app {A} (a b : list A) : firstn (List.length a) (a ++ b) = a.
Proof. induction a as [|x a IH]; cbn; [reflexivity|f_equal; exact IH]. Qed.

Lemma skipn_len_app {A} (a b : list A) : skipn (List.length a) (a ++ b) = b.
Proof. induction a as [|x a IH]; cbn; [reflexivity|exact IH]. Qed.

Lemma skipn_S_len_app {A} (a : list A) c b : skipn (S (List.length a)) (a ++ c :: b) = b.
Proof. induction a as [|x a IH]; cbn; [reflexivity|exact IH]. Qed.

(* the three facts every "cut at the first separator" step uses *)
Lemma index_cut c a b : ~ In c a ->
  index_byte c (a ++ c :: b) = Some (List.length a) /\
  firstn (List.length a) (a ++ c :: b) = a /\
  skipn (S (List.length a)) (a ++ c :: b) = b.
Proof.
  intros H. split; [apply index_byte_app_notin; exact H|].
  split; [apply firstn_len_app|apply skipn_S_len_app].
Qed.

Lemma index_notin c a : ~ In c a -> index_byte c a = None.
Proof. apply index_byte_none. Qed.

(* split of [x c f(y1) c f(y2) ...] when no piece contains c *)
Lemma split_flat {A} c (f : A -> bytes) l : forall x,
  ~ In c x -> Forall (fun y => ~ In c (f y)) l ->
  split_byte c (x ++ flat_map (fun y => c :: f y) l) = x :: map f l.
Proof.
  induction l as [|a l IH]; intros x Hx HF; cbn [flat_map map].
  - rewrite app_nil_r. apply split_byte_single. exact Hx.
  - inversion HF as [|a' l' Ha Hl]; subst.
    change ((c :: f a) ++ flat_map (fun y => c :: f y) l)
      with (c :: (f a ++ flat_map (fun y => c :: f y) l)).
    rewrite split_byte_app by exact Hx. f_equal. apply IH; assumption.
Qed.

Ltac norm_app := repeat (rewrite <- app_assoc || rewrite <- app_comm_cons); cbn [app].

(* ================================================================== character classes *)
(* chars of user / password / host / port text *)
Definition hp_char (c : ascii) : bool := safe_char c || in_str c ":@".
(* ... plus parameters *)
Definition pm_char (c : ascii) : bool := val_char c || in_str c ";".
(* ... plus headers: every char of a printed SIP URI *)
Definition uri_char (c : ascii) : bool := val_char c || in_str c ";?&".

Ltac ascii_brute :=
  let c := fresh "c" in
  intros c; destruct c as [[|] [|] [|] [|] [|] [|] [|] [|]]; vm_compute; auto.

Lemma safe_char_val : forall c, safe_char c = true -> val_char c = true.
Proof. ascii_brute. Qed.
Lemma safe_char_hp : forall c, safe_char c = true -> hp_char c = true.
Proof. ascii_brute. Qed.
Lemma hp_char_val : forall c, hp_char c = true -> val_char c = true.
Proof. ascii_brute. Qed.
Lemma val_char_pm : forall c, val_char c = true -> pm_char c = true.
Proof. ascii_brute. Qed.
Lemma pm_char_uri : forall c, pm_char c = true -> uri_char c = true.
Proof. ascii_brute. Qed.
Lemma uri_char_other : forall c, uri_char c = true -> other_char c = true.
Proof. ascii_brute. Qed.
Lemma digit_safe_char : forall c, is_digit c = true -> safe_char c = true.
Proof. ascii_brute. Qed.

(* separators are outside the classes (by computation on the character) *)
Lemma safe_notin c s : safe_char c = false -> safe s = true -> ~ In c s.
Proof. apply forallb_notin. Qed.
Lemma val_notin c s : val_char c = false -> val_ok s = true -> ~ In c s.
Proof. apply forallb_notin. Qed.
Lemma other_notin c s : other_char c = false -> forallb other_char s = true -> ~ In c s.
Proof. apply forallb_notin. Qed.
Lemma display_notin c s : display_char c = false -> display_ok s = true -> ~ In c s.
Proof. apply forallb_notin. Qed.

(* the individual facts, for direct use *)
Lemma safe_no_semi s : safe s = true -> ~ In ";"%char s.  Proof. apply safe_notin. reflexivity. Qed.
Lemma safe_no_qmark s : safe s = true -> ~ In "?"%char s. Proof. apply safe_notin. reflexivity. Qed.
Lemma safe_no_at s : safe s = true -> ~ In "@"%char s.    Proof. apply safe_notin. reflexivity. Qed.
Lemma safe_no_colon s : safe s = true -> ~ In ":"%char s. Proof. apply safe_notin. reflexivity. Qed.
Lemma safe_no_lt s : safe s = true -> ~ In "<"%char s.    Proof. apply safe_notin. reflexivity. Qed.
Lemma safe_no_gt s : safe s = true -> ~ In ">"%char s.    Proof. apply safe_notin. reflexivity. Qed.
Lemma safe_no_comma s : safe s = true -> ~ In ","%char s. Proof. apply safe_notin. reflexivity. Qed.
Lemma safe_no_eq s : safe s = true -> ~ In "="%char s.    Proof. apply safe_notin. reflexivity. Qed.
Lemma safe_no_amp s : safe s = true -> ~ In "&"%char s.   Proof. apply safe_notin. reflexivity. Qed.
Lemma safe_no_slash s : safe s = true -> ~ In "/"%char s. Proof. apply safe_notin. reflexivity. Qed.
Lemma safe_no_space s : safe s = true -> ~ In " "%char s. Proof. apply safe_notin. reflexivity. Qed.
Lemma val_no_semi s : val_ok s = true -> ~ In ";"%char s.  Proof. apply val_notin. reflexivity. Qed.
Lemma val_no_qmark s : val_ok s = true -> ~ In "?"%char s. Proof. apply val_notin. reflexivity. Qed.
Lemma val_no_amp s : val_ok s = true -> ~ In "&"%char s.   Proof. apply val_notin. reflexivity. Qed.
Lemma val_no_lt s : val_ok s = true -> ~ In "<"%char s.    Proof. apply val_notin. reflexivity. Qed.
Lemma val_no_gt s : val_ok s = true -> ~ In ">"%char s.    Proof. apply val_notin. reflexivity. Qed.
Lemma val_no_comma s : val_ok s = true -> ~ In ","%char s. Proof. apply val_notin. reflexivity. Qed.

Lemma safe_val s : safe s = true -> val_ok s = true.
Proof. apply forallb_impl, safe_char_val. Qed.
Lemma safe_hp s : safe s = true -> forallb hp_char s = true.
Proof. apply forallb_impl, safe_char_hp. Qed.
Lemma hp_pm s : forallb hp_char s = true -> forallb pm_char s = true.
Proof. apply forallb_impl. intros c H. apply val_char_pm, hp_char_val, H. Qed.
Lemma val_pm s : val_ok s = true -> forallb pm_char s = true.
Proof. apply forallb_impl, val_char_pm. Qed.
Lemma pm_uri s : forallb pm_char s = true -> forallb uri_char s = true.
Proof. apply forallb_impl, pm_char_uri. Qed.
Lemma val_uri s : val_ok s = true -> forallb uri_char s = true.
Proof. intros H. apply pm_uri, val_pm, H. Qed.
Lemma uri_other s : forallb uri_char s = true -> forallb other_char s = true.
Proof. apply forallb_impl, uri_char_other. Qed.

Lemma safe1_parts s : safe1 s = true -> s <> [] /\ safe s = true.
Proof.
  unfold safe1. intros H. apply andb_true_iff in H. destruct H as [H1 H2].
  split; [|exact H2]. intros ->. cbn in H1. discriminate.
Qed.

(* ---- numbers ---- *)
Lemma itoa_safe z : safe (itoa z) = true.
Proof.
  apply forallb_forall. intros c Hc. pose proof (itoa_chars z) as HF.
  rewrite Forall_forall in HF. destruct (HF c Hc) as [H| ->].
  - apply digit_safe_char. exact H.
  - reflexivity.
Qed.

Lemma atoi_val_itoa z : (int_min <= z <= int_max)%Z -> atoi_val (itoa z) = z.
Proof. intros H. unfold atoi_val. rewrite atoi_itoa by exact H. reflexivity. Qed.

Lemma wf_port_range z : wf_port (Some z) = true -> (1 <= z <= 65535)%Z.
Proof.
  cbn [wf_port]. intros H. apply andb_true_iff in H. destruct H as [H1 H2].
  apply Z.leb_le in H1. apply Z.leb_le in H2. split; assumption.
Qed.

Lemma atoi_val_port z : wf_port (Some z) = true -> atoi_val (itoa z) = z.
Proof.
  intros H. apply wf_port_range in H. apply atoi_val_itoa. unfold int_min, int_max. lia.
Qed.

(* ================================================================== embedding *)
Definition embed_param (p : a_param) : kv :=
  {| k_key := ap_key p; k_val := match ap_val p with Some v => v | None => [] end |}.
Definition embed_hdr (h : bytes * bytes) : kv := {| k_key := fst h; k_val := snd h |}.
Definition emb_scheme (b : bool) : bytes := if b then s2b "sips" else s2b "sip".
Definition emb_user (o : option (bytes * option bytes)) : bytes :=
  match o with Some (usr, _) => usr | None => [] end.
Definition emb_pw (o : option (bytes * option bytes)) : bytes :=
  match o with Some (_, Some pw) => pw | _ => [] end.
Definition emb_port (p : option Z) : Z := match p with Some z => z | None => 0%Z end.
Definition embed_sipuri (u : a_sipuri) : sip_uri :=
  {| u_scheme := emb_scheme (au_secure u);
     u_user := emb_user (au_user u);
     u_password := emb_pw (au_user u);
     u_host := au_host u;
     u_port := emb_port (au_port u);
     u_params := map embed_param (au_params u);
     u_headers := map embed_hdr (au_headers u) |}.
Definition embed_addr (a : a_addr) : addr_spec :=
  match a with AASip u => ASip (embed_sipuri u) | AAOther s => AAbs s end.
Definition embed_nameaddr (n : a_nameaddr) : name_addr :=
  {| na_display := an_display n; na_addr := embed_addr (an_addr n) |}.

(* ---- the pieces of wf_sipuri and rp_sipuri, named ---- *)
Definition wf_user (o : option (bytes * option bytes)) : bool :=
  match o with
  | Some (usr, pw) => safe1 usr && match pw with Some p => safe1 p | None => true end
  | None => true
  end.
Definition wf_hdr (h : bytes * bytes) : bool := let '(k, v) := h in safe1 k && val_ok v.

Lemma wf_sipuri_parts u : wf_sipuri u = true ->
  wf_user (au_user u) = true /\ safe1 (au_host u) = true /\ wf_port (au_port u) = true /\
  forallb wf_param (au_params u) = true /\ forallb wf_hdr (au_headers u) = true.
Proof.
  unfold wf_sipuri. intros H.
  apply andb_true_iff in H. destruct H as [H H5].
  apply andb_true_iff in H. destruct H as [H H4].
  apply andb_true_iff in H. destruct H as [H H3].
  apply andb_true_iff in H. destruct H as [H1 H2].
  repeat split; assumption.
Qed.

Definition rp_scheme (b : bool) : bytes := if b then s2b "sips:" else s2b "sip:".
Definition rp_user (o : option (bytes * option bytes)) : bytes :=
  match o with
  | Some (usr, Some pw) => usr ++ ":"%char :: pw ++ [ "@"%char ]
  | Some (usr, None) => usr ++ [ "@"%char ]
  | None => []
  end.
Definition rp_hdr (h : bytes * bytes) : bytes := fst h ++ "="%char :: snd h.
Definition rp_hdrs (l : list (bytes * bytes)) : bytes :=
  match l with
  | [] => []
  | h :: r => "?"%char :: rp_hdr h ++ flat_map (fun y => "&"%char :: rp_hdr y) r
  end.

Lemma rp_hdrs_eq l :
  match l with
  | [] => []
  | (k, v) :: r => "?"%char :: k ++ "="%char :: v ++
                   flat_map (fun '(k, v) => "&"%char :: k ++ "="%char :: v) r
  end = rp_hdrs l.
Proof.
  destruct l as [|[k v] r]; [reflexivity|].
  unfold rp_hdrs, rp_hdr. cbn [fst snd]. norm_app. do 4 f_equal.
  apply flat_map_ext. intros [k' v']. reflexivity.
Qed.

Lemma rp_sipuri_eq u :
  rp_sipuri u = rp_scheme (au_secure u) ++ rp_user (au_user u) ++ au_host u ++
                rp_port (au_port u) ++ rp_params (au_params u) ++ rp_hdrs (au_headers u).
Proof. unfold rp_sipuri. rewrite rp_hdrs_eq. reflexivity. Qed.

(* ================================================================== parameters *)
Lemma wf_param_parts p : wf_param p = true ->
  ap_key p <> [] /\ safe (ap_key p) = true /\
  match ap_val p with Some v => v <> [] /\ val_ok v = true | None => True end.
Proof.
  unfold wf_param. intros H. apply andb_true_iff in H. destruct H as [H1 H2].
  apply safe1_parts in H1. destruct H1 as [H1 H1'].
  split; [exact H1|]. split; [exact H1'|].
  destruct (ap_val p) as [v|]; [|exact I].
  apply andb_true_iff in H2. destruct H2 as [H2 H3]. split; [|exact H3].
  intros ->. cbn in H2. discriminate.
Qed.

Lemma kv_split_cut k v : ~ In "="%char k -> kv_split (k ++ "="%char :: v) = {| k_key := k; k_val := v |}.
Proof.
  intros H. unfold kv_split. destruct (index_cut _ k v H) as (E1 & E2 & E3).
  rewrite E1, E2, E3. reflexivity.
Qed.

Lemma kv_split_nocut k : ~ In "="%char k -> kv_split k = {| k_key := k; k_val := [] |}.
Proof. intros H. unfold kv_split. rewrite index_notin by exact H. reflexivity. Qed.

Lemma kv_split_param p : wf_param p = true -> kv_split (rp_param p) = embed_param p.
Proof.
  intros H. destruct (wf_param_parts p H) as (_ & Hk & _).
  apply safe_no_eq in Hk. unfold rp_param, embed_param.
  destruct (ap_val p) as [v|]; [apply kv_split_cut|apply kv_split_nocut]; exact Hk.
Qed.

Lemma kv_print_param p : wf_param p = true -> kv_print (embed_param p) = rp_param p.
Proof.
  intros H. destruct (wf_param_parts p H) as (_ & _ & Hv).
  unfold kv_print, rp_param, embed_param. cbn [k_key k_val].
  destruct (ap_val p) as [v|]; [|reflexivity].
  destruct Hv as [Hv _]. destruct v; [contradiction|reflexivity].
Qed.

Lemma rp_param_val p : wf_param p = true -> val_ok (rp_param p) = true.
Proof.
  intros H. destruct (wf_param_parts p H) as (_ & Hk & Hv).
  apply safe_val in Hk. unfold rp_param. destruct (ap_val p) as [v|]; [|exact Hk].
  destruct Hv as [_ Hv]. unfold val_ok in *. rewrite forallb_app. cbn [forallb].
  rewrite Hk, Hv. reflexivity.
Qed.

Lemma rp_param_nonempty p : wf_param p = true -> rp_param p <> [].
Proof.
  intros H. destruct (wf_param_parts p H) as (Hk & _ & _). unfold rp_param.
  destruct (ap_val p); destruct (ap_key p); try contradiction; discriminate.
Qed.

Lemma rp_param_no_semi p : wf_param p = true -> ~ In ";"%char (rp_param p).
Proof. intros H. apply val_no_semi, rp_param_val, H. Qed.

Lemma rp_params_pm l : forallb wf_param l = true -> forallb pm_char (rp_params l) = true.
Proof.
  induction l as [|p l IH]; intros H; [reflexivity|].
  cbn [forallb] in H. apply andb_true_iff in H. destruct H as [Hp Hl].
  change (rp_params (p :: l)) with (";"%char :: rp_param p ++ rp_params l).
  cbn [forallb]. rewrite forallb_app.
  rewrite (val_pm _ (rp_param_val p Hp)). rewrite (IH Hl). reflexivity.
Qed.

Lemma forallb_Forall_wf {A} (wf : A -> bool) (P : A -> Prop) l :
  (forall a, wf a = true -> P a) -> forallb wf l = true -> Forall P l.
Proof.
  intros HP H. rewrite forallb_forall in H. apply Forall_forall. intros a Ha. apply HP, H, Ha.
Qed.

(* split_byte ";" of the text after the first ';' gives back the printed parameters *)
Lemma split_params p r : forallb wf_param (p :: r) = true ->
  split_byte ";"%char (rp_param p ++ rp_params r) = map rp_param (p :: r).
Proof.
  intros H. cbn [forallb] in H. apply andb_true_iff in H. destruct H as [Hp Hr].
  unfold rp_params. rewrite split_flat.
  - reflexivity.
  - apply rp_param_no_semi, Hp.
  - apply (forallb_Forall_wf wf_param); [apply rp_param_no_semi|exact Hr].
Qed.

Lemma split_params_tl l : l <> [] -> forallb wf_param l = true ->
  split_byte ";"%char (tl (rp_params l)) = map rp_param l.
Proof. destruct l as [|p r]; [contradiction|]. intros _. apply split_params. Qed.

Lemma parse_uri_parameters_ok p r : forallb wf_param (p :: r) = true ->
  parse_uri_parameters (rp_param p ++ rp_params r) = map embed_param (p :: r).
Proof.
  intros H. unfold parse_uri_parameters. rewrite split_params by exact H.
  rewrite map_map. apply map_ext_in. intros a Ha. apply kv_split_param.
  rewrite forallb_forall in H. apply H, Ha.
Qed.

Lemma print_params_ok l : forallb wf_param l = true ->
  print_params ";"%char (map embed_param l) = rp_params l.
Proof.
  induction l as [|p l IH]; intros H; [reflexivity|].
  cbn [forallb] in H. apply andb_true_iff in H. destruct H as [Hp Hl].
  unfold print_params, rp_params in *. cbn [map flat_map].
  rewrite (kv_print_param p Hp), (IH Hl). reflexivity.
Qed.

(* the generic-parameter parser used after '>' in Route / From / To (for the next file) *)
Lemma parse_generic_params_ok l : forallb wf_param l = true ->
  parse_generic_params (map rp_param l) = Ok (map embed_param l).
Proof.
  induction l as [|p l IH]; intros H; [reflexivity|].
  cbn [forallb] in H. apply andb_true_iff in H. destruct H as [Hp Hl].
  cbn [map parse_generic_params]. rewrite (IH Hl).
  unfold parse_generic_param. pose proof (rp_param_nonempty p Hp) as NE.
  destruct (rp_param p) as [|c s] eqn:E; [contradiction|].
  rewrite <- E, (kv_split_param p Hp). reflexivity.
Qed.

(* ================================================================== URI headers *)
Lemma wf_hdr_parts k v : wf_hdr (k, v) = true -> k <> [] /\ safe k = true /\ val_ok v = true.
Proof.
  cbn [wf_hdr]. intros H. apply andb_true_iff in H. destruct H as [H1 H2].
  apply safe1_parts in H1. destruct H1 as [H1 H1']. repeat split; assumption.
Qed.

Lemma rp_hdr_val h : wf_hdr h = true -> val_ok (rp_hdr h) = true.
Proof.
  destruct h as [k v]. intros H. destruct (wf_hdr_parts k v H) as (_ & Hk & Hv).
  apply safe_val in Hk. unfold rp_hdr, val_ok in *. cbn [fst snd].
  rewrite forallb_app. cbn [forallb]. rewrite Hk, Hv. reflexivity.
Qed.

Lemma rp_hdr_no_amp h : wf_hdr h = true -> ~ In "&"%char (rp_hdr h).
Proof. intros H. apply val_no_amp, rp_hdr_val, H. Qed.

Lemma headers_aux_ok l : forallb wf_hdr l = true ->
  parse_uri_headers_aux (map rp_hdr l) = map embed_hdr l.
Proof.
  induction l as [|[k v] l IH]; intros H; [reflexivity|].
  cbn [forallb] in H. apply andb_true_iff in H. destruct H as [Hh Hl].
  destruct (wf_hdr_parts k v Hh) as (_ & Hk & _). apply safe_no_eq in Hk.
  cbn [map parse_uri_headers_aux]. unfold rp_hdr at 1 2. cbn [fst snd].
  rewrite index_byte_app_notin by exact Hk. rewrite kv_split_cut by exact Hk.
  rewrite (IH Hl). reflexivity.
Qed.

Lemma parse_uri_headers_ok h r : forallb wf_hdr (h :: r) = true ->
  parse_uri_headers (rp_hdr h ++ flat_map (fun y => "&"%char :: rp_hdr y) r) = map embed_hdr (h :: r).
Proof.
  intros H. unfold parse_uri_headers.
  pose proof H as H'. cbn [forallb] in H'. apply andb_true_iff in H'. destruct H' as [Hh Hr].
  rewrite split_flat.
  - change (rp_hdr h :: map rp_hdr r) with (map rp_hdr (h :: r)). apply headers_aux_ok, H.
  - apply rp_hdr_no_amp, Hh.
  - apply (forallb_Forall_wf wf_hdr); [apply rp_hdr_no_amp|exact Hr].
Qed.

Lemma rp_hdrs_uri l : forallb wf_hdr l = true -> forallb uri_char (rp_hdrs l) = true.
Proof.
  destruct l as [|h r]; intros H; [reflexivity|].
  cbn [forallb] in H. apply andb_true_iff in H. destruct H as [Hh Hr].
  cbn [rp_hdrs forallb]. rewrite forallb_app. rewrite (val_uri _ (rp_hdr_val h Hh)).
  cbn [andb]. replace (uri_char "?"%char) with true by reflexivity. cbn [andb].
  induction r as [|h' r IH]; [reflexivity|].
  cbn [forallb] in Hr. apply andb_true_iff in Hr. destruct Hr as [Hh' Hr].
  cbn [flat_map app forallb]. rewrite forallb_app. rewrite (val_uri _ (rp_hdr_val h' Hh')).
  rewrite (IH Hr). reflexivity.
Qed.

(* ================================================================== more generic facts *)
Lemma firstn_S_len_app {A} (a : list A) c b : firstn (S (List.length a)) (a ++ c :: b) = a ++ [c].
Proof. induction a as [|x a IH]; [reflexivity|]. cbn [List.length app]. rewrite firstn_cons, IH. reflexivity. Qed.

Lemma forallb_app_true {A} (f : A -> bool) a b :
  forallb f a = true -> forallb f b = true -> forallb f (a ++ b) = true.
Proof. intros Ha Hb. rewrite forallb_app, Ha, Hb. reflexivity. Qed.

Ltac ascii_cases :=
  let c := fresh "c" in
  intros c; destruct c as [[|] [|] [|] [|] [|] [|] [|] [|]]; vm_compute;
  try reflexivity; intros; try discriminate; try reflexivity.

Lemma pm_char_nospace : forall c, pm_char c = true -> is_space c = false.
Proof. ascii_cases. Qed.
Lemma other_char_nospace : forall c, other_char c = true -> is_space c = false.
Proof. ascii_cases. Qed.

Lemma hp_notin c s : hp_char c = false -> forallb hp_char s = true -> ~ In c s.
Proof. apply forallb_notin. Qed.
Lemma pm_notin c s : pm_char c = false -> forallb pm_char s = true -> ~ In c s.
Proof. apply forallb_notin. Qed.
Lemma uri_notin c s : uri_char c = false -> forallb uri_char s = true -> ~ In c s.
Proof. apply forallb_notin. Qed.

(* strings.TrimSpace leaves a text without white space untouched *)
Definition nospace (s : bytes) : Prop := forall c, In c s -> is_space c = false.

Lemma trim_left_nospace s : nospace s -> trim_left s = s.
Proof.
  destruct s as [|c r]; intros H; [reflexivity|].
  cbn [trim_left]. rewrite (H c (or_introl eq_refl)). reflexivity.
Qed.

Lemma trim_space_nospace s : nospace s -> trim_space s = s.
Proof.
  intros H. unfold trim_space, trim_right. rewrite (trim_left_nospace s H).
  rewrite trim_left_nospace; [apply rev_involutive|].
  intros c Hc. apply H. apply in_rev. exact Hc.
Qed.

Lemma forallb_nospace (f : ascii -> bool) s :
  (forall c, f c = true -> is_space c = false) -> forallb f s = true -> nospace s.
Proof. intros Hf H c Hc. apply Hf. rewrite forallb_forall in H. apply H, Hc. Qed.

Lemma rp_params_nospace l : forallb wf_param l = true -> nospace (rp_params l).
Proof. intros H. apply (forallb_nospace pm_char); [apply pm_char_nospace|apply rp_params_pm, H]. Qed.

Lemma rp_params_cons p l : rp_params (p :: l) = ";"%char :: rp_param p ++ rp_params l.
Proof. reflexivity. Qed.

(* accessors over embedded parameters = the abstract lookup (no hypothesis) *)
Lemma kv_get_embed name ps : kv_get name (map embed_param ps) = a_get name ps.
Proof.
  unfold a_get. induction ps as [|p ps IH]; [reflexivity|].
  cbn [map kv_get find]. unfold embed_param at 1. cbn [k_key k_val].
  destruct (beq (ap_key p) name); [reflexivity|exact IH].
Qed.

Lemma e_kvs_embed ps : e_kvs (map embed_param ps) = x_params ps.
Proof.
  unfold e_kvs, x_params, e_list. rewrite map_length. f_equal.
  induction ps as [|p ps IH]; [reflexivity|].
  cbn [map flat_map]. rewrite IH. reflexivity.
Qed.

Lemma e_kvs_embed_hdr hs : e_kvs (map embed_hdr hs) = e_list (fun '(k, v) => [k; v]) hs.
Proof.
  unfold e_kvs, e_list. rewrite map_length. f_equal.
  induction hs as [|[k v] hs IH]; [reflexivity|].
  cbn [map flat_map]. rewrite IH. reflexivity.
Qed.

(* ================================================================== SIP URI: the text *)
(* user-info, host and port: the part in front of the parameters *)
Definition rp_core (u : a_sipuri) : bytes := rp_user (au_user u) ++ au_host u ++ rp_port (au_port u).

Lemma rp_sipuri_eq2 u :
  rp_sipuri u = rp_scheme (au_secure u) ++
                ((rp_core u ++ rp_params (au_params u)) ++ rp_hdrs (au_headers u)).
Proof. rewrite rp_sipuri_eq. unfold rp_core. rewrite <- !app_assoc. reflexivity. Qed.

Lemma rp_user_hp o : wf_user o = true -> forallb hp_char (rp_user o) = true.
Proof.
  destruct o as [[usr [pw|]]|]; cbn [wf_user rp_user]; intros H; [| |reflexivity].
  - apply andb_true_iff in H. destruct H as [H1 H2].
    apply safe1_parts in H1, H2. destruct H1 as [_ H1], H2 as [_ H2].
    apply forallb_app_true; [apply safe_hp, H1|]. cbn [forallb].
    rewrite forallb_app, (safe_hp _ H2). reflexivity.
  - rewrite andb_true_r in H. apply safe1_parts in H. destruct H as [_ H].
    apply forallb_app_true; [apply safe_hp, H|reflexivity].
Qed.

Lemma rp_port_hp p : forallb hp_char (rp_port p) = true.
Proof.
  destruct p as [z|]; [|reflexivity]. cbn [rp_port forallb].
  rewrite (safe_hp _ (itoa_safe z)). reflexivity.
Qed.

Lemma rp_port_notin c p : c <> ":"%char -> safe_char c = false -> ~ In c (rp_port p).
Proof.
  intros Hc Hs. destruct p as [z|]; [|intros []]. cbn [rp_port].
  apply notin_cons; [congruence|]. apply (safe_notin c _ Hs (itoa_safe z)).
Qed.

Lemma rp_core_hp u : wf_sipuri u = true -> forallb hp_char (rp_core u) = true.
Proof.
  intros H. destruct (wf_sipuri_parts u H) as (Hu & Hh & _ & _ & _).
  apply safe1_parts in Hh. destruct Hh as [_ Hh]. unfold rp_core.
  apply forallb_app_true; [apply rp_user_hp, Hu|].
  apply forallb_app_true; [apply safe_hp, Hh|apply rp_port_hp].
Qed.

Lemma rp_core_params_pm u : wf_sipuri u = true ->
  forallb pm_char (rp_core u ++ rp_params (au_params u)) = true.
Proof.
  intros H. destruct (wf_sipuri_parts u H) as (_ & _ & _ & Hps & _).
  apply forallb_app_true; [apply hp_pm, rp_core_hp, H|apply rp_params_pm, Hps].
Qed.

Lemma rp_scheme_uri b : forallb uri_char (rp_scheme b) = true.
Proof. destruct b; reflexivity. Qed.

(* every character of a printed SIP URI is a URI character *)
Lemma rp_sipuri_uri u : wf_sipuri u = true -> forallb uri_char (rp_sipuri u) = true.
Proof.
  intros H. destruct (wf_sipuri_parts u H) as (_ & _ & _ & _ & Hhs).
  rewrite rp_sipuri_eq2.
  apply forallb_app_true; [apply rp_scheme_uri|].
  apply forallb_app_true; [apply pm_uri, rp_core_params_pm, H|apply rp_hdrs_uri, Hhs].
Qed.

(* ================================================================== SIP URI: decode *)
(* the four cuts of parseSIPURI, in the order of the Go code *)
Definition cut_hdrs (s : bytes) : bytes * list kv :=
  match index_byte "?"%char s with
  | Some pos => (firstn pos s, parse_uri_headers (skipn (S pos) s))
  | None => (s, []) end.
Definition cut_params (pp : bytes -> list kv) (s1 : bytes) : bytes * list kv :=
  match index_byte ";"%char s1 with
  | Some pos => (firstn pos s1, pp (skipn (S pos) s1))
  | None => (s1, []) end.
Definition cut_user (s2 : bytes) : bytes * bytes * bytes :=
  match index_byte "@"%char s2 with
  | Some pos => let '(u, p) := parse_user_info (firstn pos s2) in (u, p, skipn (S pos) s2)
  | None => ([], [], s2) end.
Definition uri_go (pp : bytes -> list kv) (scheme s : bytes) : res sip_uri :=
  let '(s1, hdrs) := cut_hdrs s in
  let '(s2, params) := cut_params pp s1 in
  let '(user, pw, hp) := cut_user s2 in
  let '(h, port) := parse_host_port hp in
  Ok {| u_scheme := scheme; u_user := user; u_password := pw; u_host := h; u_port := port;
        u_params := params; u_headers := hdrs |}.

Lemma parse_sip_uri_with_sip pp s :
  parse_sip_uri_with pp (s2b "sip:" ++ s) = uri_go pp (s2b "sip") s.
Proof. reflexivity. Qed.
Lemma parse_sip_uri_with_sips pp s :
  parse_sip_uri_with pp (s2b "sips:" ++ s) = uri_go pp (s2b "sips") s.
Proof. reflexivity. Qed.

Lemma parse_sip_uri_with_scheme pp b s :
  parse_sip_uri_with pp (rp_scheme b ++ s) = uri_go pp (emb_scheme b) s.
Proof. destruct b; reflexivity. Qed.

Lemma cut_hdrs_ok s1 hs : ~ In "?"%char s1 -> forallb wf_hdr hs = true ->
  cut_hdrs (s1 ++ rp_hdrs hs) = (s1, map embed_hdr hs).
Proof.
  intros Hs H. unfold cut_hdrs. destruct hs as [|h r].
  - cbn [rp_hdrs map]. rewrite app_nil_r, index_notin by exact Hs. reflexivity.
  - cbn [rp_hdrs].
    destruct (index_cut _ s1 (rp_hdr h ++ flat_map (fun y => "&"%char :: rp_hdr y) r) Hs)
      as (E1 & E2 & E3).
    rewrite E1, E2, E3, parse_uri_headers_ok by exact H. reflexivity.
Qed.

Lemma cut_params_ok core ps : ~ In ";"%char core -> forallb wf_param ps = true ->
  cut_params parse_uri_parameters (core ++ rp_params ps) = (core, map embed_param ps).
Proof.
  intros Hs H. unfold cut_params. destruct ps as [|p r].
  - cbn [rp_params flat_map map]. rewrite app_nil_r, index_notin by exact Hs. reflexivity.
  - rewrite rp_params_cons.
    destruct (index_cut _ core (rp_param p ++ rp_params r) Hs) as (E1 & E2 & E3).
    rewrite E1, E2, E3, parse_uri_parameters_ok by exact H. reflexivity.
Qed.

Lemma cut_user_ok o hp : wf_user o = true -> ~ In "@"%char hp ->
  cut_user (rp_user o ++ hp) = (emb_user o, emb_pw o, hp).
Proof.
  intros H Hhp. unfold cut_user.
  destruct o as [[usr [pw|]]|]; cbn [wf_user rp_user emb_user emb_pw] in *.
  - apply andb_true_iff in H. destruct H as [H1 H2].
    apply safe1_parts in H1, H2. destruct H1 as [_ H1], H2 as [_ H2].
    assert (N : ~ In "@"%char (usr ++ ":"%char :: pw)).
    { apply notin_app; [apply safe_no_at, H1|].
      apply notin_cons; [discriminate|apply safe_no_at, H2]. }
    replace ((usr ++ ":"%char :: pw ++ ["@"%char]) ++ hp)
      with ((usr ++ ":"%char :: pw) ++ "@"%char :: hp) by (norm_app; reflexivity).
    destruct (index_cut _ _ hp N) as (E1 & E2 & E3). rewrite E1, E2, E3.
    unfold parse_user_info.
    destruct (index_cut _ usr pw (safe_no_colon _ H1)) as (F1 & F2 & F3).
    rewrite F1, F2, F3. reflexivity.
  - rewrite andb_true_r in H. apply safe1_parts in H. destruct H as [_ H].
    replace ((usr ++ ["@"%char]) ++ hp) with (usr ++ "@"%char :: hp) by (norm_app; reflexivity).
    destruct (index_cut _ usr hp (safe_no_at _ H)) as (E1 & E2 & E3). rewrite E1, E2, E3.
    unfold parse_user_info. rewrite index_notin by (apply safe_no_colon, H). reflexivity.
  - cbn [app]. rewrite index_notin by exact Hhp. reflexivity.
Qed.

Lemma parse_host_port_ok h p : safe h = true -> wf_port p = true ->
  parse_host_port (h ++ rp_port p) = (h, emb_port p).
Proof.
  intros Hh Hp. unfold parse_host_port. destruct p as [z|]; cbn [rp_port emb_port].
  - destruct (index_cut _ h (itoa z) (safe_no_colon _ Hh)) as (E1 & E2 & E3).
    rewrite E1, E2, E3, (atoi_val_port z Hp). reflexivity.
  - rewrite app_nil_r, index_notin by (apply safe_no_colon, Hh). reflexivity.
Qed.

(* decode: the reference text of a well-formed SIP URI is decoded to exactly its embedding *)
Theorem parse_sip_uri_rp u : wf_sipuri u = true -> parse_sip_uri (rp_sipuri u) = Ok (embed_sipuri u).
Proof.
  intros H. destruct (wf_sipuri_parts u H) as (Hu & Hh & Hp & Hps & Hhs).
  apply safe1_parts in Hh. destruct Hh as [_ Hh].
  unfold parse_sip_uri. rewrite rp_sipuri_eq2, parse_sip_uri_with_scheme. unfold uri_go.
  rewrite cut_hdrs_ok;
    [|apply (pm_notin "?"%char _ eq_refl), rp_core_params_pm, H|exact Hhs].
  cbv beta iota.
  rewrite cut_params_ok;
    [|apply (hp_notin ";"%char _ eq_refl), rp_core_hp, H|exact Hps].
  cbv beta iota. unfold rp_core.
  rewrite cut_user_ok;
    [|exact Hu|apply notin_app; [apply safe_no_at, Hh|apply rp_port_notin; [discriminate|reflexivity]]].
  cbv beta iota.
  rewrite parse_host_port_ok by assumption.
  reflexivity.
Qed.

(* ================================================================== SIP URI: encode *)
Definition print_user (usr pw : bytes) : bytes :=
  match usr with
  | [] => []
  | a :: l => match pw with
              | [] => (a :: l) ++ [ "@"%char ]
              | b :: m => (a :: l) ++ ":"%char :: (b :: m) ++ [ "@"%char ]
              end
  end.
Definition print_hostport (h : bytes) (p : Z) : bytes :=
  if Z.eqb p 0 then h else h ++ ":"%char :: itoa p.
Definition print_hdrs (l : list kv) : bytes :=
  match l with
  | [] => []
  | h :: r => "?"%char :: k_key h ++ "="%char :: k_val h ++
              flat_map (fun p => "&"%char :: k_key p ++ "="%char :: k_val p) r
  end.

Lemma sip_uri_print_with_eq wp wh u :
  sip_uri_print_with wp wh u =
  u_scheme u ++ ":"%char :: print_user (u_user u) (u_password u) ++
  print_hostport (u_host u) (u_port u) ++
  (if wp then print_params ";"%char (u_params u) else []) ++
  (if wh then print_hdrs (u_headers u) else []).
Proof. reflexivity. Qed.

Lemma print_user_ok o : wf_user o = true -> print_user (emb_user o) (emb_pw o) = rp_user o.
Proof.
  destruct o as [[usr [pw|]]|]; cbn [wf_user rp_user emb_user emb_pw]; intros H; [| |reflexivity].
  - apply andb_true_iff in H. destruct H as [H1 H2].
    apply safe1_parts in H1, H2. destruct H1 as [N1 _], H2 as [N2 _].
    destruct usr; [contradiction|]. destruct pw; [contradiction|]. reflexivity.
  - rewrite andb_true_r in H. apply safe1_parts in H. destruct H as [N1 _].
    destruct usr; [contradiction|]. reflexivity.
Qed.

Lemma print_hostport_ok h p : wf_port p = true -> print_hostport h (emb_port p) = h ++ rp_port p.
Proof.
  intros H. unfold print_hostport. destruct p as [z|]; cbn [emb_port rp_port].
  - apply wf_port_range in H. replace (Z.eqb z 0) with false; [reflexivity|].
    symmetry. apply Z.eqb_neq. lia.
  - rewrite app_nil_r. reflexivity.
Qed.

Lemma print_hdrs_ok hs : print_hdrs (map embed_hdr hs) = rp_hdrs hs.
Proof.
  destruct hs as [|h r]; [reflexivity|]. cbn [map print_hdrs rp_hdrs].
  unfold rp_hdr at 1. cbn [embed_hdr k_key k_val]. norm_app. do 4 f_equal.
  rewrite flat_map_concat_map, map_map, <- flat_map_concat_map. reflexivity.
Qed.

Lemma emb_scheme_colon b s : emb_scheme b ++ ":"%char :: s = rp_scheme b ++ s.
Proof. destruct b; reflexivity. Qed.

(* SIPURI._Write with or without parameters / headers (the latter is the dialog form) *)
Lemma sip_uri_print_with_embed wp wh u : wf_sipuri u = true ->
  sip_uri_print_with wp wh (embed_sipuri u) =
  rp_scheme (au_secure u) ++ rp_core u ++
  (if wp then rp_params (au_params u) else []) ++ (if wh then rp_hdrs (au_headers u) else []).
Proof.
  intros H. destruct (wf_sipuri_parts u H) as (Hu & _ & Hp & Hps & _).
  rewrite sip_uri_print_with_eq. unfold embed_sipuri.
  cbn [u_scheme u_user u_password u_host u_port u_params u_headers].
  rewrite emb_scheme_colon, print_user_ok, print_hostport_ok, print_params_ok, print_hdrs_ok
    by assumption.
  unfold rp_core. rewrite <- !app_assoc. reflexivity.
Qed.

(* encode: byte-identical *)
Theorem sip_uri_print_embed u : wf_sipuri u = true -> sip_uri_print (embed_sipuri u) = rp_sipuri u.
Proof.
  intros H. unfold sip_uri_print. rewrite sip_uri_print_with_embed by exact H.
  rewrite rp_sipuri_eq2. rewrite <- !app_assoc. reflexivity.
Qed.

(* ================================================================== SIP URI: accessors *)
Theorem sip_uri_transport_embed u : sip_uri_transport (embed_sipuri u) = x_transport u.
Proof. unfold sip_uri_transport, x_transport, embed_sipuri. cbn [u_params]. rewrite kv_get_embed. reflexivity. Qed.

Theorem sip_uri_get_port_embed u : wf_port (au_port u) = true ->
  sip_uri_get_port (embed_sipuri u) =
  match au_port u with
  | Some z => z
  | None => if beq (x_transport u) (s2b "tls") then 5061%Z else 5060%Z
  end.
Proof.
  intros H. unfold sip_uri_get_port. rewrite sip_uri_transport_embed.
  unfold embed_sipuri. cbn [u_port]. destruct (au_port u) as [z|]; cbn [emb_port]; [|reflexivity].
  apply wf_port_range in H. replace (Z.eqb z 0) with false; [reflexivity|].
  symmetry. apply Z.eqb_neq. lia.
Qed.

Theorem obs_sip_uri_embed u : wf_sipuri u = true -> obs_sip_uri (embed_sipuri u) = x_sipuri u.
Proof.
  intros H. destruct (wf_sipuri_parts u H) as (_ & _ & Hp & _ & _).
  unfold obs_sip_uri, x_sipuri.
  rewrite sip_uri_get_port_embed by exact Hp. rewrite sip_uri_transport_embed.
  unfold embed_sipuri. cbn [u_scheme u_user u_password u_host u_port u_params u_headers].
  rewrite e_kvs_embed, e_kvs_embed_hdr. reflexivity.
Qed.

(* ================================================================== judge form *)
Lemma codec_obs_exact {A} (parse : bytes -> res A) (print : A -> bytes) (obs : A -> list bytes)
      (t : bytes) (a : A) (x : list bytes) :
  parse t = Ok a -> print a = t -> obs a = x -> codec_obs parse print obs t = expected_obs t x.
Proof.
  intros Hp Hq Ho. unfold codec_obs, expected_obs. rewrite Hp, Hq, Hp, Hq, Ho. reflexivity.
Qed.

Lemma list_beq_refl o : list_beq o o = true.
Proof. induction o as [|b o IH]; [reflexivity|]. cbn [list_beq]. rewrite beq_refl, IH. reflexivity. Qed.

Lemma judge_C14_of_eq e o : o = e -> judge_C14 e o = true.
Proof. intros ->. apply list_beq_refl. Qed.

Theorem sip_uri_roundtrip u : wf_sipuri u = true ->
  exists a, parse_sip_uri (rp_sipuri u) = Ok a /\ sip_uri_print a = rp_sipuri u /\
            parse_sip_uri (sip_uri_print a) = Ok a.
Proof.
  intros H. exists (embed_sipuri u).
  rewrite sip_uri_print_embed, parse_sip_uri_rp by exact H. repeat split.
Qed.

Theorem C14_sipuri u : wf_sipuri u = true ->
  codec_obs parse_sip_uri sip_uri_print obs_sip_uri (rp_sipuri u) =
  expected_obs (rp_sipuri u) (x_sipuri u).
Proof.
  intros H. apply codec_obs_exact with (a := embed_sipuri u).
  - apply parse_sip_uri_rp, H.
  - apply sip_uri_print_embed, H.
  - apply obs_sip_uri_embed, H.
Qed.

Corollary C14_sipuri_judge u : wf_sipuri u = true ->
  judge_C14 (expected_obs (rp_sipuri u) (x_sipuri u))
            (codec_obs parse_sip_uri sip_uri_print obs_sip_uri (rp_sipuri u)) = true.
Proof. intros H. apply judge_C14_of_eq, C14_sipuri, H. Qed.

(* ================================================================== addr-spec *)
Lemma wf_other_parts s : wf_other s = true ->
  forallb other_char s = true /\ In ":"%char s /\
  has_prefix (s2b "sip:") s = false /\ has_prefix (s2b "sips:") s = false.
Proof.
  unfold wf_other. intros H.
  apply andb_true_iff in H. destruct H as [H H4].
  apply andb_true_iff in H. destruct H as [H H3].
  apply andb_true_iff in H. destruct H as [H1 H2].
  apply negb_true_iff in H3, H4. apply contains_byte_in in H2. repeat split; assumption.
Qed.

Lemma rp_sipuri_prefix u :
  (has_prefix (s2b "sip:") (rp_sipuri u) || has_prefix (s2b "sips:") (rp_sipuri u))%bool = true.
Proof. rewrite rp_sipuri_eq. destruct (au_secure u); reflexivity. Qed.

Theorem parse_addr_spec_rp a : wf_addr a = true -> parse_addr_spec (rp_addr a) = Ok (embed_addr a).
Proof.
  destruct a as [u|s]; cbn [wf_addr rp_addr embed_addr]; intros H;
    unfold parse_addr_spec, parse_addr_spec_with.
  - rewrite rp_sipuri_prefix. fold parse_sip_uri. rewrite parse_sip_uri_rp by exact H. reflexivity.
  - destruct (wf_other_parts s H) as (_ & _ & E1 & E2). rewrite E1, E2. reflexivity.
Qed.

Theorem addr_spec_print_embed a : wf_addr a = true -> addr_spec_print (embed_addr a) = rp_addr a.
Proof.
  destruct a as [u|s]; cbn [wf_addr rp_addr embed_addr addr_spec_print]; intros H;
    [apply sip_uri_print_embed, H|reflexivity].
Qed.

(* the dialog half of an address: the SIP URI without parameters and headers *)
Theorem dialog_addr_embed a : wf_addr a = true -> dialog_addr (embed_addr a) = x_dialog_addr a.
Proof.
  destruct a as [u|s]; cbn [wf_addr embed_addr dialog_addr x_dialog_addr]; intros H; [|reflexivity].
  rewrite sip_uri_print_with_embed by exact H.
  rewrite rp_sipuri_eq. unfold rp_core.
  cbn [au_secure au_user au_host au_port au_params au_headers rp_params flat_map rp_hdrs].
  rewrite <- !app_assoc. reflexivity.
Qed.

Theorem obs_addr_spec_embed a : wf_addr a = true -> obs_addr_spec (embed_addr a) = x_addr a.
Proof.
  intros H. unfold obs_addr_spec, x_addr. rewrite dialog_addr_embed by exact H.
  destruct a as [u|s]; cbn [wf_addr embed_addr] in *; [|reflexivity].
  rewrite obs_sip_uri_embed by exact H. reflexivity.
Qed.

Theorem addr_spec_roundtrip a : wf_addr a = true ->
  exists x, parse_addr_spec (rp_addr a) = Ok x /\ addr_spec_print x = rp_addr a /\
            parse_addr_spec (addr_spec_print x) = Ok x.
Proof.
  intros H. exists (embed_addr a).
  rewrite addr_spec_print_embed, parse_addr_spec_rp by exact H. repeat split.
Qed.

Theorem C14_addrspec a : wf_addr a = true ->
  codec_obs parse_addr_spec addr_spec_print obs_addr_spec (rp_addr a) =
  expected_obs (rp_addr a) (x_addr a).
Proof.
  intros H. apply (codec_obs_exact _ _ _ _ (embed_addr a)).
  - apply parse_addr_spec_rp, H.
  - apply addr_spec_print_embed, H.
  - apply obs_addr_spec_embed, H.
Qed.

Corollary C14_addrspec_judge a : wf_addr a = true ->
  judge_C14 (expected_obs (rp_addr a) (x_addr a))
            (codec_obs parse_addr_spec addr_spec_print obs_addr_spec (rp_addr a)) = true.
Proof. intros H. apply judge_C14_of_eq, C14_addrspec, H. Qed.

(* every character of a printed address is free of blanks, '<', '>' and ',' *)
Lemma rp_addr_other a : wf_addr a = true -> forallb other_char (rp_addr a) = true.
Proof.
  destruct a as [u|s]; cbn [wf_addr rp_addr]; intros H.
  - apply uri_other, rp_sipuri_uri, H.
  - apply (wf_other_parts s H).
Qed.
Lemma rp_addr_no_lt a : wf_addr a = true -> ~ In "<"%char (rp_addr a).
Proof. intros H. apply (other_notin "<"%char _ eq_refl), rp_addr_other, H. Qed.
Lemma rp_addr_no_gt a : wf_addr a = true -> ~ In ">"%char (rp_addr a).
Proof. intros H. apply (other_notin ">"%char _ eq_refl), rp_addr_other, H. Qed.
Lemma rp_addr_no_comma a : wf_addr a = true -> ~ In ","%char (rp_addr a).
Proof. intros H. apply (other_notin ","%char _ eq_refl), rp_addr_other, H. Qed.

(* ================================================================== name-addr *)
Lemma wf_nameaddr_parts n : wf_nameaddr n = true ->
  display_ok (an_display n) = true /\ wf_addr (an_addr n) = true.
Proof. unfold wf_nameaddr. intros H. apply andb_true_iff in H. exact H. Qed.

Lemma display_no_lt s : display_ok s = true -> ~ In "<"%char s.
Proof. apply display_notin. reflexivity. Qed.
Lemma display_no_gt s : display_ok s = true -> ~ In ">"%char s.
Proof. apply display_notin. reflexivity. Qed.
Lemma display_no_comma s : display_ok s = true -> ~ In ","%char s.
Proof. apply display_notin. reflexivity. Qed.

(* position of the closing '>' *)
Definition na_pos (n : a_nameaddr) : nat :=
  List.length (an_display n ++ "<"%char :: rp_addr (an_addr n)).

Lemma rp_nameaddr_app n rest :
  rp_nameaddr n ++ rest = (an_display n ++ "<"%char :: rp_addr (an_addr n)) ++ ">"%char :: rest.
Proof. unfold rp_nameaddr. norm_app. reflexivity. Qed.

(* the cuts at '<' and '>' of a name-addr followed by anything (also used by Route, From, To) *)
Lemma nameaddr_cut n rest : wf_nameaddr n = true ->
  index_byte "<"%char (rp_nameaddr n ++ rest) = Some (List.length (an_display n)) /\
  index_byte ">"%char (rp_nameaddr n ++ rest) = Some (na_pos n) /\
  Nat.ltb (na_pos n) (List.length (an_display n)) = false /\
  firstn (S (na_pos n)) (rp_nameaddr n ++ rest) = rp_nameaddr n /\
  skipn (S (na_pos n)) (rp_nameaddr n ++ rest) = rest.
Proof.
  intros H. destruct (wf_nameaddr_parts n H) as [Hd Ha].
  assert (N : ~ In ">"%char (an_display n ++ "<"%char :: rp_addr (an_addr n))).
  { apply notin_app; [apply display_no_gt, Hd|].
    apply notin_cons; [discriminate|apply rp_addr_no_gt, Ha]. }
  split.
  - unfold rp_nameaddr. rewrite <- app_assoc. cbn [app].
    apply index_byte_app_notin, display_no_lt, Hd.
  - rewrite rp_nameaddr_app. unfold na_pos.
    split; [apply index_byte_app_notin, N|].
    split; [apply Nat.ltb_ge; rewrite app_length; lia|].
    split; [|apply skipn_S_len_app].
    rewrite firstn_S_len_app. unfold rp_nameaddr. norm_app. reflexivity.
Qed.

Theorem parse_name_addr_rp n : wf_nameaddr n = true ->
  parse_name_addr (rp_nameaddr n) = Ok (embed_nameaddr n).
Proof.
  intros H. destruct (wf_nameaddr_parts n H) as [Hd Ha].
  destruct (nameaddr_cut n [] H) as (E1 & E2 & E3 & _ & _). rewrite app_nil_r in E1, E2.
  unfold parse_name_addr. rewrite E1, E2, E3.
  assert (S1 : slice (rp_nameaddr n) (S (List.length (an_display n))) (na_pos n) = rp_addr (an_addr n)).
  { unfold slice, na_pos, rp_nameaddr. rewrite skipn_S_len_app, app_length. cbn [List.length].
    replace (List.length (an_display n) + S (List.length (rp_addr (an_addr n))) - S (List.length (an_display n)))%nat
      with (List.length (rp_addr (an_addr n))) by lia.
    apply firstn_len_app. }
  rewrite S1, parse_addr_spec_rp by exact Ha.
  cbn [rbind]. unfold rp_nameaddr. rewrite firstn_len_app. reflexivity.
Qed.

Theorem name_addr_print_embed n : wf_nameaddr n = true ->
  name_addr_print (embed_nameaddr n) = rp_nameaddr n.
Proof.
  intros H. destruct (wf_nameaddr_parts n H) as [_ Ha].
  unfold name_addr_print, embed_nameaddr, rp_nameaddr. cbn [na_display na_addr].
  rewrite addr_spec_print_embed by exact Ha. reflexivity.
Qed.

Theorem obs_name_addr_embed n : wf_nameaddr n = true -> obs_name_addr (embed_nameaddr n) = x_nameaddr n.
Proof.
  intros H. destruct (wf_nameaddr_parts n H) as [_ Ha].
  unfold obs_name_addr, x_nameaddr, embed_nameaddr. cbn [na_display na_addr].
  rewrite obs_addr_spec_embed by exact Ha. reflexivity.
Qed.

Theorem name_addr_roundtrip n : wf_nameaddr n = true ->
  exists x, parse_name_addr (rp_nameaddr n) = Ok x /\ name_addr_print x = rp_nameaddr n /\
            parse_name_addr (name_addr_print x) = Ok x.
Proof.
  intros H. exists (embed_nameaddr n).
  rewrite name_addr_print_embed, parse_name_addr_rp by exact H. repeat split.
Qed.

Theorem C14_nameaddr n : wf_nameaddr n = true ->
  codec_obs parse_name_addr name_addr_print obs_name_addr (rp_nameaddr n) =
  expected_obs (rp_nameaddr n) (x_nameaddr n).
Proof.
  intros H. apply codec_obs_exact with (a := embed_nameaddr n).
  - apply parse_name_addr_rp, H.
  - apply name_addr_print_embed, H.
  - apply obs_name_addr_embed, H.
Qed.

Corollary C14_nameaddr_judge n : wf_nameaddr n = true ->
  judge_C14 (expected_obs (rp_nameaddr n) (x_nameaddr n))
            (codec_obs parse_name_addr name_addr_print obs_name_addr (rp_nameaddr n)) = true.
Proof. intros H. apply judge_C14_of_eq, C14_nameaddr, H. Qed.

Lemma rp_nameaddr_no_comma n : wf_nameaddr n = true -> ~ In ","%char (rp_nameaddr n).
Proof.
  intros H. destruct (wf_nameaddr_parts n H) as [Hd Ha]. unfold rp_nameaddr.
  apply notin_app; [apply display_no_comma, Hd|].
  apply notin_cons; [discriminate|].
  apply notin_app; [apply rp_addr_no_comma, Ha|].
  apply notin_cons; [discriminate|intros []].
Qed.

(* ================================================================== witnesses: pre-fix code *)
(* the pre-fix parameter decoder stops at the first valueless parameter other than "lr":
   `sip:h;foo;lr;x=1` loses all three parameters and is re-encoded as `sip:h` *)
Example sipuri_legacy_drops_params :
  let t := s2b "sip:h;foo;lr;x=1" in
  match parse_sip_uri_legacy t, parse_sip_uri t with
  | Ok v, Ok w => u_params v = [] /\ sip_uri_print v = s2b "sip:h" /\ sip_uri_print v <> t /\
                  List.length (u_params w) = 3%nat /\ sip_uri_print w = t
  | _, _ => False
  end.
Proof. vm_compute. repeat split. discriminate. Qed.

(* ... and when "lr" comes first, everything from the first other valueless parameter on *)
Example sipuri_legacy_drops_tail :
  match parse_sip_uri_legacy (s2b "sip:h;lr;foo;x=1") with
  | Ok v => sip_uri_print v = s2b "sip:h;lr"
  | _ => False
  end.
Proof. vm_compute. reflexivity. Qed.

Definition ex_uri_legacy : a_sipuri :=
  {| au_secure := false; au_user := None; au_host := s2b "h"; au_port := None;
     au_params := [ {| ap_key := s2b "foo"; ap_val := None |};
                    {| ap_key := s2b "lr"; ap_val := None |};
                    {| ap_key := s2b "x"; ap_val := Some (s2b "1") |} ];
     au_headers := [] |}.

(* the same witness over the domain: a well-formed value on which the legacy decoder is not
   exact and the legacy decode/encode pair is not byte-identical *)
Theorem C14_sipuri_legacy_refuted :
  exists u, wf_sipuri u = true /\ rp_sipuri u = s2b "sip:h;foo;lr;x=1" /\
    parse_sip_uri_legacy (rp_sipuri u) <> Ok (embed_sipuri u) /\
    codec_obs parse_sip_uri_legacy sip_uri_print obs_sip_uri (rp_sipuri u) <>
    expected_obs (rp_sipuri u) (x_sipuri u).
Proof.
  exists ex_uri_legacy. split; [reflexivity|]. split; [reflexivity|].
  split; vm_compute; discriminate.
Qed.

(* ================================================================== known findings outside wf *)
(* K1: an IPv6 reference as host.  `sip:[::1]:5060` is cut at the FIRST ':' : host "[", the
   port text ":1]:5060" is not a number (error ignored, port 0); the re-encoding is `sip:[`.
   Hosts of the domain are [safe1] (no ':'), so the theorems above do not cover it. *)
Theorem C14_ipv6_refuted :
  exists text u, text = s2b "sip:[::1]:5060" /\ parse_sip_uri text = Ok u /\
    u_host u = s2b "[" /\ u_port u = 0%Z /\
    sip_uri_print u = s2b "sip:[" /\ sip_uri_print u <> text.
Proof.
  eexists. eexists. split; [reflexivity|]. split; [vm_compute; reflexivity|].
  vm_compute. repeat split. discriminate.
Qed.

(* the corresponding abstract value is rejected by the domain predicate *)
Example ipv6_not_wf :
  wf_sipuri {| au_secure := false; au_user := None; au_host := s2b "[::1]"; au_port := Some 5060%Z;
               au_params := []; au_headers := [] |} = false.
Proof. reflexivity. Qed.

(* K2: a ';' inside the user part.  `sip:a;b@h:5070` is cut at ';' BEFORE the '@' is looked
   for: host "a", no user, no port, and one parameter named "b@h:5070".  The text is re-encoded
   byte for byte, but every accessor is wrong (GetPort reports 5060 instead of 5070). *)
Theorem C14_user_semicolon_refuted :
  exists text u, text = s2b "sip:a;b@h:5070" /\ parse_sip_uri text = Ok u /\
    u_host u = s2b "a" /\ u_user u = [] /\ u_port u = 0%Z /\ sip_uri_get_port u = 5060%Z /\
    u_params u = [ {| k_key := s2b "b@h:5070"; k_val := [] |} ] /\
    sip_uri_print u = text.
Proof.
  eexists. eexists. split; [reflexivity|]. split; [vm_compute; reflexivity|].
  vm_compute. repeat split.
Qed.

Example user_semicolon_not_wf :
  wf_sipuri {| au_secure := false; au_user := Some (s2b "a;b", None); au_host := s2b "h";
               au_port := Some 5070%Z; au_params := []; au_headers := [] |} = false.
Proof. reflexivity. Qed.

(* ================================================================== examples (non-vacuity) *)
(* sips, user:password, port, valued + valueless parameters incl. lr and transport=tls,
   a value with '=' ':' '@' '/' and '%', two URI headers (one with an empty value) *)
Definition ex_uri_a : a_sipuri :=
  {| au_secure := true; au_user := Some (s2b "alice", Some (s2b "s3cr%20t"));
     au_host := s2b "gw-1.example.org"; au_port := Some 5071%Z;
     au_params := [ {| ap_key := s2b "transport"; ap_val := Some (s2b "tls") |};
                    {| ap_key := s2b "lr"; ap_val := None |};
                    {| ap_key := s2b "foo"; ap_val := None |};
                    {| ap_key := s2b "x-y"; ap_val := Some (s2b "a=b:c@d/e%3b") |} ];
     au_headers := [ (s2b "subject", s2b "hi%20there"); (s2b "priority", []);
                     (s2b "x", s2b "k=v") ] |}.
(* no user, no port: the default port follows the transport parameter *)
Definition ex_uri_b : a_sipuri :=
  {| au_secure := false; au_user := None; au_host := s2b "10.0.0.7"; au_port := None;
     au_params := [ {| ap_key := s2b "lr"; ap_val := None |};
                    {| ap_key := s2b "transport"; ap_val := Some (s2b "tls") |} ];
     au_headers := [] |}.
(* user without password, nothing else *)
Definition ex_uri_c : a_sipuri :=
  {| au_secure := false; au_user := Some (s2b "+15551234", None); au_host := s2b "h";
     au_port := Some 65535%Z; au_params := []; au_headers := [] |}.

Example ex_uri_wf : wf_sipuri ex_uri_a = true /\ wf_sipuri ex_uri_b = true /\ wf_sipuri ex_uri_c = true.
Proof. repeat split. Qed.

Example ex_uri_text :
  rp_sipuri ex_uri_a =
    s2b "sips:alice:s3cr%20t@gw-1.example.org:5071;transport=tls;lr;foo;x-y=a=b:c@d/e%3b?subject=hi%20there&priority=&x=k=v" /\
  rp_sipuri ex_uri_b = s2b "sip:10.0.0.7;lr;transport=tls" /\
  rp_sipuri ex_uri_c = s2b "sip:+15551234@h:65535".
Proof. vm_compute. repeat split. Qed.

Example ex_uri_decode : parse_sip_uri (rp_sipuri ex_uri_a) = Ok (embed_sipuri ex_uri_a).
Proof. vm_compute. reflexivity. Qed.

Example ex_uri_accessors :
  sip_uri_get_port (embed_sipuri ex_uri_a) = 5071%Z /\
  sip_uri_get_port (embed_sipuri ex_uri_b) = 5061%Z /\
  sip_uri_get_port (embed_sipuri ex_uri_c) = 65535%Z /\
  sip_uri_transport (embed_sipuri ex_uri_c) = s2b "udp" /\
  kv_get (s2b "lr") (u_params (embed_sipuri ex_uri_a)) = Some [] /\
  kv_get (s2b "x-y") (u_params (embed_sipuri ex_uri_a)) = Some (s2b "a=b:c@d/e%3b").
Proof. vm_compute. repeat split. Qed.

Example ex_uri_by_theorem :
  codec_obs parse_sip_uri sip_uri_print obs_sip_uri (rp_sipuri ex_uri_a) =
  expected_obs (rp_sipuri ex_uri_a) (x_sipuri ex_uri_a).
Proof. apply C14_sipuri. reflexivity. Qed.

Example ex_uri_by_compute :
  forallb (fun u => list_beq (expected_obs (rp_sipuri u) (x_sipuri u))
                             (codec_obs parse_sip_uri sip_uri_print obs_sip_uri (rp_sipuri u)))
          [ex_uri_a; ex_uri_b; ex_uri_c] = true.
Proof. vm_compute. reflexivity. Qed.

(* addr-spec: SIP and non-SIP (tel:, urn:) *)
Definition ex_addr_tel : a_addr := AAOther (s2b "tel:+1-555-0100;phone-context=example.com").
Definition ex_addr_urn : a_addr := AAOther (s2b "urn:service:sos.fire?x=1&y").
Example ex_addr_wf :
  wf_addr (AASip ex_uri_a) = true /\ wf_addr ex_addr_tel = true /\ wf_addr ex_addr_urn = true.
Proof. repeat split. Qed.
Example ex_addr_by_theorem :
  codec_obs parse_addr_spec addr_spec_print obs_addr_spec (rp_addr ex_addr_tel) =
  expected_obs (rp_addr ex_addr_tel) (x_addr ex_addr_tel) /\
  codec_obs parse_addr_spec addr_spec_print obs_addr_spec (rp_addr (AASip ex_uri_a)) =
  expected_obs (rp_addr (AASip ex_uri_a)) (x_addr (AASip ex_uri_a)).
Proof. split; apply C14_addrspec; reflexivity. Qed.
Example ex_addr_dialog :
  dialog_addr (embed_addr (AASip ex_uri_a)) = s2b "sips:alice:s3cr%20t@gw-1.example.org:5071" /\
  dialog_addr (embed_addr ex_addr_urn) = s2b "urn:service:sos.fire?x=1&y".
Proof. vm_compute. split; reflexivity. Qed.
(* "sip:" / "sips:" texts are not other-URIs *)
Example ex_addr_other_not_sip : wf_addr (AAOther (s2b "sip:h")) = false /\ wf_addr (AAOther (s2b "nocolon")) = false.
Proof. split; reflexivity. Qed.

(* name-addr: quoted display name with blanks, ';' and '@'; token display name; none *)
Definition ex_na_a : a_nameaddr :=
  {| an_display := s2b """Alice; the @dmin"" "; an_addr := AASip ex_uri_a |}.
Definition ex_na_b : a_nameaddr := {| an_display := s2b "Bob "; an_addr := ex_addr_tel |}.
Definition ex_na_c : a_nameaddr := {| an_display := []; an_addr := AASip ex_uri_b |}.
Example ex_na_wf : wf_nameaddr ex_na_a = true /\ wf_nameaddr ex_na_b = true /\ wf_nameaddr ex_na_c = true.
Proof. repeat split. Qed.
Example ex_na_text :
  rp_nameaddr ex_na_b = s2b "Bob <tel:+1-555-0100;phone-context=example.com>" /\
  rp_nameaddr ex_na_c = s2b "<sip:10.0.0.7;lr;transport=tls>".
Proof. vm_compute. split; reflexivity. Qed.
Example ex_na_decode : parse_name_addr (rp_nameaddr ex_na_a) = Ok (embed_nameaddr ex_na_a).
Proof. vm_compute. reflexivity. Qed.
Example ex_na_by_theorem :
  codec_obs parse_name_addr name_addr_print obs_name_addr (rp_nameaddr ex_na_a) =
  expected_obs (rp_nameaddr ex_na_a) (x_nameaddr ex_na_a).
Proof. apply C14_nameaddr. reflexivity. Qed.
Example ex_na_by_compute :
  forallb (fun n => list_beq (expected_obs (rp_nameaddr n) (x_nameaddr n))
                             (codec_obs parse_name_addr name_addr_print obs_name_addr (rp_nameaddr n)))
          [ex_na_a; ex_na_b; ex_na_c] = true.
Proof. vm_compute. reflexivity. Qed.

(* ================================================================== assumptions *)
Print Assumptions parse_sip_uri_rp.
Print Assumptions sip_uri_print_embed.
Print Assumptions obs_sip_uri_embed.
Print Assumptions sip_uri_roundtrip.
Print Assumptions C14_sipuri.
Print Assumptions C14_sipuri_judge.
Print Assumptions parse_addr_spec_rp.
Print Assumptions addr_spec_print_embed.
Print Assumptions dialog_addr_embed.
Print Assumptions obs_addr_spec_embed.
Print Assumptions addr_spec_roundtrip.
Print Assumptions C14_addrspec.
Print Assumptions parse_name_addr_rp.
Print Assumptions name_addr_print_embed.
Print Assumptions obs_name_addr_embed.
Print Assumptions name_addr_roundtrip.
Print Assumptions C14_nameaddr.
Print Assumptions C14_sipuri_legacy_refuted.
Print Assumptions C14_ipv6_refuted.
Print Assumptions C14_user_semicolon_refuted.
