(* proofs/C20.v — sending survives connection faults (SendFault.v against SpecC20.v).
   No axioms, no admits. *)
From Coq Require Import List Bool Arith Lia.
From Model Require Import SendFault SpecC20 Run.
Import ListNotations.
Open Scope list_scope.

(* ================================================================== the world *)
(* script still to be played by connection c (first entry with that id) *)
Fixpoint conn_lookup (c : nat) (l : list (nat * conn_script)) : option conn_script :=
  match l with
  | [] => None
  | (c', s) :: r => if Nat.eqb c c' then Some s else conn_lookup c r
  end.
(* result of the next write on connection c *)
Definition next_write (c : nat) (w : world) : bool :=
  match conn_lookup c (w_conns w) with Some (b :: _) => b | _ => true end.
Definition after_write (c : nat) (w : world) : world := fst (w_write c w).
Definition after_dial (w : world) : world := fst (w_dial w).
(* ids of existing connections are below the allocation counter *)
Definition w_wf (w : world) : Prop := forall c s, In (c, s) (w_conns w) -> c < w_next w.

Lemma conn_write_snd c l :
  snd (conn_write c l) = match conn_lookup c l with Some (b :: _) => b | _ => true end.
Proof.
  induction l as [|[c' s] r IH]; cbn; [reflexivity|].
  destruct (Nat.eqb c c').
  - destruct s; reflexivity.
  - destruct (conn_write c r) as [r' ok]; cbn in *. exact IH.
Qed.

Lemma w_write_eq c w : w_write c w = (after_write c w, next_write c w).
Proof.
  unfold after_write, next_write. rewrite <- conn_write_snd.
  unfold w_write. destruct (conn_write c (w_conns w)) as [cs ok]; reflexivity.
Qed.

Lemma conn_write_lookup_other c c' l :
  c <> c' -> conn_lookup c' (fst (conn_write c l)) = conn_lookup c' l.
Proof.
  intros Hne. induction l as [|[c0 s] r IH]; cbn; [reflexivity|].
  destruct (Nat.eqb_spec c c0) as [E|E].
  - subst c0. destruct s; cbn; destruct (Nat.eqb_spec c' c); try congruence; reflexivity.
  - destruct (conn_write c r) as [r' ok]; cbn in *. rewrite IH. reflexivity.
Qed.

Lemma conn_write_ids c l c' s' :
  In (c', s') (fst (conn_write c l)) -> exists s, In (c', s) l.
Proof.
  revert c' s'. induction l as [|[c0 s] r IH]; cbn; intros c' s' H; [contradiction|].
  destruct (Nat.eqb c c0).
  - destruct s; cbn in H; destruct H as [H|H];
      try (inversion H; subst; eexists; left; reflexivity);
      eexists; right; exact H.
  - destruct (conn_write c r) as [r' ok]; cbn in *. destruct H as [H|H].
    + inversion H; subst. eexists; left; reflexivity.
    + destruct (IH _ _ H) as [s0 H0]. eexists; right; exact H0.
Qed.

Lemma after_write_conns c w : w_conns (after_write c w) = fst (conn_write c (w_conns w)).
Proof. unfold after_write, w_write. destruct (conn_write c (w_conns w)); reflexivity. Qed.
Lemma after_write_next c w : w_next (after_write c w) = w_next w.
Proof. unfold after_write, w_write. destruct (conn_write c (w_conns w)); reflexivity. Qed.
Lemma after_write_dials c w : w_dials (after_write c w) = w_dials w.
Proof. unfold after_write, w_write. destruct (conn_write c (w_conns w)); reflexivity. Qed.
Lemma after_write_wf c w : w_wf w -> w_wf (after_write c w).
Proof.
  intros H c' s' Hin. rewrite after_write_next. rewrite after_write_conns in Hin.
  destruct (conn_write_ids _ _ _ _ Hin) as [s Hs]. exact (H _ _ Hs).
Qed.
Lemma next_write_after_other c c' w :
  c <> c' -> next_write c' (after_write c w) = next_write c' w.
Proof.
  intros Hne. unfold next_write. rewrite after_write_conns, conn_write_lookup_other by exact Hne.
  reflexivity.
Qed.

Lemma w_dial_eq w : w_dial w = (after_dial w, snd (w_dial w)).
Proof. unfold after_dial. destruct (w_dial w); reflexivity. Qed.

Lemma w_dial_some w s rest :
  w_dials w = Some s :: rest ->
  w_dial w = ({| w_conns := w_conns w ++ [(w_next w, s)]; w_dials := rest; w_next := S (w_next w) |},
              Some (w_next w)).
Proof. intros H. unfold w_dial. rewrite H. reflexivity. Qed.

(* the next dial attempt is refused *)
Definition dial_refused (w : world) : Prop :=
  match w_dials w with [] | None :: _ => True | Some _ :: _ => False end.
Lemma w_dial_refused w :
  dial_refused w ->
  w_dial w = ({| w_conns := w_conns w; w_dials := tl (w_dials w); w_next := w_next w |}, None).
Proof. unfold dial_refused, w_dial. destruct (w_dials w) as [|[s|] r]; intros H; [reflexivity|contradiction|reflexivity]. Qed.

Lemma after_dial_next_le w : w_next w <= w_next (after_dial w).
Proof. unfold after_dial, w_dial. destruct (w_dials w) as [|[s|] r]; cbn; lia. Qed.

Lemma after_dial_wf w : w_wf w -> w_wf (after_dial w).
Proof.
  intros H c s. unfold after_dial, w_dial. destruct (w_dials w) as [|[s0|] r]; cbn; try apply H.
  intros Hin. apply in_app_or in Hin. destruct Hin as [Hin|[Hin|[]]].
  - specialize (H _ _ Hin). lia.
  - inversion Hin; subst. lia.
Qed.

Lemma conn_lookup_app_fresh c s l :
  (forall s', ~ In (c, s') l) -> conn_lookup c (l ++ [(c, s)]) = Some s.
Proof.
  induction l as [|[c0 s0] r IH]; cbn; intros H.
  - rewrite Nat.eqb_refl. reflexivity.
  - destruct (Nat.eqb_spec c c0) as [E|E].
    + subst. exfalso. apply (H s0). left; reflexivity.
    + apply IH. intros s' Hin. apply (H s'). right; exact Hin.
Qed.

(* the first write on the connection just dialled plays the head of its script *)
Lemma next_write_fresh w s rest :
  w_wf w -> w_dials w = Some s :: rest ->
  next_write (w_next w) (after_dial w) = hd true s.
Proof.
  intros Hwf Hd. unfold after_dial. rewrite (w_dial_some _ _ _ Hd). unfold next_write. cbn.
  rewrite conn_lookup_app_fresh.
  - destruct s; reflexivity.
  - intros s' Hin. specialize (Hwf _ _ Hin). lia.
Qed.

(* ================================================================== TCPClientTransport.Send: one iteration *)
Lemma loop_cached n t w tr c :
  tc_conn t = Some c ->
  tcp_client_send_loop (S n) t w tr =
  if next_write c w then (t, after_write c w, tr ++ [EWrite c true], true)
  else tcp_client_send_loop n {| tc_conn := None; tc_reconnectable := tc_reconnectable t |}
         (after_write c w) (tr ++ [EWrite c false; EClose c]).
Proof.
  intros H. cbn [tcp_client_send_loop]. rewrite H. cbv beta iota. rewrite H, w_write_eq.
  reflexivity.
Qed.

Lemma loop_none_norec n t w tr :
  tc_conn t = None -> tc_reconnectable t = false ->
  tcp_client_send_loop (S n) t w tr = tcp_client_send_loop n t w tr.
Proof.
  intros H1 H2. cbn [tcp_client_send_loop]. rewrite H1, H2. cbv beta iota. rewrite H1. reflexivity.
Qed.

(* a successful dial then behaves like a send on a cached connection, same iteration *)
Lemma loop_none_rec n t w tr :
  tc_conn t = None -> tc_reconnectable t = true ->
  tcp_client_send_loop (S n) t w tr =
  match snd (w_dial w) with
  | Some c => tcp_client_send_loop (S n) {| tc_conn := Some c; tc_reconnectable := true |}
                (after_dial w) (tr ++ [EDial (Some c)])
  | None => (t, after_dial w, tr ++ [EDial None], false)
  end.
Proof.
  intros H1 H2. cbn [tcp_client_send_loop]. rewrite H1, H2, w_dial_eq.
  destruct (snd (w_dial w)) as [c|]; cbn [tc_conn snd fst]; reflexivity.
Qed.

Lemma w_dial_cases w :
  (snd (w_dial w) = None /\ w_next (after_dial w) = w_next w) \/
  (snd (w_dial w) = Some (w_next w) /\ w_next (after_dial w) = S (w_next w)).
Proof. unfold after_dial, w_dial. destruct (w_dials w) as [|[s|] r]; cbn; auto. Qed.

(* ================================================================== shape of the trace of one Send *)
(* [dshape rec k n t' n' tr ok]: what k iterations starting WITHOUT a connection can do when
   the next connection id is n : final client, final next id, events, verdict *)
Inductive dshape : bool -> nat -> nat -> tcp_client -> nat -> list io_event -> bool -> Prop :=
| ds_norec k n : dshape false k n {| tc_conn := None; tc_reconnectable := false |} n [] false
| ds_zero n : dshape true 0 n {| tc_conn := None; tc_reconnectable := true |} n [] false
| ds_refused k n :
    dshape true (S k) n {| tc_conn := None; tc_reconnectable := true |} n [EDial None] false
| ds_ok k n :
    dshape true (S k) n {| tc_conn := Some n; tc_reconnectable := true |} (S n)
           [EDial (Some n); EWrite n true] true
| ds_fail k n t' n' tr ok :
    dshape true k (S n) t' n' tr ok ->
    dshape true (S k) n t' n' ([EDial (Some n); EWrite n false; EClose n] ++ tr) ok.

Lemma loop_norec k w tr0 :
  tcp_client_send_loop k {| tc_conn := None; tc_reconnectable := false |} w tr0 =
  ({| tc_conn := None; tc_reconnectable := false |}, w, tr0, false).
Proof. induction k as [|k IH]; [reflexivity|]. rewrite loop_none_norec by reflexivity. exact IH. Qed.

Lemma loop_dshape k : forall rec w tr0 t' w' tr' ok,
  tcp_client_send_loop k {| tc_conn := None; tc_reconnectable := rec |} w tr0 = (t', w', tr', ok) ->
  exists ext, tr' = tr0 ++ ext /\ dshape rec k (w_next w) t' (w_next w') ext ok.
Proof.
  induction k as [|k IH]; intros rec w tr0 t' w' tr' ok H.
  - cbn in H. inversion H; subst. exists []. rewrite app_nil_r. split; [reflexivity|].
    destruct rec; constructor.
  - destruct rec.
    + rewrite loop_none_rec in H by reflexivity.
      destruct (w_dial_cases w) as [[E En]|[E En]]; rewrite E in H.
      * inversion H; subst. exists [EDial None]. split; [reflexivity|]. rewrite En. constructor.
      * rewrite (loop_cached _ _ _ _ (w_next w)) in H by reflexivity.
        destruct (next_write (w_next w) (after_dial w)).
        -- inversion H; subst. exists [EDial (Some (w_next w)); EWrite (w_next w) true].
           rewrite <- app_assoc. split; [reflexivity|]. rewrite after_write_next, En. constructor.
        -- cbn [tc_reconnectable] in H. apply IH in H. destruct H as [ext [-> Hs]].
           exists ([EDial (Some (w_next w)); EWrite (w_next w) false; EClose (w_next w)] ++ ext).
           rewrite <- !app_assoc. split; [reflexivity|]. apply ds_fail.
           rewrite after_write_next, En in Hs. exact Hs.
    + rewrite loop_norec in H. inversion H; subst. exists []. rewrite app_nil_r.
      split; [reflexivity|]. constructor.
Qed.

(* one TCPClientTransport.Send *)
Inductive cshape (t : tcp_client) (n : nat) : tcp_client -> nat -> list io_event -> bool -> Prop :=
| cs_ok c : tc_conn t = Some c -> cshape t n t n [EWrite c true] true
| cs_fail c t' n' tr ok :
    tc_conn t = Some c -> dshape (tc_reconnectable t) 1 n t' n' tr ok ->
    cshape t n t' n' ([EWrite c false; EClose c] ++ tr) ok
| cs_none t' n' tr ok :
    tc_conn t = None -> dshape (tc_reconnectable t) 2 n t' n' tr ok -> cshape t n t' n' tr ok.

Lemma client_shape t w t' w' tr ok :
  tcp_client_send t w = (t', w', tr, ok) -> cshape t (w_next w) t' (w_next w') tr ok.
Proof.
  unfold tcp_client_send. destruct t as [[c|] rec]; intros H.
  - rewrite (loop_cached _ _ _ _ c) in H by reflexivity. destruct (next_write c w).
    + inversion H; subst. rewrite after_write_next. apply cs_ok. reflexivity.
    + apply loop_dshape in H. destruct H as [ext [-> Hs]]. rewrite after_write_next in Hs.
      eapply cs_fail; [reflexivity|exact Hs].
  - apply loop_dshape in H. destruct H as [ext [-> Hs]]. apply cs_none; [reflexivity|exact Hs].
Qed.

Ltac inv H := inversion H; clear H; subst.
Ltac shapes :=
  repeat match goal with
  | H : cshape _ _ _ _ _ _ |- _ => inv H
  | H : dshape _ _ _ _ _ _ _ |- _ => inv H
  | H : tc_conn _ = _ |- _ => cbn in H; first [discriminate H | inv H]
  end.
Ltac eqbs :=
  repeat match goal with
  | |- context [Nat.eqb ?a ?b] => destruct (Nat.eqb_spec a b); try lia; cbn
  end.

(* ================================================================== well-formed failover state *)
Definition primary_id (f : failover) : option nat :=
  match fo_primary f with Some p => tc_conn p | None => None end.
Definition secondary_id (f : failover) : option nat :=
  match fo_secondary f with Some s => tc_conn s | None => None end.
(* the primary (an inbound connection) cannot be re-dialled; cached connection ids are already
   allocated (below the counter n, so that a dialled id is new) and pairwise distinct *)
Definition fo_wf (f : failover) (n : nat) : Prop :=
  (forall p, fo_primary f = Some p -> tc_reconnectable p = false) /\
  (forall c, primary_id f = Some c -> c < n) /\
  (forall d, secondary_id f = Some d -> d < n) /\
  (forall c d, primary_id f = Some c -> secondary_id f = Some d -> c <> d).

Ltac wf_facts :=
  repeat match goal with
  | H : forall x, Some ?a = Some x -> _ |- _ => specialize (H _ eq_refl)
  | H : forall x, None = Some x -> _ |- _ => clear H
  | H : forall x y, Some ?a = Some x -> Some ?b = Some y -> _ |- _ => specialize (H _ _ eq_refl eq_refl)
  | H : forall x y, None = Some x -> _ |- _ => clear H
  | H : forall x y, _ = Some x -> None = Some y -> _ |- _ => clear H
  end.
Ltac wf_goal :=
  unfold fo_wf, primary_id, secondary_id; cbn;
  repeat split; intros;
  repeat match goal with
  | H : Some _ = Some _ |- _ => inv H
  | H : None = Some _ |- _ => discriminate H
  end; cbn in *; try reflexivity; try lia.

Theorem failover_send_spec f w f' w' tr ok :
  fo_wf f (w_next w) -> failover_send f w = (f', w', tr, ok) ->
  judge_C20_send tr ok = true /\ fo_wf f' (w_next w') /\ w_next w <= w_next w'.
Proof.
  intros (Hrec & Hc & Hd & Hcd) H. unfold failover_send in H.
  destruct f as [[[[c|] prec]|] [[[d|] srec]|]]; unfold primary_id, secondary_id in *;
    cbn [fo_primary fo_secondary tc_conn tc_reconnectable] in *;
    wf_facts; cbn [tc_reconnectable] in *; subst;
    repeat match type of H with
    | context [tcp_client_send ?t ?w] =>
        let E := fresh "E" in
        destruct (tcp_client_send t w) as [[[? ?] ?] []] eqn:E; apply client_shape in E;
        cbn [fo_primary fo_secondary] in H
    end; inv H; shapes; cbn in *; wf_facts.
  all: split; [unfold judge_C20_send; cbn; eqbs; reflexivity | split; [wf_goal | lia]].
Qed.
