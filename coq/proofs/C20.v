(* proofs/C20.v — sending survives connection faults (SendFault.v against SpecC20.v).
   No axioms, no admits.
   Contents: world lemmas; shape of the trace of one Send (dshape/cshape/bshape); fo_wf/b_wf;
   the C20_judged theorems (one send, sequences, the runner's schedule); success = written exactly once;
   w_wf preservation; C20_failover; ids of a trace (ids_in); C20_later_direct; C20_refused;
   C20_no_dup; trace judge => count judge (C20_trace_judge_implies_obs); what the extracted
   runner prints (client_obs, backend_obs, the C20_obs_judged theorems); non-vacuity Examples. *)
From Coq Require Import List Bool Arith Lia.
From Model Require Import SendFault SpecC20 Run.
Import ListNotations.
Open Scope list_scope.

(* ================================================================== the world *)
(* script still to be played by connection c (first entry with that id) *)
Fixpoint conn_lookup (c : nat) (l : list (nat * conn_script)) : option conn_script :=
  match l with
  | [] => None
  | (c', s) :: r => if Nat.eqb c c' then Some s else conn_lookup c r
  end.
(* result of the next write on connection c *)
Definition next_write (c : nat) (w : world) : bool :=
  match conn_lookup c (w_conns w) with Some (b :: _) => b | _ => true end.
Definition after_write (c : nat) (w : world) : world := fst (w_write c w).
Definition after_dial (w : world) : world := fst (w_dial w).
(* ids of existing connections are below the allocation counter *)
Definition w_wf (w : world) : Prop := forall c s, In (c, s) (w_conns w) -> c < w_next w.

Lemma conn_write_snd c l :
  snd (conn_write c l) = match conn_lookup c l with Some (b :: _) => b | _ => true end.
Proof.
  induction l as [|[c' s] r IH]; cbn; [reflexivity|].
  destruct (Nat.eqb c c').
  - destruct s; reflexivity.
  - destruct (conn_write c r) as [r' ok]; cbn in *. exact IH.
Qed.

Lemma w_write_eq c w : w_write c w = (after_write c w, next_write c w).
Proof.
  unfold after_write, next_write. rewrite <- conn_write_snd.
  unfold w_write. destruct (conn_write c (w_conns w)) as [cs ok]; reflexivity.
Qed.

Lemma conn_write_lookup_other c c' l :
  c <> c' -> conn_lookup c' (fst (conn_write c l)) = conn_lookup c' l.
Proof.
  intros Hne. induction l as [|[c0 s] r IH]; cbn; [reflexivity|].
  destruct (Nat.eqb_spec c c0) as [E|E].
  - subst c0. destruct s; cbn; destruct (Nat.eqb_spec c' c); try congruence; reflexivity.
  - destruct (conn_write c r) as [r' ok]; cbn in *. rewrite IH. reflexivity.
Qed.

Lemma conn_write_ids c l c' s' :
  In (c', s') (fst (conn_write c l)) -> exists s, In (c', s) l.
Proof.
  revert c' s'. induction l as [|[c0 s] r IH]; cbn; intros c' s' H; [contradiction|].
  destruct (Nat.eqb c c0).
  - destruct s; cbn in H; destruct H as [H|H];
      try (inversion H; subst; eexists; left; reflexivity);
      eexists; right; exact H.
  - destruct (conn_write c r) as [r' ok]; cbn in *. destruct H as [H|H].
    + inversion H; subst. eexists; left; reflexivity.
    + destruct (IH _ _ H) as [s0 H0]. eexists; right; exact H0.
Qed.

Lemma after_write_conns c w : w_conns (after_write c w) = fst (conn_write c (w_conns w)).
Proof. unfold after_write, w_write. destruct (conn_write c (w_conns w)); reflexivity. Qed.
Lemma after_write_next c w : w_next (after_write c w) = w_next w.
Proof. unfold after_write, w_write. destruct (conn_write c (w_conns w)); reflexivity. Qed.
Lemma after_write_dials c w : w_dials (after_write c w) = w_dials w.
Proof. unfold after_write, w_write. destruct (conn_write c (w_conns w)); reflexivity. Qed.
Lemma after_write_wf c w : w_wf w -> w_wf (after_write c w).
Proof.
  intros H c' s' Hin. rewrite after_write_next. rewrite after_write_conns in Hin.
  destruct (conn_write_ids _ _ _ _ Hin) as [s Hs]. exact (H _ _ Hs).
Qed.
Lemma next_write_after_other c c' w :
  c <> c' -> next_write c' (after_write c w) = next_write c' w.
Proof.
  intros Hne. unfold next_write. rewrite after_write_conns, conn_write_lookup_other by exact Hne.
  reflexivity.
Qed.

Lemma w_dial_eq w : w_dial w = (after_dial w, snd (w_dial w)).
Proof. unfold after_dial. destruct (w_dial w); reflexivity. Qed.

Lemma w_dial_some w s rest :
  w_dials w = Some s :: rest ->
  w_dial w = ({| w_conns := w_conns w ++ [(w_next w, s)]; w_dials := rest; w_next := S (w_next w) |},
              Some (w_next w)).
Proof. intros H. unfold w_dial. rewrite H. reflexivity. Qed.

(* the next dial attempt is refused *)
Definition dial_refused (w : world) : Prop :=
  match w_dials w with [] | None :: _ => True | Some _ :: _ => False end.
Lemma w_dial_refused w :
  dial_refused w ->
  w_dial w = ({| w_conns := w_conns w; w_dials := tl (w_dials w); w_next := w_next w |}, None).
Proof. unfold dial_refused, w_dial. destruct (w_dials w) as [|[s|] r]; intros H; [reflexivity|contradiction|reflexivity]. Qed.

Lemma after_dial_next_le w : w_next w <= w_next (after_dial w).
Proof. unfold after_dial, w_dial. destruct (w_dials w) as [|[s|] r]; cbn; lia. Qed.

Lemma after_dial_wf w : w_wf w -> w_wf (after_dial w).
Proof.
  intros H c s. unfold after_dial, w_dial. destruct (w_dials w) as [|[s0|] r]; cbn; try apply H.
  intros Hin. apply in_app_or in Hin. destruct Hin as [Hin|[Hin|[]]].
  - specialize (H _ _ Hin). lia.
  - inversion Hin; subst. lia.
Qed.

Lemma conn_lookup_app_fresh c s l :
  (forall s', ~ In (c, s') l) -> conn_lookup c (l ++ [(c, s)]) = Some s.
Proof.
  induction l as [|[c0 s0] r IH]; cbn; intros H.
  - rewrite Nat.eqb_refl. reflexivity.
  - destruct (Nat.eqb_spec c c0) as [E|E].
    + subst. exfalso. apply (H s0). left; reflexivity.
    + apply IH. intros s' Hin. apply (H s'). right; exact Hin.
Qed.

(* the first write on the connection just dialled plays the head of its script *)
Lemma next_write_fresh w s rest :
  w_wf w -> w_dials w = Some s :: rest ->
  next_write (w_next w) (after_dial w) = hd true s.
Proof.
  intros Hwf Hd. unfold after_dial. rewrite (w_dial_some _ _ _ Hd). unfold next_write. cbn.
  rewrite conn_lookup_app_fresh.
  - destruct s; reflexivity.
  - intros s' Hin. specialize (Hwf _ _ Hin). lia.
Qed.

(* ================================================================== TCPClientTransport.Send: one iteration *)
Lemma loop_cached n t w tr c :
  tc_conn t = Some c ->
  tcp_client_send_loop (S n) t w tr =
  if next_write c w then (t, after_write c w, tr ++ [EWrite c true], true)
  else tcp_client_send_loop n {| tc_conn := None; tc_reconnectable := tc_reconnectable t |}
         (after_write c w) (tr ++ [EWrite c false; EClose c]).
Proof.
  intros H. cbn [tcp_client_send_loop]. rewrite H. cbv beta iota. rewrite H, w_write_eq.
  reflexivity.
Qed.

Lemma loop_none_norec n t w tr :
  tc_conn t = None -> tc_reconnectable t = false ->
  tcp_client_send_loop (S n) t w tr = tcp_client_send_loop n t w tr.
Proof.
  intros H1 H2. cbn [tcp_client_send_loop]. rewrite H1, H2. cbv beta iota. rewrite H1. reflexivity.
Qed.

(* a successful dial then behaves like a send on a cached connection, same iteration *)
Lemma loop_none_rec n t w tr :
  tc_conn t = None -> tc_reconnectable t = true ->
  tcp_client_send_loop (S n) t w tr =
  match snd (w_dial w) with
  | Some c => tcp_client_send_loop (S n) {| tc_conn := Some c; tc_reconnectable := true |}
                (after_dial w) (tr ++ [EDial (Some c)])
  | None => (t, after_dial w, tr ++ [EDial None], false)
  end.
Proof.
  intros H1 H2. cbn [tcp_client_send_loop]. rewrite H1, H2, w_dial_eq.
  destruct (snd (w_dial w)) as [c|]; cbn [tc_conn snd fst]; reflexivity.
Qed.

Lemma w_dial_cases w :
  (snd (w_dial w) = None /\ w_next (after_dial w) = w_next w) \/
  (snd (w_dial w) = Some (w_next w) /\ w_next (after_dial w) = S (w_next w)).
Proof. unfold after_dial, w_dial. destruct (w_dials w) as [|[s|] r]; cbn; auto. Qed.

(* ================================================================== shape of the trace of one Send *)
(* [dshape rec k n t' n' tr ok]: what k iterations starting WITHOUT a connection can do when
   the next connection id is n : final client, final next id, events, verdict *)
Inductive dshape : bool -> nat -> nat -> tcp_client -> nat -> list io_event -> bool -> Prop :=
| ds_norec k n : dshape false k n {| tc_conn := None; tc_reconnectable := false |} n [] false
| ds_zero n : dshape true 0 n {| tc_conn := None; tc_reconnectable := true |} n [] false
| ds_refused k n :
    dshape true (S k) n {| tc_conn := None; tc_reconnectable := true |} n [EDial None] false
| ds_ok k n :
    dshape true (S k) n {| tc_conn := Some n; tc_reconnectable := true |} (S n)
           [EDial (Some n); EWrite n true] true
| ds_fail k n t' n' tr ok :
    dshape true k (S n) t' n' tr ok ->
    dshape true (S k) n t' n' ([EDial (Some n); EWrite n false; EClose n] ++ tr) ok.

Lemma loop_norec k w tr0 :
  tcp_client_send_loop k {| tc_conn := None; tc_reconnectable := false |} w tr0 =
  ({| tc_conn := None; tc_reconnectable := false |}, w, tr0, false).
Proof. induction k as [|k IH]; [reflexivity|]. rewrite loop_none_norec by reflexivity. exact IH. Qed.

Lemma loop_dshape k : forall rec w tr0 t' w' tr' ok,
  tcp_client_send_loop k {| tc_conn := None; tc_reconnectable := rec |} w tr0 = (t', w', tr', ok) ->
  exists ext, tr' = tr0 ++ ext /\ dshape rec k (w_next w) t' (w_next w') ext ok.
Proof.
  induction k as [|k IH]; intros rec w tr0 t' w' tr' ok H.
  - cbn in H. inversion H; subst. exists []. rewrite app_nil_r. split; [reflexivity|].
    destruct rec; constructor.
  - destruct rec.
    + rewrite loop_none_rec in H by reflexivity.
      destruct (w_dial_cases w) as [[E En]|[E En]]; rewrite E in H.
      * inversion H; subst. exists [EDial None]. split; [reflexivity|]. rewrite En. constructor.
      * rewrite (loop_cached _ _ _ _ (w_next w)) in H by reflexivity.
        destruct (next_write (w_next w) (after_dial w)).
        -- inversion H; subst. exists [EDial (Some (w_next w)); EWrite (w_next w) true].
           rewrite <- app_assoc. split; [reflexivity|]. rewrite after_write_next, En. constructor.
        -- cbn [tc_reconnectable] in H. apply IH in H. destruct H as [ext [-> Hs]].
           exists ([EDial (Some (w_next w)); EWrite (w_next w) false; EClose (w_next w)] ++ ext).
           rewrite <- !app_assoc. split; [reflexivity|]. apply ds_fail.
           rewrite after_write_next, En in Hs. exact Hs.
    + rewrite loop_norec in H. inversion H; subst. exists []. rewrite app_nil_r.
      split; [reflexivity|]. constructor.
Qed.

(* one TCPClientTransport.Send *)
Inductive cshape (t : tcp_client) (n : nat) : tcp_client -> nat -> list io_event -> bool -> Prop :=
| cs_ok c : tc_conn t = Some c -> cshape t n t n [EWrite c true] true
| cs_fail c t' n' tr ok :
    tc_conn t = Some c -> dshape (tc_reconnectable t) 1 n t' n' tr ok ->
    cshape t n t' n' ([EWrite c false; EClose c] ++ tr) ok
| cs_none t' n' tr ok :
    tc_conn t = None -> dshape (tc_reconnectable t) 2 n t' n' tr ok -> cshape t n t' n' tr ok.

Lemma client_shape t w t' w' tr ok :
  tcp_client_send t w = (t', w', tr, ok) -> cshape t (w_next w) t' (w_next w') tr ok.
Proof.
  unfold tcp_client_send. destruct t as [[c|] rec]; intros H.
  - rewrite (loop_cached _ _ _ _ c) in H by reflexivity. destruct (next_write c w).
    + inversion H; subst. rewrite after_write_next. apply cs_ok. reflexivity.
    + apply loop_dshape in H. destruct H as [ext [-> Hs]]. rewrite after_write_next in Hs.
      eapply cs_fail; [reflexivity|exact Hs].
  - apply loop_dshape in H. destruct H as [ext [-> Hs]]. apply cs_none; [reflexivity|exact Hs].
Qed.

Ltac inv H := inversion H; clear H; subst.
Ltac shapes :=
  repeat match goal with
  | H : cshape _ _ _ _ _ _ |- _ => inv H
  | H : dshape _ _ _ _ _ _ _ |- _ => inv H
  | H : tc_conn (Build_tcp_client _ _) = _ |- _ => cbn in H; first [discriminate H | inv H]
  end.
(* NB the last rule must only fire on a literal record: on [H : tc_conn p = Some c] with p a
   variable, [inversion H] re-generates H and [repeat] never terminates. *)
Ltac eqbs :=
  repeat match goal with
  | |- context [Nat.eqb ?a ?b] => destruct (Nat.eqb_spec a b); try lia; cbn
  end.

(* ================================================================== well-formed failover state *)
Definition primary_id (f : failover) : option nat :=
  match fo_primary f with Some p => tc_conn p | None => None end.
Definition secondary_id (f : failover) : option nat :=
  match fo_secondary f with Some s => tc_conn s | None => None end.
(* the primary (an inbound connection) cannot be re-dialled; cached connection ids are already
   allocated (below the counter n, so that a dialled id is new) and pairwise distinct *)
Definition fo_wf (f : failover) (n : nat) : Prop :=
  (forall p, fo_primary f = Some p -> tc_reconnectable p = false) /\
  (forall c, primary_id f = Some c -> c < n) /\
  (forall d, secondary_id f = Some d -> d < n) /\
  (forall c d, primary_id f = Some c -> secondary_id f = Some d -> c <> d).

Ltac wf_facts :=
  repeat match goal with
  | H : forall x, Some ?a = Some x -> _ |- _ => specialize (H _ eq_refl)
  | H : forall x, None = Some x -> _ |- _ => clear H
  | H : forall x y, Some ?a = Some x -> Some ?b = Some y -> _ |- _ => specialize (H _ _ eq_refl eq_refl)
  | H : forall x y, None = Some x -> _ |- _ => clear H
  | H : forall x y, _ = Some x -> None = Some y -> _ |- _ => clear H
  end.
Ltac wf_goal :=
  unfold fo_wf, primary_id, secondary_id; cbn;
  repeat split; intros;
  repeat match goal with
  | H : Some _ = Some _ |- _ => inv H
  | H : None = Some _ |- _ => discriminate H
  end; cbn in *; try reflexivity; try lia.

Theorem failover_send_spec f w f' w' tr ok :
  fo_wf f (w_next w) -> failover_send f w = (f', w', tr, ok) ->
  judge_C20_send tr ok = true /\ fo_wf f' (w_next w') /\ w_next w <= w_next w'.
Proof.
  intros (Hrec & Hc & Hd & Hcd) H. unfold failover_send in H.
  destruct f as [[[[c|] prec]|] [[[d|] srec]|]]; unfold primary_id, secondary_id in *;
    cbn [fo_primary fo_secondary tc_conn tc_reconnectable] in *;
    wf_facts; cbn [tc_reconnectable] in *; subst;
    repeat match type of H with
    | context [tcp_client_send ?t ?w] =>
        let E := fresh "E" in
        destruct (tcp_client_send t w) as [[[? ?] ?] []] eqn:E; apply client_shape in E;
        cbn [fo_primary fo_secondary] in H
    end; inv H; shapes; cbn in *; wf_facts.
  all: split; [unfold judge_C20_send; cbn; eqbs; reflexivity | split; [wf_goal | lia]].
Qed.

(* ================================================================== TCPBackend.Send *)
Lemma bloop_cached n c w tr :
  tcp_backend_send_loop (S n) (Some c) w tr =
  if next_write c w then (Some c, after_write c w, tr ++ [EWrite c true], true)
  else tcp_backend_send_loop n None (after_write c w) (tr ++ [EWrite c false; EClose c]).
Proof. cbn [tcp_backend_send_loop]. rewrite w_write_eq. reflexivity. Qed.

(* a refused dial does not abort: the loop goes on to its next iteration *)
Lemma bloop_none n w tr :
  tcp_backend_send_loop (S n) None w tr =
  match snd (w_dial w) with
  | Some c => tcp_backend_send_loop (S n) (Some c) (after_dial w) (tr ++ [EDial (Some c)])
  | None => tcp_backend_send_loop n None (after_dial w) (tr ++ [EDial None])
  end.
Proof.
  cbn [tcp_backend_send_loop]. rewrite w_dial_eq.
  destruct (snd (w_dial w)) as [c|]; cbn [snd fst]; reflexivity.
Qed.

Inductive bshape : nat -> option nat -> nat -> option nat -> nat -> list io_event -> bool -> Prop :=
| bs_zero conn n : bshape 0 conn n conn n [] false
| bs_ok k c n : bshape (S k) (Some c) n (Some c) n [EWrite c true] true
| bs_fail k c n conn' n' tr ok :
    bshape k None n conn' n' tr ok ->
    bshape (S k) (Some c) n conn' n' ([EWrite c false; EClose c] ++ tr) ok
| bs_refused k n conn' n' tr ok :
    bshape k None n conn' n' tr ok -> bshape (S k) None n conn' n' (EDial None :: tr) ok
| bs_dial k n conn' n' tr ok :
    bshape (S k) (Some n) (S n) conn' n' tr ok ->
    bshape (S k) None n conn' n' (EDial (Some n) :: tr) ok.

Lemma bloop_shape k : forall conn w tr0 conn' w' tr' ok,
  tcp_backend_send_loop k conn w tr0 = (conn', w', tr', ok) ->
  exists ext, tr' = tr0 ++ ext /\ bshape k conn (w_next w) conn' (w_next w') ext ok.
Proof.
  induction k as [|k IH]; intros conn w tr0 conn' w' tr' ok H.
  - cbn in H. inv H. exists []. rewrite app_nil_r. split; [reflexivity|constructor].
  - destruct conn as [c|].
    + rewrite bloop_cached in H. destruct (next_write c w).
      * inv H. exists [EWrite c true]. split; [reflexivity|]. rewrite after_write_next. constructor.
      * apply IH in H. destruct H as [ext [-> Hs]]. rewrite after_write_next in Hs.
        exists ([EWrite c false; EClose c] ++ ext). rewrite <- app_assoc.
        split; [reflexivity|]. constructor. exact Hs.
    + rewrite bloop_none in H. destruct (w_dial_cases w) as [[E En]|[E En]]; rewrite E in H.
      * apply IH in H. destruct H as [ext [-> Hs]]. rewrite En in Hs.
        exists (EDial None :: ext). rewrite <- app_assoc. split; [reflexivity|]. constructor. exact Hs.
      * rewrite bloop_cached in H. destruct (next_write (w_next w) (after_dial w)).
        -- inv H. exists [EDial (Some (w_next w)); EWrite (w_next w) true]. rewrite <- app_assoc.
           split; [reflexivity|]. rewrite after_write_next, En. apply bs_dial. constructor.
        -- apply IH in H. destruct H as [ext [-> Hs]]. rewrite after_write_next, En in Hs.
           exists (EDial (Some (w_next w)) :: [EWrite (w_next w) false; EClose (w_next w)] ++ ext).
           rewrite <- !app_assoc. split; [reflexivity|]. apply bs_dial. constructor. exact Hs.
Qed.

Definition b_wf (conn : option nat) (n : nat) : Prop := forall c, conn = Some c -> c < n.

Theorem backend_send_spec conn w conn' w' tr ok :
  b_wf conn (w_next w) -> tcp_backend_send conn w = (conn', w', tr, ok) ->
  judge_C20_send tr ok = true /\ b_wf conn' (w_next w') /\ w_next w <= w_next w'.
Proof.
  unfold b_wf, tcp_backend_send. intros Hc H. apply bloop_shape in H.
  destruct H as [ext [-> Hs]]. cbn [app].
  destruct conn as [c|]; wf_facts;
    repeat match goal with H : bshape _ _ _ _ _ _ _ |- _ => inv H end.
  all: split; [unfold judge_C20_send; cbn; eqbs; reflexivity
              | split; [intros ? Heq; try discriminate Heq; inv Heq; lia | lia]].
Qed.

(* ================================================================== C20_judged_* *)
Theorem C20_judged_client : forall f w,
  fo_wf f (w_next w) ->
  let '(_, _, tr, ok) := failover_send f w in judge_C20_send tr ok = true.
Proof.
  intros f w Hwf. destruct (failover_send f w) as [[[f' w'] tr] ok] eqn:E.
  exact (proj1 (failover_send_spec _ _ _ _ _ _ Hwf E)).
Qed.

Theorem C20_judged_backend : forall conn w,
  b_wf conn (w_next w) ->
  let '(_, _, tr, ok) := tcp_backend_send conn w in judge_C20_send tr ok = true.
Proof.
  intros conn w Hwf. destruct (tcp_backend_send conn w) as [[[c' w'] tr] ok] eqn:E.
  exact (proj1 (backend_send_spec _ _ _ _ _ _ Hwf E)).
Qed.

(* the well-formedness is an invariant of a send *)
Theorem C20_wf_preserved_client : forall f w f' w' tr ok,
  fo_wf f (w_next w) -> failover_send f w = (f', w', tr, ok) ->
  fo_wf f' (w_next w') /\ w_next w <= w_next w'.
Proof. intros f w f' w' tr ok Hwf E. exact (proj2 (failover_send_spec _ _ _ _ _ _ Hwf E)). Qed.

Theorem C20_wf_preserved_backend : forall conn w conn' w' tr ok,
  b_wf conn (w_next w) -> tcp_backend_send conn w = (conn', w', tr, ok) ->
  b_wf conn' (w_next w') /\ w_next w <= w_next w'.
Proof. intros conn w c' w' tr ok Hwf E. exact (proj2 (backend_send_spec _ _ _ _ _ _ Hwf E)). Qed.

Theorem C20_judged_client_seq : forall k f w,
  fo_wf f (w_next w) -> judge_C20 (failover_sends k f w) = true.
Proof.
  induction k as [|k IH]; intros f w Hwf; [reflexivity|].
  cbn [failover_sends]. destruct (failover_send f w) as [[[f' w'] tr] ok] eqn:E.
  destruct (failover_send_spec _ _ _ _ _ _ Hwf E) as (Hj & Hwf' & _).
  cbn. rewrite Hj. apply IH. exact Hwf'.
Qed.

Theorem C20_judged_backend_seq : forall k conn w,
  b_wf conn (w_next w) -> judge_C20 (backend_sends k conn w) = true.
Proof.
  induction k as [|k IH]; intros conn w Hwf; [reflexivity|].
  cbn [backend_sends]. destruct (tcp_backend_send conn w) as [[[c' w'] tr] ok] eqn:E.
  destruct (backend_send_spec _ _ _ _ _ _ Hwf E) as (Hj & Hwf' & _).
  cbn. rewrite Hj. apply IH. exact Hwf'.
Qed.

(* the same along the schedule used by Run.run_sendfault: before each send the dial results
   of that send are installed with [with_plan] *)
Fixpoint client_traces (plans : list (list conn_script)) (f : failover) (w : world)
  : list (list io_event * bool) :=
  match plans with
  | [] => []
  | pl :: r => let '(f', w', tr, ok) := failover_send f (with_plan w pl) in
               (tr, ok) :: client_traces r f' w'
  end.
Fixpoint backend_traces (plans : list (list conn_script)) (c : option nat) (w : world)
  : list (list io_event * bool) :=
  match plans with
  | [] => []
  | pl :: r => let '(c', w', tr, ok) := tcp_backend_send c (with_plan w pl) in
               (tr, ok) :: backend_traces r c' w'
  end.

Theorem C20_judged_client_plans : forall plans f w,
  fo_wf f (w_next w) -> judge_C20 (client_traces plans f w) = true.
Proof.
  induction plans as [|pl r IH]; intros f w Hwf; [reflexivity|].
  cbn [client_traces]. destruct (failover_send f (with_plan w pl)) as [[[f' w'] tr] ok] eqn:E.
  destruct (failover_send_spec _ (with_plan w pl) _ _ _ _ Hwf E) as (Hj & Hwf' & _).
  cbn. rewrite Hj. apply IH. exact Hwf'.
Qed.

Theorem C20_judged_backend_plans : forall plans conn w,
  b_wf conn (w_next w) -> judge_C20 (backend_traces plans conn w) = true.
Proof.
  induction plans as [|pl r IH]; intros conn w Hwf; [reflexivity|].
  cbn [backend_traces]. destruct (tcp_backend_send conn (with_plan w pl)) as [[[c' w'] tr] ok] eqn:E.
  destruct (backend_send_spec _ (with_plan w pl) _ _ _ _ Hwf E) as (Hj & Hwf' & _).
  cbn. rewrite Hj. apply IH. exact Hwf'.
Qed.

(* ================================================================== success = written exactly once *)
Definition no_okwrite (l : list io_event) : Prop := forall c, ~ In (EWrite c true) l.
(* what a send appends to the trace, according to its verdict *)
Definition ext_ok (ext : list io_event) (ok : bool) : Prop :=
  if ok then exists pre c, ext = pre ++ [EWrite c true] /\ no_okwrite pre
  else no_okwrite ext.

Ltac nook := let c := fresh "c" in let H := fresh "H" in
  intros c H; cbn in H; intuition discriminate.

Lemma no_okwrite_app a b : no_okwrite a -> no_okwrite b -> no_okwrite (a ++ b).
Proof. intros Ha Hb c Hin. apply in_app_or in Hin. destruct Hin; [eapply Ha|eapply Hb]; eassumption. Qed.

Lemma ext_ok_prefix pre ext ok : no_okwrite pre -> ext_ok ext ok -> ext_ok (pre ++ ext) ok.
Proof.
  destruct ok; cbn; intros Hp He.
  - destruct He as (mid & c & -> & Hm). exists (pre ++ mid), c. rewrite app_assoc.
    split; [reflexivity|]. apply no_okwrite_app; assumption.
  - apply no_okwrite_app; assumption.
Qed.

Lemma loop_ext n : forall t w tr0 t' w' tr' ok,
  tcp_client_send_loop n t w tr0 = (t', w', tr', ok) ->
  exists ext, tr' = tr0 ++ ext /\ ext_ok ext ok.
Proof.
  induction n as [|n IH]; intros t w tr0 t' w' tr' ok H.
  - cbn in H. inv H. exists []. rewrite app_nil_r. split; [reflexivity|nook].
  - destruct t as [[d|] rec].
    + rewrite (loop_cached _ _ _ _ d) in H by reflexivity. destruct (next_write d w).
      * inv H. exists [EWrite d true]. split; [reflexivity|]. exists [], d. split; [reflexivity|nook].
      * apply IH in H. destruct H as (ext & -> & Hx). exists ([EWrite d false; EClose d] ++ ext).
        rewrite <- app_assoc. split; [reflexivity|]. apply ext_ok_prefix; [nook|exact Hx].
    + destruct rec.
      * rewrite loop_none_rec in H by reflexivity. destruct (snd (w_dial w)) as [c|].
        -- rewrite (loop_cached _ _ _ _ c) in H by reflexivity.
           destruct (next_write c (after_dial w)).
           ++ inv H. exists [EDial (Some c); EWrite c true]. rewrite <- app_assoc.
              split; [reflexivity|]. exists [EDial (Some c)], c. split; [reflexivity|nook].
           ++ apply IH in H. destruct H as (ext & -> & Hx).
              exists ([EDial (Some c); EWrite c false; EClose c] ++ ext). rewrite <- !app_assoc.
              split; [reflexivity|]. apply ext_ok_prefix; [nook|exact Hx].
        -- inv H. exists [EDial None]. split; [reflexivity|nook].
      * rewrite loop_norec in H. inv H. exists []. rewrite app_nil_r. split; [reflexivity|nook].
Qed.

Lemma bloop_ext n : forall conn w tr0 conn' w' tr' ok,
  tcp_backend_send_loop n conn w tr0 = (conn', w', tr', ok) ->
  exists ext, tr' = tr0 ++ ext /\ ext_ok ext ok.
Proof.
  induction n as [|n IH]; intros conn w tr0 conn' w' tr' ok H.
  - cbn in H. inv H. exists []. rewrite app_nil_r. split; [reflexivity|nook].
  - destruct conn as [d|].
    + rewrite bloop_cached in H. destruct (next_write d w).
      * inv H. exists [EWrite d true]. split; [reflexivity|]. exists [], d. split; [reflexivity|nook].
      * apply IH in H. destruct H as (ext & -> & Hx). exists ([EWrite d false; EClose d] ++ ext).
        rewrite <- app_assoc. split; [reflexivity|]. apply ext_ok_prefix; [nook|exact Hx].
    + rewrite bloop_none in H. destruct (snd (w_dial w)) as [c|].
      * rewrite bloop_cached in H. destruct (next_write c (after_dial w)).
        -- inv H. exists [EDial (Some c); EWrite c true]. rewrite <- app_assoc.
           split; [reflexivity|]. exists [EDial (Some c)], c. split; [reflexivity|nook].
        -- apply IH in H. destruct H as (ext & -> & Hx).
           exists ([EDial (Some c); EWrite c false; EClose c] ++ ext). rewrite <- !app_assoc.
           split; [reflexivity|]. apply ext_ok_prefix; [nook|exact Hx].
      * apply IH in H. destruct H as (ext & -> & Hx). exists ([EDial None] ++ ext).
        rewrite <- app_assoc. split; [reflexivity|]. apply ext_ok_prefix; [nook|exact Hx].
Qed.

Lemma client_ext t w t' w' tr ok :
  tcp_client_send t w = (t', w', tr, ok) -> ext_ok tr ok.
Proof. intros H. apply loop_ext in H. destruct H as (ext & -> & Hx). exact Hx. Qed.

(* no hypothesis at all on the state or the world *)
Theorem failover_ext_ok f w f' w' tr ok :
  failover_send f w = (f', w', tr, ok) -> ext_ok tr ok.
Proof.
  unfold failover_send. intros H.
  destruct (fo_primary f) as [p|].
  - destruct (tcp_client_send p w) as [[[p' w1] tr1] ok1] eqn:E1. apply client_ext in E1.
    destruct ok1.
    + inv H. exact E1.
    + cbn [fo_secondary] in H. destruct (fo_secondary f) as [s|].
      * destruct (tcp_client_send s w1) as [[[s' w2] tr2] ok2] eqn:E2. apply client_ext in E2.
        inv H. apply ext_ok_prefix; assumption.
      * inv H. exact E1.
  - destruct (fo_secondary f) as [s|].
    + destruct (tcp_client_send s w) as [[[s' w2] tr2] ok2] eqn:E2. apply client_ext in E2.
      inv H. exact E2.
    + inv H. nook.
Qed.

Theorem C20_success_means_written : forall f w f' w' tr,
  failover_send f w = (f', w', tr, true) ->
  exists pre c, tr = pre ++ [EWrite c true] /\ (forall c', ~ In (EWrite c' true) pre).
Proof. intros f w f' w' tr H. exact (failover_ext_ok _ _ _ _ _ _ H). Qed.

Theorem C20_error_means_unwritten : forall f w f' w' tr,
  failover_send f w = (f', w', tr, false) -> forall c, ~ In (EWrite c true) tr.
Proof. intros f w f' w' tr H. exact (failover_ext_ok _ _ _ _ _ _ H). Qed.

Theorem C20_success_means_written_backend : forall conn w conn' w' tr,
  tcp_backend_send conn w = (conn', w', tr, true) ->
  exists pre c, tr = pre ++ [EWrite c true] /\ (forall c', ~ In (EWrite c' true) pre).
Proof.
  intros conn w conn' w' tr H. apply bloop_ext in H. destruct H as (ext & -> & Hx). exact Hx.
Qed.

Theorem C20_error_means_unwritten_backend : forall conn w conn' w' tr,
  tcp_backend_send conn w = (conn', w', tr, false) -> forall c, ~ In (EWrite c true) tr.
Proof.
  intros conn w conn' w' tr H. apply bloop_ext in H. destruct H as (ext & -> & Hx). exact Hx.
Qed.

(* ================================================================== the world invariant along sends *)
Lemma loop_wf n : forall t w tr0 t' w' tr' ok,
  w_wf w -> tcp_client_send_loop n t w tr0 = (t', w', tr', ok) -> w_wf w'.
Proof.
  induction n as [|n IH]; intros t w tr0 t' w' tr' ok Hw H.
  - cbn in H. inv H. exact Hw.
  - destruct t as [[d|] rec].
    + rewrite (loop_cached _ _ _ _ d) in H by reflexivity. destruct (next_write d w).
      * inv H. apply after_write_wf, Hw.
      * eapply IH; [|exact H]. apply after_write_wf, Hw.
    + destruct rec.
      * rewrite loop_none_rec in H by reflexivity. destruct (snd (w_dial w)) as [c|].
        -- rewrite (loop_cached _ _ _ _ c) in H by reflexivity.
           destruct (next_write c (after_dial w)).
           ++ inv H. apply after_write_wf, after_dial_wf, Hw.
           ++ eapply IH; [|exact H]. apply after_write_wf, after_dial_wf, Hw.
        -- inv H. apply after_dial_wf, Hw.
      * rewrite loop_norec in H. inv H. exact Hw.
Qed.

Lemma bloop_wf n : forall conn w tr0 conn' w' tr' ok,
  w_wf w -> tcp_backend_send_loop n conn w tr0 = (conn', w', tr', ok) -> w_wf w'.
Proof.
  induction n as [|n IH]; intros conn w tr0 conn' w' tr' ok Hw H.
  - cbn in H. inv H. exact Hw.
  - destruct conn as [d|].
    + rewrite bloop_cached in H. destruct (next_write d w).
      * inv H. apply after_write_wf, Hw.
      * eapply IH; [|exact H]. apply after_write_wf, Hw.
    + rewrite bloop_none in H. destruct (snd (w_dial w)) as [c|].
      * rewrite bloop_cached in H. destruct (next_write c (after_dial w)).
        -- inv H. apply after_write_wf, after_dial_wf, Hw.
        -- eapply IH; [|exact H]. apply after_write_wf, after_dial_wf, Hw.
      * eapply IH; [|exact H]. apply after_dial_wf, Hw.
Qed.

Theorem failover_send_w_wf f w f' w' tr ok :
  w_wf w -> failover_send f w = (f', w', tr, ok) -> w_wf w'.
Proof.
  unfold failover_send, tcp_client_send. intros Hw H.
  destruct (fo_primary f) as [p|].
  - destruct (tcp_client_send_loop 2 p w []) as [[[p' w1] tr1] ok1] eqn:E1.
    apply loop_wf in E1; [|exact Hw]. destruct ok1.
    + inv H. exact E1.
    + cbn [fo_secondary] in H. destruct (fo_secondary f) as [s|].
      * destruct (tcp_client_send_loop 2 s w1 []) as [[[s' w2] tr2] ok2] eqn:E2.
        apply loop_wf in E2; [|exact E1]. inv H. exact E2.
      * inv H. exact E1.
  - destruct (fo_secondary f) as [s|].
    + destruct (tcp_client_send_loop 2 s w []) as [[[s' w2] tr2] ok2] eqn:E2.
      apply loop_wf in E2; [|exact Hw]. inv H. exact E2.
    + inv H. exact Hw.
Qed.

Theorem backend_send_w_wf conn w conn' w' tr ok :
  w_wf w -> tcp_backend_send conn w = (conn', w', tr, ok) -> w_wf w'.
Proof. intros Hw H. eapply bloop_wf; [exact Hw|exact H]. Qed.

Lemma with_plan_wf w pl : w_wf w -> w_wf (with_plan w pl).
Proof. intros H. exact H. Qed.

(* ================================================================== decomposition of FailOver.Send *)
Lemma client_cached_ok t c w :
  tc_conn t = Some c -> next_write c w = true ->
  tcp_client_send t w = (t, after_write c w, [EWrite c true], true).
Proof.
  intros Hc Hn. unfold tcp_client_send. rewrite (loop_cached _ _ _ _ c) by exact Hc.
  rewrite Hn. reflexivity.
Qed.

Lemma client_norec_fail t c w :
  tc_conn t = Some c -> tc_reconnectable t = false -> next_write c w = false ->
  tcp_client_send t w =
  ({| tc_conn := None; tc_reconnectable := false |}, after_write c w, [EWrite c false; EClose c], false).
Proof.
  intros Hc Hr Hn. unfold tcp_client_send. rewrite (loop_cached _ _ _ _ c) by exact Hc.
  rewrite Hn, Hr, loop_norec. reflexivity.
Qed.

Lemma failover_primary_none f w :
  fo_primary f = None ->
  failover_send f w =
  match fo_secondary f with
  | Some s => let '(s', w2, tr2, ok) := tcp_client_send s w in
              ({| fo_primary := None; fo_secondary := Some s' |}, w2, tr2, ok)
  | None => (f, w, [], false)
  end.
Proof.
  intros H. unfold failover_send. rewrite H. destruct (fo_secondary f) as [s|]; [|reflexivity].
  destruct (tcp_client_send s w) as [[[s' w2] tr2] ok]. rewrite H. reflexivity.
Qed.

Lemma failover_primary_ok f w p c :
  fo_primary f = Some p -> tc_conn p = Some c -> next_write c w = true ->
  failover_send f w =
  ({| fo_primary := Some p; fo_secondary := fo_secondary f |}, after_write c w, [EWrite c true], true).
Proof.
  intros Hp Hc Hn. unfold failover_send. rewrite Hp, (client_cached_ok _ _ _ Hc Hn). reflexivity.
Qed.

Lemma failover_primary_fail f w p c :
  fo_primary f = Some p -> tc_conn p = Some c -> tc_reconnectable p = false ->
  next_write c w = false ->
  failover_send f w =
  match fo_secondary f with
  | Some s => let '(s', w2, tr2, ok) := tcp_client_send s (after_write c w) in
              ({| fo_primary := None; fo_secondary := Some s' |}, w2,
               [EWrite c false; EClose c] ++ tr2, ok)
  | None => ({| fo_primary := None; fo_secondary := None |}, after_write c w,
             [EWrite c false; EClose c], false)
  end.
Proof.
  intros Hp Hc Hr Hn. unfold failover_send. rewrite Hp, (client_norec_fail _ _ _ Hc Hr Hn).
  cbn [fo_secondary fo_primary]. destruct (fo_secondary f) as [s|]; reflexivity.
Qed.

(* ---- one iteration that has to dial ---- *)
Lemma after_dial_some_next w s rest :
  w_dials w = Some s :: rest -> w_next (after_dial w) = S (w_next w) /\ w_dials (after_dial w) = rest.
Proof. intros H. unfold after_dial. rewrite (w_dial_some _ _ _ H). split; reflexivity. Qed.

Lemma snd_dial_some w s rest : w_dials w = Some s :: rest -> snd (w_dial w) = Some (w_next w).
Proof. intros H. rewrite (w_dial_some _ _ _ H). reflexivity. Qed.

Lemma loop_dial_ok n w tr s rest :
  w_wf w -> w_dials w = Some s :: rest -> hd true s = true ->
  tcp_client_send_loop (S n) {| tc_conn := None; tc_reconnectable := true |} w tr =
  ({| tc_conn := Some (w_next w); tc_reconnectable := true |},
   after_write (w_next w) (after_dial w), tr ++ [EDial (Some (w_next w)); EWrite (w_next w) true], true).
Proof.
  intros Hw Hd Hs. rewrite loop_none_rec by reflexivity. rewrite (snd_dial_some _ _ _ Hd).
  rewrite (loop_cached _ _ _ _ (w_next w)) by reflexivity.
  rewrite (next_write_fresh _ _ _ Hw Hd), Hs, <- app_assoc. reflexivity.
Qed.

Lemma loop_dial_fail n w tr s rest :
  w_wf w -> w_dials w = Some s :: rest -> hd true s = false ->
  tcp_client_send_loop (S n) {| tc_conn := None; tc_reconnectable := true |} w tr =
  tcp_client_send_loop n {| tc_conn := None; tc_reconnectable := true |}
    (after_write (w_next w) (after_dial w))
    (tr ++ [EDial (Some (w_next w)); EWrite (w_next w) false; EClose (w_next w)]).
Proof.
  intros Hw Hd Hs. rewrite loop_none_rec by reflexivity. rewrite (snd_dial_some _ _ _ Hd).
  rewrite (loop_cached _ _ _ _ (w_next w)) by reflexivity.
  rewrite (next_write_fresh _ _ _ Hw Hd), Hs, <- app_assoc. reflexivity.
Qed.

(* fresh reconnectable path: no cached connection, the dial yields a healthy connection *)
Lemma client_fresh w s rest :
  w_wf w -> w_dials w = Some s :: rest -> hd true s = true ->
  tcp_client_send {| tc_conn := None; tc_reconnectable := true |} w =
  ({| tc_conn := Some (w_next w); tc_reconnectable := true |},
   after_write (w_next w) (after_dial w), [EDial (Some (w_next w)); EWrite (w_next w) true], true).
Proof. intros Hw Hd Hs. unfold tcp_client_send. rewrite (loop_dial_ok _ _ _ _ _ Hw Hd Hs). reflexivity. Qed.

(* stale cached connection failing once, then a healthy dialled connection *)
Lemma client_stale d w s rest :
  w_wf w -> next_write d w = false -> w_dials w = Some s :: rest -> hd true s = true ->
  tcp_client_send {| tc_conn := Some d; tc_reconnectable := true |} w =
  ({| tc_conn := Some (w_next w); tc_reconnectable := true |},
   after_write (w_next w) (after_dial (after_write d w)),
   [EWrite d false; EClose d; EDial (Some (w_next w)); EWrite (w_next w) true], true).
Proof.
  intros Hw Hn Hd Hs. unfold tcp_client_send. rewrite (loop_cached _ _ _ _ d) by reflexivity.
  rewrite Hn. cbn [tc_reconnectable].
  assert (Hd' : w_dials (after_write d w) = Some s :: rest) by (rewrite after_write_dials; exact Hd).
  rewrite (loop_dial_ok _ _ _ _ _ (after_write_wf d w Hw) Hd' Hs), after_write_next. reflexivity.
Qed.

(* ================================================================== C20_failover / C20_later_direct *)
Theorem C20_failover : forall f w p c s rest,
  w_wf w -> fo_wf f (w_next w) ->
  fo_primary f = Some p -> tc_conn p = Some c -> next_write c w = false ->
  fo_secondary f = Some {| tc_conn := None; tc_reconnectable := true |} ->
  w_dials w = Some s :: rest -> hd true s = true ->
  failover_send f w =
    ({| fo_primary := None;
        fo_secondary := Some {| tc_conn := Some (w_next w); tc_reconnectable := true |} |},
     after_write (w_next w) (after_dial (after_write c w)),
     [EWrite c false; EClose c; EDial (Some (w_next w)); EWrite (w_next w) true], true)
  /\ c <> w_next w.
Proof.
  intros f w p c s rest Hw (Hrec & Hc & _ & _) Hp Hpc Hn Hs Hd Hh.
  specialize (Hrec _ Hp). unfold primary_id in Hc. rewrite Hp in Hc. specialize (Hc _ Hpc).
  split; [|lia].
  rewrite (failover_primary_fail _ _ _ _ Hp Hpc Hrec Hn), Hs.
  assert (Hd' : w_dials (after_write c w) = Some s :: rest) by (rewrite after_write_dials; exact Hd).
  rewrite (client_fresh _ _ _ (after_write_wf c w Hw) Hd' Hh), after_write_next. reflexivity.
Qed.

(* ================================================================== connection ids occurring in a trace *)
(* connection ids an event talks about *)
Definition ev_ids (e : io_event) : list nat :=
  match e with EWrite c _ => [c] | EDial (Some c) => [c] | EDial None => [] | EClose c => [c] end.
(* every id occurring in tr satisfies P *)
Definition ids_in (P : nat -> Prop) (tr : list io_event) : Prop :=
  forall e, In e tr -> forall c, In c (ev_ids e) -> P c.

Lemma ids_in_nil P : ids_in P [].
Proof. intros e []. Qed.
Lemma ids_in_cons (P : nat -> Prop) e r :
  match e with EWrite c _ => P c | EDial (Some c) => P c | EDial None => True | EClose c => P c end ->
  ids_in P r -> ids_in P (e :: r).
Proof.
  intros He Hr e' [<-|Hin]; [|exact (Hr e' Hin)].
  destruct e as [c b|[c|]|c]; cbn; intros c0 Hc0; try contradiction;
    destruct Hc0 as [<-|[]]; exact He.
Qed.
Lemma ids_in_app P a b : ids_in P a -> ids_in P b -> ids_in P (a ++ b).
Proof. intros Ha Hb e Hin. apply in_app_or in Hin. destruct Hin as [Hin|Hin]; [exact (Ha e Hin)|exact (Hb e Hin)]. Qed.
Lemma ids_in_weaken (P Q : nat -> Prop) tr : (forall c, P c -> Q c) -> ids_in P tr -> ids_in Q tr.
Proof. intros HPQ H e Hin c Hc. apply HPQ. exact (H e Hin c Hc). Qed.

Ltac ids_solve :=
  cbn [app];
  repeat (apply ids_in_cons; [cbv beta iota; first [exact I | lia | (left; assumption) | (left; reflexivity) | (right; lia)]|]);
  try apply ids_in_nil.

(* iterations starting without a connection only talk about the ids they allocate *)
Lemma dshape_ids rec k n t' n' tr ok :
  dshape rec k n t' n' tr ok ->
  n <= n' /\ (forall c, tc_conn t' = Some c -> n <= c < n') /\ ids_in (fun c => n <= c < n') tr.
Proof.
  induction 1 as [k n|n|k n|k n|k n t' n' tr ok Hd (IH1 & IH2 & IH3)].
  - split; [lia|split; [cbn; intros c Hc; discriminate Hc|ids_solve]].
  - split; [lia|split; [cbn; intros c Hc; discriminate Hc|ids_solve]].
  - split; [lia|split; [cbn; intros c Hc; discriminate Hc|ids_solve]].
  - split; [lia|split; [cbn; intros c Hc; inv Hc; lia|ids_solve]].
  - split; [lia|split; [intros c Hc; specialize (IH2 c Hc); lia|]].
    ids_solve. eapply ids_in_weaken; [|exact IH3]. cbv beta. intros c Hc; lia.
Qed.

(* one TCPClientTransport.Send talks about its cached connection and the ids it allocates *)
Lemma cshape_ids t n t' n' tr ok :
  cshape t n t' n' tr ok ->
  n <= n' /\ (forall c, tc_conn t' = Some c -> tc_conn t = Some c \/ n <= c < n') /\
  ids_in (fun c => tc_conn t = Some c \/ n <= c < n') tr.
Proof.
  intros H. destruct H as [c Hc | c t' n' tr ok Hc Hd | t' n' tr ok Hc Hd].
  - split; [lia|split; [intros c0 Hc0; left; exact Hc0|ids_solve]].
  - apply dshape_ids in Hd. destruct Hd as (H1 & H2 & H3).
    split; [exact H1|split; [intros c0 Hc0; right; exact (H2 c0 Hc0)|]].
    ids_solve. eapply ids_in_weaken; [|exact H3]. cbv beta. intros c0 Hc0; right; exact Hc0.
  - apply dshape_ids in Hd. destruct Hd as (H1 & H2 & H3).
    split; [exact H1|split; [intros c0 Hc0; right; exact (H2 c0 Hc0)|]].
    eapply ids_in_weaken; [|exact H3]. cbv beta. intros c0 Hc0; right; exact Hc0.
Qed.

Lemma client_send_ids t w t' w' tr ok :
  tcp_client_send t w = (t', w', tr, ok) ->
  w_next w <= w_next w' /\
  ids_in (fun c => tc_conn t = Some c \/ w_next w <= c < w_next w') tr.
Proof. intros H. apply client_shape, cshape_ids in H. destruct H as (H1 & _ & H3). split; assumption. Qed.

(* every id of the trace of FailOver.Send is allocated when the send returns *)
Theorem failover_send_ids f w f' w' tr ok :
  fo_wf f (w_next w) -> failover_send f w = (f', w', tr, ok) ->
  ids_in (fun c => c < w_next w') tr.
Proof.
  intros (_ & Hc & Hd & _) H.
  assert (Hc' : forall p c, fo_primary f = Some p -> tc_conn p = Some c -> c < w_next w).
  { intros p c E1 E2. apply Hc. unfold primary_id. rewrite E1. exact E2. }
  assert (Hd' : forall s c, fo_secondary f = Some s -> tc_conn s = Some c -> c < w_next w).
  { intros s c E1 E2. apply Hd. unfold secondary_id. rewrite E1. exact E2. }
  clear Hc Hd. unfold failover_send in H.
  destruct (fo_primary f) as [p|] eqn:Ep.
  - destruct (tcp_client_send p w) as [[[p' w1] tr1] ok1] eqn:E1.
    apply client_send_ids in E1. destruct E1 as (Hle1 & Hids1).
    assert (Hp : ids_in (fun c => c < w_next w1) tr1).
    { eapply ids_in_weaken; [|exact Hids1]. cbv beta. intros c [Hpc|Hr]; [|lia].
      specialize (Hc' _ _ eq_refl Hpc). lia. }
    destruct ok1.
    + inv H. exact Hp.
    + cbn [fo_secondary fo_primary] in H. destruct (fo_secondary f) as [s|] eqn:Es.
      * destruct (tcp_client_send s w1) as [[[s' w2] tr2] ok2] eqn:E2.
        apply client_send_ids in E2. destruct E2 as (Hle2 & Hids2). inv H.
        apply ids_in_app.
        -- eapply ids_in_weaken; [|exact Hp]. cbv beta. intros c Hlt; lia.
        -- eapply ids_in_weaken; [|exact Hids2]. cbv beta. intros c [Hsc|Hr]; [|lia].
           specialize (Hd' _ _ eq_refl Hsc). lia.
      * inv H. exact Hp.
  - destruct (fo_secondary f) as [s|] eqn:Es.
    + destruct (tcp_client_send s w) as [[[s' w2] tr2] ok2] eqn:E2.
      apply client_send_ids in E2. destruct E2 as (Hle2 & Hids2). inv H. cbn [app].
      eapply ids_in_weaken; [|exact Hids2]. cbv beta. intros c [Hsc|Hr]; [|lia].
      specialize (Hd' _ _ eq_refl Hsc). lia.
    + inv H. apply ids_in_nil.
Qed.

Lemma bshape_ids k conn n conn' n' tr ok :
  bshape k conn n conn' n' tr ok ->
  n <= n' /\ (forall c, conn' = Some c -> conn = Some c \/ n <= c < n') /\
  ids_in (fun c => conn = Some c \/ n <= c < n') tr.
Proof.
  induction 1 as [conn n|k c n|k c n conn' n' tr ok Hb (IH1 & IH2 & IH3)
                 |k n conn' n' tr ok Hb (IH1 & IH2 & IH3)|k n conn' n' tr ok Hb (IH1 & IH2 & IH3)].
  - split; [lia|split; [intros c Hc; left; exact Hc|ids_solve]].
  - split; [lia|split; [intros c0 Hc0; left; exact Hc0|ids_solve]].
  - split; [exact IH1|split].
    + intros c0 Hc0. destruct (IH2 c0 Hc0) as [E|E]; [discriminate E|right; exact E].
    + ids_solve. eapply ids_in_weaken; [|exact IH3]. cbv beta.
      intros c0 [E|E]; [discriminate E|right; exact E].
  - split; [exact IH1|split; [exact IH2|]]. ids_solve. exact IH3.
  - split; [lia|split].
    + intros c0 Hc0. destruct (IH2 c0 Hc0) as [E|E]; right; [inv E|]; lia.
    + ids_solve. eapply ids_in_weaken; [|exact IH3]. cbv beta.
      intros c0 [E|E]; right; [inv E|]; lia.
Qed.

Theorem backend_send_ids conn w conn' w' tr ok :
  b_wf conn (w_next w) -> tcp_backend_send conn w = (conn', w', tr, ok) ->
  ids_in (fun c => c < w_next w') tr.
Proof.
  unfold b_wf, tcp_backend_send. intros Hc H. apply bloop_shape in H.
  destruct H as [ext [-> Hs]]. cbn [app]. apply bshape_ids in Hs. destruct Hs as (H1 & _ & H3).
  eapply ids_in_weaken; [|exact H3]. cbv beta. intros c [E|E]; [|lia].
  specialize (Hc c E). lia.
Qed.

(* ================================================================== C20_later_direct *)
(* After the fail-over of C20_failover, the next send (in any later world w2, e.g. w' itself or
   [with_plan w' pl]) never mentions the forgotten connection c, starts with a write on the
   connection dialled by the fail-over, and if that write is accepted it is the whole send. *)
Theorem C20_later_direct : forall f w p c s rest,
  w_wf w -> fo_wf f (w_next w) ->
  fo_primary f = Some p -> tc_conn p = Some c -> next_write c w = false ->
  fo_secondary f = Some {| tc_conn := None; tc_reconnectable := true |} ->
  w_dials w = Some s :: rest -> hd true s = true ->
  forall f' w' tr ok, failover_send f w = (f', w', tr, ok) ->
  forall w2, w_next w' <= w_next w2 ->          (* e.g. w2 = w' or with_plan w' pl *)
  forall f2 w3 tr2 ok2, failover_send f' w2 = (f2, w3, tr2, ok2) ->
  (forall e, In e tr2 -> ~ In c (ev_ids e)) /\
  (exists b rest2, tr2 = EWrite (w_next w) b :: rest2) /\
  (next_write (w_next w) w2 = true -> tr2 = [EWrite (w_next w) true] /\ ok2 = true /\ f2 = f').
Proof.
  intros f w p c s rest Hw Hf Hp Hpc Hn Hs Hd Hh f' w' tr ok E w2 Hle f2 w3 tr2 ok2 E2.
  destruct (C20_failover _ _ _ _ _ _ Hw Hf Hp Hpc Hn Hs Hd Hh) as [E0 Hne].
  rewrite E0 in E. inv E.
  assert (Hd' : w_dials (after_write c w) = Some s :: rest) by (rewrite after_write_dials; exact Hd).
  rewrite after_write_next, (proj1 (after_dial_some_next _ _ _ Hd')), after_write_next in Hle.
  destruct Hf as (_ & Hc & _ & _). unfold primary_id in Hc. rewrite Hp in Hc. specialize (Hc _ Hpc).
  rewrite failover_primary_none in E2 by reflexivity. cbn [fo_secondary] in E2.
  split; [|split].
  - destruct (tcp_client_send _ w2) as [[[s' w4] tr4] ok4] eqn:E4. inv E2.
    apply client_send_ids in E4. destruct E4 as (_ & Hids).
    intros e Hin Hce. specialize (Hids e Hin c Hce). cbv beta in Hids. cbn [tc_conn] in Hids.
    destruct Hids as [Heq|Hr]; [inv Heq|]; lia.
  - unfold tcp_client_send in E2.
    rewrite (loop_cached _ _ _ _ (w_next w)) in E2 by reflexivity.
    destruct (next_write (w_next w) w2).
    + inv E2. eexists; eexists; reflexivity.
    + destruct (tcp_client_send_loop 1 _ _ _) as [[[s' w4] tr4] ok4] eqn:E4.
      apply loop_dshape in E4. destruct E4 as (ext & -> & _). inv E2.
      eexists; eexists; reflexivity.
  - intros Hn2. rewrite (client_cached_ok {| tc_conn := Some (w_next w); tc_reconnectable := true |}
                 (w_next w) w2 eq_refl Hn2) in E2. inv E2. auto.
Qed.

(* ================================================================== C20_refused *)
(* A destination that refuses connections, no cached connection: FailOver.Send makes at most one
   dial attempt (so at most 2), writes nothing, touches no connection, and reports an error. *)
Theorem C20_refused : forall f w f' w' tr ok,
  fo_wf f (w_next w) -> dial_refused w -> primary_id f = None -> secondary_id f = None ->
  failover_send f w = (f', w', tr, ok) ->
  ok = false /\ (tr = [] \/ tr = [EDial None]) /\
  List.length (filter ev_is_dial tr) <= 2 /\ filter ev_is_write tr = [] /\
  w_conns w' = w_conns w /\ w_next w' = w_next w /\ primary_id f' = None /\ secondary_id f' = None.
Proof.
  intros f w f' w' tr ok (Hrec & _) Hr Hp Hs H.
  assert (E1 : exists f1, fo_primary f1 = None /\ fo_secondary f1 = fo_secondary f /\
                          failover_send f w = failover_send f1 w).
  { unfold primary_id in Hp. destruct (fo_primary f) as [[pc prec]|] eqn:Ep.
    - cbn in Hp. subst pc. specialize (Hrec _ eq_refl). cbn in Hrec. subst prec.
      exists {| fo_primary := None; fo_secondary := fo_secondary f |}.
      split; [reflexivity|split; [reflexivity|]].
      unfold failover_send. rewrite Ep. cbn [fo_primary fo_secondary].
      unfold tcp_client_send at 1. rewrite loop_norec. reflexivity.
    - exists f. auto. }
  destruct E1 as (f1 & Ep1 & Es1 & E1). rewrite E1, (failover_primary_none _ _ Ep1), Es1 in H.
  unfold secondary_id in Hs. destruct (fo_secondary f) as [[sc [|]]|] eqn:Es.
  - cbn in Hs. subst sc. unfold tcp_client_send in H. rewrite loop_none_rec in H by reflexivity.
    rewrite (w_dial_refused _ Hr) in H. cbn [snd] in H. inv H. unfold after_dial.
    rewrite (w_dial_refused _ Hr). cbn. auto 10.
  - cbn in Hs. subst sc. unfold tcp_client_send in H. rewrite loop_norec in H. inv H.
    cbn. auto 10.
  - inv H. unfold primary_id, secondary_id. rewrite Ep1, Es1. cbn. auto 10.
Qed.

Lemma after_dial_refused w :
  dial_refused w -> w_conns (after_dial w) = w_conns w /\ w_next (after_dial w) = w_next w.
Proof. intros H. unfold after_dial. rewrite (w_dial_refused _ H). split; reflexivity. Qed.

(* TCPBackend.Send does not abort on a refused dial: it dials once per iteration *)
Theorem C20_refused_backend : forall w conn' w' tr ok,
  dial_refused w -> dial_refused (after_dial w) ->
  tcp_backend_send None w = (conn', w', tr, ok) ->
  ok = false /\ tr = [EDial None; EDial None] /\ conn' = None /\
  w_conns w' = w_conns w /\ w_next w' = w_next w.
Proof.
  intros w conn' w' tr ok Hr1 Hr2 H. unfold tcp_backend_send in H.
  rewrite bloop_none in H. rewrite (w_dial_refused _ Hr1) in H. cbn [snd] in H.
  rewrite bloop_none in H. rewrite (w_dial_refused _ Hr2) in H. cbn [snd tcp_backend_send_loop app] in H.
  inv H. destruct (after_dial_refused _ Hr1) as [A1 A2]. destruct (after_dial_refused _ Hr2) as [B1 B2].
  rewrite B1, B2, A1, A2. auto.
Qed.

(* ================================================================== C20_no_dup *)
Lemma no_okwrite_filter l : no_okwrite l -> filter ev_is_okwrite l = [].
Proof.
  induction l as [|e r IH]; intros H; [reflexivity|].
  cbn [filter]. destruct e as [c [|]|d|c]; cbn [ev_is_okwrite].
  - exfalso. apply (H c). left; reflexivity.
  - apply IH. intros c' Hin. apply (H c'). right; exact Hin.
  - apply IH. intros c' Hin. apply (H c'). right; exact Hin.
  - apply IH. intros c' Hin. apply (H c'). right; exact Hin.
Qed.

Lemma ext_ok_count tr ok : ext_ok tr ok -> List.length (filter ev_is_okwrite tr) = if ok then 1 else 0.
Proof.
  destruct ok; cbn [ext_ok].
  - intros (pre & c & -> & Hpre). rewrite filter_app, (no_okwrite_filter _ Hpre). reflexivity.
  - intros H. rewrite (no_okwrite_filter _ H). reflexivity.
Qed.

(* exact number of accepted writes of one send, for ANY state and world *)
Theorem C20_okwrite_count : forall f w f' w' tr ok,
  failover_send f w = (f', w', tr, ok) ->
  List.length (filter ev_is_okwrite tr) = if ok then 1 else 0.
Proof. intros f w f' w' tr ok H. apply ext_ok_count. exact (failover_ext_ok _ _ _ _ _ _ H). Qed.

Theorem C20_okwrite_count_backend : forall conn w conn' w' tr ok,
  tcp_backend_send conn w = (conn', w', tr, ok) ->
  List.length (filter ev_is_okwrite tr) = if ok then 1 else 0.
Proof.
  intros conn w conn' w' tr ok H. apply ext_ok_count.
  apply bloop_ext in H. destruct H as (ext & -> & Hx). exact Hx.
Qed.

Theorem C20_no_dup : forall f w f' w' tr ok,
  failover_send f w = (f', w', tr, ok) -> List.length (filter ev_is_okwrite tr) <= 1.
Proof. intros f w f' w' tr ok H. rewrite (C20_okwrite_count _ _ _ _ _ _ H). destruct ok; lia. Qed.

Theorem C20_no_dup_backend : forall conn w conn' w' tr ok,
  tcp_backend_send conn w = (conn', w', tr, ok) -> List.length (filter ev_is_okwrite tr) <= 1.
Proof. intros conn w conn' w' tr ok H. rewrite (C20_okwrite_count_backend _ _ _ _ _ _ H). destruct ok; lia. Qed.

(* ================================================================== trace judge => count judge *)
(* The statement
     forall next tr ok, judge_C20_send tr ok = true -> judge_C20_obs (obs_of_trace next tr ok) = true
   is FALSE: [so_dialled] only counts the accepted writes on ids 2 .. next-1, so an accepted write
   on an id >= next is not seen by the observation (see the Example right below).  The minimal extra
   hypothesis is [okwrites_below next tr]; it follows from [ids_below next tr = true], which holds
   for every trace produced from a well-formed state with next = w_next of the world AFTER the
   send (failover_send_ids / backend_send_ids above). *)
Example C20_obs_needs_ids :
  judge_C20_send [EWrite 5 true] true = true /\
  judge_C20_obs (obs_of_trace 2 [EWrite 5 true] true) = false.
Proof. split; vm_compute; reflexivity. Qed.

Definition okwrites_below (next : nat) (tr : list io_event) : Prop :=
  forall c, In (EWrite c true) tr -> c < next.
Definition ids_below (next : nat) (tr : list io_event) : bool :=
  forallb (fun e => forallb (fun c => Nat.ltb c next) (ev_ids e)) tr.

Lemma ids_below_spec next tr : ids_below next tr = true <-> ids_in (fun c => c < next) tr.
Proof.
  unfold ids_below, ids_in. rewrite forallb_forall. split; intros H e Hin.
  - specialize (H e Hin). rewrite forallb_forall in H. intros c Hc. apply Nat.ltb_lt. exact (H c Hc).
  - rewrite forallb_forall. intros c Hc. apply Nat.ltb_lt. exact (H e Hin c Hc).
Qed.

Lemma ids_in_okwrites next tr : ids_in (fun c => c < next) tr -> okwrites_below next tr.
Proof. intros H c Hin. apply (H _ Hin c). left; reflexivity. Qed.

Lemma ids_below_okwrites next tr : ids_below next tr = true -> okwrites_below next tr.
Proof. intros H. apply ids_in_okwrites, ids_below_spec, H. Qed.

(* ---- counting ---- *)
Lemma count_ev_cons f e r : count_ev f (e :: r) = Nat.b2n (f e) + count_ev f r.
Proof. unfold count_ev. cbn [filter]. destruct (f e); reflexivity. Qed.
Lemma count_ev_app f a b : count_ev f (a ++ b) = count_ev f a + count_ev f b.
Proof. unfold count_ev. rewrite filter_app, app_length. reflexivity. Qed.
Lemma count_ev_le f g tr : (forall e, f e = true -> g e = true) -> count_ev f tr <= count_ev g tr.
Proof.
  intros H. induction tr as [|e r IH]; [cbn; lia|]. rewrite !count_ev_cons.
  destruct (f e) eqn:Ef; [rewrite (H e Ef)|]; cbn [Nat.b2n]; lia.
Qed.
Lemma count_ev_in f e tr : In e tr -> f e = true -> 1 <= count_ev f tr.
Proof.
  induction tr as [|e' r IH]; intros Hin He; [contradiction|]. rewrite count_ev_cons.
  destruct Hin as [->|Hin]; [rewrite He; cbn; lia|]. specialize (IH Hin He). lia.
Qed.
Lemma existsb_false_count f tr : existsb f tr = false -> count_ev f tr = 0.
Proof.
  induction tr as [|e r IH]; [reflexivity|]. cbn [existsb]. rewrite count_ev_cons.
  destruct (f e); cbn; [discriminate|exact IH].
Qed.

Lemma okwrite_write e : ev_is_okwrite e = true -> ev_is_write e = true.
Proof. destruct e as [c [|]|d|c]; cbn; congruence. Qed.
Lemma writes_to_write c e : ev_writes_to c e = true -> ev_is_write e = true.
Proof. destruct e as [c' b|d|c']; cbn; congruence. Qed.

(* what the conjuncts of the trace judge say *)
Lemma judge_parts tr ok :
  judge_C20_send tr ok = true ->
  (if ok then count_ev ev_is_okwrite tr = 1 /\
              ev_is_okwrite (last (filter ev_is_write tr) (EClose 0)) = true
   else count_ev ev_is_okwrite tr = 0) /\
  failed_forgotten tr = true /\ count_ev ev_is_dial tr <= 2 /\ count_ev ev_is_write tr <= 3.
Proof.
  unfold judge_C20_send, count_ev. cbv zeta. rewrite !andb_true_iff, !Nat.leb_le.
  intros (((H1 & H2) & H3) & H4). repeat split; try assumption.
  destruct ok.
  - rewrite andb_true_iff, Nat.eqb_eq in H1. exact H1.
  - rewrite Nat.eqb_eq in H1. exact H1.
Qed.

(* an accepted write is the last write of the trace *)
Lemma okwrite_is_last (tr : list io_event) (ok : bool) :
  (if ok then count_ev ev_is_okwrite tr = 1 /\
              ev_is_okwrite (last (filter ev_is_write tr) (EClose 0)) = true
   else count_ev ev_is_okwrite tr = 0) ->
  forall pre e post, tr = pre ++ e :: post -> ev_is_okwrite e = true -> filter ev_is_write post = [].
Proof.
  intros H pre e post -> He.
  rewrite count_ev_app, count_ev_cons, He in H. cbn [Nat.b2n] in H.
  destruct ok; [|lia]. destruct H as [Hcnt Hlast].
  destruct (filter ev_is_write post) as [|y q] eqn:Eq; [reflexivity|exfalso].
  assert (Hne : y :: q <> []) by discriminate.
  destruct (exists_last Hne) as (q' & x & Ex).
  rewrite filter_app in Hlast. cbn [filter] in Hlast.
  rewrite (okwrite_write _ He), Eq, Ex, app_comm_cons, app_assoc, last_last in Hlast.
  assert (Hx : In x post).
  { assert (Hx : In x (filter ev_is_write post)) by (rewrite Eq, Ex; apply in_or_app; right; left; reflexivity).
    apply filter_In in Hx. apply Hx. }
  pose proof (count_ev_in _ _ _ Hx Hlast). lia.
Qed.

Lemma failed_forgotten_tl e r : failed_forgotten (e :: r) = true -> failed_forgotten r = true.
Proof.
  destruct e as [c [|]|d|c]; cbn [failed_forgotten]; try (intros H; exact H).
  destruct r as [|[c' b|d|c'] r']; try discriminate.
  rewrite !andb_true_iff. intros (_ & H). exact H.
Qed.

(* a connection is written at most once per send *)
Lemma writes_once c : forall tr,
  failed_forgotten tr = true ->
  (forall pre e post, tr = pre ++ e :: post -> ev_is_okwrite e = true -> filter ev_is_write post = []) ->
  count_ev (ev_writes_to c) tr <= 1.
Proof.
  induction tr as [|e r IH]; intros Hff Hlast; [cbn; lia|].
  rewrite count_ev_cons. destruct (ev_writes_to c e) eqn:Ew.
  - cbn [Nat.b2n]. enough (count_ev (ev_writes_to c) r = 0) by lia.
    destruct e as [c' [|]|d|c']; cbn in Ew; try discriminate Ew.
    + pose proof (Hlast [] _ r eq_refl eq_refl) as Hr.
      pose proof (count_ev_le (ev_writes_to c) ev_is_write r (writes_to_write c)) as Hle.
      unfold count_ev at 2 in Hle. rewrite Hr in Hle. cbn in Hle. lia.
    + apply Nat.eqb_eq in Ew. subst c'. cbn [failed_forgotten] in Hff.
      destruct r as [|[c' b|d|c'] r']; try discriminate Hff.
      rewrite !andb_true_iff, negb_true_iff in Hff. destruct Hff as ((_ & Hex) & _).
      rewrite count_ev_cons. cbn [ev_writes_to Nat.b2n]. rewrite (existsb_false_count _ _ Hex). reflexivity.
  - cbn [Nat.b2n]. apply IH; [exact (failed_forgotten_tl _ _ Hff)|].
    intros pre e' post Heq. apply (Hlast (e :: pre)). rewrite Heq. reflexivity.
Qed.

Lemma count_writes_split c tr :
  count_ev (is_write c true) tr + count_ev (is_write c false) tr = count_ev (ev_writes_to c) tr.
Proof.
  induction tr as [|e r IH]; [reflexivity|]. rewrite !count_ev_cons.
  destruct e as [c' [|]|d|c']; cbn [is_write ev_writes_to]; try destruct (Nat.eqb c c'); cbn; lia.
Qed.

(* every failed write on c is followed by a close of c *)
Lemma fail_le_close c : forall n tr, List.length tr <= n -> failed_forgotten tr = true ->
  count_ev (is_write c false) tr <= count_ev (is_close c) tr.
Proof.
  induction n as [|n IH]; intros tr Hlen Hff.
  - destruct tr; [cbn; lia|cbn in Hlen; lia].
  - destruct tr as [|e r]; [cbn; lia|]. cbn [List.length] in Hlen.
    destruct e as [c' [|]|d|c'].
    + rewrite !count_ev_cons. cbn [is_write is_close Bool.eqb]. rewrite andb_false_r. cbn [Nat.b2n].
      apply IH; [lia|exact (failed_forgotten_tl _ _ Hff)].
    + cbn [failed_forgotten] in Hff. destruct r as [|[c'' b|d|c''] r']; try discriminate Hff.
      rewrite !andb_true_iff in Hff. destruct Hff as ((Hcc & _) & Hff). apply Nat.eqb_eq in Hcc. subst c''.
      cbn [failed_forgotten] in Hff. cbn [List.length] in Hlen.
      rewrite !count_ev_cons. cbn [is_write is_close Bool.eqb]. rewrite andb_true_r.
      assert (Hr : count_ev (is_write c false) r' <= count_ev (is_close c) r') by (apply IH; [lia|exact Hff]).
      cbn [Nat.b2n]. lia.
    + rewrite !count_ev_cons. cbn [is_write is_close Nat.b2n].
      apply IH; [lia|exact (failed_forgotten_tl _ _ Hff)].
    + rewrite !count_ev_cons. cbn [is_write Nat.b2n].
      assert (Hr : count_ev (is_write c false) r <= count_ev (is_close c) r)
        by (apply IH; [lia|exact (failed_forgotten_tl _ _ Hff)]).
      lia.
Qed.

Lemma cached_ok_counts c tr ok : judge_C20_send tr ok = true -> cached_ok (counts_of c tr) = true.
Proof.
  intros H. apply judge_parts in H. destruct H as (H1 & Hff & _ & _).
  unfold cached_ok, counts_of. cbn [cc_ok cc_fail cc_close]. rewrite andb_true_iff, !Nat.leb_le. split.
  - rewrite count_writes_split. apply writes_once; [exact Hff|exact (okwrite_is_last _ _ H1)].
  - exact (fail_le_close c _ tr (le_n _) Hff).
Qed.

(* ---- the accepted writes counted by the observation ---- *)
Definition total_ok (next : nat) (tr : list io_event) : nat :=
  count_ev (is_write 0 true) tr + count_ev (is_write 1 true) tr +
  list_sum (map (fun c => count_ev (is_write c true) tr) (seq 2 (next - 2))).

Lemma list_sum_map_add {A} (f g : A -> nat) l :
  list_sum (map (fun x => f x + g x) l) = list_sum (map f l) + list_sum (map g l).
Proof. unfold list_sum. induction l as [|x r IH]; cbn [map fold_right]; [reflexivity|]. rewrite IH. lia. Qed.
Lemma list_sum_map_zero {A} (l : list A) : list_sum (map (fun _ => 0) l) = 0.
Proof. unfold list_sum. induction l as [|x r IH]; cbn [map fold_right]; [reflexivity|exact IH]. Qed.
Lemma sum_eqb_seq c : forall n a,
  list_sum (map (fun c' => Nat.b2n (Nat.eqb c' c)) (seq a n)) = Nat.b2n ((a <=? c) && (c <? a + n)).
Proof.
  unfold list_sum. induction n as [|n IH]; intros a; cbn [seq map fold_right].
  - destruct (Nat.leb_spec a c), (Nat.ltb_spec c (a + 0)); cbn; lia.
  - rewrite IH.
    destruct (Nat.eqb_spec a c), (Nat.leb_spec (S a) c), (Nat.ltb_spec c (S a + n)),
             (Nat.leb_spec a c), (Nat.ltb_spec c (a + S n)); cbn; lia.
Qed.

Lemma is_write_true c e :
  is_write c true e = match e with EWrite c' true => Nat.eqb c c' | _ => false end.
Proof. destruct e as [c' [|]|d|c']; cbn; rewrite ?andb_true_r, ?andb_false_r; reflexivity. Qed.

Lemma total_ok_count next tr : okwrites_below next tr -> total_ok next tr = count_ev ev_is_okwrite tr.
Proof.
  unfold total_ok. induction tr as [|e r IH]; intros Hb.
  - cbn. rewrite list_sum_map_zero. reflexivity.
  - assert (Hbr : okwrites_below next r) by (intros c Hin; apply Hb; right; exact Hin).
    specialize (IH Hbr). rewrite !count_ev_cons.
    rewrite (map_ext _ (fun c => Nat.b2n (is_write c true e) + count_ev (is_write c true) r))
      by (intros c; apply count_ev_cons).
    rewrite list_sum_map_add.
    enough (Nat.b2n (is_write 0 true e) + Nat.b2n (is_write 1 true e) +
            list_sum (map (fun c => Nat.b2n (is_write c true e)) (seq 2 (next - 2))) =
            Nat.b2n (ev_is_okwrite e)) by lia.
    rewrite (map_ext _ (fun c => Nat.b2n (match e with EWrite c' true => Nat.eqb c c' | _ => false end)))
      by (intros c; rewrite is_write_true; reflexivity).
    rewrite !is_write_true.
    destruct e as [c' [|]|d|c']; cbn [ev_is_okwrite Nat.b2n]; rewrite ?list_sum_map_zero; try reflexivity.
    assert (Hc : c' < next) by (apply Hb; left; reflexivity).
    rewrite sum_eqb_seq.
    destruct (Nat.eqb_spec 0 c'), (Nat.eqb_spec 1 c'), (Nat.leb_spec 2 c'), (Nat.ltb_spec c' (2 + (next - 2)));
      cbn; lia.
Qed.

(* ---- the link, for ALL traces whose accepted writes are on ids below next ---- *)
Theorem C20_trace_judge_implies_obs : forall next tr ok,
  okwrites_below next tr ->
  judge_C20_send tr ok = true -> judge_C20_obs (obs_of_trace next tr ok) = true.
Proof.
  intros next tr ok Hb H. unfold judge_C20_obs, obs_of_trace.
  cbn [so_ok so_dials so_c0 so_c1 so_dialled]. cbv zeta.
  rewrite (cached_ok_counts 0 _ _ H), (cached_ok_counts 1 _ _ H).
  unfold counts_of at 1 2. cbn [cc_ok]. fold (total_ok next tr). rewrite (total_ok_count _ _ Hb).
  apply judge_parts in H. destruct H as (H1 & _ & Hd & _).
  rewrite !andb_true_r, andb_true_iff, Nat.eqb_eq, Nat.leb_le. split.
  - destruct ok; [exact (proj1 H1)|exact H1].
  - pose proof (count_ev_le is_dial_ok ev_is_dial tr) as Hle.
    assert (Hi : forall e, is_dial_ok e = true -> ev_is_dial e = true)
      by (intros [c b|[d|]|c]; cbn; congruence).
    specialize (Hle Hi). lia.
Qed.

Corollary C20_trace_judge_implies_obs_ids : forall next tr ok,
  ids_below next tr = true ->
  judge_C20_send tr ok = true -> judge_C20_obs (obs_of_trace next tr ok) = true.
Proof. intros next tr ok Hb. apply C20_trace_judge_implies_obs, ids_below_okwrites, Hb. Qed.

(* the hypothesis holds for the traces of the model, with next = the counter AFTER the send *)
Theorem C20_ids_below_client : forall f w f' w' tr ok,
  fo_wf f (w_next w) -> failover_send f w = (f', w', tr, ok) -> ids_below (w_next w') tr = true.
Proof. intros f w f' w' tr ok Hf H. apply ids_below_spec. exact (failover_send_ids _ _ _ _ _ _ Hf H). Qed.

Theorem C20_ids_below_backend : forall conn w conn' w' tr ok,
  b_wf conn (w_next w) -> tcp_backend_send conn w = (conn', w', tr, ok) -> ids_below (w_next w') tr = true.
Proof. intros conn w conn' w' tr ok Hf H. apply ids_below_spec. exact (backend_send_ids _ _ _ _ _ _ Hf H). Qed.

(* one send, observed *)
Theorem C20_obs_send_client : forall f w f' w' tr ok,
  fo_wf f (w_next w) -> failover_send f w = (f', w', tr, ok) ->
  judge_C20_obs (obs_of_trace (w_next w') tr ok) = true.
Proof.
  intros f w f' w' tr ok Hf H. apply C20_trace_judge_implies_obs_ids.
  - exact (C20_ids_below_client _ _ _ _ _ _ Hf H).
  - exact (proj1 (failover_send_spec _ _ _ _ _ _ Hf H)).
Qed.

Theorem C20_obs_send_backend : forall conn w conn' w' tr ok,
  b_wf conn (w_next w) -> tcp_backend_send conn w = (conn', w', tr, ok) ->
  judge_C20_obs (obs_of_trace (w_next w') tr ok) = true.
Proof.
  intros conn w conn' w' tr ok Hf H. apply C20_trace_judge_implies_obs_ids.
  - exact (C20_ids_below_backend _ _ _ _ _ _ Hf H).
  - exact (proj1 (backend_send_spec _ _ _ _ _ _ Hf H)).
Qed.

(* ================================================================== what the extracted runner prints *)
(* the observations printed by Run.sendfault_client / Run.sendfault_backend, as data *)
Fixpoint client_obs (plans : list (list conn_script)) (f : failover) (w : world) : list send_obs :=
  match plans with
  | [] => []
  | pl :: r => let '(f', w', tr, ok) := failover_send f (with_plan w pl) in
               obs_of_trace (w_next w') tr ok :: client_obs r f' w'
  end.
Fixpoint backend_obs (plans : list (list conn_script)) (c : option nat) (w : world) : list send_obs :=
  match plans with
  | [] => []
  | pl :: r => let '(c', w', tr, ok) := tcp_backend_send c (with_plan w pl) in
               obs_of_trace (w_next w') tr ok :: backend_obs r c' w'
  end.

Theorem C20_client_obs_printed : forall plans f w,
  sendfault_client plans f w = flat_map e_obs (client_obs plans f w).
Proof.
  induction plans as [|pl r IH]; intros f w; [reflexivity|].
  cbn [sendfault_client client_obs].
  destruct (failover_send f (with_plan w pl)) as [[[f' w'] tr] ok].
  cbn [flat_map]. rewrite IH. reflexivity.
Qed.

Theorem C20_backend_obs_printed : forall plans c w,
  sendfault_backend plans c w = flat_map e_obs (backend_obs plans c w).
Proof.
  induction plans as [|pl r IH]; intros c w; [reflexivity|].
  cbn [sendfault_backend backend_obs].
  destruct (tcp_backend_send c (with_plan w pl)) as [[[c' w'] tr] ok].
  cbn [flat_map]. rewrite IH. reflexivity.
Qed.

(* [w_wf] is not needed (only the ids cached in the state matter); the statements with it follow *)
Theorem C20_obs_judged_client_strong : forall plans f w,
  fo_wf f (w_next w) -> forallb judge_C20_obs (client_obs plans f w) = true.
Proof.
  induction plans as [|pl r IH]; intros f w Hf; [reflexivity|].
  cbn [client_obs]. destruct (failover_send f (with_plan w pl)) as [[[f' w'] tr] ok] eqn:E.
  assert (Hf0 : fo_wf f (w_next (with_plan w pl))) by exact Hf.
  cbn [forallb]. rewrite (C20_obs_send_client _ _ _ _ _ _ Hf0 E).
  apply IH. exact (proj1 (C20_wf_preserved_client _ _ _ _ _ _ Hf0 E)).
Qed.

Theorem C20_obs_judged_backend_strong : forall plans conn w,
  b_wf conn (w_next w) -> forallb judge_C20_obs (backend_obs plans conn w) = true.
Proof.
  induction plans as [|pl r IH]; intros conn w Hf; [reflexivity|].
  cbn [backend_obs]. destruct (tcp_backend_send conn (with_plan w pl)) as [[[c' w'] tr] ok] eqn:E.
  assert (Hf0 : b_wf conn (w_next (with_plan w pl))) by exact Hf.
  cbn [forallb]. rewrite (C20_obs_send_backend _ _ _ _ _ _ Hf0 E).
  apply IH. exact (proj1 (C20_wf_preserved_backend _ _ _ _ _ _ Hf0 E)).
Qed.

Theorem C20_obs_judged_client : forall plans f w,
  w_wf w -> fo_wf f (w_next w) -> forallb judge_C20_obs (client_obs plans f w) = true.
Proof. intros plans f w _ Hf. exact (C20_obs_judged_client_strong plans f w Hf). Qed.

Theorem C20_obs_judged_backend : forall plans conn w,
  w_wf w -> b_wf conn (w_next w) -> forallb judge_C20_obs (backend_obs plans conn w) = true.
Proof. intros plans conn w _ Hf. exact (C20_obs_judged_backend_strong plans conn w Hf). Qed.

(* ================================================================== non-vacuity: concrete worlds *)
(* (a) the cached inbound connection (id 0) fails on write; the secondary dials a fresh one *)
Definition ex_w_stale : world := {| w_conns := [(0, [false])]; w_dials := [Some []]; w_next := 2 |}.
Definition ex_f_stale : failover :=
  {| fo_primary := Some {| tc_conn := Some 0; tc_reconnectable := false |};
     fo_secondary := Some {| tc_conn := None; tc_reconnectable := true |} |}.

Example ex_stale_wf : w_wf ex_w_stale /\ fo_wf ex_f_stale (w_next ex_w_stale).
Proof. split; [intros c s [H|[]]; inv H; cbn; lia|wf_goal]. Qed.

(* the hypotheses of C20_failover / C20_later_direct hold in this world *)
Example ex_stale_hyps :
  fo_primary ex_f_stale = Some {| tc_conn := Some 0; tc_reconnectable := false |} /\
  next_write 0 ex_w_stale = false /\
  fo_secondary ex_f_stale = Some {| tc_conn := None; tc_reconnectable := true |} /\
  w_dials ex_w_stale = Some [] :: [] /\ hd true (@nil bool) = true.
Proof. repeat split. Qed.

Example ex_stale_run :
  let '(f', w', tr, ok) := failover_send ex_f_stale ex_w_stale in
  (tr, ok) = ([EWrite 0 false; EClose 0; EDial (Some 2); EWrite 2 true], true) /\
  (* the later send goes straight to connection 2 *)
  (let '(_, _, tr2, ok2) := failover_send f' (with_plan w' []) in (tr2, ok2) = ([EWrite 2 true], true)).
Proof. vm_compute. split; reflexivity. Qed.

(* the cached connection of a reconnectable client (id 1) fails: same Send re-dials *)
Example ex_client_stale_run :
  let w := {| w_conns := [(1, [false])]; w_dials := [Some []]; w_next := 2 |} in
  let f := {| fo_primary := None; fo_secondary := Some {| tc_conn := Some 1; tc_reconnectable := true |} |} in
  w_wf w /\ fo_wf f (w_next w) /\
  (let '(_, _, tr, ok) := failover_send f w in
   (tr, ok) = ([EWrite 1 false; EClose 1; EDial (Some 2); EWrite 2 true], true)).
Proof.
  split; [intros c s [H|[]]; inv H; cbn; lia|split; [wf_goal|vm_compute; reflexivity]].
Qed.

(* (b) a destination that refuses connections *)
Definition ex_w_refuse : world := {| w_conns := []; w_dials := []; w_next := 2 |}.
Definition ex_f_fresh : failover :=
  {| fo_primary := None; fo_secondary := Some {| tc_conn := None; tc_reconnectable := true |} |}.

Example ex_refuse_hyps :
  w_wf ex_w_refuse /\ fo_wf ex_f_fresh (w_next ex_w_refuse) /\ dial_refused ex_w_refuse /\
  dial_refused (after_dial ex_w_refuse) /\
  primary_id ex_f_fresh = None /\ secondary_id ex_f_fresh = None /\
  dial_refused (with_plan ex_w_refuse []) /\ b_wf None (w_next ex_w_refuse).
Proof.
  split; [intros c s []|]. split; [wf_goal|]. cbn. repeat split. intros c H; discriminate H.
Qed.

Example ex_refuse_run :
  (let '(_, _, tr, ok) := failover_send ex_f_fresh ex_w_refuse in (tr, ok) = ([EDial None], false)) /\
  (let '(_, _, tr, ok) := tcp_backend_send None ex_w_refuse in (tr, ok) = ([EDial None; EDial None], false)).
Proof. vm_compute. split; reflexivity. Qed.

(* (c) the destination accepts the connection, then resets it on the first write *)
Definition ex_w_reset : world := {| w_conns := []; w_dials := [Some [false]; Some []]; w_next := 2 |}.
Definition ex_w_reset2 : world := {| w_conns := []; w_dials := [Some [false]; Some [false]]; w_next := 2 |}.

Example ex_reset_run :
  w_wf ex_w_reset /\ fo_wf ex_f_fresh (w_next ex_w_reset) /\
  (let '(_, _, tr, ok) := failover_send ex_f_fresh ex_w_reset in
   (tr, ok) = ([EDial (Some 2); EWrite 2 false; EClose 2; EDial (Some 3); EWrite 3 true], true)) /\
  (let '(_, _, tr, ok) := tcp_backend_send None ex_w_reset in
   (tr, ok) = ([EDial (Some 2); EWrite 2 false; EClose 2; EDial (Some 3); EWrite 3 true], true)) /\
  (* reset twice: an error, nothing accepted, the loop stops after two dials *)
  (let '(_, _, tr, ok) := failover_send ex_f_fresh ex_w_reset2 in
   (tr, ok) = ([EDial (Some 2); EWrite 2 false; EClose 2; EDial (Some 3); EWrite 3 false; EClose 3], false)).
Proof.
  split; [intros c s []|]. split; [wf_goal|]. vm_compute. repeat split.
Qed.

(* (d) the schedule of the extracted runner: three sends (stale primary + fresh dial, direct,
   direct), all observations judged; backend from a cached connection 0: accepted / cached
   connection and the dialled one both reset (error) / reset then fresh dial / direct *)
Example ex_obs_client :
  let obs := client_obs [[[]]; []; [[false]]] ex_f_stale
               {| w_conns := [(0, [false])]; w_dials := []; w_next := 2 |} in
  map so_ok obs = [true; true; true] /\ map so_dials obs = [1; 0; 0] /\
  forallb judge_C20_obs obs = true.
Proof. vm_compute. repeat split. Qed.

Example ex_obs_client2 :
  let obs := client_obs [[[false]; [false]]; []; [[]]] ex_f_fresh ex_w_refuse in
  map so_ok obs = [false; false; true] /\ map so_dials obs = [2; 0; 1] /\
  forallb judge_C20_obs obs = true.
Proof. vm_compute. repeat split. Qed.

Example ex_obs_backend :
  let w := {| w_conns := [(0, [true; false])]; w_dials := []; w_next := 2 |} in
  let obs := backend_obs [[]; [[false]; []]; [[false]; []]; []] (Some 0) w in
  w_wf w /\ b_wf (Some 0) (w_next w) /\
  map so_ok obs = [true; false; true; true] /\ map so_dials obs = [0; 1; 2; 0] /\
  forallb judge_C20_obs obs = true.
Proof.
  split; [intros c s [H|[]]; inv H; cbn; lia|]. split; [intros c H; inv H; cbn; lia|].
  vm_compute. repeat split.
Qed.

(* ================================================================== axiom check *)
Print Assumptions C20_judged_client.
Print Assumptions C20_judged_backend.
Print Assumptions C20_wf_preserved_client.
Print Assumptions C20_wf_preserved_backend.
Print Assumptions C20_judged_client_seq.
Print Assumptions C20_judged_backend_seq.
Print Assumptions C20_judged_client_plans.
Print Assumptions C20_judged_backend_plans.
Print Assumptions C20_success_means_written.
Print Assumptions C20_error_means_unwritten.
Print Assumptions C20_success_means_written_backend.
Print Assumptions C20_error_means_unwritten_backend.
Print Assumptions failover_send_w_wf.
Print Assumptions backend_send_w_wf.
Print Assumptions C20_failover.
Print Assumptions C20_later_direct.
Print Assumptions C20_refused.
Print Assumptions C20_refused_backend.
Print Assumptions C20_okwrite_count.
Print Assumptions C20_okwrite_count_backend.
Print Assumptions C20_no_dup.
Print Assumptions C20_no_dup_backend.
Print Assumptions C20_trace_judge_implies_obs.
Print Assumptions C20_trace_judge_implies_obs_ids.
Print Assumptions C20_ids_below_client.
Print Assumptions C20_ids_below_backend.
Print Assumptions C20_obs_send_client.
Print Assumptions C20_obs_send_backend.
Print Assumptions C20_client_obs_printed.
Print Assumptions C20_backend_obs_printed.
Print Assumptions C20_obs_judged_client_strong.
Print Assumptions C20_obs_judged_backend_strong.
Print Assumptions C20_obs_judged_client.
Print Assumptions C20_obs_judged_backend.
