(* proofs/C20.v — sending survives connection faults (SendFault.v against SpecC20.v).
   No axioms, no admits. *)
From Coq Require Import List Bool Arith Lia.
From Model Require Import SendFault SpecC20 Run.
Import ListNotations.
Open Scope list_scope.

(* ================================================================== the world *)
(* script still to be played by connection c (first entry with that id) *)
Fixpoint conn_lookup (c : nat) (l : list (nat * conn_script)) : option conn_script :=
  match l with
  | [] => None
  | (c', s) :: r => if Nat.eqb c c' then Some s else conn_lookup c r
  end.
(* result of the next write on connection c *)
Definition next_write (c : nat) (w : world) : bool :=
  match conn_lookup c (w_conns w) with Some (b :: _) => b | _ => true end.
Definition after_write (c : nat) (w : world) : world := fst (w_write c w).
Definition after_dial (w : world) : world := fst (w_dial w).
(* ids of existing connections are below the allocation counter *)
Definition w_wf (w : world) : Prop := forall c s, In (c, s) (w_conns w) -> c < w_next w.

Lemma conn_write_snd c l :
  snd (conn_write c l) = match conn_lookup c l with Some (b :: _) => b | _ => true end.
Proof.
  induction l as [|[c' s] r IH]; cbn; [reflexivity|].
  destruct (Nat.eqb c c').
  - destruct s; reflexivity.
  - destruct (conn_write c r) as [r' ok]; cbn in *. exact IH.
Qed.

Lemma w_write_eq c w : w_write c w = (after_write c w, next_write c w).
Proof.
  unfold after_write, next_write. rewrite <- conn_write_snd.
  unfold w_write. destruct (conn_write c (w_conns w)) as [cs ok]; reflexivity.
Qed.

Lemma conn_write_lookup_other c c' l :
  c <> c' -> conn_lookup c' (fst (conn_write c l)) = conn_lookup c' l.
Proof.
  intros Hne. induction l as [|[c0 s] r IH]; cbn; [reflexivity|].
  destruct (Nat.eqb_spec c c0) as [E|E].
  - subst c0. destruct s; cbn; destruct (Nat.eqb_spec c' c); try congruence; reflexivity.
  - destruct (conn_write c r) as [r' ok]; cbn in *. rewrite IH. reflexivity.
Qed.

Lemma conn_write_ids c l c' s' :
  In (c', s') (fst (conn_write c l)) -> exists s, In (c', s) l.
Proof.
  revert c' s'. induction l as [|[c0 s] r IH]; cbn; intros c' s' H; [contradiction|].
  destruct (Nat.eqb c c0).
  - destruct s; cbn in H; destruct H as [H|H];
      try (inversion H; subst; eexists; left; reflexivity);
      eexists; right; exact H.
  - destruct (conn_write c r) as [r' ok]; cbn in *. destruct H as [H|H].
    + inversion H; subst. eexists; left; reflexivity.
    + destruct (IH _ _ H) as [s0 H0]. eexists; right; exact H0.
Qed.

Lemma after_write_conns c w : w_conns (after_write c w) = fst (conn_write c (w_conns w)).
Proof. unfold after_write, w_write. destruct (conn_write c (w_conns w)); reflexivity. Qed.
Lemma after_write_next c w : w_next (after_write c w) = w_next w.
Proof. unfold after_write, w_write. destruct (conn_write c (w_conns w)); reflexivity. Qed.
Lemma after_write_dials c w : w_dials (after_write c w) = w_dials w.
Proof. unfold after_write, w_write. destruct (conn_write c (w_conns w)); reflexivity. Qed.
Lemma after_write_wf c w : w_wf w -> w_wf (after_write c w).
Proof.
  intros H c' s' Hin. rewrite after_write_next. rewrite after_write_conns in Hin.
  destruct (conn_write_ids _ _ _ _ Hin) as [s Hs]. exact (H _ _ Hs).
Qed.
Lemma next_write_after_other c c' w :
  c <> c' -> next_write c' (after_write c w) = next_write c' w.
Proof.
  intros Hne. unfold next_write. rewrite after_write_conns, conn_write_lookup_other by exact Hne.
  reflexivity.
Qed.

Lemma w_dial_eq w : w_dial w = (after_dial w, snd (w_dial w)).
Proof. unfold after_dial. destruct (w_dial w); reflexivity. Qed.

Lemma w_dial_some w s rest :
  w_dials w = Some s :: rest ->
  w_dial w = ({| w_conns := w_conns w ++ [(w_next w, s)]; w_dials := rest; w_next := S (w_next w) |},
              Some (w_next w)).
Proof. intros H. unfold w_dial. rewrite H. reflexivity. Qed.

(* the next dial attempt is refused *)
Definition dial_refused (w : world) : Prop :=
  match w_dials w with [] | None :: _ => True | Some _ :: _ => False end.
Lemma w_dial_refused w :
  dial_refused w ->
  w_dial w = ({| w_conns := w_conns w; w_dials := tl (w_dials w); w_next := w_next w |}, None).
Proof. unfold dial_refused, w_dial. destruct (w_dials w) as [|[s|] r]; intros H; [reflexivity|contradiction|reflexivity]. Qed.

Lemma after_dial_next_le w : w_next w <= w_next (after_dial w).
Proof. unfold after_dial, w_dial. destruct (w_dials w) as [|[s|] r]; cbn; lia. Qed.

Lemma after_dial_wf w : w_wf w -> w_wf (after_dial w).
Proof.
  intros H c s. unfold after_dial, w_dial. destruct (w_dials w) as [|[s0|] r]; cbn; try apply H.
  intros Hin. apply in_app_or in Hin. destruct Hin as [Hin|[Hin|[]]].
  - specialize (H _ _ Hin). lia.
  - inversion Hin; subst. lia.
Qed.

Lemma conn_lookup_app_fresh c s l :
  (forall s', ~ In (c, s') l) -> conn_lookup c (l ++ [(c, s)]) = Some s.
Proof.
  induction l as [|[c0 s0] r IH]; cbn; intros H.
  - rewrite Nat.eqb_refl. reflexivity.
  - destruct (Nat.eqb_spec c c0) as [E|E].
    + subst. exfalso. apply (H s0). left; reflexivity.
    + apply IH. intros s' Hin. apply (H s'). right; exact Hin.
Qed.

(* the first write on the connection just dialled plays the head of its script *)
Lemma next_write_fresh w s rest :
  w_wf w -> w_dials w = Some s :: rest ->
  next_write (w_next w) (after_dial w) = hd true s.
Proof.
  intros Hwf Hd. unfold after_dial. rewrite (w_dial_some _ _ _ Hd). unfold next_write. cbn.
  rewrite conn_lookup_app_fresh.
  - destruct s; reflexivity.
  - intros s' Hin. specialize (Hwf _ _ Hin). lia.
Qed.

(* ================================================================== TCPClientTransport.Send: one iteration *)
Lemma loop_cached n t w tr c :
  tc_conn t = Some c ->
  tcp_client_send_loop (S n) t w tr =
  if next_write c w then (t, after_write c w, tr ++ [EWrite c true], true)
  else tcp_client_send_loop n {| tc_conn := None; tc_reconnectable := tc_reconnectable t |}
         (after_write c w) (tr ++ [EWrite c false; EClose c]).
Proof.
  intros H. cbn [tcp_client_send_loop]. rewrite H. cbv beta iota. rewrite H, w_write_eq.
  reflexivity.
Qed.

Lemma loop_none_norec n t w tr :
  tc_conn t = None -> tc_reconnectable t = false ->
  tcp_client_send_loop (S n) t w tr = tcp_client_send_loop n t w tr.
Proof.
  intros H1 H2. cbn [tcp_client_send_loop]. rewrite H1, H2. cbv beta iota. rewrite H1. reflexivity.
Qed.

(* a successful dial then behaves like a send on a cached connection, same iteration *)
Lemma loop_none_rec n t w tr :
  tc_conn t = None -> tc_reconnectable t = true ->
  tcp_client_send_loop (S n) t w tr =
  match snd (w_dial w) with
  | Some c => tcp_client_send_loop (S n) {| tc_conn := Some c; tc_reconnectable := true |}
                (after_dial w) (tr ++ [EDial (Some c)])
  | None => (t, after_dial w, tr ++ [EDial None], false)
  end.
Proof.
  intros H1 H2. cbn [tcp_client_send_loop]. rewrite H1, H2, w_dial_eq.
  destruct (snd (w_dial w)) as [c|]; cbn [tc_conn snd fst]; reflexivity.
Qed.

Lemma w_dial_cases w :
  (snd (w_dial w) = None /\ w_next (after_dial w) = w_next w) \/
  (snd (w_dial w) = Some (w_next w) /\ w_next (after_dial w) = S (w_next w)).
Proof. unfold after_dial, w_dial. destruct (w_dials w) as [|[s|] r]; cbn; auto. Qed.

(* ================================================================== shape of the trace of one Send *)
(* [dshape rec k n t' n' tr ok]: what k iterations starting WITHOUT a connection can do when
   the next connection id is n : final client, final next id, events, verdict *)
Inductive dshape : bool -> nat -> nat -> tcp_client -> nat -> list io_event -> bool -> Prop :=
| ds_norec k n : dshape false k n {| tc_conn := None; tc_reconnectable := false |} n [] false
| ds_zero n : dshape true 0 n {| tc_conn := None; tc_reconnectable := true |} n [] false
| ds_refused k n :
    dshape true (S k) n {| tc_conn := None; tc_reconnectable := true |} n [EDial None] false
| ds_ok k n :
    dshape true (S k) n {| tc_conn := Some n; tc_reconnectable := true |} (S n)
           [EDial (Some n); EWrite n true] true
| ds_fail k n t' n' tr ok :
    dshape true k (S n) t' n' tr ok ->
    dshape true (S k) n t' n' ([EDial (Some n); EWrite n false; EClose n] ++ tr) ok.

Lemma loop_norec k w tr0 :
  tcp_client_send_loop k {| tc_conn := None; tc_reconnectable := false |} w tr0 =
  ({| tc_conn := None; tc_reconnectable := false |}, w, tr0, false).
Proof. induction k as [|k IH]; [reflexivity|]. rewrite loop_none_norec by reflexivity. exact IH. Qed.

Lemma loop_dshape k : forall rec w tr0 t' w' tr' ok,
  tcp_client_send_loop k {| tc_conn := None; tc_reconnectable := rec |} w tr0 = (t', w', tr', ok) ->
  exists ext, tr' = tr0 ++ ext /\ dshape rec k (w_next w) t' (w_next w') ext ok.
Proof.
  induction k as [|k IH]; intros rec w tr0 t' w' tr' ok H.
  - cbn in H. inversion H; subst. exists []. rewrite app_nil_r. split; [reflexivity|].
    destruct rec; constructor.
  - destruct rec.
    + rewrite loop_none_rec in H by reflexivity.
      destruct (w_dial_cases w) as [[E En]|[E En]]; rewrite E in H.
      * inversion H; subst. exists [EDial None]. split; [reflexivity|]. rewrite En. constructor.
      * rewrite (loop_cached _ _ _ _ (w_next w)) in H by reflexivity.
        destruct (next_write (w_next w) (after_dial w)).
        -- inversion H; subst. exists [EDial (Some (w_next w)); EWrite (w_next w) true].
           rewrite <- app_assoc. split; [reflexivity|]. rewrite after_write_next, En. constructor.
        -- cbn [tc_reconnectable] in H. apply IH in H. destruct H as [ext [-> Hs]].
           exists ([EDial (Some (w_next w)); EWrite (w_next w) false; EClose (w_next w)] ++ ext).
           rewrite <- !app_assoc. split; [reflexivity|]. apply ds_fail.
           rewrite after_write_next, En in Hs. exact Hs.
    + rewrite loop_norec in H. inversion H; subst. exists []. rewrite app_nil_r.
      split; [reflexivity|]. constructor.
Qed.

(* one TCPClientTransport.Send *)
Inductive cshape (t : tcp_client) (n : nat) : tcp_client -> nat -> list io_event -> bool -> Prop :=
| cs_ok c : tc_conn t = Some c -> cshape t n t n [EWrite c true] true
| cs_fail c t' n' tr ok :
    tc_conn t = Some c -> dshape (tc_reconnectable t) 1 n t' n' tr ok ->
    cshape t n t' n' ([EWrite c false; EClose c] ++ tr) ok
| cs_none t' n' tr ok :
    tc_conn t = None -> dshape (tc_reconnectable t) 2 n t' n' tr ok -> cshape t n t' n' tr ok.

Lemma client_shape t w t' w' tr ok :
  tcp_client_send t w = (t', w', tr, ok) -> cshape t (w_next w) t' (w_next w') tr ok.
Proof.
  unfold tcp_client_send. destruct t as [[c|] rec]; intros H.
  - rewrite (loop_cached _ _ _ _ c) in H by reflexivity. destruct (next_write c w).
    + inversion H; subst. rewrite after_write_next. apply cs_ok. reflexivity.
    + apply loop_dshape in H. destruct H as [ext [-> Hs]]. rewrite after_write_next in Hs.
      eapply cs_fail; [reflexivity|exact Hs].
  - apply loop_dshape in H. destruct H as [ext [-> Hs]]. apply cs_none; [reflexivity|exact Hs].
Qed.

Ltac inv H := inversion H; clear H; subst.
Ltac shapes :=
  repeat match goal with
  | H : cshape _ _ _ _ _ _ |- _ => inv H
  | H : dshape _ _ _ _ _ _ _ |- _ => inv H
  | H : tc_conn _ = _ |- _ => cbn in H; first [discriminate H | inv H]
  end.
Ltac eqbs :=
  repeat match goal with
  | |- context [Nat.eqb ?a ?b] => destruct (Nat.eqb_spec a b); try lia; cbn
  end.

(* ================================================================== well-formed failover state *)
Definition primary_id (f : failover) : option nat :=
  match fo_primary f with Some p => tc_conn p | None => None end.
Definition secondary_id (f : failover) : option nat :=
  match fo_secondary f with Some s => tc_conn s | None => None end.
(* the primary (an inbound connection) cannot be re-dialled; cached connection ids are already
   allocated (below the counter n, so that a dialled id is new) and pairwise distinct *)
Definition fo_wf (f : failover) (n : nat) : Prop :=
  (forall p, fo_primary f = Some p -> tc_reconnectable p = false) /\
  (forall c, primary_id f = Some c -> c < n) /\
  (forall d, secondary_id f = Some d -> d < n) /\
  (forall c d, primary_id f = Some c -> secondary_id f = Some d -> c <> d).

Ltac wf_facts :=
  repeat match goal with
  | H : forall x, Some ?a = Some x -> _ |- _ => specialize (H _ eq_refl)
  | H : forall x, None = Some x -> _ |- _ => clear H
  | H : forall x y, Some ?a = Some x -> Some ?b = Some y -> _ |- _ => specialize (H _ _ eq_refl eq_refl)
  | H : forall x y, None = Some x -> _ |- _ => clear H
  | H : forall x y, _ = Some x -> None = Some y -> _ |- _ => clear H
  end.
Ltac wf_goal :=
  unfold fo_wf, primary_id, secondary_id; cbn;
  repeat split; intros;
  repeat match goal with
  | H : Some _ = Some _ |- _ => inv H
  | H : None = Some _ |- _ => discriminate H
  end; cbn in *; try reflexivity; try lia.

Theorem failover_send_spec f w f' w' tr ok :
  fo_wf f (w_next w) -> failover_send f w = (f', w', tr, ok) ->
  judge_C20_send tr ok = true /\ fo_wf f' (w_next w') /\ w_next w <= w_next w'.
Proof.
  intros (Hrec & Hc & Hd & Hcd) H. unfold failover_send in H.
  destruct f as [[[[c|] prec]|] [[[d|] srec]|]]; unfold primary_id, secondary_id in *;
    cbn [fo_primary fo_secondary tc_conn tc_reconnectable] in *;
    wf_facts; cbn [tc_reconnectable] in *; subst;
    repeat match type of H with
    | context [tcp_client_send ?t ?w] =>
        let E := fresh "E" in
        destruct (tcp_client_send t w) as [[[? ?] ?] []] eqn:E; apply client_shape in E;
        cbn [fo_primary fo_secondary] in H
    end; inv H; shapes; cbn in *; wf_facts.
  all: split; [unfold judge_C20_send; cbn; eqbs; reflexivity | split; [wf_goal | lia]].
Qed.

(* ================================================================== TCPBackend.Send *)
Lemma bloop_cached n c w tr :
  tcp_backend_send_loop (S n) (Some c) w tr =
  if next_write c w then (Some c, after_write c w, tr ++ [EWrite c true], true)
  else tcp_backend_send_loop n None (after_write c w) (tr ++ [EWrite c false; EClose c]).
Proof. cbn [tcp_backend_send_loop]. rewrite w_write_eq. reflexivity. Qed.

(* a refused dial does not abort: the loop goes on to its next iteration *)
Lemma bloop_none n w tr :
  tcp_backend_send_loop (S n) None w tr =
  match snd (w_dial w) with
  | Some c => tcp_backend_send_loop (S n) (Some c) (after_dial w) (tr ++ [EDial (Some c)])
  | None => tcp_backend_send_loop n None (after_dial w) (tr ++ [EDial None])
  end.
Proof.
  cbn [tcp_backend_send_loop]. rewrite w_dial_eq.
  destruct (snd (w_dial w)) as [c|]; cbn [snd fst]; reflexivity.
Qed.

Inductive bshape : nat -> option nat -> nat -> option nat -> nat -> list io_event -> bool -> Prop :=
| bs_zero conn n : bshape 0 conn n conn n [] false
| bs_ok k c n : bshape (S k) (Some c) n (Some c) n [EWrite c true] true
| bs_fail k c n conn' n' tr ok :
    bshape k None n conn' n' tr ok ->
    bshape (S k) (Some c) n conn' n' ([EWrite c false; EClose c] ++ tr) ok
| bs_refused k n conn' n' tr ok :
    bshape k None n conn' n' tr ok -> bshape (S k) None n conn' n' (EDial None :: tr) ok
| bs_dial k n conn' n' tr ok :
    bshape (S k) (Some n) (S n) conn' n' tr ok ->
    bshape (S k) None n conn' n' (EDial (Some n) :: tr) ok.

Lemma bloop_shape k : forall conn w tr0 conn' w' tr' ok,
  tcp_backend_send_loop k conn w tr0 = (conn', w', tr', ok) ->
  exists ext, tr' = tr0 ++ ext /\ bshape k conn (w_next w) conn' (w_next w') ext ok.
Proof.
  induction k as [|k IH]; intros conn w tr0 conn' w' tr' ok H.
  - cbn in H. inv H. exists []. rewrite app_nil_r. split; [reflexivity|constructor].
  - destruct conn as [c|].
    + rewrite bloop_cached in H. destruct (next_write c w).
      * inv H. exists [EWrite c true]. split; [reflexivity|]. rewrite after_write_next. constructor.
      * apply IH in H. destruct H as [ext [-> Hs]]. rewrite after_write_next in Hs.
        exists ([EWrite c false; EClose c] ++ ext). rewrite <- app_assoc.
        split; [reflexivity|]. constructor. exact Hs.
    + rewrite bloop_none in H. destruct (w_dial_cases w) as [[E En]|[E En]]; rewrite E in H.
      * apply IH in H. destruct H as [ext [-> Hs]]. rewrite En in Hs.
        exists (EDial None :: ext). rewrite <- app_assoc. split; [reflexivity|]. constructor. exact Hs.
      * rewrite bloop_cached in H. destruct (next_write (w_next w) (after_dial w)).
        -- inv H. exists [EDial (Some (w_next w)); EWrite (w_next w) true]. rewrite <- app_assoc.
           split; [reflexivity|]. rewrite after_write_next, En. apply bs_dial. constructor.
        -- apply IH in H. destruct H as [ext [-> Hs]]. rewrite after_write_next, En in Hs.
           exists (EDial (Some (w_next w)) :: [EWrite (w_next w) false; EClose (w_next w)] ++ ext).
           rewrite <- !app_assoc. split; [reflexivity|]. apply bs_dial. constructor. exact Hs.
Qed.

Definition b_wf (conn : option nat) (n : nat) : Prop := forall c, conn = Some c -> c < n.

Theorem backend_send_spec conn w conn' w' tr ok :
  b_wf conn (w_next w) -> tcp_backend_send conn w = (conn', w', tr, ok) ->
  judge_C20_send tr ok = true /\ b_wf conn' (w_next w') /\ w_next w <= w_next w'.
Proof.
  unfold b_wf, tcp_backend_send. intros Hc H. apply bloop_shape in H.
  destruct H as [ext [-> Hs]]. cbn [app].
  destruct conn as [c|]; wf_facts;
    repeat match goal with H : bshape _ _ _ _ _ _ _ |- _ => inv H end.
  all: split; [unfold judge_C20_send; cbn; eqbs; reflexivity
              | split; [intros ? Heq; try discriminate Heq; inv Heq; lia | lia]].
Qed.

(* ================================================================== C20_judged_* *)
Theorem C20_judged_client : forall f w,
  fo_wf f (w_next w) ->
  let '(_, _, tr, ok) := failover_send f w in judge_C20_send tr ok = true.
Proof.
  intros f w Hwf. destruct (failover_send f w) as [[[f' w'] tr] ok] eqn:E.
  exact (proj1 (failover_send_spec _ _ _ _ _ _ Hwf E)).
Qed.

Theorem C20_judged_backend : forall conn w,
  b_wf conn (w_next w) ->
  let '(_, _, tr, ok) := tcp_backend_send conn w in judge_C20_send tr ok = true.
Proof.
  intros conn w Hwf. destruct (tcp_backend_send conn w) as [[[c' w'] tr] ok] eqn:E.
  exact (proj1 (backend_send_spec _ _ _ _ _ _ Hwf E)).
Qed.

(* the well-formedness is an invariant of a send *)
Theorem C20_wf_preserved_client : forall f w f' w' tr ok,
  fo_wf f (w_next w) -> failover_send f w = (f', w', tr, ok) ->
  fo_wf f' (w_next w') /\ w_next w <= w_next w'.
Proof. intros f w f' w' tr ok Hwf E. exact (proj2 (failover_send_spec _ _ _ _ _ _ Hwf E)). Qed.

Theorem C20_wf_preserved_backend : forall conn w conn' w' tr ok,
  b_wf conn (w_next w) -> tcp_backend_send conn w = (conn', w', tr, ok) ->
  b_wf conn' (w_next w') /\ w_next w <= w_next w'.
Proof. intros conn w c' w' tr ok Hwf E. exact (proj2 (backend_send_spec _ _ _ _ _ _ Hwf E)). Qed.

Theorem C20_judged_client_seq : forall k f w,
  fo_wf f (w_next w) -> judge_C20 (failover_sends k f w) = true.
Proof.
  induction k as [|k IH]; intros f w Hwf; [reflexivity|].
  cbn [failover_sends]. destruct (failover_send f w) as [[[f' w'] tr] ok] eqn:E.
  destruct (failover_send_spec _ _ _ _ _ _ Hwf E) as (Hj & Hwf' & _).
  cbn. rewrite Hj. apply IH. exact Hwf'.
Qed.

Theorem C20_judged_backend_seq : forall k conn w,
  b_wf conn (w_next w) -> judge_C20 (backend_sends k conn w) = true.
Proof.
  induction k as [|k IH]; intros conn w Hwf; [reflexivity|].
  cbn [backend_sends]. destruct (tcp_backend_send conn w) as [[[c' w'] tr] ok] eqn:E.
  destruct (backend_send_spec _ _ _ _ _ _ Hwf E) as (Hj & Hwf' & _).
  cbn. rewrite Hj. apply IH. exact Hwf'.
Qed.

(* the same along the schedule used by Run.run_sendfault: before each send the dial results
   of that send are installed with [with_plan] *)
Fixpoint client_traces (plans : list (list conn_script)) (f : failover) (w : world)
  : list (list io_event * bool) :=
  match plans with
  | [] => []
  | pl :: r => let '(f', w', tr, ok) := failover_send f (with_plan w pl) in
               (tr, ok) :: client_traces r f' w'
  end.
Fixpoint backend_traces (plans : list (list conn_script)) (c : option nat) (w : world)
  : list (list io_event * bool) :=
  match plans with
  | [] => []
  | pl :: r => let '(c', w', tr, ok) := tcp_backend_send c (with_plan w pl) in
               (tr, ok) :: backend_traces r c' w'
  end.

Theorem C20_judged_client_plans : forall plans f w,
  fo_wf f (w_next w) -> judge_C20 (client_traces plans f w) = true.
Proof.
  induction plans as [|pl r IH]; intros f w Hwf; [reflexivity|].
  cbn [client_traces]. destruct (failover_send f (with_plan w pl)) as [[[f' w'] tr] ok] eqn:E.
  destruct (failover_send_spec _ (with_plan w pl) _ _ _ _ Hwf E) as (Hj & Hwf' & _).
  cbn. rewrite Hj. apply IH. exact Hwf'.
Qed.

Theorem C20_judged_backend_plans : forall plans conn w,
  b_wf conn (w_next w) -> judge_C20 (backend_traces plans conn w) = true.
Proof.
  induction plans as [|pl r IH]; intros conn w Hwf; [reflexivity|].
  cbn [backend_traces]. destruct (tcp_backend_send conn (with_plan w pl)) as [[[c' w'] tr] ok] eqn:E.
  destruct (backend_send_spec _ (with_plan w pl) _ _ _ _ Hwf E) as (Hj & Hwf' & _).
  cbn. rewrite Hj. apply IH. exact Hwf'.
Qed.

(* ================================================================== success = written exactly once *)
Definition no_okwrite (l : list io_event) : Prop := forall c, ~ In (EWrite c true) l.
(* what a send appends to the trace, according to its verdict *)
Definition ext_ok (ext : list io_event) (ok : bool) : Prop :=
  if ok then exists pre c, ext = pre ++ [EWrite c true] /\ no_okwrite pre
  else no_okwrite ext.

Ltac nook := let c := fresh "c" in let H := fresh "H" in
  intros c H; cbn in H; intuition discriminate.

Lemma no_okwrite_app a b : no_okwrite a -> no_okwrite b -> no_okwrite (a ++ b).
Proof. intros Ha Hb c Hin. apply in_app_or in Hin. destruct Hin; [eapply Ha|eapply Hb]; eassumption. Qed.

Lemma ext_ok_prefix pre ext ok : no_okwrite pre -> ext_ok ext ok -> ext_ok (pre ++ ext) ok.
Proof.
  destruct ok; cbn; intros Hp He.
  - destruct He as (mid & c & -> & Hm). exists (pre ++ mid), c. rewrite app_assoc.
    split; [reflexivity|]. apply no_okwrite_app; assumption.
  - apply no_okwrite_app; assumption.
Qed.

Lemma loop_ext n : forall t w tr0 t' w' tr' ok,
  tcp_client_send_loop n t w tr0 = (t', w', tr', ok) ->
  exists ext, tr' = tr0 ++ ext /\ ext_ok ext ok.
Proof.
  induction n as [|n IH]; intros t w tr0 t' w' tr' ok H.
  - cbn in H. inv H. exists []. rewrite app_nil_r. split; [reflexivity|nook].
  - destruct t as [[d|] rec].
    + rewrite (loop_cached _ _ _ _ d) in H by reflexivity. destruct (next_write d w).
      * inv H. exists [EWrite d true]. split; [reflexivity|]. exists [], d. split; [reflexivity|nook].
      * apply IH in H. destruct H as (ext & -> & Hx). exists ([EWrite d false; EClose d] ++ ext).
        rewrite <- app_assoc. split; [reflexivity|]. apply ext_ok_prefix; [nook|exact Hx].
    + destruct rec.
      * rewrite loop_none_rec in H by reflexivity. destruct (snd (w_dial w)) as [c|].
        -- rewrite (loop_cached _ _ _ _ c) in H by reflexivity.
           destruct (next_write c (after_dial w)).
           ++ inv H. exists [EDial (Some c); EWrite c true]. rewrite <- app_assoc.
              split; [reflexivity|]. exists [EDial (Some c)], c. split; [reflexivity|nook].
           ++ apply IH in H. destruct H as (ext & -> & Hx).
              exists ([EDial (Some c); EWrite c false; EClose c] ++ ext). rewrite <- !app_assoc.
              split; [reflexivity|]. apply ext_ok_prefix; [nook|exact Hx].
        -- inv H. exists [EDial None]. split; [reflexivity|nook].
      * rewrite loop_norec in H. inv H. exists []. rewrite app_nil_r. split; [reflexivity|nook].
Qed.

Lemma bloop_ext n : forall conn w tr0 conn' w' tr' ok,
  tcp_backend_send_loop n conn w tr0 = (conn', w', tr', ok) ->
  exists ext, tr' = tr0 ++ ext /\ ext_ok ext ok.
Proof.
  induction n as [|n IH]; intros conn w tr0 conn' w' tr' ok H.
  - cbn in H. inv H. exists []. rewrite app_nil_r. split; [reflexivity|nook].
  - destruct conn as [d|].
    + rewrite bloop_cached in H. destruct (next_write d w).
      * inv H. exists [EWrite d true]. split; [reflexivity|]. exists [], d. split; [reflexivity|nook].
      * apply IH in H. destruct H as (ext & -> & Hx). exists ([EWrite d false; EClose d] ++ ext).
        rewrite <- app_assoc. split; [reflexivity|]. apply ext_ok_prefix; [nook|exact Hx].
    + rewrite bloop_none in H. destruct (snd (w_dial w)) as [c|].
      * rewrite bloop_cached in H. destruct (next_write c (after_dial w)).
        -- inv H. exists [EDial (Some c); EWrite c true]. rewrite <- app_assoc.
           split; [reflexivity|]. exists [EDial (Some c)], c. split; [reflexivity|nook].
        -- apply IH in H. destruct H as (ext & -> & Hx).
           exists ([EDial (Some c); EWrite c false; EClose c] ++ ext). rewrite <- !app_assoc.
           split; [reflexivity|]. apply ext_ok_prefix; [nook|exact Hx].
      * apply IH in H. destruct H as (ext & -> & Hx). exists ([EDial None] ++ ext).
        rewrite <- app_assoc. split; [reflexivity|]. apply ext_ok_prefix; [nook|exact Hx].
Qed.

Lemma client_ext t w t' w' tr ok :
  tcp_client_send t w = (t', w', tr, ok) -> ext_ok tr ok.
Proof. intros H. apply loop_ext in H. destruct H as (ext & -> & Hx). exact Hx. Qed.

(* no hypothesis at all on the state or the world *)
Theorem failover_ext_ok f w f' w' tr ok :
  failover_send f w = (f', w', tr, ok) -> ext_ok tr ok.
Proof.
  unfold failover_send. intros H.
  destruct (fo_primary f) as [p|].
  - destruct (tcp_client_send p w) as [[[p' w1] tr1] ok1] eqn:E1. apply client_ext in E1.
    destruct ok1.
    + inv H. exact E1.
    + cbn [fo_secondary] in H. destruct (fo_secondary f) as [s|].
      * destruct (tcp_client_send s w1) as [[[s' w2] tr2] ok2] eqn:E2. apply client_ext in E2.
        inv H. apply ext_ok_prefix; assumption.
      * inv H. exact E1.
  - destruct (fo_secondary f) as [s|].
    + destruct (tcp_client_send s w) as [[[s' w2] tr2] ok2] eqn:E2. apply client_ext in E2.
      inv H. exact E2.
    + inv H. nook.
Qed.

Theorem C20_success_means_written : forall f w f' w' tr,
  failover_send f w = (f', w', tr, true) ->
  exists pre c, tr = pre ++ [EWrite c true] /\ (forall c', ~ In (EWrite c' true) pre).
Proof. intros f w f' w' tr H. exact (failover_ext_ok _ _ _ _ _ _ H). Qed.

Theorem C20_error_means_unwritten : forall f w f' w' tr,
  failover_send f w = (f', w', tr, false) -> forall c, ~ In (EWrite c true) tr.
Proof. intros f w f' w' tr H. exact (failover_ext_ok _ _ _ _ _ _ H). Qed.

Theorem C20_success_means_written_backend : forall conn w conn' w' tr,
  tcp_backend_send conn w = (conn', w', tr, true) ->
  exists pre c, tr = pre ++ [EWrite c true] /\ (forall c', ~ In (EWrite c' true) pre).
Proof.
  intros conn w conn' w' tr H. apply bloop_ext in H. destruct H as (ext & -> & Hx). exact Hx.
Qed.

Theorem C20_error_means_unwritten_backend : forall conn w conn' w' tr,
  tcp_backend_send conn w = (conn', w', tr, false) -> forall c, ~ In (EWrite c true) tr.
Proof.
  intros conn w conn' w' tr H. apply bloop_ext in H. destruct H as (ext & -> & Hx). exact Hx.
Qed.

(* ================================================================== the world invariant along sends *)
Lemma loop_wf n : forall t w tr0 t' w' tr' ok,
  w_wf w -> tcp_client_send_loop n t w tr0 = (t', w', tr', ok) -> w_wf w'.
Proof.
  induction n as [|n IH]; intros t w tr0 t' w' tr' ok Hw H.
  - cbn in H. inv H. exact Hw.
  - destruct t as [[d|] rec].
    + rewrite (loop_cached _ _ _ _ d) in H by reflexivity. destruct (next_write d w).
      * inv H. apply after_write_wf, Hw.
      * eapply IH; [|exact H]. apply after_write_wf, Hw.
    + destruct rec.
      * rewrite loop_none_rec in H by reflexivity. destruct (snd (w_dial w)) as [c|].
        -- rewrite (loop_cached _ _ _ _ c) in H by reflexivity.
           destruct (next_write c (after_dial w)).
           ++ inv H. apply after_write_wf, after_dial_wf, Hw.
           ++ eapply IH; [|exact H]. apply after_write_wf, after_dial_wf, Hw.
        -- inv H. apply after_dial_wf, Hw.
      * rewrite loop_norec in H. inv H. exact Hw.
Qed.

Lemma bloop_wf n : forall conn w tr0 conn' w' tr' ok,
  w_wf w -> tcp_backend_send_loop n conn w tr0 = (conn', w', tr', ok) -> w_wf w'.
Proof.
  induction n as [|n IH]; intros conn w tr0 conn' w' tr' ok Hw H.
  - cbn in H. inv H. exact Hw.
  - destruct conn as [d|].
    + rewrite bloop_cached in H. destruct (next_write d w).
      * inv H. apply after_write_wf, Hw.
      * eapply IH; [|exact H]. apply after_write_wf, Hw.
    + rewrite bloop_none in H. destruct (snd (w_dial w)) as [c|].
      * rewrite bloop_cached in H. destruct (next_write c (after_dial w)).
        -- inv H. apply after_write_wf, after_dial_wf, Hw.
        -- eapply IH; [|exact H]. apply after_write_wf, after_dial_wf, Hw.
      * eapply IH; [|exact H]. apply after_dial_wf, Hw.
Qed.

Theorem failover_send_w_wf f w f' w' tr ok :
  w_wf w -> failover_send f w = (f', w', tr, ok) -> w_wf w'.
Proof.
  unfold failover_send, tcp_client_send. intros Hw H.
  destruct (fo_primary f) as [p|].
  - destruct (tcp_client_send_loop 2 p w []) as [[[p' w1] tr1] ok1] eqn:E1.
    apply loop_wf in E1; [|exact Hw]. destruct ok1.
    + inv H. exact E1.
    + cbn [fo_secondary] in H. destruct (fo_secondary f) as [s|].
      * destruct (tcp_client_send_loop 2 s w1 []) as [[[s' w2] tr2] ok2] eqn:E2.
        apply loop_wf in E2; [|exact E1]. inv H. exact E2.
      * inv H. exact E1.
  - destruct (fo_secondary f) as [s|].
    + destruct (tcp_client_send_loop 2 s w []) as [[[s' w2] tr2] ok2] eqn:E2.
      apply loop_wf in E2; [|exact Hw]. inv H. exact E2.
    + inv H. exact Hw.
Qed.

Theorem backend_send_w_wf conn w conn' w' tr ok :
  w_wf w -> tcp_backend_send conn w = (conn', w', tr, ok) -> w_wf w'.
Proof. intros Hw H. eapply bloop_wf; [exact Hw|exact H]. Qed.

Lemma with_plan_wf w pl : w_wf w -> w_wf (with_plan w pl).
Proof. intros H. exact H. Qed.

(* ================================================================== decomposition of FailOver.Send *)
Lemma client_cached_ok t c w :
  tc_conn t = Some c -> next_write c w = true ->
  tcp_client_send t w = (t, after_write c w, [EWrite c true], true).
Proof.
  intros Hc Hn. unfold tcp_client_send. rewrite (loop_cached _ _ _ _ c) by exact Hc.
  rewrite Hn. reflexivity.
Qed.

Lemma client_norec_fail t c w :
  tc_conn t = Some c -> tc_reconnectable t = false -> next_write c w = false ->
  tcp_client_send t w =
  ({| tc_conn := None; tc_reconnectable := false |}, after_write c w, [EWrite c false; EClose c], false).
Proof.
  intros Hc Hr Hn. unfold tcp_client_send. rewrite (loop_cached _ _ _ _ c) by exact Hc.
  rewrite Hn, Hr, loop_norec. reflexivity.
Qed.

Lemma failover_primary_none f w :
  fo_primary f = None ->
  failover_send f w =
  match fo_secondary f with
  | Some s => let '(s', w2, tr2, ok) := tcp_client_send s w in
              ({| fo_primary := None; fo_secondary := Some s' |}, w2, tr2, ok)
  | None => (f, w, [], false)
  end.
Proof.
  intros H. unfold failover_send. rewrite H. destruct (fo_secondary f) as [s|]; [|reflexivity].
  destruct (tcp_client_send s w) as [[[s' w2] tr2] ok]. rewrite H. reflexivity.
Qed.

Lemma failover_primary_ok f w p c :
  fo_primary f = Some p -> tc_conn p = Some c -> next_write c w = true ->
  failover_send f w =
  ({| fo_primary := Some p; fo_secondary := fo_secondary f |}, after_write c w, [EWrite c true], true).
Proof.
  intros Hp Hc Hn. unfold failover_send. rewrite Hp, (client_cached_ok _ _ _ Hc Hn). reflexivity.
Qed.

Lemma failover_primary_fail f w p c :
  fo_primary f = Some p -> tc_conn p = Some c -> tc_reconnectable p = false ->
  next_write c w = false ->
  failover_send f w =
  match fo_secondary f with
  | Some s => let '(s', w2, tr2, ok) := tcp_client_send s (after_write c w) in
              ({| fo_primary := None; fo_secondary := Some s' |}, w2,
               [EWrite c false; EClose c] ++ tr2, ok)
  | None => ({| fo_primary := None; fo_secondary := None |}, after_write c w,
             [EWrite c false; EClose c], false)
  end.
Proof.
  intros Hp Hc Hr Hn. unfold failover_send. rewrite Hp, (client_norec_fail _ _ _ Hc Hr Hn).
  cbn [fo_secondary fo_primary]. destruct (fo_secondary f) as [s|]; reflexivity.
Qed.

(* ---- one iteration that has to dial ---- *)
Lemma after_dial_some_next w s rest :
  w_dials w = Some s :: rest -> w_next (after_dial w) = S (w_next w) /\ w_dials (after_dial w) = rest.
Proof. intros H. unfold after_dial. rewrite (w_dial_some _ _ _ H). split; reflexivity. Qed.

Lemma snd_dial_some w s rest : w_dials w = Some s :: rest -> snd (w_dial w) = Some (w_next w).
Proof. intros H. rewrite (w_dial_some _ _ _ H). reflexivity. Qed.

Lemma loop_dial_ok n w tr s rest :
  w_wf w -> w_dials w = Some s :: rest -> hd true s = true ->
  tcp_client_send_loop (S n) {| tc_conn := None; tc_reconnectable := true |} w tr =
  ({| tc_conn := Some (w_next w); tc_reconnectable := true |},
   after_write (w_next w) (after_dial w), tr ++ [EDial (Some (w_next w)); EWrite (w_next w) true], true).
Proof.
  intros Hw Hd Hs. rewrite loop_none_rec by reflexivity. rewrite (snd_dial_some _ _ _ Hd).
  rewrite (loop_cached _ _ _ _ (w_next w)) by reflexivity.
  rewrite (next_write_fresh _ _ _ Hw Hd), Hs, <- app_assoc. reflexivity.
Qed.

Lemma loop_dial_fail n w tr s rest :
  w_wf w -> w_dials w = Some s :: rest -> hd true s = false ->
  tcp_client_send_loop (S n) {| tc_conn := None; tc_reconnectable := true |} w tr =
  tcp_client_send_loop n {| tc_conn := None; tc_reconnectable := true |}
    (after_write (w_next w) (after_dial w))
    (tr ++ [EDial (Some (w_next w)); EWrite (w_next w) false; EClose (w_next w)]).
Proof.
  intros Hw Hd Hs. rewrite loop_none_rec by reflexivity. rewrite (snd_dial_some _ _ _ Hd).
  rewrite (loop_cached _ _ _ _ (w_next w)) by reflexivity.
  rewrite (next_write_fresh _ _ _ Hw Hd), Hs, <- app_assoc. reflexivity.
Qed.

(* fresh reconnectable path: no cached connection, the dial yields a healthy connection *)
Lemma client_fresh w s rest :
  w_wf w -> w_dials w = Some s :: rest -> hd true s = true ->
  tcp_client_send {| tc_conn := None; tc_reconnectable := true |} w =
  ({| tc_conn := Some (w_next w); tc_reconnectable := true |},
   after_write (w_next w) (after_dial w), [EDial (Some (w_next w)); EWrite (w_next w) true], true).
Proof. intros Hw Hd Hs. unfold tcp_client_send. rewrite (loop_dial_ok _ _ _ _ _ Hw Hd Hs). reflexivity. Qed.

(* stale cached connection failing once, then a healthy dialled connection *)
Lemma client_stale d w s rest :
  w_wf w -> next_write d w = false -> w_dials w = Some s :: rest -> hd true s = true ->
  tcp_client_send {| tc_conn := Some d; tc_reconnectable := true |} w =
  ({| tc_conn := Some (w_next w); tc_reconnectable := true |},
   after_write (w_next w) (after_dial (after_write d w)),
   [EWrite d false; EClose d; EDial (Some (w_next w)); EWrite (w_next w) true], true).
Proof.
  intros Hw Hn Hd Hs. unfold tcp_client_send. rewrite (loop_cached _ _ _ _ d) by reflexivity.
  rewrite Hn. cbn [tc_reconnectable].
  assert (Hd' : w_dials (after_write d w) = Some s :: rest) by (rewrite after_write_dials; exact Hd).
  rewrite (loop_dial_ok _ _ _ _ _ (after_write_wf d w Hw) Hd' Hs), after_write_next. reflexivity.
Qed.

(* ================================================================== C20_failover / C20_later_direct *)
Theorem C20_failover : forall f w p c s rest,
  w_wf w -> fo_wf f (w_next w) ->
  fo_primary f = Some p -> tc_conn p = Some c -> next_write c w = false ->
  fo_secondary f = Some {| tc_conn := None; tc_reconnectable := true |} ->
  w_dials w = Some s :: rest -> hd true s = true ->
  failover_send f w =
    ({| fo_primary := None;
        fo_secondary := Some {| tc_conn := Some (w_next w); tc_reconnectable := true |} |},
     after_write (w_next w) (after_dial (after_write c w)),
     [EWrite c false; EClose c; EDial (Some (w_next w)); EWrite (w_next w) true], true)
  /\ c <> w_next w.
Proof.
  intros f w p c s rest Hw (Hrec & Hc & _ & _) Hp Hpc Hn Hs Hd Hh.
  specialize (Hrec _ Hp). unfold primary_id in Hc. rewrite Hp in Hc. specialize (Hc _ Hpc).
  split; [|lia].
  rewrite (failover_primary_fail _ _ _ _ Hp Hpc Hrec Hn), Hs.
  assert (Hd' : w_dials (after_write c w) = Some s :: rest) by (rewrite after_write_dials; exact Hd).
  rewrite (client_fresh _ _ _ (after_write_wf c w Hw) Hd' Hh), after_write_next. reflexivity.
Qed.

(* connection ids an event talks about *)
Definition ev_ids (e : io_event) : list nat :=
  match e with EWrite c _ => [c] | EDial (Some c) => [c] | EDial None => [] | EClose c => [c] end.

Theorem C20_later_direct : forall f w p c s rest,
  w_wf w -> fo_wf f (w_next w) ->
  fo_primary f = Some p -> tc_conn p = Some c -> next_write c w = false ->
  fo_secondary f = Some {| tc_conn := None; tc_reconnectable := true |} ->
  w_dials w = Some s :: rest -> hd true s = true ->
  forall f' w' tr ok, failover_send f w = (f', w', tr, ok) ->
  forall w2, w_next w' <= w_next w2 ->          (* e.g. w2 = w' or with_plan w' pl *)
  forall f2 w3 tr2 ok2, failover_send f' w2 = (f2, w3, tr2, ok2) ->
  (forall e, In e tr2 -> ~ In c (ev_ids e)) /\
  (exists b rest2, tr2 = EWrite (w_next w) b :: rest2) /\
  (next_write (w_next w) w2 = true -> tr2 = [EWrite (w_next w) true] /\ ok2 = true /\ f2 = f').
Proof.
  intros f w p c s rest Hw Hf Hp Hpc Hn Hs Hd Hh f' w' tr ok E w2 Hle f2 w3 tr2 ok2 E2.
  destruct (C20_failover _ _ _ _ _ _ Hw Hf Hp Hpc Hn Hs Hd Hh) as [E0 Hne].
  rewrite E0 in E. inv E.
  assert (Hd' : w_dials (after_write c w) = Some s :: rest) by (rewrite after_write_dials; exact Hd).
  rewrite after_write_next, (proj1 (after_dial_some_next _ _ _ Hd')), after_write_next in Hle.
  destruct Hf as (_ & Hc & _ & _). unfold primary_id in Hc. rewrite Hp in Hc. specialize (Hc _ Hpc).
  rewrite failover_primary_none in E2 by reflexivity. cbn [fo_secondary] in E2.
  split; [|split].
  - destruct (tcp_client_send _ w2) as [[[s' w4] tr4] ok4] eqn:E4. inv E2.
    apply client_shape in E4. shapes; intros e Hin; cbn in Hin;
      repeat (destruct Hin as [Hin|Hin]; [subst e; cbn; lia|]); contradiction.
  - destruct (tcp_client_send _ w2) as [[[s' w4] tr4] ok4] eqn:E4. inv E2.
    apply client_shape in E4. shapes; eexists; eexists; reflexivity.
  - intros Hn2. rewrite (client_cached_ok _ (w_next w) _ eq_refl Hn2) in E2. inv E2. auto.
Qed.
