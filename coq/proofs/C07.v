(* C07 — received / rport record the packet's true source when received-support is enabled.

   Part 0  parameter lists: characterisation of kv_set (SetParam).
   Part 1  header look-up / update facts, the Via VIEW of a message ([via_hdrs]: for every Via
           header, in order, its decoded entries or None), and which message operations keep it
           (shared with C02.v; duplicates of proofs/MsgLemmas.v are intended).
   Part 2  C07_stamp: what SetReceived does.
   Part 3  what leaves the proxy: send_message / backend_send write the message they were given.
   Part 4  C07_pipeline: the Via view of every relayed request, for every state.
   Part 5  C07_wiring (+ invariant over all reachable states) and the legacy refutation.
   Part 6  lifting to proxy_step (EvUdp, EvTcpData).
   No axioms, no admits. *)
From Coq Require Import List Ascii String ZArith Bool Lia.
From Model Require Import Bytes BytesLemmas Uri Hdr Message Msg Rx Glob StaticRoute RoundRobin Pins Proxy.
Import ListNotations.
Open Scope Z_scope.

(* ====================================================================== Part 0: kv_set *)
Lemma kv_get_set_same k v l : kv_get k (kv_set k v l) = Some v.
Proof.
  induction l as [|p r IH]; cbn.
  - rewrite beq_refl. reflexivity.
  - destruct (beq (k_key p) k) eqn:E; cbn; rewrite E; [reflexivity|exact IH].
Qed.

Lemma kv_get_set_other k k' v l : k' <> k -> kv_get k' (kv_set k v l) = kv_get k' l.
Proof.
  intros NE. induction l as [|p r IH]; cbn.
  - assert (E : beq k k' = false) by (apply beq_neq; congruence). rewrite E. reflexivity.
  - destruct (beq (k_key p) k) eqn:E; cbn.
    + apply beq_eq in E. assert (E' : beq (k_key p) k' = false) by (apply beq_neq; congruence).
      rewrite E'. reflexivity.
    + destruct (beq (k_key p) k'); [reflexivity|exact IH].
Qed.

Lemma kv_has_set_same k v l : kv_has k (kv_set k v l) = true.
Proof. unfold kv_has. rewrite kv_get_set_same. reflexivity. Qed.

Lemma kv_has_set_other k k' v l : k' <> k -> kv_has k' (kv_set k v l) = kv_has k' l.
Proof. intros NE. unfold kv_has. rewrite kv_get_set_other by exact NE. reflexivity. Qed.

(* present: the FIRST entry with that key is overwritten in place *)
Lemma kv_set_present k v l : kv_has k l = true ->
  exists a p b, l = a ++ p :: b /\ k_key p = k /\ kv_get k a = None /\
                kv_set k v l = a ++ {| k_key := k_key p; k_val := v |} :: b.
Proof.
  unfold kv_has. induction l as [|p r IH]; cbn; [discriminate|].
  destruct (beq (k_key p) k) eqn:E.
  - intros _. exists [], p, r. apply beq_eq in E. repeat split; assumption.
  - intros H. destruct (IH H) as (a & q & b & H1 & H2 & H3 & H4).
    exists (p :: a), q, b. cbn. rewrite E, H4. subst r. repeat split; assumption.
Qed.

(* absent: appended at the end *)
Lemma kv_set_absent k v l : kv_has k l = false ->
  kv_set k v l = l ++ [{| k_key := k; k_val := v |}].
Proof.
  unfold kv_has. induction l as [|p r IH]; cbn; [reflexivity|].
  destruct (beq (k_key p) k) eqn:E; [discriminate|]. intros H. rewrite IH by exact H. reflexivity.
Qed.

(* the other entries keep their values and their order *)
Lemma kv_set_others k v l :
  filter (fun p => negb (beq (k_key p) k)) (kv_set k v l) = filter (fun p => negb (beq (k_key p) k)) l.
Proof.
  induction l as [|p r IH]; cbn.
  - rewrite beq_refl. reflexivity.
  - destruct (beq (k_key p) k) eqn:E; cbn; rewrite E; cbn; [reflexivity|]. rewrite IH. reflexivity.
Qed.

Lemma kv_set_keys k v l : kv_has k l = true -> map k_key (kv_set k v l) = map k_key l.
Proof.
  intros H. destruct (kv_set_present k v l H) as (a & p & b & H1 & _ & _ & H4).
  rewrite H4, H1, !map_app. reflexivity.
Qed.

(* ---- SetReceived on one entry ---- *)
Definition stamp_params (peer : bytes) (port : Z) (ps : list kv) : list kv :=
  if kv_has (s2b "rport") (kv_set (s2b "received") peer ps)
  then kv_set (s2b "rport") (itoa port) (kv_set (s2b "received") peer ps)
  else kv_set (s2b "received") peer ps.
Definition stamp (peer : bytes) (port : Z) (v : via_param) : via_param :=
  {| v_name := v_name v; v_version := v_version v; v_transport := v_transport v; v_host := v_host v;
     v_port := v_port v; v_params := stamp_params peer port (v_params v) |}.

Lemma rport_neq_received : s2b "rport" <> s2b "received".
Proof. discriminate. Qed.
Lemma received_neq_rport : s2b "received" <> s2b "rport".
Proof. discriminate. Qed.

(* rport is written iff the sender's entry carried an rport parameter (valued or not) *)
Lemma stamp_params_rport peer port ps :
  stamp_params peer port ps =
  if kv_has (s2b "rport") ps then kv_set (s2b "rport") (itoa port) (kv_set (s2b "received") peer ps)
  else kv_set (s2b "received") peer ps.
Proof. unfold stamp_params. rewrite kv_has_set_other by exact rport_neq_received. reflexivity. Qed.

Lemma stamp_received peer port v : via_get_received (stamp peer port v) = Some peer.
Proof.
  unfold via_get_received, stamp. cbn [v_params]. unfold stamp_params.
  destruct (kv_has _ _).
  - rewrite kv_get_set_other by exact received_neq_rport. apply kv_get_set_same.
  - apply kv_get_set_same.
Qed.

Lemma stamp_rport peer port v : (int_min <= port <= int_max)%Z ->
  via_get_rport (stamp peer port v) = if kv_has (s2b "rport") (v_params v) then Some port else None.
Proof.
  intros Hp. unfold via_get_rport, stamp. cbn [v_params]. rewrite stamp_params_rport.
  destruct (kv_has (s2b "rport") (v_params v)) eqn:E.
  - rewrite kv_get_set_same. apply atoi_itoa. exact Hp.
  - rewrite kv_get_set_other by exact rport_neq_received.
    unfold kv_has in E. destruct (kv_get (s2b "rport") (v_params v)); [discriminate|reflexivity].
Qed.

Lemma stamp_other_param peer port v k : k <> s2b "received" -> k <> s2b "rport" ->
  kv_get k (v_params (stamp peer port v)) = kv_get k (v_params v).
Proof.
  intros N1 N2. cbn [stamp v_params]. unfold stamp_params. destruct (kv_has _ _).
  - rewrite kv_get_set_other by exact N2. apply kv_get_set_other. exact N1.
  - apply kv_get_set_other. exact N1.
Qed.

Lemma stamp_eq peer port v :
  (if kv_has (s2b "rport") (v_params (via_set_param (s2b "received") peer v))
   then via_set_param (s2b "rport") (itoa port) (via_set_param (s2b "received") peer v)
   else via_set_param (s2b "received") peer v) = stamp peer port v.
Proof.
  unfold stamp, stamp_params, via_set_param. cbn [v_params v_name v_version v_transport v_host v_port].
  destruct (kv_has _ _); reflexivity.
Qed.

Lemma stamp_port peer port v : via_get_port (stamp peer port v) = via_get_port v.
Proof. reflexivity. Qed.

(* ====================================================================== Part 1: headers *)
Definition names_of (a : bytes) : list bytes :=
  to_lower a :: match get_compact a with Some c => [to_lower c] | None => [] end.
Lemma same_header_names n a : same_header n a = existsb (beq (to_lower n)) (names_of a).
Proof.
  unfold same_header, equal_fold, names_of. destruct (get_compact a); cbn; rewrite ?orb_false_r; reflexivity.
Qed.
Definition disjoint_names (a b : bytes) : bool :=
  forallb (fun x => negb (existsb (beq x) (names_of b))) (names_of a).
Lemma same_header_disjoint a b n :
  disjoint_names a b = true -> same_header n a = true -> same_header n b = false.
Proof.
  intros D H. rewrite same_header_names in *. apply existsb_exists in H. destruct H as (x & Hx & E).
  apply beq_eq in E. rewrite E. unfold disjoint_names in D.
  rewrite forallb_forall in D. specialize (D x Hx). apply negb_true_iff in D. exact D.
Qed.

Definition VIA : bytes := s2b "Via".
Definition is_via_name (n : bytes) : bool := same_header n VIA.
Definition not_via (name : bytes) : Prop := disjoint_names name VIA = true.
Lemma not_via_false name n : not_via name -> same_header n name = true -> is_via_name n = false.
Proof. intros D H. exact (same_header_disjoint _ _ _ D H). Qed.
Lemma nv_cseq : not_via (s2b "CSeq"). Proof. vm_compute. reflexivity. Qed.
Lemma nv_from : not_via (s2b "From"). Proof. vm_compute. reflexivity. Qed.
Lemma nv_to : not_via (s2b "To"). Proof. vm_compute. reflexivity. Qed.
Lemma nv_route : not_via (s2b "Route"). Proof. vm_compute. reflexivity. Qed.

(* ---- first header with a given name ---- *)
Definition nomatch (name : bytes) (pre : list header) : Prop :=
  forallb (fun h => negb (same_header (h_name h) name)) pre = true.

Lemma get_header_split name hs h : get_header name hs = Some h ->
  exists pre post, hs = pre ++ h :: post /\ nomatch name pre /\ same_header (h_name h) name = true.
Proof.
  induction hs as [|a r IH]; cbn; [discriminate|].
  destruct (same_header (h_name a) name) eqn:E.
  - intros H. injection H as <-. exists [], r. repeat split. exact E.
  - intros H. destruct (IH H) as (pre & post & H1 & H2 & H3).
    exists (a :: pre), post. subst r. repeat split; [|exact H3].
    unfold nomatch. cbn. rewrite E. exact H2.
Qed.
Lemma get_header_none name hs : get_header name hs = None -> nomatch name hs.
Proof.
  unfold nomatch. induction hs as [|a r IH]; cbn; [reflexivity|].
  destruct (same_header (h_name a) name); [discriminate|]. exact IH.
Qed.
Lemma get_header_at name pre h post : nomatch name pre -> same_header (h_name h) name = true ->
  get_header name (pre ++ h :: post) = Some h.
Proof.
  unfold nomatch. induction pre as [|a r IH]; cbn; intros H1 H2.
  - rewrite H2. reflexivity.
  - apply andb_true_iff in H1. destruct H1 as [Ha Hr]. apply negb_true_iff in Ha. rewrite Ha. apply IH; assumption.
Qed.
Lemma get_header_nomatch name hs : nomatch name hs -> get_header name hs = None.
Proof.
  unfold nomatch. induction hs as [|a r IH]; cbn; [reflexivity|]. intros H.
  apply andb_true_iff in H. destruct H as [Ha Hr]. apply negb_true_iff in Ha. rewrite Ha. apply IH. exact Hr.
Qed.
Lemma update_header_at name f pre h post : nomatch name pre -> same_header (h_name h) name = true ->
  update_header name f (pre ++ h :: post) = pre ++ {| h_name := h_name h; h_val := f (h_val h) |} :: post.
Proof.
  unfold nomatch. induction pre as [|a r IH]; cbn; intros H1 H2.
  - rewrite H2. reflexivity.
  - apply andb_true_iff in H1. destruct H1 as [Ha Hr]. apply negb_true_iff in Ha. rewrite Ha.
    f_equal. apply IH; assumption.
Qed.
Lemma update_header_nomatch name f hs : nomatch name hs -> update_header name f hs = hs.
Proof.
  unfold nomatch. induction hs as [|a r IH]; cbn; [reflexivity|]. intros H.
  apply andb_true_iff in H. destruct H as [Ha Hr]. apply negb_true_iff in Ha. rewrite Ha. f_equal. apply IH. exact Hr.
Qed.
Lemma remove_header_at name pre h post : nomatch name pre -> same_header (h_name h) name = true ->
  remove_header name (pre ++ h :: post) = pre ++ post.
Proof.
  unfold nomatch. induction pre as [|a r IH]; cbn; intros H1 H2.
  - rewrite H2. reflexivity.
  - apply andb_true_iff in H1. destruct H1 as [Ha Hr]. apply negb_true_iff in Ha. rewrite Ha.
    f_equal. apply IH; assumption.
Qed.
Lemma remove_header_nomatch name hs : nomatch name hs -> remove_header name hs = hs.
Proof.
  unfold nomatch. induction hs as [|a r IH]; cbn; [reflexivity|]. intros H.
  apply andb_true_iff in H. destruct H as [Ha Hr]. apply negb_true_iff in Ha. rewrite Ha. f_equal. apply IH. exact Hr.
Qed.
Lemma find_pos_from_at name pre h post i : nomatch name pre -> same_header (h_name h) name = true ->
  find_header_pos_from name (pre ++ h :: post) i = Some (i + List.length pre)%nat.
Proof.
  unfold nomatch. revert i. induction pre as [|a r IH]; cbn; intros i H1 H2.
  - rewrite H2. f_equal. lia.
  - apply andb_true_iff in H1. destruct H1 as [Ha Hr]. apply negb_true_iff in Ha. rewrite Ha.
    rewrite IH by assumption. f_equal. lia.
Qed.
Lemma find_pos_from_nomatch name hs i : nomatch name hs -> find_header_pos_from name hs i = None.
Proof.
  unfold nomatch. revert i. induction hs as [|a r IH]; cbn; intros i H; [reflexivity|].
  apply andb_true_iff in H. destruct H as [Ha Hr]. apply negb_true_iff in Ha. rewrite Ha. apply IH. exact Hr.
Qed.

(* ---- the Via view ---- *)
Definition hval_vias (v : hval) : option (list via_param) :=
  match v with
  | HVia l => Some l
  | HRaw s => match parse_via s with Ok l => Some l | _ => None end
  | _ => None
  end.
Definition via_headers (hs : list header) : list header := filter (fun h => is_via_name (h_name h)) hs.
Definition via_view (hs : list header) : list (option (list via_param)) :=
  map (fun h => hval_vias (h_val h)) (via_headers hs).
(* for every Via header of m (full, compact, any case), in order: its entries, None = undecodable *)
Definition via_hdrs (m : message) : list (option (list via_param)) := via_view (m_headers m).
Definition flat_view (vh : list (option (list via_param))) : list via_param :=
  flat_map (fun o => match o with Some l => l | None => [] end) vh.
Definition flat_vias (m : message) : list via_param := flat_view (via_hdrs m).
Definition all_vias_decode (m : message) : bool :=
  forallb (fun o => match o with Some _ => true | None => false end) (via_hdrs m).

Lemma via_view_app a b : via_view (a ++ b) = via_view a ++ via_view b.
Proof. unfold via_view, via_headers. rewrite filter_app, map_app. reflexivity. Qed.
Lemma nomatch_via_view pre : nomatch VIA pre -> via_view pre = [].
Proof.
  unfold nomatch, via_view, via_headers, is_via_name. induction pre as [|a r IH]; cbn; [reflexivity|]. intros H.
  apply andb_true_iff in H. destruct H as [Ha Hr]. apply negb_true_iff in Ha. rewrite Ha. apply IH. exact Hr.
Qed.
Lemma via_view_at pre h post : nomatch VIA pre -> is_via_name (h_name h) = true ->
  via_view (pre ++ h :: post) = hval_vias (h_val h) :: via_view post.
Proof.
  intros H1 H2. rewrite via_view_app, nomatch_via_view by exact H1. cbn.
  unfold via_view, via_headers. cbn. rewrite H2. reflexivity.
Qed.
Lemma via_view_cons hs x t : via_view hs = x :: t ->
  exists pre h post, hs = pre ++ h :: post /\ nomatch VIA pre /\ is_via_name (h_name h) = true /\
                     hval_vias (h_val h) = x /\ via_view post = t.
Proof.
  induction hs as [|a r IH]; [discriminate|].
  unfold via_view, via_headers. cbn [filter]. destruct (is_via_name (h_name a)) eqn:E.
  - cbn. intros H. injection H as H1 H2. exists [], a, r. repeat split; assumption.
  - intros H. destruct (IH H) as (pre & h & post & H1 & H2 & H3 & H4 & H5).
    exists (a :: pre), h, post. subst r. repeat split; try assumption.
    unfold nomatch. cbn [forallb]. unfold is_via_name in E. rewrite E. exact H2.
Qed.
Lemma via_view_nil hs : via_view hs = [] -> nomatch VIA hs.
Proof.
  unfold nomatch. induction hs as [|a r IH]; [reflexivity|].
  unfold via_view, via_headers. cbn [filter]. destruct (is_via_name (h_name a)) eqn:E; [discriminate|].
  intros H. cbn [forallb]. unfold is_via_name in E. rewrite E. apply IH. exact H.
Qed.

(* the executable collection of Message.v (ForEachViaParam) returns the flattened view and
   leaves the view unchanged *)
Lemma decode_all_vias_spec hs :
  snd (decode_all_vias hs) = flat_view (via_view hs) /\ via_view (fst (decode_all_vias hs)) = via_view hs.
Proof.
  induction hs as [|h r [IH1 IH2]]; [split; reflexivity|].
  cbn [decode_all_vias]. destruct (decode_all_vias r) as [r' vs] eqn:Er. cbn [fst snd] in IH1, IH2.
  unfold via_view, via_headers in *. cbn [filter]. unfold is_via_name, VIA.
  destruct (same_header (h_name h) (s2b "Via")) eqn:E.
  - destruct (h_val h) eqn:Ev; cbn [fst snd filter map h_name h_val]; unfold is_via_name, VIA; rewrite ?E;
      cbn [map flat_view flat_map hval_vias]; rewrite ?Ev; cbn [hval_vias];
      try (split; [exact IH1 | f_equal; exact IH2]).
    + destruct (parse_via s) eqn:Ep; cbn [fst snd filter map h_name h_val]; unfold is_via_name, VIA; rewrite ?E;
        cbn [map h_val hval_vias]; rewrite ?Ev; cbn [hval_vias]; rewrite ?Ep;
        (split; [try (f_equal; exact IH1); exact IH1 | f_equal; exact IH2]).
    + split; [f_equal; exact IH1 | f_equal; exact IH2].
  - cbn [fst snd filter]. unfold is_via_name, VIA. rewrite E. split; assumption.
Qed.
Lemma flat_vias_decode m : snd (decode_all_vias (m_headers m)) = flat_vias m.
Proof. apply decode_all_vias_spec. Qed.
Lemma s_all_via_params_spec m :
  snd (s_all_via_params m) = Ok (flat_vias m) /\ via_hdrs (fst (s_all_via_params m)) = via_hdrs m /\
  m_start (fst (s_all_via_params m)) = m_start m /\ m_body (fst (s_all_via_params m)) = m_body m.
Proof.
  unfold s_all_via_params. destruct (decode_all_vias_spec (m_headers m)) as [H1 H2].
  destruct (decode_all_vias (m_headers m)) as [hs vs]. cbn in *. subst vs. repeat split. exact H2.
Qed.

(* ---- operations on other headers keep the view ---- *)
Lemma via_view_update_other name f hs : not_via name -> via_view (update_header name f hs) = via_view hs.
Proof.
  intros NV. induction hs as [|a r IH]; [reflexivity|]. cbn [update_header].
  destruct (same_header (h_name a) name) eqn:E.
  - unfold via_view, via_headers. cbn [filter h_name]. rewrite (not_via_false _ _ NV E). reflexivity.
  - unfold via_view, via_headers in *. cbn [filter]. destruct (is_via_name (h_name a)); cbn [map]; rewrite IH; reflexivity.
Qed.
Lemma via_view_remove_other name hs : not_via name -> via_view (remove_header name hs) = via_view hs.
Proof.
  intros NV. induction hs as [|a r IH]; [reflexivity|]. cbn [remove_header].
  destruct (same_header (h_name a) name) eqn:E.
  - unfold via_view, via_headers. cbn [filter]. rewrite (not_via_false _ _ NV E). reflexivity.
  - unfold via_view, via_headers in *. cbn [filter]. destruct (is_via_name (h_name a)); cbn [map]; rewrite IH; reflexivity.
Qed.
Lemma via_view_insert_other n h hs : is_via_name (h_name h) = false -> via_view (insert_at n h hs) = via_view hs.
Proof.
  intros H. unfold insert_at. rewrite via_view_app.
  change (h :: skipn n hs) with ([h] ++ skipn n hs). rewrite via_view_app.
  assert (E : via_view [h] = []) by (unfold via_view, via_headers; cbn; rewrite H; reflexivity).
  rewrite E. cbn [app]. rewrite <- via_view_app, firstn_skipn. reflexivity.
Qed.

(* ---- messages equal as far as the Via chain is concerned ---- *)
Definition veq (m m' : message) : Prop :=
  m_start m' = m_start m /\ m_body m' = m_body m /\ via_hdrs m' = via_hdrs m.
Lemma veq_refl m : veq m m. Proof. repeat split. Qed.
Lemma veq_trans a b c : veq a b -> veq b c -> veq a c.
Proof. intros (A1 & A2 & A3) (B1 & B2 & B3). repeat split; congruence. Qed.
Lemma veq_is_request a b : veq a b -> is_request b = is_request a.
Proof. intros (A1 & _). unfold is_request. rewrite A1. reflexivity. Qed.
Lemma veq_is_response a b : veq a b -> is_response b = is_response a.
Proof. intros H. unfold is_response. rewrite (veq_is_request _ _ H). reflexivity. Qed.

Lemma veq_set_val_other name v m : not_via name -> veq m (set_val name v m).
Proof. intros NV. repeat split. unfold via_hdrs, set_val. cbn. apply via_view_update_other. exact NV. Qed.
Lemma veq_remove_other name m : not_via name -> veq m (with_headers m (remove_header name (m_headers m))).
Proof. intros NV. repeat split. unfold via_hdrs. cbn. apply via_view_remove_other. exact NV. Qed.

(* a computation that keeps start line, body and the Via view, whatever it returns *)
Definition vpres {A} (x : M A) : Prop := forall m, veq m (fst (x m)).
Lemma vpres_mret {A} (a : A) : vpres (mret a). Proof. intros m. apply veq_refl. Qed.
Lemma vpres_merr {A} : vpres (@merr A). Proof. intros m. apply veq_refl. Qed.
Lemma vpres_mlift {A} (r : res A) : vpres (mlift r). Proof. intros m. apply veq_refl. Qed.
Lemma vpres_read {A} (g : message -> res A) : vpres (fun m => (m, g m)).
Proof. intros m. apply veq_refl. Qed.
Lemma vpres_mbind {A B} (x : M A) (f : A -> M B) : vpres x -> (forall a, vpres (f a)) -> vpres (mbind x f).
Proof.
  intros Hx Hf m. unfold mbind. specialize (Hx m). destruct (x m) as [m1 r]. cbn [fst] in Hx.
  destruct r; cbn [fst]; try exact Hx. eapply veq_trans; [exact Hx|apply Hf].
Qed.
Lemma vpres_mtry {A} (x : M A) : vpres x -> vpres (mtry x).
Proof. intros Hx m. unfold mtry. specialize (Hx m). destruct (x m) as [m1 r]. destruct r; exact Hx. Qed.
Lemma vpres_mmodify f : (forall m, veq m (f m)) -> vpres (mmodify f).
Proof. intros H m. apply H. Qed.
Lemma fst_mtry {A} (x : M A) m : fst (mtry x m) = fst (x m).
Proof. unfold mtry. destruct (x m) as [m1 r]. destruct r; reflexivity. Qed.

Lemma vpres_typed_get_other {A} name proj parse inj : not_via name -> vpres (@typed_get A name proj parse inj).
Proof.
  intros NV m. unfold typed_get. destruct (get_header name (m_headers m)) as [h|]; [|apply veq_refl].
  destruct (proj (h_val h)); [apply veq_refl|].
  destruct (h_val h); try apply veq_refl.
  destruct (parse s); try apply veq_refl. cbn [fst]. apply veq_set_val_other. exact NV.
Qed.
Lemma vpres_s_get_cseq : vpres s_get_cseq. Proof. apply vpres_typed_get_other, nv_cseq. Qed.
Lemma vpres_s_get_from : vpres s_get_from. Proof. apply vpres_typed_get_other, nv_from. Qed.
Lemma vpres_s_get_to : vpres s_get_to. Proof. apply vpres_typed_get_other, nv_to. Qed.
Lemma vpres_s_get_route : vpres s_get_route. Proof. apply vpres_typed_get_other, nv_route. Qed.
Lemma vpres_s_get_raw name : vpres (s_get_raw name). Proof. apply vpres_read. Qed.
Lemma vpres_s_get_expires d : vpres (s_get_expires d). Proof. intros m. apply veq_refl. Qed.
Lemma vpres_s_get_method : vpres s_get_method.
Proof.
  intros m. unfold s_get_method. destruct (m_start m); [apply veq_refl|].
  apply vpres_mbind; [apply vpres_s_get_cseq|intros c; apply vpres_mret].
Qed.

(* ---- GetVia ---- *)
Lemma via_hdrs_set_via l m x t : via_hdrs m = x :: t -> via_hdrs (set_val VIA (HVia l) m) = Some l :: t.
Proof.
  unfold via_hdrs. intros H. destruct (via_view_cons _ _ _ H) as (pre & h & post & H1 & H2 & H3 & H4 & H5).
  unfold set_val. cbn [m_headers with_headers]. rewrite H1, update_header_at by assumption.
  rewrite via_view_at by assumption. cbn. rewrite H5. reflexivity.
Qed.
Lemma with_headers_same m : with_headers m (m_headers m) = m.
Proof. destruct m; reflexivity. Qed.

(* the exact result of s_get_via, by the view *)
Lemma s_get_via_ok m l t : via_hdrs m = Some l :: t ->
  exists m', s_get_via m = (m', Ok l) /\ veq m m' /\
             forall l', set_val VIA (HVia l') m' = set_val VIA (HVia l') m.
Proof.
  unfold via_hdrs. intros H. destruct (via_view_cons _ _ _ H) as (pre & h & post & H1 & H2 & H3 & H4 & H5).
  unfold s_get_via, typed_get. fold VIA. rewrite H1, get_header_at by assumption. try rewrite <- H1.
  destruct (h_val h) eqn:Ev; cbn in H4; try discriminate.
  - destruct (parse_via s) eqn:Ep; try discriminate. injection H4 as ->.
    eexists. split; [reflexivity|]. split.
    + repeat split. rewrite (via_hdrs_set_via l m _ _ H). unfold via_hdrs. rewrite H. reflexivity.
    + intros l'. unfold set_val. cbn [m_headers with_headers]. rewrite H1.
      rewrite !update_header_at by assumption. reflexivity.
  - injection H4 as ->. exists m. split; [reflexivity|]. split; [apply veq_refl|reflexivity].
Qed.
Lemma s_get_via_fail m : (via_hdrs m = [] \/ exists t, via_hdrs m = None :: t) ->
  exists r, s_get_via m = (m, r) /\ forall l, r <> Ok l.
Proof.
  unfold via_hdrs. intros [H|[t H]].
  - apply via_view_nil in H. unfold s_get_via, typed_get. fold VIA. rewrite get_header_nomatch by exact H.
    eexists. split; [reflexivity|]. discriminate.
  - destruct (via_view_cons _ _ _ H) as (pre & h & post & H1 & H2 & H3 & H4 & H5).
    unfold s_get_via, typed_get. fold VIA. rewrite H1, get_header_at by assumption. try rewrite <- H1.
    destruct (h_val h) eqn:Ev; cbn in H4; try discriminate;
      try (eexists; split; [reflexivity|discriminate]).
    destruct (parse_via s) eqn:Ep; try discriminate; eexists; (split; [reflexivity|discriminate]).
Qed.
Lemma vpres_s_get_via : vpres s_get_via.
Proof.
  intros m. destruct (via_hdrs m) as [|[l|] t] eqn:E.
  - destruct (s_get_via_fail m (or_introl E)) as (r & Hr & _). rewrite Hr. apply veq_refl.
  - destruct (s_get_via_ok m l t E) as (m' & Hr & Hv & _). rewrite Hr. exact Hv.
  - destruct (s_get_via_fail m (or_intror (ex_intro _ t E))) as (r & Hr & _). rewrite Hr. apply veq_refl.
Qed.
Lemma vpres_s_top_via : vpres s_top_via.
Proof. apply vpres_mbind; [apply vpres_s_get_via|]. intros [|v l]; [apply vpres_merr|apply vpres_mret]. Qed.
Lemma vpres_s_client_transaction : vpres s_client_transaction.
Proof.
  apply vpres_mbind; [apply vpres_s_get_cseq|intros c].
  apply vpres_mbind; [apply vpres_s_top_via|intros v].
  apply vpres_mbind; [apply vpres_mlift|intros b]. apply vpres_mret.
Qed.
Lemma vpres_s_get_dialog : vpres s_get_dialog.
Proof.
  apply vpres_mbind; [apply vpres_s_get_raw|intros cid].
  apply vpres_mbind; [apply vpres_s_get_from|intros f].
  apply vpres_mbind; [apply vpres_mlift|intros ft].
  apply vpres_mbind; [apply vpres_s_get_to|intros t].
  apply vpres_mbind; [apply vpres_mlift|intros tt]. apply vpres_mret.
Qed.
Lemma vpres_s_pop_route : vpres s_pop_route.
Proof.
  apply vpres_mbind; [apply vpres_s_get_route|]. intros [|a [|b l]]; apply vpres_mmodify; intros m;
    first [apply veq_remove_other, nv_route | apply veq_set_val_other, nv_route].
Qed.
Lemma vpres_next_response_hop : vpres next_response_hop.
Proof.
  apply vpres_mbind; [apply vpres_s_top_via|]. intros v. destruct (via_get_received v); apply vpres_mret.
Qed.

(* ====================================================================== Part 2: C07_stamp *)
(* SetReceived(peer, port): the first entry of the first Via header (any spelling of the name,
   raw or already decoded) gets the stamped parameters; every other field of that entry, every
   other entry, every other header, start line and body are unchanged. *)
Theorem C07_stamp : forall peer port m pre h post v rest,
  m_headers m = pre ++ h :: post -> nomatch VIA pre -> same_header (h_name h) VIA = true ->
  hval_vias (h_val h) = Some (v :: rest) ->
  s_set_received peer port m =
    ({| m_start := m_start m;
        m_headers := pre ++ {| h_name := h_name h; h_val := HVia (stamp peer port v :: rest) |} :: post;
        m_body := m_body m |}, Ok tt).
Proof.
  intros peer port m pre h post v rest H1 H2 H3 H4.
  assert (Hv : via_hdrs m = Some (v :: rest) :: via_view post).
  { unfold via_hdrs. rewrite H1, via_view_at by assumption. rewrite H4. reflexivity. }
  destruct (s_get_via_ok m _ _ Hv) as (m' & Hr & _ & Hs).
  unfold s_set_received, mbind. rewrite Hr. unfold mmodify. fold VIA. rewrite Hs, stamp_eq.
  unfold set_val, with_headers. rewrite H1, update_header_at by assumption. reflexivity.
Qed.

(* the statement of the task, on the parameters *)
Lemma C07_stamp_params : forall peer port v,
  v_params (stamp peer port v) =
    (if kv_has (s2b "rport") (kv_set (s2b "received") peer (v_params v))
     then kv_set (s2b "rport") (itoa port) (kv_set (s2b "received") peer (v_params v))
     else kv_set (s2b "received") peer (v_params v)) /\
  v_name (stamp peer port v) = v_name v /\ v_version (stamp peer port v) = v_version v /\
  v_transport (stamp peer port v) = v_transport v /\ v_host (stamp peer port v) = v_host v /\
  v_port (stamp peer port v) = v_port v.
Proof. intros. repeat split. Qed.

(* SetParam: replace the FIRST entry with that key in place, else append *)
Theorem C07_kv_set_char : forall k v l,
  kv_get k (kv_set k v l) = Some v /\
  (forall k', k' <> k -> kv_get k' (kv_set k v l) = kv_get k' l) /\
  filter (fun p => negb (beq (k_key p) k)) (kv_set k v l) = filter (fun p => negb (beq (k_key p) k)) l /\
  (kv_has k l = true -> exists a p b, l = a ++ p :: b /\ k_key p = k /\ kv_get k a = None /\
                                      kv_set k v l = a ++ {| k_key := k_key p; k_val := v |} :: b) /\
  (kv_has k l = false -> kv_set k v l = l ++ [{| k_key := k; k_val := v |}]).
Proof.
  intros k v l. split; [apply kv_get_set_same|]. split; [intros k' NE; apply kv_get_set_other; exact NE|].
  split; [apply kv_set_others|]. split; [apply kv_set_present|apply kv_set_absent].
Qed.

(* in terms of the view: for every message *)
Definition stamp_hdrs (rs : bool) (peer : bytes) (port : Z) (vh : list (option (list via_param)))
  : list (option (list via_param)) :=
  if rs then match vh with Some (v :: rest) :: t => Some (stamp peer port v :: rest) :: t | _ => vh end
  else vh.

Lemma s_set_received_view peer port m :
  m_start (fst (s_set_received peer port m)) = m_start m /\
  m_body (fst (s_set_received peer port m)) = m_body m /\
  via_hdrs (fst (s_set_received peer port m)) = stamp_hdrs true peer port (via_hdrs m).
Proof.
  destruct (via_hdrs m) as [|[l|] t] eqn:E.
  - destruct (s_get_via_fail m (or_introl E)) as (r & Hr & Hn).
    unfold s_set_received, mbind. rewrite Hr. destruct r as [l| |]; [exfalso; exact (Hn l eq_refl)| |];
      cbn [fst stamp_hdrs]; rewrite E; repeat split.
  - destruct (s_get_via_ok m l t E) as (m' & Hr & (V1 & V2 & V3) & Hs).
    unfold s_set_received, mbind. rewrite Hr. destruct l as [|v rest].
    + cbn [merr fst stamp_hdrs]. rewrite E in V3. repeat split; assumption.
    + unfold mmodify. cbn [fst stamp_hdrs]. fold VIA. rewrite Hs, stamp_eq. repeat split.
      apply (via_hdrs_set_via _ _ _ _ E).
  - destruct (s_get_via_fail m (or_intror (ex_intro _ t E))) as (r & Hr & Hn).
    unfold s_set_received, mbind. rewrite Hr. destruct r as [l| |]; [exfalso; exact (Hn l eq_refl)| |];
      cbn [fst stamp_hdrs]; rewrite E; repeat split.
Qed.

(* ====================================================================== Part 3: what is sent *)
(* the message sendMessage serialises (GetClientTransaction may have decoded CSeq / Via in place) *)
Definition sent_msg (m : message) : message := fst (mtry s_client_transaction m).
Lemma veq_sent_msg m : veq m (sent_msg m).
Proof. apply (vpres_mtry _ vpres_s_client_transaction). Qed.

(* the possible outputs of one send over TCP: payload [b] *)
Definition tcp_shape (b : bytes) (ex : list output) : Prop :=
  ex = [] \/ (exists c, ex = [(DConn c, b)]) \/ (exists h p c, ex = [(DDial h p c, [])]) \/
  (exists h p c c', ex = [(DDial h p c, []); (DConn c', b)]).

Lemma find_set_cached id v l cl : find_client id (set_client_cached id v l) = Some cl -> tc_cached cl = v.
Proof.
  unfold find_client. induction l as [|x r IH]; cbn; [discriminate|].
  destruct (Nat.eqb (tc_id x) id) eqn:E; cbn.
  - rewrite Nat.eqb_refl. intros H. injection H as <-. reflexivity.
  - rewrite E. exact IH.
Qed.

Lemma tcp_client_send_2 li local rs id b p cs w outs p' cs' w' outs' ok :
  tcp_client_send 2 li local rs id b p cs w outs = (p', cs', w', outs', ok) ->
  exists ex, outs' = outs ++ ex /\ tcp_shape b ex.
Proof.
  cbn [tcp_client_send].
  destruct (find_client id (ps_clients p)) as [cl|] eqn:F1;
    [|intros H; injection H as <- <- <- <- <-; exists []; split; [symmetry; apply app_nil_r|left; reflexivity]].
  destruct (tc_cached cl) as [c|] eqn:C1.
  - destruct (conn_open cs c).
    + intros H; injection H as <- <- <- <- <-. eexists. split; [reflexivity|]. right. left. eexists. reflexivity.
    + cbn [ps_clients with_clients].
      destruct (find_client id (set_client_cached id None (ps_clients p))) as [cl2|] eqn:F2;
        [|intros H; injection H as <- <- <- <- <-; exists []; split; [symmetry; apply app_nil_r|left; reflexivity]].
      rewrite (find_set_cached _ _ _ _ F2).
      destruct (existsb _ (w_tcp_listeners w)).
      * (* stale cached connection: the second round dials AND writes *)
        intros H; injection H as <- <- <- <- <-. eexists. split; [reflexivity|]. right. right. right.
        do 4 eexists. reflexivity.
      * intros H; injection H as <- <- <- <- <-; exists []; split; [symmetry; apply app_nil_r|left; reflexivity].
  - destruct (existsb _ (w_tcp_listeners w));
      [|intros H; injection H as <- <- <- <- <-; exists []; split; [symmetry; apply app_nil_r|left; reflexivity]].
    (* the round that dials also writes *)
    intros H; injection H as <- <- <- <- <-. eexists. split; [reflexivity|].
    right. right. right. do 4 eexists. reflexivity.
Qed.

Lemma failover_send_outs li local rs f b p cs w p' cs' w' outs ok f' :
  failover_send li local rs f b p cs w = (p', cs', w', outs, ok, f') ->
  (exists ip port, (fo_pri f = Some (PUdp ip port) \/ fo_pri f = Some (PUdpVia ip port)) /\
                   fits_datagram b = true /\ outs = [(DUdp ip port, b)]) \/
  tcp_shape b outs.
Proof.
  unfold failover_send.
  assert (SEC : forall f1 p' cs' w' outs ok f',
            match fo_sec f1 with
            | Some id => let '(p2, cs2, w2, outs2, ok) := tcp_client_send 2 li local rs id b p cs w [] in
                         (p2, cs2, w2, outs2, ok, f1)
            | None => (p, cs, w, [], false, f1)
            end = (p', cs', w', outs, ok, f') -> tcp_shape b outs).
  { intros f1 p2 cs2 w2 outs2 ok2 f2. destruct (fo_sec f1) as [id|].
    - destruct (tcp_client_send 2 li local rs id b p cs w []) as [[[[p3 cs3] w3] outs3] ok3] eqn:E.
      intros H. injection H as <- <- <- <- <- <-.
      destruct (tcp_client_send_2 _ _ _ _ _ _ _ _ _ _ _ _ _ _ E) as (ex & H1 & H2). cbn in H1. subst outs3. exact H2.
    - intros H. injection H as <- <- <- <- <- <-. left. reflexivity. }
  destruct (fo_pri f) as [[ip port|ip port|c ex]|] eqn:Ep.
  - destruct (fits_datagram b) eqn:Ef.
    + intros H. injection H as <- <- <- <- <- <-. left. exists ip, port. repeat split. left. reflexivity.
    + intros H. right. exact (SEC _ _ _ _ _ _ _ H).
  - destruct (fits_datagram b) eqn:Ef.
    + intros H. injection H as <- <- <- <- <- <-. left. exists ip, port. repeat split. right. reflexivity.
    + intros H. right. exact (SEC _ _ _ _ _ _ _ H).
  - destruct (conn_open cs c).
    + intros H. injection H as <- <- <- <- <- <-. right. right. left. eexists. reflexivity.
    + intros H. right. exact (SEC _ _ _ _ _ _ _ H).
  - intros H. right. exact (SEC _ _ _ _ _ _ _ H).
Qed.

(* every output carries the given message, except dial markers (no bytes) *)
Definition out_is (m : message) (o : output) : Prop :=
  match fst o with DDial _ _ _ => snd o = [] | _ => snd o = write_message m end.
Lemma tcp_shape_out_is m ex : tcp_shape (write_message m) ex -> Forall (out_is m) ex.
Proof.
  intros [->|[(c & ->)|[(h & p & c & ->)|(h & p & c & c' & ->)]]]; repeat constructor.
Qed.

(* sendMessage: the new outputs, for every state *)
Lemma send_message_outs e host port tr m x :
  snd (send_message e host port tr m x) = sent_msg m /\
  x_learned (fst (send_message e host port tr m x)) = x_learned x /\
  exists outs, x_outs (fst (send_message e host port tr m x)) = x_outs x ++ outs /\
    (outs = [] \/ (exists ip p, outs = [(DUdp ip p, write_message (sent_msg m))]) \/
     tcp_shape (write_message (sent_msg m)) outs).
Proof.
  unfold send_message, sent_msg.
  destruct (mtry s_client_transaction m) as [m1 tid]. cbn [fst].
  destruct (get_transport _ _ _ _ _ _) as [p1 rkey].
  destruct rkey as [key| |]; try (cbn; repeat split; exists []; split; [symmetry; apply app_nil_r|left; reflexivity]).
  match goal with |- context [alookup key (ps_table ?p2)] => set (P2 := p2) end.
  destruct (alookup key (ps_table P2)) as [f|];
    [|cbn; repeat split; exists []; split; [symmetry; apply app_nil_r|left; reflexivity]].
  match goal with |- context [failover_send ?a ?b ?c ?d ?e ?f ?g ?h] =>
    destruct (failover_send a b c d e f g h) as [[[[[p4 cs] w] outs] ok] f'] eqn:EF end.
  cbn. repeat split. exists outs. split; [reflexivity|].
  destruct (failover_send_outs _ _ _ _ _ _ _ _ _ _ _ _ _ _ EF) as [(ip & pt & _ & _ & ->)|H].
  - right. left. exists ip, pt. reflexivity.
  - right. right. exact H.
Qed.

Lemma send_message_out_is e host port tr m x :
  exists outs, x_outs (fst (send_message e host port tr m x)) = x_outs x ++ outs /\ Forall (out_is (sent_msg m)) outs.
Proof.
  destruct (send_message_outs e host port tr m x) as (_ & _ & outs & H1 & H2). exists outs. split; [exact H1|].
  destruct H2 as [->|[(ip & p & ->)|H2]]; [constructor|repeat constructor|apply tcp_shape_out_is; exact H2].
Qed.

Lemma backend_send_outs b bs p : forall p' outs ok, backend_send b bs p = (p', outs, ok) ->
  outs = [] \/ exists ip port, outs = [(DUdp ip port, bs)].
Proof.
  intros p' outs ok. unfold backend_send.
  assert (TA : forall a, match last_index_byte ":"%char a with
                         | Some pos => [(DUdp (firstn pos a) (atoi_val (skipn (S pos) a)), bs)]
                         | None => [] end = [] \/
                         exists ip port, match last_index_byte ":"%char a with
                         | Some pos => [(DUdp (firstn pos a) (atoi_val (skipn (S pos) a)), bs)]
                         | None => [] end = [(DUdp ip port, bs)]).
  { intros a. destruct (last_index_byte ":"%char a); [right; eexists; eexists; reflexivity|left; reflexivity]. }
  destruct b as [a g|].
  - destruct (_ && _)%bool; intros H; injection H as <- <- <-; [apply TA|left; reflexivity].
  - destruct (rr_dispatch (ps_rr p)) as [r' o]. destruct o as [a|].
    + destruct (fits_datagram bs); intros H; injection H as <- <- <-; [apply TA|left; reflexivity].
    + intros H; injection H as <- <- <-. left. reflexivity.
Qed.

(* ====================================================================== Part 4: the pipeline *)
Lemma vpres_next_hop_by_route keep : vpres (next_hop_by_route keep).
Proof.
  apply vpres_mbind; [apply vpres_s_get_route|]. intros [|rp l]; [apply vpres_merr|].
  apply vpres_mbind.
  - destruct keep; [apply vpres_mret|apply vpres_mtry, vpres_s_pop_route].
  - intros _. destruct (na_addr (r_addr rp)); [apply vpres_mret|apply vpres_merr].
Qed.
Lemma vpres_next_hop_by_config rt : vpres (next_hop_by_config rt).
Proof.
  apply vpres_mbind; [apply vpres_s_get_to|]. intros t. destruct (fromto_host t) as [h|]; [|apply vpres_merr].
  destruct (find_route rt h); [apply vpres_mret|apply vpres_merr].
Qed.
Lemma vpres_next_request_hop keep rt : vpres (next_request_hop keep rt).
Proof.
  intros m. unfold next_request_hop. pose proof (vpres_next_hop_by_route keep m) as H.
  destruct (next_hop_by_route keep m) as [m1 r]. cbn [fst] in H. destruct r; cbn [fst]; try exact H.
  eapply veq_trans; [exact H|apply vpres_next_hop_by_config].
Qed.
Lemma vpres_try_remove_top_route c from : vpres (try_remove_top_route c from).
Proof.
  apply vpres_mbind; [apply vpres_s_get_route|]. intros [|rp l]; [apply vpres_mret|].
  destruct (na_addr (r_addr rp)); [|apply vpres_mret].
  destruct (_ && _)%bool; [apply vpres_s_pop_route|apply vpres_mret].
Qed.
Lemma vpres_find_backend_by_dialog e p : vpres (find_backend_by_dialog e p).
Proof.
  apply vpres_mbind; [apply vpres_s_get_method|]. intros meth. destruct (_ && _)%bool; [apply vpres_mret|].
  apply vpres_mbind; [apply vpres_mtry, vpres_s_get_dialog|]. intros [d|]; [|apply vpres_mret].
  destruct (pins_get (e_now e) d (ps_pins p)) as [pins1 ob]. cbv zeta.
  destruct (_ && _)%bool; [apply vpres_mret|].
  apply vpres_mbind; [apply vpres_mtry, vpres_s_get_raw|]. intros ss. apply vpres_mret.
Qed.
Lemma vpres_handle_dialog e peer port p : vpres (handle_dialog e peer port p).
Proof.
  apply vpres_mbind.
  - destruct (alookup _ (ps_backends p)); [apply vpres_mret|].
    apply vpres_mbind; [apply vpres_s_client_transaction|intros tid].
    destruct (pins_get (e_now e) tid (ps_pins p)) as [pins1 ob].
    apply vpres_mbind; [apply (vpres_read (fun m => Ok (is_final_response m)))|intros fin; apply vpres_mret].
  - intros [p1 ob]. destruct ob as [b|]; [|apply vpres_mret].
    apply vpres_mbind; [apply vpres_mtry, vpres_s_get_method|]. intros [meth|]; [|apply vpres_mret].
    destruct (beq meth (s2b "INVITE")).
    + apply vpres_mbind; [apply vpres_mtry, vpres_s_get_dialog|intros od].
      apply vpres_mbind; [apply vpres_s_get_expires|intros ex]. destruct od; apply vpres_mret.
    + destruct (beq meth (s2b "BYE")); [|apply vpres_mret].
      apply vpres_mbind; [apply vpres_mtry, vpres_s_get_dialog|intros od]. destruct od; apply vpres_mret.
Qed.

(* ---- AddVia / AddRecordRoute ---- *)
Lemma via_name_VIA : is_via_name VIA = true. Proof. vm_compute. reflexivity. Qed.
Lemma insert_at_app {A} (pre l : list A) x : insert_at (List.length pre) x (pre ++ l) = pre ++ x :: l.
Proof. unfold insert_at. induction pre as [|a r IH]; cbn; [reflexivity|]. f_equal. exact IH. Qed.
Lemma via_view_cons_via h hs : is_via_name (h_name h) = true -> via_view (h :: hs) = hval_vias (h_val h) :: via_view hs.
Proof. intros H. apply (via_view_at [] h hs); [reflexivity|exact H]. Qed.

Lemma add_via_view v m :
  via_hdrs (add_via v m) = Some [v] :: via_hdrs m /\ m_start (add_via v m) = m_start m /\ m_body (add_via v m) = m_body m.
Proof.
  split; [|split; reflexivity]. unfold via_hdrs, add_via. cbn [m_headers with_headers]. fold VIA.
  destruct (via_view (m_headers m)) as [|x t] eqn:E.
  - apply via_view_nil in E. unfold find_header_pos. rewrite find_pos_from_nomatch by exact E.
    change (insert_at 0 ?h (m_headers m)) with (h :: m_headers m).
    rewrite via_view_cons_via by exact via_name_VIA. cbn [h_val hval_vias].
    rewrite (nomatch_via_view _ E). reflexivity.
  - destruct (via_view_cons _ _ _ E) as (pre & h & post & H1 & H2 & H3 & H4 & H5).
    rewrite H1. unfold find_header_pos. rewrite find_pos_from_at by assumption. cbn [Nat.add].
    rewrite insert_at_app. rewrite via_view_at by (try exact H2; exact via_name_VIA).
    cbn [h_val hval_vias]. rewrite via_view_cons_via by exact H3. rewrite H4, H5. reflexivity.
Qed.
Lemma add_record_route_veq r m : veq m (add_record_route r m).
Proof.
  repeat split. unfold via_hdrs, add_record_route. cbn [m_headers with_headers].
  apply via_view_insert_other. vm_compute. reflexivity.
Qed.
Lemma px_add_record_route_veq must t m : veq m (px_add_record_route must t m).
Proof. unfold px_add_record_route. destruct (_ && _)%bool; [apply veq_refl|apply add_record_route_veq]. Qed.

(* the Via entry the proxy pushes for the listener [t] *)
Definition own_via (branch : bytes) (t : stransport) : via_param :=
  via_set_param (s2b "branch") branch (create_via_param (t_proto t) (t_addr t) (t_port t)).
Lemma pushed_view e must t m :
  via_hdrs (px_add_record_route must t (px_add_via e t m)) = Some [own_via (e_branch e) t] :: via_hdrs m.
Proof.
  destruct (px_add_record_route_veq must t (px_add_via e t m)) as (_ & _ & H). rewrite H.
  unfold px_add_via. apply add_via_view.
Qed.

(* an output of the proxy carrying a message whose Via view is [vh], possibly beneath the
   proxy's own entry (pushed when the next hop was learned, or towards a backend) *)
Definition relayed_as (br : bytes) (vh : list (option (list via_param))) (o : output) : Prop :=
  match fst o with
  | DDial _ _ _ => snd o = []
  | _ => exists m', snd o = write_message m' /\
                    (via_hdrs m' = vh \/ exists t, via_hdrs m' = Some [own_via br t] :: vh)
  end.

Lemma out_is_relayed br vh m o :
  (via_hdrs m = vh \/ exists t, via_hdrs m = Some [own_via br t] :: vh) -> out_is m o -> relayed_as br vh o.
Proof. unfold out_is, relayed_as. intros H. destruct (fst o); intros Ho; try exact Ho; exists m; split; assumption. Qed.

Lemma send_to_backend_outs e m x :
  exists outs, x_outs (fst (send_to_backend e m x)) = x_outs x ++ outs /\ Forall (relayed_as (e_branch e) (via_hdrs m)) outs /\
               x_conns (fst (send_to_backend e m x)) = x_conns x.
Proof.
  assert (NIL : exists outs, x_outs x = x_outs x ++ outs /\ Forall (relayed_as (e_branch e) (via_hdrs m)) outs /\ x_conns x = x_conns x).
  { exists []. split; [symmetry; apply app_nil_r|split; [constructor|reflexivity]]. }
  unfold send_to_backend. destruct (negb (ps_has_rr (x_p x))); [exact NIL|].
  destruct (first_transport (e_lc e)) as [t0|]; [|exact NIL].
  pose proof (vpres_find_backend_by_dialog e (x_p x) m) as V.
  destruct (find_backend_by_dialog e (x_p x) m) as [m1 r]. cbn [fst] in V.
  set (pb := match r with Ok v => v | _ => (x_p x, None) end). destruct pb as [p1 ob].
  set (b := match ob with Some b => b | None => BRR end).
  set (m2 := px_add_record_route _ t0 (px_add_via e t0 m1)).
  assert (V2 : via_hdrs m2 = Some [own_via (e_branch e) t0] :: via_hdrs m).
  { subst m2. rewrite pushed_view. destruct V as (_ & _ & ->). reflexivity. }
  destruct (backend_send b (write_message m2) p1) as [[p2 outs] ok] eqn:EB.
  assert (F : Forall (relayed_as (e_branch e) (via_hdrs m)) outs).
  { destruct (backend_send_outs _ _ _ _ _ _ EB) as [->|(ip & port & ->)]; [constructor|].
    constructor; [|constructor]. unfold relayed_as. cbn. exists m2. split; [reflexivity|]. right. exists t0. exact V2. }
  destruct ok.
  - destruct (mtry s_client_transaction m2) as [m3 tid]. cbn. exists outs. repeat split. exact F.
  - cbn. exact NIL.
Qed.

Lemma handle_request_outs e from m x : is_request m = true ->
  exists outs, x_outs (fst (handle_message e from m x)) = x_outs x ++ outs /\
               Forall (relayed_as (e_branch e) (via_hdrs m)) outs.
Proof.
  intros Hq. unfold handle_message. rewrite Hq.
  pose proof (vpres_next_request_hop (c_keep_next_hop (e_cfg e)) (route_table_of (e_cfg e)) m) as V.
  destruct (next_request_hop _ _ m) as [m1 r]. cbn [fst] in V. destruct V as (_ & _ & V).
  assert (BK : exists outs, x_outs (fst (if is_my_message (new_my_name (c_name (e_cfg e))) from m1
                                          then send_to_backend e m1 x else (x, m1))) = x_outs x ++ outs /\
                            Forall (relayed_as (e_branch e) (via_hdrs m)) outs).
  { destruct (is_my_message _ from m1).
    - destruct (send_to_backend_outs e m1 x) as (outs & H1 & H2 & _). exists outs. rewrite V in H2. split; assumption.
    - exists []. split; [symmetry; apply app_nil_r|constructor]. }
  destruct r as [[[host port] tr]| |]; try exact BK.
  set (m2 := match alookup host (x_learned x) with Some t => _ | None => m1 end).
  assert (V2 : via_hdrs m2 = via_hdrs m \/ exists t, via_hdrs m2 = Some [own_via (e_branch e) t] :: via_hdrs m).
  { subst m2. destruct (alookup host (x_learned x)) as [t|].
    - right. exists t. rewrite pushed_view, V. reflexivity.
    - left. exact V. }
  destruct (send_message_out_is e host port tr m2 x) as (outs & H1 & H2). exists outs. split; [exact H1|].
  eapply Forall_impl; [|exact H2]. intros o. apply out_is_relayed.
  destruct (veq_sent_msg m2) as (_ & _ & ->). exact V2.
Qed.

(* C07_pipeline.  For EVERY request, state, listener and source: whatever process_message sends
   carries the request's Via headers with the sender's entry (first entry of the first Via
   header) stamped iff the receiving server transport has received-support [rs]; with
   rs = false, or when the first Via header is undecodable/empty, the Via headers are relayed
   as they came.  The proxy's own entry, when pushed, sits in a header of its own on top. *)
Theorem C07_pipeline : forall e peer port from rs tcp m0 x x',
  is_request m0 = true ->
  process_message e peer port from rs tcp m0 x = Ok x' ->
  exists outs, x_outs x' = x_outs x ++ outs /\
               Forall (relayed_as (e_branch e) (stamp_hdrs rs peer port (via_hdrs m0))) outs.
Proof.
  intros e peer port from rs tcp m0 x x' Hq. unfold process_message.
  set (LP := if (is_request m0 && negb (amem peer (ps_backends (x_p x))))%bool then _ else (m0, x_learned x)).
  assert (VL : veq m0 (fst LP)).
  { subst LP. destruct (_ && _)%bool; [|apply veq_refl].
    destruct (s_all_via_params_spec m0) as (_ & A & B & C). destruct (s_all_via_params m0) as [m' vs].
    cbn in *. repeat split; assumption. }
  clearbody LP. destruct LP as [m1 l1]. cbn [fst] in VL.
  rewrite (veq_is_request _ _ VL), Hq.
  set (m2 := if (true && rs)%bool then _ else m1).
  assert (V2 : m_start m2 = m_start m0 /\ via_hdrs m2 = stamp_hdrs rs peer port (via_hdrs m0)).
  { subst m2. destruct VL as (A & _ & C). destruct rs; cbn [andb].
    - destruct (s_set_received_view peer port m1) as (S1 & _ & S3). rewrite S1, S3, A, C. split; reflexivity.
    - split; assumption. }
  destruct V2 as (V2a & V2b).
  assert (Q2 : is_request m2 = true) by (unfold is_request in *; rewrite V2a; exact Hq).
  clearbody m2.
  set (TP := match tcp with Some c => _ | None => (m2, Ok (x_p x)) end).
  assert (VT : veq m2 (fst TP)).
  { subst TP. destruct tcp as [c|]; [|apply veq_refl]. rewrite Q2.
    pose proof (vpres_mtry _ vpres_next_response_hop m2) as VH.
    destruct (mtry next_response_hop m2) as [m' hop]. cbn [fst] in VH.
    destruct hop as [oh| |]; try exact VH.
    destruct (if has_prefix _ _ then _ else _) as [host| |]; try exact VH.
    destruct oh as [hh|]; [|exact VH].
    pose proof (vpres_mtry _ vpres_s_client_transaction m') as VC.
    destruct (mtry s_client_transaction m') as [m'' tid]. cbn [fst] in VC.
    assert (VV : veq m2 m'') by (eapply veq_trans; eassumption).
    destruct tid as [[t|]| |]; try exact VV.
    destruct (get_transport _ _ _ _ _ _) as [p1 rk]. destruct rk; exact VV. }
  clearbody TP. destruct TP as [m3 rp]. cbn [fst] in VT.
  destruct rp as [p1| |]; try discriminate. intros H. cbv zeta in H.
  set (m4 := fst (mtry (try_remove_top_route (e_cfg e) from) m3)) in H.
  assert (V4 : veq m3 m4) by (apply (vpres_mtry _ (vpres_try_remove_top_route _ _))).
  assert (V : veq m2 m4) by (eapply veq_trans; eassumption).
  assert (Q4 : is_request m4 = true) by (rewrite (veq_is_request _ _ V); exact Q2).
  assert (R4 : is_response m4 = false) by (unfold is_response; rewrite Q4; reflexivity).
  clearbody m4. rewrite R4 in H. injection H as <-.
  match goal with |- context [handle_message e from m4 ?x1] =>
    destruct (handle_request_outs e from m4 x1 Q4) as (outs & H1 & H2) end.
  cbn [x_outs] in H1. exists outs. split; [exact H1|].
  destruct V as (_ & _ & V). rewrite V, V2b in H2. exact H2.
Qed.

(* ====================================================================== Part 5: wiring *)
(* startProxy, repaired argument order: every constructor receives !no-received *)
Theorem C07_wiring : forall lc,
  item_rs_of true lc = negb (lc_no_received lc) /\
  pa_received_support (wire_proxy lc) = negb (lc_no_received lc).
Proof. intros lc. split; reflexivity. Qed.

(* ... and before the repair the listeners were given defRoute (an unexported field of the
   YAML record: false for every configuration file) *)
Theorem C07_wiring_legacy : forall lc, item_rs_of false lc = lc_def_route lc.
Proof. reflexivity. Qed.

(* the receiving transports of a step: UDP listener and accepted connections read e_item_rs *)
Lemma mk_env_item_rs fx c li lc now br :
  e_item_rs (mk_env fx c (item_rs_of (fx_wiring fx)) li lc now br) = item_rs_of (fx_wiring fx) lc.
Proof. reflexivity. Qed.

(* the TCP connections: every connection the proxy ever knows (accepted on a listener, or
   dialled towards a next hop) has the YAML option of its listen entry *)
Definition wired (c : cfg) (cs : list conn) : Prop :=
  forall cn, In cn cs -> forall lc, nth_opt (c_listens c) (cn_li cn) = Some lc ->
             cn_received_support cn = negb (lc_no_received lc).
Definition grows (li : nat) (rs : bool) (cs cs' : list conn) : Prop :=
  forall cn, In cn cs' ->
    (exists cn0, In cn0 cs /\ cn_li cn = cn_li cn0 /\ cn_received_support cn = cn_received_support cn0) \/
    (cn_li cn = li /\ cn_received_support cn = rs).
Lemma grows_refl li rs cs : grows li rs cs cs.
Proof. intros cn H. left. exists cn. repeat split. exact H. Qed.
Lemma grows_trans li rs a b c : grows li rs a b -> grows li rs b c -> grows li rs a c.
Proof.
  intros H1 H2 cn H. destruct (H2 cn H) as [(cn0 & I0 & A & B)|N]; [|right; exact N].
  destruct (H1 cn0 I0) as [(cn1 & I1 & A1 & B1)|[A1 B1]].
  - left. exists cn1. repeat split; [exact I1|congruence|congruence].
  - right. split; congruence.
Qed.
Lemma wired_grows c li lc cs cs' : nth_opt (c_listens c) li = Some lc -> wired c cs ->
  grows li (negb (lc_no_received lc)) cs cs' -> wired c cs'.
Proof.
  intros EL W G cn H lc' E'. destruct (G cn H) as [(cn0 & I0 & A & B)|[A B]].
  - rewrite B. apply (W cn0 I0). rewrite <- A. exact E'.
  - rewrite A in E'. rewrite EL in E'. injection E' as <-. exact B.
Qed.
Lemma close_conn_keeps c cs cn : In cn (close_conn c cs) ->
  exists cn0, In cn0 cs /\ cn_li cn = cn_li cn0 /\ cn_received_support cn = cn_received_support cn0.
Proof.
  induction cs as [|x r IH]; cbn; [intros []|].
  destruct (Nat.eqb (cn_id x) c).
  - intros [<-|H].
    + exists x. repeat split. left. reflexivity.
    + exists cn. repeat split. right. exact H.
  - intros [<-|H].
    + exists x. repeat split. left. reflexivity.
    + destruct (IH H) as (cn0 & I0 & A & B). exists cn0. repeat split; [right; exact I0|exact A|exact B].
Qed.
Lemma close_conn_grows li rs c cs : grows li rs cs (close_conn c cs).
Proof. intros cn H. left. apply (close_conn_keeps c). exact H. Qed.
Lemma tcp_client_send_grows n : forall li local rs id b p cs w outs p' cs' w' outs' ok,
  tcp_client_send n li local rs id b p cs w outs = (p', cs', w', outs', ok) -> grows li rs cs cs'.
Proof.
  induction n as [|n IH]; intros li local rs id b p cs w outs p' cs' w' outs' ok; cbn [tcp_client_send].
  - intros H. injection H as <- <- <- <- <-. apply grows_refl.
  - destruct (find_client id (ps_clients p)) as [cl|]; [|intros H; injection H as <- <- <- <- <-; apply grows_refl].
    destruct (tc_cached cl) as [c|].
    + destruct (conn_open cs c); [intros H; injection H as <- <- <- <- <-; apply grows_refl|].
      intros H. exact (IH _ _ _ _ _ _ _ _ _ _ _ _ _ _ H).
    + destruct (existsb _ (w_tcp_listeners w)); [|intros H; injection H as <- <- <- <- <-; apply grows_refl].
      intros H. injection H as <- <- <- <- <-.
      intros cn I. apply in_app_or in I. destruct I as [I|[<-|[]]].
      * left. exists cn. repeat split. exact I.
      * right. split; reflexivity.
Qed.
Lemma failover_send_grows li local rs f b p cs w p' cs' w' outs ok f' :
  failover_send li local rs f b p cs w = (p', cs', w', outs, ok, f') -> grows li rs cs cs'.
Proof.
  unfold failover_send.
  assert (SEC : forall f1 p' cs' w' outs0 outs ok f',
            match fo_sec f1 with
            | Some id => let '(p2, cs2, w2, outs2, ok) := tcp_client_send 2 li local rs id b p cs w outs0 in
                         (p2, cs2, w2, outs2, ok, f1)
            | None => (p, cs, w, outs0, false, f1)
            end = (p', cs', w', outs, ok, f') -> grows li rs cs cs').
  { intros f1 p2 cs2 w2 outs0 outs2 ok2 f2. destruct (fo_sec f1) as [id|].
    - destruct (tcp_client_send 2 li local rs id b p cs w outs0) as [[[[p3 cs3] w3] outs3] ok3] eqn:E.
      intros H. injection H as <- <- <- <- <- <-. exact (tcp_client_send_grows _ _ _ _ _ _ _ _ _ _ _ _ _ _ _ E).
    - intros H. injection H as <- <- <- <- <- <-. apply grows_refl. }
  destruct (fo_pri f) as [[ip port|ip port|c ex]|].
  - destruct (fits_datagram b); [intros H; injection H as <- <- <- <- <- <-; apply grows_refl|apply SEC].
  - destruct (fits_datagram b); [intros H; injection H as <- <- <- <- <- <-; apply grows_refl|apply SEC].
  - destruct (conn_open cs c); [intros H; injection H as <- <- <- <- <- <-; apply grows_refl|apply SEC].
  - apply SEC.
Qed.
Lemma send_message_grows e host port tr m x :
  grows (e_li e) (pa_received_support (wire_proxy (e_lc e))) (x_conns x) (x_conns (fst (send_message e host port tr m x))).
Proof.
  unfold send_message. destruct (mtry s_client_transaction m) as [m1 tid].
  destruct (get_transport _ _ _ _ _ _) as [p1 rkey].
  destruct rkey as [key| |]; try apply grows_refl.
  match goal with |- context [alookup key (ps_table ?p2)] => set (P2 := p2) end.
  destruct (alookup key (ps_table P2)) as [f|]; [|apply grows_refl].
  match goal with |- context [failover_send ?a ?b ?c ?d ?e ?f ?g ?h] =>
    destruct (failover_send a b c d e f g h) as [[[[[p4 cs] w] outs] ok] f'] eqn:EF end.
  cbn. exact (failover_send_grows _ _ _ _ _ _ _ _ _ _ _ _ _ _ EF).
Qed.
Ltac send_grows :=
  match goal with |- grows _ _ _ (x_conns (fst (send_message ?e ?h ?p ?t ?m ?X))) =>
    exact (send_message_grows e h p t m X) end.
Lemma handle_message_grows e from m x :
  grows (e_li e) (pa_received_support (wire_proxy (e_lc e))) (x_conns x) (x_conns (fst (handle_message e from m x))).
Proof.
  unfold handle_message. destruct (is_request m).
  - destruct (next_request_hop _ _ m) as [m1 r].
    assert (BK : grows (e_li e) (pa_received_support (wire_proxy (e_lc e))) (x_conns x)
                   (x_conns (fst (if is_my_message (new_my_name (c_name (e_cfg e))) from m1
                                  then send_to_backend e m1 x else (x, m1))))).
    { destruct (is_my_message _ from m1); [|apply grows_refl].
      destruct (send_to_backend_outs e m1 x) as (outs & _ & _ & ->). apply grows_refl. }
    destruct r as [[[host port] tr]| |]; try exact BK. send_grows.
  - destruct (mtry s_pop_via m) as [m1 r1]. destruct (mtry next_response_hop m1) as [m2 hop].
    destruct (mtry s_get_method m2) as [m3 ometh].
    destruct hop as [[[[h p] t]|]| |]; try apply grows_refl.
    destruct ometh as [[meth|]| |]; try send_grows.
    destruct (beq meth (s2b "SUBSCRIBE")); [|send_grows].
    destruct (alookup _ (ps_backends (x_p x))); [|send_grows].
    destruct (mtry s_get_dialog m3) as [m' od]. destruct od as [[d|]| |]; send_grows.
Qed.
Lemma process_message_grows e peer port from rs tcp m0 x x' :
  process_message e peer port from rs tcp m0 x = Ok x' ->
  grows (e_li e) (pa_received_support (wire_proxy (e_lc e))) (x_conns x) (x_conns x').
Proof.
  unfold process_message.
  destruct (if (is_request m0 && _)%bool then _ else _) as [m1 l1].
  destruct (match tcp with Some c => _ | None => _ end) as [m3 rp].
  destruct rp as [p1| |]; try discriminate. cbv zeta.
  destruct (if is_response _ then _ else _) as [m5 p2].
  intros H. injection H as <-.
  match goal with |- grows _ _ _ (x_conns (fst (handle_message ?e ?f ?m ?X))) =>
    exact (handle_message_grows e f m X) end.
Qed.
Lemma tcp_messages_grows f : forall e c s x x', tcp_messages f e c s x = Ok x' ->
  grows (e_li e) (pa_received_support (wire_proxy (e_lc e))) (x_conns x) (x_conns x').
Proof.
  induction f as [|f IH]; intros e c s x x'; cbn [tcp_messages].
  - intros H. injection H as <-. apply grows_refl.
  - destruct (trim_left s); [intros H; injection H as <-; apply grows_refl|].
    destruct (parse_message s) as [[m rest]| |].
    + destruct (process_message e _ _ _ _ _ m x) as [x1| |] eqn:EP; try discriminate.
      intros H. eapply grows_trans; [exact (process_message_grows _ _ _ _ _ _ _ _ _ EP)|exact (IH _ _ _ _ _ H)].
    + intros H. injection H as <-. cbn. apply close_conn_grows.
    + intros H. injection H as <-. cbn. apply close_conn_grows.
Qed.

Theorem C07_wired_step : forall fx c now br st ev st' outs,
  fx_wiring fx = true -> wired c (st_conns st) ->
  proxy_step fx c now br st ev = Ok (st', outs) -> wired c (st_conns st').
Proof.
  intros fx c now br st ev st' outs Hfx W H. destruct ev as [li src sport data|li src sport|cid data|cid|li a|li a]; cbn [proxy_step] in H.
  - destruct (nth_opt (c_listens c) li) as [lc|] eqn:EL; [|injection H as <- <-; exact W].
    destruct (parse_message data) as [[m rest]| |]; try (injection H as <- <-; exact W).
    unfold run_ctx in H. destruct (nth_p (st_proxies st) li) as [p|]; [|injection H as <- <-; exact W].
    destruct (process_message _ _ _ _ _ _ _ _) as [x'| |] eqn:EP; try discriminate.
    injection H as <- <-. cbn [st_conns]. apply process_message_grows in EP.
    exact (wired_grows c li lc _ _ EL W EP).
  - destruct (nth_opt (c_listens c) li) as [lc|] eqn:EL; [|injection H as <- <-; exact W].
    destruct (nth_p (st_proxies st) li) as [p|]; [|injection H as <- <-; exact W].
    destruct (get_transport _ _ _ _ _ _) as [p1 rk]. injection H as <- <-. cbn [st_conns].
    intros cn I. apply in_app_or in I. destruct I as [I|[<-|[]]]; [exact (W cn I)|].
    cbn [cn_li cn_received_support]. intros lc' E'. rewrite EL in E'. injection E' as <-.
    cbn. rewrite Hfx. reflexivity.
  - destruct (find _ (st_conns st)) as [cn|]; [|injection H as <- <-; exact W].
    destruct (cn_open cn); [|injection H as <- <-; exact W].
    destruct (nth_opt (c_listens c) (cn_li cn)) as [lc|] eqn:EL; [|injection H as <- <-; exact W].
    unfold run_ctx in H. destruct (nth_p (st_proxies st) (cn_li cn)) as [p|]; [|injection H as <- <-; exact W].
    destruct (tcp_messages _ _ _ _ _) as [x'| |] eqn:EP; try discriminate.
    injection H as <- <-. cbn [st_conns]. apply tcp_messages_grows in EP.
    exact (wired_grows c (cn_li cn) lc _ _ EL W EP).
  - injection H as <- <-. cbn [st_conns].
    intros cn I lc E. destruct (close_conn_keeps _ _ _ I) as (cn0 & I0 & A & B).
    rewrite B. apply (W cn0 I0). rewrite <- A. exact E.
  - destruct (nth_p (st_proxies st) li) as [p|]; injection H as <- <-; exact W.
  - destruct (nth_p (st_proxies st) li) as [p|]; [|injection H as <- <-; exact W].
    destruct (rr_remove a (ps_rr p)) as [r' closed]. injection H as <- <-. exact W.
Qed.

Theorem C07_wired_init : forall c now tl, wired c (st_conns (init_state c now tl)).
Proof. intros c now tl cn []. Qed.

(* all states reachable from the initial one, under any events, clocks and branches *)
Inductive reachable (fx : fixes) (c : cfg) : state -> Prop :=
| reach_init : forall now tl, reachable fx c (init_state c now tl)
| reach_step : forall st now br ev st' outs, reachable fx c st ->
                 proxy_step fx c now br st ev = Ok (st', outs) -> reachable fx c st'.
Theorem C07_wired_reachable : forall fx c st, fx_wiring fx = true -> reachable fx c st -> wired c (st_conns st).
Proof.
  intros fx c st Hfx R. induction R as [now tl|st now br ev st' outs R IH H].
  - apply C07_wired_init.
  - exact (C07_wired_step _ _ _ _ _ _ _ _ Hfx IH H).
Qed.

(* outputs are only ever appended *)
Lemma handle_message_ext e from m x : exists os, x_outs (fst (handle_message e from m x)) = x_outs x ++ os.
Proof.
  destruct (is_request m) eqn:Hq.
  - destruct (handle_request_outs e from m x Hq) as (os & H & _). exists os. exact H.
  - unfold handle_message. rewrite Hq.
    destruct (mtry s_pop_via m) as [m6 r1]. destruct (mtry next_response_hop m6) as [m7 hop].
    destruct (mtry s_get_method m7) as [m8 ometh].
    destruct (match hop with Ok _ => _ | Err => _ | Panic => _ end) as [m9 p9].
    destruct hop as [[[[h pt] tr]|]| |]; try (exists []; symmetry; apply app_nil_r).
    match goal with |- context [send_message ?e ?h ?p ?t ?m ?X] =>
      destruct (send_message_out_is e h p t m X) as (os & Ho & _) end. exists os. exact Ho.
Qed.
Lemma process_message_ext e peer port from rs tcp m x x' :
  process_message e peer port from rs tcp m x = Ok x' -> exists os, x_outs x' = x_outs x ++ os.
Proof.
  unfold process_message.
  destruct (if (is_request m && _)%bool then _ else _) as [m1 l1].
  destruct (match tcp with Some c => _ | None => _ end) as [m3 rp].
  destruct rp as [p1| |]; try discriminate. cbv zeta.
  destruct (if is_response _ then _ else _) as [m5 p2]. intros H. injection H as <-.
  match goal with |- context [handle_message ?e ?f ?m ?X] => exact (handle_message_ext e f m X) end.
Qed.

(* ====================================================================== Part 6: proxy_step *)
(* the outputs of one TCP chunk, message by message (generic in the per-message statement Q;
   reused by C02.v): the messages handled are a prefix of the chunk's message stream *)
Lemma tcp_messages_outs (Q : message -> list output -> Prop) e c :
  (forall m x x', process_message e (cn_peer c) (cn_peer_port c) (cn_from c) (cn_received_support c)
                                  (Some (cn_id c)) m x = Ok x' ->
                  exists os, x_outs x' = x_outs x ++ os /\ Q m os) ->
  forall f s x x', tcp_messages f e c s x = Ok x' ->
  exists oss, x_outs x' = x_outs x ++ List.concat oss /\
              Forall2 Q (firstn (List.length oss) (parse_stream f s)) oss.
Proof.
  intros HQ. induction f as [|f IH]; intros s x x'; cbn [tcp_messages].
  - intros H. injection H as <-. exists []. split; [symmetry; apply app_nil_r|constructor].
  - destruct (trim_left s); [intros H; injection H as <-; exists []; split; [symmetry; apply app_nil_r|constructor]|].
    cbn [parse_stream]. destruct (parse_message s) as [[m rest]| |].
    + destruct (process_message e _ _ _ _ _ m x) as [x1| |] eqn:EP; try discriminate.
      intros H. destruct (HQ _ _ _ EP) as (os & H1 & H2). destruct (IH _ _ _ H) as (oss & H3 & H4).
      exists (os :: oss). split.
      * cbn [List.concat]. rewrite H3, H1, app_assoc. reflexivity.
      * cbn [List.length firstn]. constructor; assumption.
    + intros H. injection H as <-. exists []. split; [symmetry; apply app_nil_r|constructor].
    + intros H. injection H as <-. exists []. split; [symmetry; apply app_nil_r|constructor].
Qed.

(* a datagram on listener li: the receiving transport's received-support is what the
   listener was created with *)
Theorem C07_step_udp : forall fx c now br st li src sport data lc m rest st' outs,
  nth_opt (c_listens c) li = Some lc -> parse_message data = Ok (m, rest) -> is_request m = true ->
  proxy_step fx c now br st (EvUdp li src sport data) = Ok (st', outs) ->
  Forall (relayed_as br (stamp_hdrs (item_rs_of (fx_wiring fx) lc) src sport (via_hdrs m))) outs.
Proof.
  intros fx c now br st li src sport data lc m rest st' outs EL EP Hq H.
  cbn [proxy_step] in H. rewrite EL, EP in H. unfold run_ctx in H.
  destruct (nth_p (st_proxies st) li) as [p|]; [|injection H as <- <-; constructor].
  destruct (process_message _ _ _ _ _ _ _ _) as [x'| |] eqn:E; try discriminate.
  injection H as <- <-. destruct (C07_pipeline _ _ _ _ _ _ _ _ _ Hq E) as (os & H1 & H2).
  cbn in H1. rewrite H1. exact H2.
Qed.

(* the tree as it is now (wiring repaired): the YAML option decides *)
Corollary C07_step_udp_fixed : forall c now br st li src sport data lc m rest st' outs,
  nth_opt (c_listens c) li = Some lc -> parse_message data = Ok (m, rest) -> is_request m = true ->
  proxy_step all_fixed c now br st (EvUdp li src sport data) = Ok (st', outs) ->
  Forall (relayed_as br (stamp_hdrs (negb (lc_no_received lc)) src sport (via_hdrs m))) outs.
Proof. intros. eapply (C07_step_udp all_fixed); eassumption. Qed.

(* a chunk on TCP connection cid (accepted or dialled): per message of the chunk, in order *)
Theorem C07_step_tcp : forall fx c now br st cid data cn lc st' outs,
  find (fun x => Nat.eqb (cn_id x) cid) (st_conns st) = Some cn ->
  nth_opt (c_listens c) (cn_li cn) = Some lc ->
  proxy_step fx c now br st (EvTcpData cid data) = Ok (st', outs) ->
  exists oss, outs = List.concat oss /\
    Forall2 (fun m os => is_request m = true ->
               Forall (relayed_as br (stamp_hdrs (cn_received_support cn) (cn_peer cn) (cn_peer_port cn) (via_hdrs m))) os)
            (firstn (List.length oss) (parse_stream (S (List.length data)) data)) oss.
Proof.
  intros fx c now br st cid data cn lc st' outs EF EL H.
  cbn [proxy_step] in H. rewrite EF in H.
  destruct (cn_open cn); [|injection H as <- <-; exists []; split; [reflexivity|constructor]].
  rewrite EL in H. unfold run_ctx in H.
  destruct (nth_p (st_proxies st) (cn_li cn)) as [p|]; [|injection H as <- <-; exists []; split; [reflexivity|constructor]].
  destruct (tcp_messages _ _ _ _ _) as [x'| |] eqn:E; try discriminate.
  injection H as <- <-.
  refine (tcp_messages_outs _ _ _ _ _ _ _ _ E).
  intros m x x1 EP. destruct (is_request m) eqn:Hq.
  - destruct (C07_pipeline _ _ _ _ _ _ _ _ _ Hq EP) as (os & H1 & H2). exists os. split; [exact H1|]. intros _. exact H2.
  - destruct (process_message_ext _ _ _ _ _ _ _ _ _ EP) as (os & Ho). exists os. split; [exact Ho|]. discriminate.
Qed.

(* in every reachable state of the repaired tree the connection's received-support is the
   YAML option of its listen entry: accepted and dialled connections alike *)
Corollary C07_step_tcp_fixed : forall c now br st cid data cn lc st' outs,
  reachable all_fixed c st ->
  find (fun x => Nat.eqb (cn_id x) cid) (st_conns st) = Some cn ->
  nth_opt (c_listens c) (cn_li cn) = Some lc ->
  proxy_step all_fixed c now br st (EvTcpData cid data) = Ok (st', outs) ->
  exists oss, outs = List.concat oss /\
    Forall2 (fun m os => is_request m = true ->
               Forall (relayed_as br (stamp_hdrs (negb (lc_no_received lc)) (cn_peer cn) (cn_peer_port cn) (via_hdrs m))) os)
            (firstn (List.length oss) (parse_stream (S (List.length data)) data)) oss.
Proof.
  intros c now br st cid data cn lc st' outs R EF EL H.
  assert (W : cn_received_support cn = negb (lc_no_received lc)).
  { apply (C07_wired_reachable all_fixed c st eq_refl R cn); [|exact EL]. apply find_some in EF. apply EF. }
  rewrite <- W. eapply C07_step_tcp; eassumption.
Qed.

(* ====================================================================== Examples (non-vacuity) *)
Module C07_examples.
Open Scope string_scope.
Open Scope list_scope.
Open Scope Z_scope.
Definition ex_lc (nr : bool) : listen_cfg :=
  {| lc_addr := s2b "127.0.0.1"; lc_udp := 5060; lc_tcp := 5060; lc_backends := []; lc_dynamic := false;
     lc_no_received := nr; lc_def_route := false; lc_must_rr := false |}.
Definition ex_cfg (nr : bool) : cfg :=
  {| c_name := s2b "proxy.example"; c_keep_next_hop := false; c_dialog_timeout := 60; c_routes := [];
     c_hosts := []; c_listens := [ex_lc nr] |}.
Definition ln (s : string) : bytes := s2b s ++ crlf.
Definition text (lines : list string) : bytes := flat_map ln lines ++ crlf.
Definition ex_req (vias : list string) (route : string) : bytes :=
  text (["INVITE sip:bob@example.com SIP/2.0"] ++ vias ++ [route; "CSeq: 1 INVITE"; "Content-Length: 0"]).
Definition ex_out (vias : list string) : bytes :=
  text (["INVITE sip:bob@example.com SIP/2.0"] ++ vias ++ ["CSeq: 1 INVITE"; "Content-Length: 0"]).
Fixpoint run (fx : fixes) (c : cfg) (st : state) (evs : list event) : list (list output) :=
  match evs with
  | [] => []
  | ev :: r => match proxy_step fx c 0 (s2b "z9hG4bKpx") st ev with
               | Ok (st', outs) => outs :: run fx c st' r
               | _ => []
               end
  end.
Definition legacy_wiring : fixes :=
  {| fx_wiring := false; fx_udp_via_listener := true; fx_indialog_invite := true; fx_bracket_host := true; fx_resolved_key := true; fx_stale_pin := true |}.
Definition rt := "Route: <sip:10.0.0.2:5070;lr>".
Definition src := s2b "127.0.0.9".
Definition hop := DUdp (s2b "10.0.0.2") 5070.

(* the packet comes from 127.0.0.9:40000 while the Via names 10.9.9.9:5070 *)
Example valueless_rport_filled :
  run all_fixed (ex_cfg false) (init_state (ex_cfg false) 0 [])
      [EvUdp 0 src 40000 (ex_req ["Via: SIP/2.0/UDP 10.9.9.9:5070;rport;branch=z9hG4bKabc"] rt)] =
  [[(hop, ex_out ["Via: SIP/2.0/UDP 10.9.9.9:5070;rport=40000;branch=z9hG4bKabc;received=127.0.0.9"])]].
Proof. vm_compute. reflexivity. Qed.

Example spoofed_received_rport_overwritten :
  run all_fixed (ex_cfg false) (init_state (ex_cfg false) 0 [])
      [EvUdp 0 src 40000 (ex_req ["Via: SIP/2.0/UDP 10.9.9.9:5070;received=6.6.6.6;rport=1;branch=z9hG4bKabc"] rt)] =
  [[(hop, ex_out ["Via: SIP/2.0/UDP 10.9.9.9:5070;received=127.0.0.9;rport=40000;branch=z9hG4bKabc"])]].
Proof. vm_compute. reflexivity. Qed.

Example no_rport_none_added :
  run all_fixed (ex_cfg false) (init_state (ex_cfg false) 0 [])
      [EvUdp 0 src 40000 (ex_req ["Via: SIP/2.0/UDP 10.9.9.9:5070;branch=z9hG4bKabc"] rt)] =
  [[(hop, ex_out ["Via: SIP/2.0/UDP 10.9.9.9:5070;branch=z9hG4bKabc;received=127.0.0.9"])]].
Proof. vm_compute. reflexivity. Qed.

Example no_received_untouched :
  run all_fixed (ex_cfg true) (init_state (ex_cfg true) 0 [])
      [EvUdp 0 src 40000 (ex_req ["Via: SIP/2.0/UDP 10.9.9.9:5070;rport;branch=z9hG4bKabc"] rt)] =
  [[(hop, ex_out ["Via: SIP/2.0/UDP 10.9.9.9:5070;rport;branch=z9hG4bKabc"])]].
Proof. vm_compute. reflexivity. Qed.

(* compact / odd-case names, comma list: only the first entry of the first Via header changes *)
Example layouts :
  run all_fixed (ex_cfg false) (init_state (ex_cfg false) 0 [])
      [EvUdp 0 src 40000 (ex_req ["v: SIP/2.0/UDP 10.9.9.9:5070;rport;branch=z9hG4bKabc, SIP/2.0/TCP 10.8.8.8;branch=z9hG4bKdef";
                                  "VIA: SIP/2.0/UDP 10.7.7.7:5062;branch=z9hG4bKghi"] rt)] =
  [[(hop, ex_out ["v: SIP/2.0/UDP 10.9.9.9:5070;rport=40000;branch=z9hG4bKabc;received=127.0.0.9,SIP/2.0/TCP 10.8.8.8;branch=z9hG4bKdef";
                  "VIA: SIP/2.0/UDP 10.7.7.7:5062;branch=z9hG4bKghi"])]].
Proof. vm_compute. reflexivity. Qed.

(* the proxy's own entry goes on top in a header of its own (next hop learned by the first event) *)
Example own_via_on_top :
  run all_fixed (ex_cfg false) (init_state (ex_cfg false) 0 [])
      [EvUdp 0 (s2b "10.0.0.2") 5070 (ex_req ["Via: SIP/2.0/UDP 10.0.0.2:5070;branch=z9hG4bKq"] "Route: <sip:10.0.0.4;lr>");
       EvUdp 0 src 40000 (ex_req ["Via: SIP/2.0/UDP 10.9.9.9:5070;rport;branch=z9hG4bKabc"] rt)] =
  [[(DUdp (s2b "10.0.0.4") 5060, ex_out ["Via: SIP/2.0/UDP 10.0.0.2:5070;branch=z9hG4bKq;received=10.0.0.2"])];
   [(hop, ex_out ["Via: SIP/2.0/UDP 127.0.0.1:5060;branch=z9hG4bKpx";
                  "Via: SIP/2.0/UDP 10.9.9.9:5070;rport=40000;branch=z9hG4bKabc;received=127.0.0.9"])]].
Proof. vm_compute. reflexivity. Qed.

(* TCP: a request on an ACCEPTED connection (0) is relayed over a connection the proxy DIALS
   (1); a request arriving on the dialled connection is stamped with that peer's address *)
Example tcp_accepted_and_dialled :
  run all_fixed (ex_cfg false) (init_state (ex_cfg false) 0 [(s2b "10.0.0.2", 5070)])
      [EvTcpAccept 0 src 40001;
       EvTcpData 0 (ex_req ["Via: SIP/2.0/TCP 10.9.9.9:5070;rport;branch=z9hG4bKabc"] "Route: <sip:10.0.0.2:5070;lr;transport=tcp>");
       EvTcpData 1 (ex_req ["Via: SIP/2.0/TCP 10.5.5.5;rport=7;branch=z9hG4bKxyz"] "Route: <sip:10.0.0.3:5080;lr>")] =
  [[];
   [(DDial (s2b "10.0.0.2") 5070 1, []);
    (DConn 1, ex_out ["Via: SIP/2.0/TCP 10.9.9.9:5070;rport=40001;branch=z9hG4bKabc;received=127.0.0.9"])];
   [(DUdp (s2b "10.0.0.3") 5080, ex_out ["Via: SIP/2.0/TCP 10.5.5.5;rport=5070;branch=z9hG4bKxyz;received=10.0.0.2"])]].
Proof. vm_compute. reflexivity. Qed.

(* before the repair of startProxy: `no-received` absent/false in the YAML file, yet the
   request leaves without received/rport (the listeners were given defRoute = false) *)
Example C07_wiring_legacy_refuted :
  lc_no_received (ex_lc false) = false /\
  item_rs_of (fx_wiring legacy_wiring) (ex_lc false) = false /\
  run legacy_wiring (ex_cfg false) (init_state (ex_cfg false) 0 [])
      [EvUdp 0 src 40000 (ex_req ["Via: SIP/2.0/UDP 10.9.9.9:5070;rport;branch=z9hG4bKabc"] rt)] =
  [[(hop, ex_out ["Via: SIP/2.0/UDP 10.9.9.9:5070;rport;branch=z9hG4bKabc"])]].
Proof. split; [reflexivity|]. split; [reflexivity|]. vm_compute. reflexivity. Qed.

(* the hypotheses of C07_stamp hold of a decoded datagram: Via spelled "v", second header *)
Example C07_stamp_ex :
  exists m rest' pre h post v rest,
    parse_message (text ["INVITE sip:bob@example.com SIP/2.0"; "Max-Forwards: 70";
                         "v: SIP/2.0/UDP 10.9.9.9:5070;rport, SIP/2.0/TCP 10.8.8.8"; "Content-Length: 0"]) = Ok (m, rest') /\
    m_headers m = pre ++ h :: post /\ pre <> [] /\ nomatch VIA pre /\ same_header (h_name h) VIA = true /\
    hval_vias (h_val h) = Some (v :: rest) /\ rest <> [] /\
    via_hdrs (fst (s_set_received src 40000 m)) = [Some (stamp src 40000 v :: rest)] /\
    v_params (stamp src 40000 v) =
      [{| k_key := s2b "rport"; k_val := s2b "40000" |}; {| k_key := s2b "received"; k_val := src |}].
Proof.
  eexists. eexists. eexists [_]. eexists. eexists. eexists. eexists.
  split; [vm_compute; reflexivity|]. split; [vm_compute; reflexivity|]. split; [discriminate|].
  split; [vm_compute; reflexivity|]. split; [vm_compute; reflexivity|]. split; [vm_compute; reflexivity|].
  split; [discriminate|]. split; vm_compute; reflexivity.
Qed.
End C07_examples.

(* ====================================================================== closed proofs *)
Print Assumptions C07_stamp.
Print Assumptions C07_stamp_params.
Print Assumptions C07_kv_set_char.
Print Assumptions C07_pipeline.
Print Assumptions C07_wiring.
Print Assumptions C07_wiring_legacy.
Print Assumptions C07_wired_step.
Print Assumptions C07_wired_reachable.
Print Assumptions C07_step_udp.
Print Assumptions C07_step_udp_fixed.
Print Assumptions C07_step_tcp.
Print Assumptions C07_step_tcp_fixed.
Print Assumptions C07_examples.C07_wiring_legacy_refuted.
