(* proofs/C19.v — DNS re-resolution: the rotation tracks the resolved address set; three
   consecutive failures are tolerated, the fourth empties the set.  For ALL outcome sequences.
   Main results: chp_inj, C19_tracks, C19_tolerates, C19_fourth_empties, C19_success_resets,
   C19_inv_step, C19_judged, resolver_run_obs.  No axioms, no admits. *)
From Coq Require Import List Ascii String ZArith Bool Arith Lia Permutation.
From Model Require Import Bytes BytesLemmas Wire RoundRobin Resolver SpecC19 Run.
Import ListNotations.
Open Scope list_scope.

(* ------------------------------------------------------------------ small list facts *)
Lemma mem_bytes_in x l : mem_bytes x l = true <-> In x l.
Proof.
  unfold mem_bytes. rewrite existsb_exists. split.
  - intros (y & Hy & E). apply beq_eq in E. subst y. exact Hy.
  - intros H. exists x. split; [exact H|apply beq_refl].
Qed.

Lemma mem_bytes_notin x l : mem_bytes x l = false <-> ~ In x l.
Proof.
  split.
  - intros E H. apply mem_bytes_in in H. congruence.
  - intros H. destruct (mem_bytes x l) eqn:E; [|reflexivity].
    apply mem_bytes_in in E. contradiction.
Qed.

Lemma nodup_b_iff l : nodup_b l = true <-> NoDup l.
Proof.
  induction l as [|x r IH]; cbn.
  - split; [intros _; constructor|reflexivity].
  - rewrite andb_true_iff, negb_true_iff, mem_bytes_notin, IH. split.
    + intros [H1 H2]. constructor; assumption.
    + intros H. inversion H; subst. split; assumption.
Qed.

Lemma lbeq_refl l : lbeq l l = true.
Proof. induction l as [|x r IH]; cbn; [reflexivity|]. rewrite beq_refl, IH. reflexivity. Qed.

Lemma lbeq_eq a b : lbeq a b = true <-> a = b.
Proof.
  split; [|intros ->; apply lbeq_refl].
  revert b. induction a as [|x a IH]; intros [|y b] H; cbn in H; try discriminate; [reflexivity|].
  apply andb_true_iff in H. destruct H as [H1 H2].
  apply beq_eq in H1. apply IH in H2. subst. reflexivity.
Qed.

Lemma subset_b_iff a b : subset_b a b = true <-> incl a b.
Proof.
  unfold subset_b, incl. rewrite forallb_forall. split.
  - intros H x Hx. apply mem_bytes_in. apply H. exact Hx.
  - intros H x Hx. apply mem_bytes_in. apply H. exact Hx.
Qed.

Lemma nodup_map_inj {A B} (f : A -> B) l :
  (forall x y, f x = f y -> x = y) -> NoDup l -> NoDup (map f l).
Proof.
  intros Hinj ND. induction ND as [|x l Hx ND IH]; cbn; constructor; [|exact IH].
  intros H. apply in_map_iff in H. destruct H as (y & E & Hy).
  apply Hinj in E. subst y. contradiction.
Qed.

Lemma nodup_app_disj {A} (l1 l2 : list A) :
  NoDup l1 -> NoDup l2 -> (forall x, In x l1 -> ~ In x l2) -> NoDup (l1 ++ l2).
Proof.
  intros N1 N2 D. induction N1 as [|x l Hx N1 IH]; cbn; [exact N2|].
  constructor.
  - intros H. apply in_app_iff in H. destruct H as [H|H]; [contradiction|].
    apply (D x); [left; reflexivity|exact H].
  - apply IH. intros y Hy. apply D. right. exact Hy.
Qed.

Lemma in_sub x a b : In x (str_array_sub a b) <-> In x a /\ ~ In x b.
Proof.
  unfold str_array_sub. rewrite filter_In, negb_true_iff, mem_bytes_notin. tauto.
Qed.

Lemma nodup_sub a b : NoDup a -> NoDup (str_array_sub a b).
Proof. intros H. apply NoDup_filter. exact H. Qed.

Lemma in_dec_bytes (x : bytes) l : In x l \/ ~ In x l.
Proof.
  destruct (mem_bytes x l) eqn:E; [left; apply mem_bytes_in|right; apply mem_bytes_notin]; exact E.
Qed.

(* ------------------------------------------------------------------ remove_first / remove_all *)
Lemma in_remove_all a l x : In x (remove_all a l) <-> In x l /\ x <> a.
Proof.
  induction l as [|y r IH]; cbn; [tauto|].
  destruct (beq_spec a y) as [E|E]; cbn; rewrite IH.
  - subst y. split; [tauto|]. intros [[H|H] Hn]; [congruence|tauto].
  - split.
    + intros [H|H]; [|tauto]. subst y. split; [tauto|congruence].
    + tauto.
Qed.

Lemma in_remove_first_incl a l x : In x (remove_first a l) -> In x l.
Proof.
  induction l as [|y r IH]; cbn; [tauto|].
  destruct (beq a y); cbn; tauto.
Qed.

Lemma nodup_remove_first a l : NoDup l -> NoDup (remove_first a l).
Proof.
  intros ND. induction ND as [|y r Hy ND IH]; cbn; [constructor|].
  destruct (beq a y); [exact ND|]. constructor; [|exact IH].
  intros H. apply Hy. apply (in_remove_first_incl a). exact H.
Qed.

Lemma in_remove_first_nodup a l x : NoDup l -> (In x (remove_first a l) <-> In x l /\ x <> a).
Proof.
  intros ND. induction ND as [|y r Hy ND IH]; cbn; [tauto|].
  destruct (beq_spec a y) as [E|E]; cbn.
  - subst y. split.
    + intros H. split; [tauto|]. intros ->. contradiction.
    + intros [[H|H] Hn]; [congruence|exact H].
  - rewrite IH. split.
    + intros [H|H]; [|tauto]. subst y. split; [tauto|congruence].
    + tauto.
Qed.

(* ------------------------------------------------------------------ createHostPort is injective *)
Definition chp (port ip : bytes) : bytes := create_host_port ip port.

Lemma is_ipv6_in ip : is_ipv6 ip = true <-> In ":"%char ip.
Proof. apply contains_byte_in. Qed.

Lemma chp_mixed port ip ip' :
  is_ipv6 ip = true -> is_ipv6 ip' = false ->
  s2b "[" ++ ip ++ s2b "]:" ++ port <> ip' ++ ":"%char :: port.
Proof.
  intros E1 E2 H.
  assert (H' : ("["%char :: ip ++ ["]"%char]) ++ ":"%char :: port = ip' ++ ":"%char :: port).
  { rewrite <- H. cbn. rewrite <- app_assoc. reflexivity. }
  apply app_inv_tail in H'. subst ip'.
  apply is_ipv6_in in E1.
  assert (E3 : is_ipv6 ("["%char :: ip ++ ["]"%char]) = true).
  { apply is_ipv6_in. right. apply in_or_app. left. exact E1. }
  congruence.
Qed.

(* the two formats are distinguishable: brackets are used exactly when ip contains ':' *)
Theorem chp_inj port ip ip' :
  create_host_port ip port = create_host_port ip' port -> ip = ip'.
Proof.
  unfold create_host_port.
  destruct (is_ipv6 ip) eqn:E1; destruct (is_ipv6 ip') eqn:E2; intros H.
  - cbn in H. injection H as H. apply app_inv_tail in H. exact H.
  - exfalso. exact (chp_mixed port ip ip' E1 E2 H).
  - exfalso. symmetry in H. exact (chp_mixed port ip' ip E2 E1 H).
  - apply app_inv_tail in H. exact H.
Qed.

Lemma in_map_chp port ip l : In (chp port ip) (map (chp port) l) <-> In ip l.
Proof.
  split; [|apply in_map].
  intros H. apply in_map_iff in H. destruct H as (y & E & Hy).
  apply chp_inj in E. subst y. exact Hy.
Qed.

Lemma nodup_map_chp port l : NoDup l -> NoDup (map (chp port) l).
Proof. apply nodup_map_inj. intros x y. apply chp_inj. Qed.

(* ------------------------------------------------------------------ hostIPChanged *)
Definition add_fun (port : bytes) := fun (s : rr) (ip : bytes) => rr_add (chp port ip) s.
Definition rm_fun (port : bytes) : rr * list rr_out -> bytes -> rr * list rr_out :=
  fun '(s, outs) ip => let '(s', c) := rr_remove (chp port ip) s in (s', outs ++ [ORemoved c]).

Lemma hic_unfold port nw rm s :
  host_ip_changed port nw rm s = fold_left (rm_fun port) rm (fold_left (add_fun port) nw s, []).
Proof. reflexivity. Qed.

Lemma add_fold_backends port nw : forall s,
  rr_backends (fold_left (add_fun port) nw s) = rr_backends s ++ map (chp port) nw.
Proof.
  induction nw as [|a nw IH]; intros s; cbn [fold_left map].
  - rewrite app_nil_r. reflexivity.
  - rewrite IH. unfold add_fun at 1. cbn [rr_add rr_backends]. rewrite <- app_assoc. reflexivity.
Qed.

Lemma rr_add_map_in a s x : In x (rr_map (rr_add a s)) <-> In x (rr_map s) \/ a = x.
Proof.
  cbn [rr_add rr_map]. destruct (mem_bytes a (rr_map s)) eqn:E.
  - split; [tauto|]. intros [H|H]; [exact H|]. subst x. apply mem_bytes_in. exact E.
  - rewrite in_app_iff. cbn. tauto.
Qed.

Lemma add_fold_map port nw : forall s x,
  In x (rr_map (fold_left (add_fun port) nw s)) <-> In x (rr_map s) \/ In x (map (chp port) nw).
Proof.
  induction nw as [|a nw IH]; intros s x; cbn [fold_left map In].
  - tauto.
  - rewrite IH. unfold add_fun at 1. rewrite rr_add_map_in. tauto.
Qed.

Lemma removed_true_app outs n :
  (outs ++ [ORemoved true]) ++ repeat (ORemoved true) n = outs ++ repeat (ORemoved true) (S n).
Proof. rewrite <- app_assoc. reflexivity. Qed.

Lemma remove_fold port rm : forall s outs,
  NoDup (rr_backends s) ->
  (forall x, In x (rr_map s) <-> In x (rr_backends s)) ->
  NoDup (map (chp port) rm) ->
  (forall ip, In ip rm -> In (chp port ip) (rr_backends s)) ->
  exists s',
    fold_left (rm_fun port) rm (s, outs) = (s', outs ++ repeat (ORemoved true) (List.length rm)) /\
    NoDup (rr_backends s') /\
    (forall x, In x (rr_map s') <-> In x (rr_backends s')) /\
    (forall x, In x (rr_backends s') <-> In x (rr_backends s) /\ ~ In x (map (chp port) rm)).
Proof.
  induction rm as [|a rm IH]; intros s outs ND EQ NDr HIn.
  - exists s. cbn. rewrite app_nil_r. repeat split; try assumption; try tauto; apply EQ; assumption.
  - cbn [fold_left]. unfold rm_fun at 2. unfold rr_remove.
    assert (Ha : In (chp port a) (rr_backends s)) by (apply HIn; left; reflexivity).
    assert (Hm : mem_bytes (chp port a) (rr_map s) = true) by (apply mem_bytes_in, EQ, Ha).
    assert (Hb : mem_bytes (chp port a) (rr_backends s) = true) by (apply mem_bytes_in, Ha).
    rewrite Hm, Hb.
    inversion NDr as [|a' l' Hna NDr']; subst.
    set (s1 := {| rr_index := rr_index s; rr_backends := remove_first (chp port a) (rr_backends s);
                  rr_map := remove_all (chp port a) (rr_map s) |}).
    destruct (IH s1 (outs ++ [ORemoved true])) as (s' & Hf & ND' & EQ' & HIn').
    + apply nodup_remove_first. exact ND.
    + intros x. cbn [s1 rr_map rr_backends].
      rewrite in_remove_all, (in_remove_first_nodup _ _ _ ND), EQ. tauto.
    + exact NDr'.
    + intros ip Hip. cbn [s1 rr_backends]. apply (in_remove_first_nodup _ _ _ ND). split.
      * apply HIn. right. exact Hip.
      * intros E. apply Hna. rewrite <- E. apply in_map. exact Hip.
    + exists s'. split; [|split; [exact ND'|split; [exact EQ'|]]].
      * rewrite Hf. cbn [List.length]. f_equal. apply removed_true_app.
      * intros x. rewrite HIn'. cbn [s1 rr_backends map In].
        rewrite (in_remove_first_nodup _ _ _ ND). split.
        -- intros [[H1 H2] H3]. split; [exact H1|]. intros [H|H]; [congruence|contradiction].
        -- intros [H1 H2]. split; [split; [exact H1|]|].
           ++ intros E. apply H2. left. symmetry. exact E.
           ++ intros H. apply H2. right. exact H.
Qed.

(* hostIPChanged on a consistent pool: new addresses not yet in rotation, vanished ones in it *)
Lemma hic_spec port nw rm s :
  NoDup (rr_backends s) ->
  (forall x, In x (rr_map s) <-> In x (rr_backends s)) ->
  NoDup nw -> (forall ip, In ip nw -> ~ In (chp port ip) (rr_backends s)) ->
  NoDup rm -> (forall ip, In ip rm -> In (chp port ip) (rr_backends s)) ->
  exists s',
    host_ip_changed port nw rm s = (s', repeat (ORemoved true) (List.length rm)) /\
    NoDup (rr_backends s') /\
    (forall x, In x (rr_map s') <-> In x (rr_backends s')) /\
    (forall x, In x (rr_backends s') <->
               (In x (rr_backends s) \/ In x (map (chp port) nw)) /\ ~ In x (map (chp port) rm)).
Proof.
  intros ND EQ NDn Hn NDr Hr. rewrite hic_unfold.
  set (s1 := fold_left (add_fun port) nw s).
  assert (B1 : rr_backends s1 = rr_backends s ++ map (chp port) nw) by apply add_fold_backends.
  destruct (remove_fold port rm s1 []) as (s' & Hf & ND' & EQ' & HIn').
  - rewrite B1. apply nodup_app_disj; [exact ND|apply nodup_map_chp; exact NDn|].
    intros x Hx H. apply in_map_iff in H. destruct H as (ip & <- & Hip).
    exact (Hn ip Hip Hx).
  - intros x. unfold s1. rewrite add_fold_map. fold s1. rewrite B1, in_app_iff, EQ. tauto.
  - apply nodup_map_chp. exact NDr.
  - intros ip Hip. rewrite B1. apply in_or_app. left. apply Hr. exact Hip.
  - exists s'. split; [exact Hf|]. split; [exact ND'|]. split; [exact EQ'|].
    intros x. rewrite HIn', B1, in_app_iff. tauto.
Qed.

(* ------------------------------------------------------------------ the invariant *)
(* [e] the host-name entry, [s] the pool: rotation duplicate-free and (up to order) exactly the
   formatted resolved addresses; backendMap (recognised source addresses) has the same elements *)
Definition Inv (port : bytes) (st : rentry * rr) : Prop :=
  NoDup (re_addrs (fst st)) /\
  NoDup (rr_backends (snd st)) /\
  Permutation (rr_backends (snd st)) (map (fun ip => create_host_port ip port) (re_addrs (fst st))) /\
  (forall x, In x (rr_map (snd st)) <-> In x (rr_backends (snd st))).

Lemma Inv_init port : Inv port (rentry_init, rr_init).
Proof.
  unfold Inv. cbn. repeat split; try constructor; tauto.
Qed.

Definition removed_true (x : rr_out) : bool := match x with ORemoved true => true | _ => false end.
Definition removed_count (outs : list rr_out) : nat := List.length (filter removed_true outs).

Lemma removed_count_repeat n : removed_count (repeat (ORemoved true) n) = n.
Proof. unfold removed_count. induction n as [|n IH]; cbn; [reflexivity|]. rewrite IH. reflexivity. Qed.

(* a successful resolution always goes through hostIPChanged (a no-op when nothing changed) *)
Lemma step_ok_unfold port e s A :
  resolver_step port (e, s) (ROk A) =
  let '(s', outs) := host_ip_changed port (str_array_sub A (re_addrs e))
                                     (str_array_sub (re_addrs e) A) s in
  (({| re_addrs := A; re_failed := 0 |}, s'), outs).
Proof.
  unfold resolver_step, address_resolved.
  destruct (str_array_sub A (re_addrs e)) as [|n1 nw];
    destruct (str_array_sub (re_addrs e) A) as [|r1 rm]; reflexivity.
Qed.

(* ------------------------------------------------------------------ C19: success *)
(* After a successful resolution to a duplicate-free A the invariant holds again with
   re_addrs = A, i.e. the rotation is exactly (a permutation of) the formatted resolved
   addresses; one ORemoved true (backend closed) per vanished address and nothing else is
   emitted; vanished addresses are gone from rotation and backendMap, all resolved ones are in
   both; the failure counter is reset. *)
Theorem C19_tracks port e s A e' s' outs :
  Inv port (e, s) -> NoDup A ->
  resolver_step port (e, s) (ROk A) = ((e', s'), outs) ->
  Inv port (e', s') /\
  re_addrs e' = A /\ re_failed e' = 0 /\
  NoDup (rr_backends s') /\
  Permutation (rr_backends s') (map (fun ip => create_host_port ip port) A) /\
  outs = repeat (ORemoved true) (List.length (str_array_sub (re_addrs e) A)) /\
  (forall ip, In ip (re_addrs e) -> ~ In ip A ->
     ~ In (create_host_port ip port) (rr_backends s') /\ ~ In (create_host_port ip port) (rr_map s')) /\
  (forall ip, In ip A ->
     In (create_host_port ip port) (rr_backends s') /\ In (create_host_port ip port) (rr_map s')).
Proof.
  intros (NDa & NDb & P & EQ) NDA Hstep. cbn [fst snd] in *.
  rewrite step_ok_unfold in Hstep.
  change (map (fun ip => create_host_port ip port) (re_addrs e)) with (map (chp port) (re_addrs e)) in P.
  assert (Hbk : forall ip, In (chp port ip) (rr_backends s) <-> In ip (re_addrs e)).
  { intros ip. rewrite <- (in_map_chp port ip (re_addrs e)). split; intros H.
    - apply (Permutation_in _ P). exact H.
    - apply (Permutation_in _ (Permutation_sym P)). exact H. }
  destruct (hic_spec port (str_array_sub A (re_addrs e)) (str_array_sub (re_addrs e) A) s)
    as (s2 & Hh & ND2 & EQ2 & HIn2).
  - exact NDb.
  - exact EQ.
  - apply nodup_sub. exact NDA.
  - intros ip Hip Hx. apply in_sub in Hip. apply Hbk in Hx. tauto.
  - apply nodup_sub. exact NDa.
  - intros ip Hip. apply in_sub in Hip. apply Hbk. tauto.
  - rewrite Hh in Hstep. injection Hstep as <- <- <-.
    assert (Hset : forall x, In x (rr_backends s2) <-> In x (map (chp port) A)).
    { intros x. rewrite HIn2. split.
      - intros [[H|H] Hn].
        + assert (Hx : In x (map (chp port) (re_addrs e))) by (apply (Permutation_in _ P); exact H).
          apply in_map_iff in Hx. destruct Hx as (ip & <- & Hip).
          apply in_map. destruct (in_dec_bytes ip A) as [HA|HA]; [exact HA|].
          exfalso. apply Hn. apply in_map. apply in_sub. tauto.
        + apply in_map_iff in H. destruct H as (ip & <- & Hip).
          apply in_map. apply in_sub in Hip. tauto.
      - intros H. apply in_map_iff in H. destruct H as (ip & <- & Hip). split.
        + destruct (in_dec_bytes ip (re_addrs e)) as [Ho|Ho].
          * left. apply Hbk. exact Ho.
          * right. apply in_map. apply in_sub. tauto.
        + intros H. apply in_map_chp in H. apply in_sub in H. tauto. }
    assert (P2 : Permutation (rr_backends s2) (map (chp port) A)).
    { apply NoDup_Permutation; [exact ND2|apply nodup_map_chp; exact NDA|exact Hset]. }
    split; [|split; [reflexivity|split; [reflexivity|split; [exact ND2|split; [exact P2|split; [reflexivity|split]]]]]].
    + unfold Inv. cbn [fst snd re_addrs]. repeat split; try assumption; apply EQ2; assumption.
    + intros ip Ho HA.
      assert (Hn : ~ In (chp port ip) (rr_backends s2)).
      { intros H. apply Hset in H. apply in_map_chp in H. contradiction. }
      split; [exact Hn|]. intros H. apply Hn. apply EQ2. exact H.
    + intros ip HA.
      assert (Hi : In (chp port ip) (rr_backends s2)) by (apply Hset; apply in_map; exact HA).
      split; [exact Hi|]. apply EQ2. exact Hi.
Qed.

(* a success resets the failure counter and installs the new list, whatever the state *)
Theorem C19_success_resets port e s A :
  fst (fst (resolver_step port (e, s) (ROk A))) = {| re_addrs := A; re_failed := 0 |}.
Proof.
  rewrite step_ok_unfold.
  destruct (host_ip_changed port (str_array_sub A (re_addrs e)) (str_array_sub (re_addrs e) A) s).
  reflexivity.
Qed.

(* ------------------------------------------------------------------ C19: failures *)
(* a failure with fewer than three previous consecutive failures, or with nothing resolved,
   changes nothing but the counter (no invariant needed) *)
Theorem C19_tolerates port e s :
  re_failed e < 3 \/ re_addrs e = [] ->
  resolver_step port (e, s) RFail =
  (({| re_addrs := re_addrs e; re_failed := S (re_failed e) |}, s), []).
Proof.
  intros H. unfold resolver_step, address_resolved.
  destruct H as [H|H].
  - assert (E : Nat.ltb 3 (S (re_failed e)) = false) by (apply Nat.ltb_ge; lia).
    rewrite E. reflexivity.
  - rewrite H. cbn [List.length Nat.eqb negb]. rewrite andb_false_r. reflexivity.
Qed.

(* the fourth consecutive failure (counter already at 3, or more) with a non-empty list: every
   address is removed and closed, rotation and backendMap become empty, counter reset *)
Theorem C19_fourth_empties port e s :
  Inv port (e, s) -> 3 <= re_failed e -> re_addrs e <> [] ->
  exists s',
    resolver_step port (e, s) RFail =
      (({| re_addrs := []; re_failed := 0 |}, s'),
       repeat (ORemoved true) (List.length (re_addrs e))) /\
    rr_backends s' = [] /\ rr_map s' = [] /\
    Inv port ({| re_addrs := []; re_failed := 0 |}, s').
Proof.
  intros (NDa & NDb & P & EQ) Hf Hne. cbn [fst snd] in *.
  change (map (fun ip => create_host_port ip port) (re_addrs e)) with (map (chp port) (re_addrs e)) in P.
  unfold resolver_step, address_resolved.
  assert (E1 : Nat.ltb 3 (S (re_failed e)) = true) by (apply Nat.ltb_lt; lia).
  assert (E2 : Nat.eqb (List.length (re_addrs e)) 0 = false).
  { destruct (re_addrs e); [contradiction|reflexivity]. }
  rewrite E1, E2. cbn [andb negb].
  destruct (hic_spec port [] (re_addrs e) s) as (s2 & Hh & ND2 & EQ2 & HIn2).
  - exact NDb.
  - exact EQ.
  - constructor.
  - intros ip [].
  - exact NDa.
  - intros ip Hip. apply (Permutation_in _ (Permutation_sym P)). apply in_map. exact Hip.
  - exists s2. rewrite Hh.
    assert (B : rr_backends s2 = []).
    { destruct (rr_backends s2) as [|x r] eqn:Eb; [reflexivity|]. exfalso.
      destruct (proj1 (HIn2 x) (or_introl eq_refl)) as [[H|[]] Hn].
      apply Hn. apply (Permutation_in _ P). exact H. }
    assert (M : rr_map s2 = []).
    { destruct (rr_map s2) as [|x r] eqn:Em; [reflexivity|]. exfalso.
      assert (H : In x (rr_backends s2)) by (apply EQ2; left; reflexivity).
      rewrite B in H. exact H. }
    split; [reflexivity|split; [exact B|split; [exact M|]]].
    unfold Inv. cbn [fst snd re_addrs map]. rewrite B, M.
    repeat split; try constructor; tauto.
Qed.

(* the invariant is preserved by every step of the quantifier's domain *)
Theorem C19_inv_step port st o :
  Inv port st -> match o with ROk A => NoDup A | RFail => True end ->
  Inv port (fst (resolver_step port st o)).
Proof.
  intros HI Hd. destruct st as [e s]. destruct o as [|A].
  - destruct (le_lt_dec 3 (re_failed e)) as [Hf|Hf];
      [destruct (re_addrs e) as [|a l] eqn:Ea|].
    + rewrite C19_tolerates by (right; exact Ea). cbn [fst].
      destruct HI as (H1 & H2 & H3 & H4). unfold Inv. cbn [fst snd re_addrs] in *.
      rewrite Ea in *. repeat split; try assumption; apply H4; assumption.
    + destruct (C19_fourth_empties port e s HI Hf) as (s' & Hs & _ & _ & HI').
      * rewrite Ea. discriminate.
      * rewrite Hs. exact HI'.
    + rewrite C19_tolerates by (left; exact Hf). exact HI.
  - destruct (resolver_step port (e, s) (ROk A)) as [[e' s'] outs] eqn:Hs.
    exact (proj1 (C19_tracks port e s A e' s' outs HI Hd Hs)).
Qed.

(* ------------------------------------------------------------------ the judged statement *)
(* the structured observation behind Run.resolver_run *)
Fixpoint resolver_obs (port : bytes) (st : rentry * rr) (os : list outcome) : list c19_obs :=
  match os with
  | [] => []
  | o :: r =>
      let '(st', outs) := resolver_step port st o in
      (rr_backends (snd st'), removed_count outs, re_addrs (fst st')) :: resolver_obs port st' r
  end.

Definition e_c19_obs (x : c19_obs) : list bytes :=
  let '(rot, n, ent) := x in
  e_list (fun a => [a]) rot ++ [e_nat n] ++ e_list (fun a => [a]) ent.

(* what the CLI prints is exactly the encoding of [resolver_obs] *)
Theorem resolver_run_obs port os : forall st,
  resolver_run port st os = flat_map e_c19_obs (resolver_obs port st os).
Proof.
  induction os as [|o r IH]; intros st; cbn [resolver_run resolver_obs]; [reflexivity|].
  destruct (resolver_step port st o) as [st' outs]. cbn [flat_map e_c19_obs].
  rewrite IH. reflexivity.
Qed.

Lemma judged_from port os : forall st,
  Inv port st -> c19_domain os = true ->
  judge_C19_from port (re_addrs (fst st)) (re_failed (fst st)) (rr_backends (snd st))
                 os (resolver_obs port st os) = true.
Proof.
  induction os as [|o r IH]; intros [e s] HI Hd; [reflexivity|].
  cbn [c19_domain forallb] in Hd. apply andb_true_iff in Hd. destruct Hd as [Hd1 Hd2].
  fold (c19_domain r) in Hd2.
  cbn [resolver_obs judge_C19_from fst snd].
  destruct o as [|A].
  - (* failure *)
    rewrite Nat.add_1_r.
    destruct (le_lt_dec 3 (re_failed e)) as [Hf|Hf];
      [destruct (re_addrs e) as [|a l] eqn:Ea|].
    + (* nothing resolved: tolerated whatever the counter *)
      rewrite C19_tolerates by (right; exact Ea). cbn [fst snd re_addrs is_nil negb].
      rewrite andb_false_r, lbeq_refl, Ea.
      cbn [lbeq andb Nat.eqb removed_count filter List.length].
      specialize (IH ({| re_addrs := re_addrs e; re_failed := S (re_failed e) |}, s)).
      cbn [fst snd re_addrs re_failed] in IH. rewrite Ea in IH.
      apply IH; [|exact Hd2].
      destruct HI as (H1 & H2 & H3 & H4). unfold Inv. cbn [fst snd re_addrs] in *.
      rewrite Ea in *. repeat split; try assumption; apply H4; assumption.
    + (* fourth failure *)
      destruct (C19_fourth_empties port e s HI Hf) as (s' & Hs & B & M & HI').
      { rewrite Ea. discriminate. }
      rewrite Hs. cbn [fst snd re_addrs is_nil negb].
      assert (E1 : Nat.ltb 3 (S (re_failed e)) = true) by (apply Nat.ltb_lt; lia).
      rewrite E1, B, removed_count_repeat, Ea, Nat.eqb_refl. cbn [andb is_nil].
      specialize (IH _ HI' Hd2). cbn [fst snd re_addrs re_failed] in IH. rewrite B in IH. exact IH.
    + (* tolerated *)
      rewrite C19_tolerates by (left; exact Hf). cbn [fst snd re_addrs].
      assert (E1 : Nat.ltb 3 (S (re_failed e)) = false) by (apply Nat.ltb_ge; lia).
      rewrite E1, !lbeq_refl. cbn [andb Nat.eqb removed_count filter List.length].
      specialize (IH ({| re_addrs := re_addrs e; re_failed := S (re_failed e) |}, s)).
      cbn [fst snd re_addrs re_failed] in IH.
      apply IH; [exact HI|exact Hd2].
  - (* success *)
    apply nodup_b_iff in Hd1.
    destruct (resolver_step port (e, s) (ROk A)) as [[e' s'] outs] eqn:Hs.
    destruct (C19_tracks port e s A e' s' outs HI Hd1 Hs)
      as (HI' & Ha & Hf & ND' & P' & Ho & _ & _).
    cbn [fst snd]. rewrite Ha, Ho, removed_count_repeat.
    assert (T1 : nodup_b (rr_backends s') = true) by (apply nodup_b_iff; exact ND').
    assert (T2 : subset_b (rr_backends s') (map (fun ip => create_host_port ip port) A) = true).
    { apply subset_b_iff. intros x Hx. apply (Permutation_in _ P'). exact Hx. }
    assert (T3 : subset_b (map (fun ip => create_host_port ip port) A) (rr_backends s') = true).
    { apply subset_b_iff. intros x Hx. apply (Permutation_in _ (Permutation_sym P')). exact Hx. }
    rewrite T1, T2, T3, lbeq_refl. unfold count_vanished, str_array_sub. rewrite Nat.eqb_refl.
    cbn [andb].
    specialize (IH _ HI' Hd2). cbn [fst snd] in IH. rewrite Ha, Hf in IH. exact IH.
Qed.

(* For EVERY sequence of resolution outcomes of the property's domain, what the model produces
   from the initial state satisfies the C19 judge. *)
Theorem C19_judged port os :
  c19_domain os = true -> judge_C19 port os (resolver_obs port (rentry_init, rr_init) os) = true.
Proof.
  intros Hd. unfold judge_C19.
  exact (judged_from port os (rentry_init, rr_init) (Inv_init port) Hd).
Qed.

(* every reachable state of the domain satisfies the invariant *)
Fixpoint resolver_states (port : bytes) (st : rentry * rr) (os : list outcome) : rentry * rr :=
  match os with
  | [] => st
  | o :: r => resolver_states port (fst (resolver_step port st o)) r
  end.

Theorem C19_inv_reachable port os :
  c19_domain os = true -> Inv port (resolver_states port (rentry_init, rr_init) os).
Proof.
  generalize (Inv_init port). generalize (rentry_init, rr_init).
  induction os as [|o r IH]; intros st HI Hd; [exact HI|].
  cbn [c19_domain forallb] in Hd. apply andb_true_iff in Hd. destruct Hd as [Hd1 Hd2].
  cbn [resolver_states]. apply IH; [|exact Hd2].
  apply C19_inv_step; [exact HI|].
  destruct o as [|A]; [exact I|apply nodup_b_iff; exact Hd1].
Qed.

(* ------------------------------------------------------------------ non-vacuity *)
Definition ex_port := s2b "5060".
Definition ip_a := s2b "10.0.0.1".
Definition ip_b := s2b "10.0.0.2".
Definition ip_c := s2b "fe80::1".
Definition ex_os : list outcome :=
  [ROk [ip_a; ip_b]; RFail; RFail; RFail; RFail; ROk [ip_b; ip_c]; ROk [ip_c; ip_b]; ROk []].

Example ex_domain : c19_domain ex_os = true.
Proof. vm_compute. reflexivity. Qed.

(* ok [a;b] ; three failures: unchanged ; fourth: emptied, 2 closed ; ok [b;c] (c is IPv6) ;
   same set in another order: nothing happens ; ok []: both closed *)
Example ex_obs :
  resolver_obs ex_port (rentry_init, rr_init) ex_os =
  [ ([s2b "10.0.0.1:5060"; s2b "10.0.0.2:5060"], 0, [ip_a; ip_b]);
    ([s2b "10.0.0.1:5060"; s2b "10.0.0.2:5060"], 0, [ip_a; ip_b]);
    ([s2b "10.0.0.1:5060"; s2b "10.0.0.2:5060"], 0, [ip_a; ip_b]);
    ([s2b "10.0.0.1:5060"; s2b "10.0.0.2:5060"], 0, [ip_a; ip_b]);
    ([], 2, []);
    ([s2b "10.0.0.2:5060"; s2b "[fe80::1]:5060"], 0, [ip_b; ip_c]);
    ([s2b "10.0.0.2:5060"; s2b "[fe80::1]:5060"], 0, [ip_c; ip_b]);
    ([], 2, []) ].
Proof. vm_compute. reflexivity. Qed.

Example ex_judged : judge_C19 ex_port ex_os (resolver_obs ex_port (rentry_init, rr_init) ex_os) = true.
Proof. vm_compute. reflexivity. Qed.

(* the judge is not trivially true: it rejects a rotation that kept a vanished address, a
   missed close notification, an early emptying and a late one *)
Example ex_judge_rejects_stale :
  judge_C19 ex_port [ROk [ip_a; ip_b]; ROk [ip_b]]
    [ ([s2b "10.0.0.1:5060"; s2b "10.0.0.2:5060"], 0, [ip_a; ip_b]);
      ([s2b "10.0.0.1:5060"; s2b "10.0.0.2:5060"], 1, [ip_b]) ] = false.
Proof. vm_compute. reflexivity. Qed.
Example ex_judge_rejects_unclosed :
  judge_C19 ex_port [ROk [ip_a; ip_b]; ROk [ip_b]]
    [ ([s2b "10.0.0.1:5060"; s2b "10.0.0.2:5060"], 0, [ip_a; ip_b]);
      ([s2b "10.0.0.2:5060"], 0, [ip_b]) ] = false.
Proof. vm_compute. reflexivity. Qed.
Example ex_judge_rejects_early_empty :
  judge_C19 ex_port [ROk [ip_a]; RFail]
    [ ([s2b "10.0.0.1:5060"], 0, [ip_a]); ([], 1, []) ] = false.
Proof. vm_compute. reflexivity. Qed.
Example ex_judge_rejects_late_empty :
  judge_C19 ex_port [ROk [ip_a]; RFail; RFail; RFail; RFail]
    [ ([s2b "10.0.0.1:5060"], 0, [ip_a]); ([s2b "10.0.0.1:5060"], 0, [ip_a]);
      ([s2b "10.0.0.1:5060"], 0, [ip_a]); ([s2b "10.0.0.1:5060"], 0, [ip_a]);
      ([s2b "10.0.0.1:5060"], 0, [ip_a]) ] = false.
Proof. vm_compute. reflexivity. Qed.

(* hypotheses of the readable theorems are satisfiable by non-trivial states *)
Definition ex_state : rentry * rr :=
  fst (resolver_step ex_port (rentry_init, rr_init) (ROk [ip_a; ip_b])).
Definition ex_state3 : rentry * rr :=
  resolver_states ex_port (rentry_init, rr_init) [ROk [ip_a; ip_b]; RFail; RFail; RFail].

Example ex_state_inv : Inv ex_port ex_state /\ re_addrs (fst ex_state) = [ip_a; ip_b].
Proof.
  split; [|vm_compute; reflexivity].
  apply (C19_inv_reachable ex_port [ROk [ip_a; ip_b]]). vm_compute. reflexivity.
Qed.

(* C19_tracks: a takes over from b... a vanishes, c is new *)
Example ex_tracks :
  NoDup [ip_b; ip_c] /\
  resolver_step ex_port ex_state (ROk [ip_b; ip_c]) =
    (({| re_addrs := [ip_b; ip_c]; re_failed := 0 |},
      {| rr_index := 0; rr_backends := [s2b "10.0.0.2:5060"; s2b "[fe80::1]:5060"];
         rr_map := [s2b "10.0.0.2:5060"; s2b "[fe80::1]:5060"] |}),
     [ORemoved true]).
Proof.
  split; [|vm_compute; reflexivity].
  apply nodup_b_iff. vm_compute. reflexivity.
Qed.

(* C19_tolerates / C19_fourth_empties: hypotheses hold in reachable states *)
Example ex_tolerates_hyp : re_failed (fst ex_state) < 3 /\ re_addrs (fst ex_state) <> [].
Proof. split; [vm_compute; lia|vm_compute; discriminate]. Qed.

Example ex_fourth_hyp :
  Inv ex_port ex_state3 /\ 3 <= re_failed (fst ex_state3) /\ re_addrs (fst ex_state3) <> [].
Proof.
  split; [|split; [vm_compute; lia|vm_compute; discriminate]].
  apply (C19_inv_reachable ex_port [ROk [ip_a; ip_b]; RFail; RFail; RFail]). vm_compute. reflexivity.
Qed.

Example ex_chp_formats :
  create_host_port ip_a ex_port = s2b "10.0.0.1:5060" /\
  create_host_port ip_c ex_port = s2b "[fe80::1]:5060".
Proof. split; vm_compute; reflexivity. Qed.

Print Assumptions chp_inj.
Print Assumptions C19_tracks.
Print Assumptions C19_success_resets.
Print Assumptions C19_tolerates.
Print Assumptions C19_fourth_empties.
Print Assumptions C19_inv_step.
Print Assumptions C19_inv_reachable.
Print Assumptions resolver_run_obs.
Print Assumptions C19_judged.
