(* proofs/C14_hdr.v — property C14 for the Route / Record-Route and From / To headers.
   For EVERY well-formed abstract value of SpecC14.v (any number >= 1 of route elements, any
   display name, SIP or other URI, any number of header parameters, valueless or not; name-addr
   or bare addr-spec form for From / To):
     - decoding the reference text yields exactly the embedded abstract value,
     - encoding the embedded value yields the reference text byte for byte,
     - the accessors (tag, host, dialog address) report what the text denotes,
     - the observation made by the correspondence run (Codec.codec_obs) equals
       SpecC14.expected_obs.
   Built on proofs/C14_uri.v (SIP-URI, addr-spec, name-addr).  No axioms, no admits. *)
From Coq Require Import List Ascii String ZArith NArith Bool Lia.
From Model Require Import Bytes BytesLemmas Wire Uri Hdr Message Codec SpecC14.
From Model.proofs Require Import C14_uri.
Import ListNotations.
Open Scope list_scope.

(* ================================================================== header parameters *)
Lemma rp_params_no_comma ps : forallb wf_param ps = true -> ~ In ","%char (rp_params ps).
Proof. intros H. apply (pm_notin ","%char _ eq_refl), rp_params_pm, H. Qed.
Lemma rp_params_no_lt ps : forallb wf_param ps = true -> ~ In "<"%char (rp_params ps).
Proof. intros H. apply (pm_notin "<"%char _ eq_refl), rp_params_pm, H. Qed.

(* what both header decoders do with the text that follows the address: nothing when it is
   empty, otherwise drop the leading ';' and decode the ';'-separated pieces *)
Lemma parse_generic_params_tail p r : forallb wf_param (p :: r) = true ->
  parse_generic_params (split_byte ";"%char (rp_param p ++ rp_params r)) =
  Ok (map embed_param (p :: r)).
Proof. intros H. rewrite split_params by exact H. apply parse_generic_params_ok, H. Qed.

Lemma rp_param_app_nonempty p s : wf_param p = true -> rp_param p ++ s <> [].
Proof.
  intros H E. apply app_eq_nil in E. destruct E as [E _]. exact (rp_param_nonempty p H E).
Qed.

(* ================================================================== one Route element *)
Definition embed_relem (r : a_relem) : route_param :=
  {| r_addr := embed_nameaddr (ar_na r); r_params := map embed_param (ar_params r) |}.

Lemma wf_relem_parts r : wf_relem r = true ->
  wf_nameaddr (ar_na r) = true /\ forallb wf_param (ar_params r) = true.
Proof.
  unfold wf_relem. intros H. apply andb_true_iff in H. destruct H as [H _].
  apply andb_true_iff in H. exact H.
Qed.
Lemma wf_relem_tail r : wf_relem r = true -> ends_with_uspace (rp_params (ar_params r)) = false.
Proof.
  unfold wf_relem. intros H. apply andb_true_iff in H. destruct H as [_ H].
  apply negb_true_iff in H. exact H.
Qed.
(* strings.TrimSpace (Unicode white space) leaves the parameter tail of a well-formed element alone:
   no ASCII blank inside, ';' in front, no Unicode space at the end (the third conjunct of wf_relem,
   which is necessary: BytesLemmas.trim_space_go_ends) *)
Lemma rp_params_trim_go r : wf_relem r = true ->
  trim_space_go (rp_params (ar_params r)) = rp_params (ar_params r).
Proof.
  intros H. destruct (wf_relem_parts r H) as [_ Hps]. apply trim_space_go_nospace.
  - apply rp_params_nospace, Hps.
  - apply starts_with_uspace_ascii. destruct (ar_params r); reflexivity.
  - apply wf_relem_tail, H.
Qed.

Theorem parse_route_param_rp r : wf_relem r = true ->
  parse_route_param (rp_relem r) = Ok (embed_relem r).
Proof.
  intros H. destruct (wf_relem_parts r H) as [Hn Hps].
  unfold parse_route_param, rp_relem.
  destruct (nameaddr_cut (ar_na r) (rp_params (ar_params r)) Hn) as (_ & E2 & _ & E4 & E5).
  rewrite E2, E4, E5, parse_name_addr_rp by exact Hn. cbn [rbind].
  rewrite rp_params_trim_go by exact H.
  unfold embed_relem. destruct (ar_params r) as [|p ps]; [reflexivity|].
  rewrite rp_params_cons. change (Ascii.eqb ";"%char ";"%char) with true. cbv iota.
  rewrite parse_generic_params_tail by exact Hps. reflexivity.
Qed.

(* the third conjunct of wf_relem is needed: "<tel:1>;a=b" followed by U+00A0 (C2 A0) satisfies the
   first two, but strings.TrimSpace cuts the no-break space off the parameter value; with a lone A0
   (not a Unicode space) the element is well-formed and decoded exactly *)
Example relem_uspace_tail_cut :
  let mk v := {| ar_na := {| an_display := []; an_addr := AAOther (s2b "tel:1") |};
                 ar_params := [ {| ap_key := s2b "a"; ap_val := Some ("b"%char :: map ascii_of_nat v) |} ] |} in
  let nbsp := [194%nat; 160%nat] in let lone := [160%nat] in
  wf_nameaddr (ar_na (mk nbsp)) && forallb wf_param (ar_params (mk nbsp)) = true /\
  wf_relem (mk nbsp) = false /\
  parse_route_param (rp_relem (mk nbsp)) = Ok (embed_relem (mk [])) /\
  wf_relem (mk lone) = true /\
  parse_route_param (rp_relem (mk lone)) = Ok (embed_relem (mk lone)).
Proof. cbv zeta. repeat split; vm_compute; reflexivity. Qed.

Theorem route_param_print_embed r : wf_relem r = true ->
  route_param_print (embed_relem r) = rp_relem r.
Proof.
  intros H. destruct (wf_relem_parts r H) as [Hn Hps].
  unfold route_param_print, embed_relem, rp_relem. cbn [r_addr r_params].
  rewrite name_addr_print_embed, print_params_ok by assumption. reflexivity.
Qed.

Theorem obs_route_param_embed r : wf_relem r = true -> obs_route_param (embed_relem r) = x_relem r.
Proof.
  intros H. destruct (wf_relem_parts r H) as [Hn _].
  unfold obs_route_param, embed_relem, x_relem. cbn [r_addr r_params].
  rewrite obs_name_addr_embed, e_kvs_embed by exact Hn. reflexivity.
Qed.

Lemma rp_relem_no_comma r : wf_relem r = true -> ~ In ","%char (rp_relem r).
Proof.
  intros H. destruct (wf_relem_parts r H) as [Hn Hps]. unfold rp_relem.
  apply notin_app; [apply rp_nameaddr_no_comma, Hn|apply rp_params_no_comma, Hps].
Qed.

(* ================================================================== Route / Record-Route lists *)
Lemma parse_all_map {A B} (f : bytes -> res B) (g : A -> bytes) (h : A -> B) (l : list A) :
  (forall x, In x l -> f (g x) = Ok (h x)) -> parse_all f (map g l) = Ok (map h l).
Proof.
  induction l as [|a l IH]; intros H; [reflexivity|].
  cbn [map parse_all]. rewrite H by (left; reflexivity). cbn [rbind].
  rewrite IH by (intros x Hx; apply H; right; exact Hx). reflexivity.
Qed.

Theorem parse_route_rp l : l <> [] -> forallb wf_relem l = true ->
  parse_route (rp_route l) = Ok (map embed_relem l).
Proof.
  intros NE H. rewrite forallb_forall in H. unfold parse_route, rp_route.
  rewrite split_join.
  - apply parse_all_map. intros r Hr. apply parse_route_param_rp, H, Hr.
  - destruct l; [contradiction|discriminate].
  - apply Forall_forall. intros s Hs. apply in_map_iff in Hs. destruct Hs as (r & <- & Hr).
    apply rp_relem_no_comma, H, Hr.
Qed.

Theorem parse_record_route_rp l : l <> [] -> forallb wf_relem l = true ->
  parse_record_route (rp_route l) = Ok (map embed_relem l).
Proof.
  intros NE H. unfold parse_record_route. rewrite parse_route_rp by assumption.
  cbn [rbind]. destruct l; [contradiction|reflexivity].
Qed.

Theorem route_print_embed l : forallb wf_relem l = true -> route_print (map embed_relem l) = rp_route l.
Proof.
  intros H. rewrite forallb_forall in H. unfold route_print, rp_route. f_equal.
  rewrite map_map. apply map_ext_in. intros r Hr. apply route_param_print_embed, H, Hr.
Qed.

Theorem obs_route_embed l : forallb wf_relem l = true ->
  e_list obs_route_param (map embed_relem l) = e_list x_relem l.
Proof.
  intros H. unfold e_list. rewrite map_length. f_equal.
  induction l as [|r l IH]; [reflexivity|].
  cbn [forallb] in H. apply andb_true_iff in H. destruct H as [Hr Hl].
  cbn [map flat_map]. rewrite obs_route_param_embed by exact Hr. rewrite IH by exact Hl. reflexivity.
Qed.

Theorem route_roundtrip l : l <> [] -> forallb wf_relem l = true ->
  exists a, parse_route (rp_route l) = Ok a /\ route_print a = rp_route l /\
            parse_route (route_print a) = Ok a.
Proof.
  intros NE H. exists (map embed_relem l).
  rewrite route_print_embed by exact H. rewrite parse_route_rp by assumption. repeat split.
Qed.

Theorem record_route_roundtrip l : l <> [] -> forallb wf_relem l = true ->
  exists a, parse_record_route (rp_route l) = Ok a /\ route_print a = rp_route l /\
            parse_record_route (route_print a) = Ok a.
Proof.
  intros NE H. exists (map embed_relem l).
  rewrite route_print_embed by exact H. rewrite parse_record_route_rp by assumption. repeat split.
Qed.

Theorem C14_route l : l <> [] -> forallb wf_relem l = true ->
  codec_obs parse_route route_print (e_list obs_route_param) (rp_route l) =
  expected_obs (rp_route l) (e_list x_relem l).
Proof.
  intros NE H. apply codec_obs_exact with (a := map embed_relem l).
  - apply parse_route_rp; assumption.
  - apply route_print_embed, H.
  - apply obs_route_embed, H.
Qed.

Theorem C14_recordroute l : l <> [] -> forallb wf_relem l = true ->
  codec_obs parse_record_route route_print (e_list obs_route_param) (rp_route l) =
  expected_obs (rp_route l) (e_list x_relem l).
Proof.
  intros NE H. apply codec_obs_exact with (a := map embed_relem l).
  - apply parse_record_route_rp; assumption.
  - apply route_print_embed, H.
  - apply obs_route_embed, H.
Qed.

Corollary C14_route_judge l : l <> [] -> forallb wf_relem l = true ->
  judge_C14 (expected_obs (rp_route l) (e_list x_relem l))
            (codec_obs parse_route route_print (e_list obs_route_param) (rp_route l)) = true.
Proof. intros NE H. apply judge_C14_of_eq, C14_route; assumption. Qed.

Corollary C14_recordroute_judge l : l <> [] -> forallb wf_relem l = true ->
  judge_C14 (expected_obs (rp_route l) (e_list x_relem l))
            (codec_obs parse_record_route route_print (e_list obs_route_param) (rp_route l)) = true.
Proof. intros NE H. apply judge_C14_of_eq, C14_recordroute; assumption. Qed.

(* ================================================================== From / To *)
Definition embed_ftaddr (a : a_ftaddr) : ft_addr :=
  match a with AFName n => FtName (embed_nameaddr n) | AFBare x => FtSpec (embed_addr x) end.
Definition embed_fromto (f : a_fromto) : fromto :=
  {| ft_addr_of := embed_ftaddr (af_addr f); ft_params := map embed_param (af_params f) |}.
(* the address a From / To value carries, whichever form it was written in *)
Definition a_ft_addr (f : a_fromto) : a_addr :=
  match af_addr f with AFName n => an_addr n | AFBare a => a end.

Definition wf_ftaddr (a : a_ftaddr) : bool :=
  match a with AFName n => wf_nameaddr n | AFBare x => wf_bare x end.

Lemma wf_fromto_parts f : wf_fromto f = true ->
  wf_ftaddr (af_addr f) = true /\ forallb wf_param (af_params f) = true.
Proof. unfold wf_fromto. intros H. apply andb_true_iff in H. exact H. Qed.

(* the bare form is a restriction of the general address form *)
Lemma wf_bare_addr a : wf_bare a = true -> wf_addr a = true.
Proof.
  destruct a as [u|s]; cbn [wf_bare wf_addr]; intros H; apply andb_true_iff in H; apply H.
Qed.

Lemma wf_fromto_addr f : wf_fromto f = true -> wf_addr (a_ft_addr f) = true.
Proof.
  intros H. destruct (wf_fromto_parts f H) as [Ha _]. unfold a_ft_addr.
  destruct (af_addr f) as [n|a]; cbn [wf_ftaddr] in Ha.
  - apply (wf_nameaddr_parts n Ha).
  - apply wf_bare_addr, Ha.
Qed.

(* a bare address has no ';' : a SIP URI without parameters (and headers), or another URI
   without ';' *)
Lemma rp_bare_no_semi a : wf_bare a = true -> ~ In ";"%char (rp_addr a).
Proof.
  destruct a as [u|s]; cbn [wf_bare rp_addr]; intros H; apply andb_true_iff in H; destruct H as [H1 H2].
  - destruct (au_params u) as [|p ps] eqn:Ep; [|discriminate H2].
    destruct (au_headers u) as [|h hs] eqn:Eh; [|discriminate H2].
    rewrite rp_sipuri_eq2, Ep, Eh. cbn [rp_params flat_map rp_hdrs]. rewrite !app_nil_r.
    apply notin_app; [destruct (au_secure u); cbn; intuition discriminate|].
    apply (hp_notin ";"%char _ eq_refl), rp_core_hp, H1.
  - apply negb_true_iff in H2. intros Hin. apply contains_byte_in in Hin. congruence.
Qed.

(* the shared tail of parse_fromto_with: [finish] *)
Definition ft_finish (a : ft_addr) (params : bytes) : res fromto :=
  match params with
  | [] => Ok {| ft_addr_of := a; ft_params := [] |}
  | _ => let! ps := parse_generic_params (split_byte ";"%char params) in
         Ok {| ft_addr_of := a; ft_params := ps |}
  end.

Lemma ft_finish_tail a p r : forallb wf_param (p :: r) = true ->
  ft_finish a (rp_param p ++ rp_params r) = Ok {| ft_addr_of := a; ft_params := map embed_param (p :: r) |}.
Proof.
  intros H. unfold ft_finish.
  pose proof H as H'. cbn [forallb] in H'. apply andb_true_iff in H'. destruct H' as [Hp _].
  pose proof (rp_param_app_nonempty p (rp_params r) Hp) as NE.
  destruct (rp_param p ++ rp_params r) as [|c s] eqn:E; [contradiction|].
  rewrite <- E, parse_generic_params_tail by exact H. reflexivity.
Qed.

Theorem parse_fromto_rp f : wf_fromto f = true -> parse_fromto (rp_fromto f) = Ok (embed_fromto f).
Proof.
  intros H. destruct (wf_fromto_parts f H) as [Ha Hps].
  unfold parse_fromto, parse_fromto_with, rp_fromto, embed_fromto.
  fold ft_finish.
  destruct (af_addr f) as [n|a]; cbn [wf_ftaddr embed_ftaddr] in *.
  - (* name-addr form *)
    destruct (nameaddr_cut n (rp_params (af_params f)) Ha) as (E1 & E2 & E3 & E4 & E5).
    rewrite E1, E2, E3, E4, E5, parse_name_addr_rp by exact Ha. cbn [rbind].
    destruct (af_params f) as [|p ps].
    + reflexivity.
    + rewrite rp_params_cons. cbn [index_byte]. change (Ascii.eqb ";"%char ";"%char) with true.
      cbv iota. cbn [skipn]. apply ft_finish_tail, Hps.
  - (* bare addr-spec form *)
    pose proof (wf_bare_addr a Ha) as Hw.
    rewrite index_notin
      by (apply notin_app; [apply rp_addr_no_lt, Hw|apply rp_params_no_lt, Hps]).
    destruct (af_params f) as [|p ps].
    + cbn [rp_params flat_map map]. rewrite app_nil_r.
      rewrite index_notin by (apply rp_bare_no_semi, Ha).
      rewrite parse_addr_spec_rp by exact Hw. reflexivity.
    + rewrite rp_params_cons.
      destruct (index_cut ";"%char (rp_addr a) (rp_param p ++ rp_params ps) (rp_bare_no_semi a Ha))
        as (F1 & F2 & F3).
      rewrite F1, F2, F3, parse_addr_spec_rp by exact Hw. cbn [rbind].
      apply ft_finish_tail, Hps.
Qed.

Theorem fromto_print_embed f : wf_fromto f = true -> fromto_print (embed_fromto f) = rp_fromto f.
Proof.
  intros H. destruct (wf_fromto_parts f H) as [Ha Hps].
  unfold fromto_print, embed_fromto, rp_fromto. cbn [ft_addr_of ft_params].
  rewrite print_params_ok by exact Hps.
  destruct (af_addr f) as [n|a]; cbn [wf_ftaddr embed_ftaddr] in *.
  - rewrite name_addr_print_embed by exact Ha. reflexivity.
  - rewrite addr_spec_print_embed by (apply wf_bare_addr, Ha). reflexivity.
Qed.

(* ---- accessors ---- *)
Theorem fromto_tag_embed f : fromto_tag (embed_fromto f) = a_get (s2b "tag") (af_params f).
Proof. unfold fromto_tag, embed_fromto. cbn [ft_params]. apply kv_get_embed. Qed.

Theorem fromto_addr_spec_embed f : fromto_addr_spec (embed_fromto f) = embed_addr (a_ft_addr f).
Proof.
  unfold fromto_addr_spec, embed_fromto, a_ft_addr. cbn [ft_addr_of].
  destruct (af_addr f) as [n|a]; reflexivity.
Qed.

Theorem fromto_host_embed f :
  fromto_host (embed_fromto f) =
  match a_ft_addr f with AASip u => Some (au_host u) | AAOther _ => None end.
Proof.
  unfold fromto_host. rewrite fromto_addr_spec_embed.
  destruct (a_ft_addr f) as [u|s]; reflexivity.
Qed.

(* the dialog half taken from a From / To header *)
Theorem fromto_dialog_addr_embed f : wf_fromto f = true ->
  dialog_addr (fromto_addr_spec (embed_fromto f)) = x_dialog_addr (a_ft_addr f).
Proof.
  intros H. rewrite fromto_addr_spec_embed. apply dialog_addr_embed, wf_fromto_addr, H.
Qed.

Theorem obs_fromto_embed f : wf_fromto f = true -> obs_fromto (embed_fromto f) = x_fromto f.
Proof.
  intros H. destruct (wf_fromto_parts f H) as [Ha _].
  unfold obs_fromto, x_fromto. rewrite fromto_tag_embed, fromto_host_embed.
  unfold embed_fromto, a_ft_addr, x_opt. cbn [ft_addr_of ft_params]. rewrite e_kvs_embed.
  destruct (af_addr f) as [n|a]; cbn [wf_ftaddr embed_ftaddr] in *.
  - rewrite obs_name_addr_embed by exact Ha.
    destruct n as [d [u|s]]; reflexivity.
  - rewrite obs_addr_spec_embed by (apply wf_bare_addr, Ha).
    destruct a as [u|s]; reflexivity.
Qed.

Theorem fromto_roundtrip f : wf_fromto f = true ->
  exists a, parse_fromto (rp_fromto f) = Ok a /\ fromto_print a = rp_fromto f /\
            parse_fromto (fromto_print a) = Ok a.
Proof.
  intros H. exists (embed_fromto f).
  rewrite fromto_print_embed, parse_fromto_rp by exact H. repeat split.
Qed.

Theorem C14_fromto f : wf_fromto f = true ->
  codec_obs parse_fromto fromto_print obs_fromto (rp_fromto f) =
  expected_obs (rp_fromto f) (x_fromto f).
Proof.
  intros H. apply codec_obs_exact with (a := embed_fromto f).
  - apply parse_fromto_rp, H.
  - apply fromto_print_embed, H.
  - apply obs_fromto_embed, H.
Qed.

Corollary C14_fromto_judge f : wf_fromto f = true ->
  judge_C14 (expected_obs (rp_fromto f) (x_fromto f))
            (codec_obs parse_fromto fromto_print obs_fromto (rp_fromto f)) = true.
Proof. intros H. apply judge_C14_of_eq, C14_fromto, H. Qed.

(* ================================================================== witnesses: pre-fix code *)
(* the pre-fix Route encoder wrote the header parameters without ';' *)
Example route_legacy_glues_params :
  let t := s2b "<sip:h;lr>;a=1;b" in
  match parse_route_param t with
  | Ok r => route_param_print_legacy r = s2b "<sip:h;lr>a=1b" /\
            route_param_print_legacy r <> t /\ route_param_print r = t
  | _ => False
  end.
Proof. vm_compute. repeat split. discriminate. Qed.

Definition ex_relem_legacy : a_relem :=
  {| ar_na := {| an_display := [];
                 an_addr := AASip {| au_secure := false; au_user := None; au_host := s2b "h";
                                     au_port := None;
                                     au_params := [ {| ap_key := s2b "lr"; ap_val := None |} ];
                                     au_headers := [] |} |};
     ar_params := [ {| ap_key := s2b "a"; ap_val := Some (s2b "1") |};
                    {| ap_key := s2b "b"; ap_val := None |} ] |}.

(* the same over the domain: a well-formed element on which the legacy encoder is not
   byte-identical, and whose legacy encoding does not even decode to the same value *)
Theorem C14_route_legacy_refuted :
  exists r, wf_relem r = true /\ rp_relem r = s2b "<sip:h;lr>;a=1;b" /\
    route_param_print_legacy (embed_relem r) <> rp_relem r /\
    parse_route_param (route_param_print_legacy (embed_relem r)) <> Ok (embed_relem r).
Proof.
  exists ex_relem_legacy. split; [reflexivity|]. split; [reflexivity|].
  split; vm_compute; discriminate.
Qed.

(* the pre-fix From / To decoder kept the ';' in a bare addr-spec:
   `tel:+1;tag=x` was re-encoded as `tel:+1;;tag=x` *)
Example fromto_legacy_keeps_semicolon :
  let t := s2b "tel:+1;tag=x" in
  match parse_fromto_legacy t, parse_fromto t with
  | Ok f, Ok g => fromto_print f = s2b "tel:+1;;tag=x" /\ fromto_print f <> t /\
                  fromto_addr_spec f = AAbs (s2b "tel:+1;") /\
                  fromto_addr_spec g = AAbs (s2b "tel:+1") /\ fromto_print g = t
  | _, _ => False
  end.
Proof. vm_compute. repeat split. discriminate. Qed.

Definition ex_fromto_legacy : a_fromto :=
  {| af_addr := AFBare (AAOther (s2b "tel:+1"));
     af_params := [ {| ap_key := s2b "tag"; ap_val := Some (s2b "x") |} ] |}.

Theorem C14_fromto_legacy_refuted :
  exists f, wf_fromto f = true /\ rp_fromto f = s2b "tel:+1;tag=x" /\
    parse_fromto_legacy (rp_fromto f) <> Ok (embed_fromto f) /\
    codec_obs parse_fromto_legacy fromto_print obs_fromto (rp_fromto f) <>
    expected_obs (rp_fromto f) (x_fromto f).
Proof.
  exists ex_fromto_legacy. split; [reflexivity|]. split; [reflexivity|].
  split; vm_compute; discriminate.
Qed.

(* the same defect on a SIP URI: the dialog address gets a trailing ';' parameter list *)
Example fromto_legacy_sip :
  match parse_fromto_legacy (s2b "sip:bob@h;tag=9") with
  | Ok f => fromto_print f = s2b "sip:bob@h;;tag=9"
  | _ => False
  end.
Proof. vm_compute. reflexivity. Qed.

(* ================================================================== examples (non-vacuity) *)
Definition ex_relem_a : a_relem :=
  {| ar_na := ex_na_a;
     ar_params := [ {| ap_key := s2b "r2"; ap_val := Some (s2b "on") |};
                    {| ap_key := s2b "ftag"; ap_val := Some (s2b "a=b:c@d/e") |};
                    {| ap_key := s2b "flag"; ap_val := None |} ] |}.
Definition ex_relem_b : a_relem := {| ar_na := ex_na_c; ar_params := [] |}.
Definition ex_relem_c : a_relem :=
  {| ar_na := ex_na_b; ar_params := [ {| ap_key := s2b "lr"; ap_val := None |} ] |}.
Definition ex_route : list a_relem := [ex_relem_a; ex_relem_b; ex_relem_c].

Example ex_route_wf : ex_route <> [] /\ forallb wf_relem ex_route = true.
Proof. split; [discriminate|reflexivity]. Qed.

Example ex_route_text :
  rp_route [ex_relem_b; ex_relem_c] =
  s2b "<sip:10.0.0.7;lr;transport=tls>,Bob <tel:+1-555-0100;phone-context=example.com>;lr".
Proof. vm_compute. reflexivity. Qed.

Example ex_route_decode : parse_route (rp_route ex_route) = Ok (map embed_relem ex_route).
Proof. vm_compute. reflexivity. Qed.

Example ex_route_by_theorem :
  codec_obs parse_route route_print (e_list obs_route_param) (rp_route ex_route) =
  expected_obs (rp_route ex_route) (e_list x_relem ex_route) /\
  codec_obs parse_record_route route_print (e_list obs_route_param) (rp_route ex_route) =
  expected_obs (rp_route ex_route) (e_list x_relem ex_route).
Proof. split; [apply C14_route|apply C14_recordroute]; try discriminate; reflexivity. Qed.

Example ex_route_by_compute :
  list_beq (expected_obs (rp_route ex_route) (e_list x_relem ex_route))
           (codec_obs parse_route route_print (e_list obs_route_param) (rp_route ex_route)) = true.
Proof. vm_compute. reflexivity. Qed.

(* the hypothesis l <> [] is necessary: the empty list prints as "" which does not decode *)
Example route_empty_rejected : parse_route (rp_route []) = Err /\ parse_record_route (rp_route []) = Err.
Proof. split; reflexivity. Qed.

(* From / To: name-addr form with a rich SIP URI, bare SIP form, bare tel: form, name-addr
   form around a urn: with '?' and '&' *)
Definition ex_ft_a : a_fromto :=
  {| af_addr := AFName ex_na_a;
     af_params := [ {| ap_key := s2b "tag"; ap_val := Some (s2b "1928301774") |};
                    {| ap_key := s2b "x"; ap_val := None |} ] |}.
Definition ex_ft_b : a_fromto :=
  {| af_addr := AFBare (AASip ex_uri_c);
     af_params := [ {| ap_key := s2b "flag"; ap_val := None |};
                    {| ap_key := s2b "tag"; ap_val := Some (s2b "a6c85cf") |} ] |}.
Definition ex_ft_c : a_fromto := {| af_addr := AFBare (AAOther (s2b "tel:+1-555-0100")); af_params := [] |}.
Definition ex_ft_d : a_fromto :=
  {| af_addr := AFName {| an_display := s2b "Fire "; an_addr := ex_addr_urn |};
     af_params := [ {| ap_key := s2b "tag"; ap_val := None |} ] |}.

Example ex_ft_wf :
  wf_fromto ex_ft_a = true /\ wf_fromto ex_ft_b = true /\ wf_fromto ex_ft_c = true /\ wf_fromto ex_ft_d = true.
Proof. repeat split. Qed.

Example ex_ft_text :
  rp_fromto ex_ft_b = s2b "sip:+15551234@h:65535;flag;tag=a6c85cf" /\
  rp_fromto ex_ft_c = s2b "tel:+1-555-0100" /\
  rp_fromto ex_ft_d = s2b "Fire <urn:service:sos.fire?x=1&y>;tag".
Proof. vm_compute. repeat split. Qed.

Example ex_ft_decode : parse_fromto (rp_fromto ex_ft_a) = Ok (embed_fromto ex_ft_a).
Proof. vm_compute. reflexivity. Qed.

Example ex_ft_accessors :
  fromto_tag (embed_fromto ex_ft_a) = Some (s2b "1928301774") /\
  fromto_tag (embed_fromto ex_ft_c) = None /\
  fromto_tag (embed_fromto ex_ft_d) = Some [] /\
  fromto_host (embed_fromto ex_ft_b) = Some (s2b "h") /\
  fromto_host (embed_fromto ex_ft_d) = None /\
  dialog_addr (fromto_addr_spec (embed_fromto ex_ft_a)) = s2b "sips:alice:s3cr%20t@gw-1.example.org:5071" /\
  dialog_addr (fromto_addr_spec (embed_fromto ex_ft_b)) = s2b "sip:+15551234@h:65535".
Proof. vm_compute. repeat split. Qed.

Example ex_ft_by_theorem :
  codec_obs parse_fromto fromto_print obs_fromto (rp_fromto ex_ft_a) =
  expected_obs (rp_fromto ex_ft_a) (x_fromto ex_ft_a) /\
  codec_obs parse_fromto fromto_print obs_fromto (rp_fromto ex_ft_b) =
  expected_obs (rp_fromto ex_ft_b) (x_fromto ex_ft_b).
Proof. split; apply C14_fromto; reflexivity. Qed.

Example ex_ft_by_compute :
  forallb (fun f => list_beq (expected_obs (rp_fromto f) (x_fromto f))
                             (codec_obs parse_fromto fromto_print obs_fromto (rp_fromto f)))
          [ex_ft_a; ex_ft_b; ex_ft_c; ex_ft_d] = true.
Proof. vm_compute. reflexivity. Qed.

(* the bare form is restricted by the domain: a SIP URI with parameters must be bracketed,
   otherwise its parameters would be read as header parameters (RFC 3261 20.10) *)
Example ex_ft_bare_params_not_wf :
  wf_fromto {| af_addr := AFBare (AASip ex_uri_b); af_params := [] |} = false /\
  wf_fromto {| af_addr := AFBare ex_addr_tel; af_params := [] |} = false.
Proof. split; reflexivity. Qed.

(* ================================================================== assumptions *)
Print Assumptions parse_route_param_rp.
Print Assumptions route_param_print_embed.
Print Assumptions obs_route_param_embed.
Print Assumptions parse_route_rp.
Print Assumptions parse_record_route_rp.
Print Assumptions route_print_embed.
Print Assumptions obs_route_embed.
Print Assumptions route_roundtrip.
Print Assumptions record_route_roundtrip.
Print Assumptions C14_route.
Print Assumptions C14_recordroute.
Print Assumptions C14_route_judge.
Print Assumptions C14_recordroute_judge.
Print Assumptions parse_fromto_rp.
Print Assumptions fromto_print_embed.
Print Assumptions fromto_tag_embed.
Print Assumptions fromto_addr_spec_embed.
Print Assumptions fromto_host_embed.
Print Assumptions fromto_dialog_addr_embed.
Print Assumptions obs_fromto_embed.
Print Assumptions fromto_roundtrip.
Print Assumptions C14_fromto.
Print Assumptions C14_fromto_judge.
Print Assumptions C14_route_legacy_refuted.
Print Assumptions C14_fromto_legacy_refuted.
