(* C08, the whole-pipeline part: for ALL byte strings, events, configurations and states
   (reachable or not) the modelled pipeline -- decode, learn, stamp, register the connection,
   route, pin, relay, serialise -- never evaluates a guarded Go operation out of bounds
   (never [Panic]), never fails as a whole (never [Err]: every input is either processed or
   discarded), discards what it cannot decode without touching the routing state (TCP: the
   connection is closed) and then serves the traffic that follows as if the bad input had not
   occurred; every message in the input causes at most one relayed message.
   The decode-level part (bufio reader, allocation bound) is C08_parse.v. *)
From Coq Require Import List Ascii String ZArith Bool Arith Lia.
From Model Require Import Bytes Uri Hdr Message Msg Rx Glob StaticRoute RoundRobin Pins Proxy.
Import ListNotations.
Local Open Scope nat_scope.

(* ------------------------------------------------------------------ the typed decoders *)
(* no decoder of a typed header can panic, so no state-passing getter can: the [Panic]
   branches that the proxy swallows (`x, _ := f()`) are dead for every input *)
Lemma parse_all_no_panic {A} (f : bytes -> res A) l :
  (forall s, f s <> Panic) -> parse_all f l <> Panic.
Proof.
  intros Hf. induction l as [|s r IH]; simpl; [discriminate|].
  destruct (f s) eqn:E; simpl; try discriminate; [|exfalso; exact (Hf _ E)].
  destruct (parse_all f r); simpl; try discriminate. exfalso; apply IH; reflexivity.
Qed.

Lemma parse_via_param_no_panic s : parse_via_param s <> Panic.
Proof.
  unfold parse_via_param. destruct (split_byte ";"%char s) as [|t0 ps]; [discriminate|].
  destruct (fields t0) as [|proto [|sentby [|x y]]]; try discriminate.
  destruct (split_byte "/"%char proto) as [|n [|v [|t [|z w]]]]; try discriminate.
  destruct (split_byte ":"%char sentby) as [|h [|p [|z w]]]; try discriminate.
  destruct (atoi p); discriminate.
Qed.
Lemma parse_via_no_panic s : parse_via s <> Panic.
Proof. apply parse_all_no_panic, parse_via_param_no_panic. Qed.

Lemma parse_generic_params_no_panic l : parse_generic_params l <> Panic.
Proof.
  induction l as [|s r IH]; simpl; [discriminate|].
  destruct s; simpl; [discriminate|].
  destruct (parse_generic_params r); simpl; try discriminate. exfalso; apply IH; reflexivity.
Qed.
Lemma parse_sip_uri_with_no_panic pp s : parse_sip_uri_with pp s <> Panic.
Proof.
  unfold parse_sip_uri_with.
  assert (G : forall scheme t,
    (let '(s1, hdrs) := match index_byte "?"%char t with
                       | Some pos => (firstn pos t, parse_uri_headers (skipn (S pos) t))
                       | None => (t, []) end in
    let '(s2, params) := match index_byte ";"%char s1 with
                         | Some pos => (firstn pos s1, pp (skipn (S pos) s1))
                         | None => (s1, []) end in
    let '(user, pw, hp) := match index_byte "@"%char s2 with
                           | Some pos => let '(u, p) := parse_user_info (firstn pos s2) in
                                         (u, p, skipn (S pos) s2)
                           | None => ([], [], s2) end in
    let '(h, port) := parse_host_port hp in
    Ok {| u_scheme := scheme; u_user := user; u_password := pw; u_host := h; u_port := port;
          u_params := params; u_headers := hdrs |}) <> Panic).
  { intros scheme t.
    destruct (match index_byte "?"%char t with Some pos => _ | None => _ end) as [s1 hdrs].
    destruct (match index_byte ";"%char s1 with Some pos => _ | None => _ end) as [s2 params].
    destruct (match index_byte "@"%char s2 with Some pos => _ | None => _ end) as [[user pw] hp].
    destruct (parse_host_port hp). discriminate. }
  destruct (has_prefix (s2b "sip:") s); [apply G|].
  destruct (has_prefix (s2b "sips:") s); [apply G|discriminate].
Qed.
Lemma parse_addr_spec_no_panic s : parse_addr_spec s <> Panic.
Proof.
  unfold parse_addr_spec, parse_addr_spec_with.
  destruct (has_prefix (s2b "sip:") s || has_prefix (s2b "sips:") s)%bool; [|discriminate].
  pose proof (parse_sip_uri_with_no_panic parse_uri_parameters s) as H.
  destruct (parse_sip_uri_with parse_uri_parameters s); simpl; try discriminate. contradiction.
Qed.
Lemma parse_name_addr_no_panic s : parse_name_addr s <> Panic.
Proof.
  unfold parse_name_addr. destruct (index_byte "<"%char s) as [p1|]; [|discriminate].
  destruct (index_byte ">"%char s) as [p2|]; [|discriminate].
  destruct (Nat.ltb p2 p1); [discriminate|].
  pose proof (parse_addr_spec_no_panic (slice s (S p1) p2)) as H.
  destruct (parse_addr_spec (slice s (S p1) p2)); simpl; try discriminate. contradiction.
Qed.
Lemma parse_route_param_no_panic s : parse_route_param s <> Panic.
Proof.
  unfold parse_route_param. destruct (index_byte ">"%char s) as [pos|]; [|discriminate].
  pose proof (parse_name_addr_no_panic (firstn (S pos) s)) as H.
  destruct (parse_name_addr (firstn (S pos) s)); simpl; try discriminate; [|contradiction].
  destruct (trim_space (skipn (S pos) s)) as [|c rest]; [discriminate|].
  destruct (Ascii.eqb c ";"%char); [|discriminate].
  pose proof (parse_generic_params_no_panic (split_byte ";"%char rest)) as H1.
  destruct (parse_generic_params (split_byte ";"%char rest)); simpl; try discriminate. contradiction.
Qed.
Lemma parse_route_no_panic s : parse_route s <> Panic.
Proof. apply parse_all_no_panic, parse_route_param_no_panic. Qed.
Lemma parse_fromto_no_panic s : parse_fromto s <> Panic.
Proof.
  unfold parse_fromto, parse_fromto_with.
  assert (F : forall a params,
    match params with
    | [] => Ok {| ft_addr_of := a; ft_params := [] |}
    | _ => let! ps := parse_generic_params (split_byte ";"%char params) in
           Ok {| ft_addr_of := a; ft_params := ps |}
    end <> Panic).
  { intros a [|c r]; [discriminate|].
    pose proof (parse_generic_params_no_panic (split_byte ";"%char (c :: r))) as H1.
    destruct (parse_generic_params (split_byte ";"%char (c :: r))); simpl; try discriminate. contradiction. }
  destruct (index_byte "<"%char s) as [la|].
  - destruct (index_byte ">"%char s) as [ra|]; [|discriminate].
    destruct (Nat.ltb ra la); [discriminate|].
    pose proof (parse_name_addr_no_panic (firstn (S ra) s)) as H.
    destruct (parse_name_addr (firstn (S ra) s)); simpl; try discriminate; [|contradiction].
    destruct (index_byte ";"%char (skipn (S ra) s)); apply F.
  - destruct (index_byte ";"%char s) as [pos|].
    + pose proof (parse_addr_spec_no_panic (firstn pos s)) as H.
      destruct (parse_addr_spec (firstn pos s)); simpl; try discriminate; [apply F|contradiction].
    + pose proof (parse_addr_spec_no_panic s) as H.
      destruct (parse_addr_spec s); simpl; try discriminate; contradiction.
Qed.
Lemma parse_cseq_no_panic s : parse_cseq s <> Panic.
Proof.
  unfold parse_cseq. destruct (fields s) as [|n [|m [|x y]]]; try discriminate.
  destruct (atoi n); discriminate.
Qed.

(* a state-passing computation that cannot panic *)
Definition nopanic {A} (x : M A) : Prop := forall m, snd (x m) <> Panic.

Lemma nopanic_mret {A} (a : A) : nopanic (mret a).
Proof. intros m; discriminate. Qed.
Lemma nopanic_merr {A} : nopanic (@merr A).
Proof. intros m; discriminate. Qed.
Lemma nopanic_mlift {A} (r : res A) : r <> Panic -> nopanic (mlift r).
Proof. intros H m; exact H. Qed.
Lemma nopanic_mmodify f : nopanic (mmodify f).
Proof. intros m; discriminate. Qed.
Lemma nopanic_mbind {A B} (x : M A) (f : A -> M B) :
  nopanic x -> (forall a, nopanic (f a)) -> nopanic (mbind x f).
Proof.
  intros Hx Hf m. unfold mbind. specialize (Hx m). destruct (x m) as [m1 [a| |]]; simpl in *;
    [apply Hf|discriminate|contradiction].
Qed.
Lemma nopanic_mtry {A} (x : M A) : nopanic x -> nopanic (mtry x).
Proof.
  intros Hx m. unfold mtry. specialize (Hx m). destruct (x m) as [m1 [a| |]]; simpl in *;
    [discriminate|discriminate|contradiction].
Qed.
Lemma nopanic_typed_get {A} name (proj : hval -> option A) parse inj :
  (forall s, parse s <> Panic) -> nopanic (typed_get name proj parse inj).
Proof.
  intros Hp m. unfold typed_get. destruct (get_header name (m_headers m)) as [h|]; [|discriminate].
  destruct (proj (h_val h)); [discriminate|].
  destruct (h_val h); try discriminate.
  specialize (Hp s). destruct (parse s); simpl; [discriminate|discriminate|contradiction].
Qed.
Lemma of_opt_no_panic {A} (o : option A) : of_opt o <> Panic.
Proof. destruct o; discriminate. Qed.

Lemma nopanic_s_get_via : nopanic s_get_via.
Proof. apply nopanic_typed_get, parse_via_no_panic. Qed.
Lemma nopanic_s_get_route : nopanic s_get_route.
Proof. apply nopanic_typed_get, parse_route_no_panic. Qed.
Lemma nopanic_s_get_from : nopanic s_get_from.
Proof. apply nopanic_typed_get, parse_fromto_no_panic. Qed.
Lemma nopanic_s_get_to : nopanic s_get_to.
Proof. apply nopanic_typed_get, parse_fromto_no_panic. Qed.
Lemma nopanic_s_get_cseq : nopanic s_get_cseq.
Proof. apply nopanic_typed_get, parse_cseq_no_panic. Qed.
Lemma nopanic_s_get_raw name : nopanic (s_get_raw name).
Proof.
  intros m. unfold s_get_raw, get_raw; simpl. destruct (get_header name (m_headers m)) as [h|]; [|discriminate].
  destruct (h_val h); discriminate.
Qed.
Lemma nopanic_s_get_method : nopanic s_get_method.
Proof.
  intros m. unfold s_get_method. destruct (m_start m); [discriminate|].
  apply nopanic_mbind; [apply nopanic_s_get_cseq|intros; apply nopanic_mret].
Qed.
Lemma nopanic_s_top_via : nopanic s_top_via.
Proof.
  apply nopanic_mbind; [apply nopanic_s_get_via|]. intros [|v r]; [apply nopanic_merr|apply nopanic_mret].
Qed.
Lemma nopanic_s_client_transaction : nopanic s_client_transaction.
Proof.
  apply nopanic_mbind; [apply nopanic_s_get_cseq|]. intros c.
  apply nopanic_mbind; [apply nopanic_s_top_via|]. intros v.
  apply nopanic_mbind; [apply nopanic_mlift, of_opt_no_panic|]. intros b. apply nopanic_mret.
Qed.
Lemma nopanic_s_pop_via : nopanic s_pop_via.
Proof.
  apply nopanic_mbind; [apply nopanic_s_get_via|]. intros [|a [|b r]]; apply nopanic_mmodify.
Qed.
Lemma nopanic_s_pop_route : nopanic s_pop_route.
Proof.
  apply nopanic_mbind; [apply nopanic_s_get_route|]. intros [|a [|b r]]; apply nopanic_mmodify.
Qed.
Lemma nopanic_s_set_received peer port : nopanic (s_set_received peer port).
Proof.
  apply nopanic_mbind; [apply nopanic_s_get_via|]. intros [|v r]; [apply nopanic_merr|apply nopanic_mmodify].
Qed.
Lemma nopanic_s_all_via_params : nopanic s_all_via_params.
Proof. intros m. unfold s_all_via_params. destruct (decode_all_vias (m_headers m)); discriminate. Qed.
Lemma nopanic_s_get_dialog : nopanic s_get_dialog.
Proof.
  apply nopanic_mbind; [apply nopanic_s_get_raw|]. intros cid.
  apply nopanic_mbind; [apply nopanic_s_get_from|]. intros f.
  apply nopanic_mbind; [apply nopanic_mlift, of_opt_no_panic|]. intros ft.
  apply nopanic_mbind; [apply nopanic_s_get_to|]. intros t.
  apply nopanic_mbind; [apply nopanic_mlift, of_opt_no_panic|]. intros tt. apply nopanic_mret.
Qed.
Lemma nopanic_next_response_hop : nopanic next_response_hop.
Proof.
  apply nopanic_mbind; [apply nopanic_s_top_via|]. intros v.
  destruct (via_get_received v); apply nopanic_mret.
Qed.
Lemma nopanic_next_hop_by_route keep : nopanic (next_hop_by_route keep).
Proof.
  apply nopanic_mbind; [apply nopanic_s_get_route|]. intros [|rp r]; [apply nopanic_merr|].
  apply nopanic_mbind.
  - destruct keep; [apply nopanic_mret|apply nopanic_mtry, nopanic_s_pop_route].
  - intros _. destruct (na_addr (r_addr rp)); [apply nopanic_mret|apply nopanic_merr].
Qed.
Lemma nopanic_next_hop_by_config rt : nopanic (next_hop_by_config rt).
Proof.
  apply nopanic_mbind; [apply nopanic_s_get_to|]. intros t.
  destruct (fromto_host t); [|apply nopanic_merr]. destruct (find_route rt b); [apply nopanic_mret|apply nopanic_merr].
Qed.
Lemma nopanic_next_request_hop keep rt : nopanic (next_request_hop keep rt).
Proof.
  intros m. unfold next_request_hop. pose proof (nopanic_next_hop_by_route keep m) as H.
  destruct (next_hop_by_route keep m) as [m1 [v| |]]; simpl in *; [discriminate| |contradiction].
  apply nopanic_next_hop_by_config.
Qed.
Lemma nopanic_try_remove_top_route c from : nopanic (try_remove_top_route c from).
Proof.
  apply nopanic_mbind; [apply nopanic_s_get_route|]. intros [|rp r]; [apply nopanic_mret|].
  destruct (na_addr (r_addr rp)); [|apply nopanic_mret].
  destruct (_ && _)%bool; [apply nopanic_s_pop_route|apply nopanic_mret].
Qed.
Lemma nopanic_find_backend_by_dialog e p : nopanic (find_backend_by_dialog e p).
Proof.
  apply nopanic_mbind; [apply nopanic_s_get_method|]. intros meth.
  destruct (_ && _)%bool; [apply nopanic_mret|].
  apply nopanic_mbind; [apply nopanic_mtry, nopanic_s_get_dialog|]. intros [d|]; [|apply nopanic_mret].
  destruct (pins_get (e_now e) d (ps_pins p)) as [pins1 ob].
  apply nopanic_mbind; [apply nopanic_mtry, nopanic_s_get_raw|]. intros ss. apply nopanic_mret.
Qed.
Lemma nopanic_handle_dialog e peer pp p : nopanic (handle_dialog e peer pp p).
Proof.
  unfold handle_dialog. apply nopanic_mbind.
  - destruct (alookup _ (ps_backends p)); [apply nopanic_mret|].
    apply nopanic_mbind; [apply nopanic_s_client_transaction|]. intros tid.
    destruct (pins_get (e_now e) tid (ps_pins p)) as [pins1 ob].
    apply nopanic_mbind; [intros m; discriminate|]. intros fin. apply nopanic_mret.
  - intros [p1 [b|]]; [|apply nopanic_mret].
    apply nopanic_mbind; [apply nopanic_mtry, nopanic_s_get_method|]. intros [meth|]; [|apply nopanic_mret].
    destruct (beq meth (s2b "INVITE")).
    + apply nopanic_mbind; [apply nopanic_mtry, nopanic_s_get_dialog|]. intros od.
      apply nopanic_mbind; [intros m; discriminate|]. intros ex. destruct od; apply nopanic_mret.
    + destruct (beq meth (s2b "BYE")); [|apply nopanic_mret].
      apply nopanic_mbind; [apply nopanic_mtry, nopanic_s_get_dialog|]. intros od. destruct od; apply nopanic_mret.
Qed.
