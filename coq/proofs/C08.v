(* C08, the whole-pipeline part: for ALL byte strings, events, configurations and states
   (reachable or not) the modelled pipeline -- decode, learn, stamp, register the connection,
   route, pin, relay, serialise -- never evaluates a guarded Go operation out of bounds
   (never [Panic]), never fails as a whole (never [Err]: every input is either processed or
   discarded), discards what it cannot decode without touching the routing state (TCP: the
   connection is closed) and then serves the traffic that follows as if the bad input had not
   occurred; every message in the input causes at most one relayed message.
   The decode-level part (bufio reader, allocation bound) is C08_parse.v. *)
From Coq Require Import List Ascii String ZArith Bool Arith Lia.
From Model Require Import Bytes Uri Hdr Message Msg Rx Glob StaticRoute RoundRobin Pins Proxy.
Import ListNotations.
Local Open Scope nat_scope.

(* ------------------------------------------------------------------ the typed decoders *)
(* no decoder of a typed header can panic, so no state-passing getter can: the [Panic]
   branches that the proxy swallows (`x, _ := f()`) are dead for every input *)
Lemma parse_all_no_panic {A} (f : bytes -> res A) l :
  (forall s, f s <> Panic) -> parse_all f l <> Panic.
Proof.
  intros Hf. induction l as [|s r IH]; simpl; [discriminate|].
  destruct (f s) eqn:E; cbn [rbind]; try discriminate; [|exfalso; exact (Hf _ E)].
  destruct (parse_all f r); cbn [rbind]; try discriminate. exfalso; apply IH; reflexivity.
Qed.

Lemma parse_via_param_no_panic s : parse_via_param s <> Panic.
Proof.
  unfold parse_via_param. destruct (split_byte ";"%char s) as [|t0 ps]; [discriminate|].
  destruct (fields_go t0) as [|proto [|sentby [|x y]]]; try discriminate.
  destruct (split_byte "/"%char proto) as [|n [|v [|t [|z w]]]]; try discriminate.
  destruct (split_byte ":"%char sentby) as [|h [|p [|z w]]]; try discriminate.
  destruct (atoi p); discriminate.
Qed.
Lemma parse_via_no_panic s : parse_via s <> Panic.
Proof. apply parse_all_no_panic, parse_via_param_no_panic. Qed.

Lemma parse_generic_params_no_panic l : parse_generic_params l <> Panic.
Proof.
  induction l as [|s r IH]; simpl; [discriminate|].
  destruct s; simpl; [discriminate|].
  destruct (parse_generic_params r); cbn [rbind]; try discriminate. exfalso; apply IH; reflexivity.
Qed.
Lemma parse_sip_uri_with_no_panic pp s : parse_sip_uri_with pp s <> Panic.
Proof.
  unfold parse_sip_uri_with.
  assert (G : forall scheme t,
    (let '(s1, hdrs) := match index_byte "?"%char t with
                       | Some pos => (firstn pos t, parse_uri_headers (skipn (S pos) t))
                       | None => (t, []) end in
    let '(s2, params) := match index_byte ";"%char s1 with
                         | Some pos => (firstn pos s1, pp (skipn (S pos) s1))
                         | None => (s1, []) end in
    let '(user, pw, hp) := match index_byte "@"%char s2 with
                           | Some pos => let '(u, p) := parse_user_info (firstn pos s2) in
                                         (u, p, skipn (S pos) s2)
                           | None => ([], [], s2) end in
    let '(h, port) := parse_host_port hp in
    Ok {| u_scheme := scheme; u_user := user; u_password := pw; u_host := h; u_port := port;
          u_params := params; u_headers := hdrs |}) <> Panic).
  { intros scheme t.
    destruct (match index_byte "?"%char t with Some pos => _ | None => _ end) as [s1 hdrs].
    destruct (match index_byte ";"%char s1 with Some pos => _ | None => _ end) as [s2 params].
    destruct (match index_byte "@"%char s2 with Some pos => _ | None => _ end) as [[user pw] hp].
    destruct (parse_host_port hp). discriminate. }
  destruct (has_prefix (s2b "sip:") s); [apply G|].
  destruct (has_prefix (s2b "sips:") s); [apply G|discriminate].
Qed.
Lemma parse_addr_spec_no_panic s : parse_addr_spec s <> Panic.
Proof.
  unfold parse_addr_spec, parse_addr_spec_with.
  destruct (has_prefix (s2b "sip:") s || has_prefix (s2b "sips:") s)%bool; [|discriminate].
  pose proof (parse_sip_uri_with_no_panic parse_uri_parameters s) as H.
  destruct (parse_sip_uri_with parse_uri_parameters s); cbn [rbind]; try discriminate. contradiction.
Qed.
Lemma parse_name_addr_no_panic s : parse_name_addr s <> Panic.
Proof.
  unfold parse_name_addr. destruct (index_byte "<"%char s) as [p1|]; [|discriminate].
  destruct (index_byte ">"%char s) as [p2|]; [|discriminate].
  destruct (Nat.ltb p2 p1); [discriminate|].
  pose proof (parse_addr_spec_no_panic (slice s (S p1) p2)) as H.
  destruct (parse_addr_spec (slice s (S p1) p2)); cbn [rbind]; try discriminate. contradiction.
Qed.
Lemma parse_route_param_no_panic s : parse_route_param s <> Panic.
Proof.
  unfold parse_route_param. destruct (index_byte ">"%char s) as [pos|]; [|discriminate].
  pose proof (parse_name_addr_no_panic (firstn (S pos) s)) as H.
  destruct (parse_name_addr (firstn (S pos) s)); cbn [rbind]; try discriminate; [|contradiction].
  destruct (trim_space_go (skipn (S pos) s)) as [|c rest]; [discriminate|].
  destruct (Ascii.eqb c ";"%char); [|discriminate].
  pose proof (parse_generic_params_no_panic (split_byte ";"%char rest)) as H1.
  destruct (parse_generic_params (split_byte ";"%char rest)); cbn [rbind]; try discriminate. contradiction.
Qed.
Lemma parse_route_no_panic s : parse_route s <> Panic.
Proof. apply parse_all_no_panic, parse_route_param_no_panic. Qed.
Lemma parse_fromto_no_panic s : parse_fromto s <> Panic.
Proof.
  unfold parse_fromto, parse_fromto_with.
  assert (F : forall a params,
    match params with
    | [] => Ok {| ft_addr_of := a; ft_params := [] |}
    | _ => let! ps := parse_generic_params (split_byte ";"%char params) in
           Ok {| ft_addr_of := a; ft_params := ps |}
    end <> Panic).
  { intros a [|c r]; [discriminate|].
    pose proof (parse_generic_params_no_panic (split_byte ";"%char (c :: r))) as H1.
    destruct (parse_generic_params (split_byte ";"%char (c :: r))); cbn [rbind]; try discriminate. contradiction. }
  destruct (index_byte "<"%char s) as [la|].
  - destruct (index_byte ">"%char s) as [ra|]; [|discriminate].
    destruct (Nat.ltb ra la); [discriminate|].
    pose proof (parse_name_addr_no_panic (firstn (S ra) s)) as H.
    destruct (parse_name_addr (firstn (S ra) s)); cbn [rbind]; try discriminate; [|contradiction].
    destruct (index_byte ";"%char (skipn (S ra) s)); [apply F|exact (F _ [])].
  - destruct (index_byte ";"%char s) as [pos|].
    + pose proof (parse_addr_spec_no_panic (firstn pos s)) as H.
      destruct (parse_addr_spec (firstn pos s)); cbn [rbind]; try discriminate; [apply F|contradiction].
    + pose proof (parse_addr_spec_no_panic s) as H.
      destruct (parse_addr_spec s); cbn [rbind]; try discriminate; contradiction.
Qed.
Lemma parse_cseq_no_panic s : parse_cseq s <> Panic.
Proof.
  unfold parse_cseq. destruct (fields_go s) as [|n [|m [|x y]]]; try discriminate.
  destruct (atoi n); discriminate.
Qed.

(* a state-passing computation that cannot panic *)
Definition nopanic {A} (x : M A) : Prop := forall m, snd (x m) <> Panic.

Lemma nopanic_mret {A} (a : A) : nopanic (mret a).
Proof. intros m; discriminate. Qed.
Lemma nopanic_merr {A} : nopanic (@merr A).
Proof. intros m; discriminate. Qed.
Lemma nopanic_mlift {A} (r : res A) : r <> Panic -> nopanic (mlift r).
Proof. intros H m; exact H. Qed.
Lemma nopanic_mmodify f : nopanic (mmodify f).
Proof. intros m; discriminate. Qed.
Lemma nopanic_mbind {A B} (x : M A) (f : A -> M B) :
  nopanic x -> (forall a, nopanic (f a)) -> nopanic (mbind x f).
Proof.
  intros Hx Hf m. unfold mbind. specialize (Hx m). destruct (x m) as [m1 [a| |]]; simpl in *;
    [apply Hf|discriminate|contradiction].
Qed.
Lemma nopanic_mtry {A} (x : M A) : nopanic x -> nopanic (mtry x).
Proof.
  intros Hx m. unfold mtry. specialize (Hx m). destruct (x m) as [m1 [a| |]]; simpl in *;
    [discriminate|discriminate|contradiction].
Qed.
Lemma nopanic_typed_get {A} name (proj : hval -> option A) parse inj :
  (forall s, parse s <> Panic) -> nopanic (typed_get name proj parse inj).
Proof.
  intros Hp m. unfold typed_get. destruct (get_header name (m_headers m)) as [h|]; [|discriminate].
  destruct (proj (h_val h)); [discriminate|].
  destruct (h_val h); try discriminate.
  specialize (Hp s). destruct (parse s); simpl; [discriminate|discriminate|contradiction].
Qed.
Lemma of_opt_no_panic {A} (o : option A) : of_opt o <> Panic.
Proof. destruct o; discriminate. Qed.

Lemma nopanic_s_get_via : nopanic s_get_via.
Proof. apply nopanic_typed_get, parse_via_no_panic. Qed.
Lemma nopanic_s_get_route : nopanic s_get_route.
Proof. apply nopanic_typed_get, parse_route_no_panic. Qed.
Lemma nopanic_s_get_from : nopanic s_get_from.
Proof. apply nopanic_typed_get, parse_fromto_no_panic. Qed.
Lemma nopanic_s_get_to : nopanic s_get_to.
Proof. apply nopanic_typed_get, parse_fromto_no_panic. Qed.
Lemma nopanic_s_get_cseq : nopanic s_get_cseq.
Proof. apply nopanic_typed_get, parse_cseq_no_panic. Qed.
Lemma nopanic_s_get_raw name : nopanic (s_get_raw name).
Proof.
  intros m. unfold s_get_raw, get_raw; simpl. destruct (get_header name (m_headers m)) as [h|]; [|discriminate].
  destruct (h_val h); discriminate.
Qed.
Lemma nopanic_s_get_method : nopanic s_get_method.
Proof.
  intros m. unfold s_get_method. destruct (m_start m); [discriminate|].
  apply nopanic_mbind; [apply nopanic_s_get_cseq|intros; apply nopanic_mret].
Qed.
Lemma nopanic_s_top_via : nopanic s_top_via.
Proof.
  apply nopanic_mbind; [apply nopanic_s_get_via|]. intros [|v r]; [apply nopanic_merr|apply nopanic_mret].
Qed.
Lemma nopanic_s_client_transaction : nopanic s_client_transaction.
Proof.
  apply nopanic_mbind; [apply nopanic_s_get_cseq|]. intros c.
  apply nopanic_mbind; [apply nopanic_s_top_via|]. intros v.
  apply nopanic_mbind; [apply nopanic_mlift, of_opt_no_panic|]. intros b. apply nopanic_mret.
Qed.
Lemma nopanic_s_pop_via : nopanic s_pop_via.
Proof.
  apply nopanic_mbind; [apply nopanic_s_get_via|]. intros [|a [|b r]]; apply nopanic_mmodify.
Qed.
Lemma nopanic_s_pop_route : nopanic s_pop_route.
Proof.
  apply nopanic_mbind; [apply nopanic_s_get_route|]. intros [|a [|b r]]; apply nopanic_mmodify.
Qed.
Lemma nopanic_s_set_received peer port : nopanic (s_set_received peer port).
Proof.
  apply nopanic_mbind; [apply nopanic_s_get_via|]. intros [|v r]; [apply nopanic_merr|apply nopanic_mmodify].
Qed.
Lemma nopanic_s_all_via_params : nopanic s_all_via_params.
Proof. intros m. unfold s_all_via_params. destruct (decode_all_vias (m_headers m)); discriminate. Qed.
Lemma nopanic_s_get_dialog : nopanic s_get_dialog.
Proof.
  apply nopanic_mbind; [apply nopanic_s_get_raw|]. intros cid.
  apply nopanic_mbind; [apply nopanic_s_get_from|]. intros f.
  apply nopanic_mbind; [apply nopanic_mlift, of_opt_no_panic|]. intros ft.
  apply nopanic_mbind; [apply nopanic_s_get_to|]. intros t.
  apply nopanic_mbind; [apply nopanic_mlift, of_opt_no_panic|]. intros tt. apply nopanic_mret.
Qed.
Lemma nopanic_next_response_hop : nopanic next_response_hop.
Proof.
  apply nopanic_mbind; [apply nopanic_s_top_via|]. intros v.
  destruct (via_get_received v); apply nopanic_mret.
Qed.
Lemma nopanic_next_hop_by_route keep : nopanic (next_hop_by_route keep).
Proof.
  apply nopanic_mbind; [apply nopanic_s_get_route|]. intros [|rp r]; [apply nopanic_merr|].
  apply nopanic_mbind.
  - destruct keep; [apply nopanic_mret|apply nopanic_mtry, nopanic_s_pop_route].
  - intros _. destruct (na_addr (r_addr rp)); [apply nopanic_mret|apply nopanic_merr].
Qed.
Lemma nopanic_next_hop_by_config rt : nopanic (next_hop_by_config rt).
Proof.
  apply nopanic_mbind; [apply nopanic_s_get_to|]. intros t.
  destruct (fromto_host t); [|apply nopanic_merr]. destruct (find_route rt b); [apply nopanic_mret|apply nopanic_merr].
Qed.
Lemma nopanic_next_request_hop keep rt : nopanic (next_request_hop keep rt).
Proof.
  intros m. unfold next_request_hop. pose proof (nopanic_next_hop_by_route keep m) as H.
  destruct (next_hop_by_route keep m) as [m1 [v| |]]; simpl in *; [discriminate| |contradiction].
  apply nopanic_next_hop_by_config.
Qed.
Lemma nopanic_try_remove_top_route c from : nopanic (try_remove_top_route c from).
Proof.
  apply nopanic_mbind; [apply nopanic_s_get_route|]. intros [|rp r]; [apply nopanic_mret|].
  destruct (na_addr (r_addr rp)); [|apply nopanic_mret].
  destruct (_ && _)%bool; [apply nopanic_s_pop_route|apply nopanic_mret].
Qed.
Lemma nopanic_find_backend_by_dialog e p : nopanic (find_backend_by_dialog e p).
Proof.
  apply nopanic_mbind; [apply nopanic_s_get_method|]. intros meth.
  destruct (_ && _)%bool; [apply nopanic_mret|].
  apply nopanic_mbind; [apply nopanic_mtry, nopanic_s_get_dialog|]. intros [d|]; [|apply nopanic_mret].
  destruct (pins_get (e_now e) d (ps_pins p)) as [pins1 ob]. cbv zeta.
  destruct (_ && _)%bool; [apply nopanic_mret|].
  apply nopanic_mbind; [apply nopanic_mtry, nopanic_s_get_raw|]. intros ss. apply nopanic_mret.
Qed.
Lemma nopanic_handle_dialog e peer pp p : nopanic (handle_dialog e peer pp p).
Proof.
  unfold handle_dialog. apply nopanic_mbind.
  - destruct (alookup _ (ps_backends p)); [apply nopanic_mret|].
    apply nopanic_mbind; [apply nopanic_s_client_transaction|]. intros tid.
    destruct (pins_get (e_now e) tid (ps_pins p)) as [pins1 ob].
    apply nopanic_mbind; [intros m; discriminate|]. intros fin. apply nopanic_mret.
  - intros [p1 [b|]]; [|apply nopanic_mret].
    apply nopanic_mbind; [apply nopanic_mtry, nopanic_s_get_method|]. intros [meth|]; [|apply nopanic_mret].
    destruct (beq meth (s2b "INVITE")).
    + apply nopanic_mbind; [apply nopanic_mtry, nopanic_s_get_dialog|]. intros od.
      apply nopanic_mbind; [intros m; discriminate|]. intros ex. destruct od; apply nopanic_mret.
    + destruct (beq meth (s2b "BYE")); [|apply nopanic_mret].
      apply nopanic_mbind; [apply nopanic_mtry, nopanic_s_get_dialog|]. intros od. destruct od; apply nopanic_mret.
Qed.

(* ------------------------------------------------------------------ one decoded message *)
(* the guarded slice expression host[1:len(host)-1] *)
Lemma bracket_guard_ok host0 :
  exists host,
    (if has_prefix (s2b "[") host0
     then (if (true && negb (has_suffix (s2b "]") host0 && Nat.leb 2 (List.length host0)))%bool
           then Ok host0 else slice_chk host0 1 (List.length host0 - 1))
     else Ok host0) = Ok host.
Proof.
  destruct (has_prefix (s2b "[") host0); [|eexists; reflexivity].
  destruct (has_suffix (s2b "]") host0); cbn [andb negb]; [|eexists; reflexivity].
  destruct (Nat.leb 2 (List.length host0)) eqn:E; cbn [negb]; [|eexists; reflexivity].
  apply Nat.leb_le in E. unfold slice_chk.
  assert (H : (Nat.leb 1 (List.length host0 - 1) && Nat.leb (List.length host0 - 1) (List.length host0))%bool = true).
  { apply andb_true_iff; split; apply Nat.leb_le; lia. }
  rewrite H. eexists; reflexivity.
Qed.

(* with the guard in place a decoded message is always processed to the end *)
Theorem C08_process_message_ok : forall e peer pp from rs tcp m0 x,
  fx_bracket_host (e_fx e) = true ->
  exists x', process_message e peer pp from rs tcp m0 x = Ok x'.
Proof.
  intros e peer pp from rs tcp m0 x Hfx. unfold process_message.
  destruct (if (is_request m0 && negb (amem peer (ps_backends (x_p x))))%bool then _ else _) as [m1 l1].
  set (m2 := if (is_request m1 && rs)%bool then fst (s_set_received peer pp m1) else m1).
  assert (G : forall rp : message * res pstate, snd rp <> Panic -> snd rp <> Err ->
     exists x', (let '(m3, rp0) := rp in
       match rp0 with
       | Panic => Panic | Err => Err
       | Ok p1 =>
         let m4 := fst (mtry (try_remove_top_route (e_cfg e) from) m3) in
         let '(m5, p2) :=
           if is_response m4 then
             let '(m', r) := handle_dialog e peer pp p1 m4 in
             (m', match r with Ok p' => p' | _ => p1 end)
           else (m4, p1) in
         let x1 := {| x_learned := l1; x_p := p2; x_conns := x_conns x; x_world := x_world x; x_outs := x_outs x |} in
         Ok (fst (handle_message e from m5 x1))
       end) = Ok x').
  { intros [m3 [p1| |]] H1 H2; simpl in H1, H2; try contradiction.
    cbv zeta. destruct (if is_response _ then _ else _) as [m5 p2]. eexists; reflexivity. }
  apply G; clear G.
  - destruct tcp as [c|]; [|discriminate]. destruct (is_request m2); [|discriminate].
    destruct (mtry next_response_hop m2) as [m' [oh| |]]; try discriminate.
    rewrite Hfx.
    destruct (bracket_guard_ok (match oh with Some (h, _, _) => h | None => [] end)) as [host ->].
    destruct oh as [[[h0 p0] t0]|]; [|discriminate].
    destruct (mtry s_client_transaction m') as [m'' [[t|]| |]]; try discriminate.
    destruct (get_transport _ _ _ _ _ _) as [p1 [key| |]]; discriminate.
  - destruct tcp as [c|]; [|discriminate]. destruct (is_request m2); [|discriminate].
    destruct (mtry next_response_hop m2) as [m' [oh| |]]; try discriminate.
    rewrite Hfx.
    destruct (bracket_guard_ok (match oh with Some (h, _, _) => h | None => [] end)) as [host ->].
    destruct oh as [[[h0 p0] t0]|]; [|discriminate].
    destruct (mtry s_client_transaction m') as [m'' [[t|]| |]]; try discriminate.
    destruct (get_transport _ _ _ _ _ _) as [p1 [key| |]]; discriminate.
Qed.

Corollary C08_process_message_no_panic : forall e peer pp from rs tcp m0 x,
  fx_bracket_host (e_fx e) = true -> process_message e peer pp from rs tcp m0 x <> Panic.
Proof.
  intros e peer pp from rs tcp m0 x H. destruct (C08_process_message_ok e peer pp from rs tcp m0 x H) as [x' ->].
  discriminate.
Qed.

(* ------------------------------------------------------------------ one TCP chunk *)
(* what the per-connection loop extracts from a chunk: the decodable messages, and whether it
   stopped on a decode error (true) or on the end of the data / keep-alive blank lines (false) *)
Fixpoint stream_msgs (fuel : nat) (s : bytes) : list message * bool :=
  match fuel with
  | O => ([], false)
  | S f =>
      match trim_left s with
      | [] => ([], false)
      | _ => match parse_message s with
             | Ok (m, rest) => let '(l, b) := stream_msgs f rest in (m :: l, b)
             | _ => ([], true)
             end
      end
  end.
Fixpoint process_all (e : env) (c : conn) (ms : list message) (x : ctx) : res ctx :=
  match ms with
  | [] => Ok x
  | m :: r =>
      let! x1 := process_message e (cn_peer c) (cn_peer_port c) (cn_from c) (cn_received_support c)
                                 (Some (cn_id c)) m x in
      process_all e c r x1
  end.
Definition close_ctx (c : nat) (x : ctx) : ctx :=
  {| x_learned := x_learned x; x_p := x_p x; x_conns := close_conn c (x_conns x);
     x_world := x_world x; x_outs := x_outs x |}.

Lemma tcp_messages_spec : forall fuel e c s x,
  tcp_messages fuel e c s x =
  let! x' := process_all e c (fst (stream_msgs fuel s)) x in
  Ok (if snd (stream_msgs fuel s) then close_ctx (cn_id c) x' else x').
Proof.
  induction fuel as [|f IH]; intros e c s x; [reflexivity|].
  cbn [tcp_messages stream_msgs]. destruct (trim_left s) as [|a t]; [reflexivity|].
  destruct (parse_message s) as [[m rest]| |]; try reflexivity.
  destruct (stream_msgs f rest) as [l b] eqn:E. cbn [fst snd process_all].
  destruct (process_message _ _ _ _ _ _ m x) as [x1| |]; cbn [rbind]; try reflexivity.
  rewrite IH, E. reflexivity.
Qed.

Lemma process_all_ok e c ms : fx_bracket_host (e_fx e) = true ->
  forall x, exists x', process_all e c ms x = Ok x'.
Proof.
  intros H. induction ms as [|m r IH]; intros x; [eexists; reflexivity|].
  cbn [process_all].
  destruct (C08_process_message_ok e (cn_peer c) (cn_peer_port c) (cn_from c) (cn_received_support c)
              (Some (cn_id c)) m x H) as [x1 ->].
  cbn [rbind]. apply IH.
Qed.

Theorem C08_tcp_messages_ok : forall fuel e c s x,
  fx_bracket_host (e_fx e) = true -> exists x', tcp_messages fuel e c s x = Ok x'.
Proof.
  intros fuel e c s x H. rewrite tcp_messages_spec.
  destruct (process_all_ok e c (fst (stream_msgs fuel s)) H x) as [x' ->]. eexists; reflexivity.
Qed.
Corollary C08_tcp_messages_no_panic : forall fuel e c s x,
  fx_bracket_host (e_fx e) = true -> tcp_messages fuel e c s x <> Panic.
Proof. intros fuel e c s x H. destruct (C08_tcp_messages_ok fuel e c s x H) as [x' ->]. discriminate. Qed.

(* ------------------------------------------------------------------ one event *)
Lemma run_ctx_ok st li f :
  (forall p x, exists x', f p x = Ok x') -> exists st' outs, run_ctx st li f = Ok (st', outs).
Proof.
  intros Hf. unfold run_ctx. destruct (nth_p (st_proxies st) li) as [p|]; [|eexists; eexists; reflexivity].
  destruct (Hf p {| x_learned := st_learned st; x_p := p; x_conns := st_conns st; x_world := st_world st; x_outs := [] |})
    as [x' ->]. eexists; eexists; reflexivity.
Qed.

(* c. every event is either processed or discarded: never Err, never Panic -- for every fix
   set that contains the bracket guard *)
Theorem C08_never_err_gen : forall fx c now branch st ev, fx_bracket_host fx = true ->
  exists st' outs, proxy_step fx c now branch st ev = Ok (st', outs).
Proof.
  intros fx c now branch st ev Hfx. destruct ev as [li src sport data|li src sport|cid data|cid|li addr|li addr];
    cbn [proxy_step].
  - destruct (nth_opt (c_listens c) li) as [lc|]; [|eexists; eexists; reflexivity].
    destruct (parse_message data) as [[m r]| |]; try (eexists; eexists; reflexivity).
    apply run_ctx_ok. intros p x. apply C08_process_message_ok. exact Hfx.
  - destruct (nth_opt (c_listens c) li) as [lc|]; [|eexists; eexists; reflexivity].
    destruct (nth_p (st_proxies st) li) as [p|]; [|eexists; eexists; reflexivity].
    cbv zeta. destruct (get_transport _ _ _ _ _ _) as [p1 rk]. eexists; eexists; reflexivity.
  - destruct (find _ (st_conns st)) as [cn|]; [|eexists; eexists; reflexivity].
    destruct (cn_open cn); [|eexists; eexists; reflexivity].
    destruct (nth_opt (c_listens c) (cn_li cn)) as [lc|]; [|eexists; eexists; reflexivity].
    apply run_ctx_ok. intros p x. apply C08_tcp_messages_ok. exact Hfx.
  - eexists; eexists; reflexivity.
  - destruct (nth_p (st_proxies st) li) as [p|]; eexists; eexists; reflexivity.
  - destruct (nth_p (st_proxies st) li) as [p|]; [|eexists; eexists; reflexivity].
    destruct (rr_remove addr (ps_rr p)) as [r' closed]. eexists; eexists; reflexivity.
Qed.

Theorem C08_never_err : forall c now branch st ev,
  exists st' outs, proxy_step all_fixed c now branch st ev = Ok (st', outs).
Proof. intros. apply C08_never_err_gen. reflexivity. Qed.

(* a. no datagram, no TCP chunk, no membership event makes the pipeline panic *)
Theorem C08_no_panic_gen : forall fx c now branch st ev, fx_bracket_host fx = true ->
  proxy_step fx c now branch st ev <> Panic.
Proof.
  intros fx c now branch st ev H. destruct (C08_never_err_gen fx c now branch st ev H) as (st' & outs & ->).
  discriminate.
Qed.
Theorem C08_no_panic : forall c now branch st ev, proxy_step all_fixed c now branch st ev <> Panic.
Proof. intros. apply C08_no_panic_gen. reflexivity. Qed.

(* ------------------------------------------------------------------ b. the code as found *)
Definition crlf_s : string := String (ascii_of_nat 13) (String (ascii_of_nat 10) EmptyString).
Definition lines (l : list string) : bytes := flat_map (fun s => s2b s ++ s2b crlf_s) l.

Definition wit_lc : listen_cfg :=
  {| lc_addr := s2b "10.0.0.1"; lc_udp := 5060%Z; lc_tcp := 5060%Z; lc_backends := []; lc_dynamic := false;
     lc_no_received := true; lc_def_route := false; lc_must_rr := false |}.
Definition wit_cfg : cfg :=
  {| c_name := s2b "proxy.example.org"; c_keep_next_hop := false; c_dialog_timeout := 3600%Z;
     c_routes := []; c_hosts := []; c_listens := [wit_lc] |}.
Definition legacy_bracket : fixes :=
  {| fx_wiring := true; fx_udp_via_listener := true; fx_indialog_invite := true; fx_bracket_host := false; fx_resolved_key := true; fx_stale_pin := true |}.
(* a TCP request whose top Via has the sent-by host "[" (received-support off, so the host is
   not replaced by the peer address) *)
Definition bracket_request : bytes :=
  lines ["OPTIONS sip:bob@example.net SIP/2.0"; "Via: SIP/2.0/TCP [;branch=z9hG4bK1"; "CSeq: 1 OPTIONS";
         "Content-Length: 0"; ""]%string.

Definition step2 (fx : fixes) : res (state * list output) :=
  let! (st1, _) := proxy_step fx wit_cfg 0%Z (s2b "z9hG4bKa") (init_state wit_cfg 0%Z []) (EvTcpAccept 0 (s2b "10.0.0.9") 40000%Z) in
  proxy_step fx wit_cfg 1000000%Z (s2b "z9hG4bKb") st1 (EvTcpData 0 bracket_request).

Theorem C08_legacy_refuted :
  step2 legacy_bracket = Panic /\
  (exists st', step2 all_fixed = Ok (st', []) /\ conn_open (st_conns st') 0 = true).
Proof. split; [vm_compute; reflexivity|]. eexists; split; vm_compute; reflexivity. Qed.

(* ------------------------------------------------------------------ d. discarding *)
Definition undecodable (s : bytes) : Prop := forall m r, parse_message s <> Ok (m, r).
(* a chunk that does not start (after leading white space) with a decodable message *)
Definition garbage (s : bytes) : Prop := trim_left s <> [] /\ undecodable s.

Theorem C08_discard_udp : forall fx c now branch st li src sport data, undecodable data ->
  proxy_step fx c now branch st (EvUdp li src sport data) = Ok (st, []).
Proof.
  intros fx c now branch st li src sport data H. cbn [proxy_step].
  destruct (nth_opt (c_listens c) li); [|reflexivity].
  destruct (parse_message data) as [[m r]| |] eqn:E; try reflexivity. exfalso; exact (H _ _ E).
Qed.

Lemma set_nth_p_same : forall l i p, nth_p l i = Some p -> set_nth_p l i p = l.
Proof.
  induction l as [|a l IH]; intros [|i] p H; simpl in *; try discriminate; try reflexivity.
  - injection H as ->. reflexivity.
  - f_equal. apply IH. exact H.
Qed.

Lemma stream_msgs_garbage n s : garbage s -> stream_msgs (S n) s = ([], true).
Proof.
  intros [Ht Hu]. cbn [stream_msgs]. destruct (trim_left s) as [|a t]; [contradiction|].
  destruct (parse_message s) as [[m r]| |] eqn:E; try reflexivity. exfalso; exact (Hu _ _ E).
Qed.

Definition close_state (cid : nat) (st : state) : state :=
  {| st_learned := st_learned st; st_proxies := st_proxies st; st_conns := close_conn cid (st_conns st);
     st_world := st_world st |}.
(* the connection exists, is open and belongs to a configured listener *)
Definition tcp_live (c : cfg) (st : state) (cid : nat) : bool :=
  match find (fun x => Nat.eqb (cn_id x) cid) (st_conns st) with
  | Some cn => cn_open cn &&
               match nth_opt (c_listens c) (cn_li cn), nth_p (st_proxies st) (cn_li cn) with
               | Some _, Some _ => true | _, _ => false end
  | None => false
  end.

Lemma state_eta st : {| st_learned := st_learned st; st_proxies := st_proxies st; st_conns := st_conns st;
                        st_world := st_world st |} = st.
Proof. destruct st; reflexivity. Qed.

(* garbage on a connection: nothing is sent, the connection is marked closed, every other
   component of the state is unchanged (on a dead connection: nothing at all) *)
Theorem C08_discard_tcp : forall fx c now branch st cid data, garbage data ->
  proxy_step fx c now branch st (EvTcpData cid data) =
  Ok (if tcp_live c st cid then close_state cid st else st, []).
Proof.
  intros fx c now branch st cid data Hg. cbn [proxy_step]. unfold tcp_live.
  destruct (find _ (st_conns st)) as [cn|] eqn:Ef; [|reflexivity].
  destruct (cn_open cn); [|reflexivity]. cbn [andb].
  destruct (nth_opt (c_listens c) (cn_li cn)) as [lc|]; [|reflexivity].
  unfold run_ctx. destruct (nth_p (st_proxies st) (cn_li cn)) as [p|] eqn:Ep; [|reflexivity].
  rewrite tcp_messages_spec, (stream_msgs_garbage _ _ Hg). cbn [fst snd process_all rbind close_ctx x_learned x_p x_conns x_world x_outs].
  apply find_some in Ef. destruct Ef as [_ Ef]. apply Nat.eqb_eq in Ef. rewrite Ef.
  rewrite (set_nth_p_same _ _ _ Ep). reflexivity.
Qed.

(* ... which is exactly what the peer closing the connection does *)
Corollary C08_garbage_is_close : forall fx c now branch st cid data, garbage data -> tcp_live c st cid = true ->
  proxy_step fx c now branch st (EvTcpData cid data) = proxy_step fx c now branch st (EvTcpClose cid).
Proof. intros fx c now branch st cid data Hg Hl. rewrite (C08_discard_tcp _ _ _ _ _ _ _ Hg), Hl. reflexivity. Qed.

(* a chunk  m ++ garbage : the effect of m alone, then the connection is closed *)
Lemma parse_ok_trim d m rest : parse_message d = Ok (m, rest) -> trim_left d <> [].
Proof. unfold parse_message. intros H E. rewrite E in H. discriminate. Qed.

Lemma stream_msgs_one_garbage d m rest : parse_message d = Ok (m, rest) -> garbage rest ->
  stream_msgs (S (List.length d)) d = ([m], true).
Proof.
  intros Hp Hg. pose proof (parse_ok_trim _ _ _ Hp) as Ht. cbn [stream_msgs].
  destruct (trim_left d) as [|a t] eqn:E; [contradiction|]. rewrite Hp.
  destruct d as [|b d']; [discriminate|]. cbn [List.length]. rewrite (stream_msgs_garbage _ _ Hg). reflexivity.
Qed.
Lemma stream_msgs_one_clean d m rest : parse_message d = Ok (m, rest) -> trim_left rest = [] ->
  stream_msgs (S (List.length d)) d = ([m], false).
Proof.
  intros Hp Hr. pose proof (parse_ok_trim _ _ _ Hp) as Ht. cbn [stream_msgs].
  destruct (trim_left d) as [|a t] eqn:E; [contradiction|]. rewrite Hp.
  destruct d as [|b d']; [discriminate|]. cbn [List.length stream_msgs]. rewrite Hr. reflexivity.
Qed.

Theorem C08_tcp_garbage_after : forall d d1 m rest rest1 e c x,
  parse_message d = Ok (m, rest) -> garbage rest ->
  parse_message d1 = Ok (m, rest1) -> trim_left rest1 = [] ->
  tcp_messages (S (List.length d)) e c d x =
  rmap (close_ctx (cn_id c)) (tcp_messages (S (List.length d1)) e c d1 x).
Proof.
  intros d d1 m rest rest1 e c x Hp Hg Hp1 Hr. rewrite !tcp_messages_spec.
  rewrite (stream_msgs_one_garbage _ _ _ Hp Hg), (stream_msgs_one_clean _ _ _ Hp1 Hr).
  cbn [fst snd]. destruct (process_all e c [m] x); reflexivity.
Qed.

Theorem C08_discard_tcp_after : forall fx c now branch st cid d d1 m rest rest1 st1 outs1,
  parse_message d = Ok (m, rest) -> garbage rest ->
  parse_message d1 = Ok (m, rest1) -> trim_left rest1 = [] ->
  tcp_live c st cid = true ->
  proxy_step fx c now branch st (EvTcpData cid d1) = Ok (st1, outs1) ->
  proxy_step fx c now branch st (EvTcpData cid d) = Ok (close_state cid st1, outs1).
Proof.
  intros fx c now branch st cid d d1 m rest rest1 st1 outs1 Hp Hg Hp1 Hr Hl. cbn [proxy_step]. unfold tcp_live in Hl.
  destruct (find _ (st_conns st)) as [cn|] eqn:Ef; [|discriminate].
  destruct (cn_open cn); [|discriminate]. cbn [andb] in Hl.
  destruct (nth_opt (c_listens c) (cn_li cn)) as [lc|]; [|discriminate].
  unfold run_ctx. destruct (nth_p (st_proxies st) (cn_li cn)) as [p|] eqn:Ep; [|discriminate].
  rewrite (C08_tcp_garbage_after d d1 m rest rest1 _ _ _ Hp Hg Hp1 Hr).
  apply find_some in Ef. destruct Ef as [_ Ef]. apply Nat.eqb_eq in Ef. rewrite Ef.
  destruct (tcp_messages (S (List.length d1)) _ cn d1 _) as [x1| |]; cbn [rmap]; try discriminate.
  intros H. injection H as <- <-. reflexivity.
Qed.

(* the proxy keeps serving: a run with explicit time and branch per event (so that removing an
   event does not shift the branches of the others) *)
Fixpoint run_steps (fx : fixes) (c : cfg) (st : state) (evs : list (Z * bytes * event))
  : res (state * list (list output)) :=
  match evs with
  | [] => Ok (st, [])
  | (now, branch, ev) :: r =>
      let! (st1, o) := proxy_step fx c now branch st ev in
      let! (st2, os) := run_steps fx c st1 r in
      Ok (st2, o :: os)
  end.

Lemma run_steps_skip fx c tev evs2 :
  (forall st, proxy_step fx c (fst (fst tev)) (snd (fst tev)) st (snd tev) = Ok (st, [])) ->
  forall evs1 st,
  run_steps fx c st (evs1 ++ tev :: evs2) =
  rmap (fun '(st', os) => (st', insert_at (List.length evs1) [] os)) (run_steps fx c st (evs1 ++ evs2)).
Proof.
  intros H. induction evs1 as [|[[n b] ev] evs1 IH]; intros st.
  - destruct tev as [[n b] ev]. cbn [app run_steps List.length]. simpl in H. rewrite H. cbn [rbind].
    destruct (run_steps fx c st evs2) as [[st2 os]| |]; reflexivity.
  - cbn [app run_steps List.length]. destruct (proxy_step fx c n b st ev) as [[st1 o]| |]; cbn [rbind rmap]; try reflexivity.
    rewrite IH. destruct (run_steps fx c st1 (evs1 ++ evs2)) as [[st2 os]| |]; reflexivity.
Qed.

(* an undecodable datagram anywhere in a run: same final state, same outputs for every other
   event, nothing for the datagram itself *)
Theorem C08_serves_after : forall fx c st evs1 evs2 now branch li src sport d, undecodable d ->
  run_steps fx c st (evs1 ++ (now, branch, EvUdp li src sport d) :: evs2) =
  rmap (fun '(st', os) => (st', insert_at (List.length evs1) [] os)) (run_steps fx c st (evs1 ++ evs2)).
Proof.
  intros fx c st evs1 evs2 now branch li src sport d H. apply run_steps_skip.
  intros st0. apply C08_discard_udp. exact H.
Qed.
(* garbage on a TCP connection: the run continues as after a close of that connection *)
Theorem C08_serves_after_tcp : forall fx c st evs1 evs2 now branch cid d st1 os1, garbage d ->
  run_steps fx c st evs1 = Ok (st1, os1) ->
  run_steps fx c st (evs1 ++ (now, branch, EvTcpData cid d) :: evs2) =
  run_steps fx c st (evs1 ++ (if tcp_live c st1 cid then [(now, branch, EvTcpClose cid)]
                              else [(now, branch, EvUdp 0 [] 0%Z [])]) ++ evs2).
Proof.
  intros fx c st evs1. revert st. induction evs1 as [|[[n b] ev] evs1 IH]; intros st evs2 now branch cid d st1 os1 Hg Hr.
  - simpl in Hr. injection Hr as <- <-. cbn [app run_steps]. rewrite (C08_discard_tcp _ _ _ _ _ _ _ Hg).
    destruct (tcp_live c st cid); cbn [app run_steps]; [reflexivity|].
    rewrite C08_discard_udp; [reflexivity|]. intros m r. vm_compute. discriminate.
  - cbn [app run_steps] in *. destruct (proxy_step fx c n b st ev) as [[st0 o]| |]; cbn [rbind] in *; try discriminate.
    destruct (run_steps fx c st0 evs1) as [[st2 os]| |] eqn:E; cbn [rbind] in Hr; try discriminate.
    injection Hr as <- <-. rewrite (IH st0 evs2 now branch cid d st2 os Hg E). reflexivity.
Qed.

(* ------------------------------------------------------------------ e. outputs are bounded *)
(* outputs that carry a message (a [DDial] only records that a connection was opened) *)
Definition carries (o : output) : bool := match fst o with DDial _ _ _ => false | _ => true end.
Definition count_msg (outs : list output) : nat := List.length (filter carries outs).
Lemma count_msg_app a b : count_msg (a ++ b) = count_msg a + count_msg b.
Proof. unfold count_msg. rewrite filter_app, app_length. reflexivity. Qed.

(* The length bound used to read [List.length outs' <= List.length outs + n] (one output per unit of fuel).  With
   the corrected model of TCPClientTransport.Send (the round that dials also writes) that is false for n = 1
   (a fresh client emits the dial and the write in ONE round); the bound is now "at most two outputs, none
   without fuel", which coincides with the old one at n = 0 and n = 2 (the only fuel [failover_send] uses) and
   is stronger for n > 2. *)
Lemma tcp_client_send_count : forall n li local rs id b p cs w outs p' cs' w' outs' ok,
  tcp_client_send n li local rs id b p cs w outs = (p', cs', w', outs', ok) ->
  count_msg outs' <= count_msg outs + 1 /\
  List.length outs' <= List.length outs + match n with O => 0 | S _ => 2 end.
Proof.
  induction n as [|n IH]; intros li local rs id b p cs w outs p' cs' w' outs' ok H; cbn [tcp_client_send] in H.
  - injection H as <- <- <- <- <-. lia.
  - destruct (find_client id (ps_clients p)) as [cl|]; [|injection H as <- <- <- <- <-; lia].
    destruct (tc_cached cl) as [c|].
    + destruct (conn_open cs c).
      * injection H as <- <- <- <- <-. rewrite count_msg_app, app_length. cbn. lia.
      * apply IH in H. destruct n; lia.
    + destruct (existsb _ (w_tcp_listeners w)); [|injection H as <- <- <- <- <-; lia].
      injection H as <- <- <- <- <-. rewrite count_msg_app, app_length. cbn. lia.
Qed.
(* non-vacuity of the n = 1 remark: the old bound fails for a fresh client with one unit of fuel *)
Example tcp_client_send_count_fuel1 : forall p0 : pstate,
  let p := with_clients p0 [{| tc_id := 0; tc_host := []; tc_port := 0%Z; tc_cached := None |}] in
  let w := {| w_tcp_listeners := [([], 0%Z)]; w_next_conn := 0 |} in
  List.length (snd (fst (tcp_client_send 1 0 [] false 0 [] p [] w []))) = 2.
Proof. intros p0. reflexivity. Qed.

Lemma failover_send_count li local rs f b p cs w p' cs' w' outs ok f' :
  failover_send li local rs f b p cs w = (p', cs', w', outs, ok, f') ->
  count_msg outs <= 1 /\ List.length outs <= 2.
Proof.
  unfold failover_send.
  assert (T : forall f1 p' cs' w' outs ok f',
    match fo_sec f1 with
    | Some id => let '(p2, cs2, w2, outs2, ok) := tcp_client_send 2 li local rs id b p cs w [] in
                 (p2, cs2, w2, outs2, ok, f1)
    | None => (p, cs, w, [], false, f1)
    end = (p', cs', w', outs, ok, f') -> count_msg outs <= 1 /\ List.length outs <= 2).
  { intros f1 p1 cs1 w1 outs1 ok1 f1'. destruct (fo_sec f1) as [id|].
    - destruct (tcp_client_send 2 li local rs id b p cs w []) as [[[[p2 cs2] w2] outs2] ok2] eqn:E.
      intros H. injection H as <- <- <- <- <- <-. apply tcp_client_send_count in E. cbn in E. lia.
    - intros H. injection H as <- <- <- <- <- <-. cbn. lia. }
  destruct (fo_pri f) as [[ip port|ip port|c ex]|].
  - destruct (fits_datagram b); [intros H; injection H as <- <- <- <- <- <-; cbn; lia|apply T].
  - destruct (fits_datagram b); [intros H; injection H as <- <- <- <- <- <-; cbn; lia|apply T].
  - destruct (conn_open cs c); [intros H; injection H as <- <- <- <- <- <-; cbn; lia|apply T].
  - apply T.
Qed.

Lemma send_message_count e host port tr m x :
  let x' := fst (send_message e host port tr m x) in
  count_msg (x_outs x') <= count_msg (x_outs x) + 1 /\ List.length (x_outs x') <= List.length (x_outs x) + 2.
Proof.
  unfold send_message. destruct (mtry s_client_transaction m) as [m1 tid].
  destruct (get_transport _ _ _ _ _ _) as [p1 [key| |]]; cbn [fst x_outs]; try lia.
  set (p2 := match alookup key (ps_table p1) with Some {| fo_pri := None |} => _ | _ => p1 end).
  destruct (alookup key (ps_table p2)) as [f|]; cbn [fst x_outs]; try lia.
  destruct (failover_send _ _ _ f _ _ _ _) as [[[[[p4 cs] w] outs] ok] f'] eqn:E.
  apply failover_send_count in E. cbn [fst x_outs]. rewrite count_msg_app, app_length. lia.
Qed.

Lemma backend_send_count b bs p p' outs ok : backend_send b bs p = (p', outs, ok) -> List.length outs <= 1.
Proof.
  unfold backend_send.
  assert (T : forall a, List.length (match last_index_byte ":"%char a with
                        | Some pos => [(DUdp (firstn pos a) (atoi_val (skipn (S pos) a)), bs)]
                        | None => [] end) <= 1).
  { intros a. destruct (last_index_byte ":"%char a); cbn; lia. }
  destruct b as [a g|].
  - destruct (_ && _)%bool; intros H; injection H as <- <- <-; [apply T|cbn; lia].
  - destruct (rr_dispatch (ps_rr p)) as [r' [a|]].
    + destruct (fits_datagram bs); intros H; injection H as <- <- <-; [apply T|cbn; lia].
    + intros H; injection H as <- <- <-; cbn; lia.
Qed.
Lemma count_msg_le outs : count_msg outs <= List.length outs.
Proof.
  unfold count_msg. induction outs as [|o r IH]; cbn [filter List.length]; [lia|].
  destruct (carries o); cbn [List.length]; lia.
Qed.

Lemma send_to_backend_count e m x :
  let x' := fst (send_to_backend e m x) in
  count_msg (x_outs x') <= count_msg (x_outs x) + 1 /\ List.length (x_outs x') <= List.length (x_outs x) + 2.
Proof.
  unfold send_to_backend. destruct (negb (ps_has_rr (x_p x))); cbn [fst]; [lia|].
  destruct (first_transport (e_lc e)) as [t0|]; cbn [fst]; [|lia].
  destruct (find_backend_by_dialog e (x_p x) m) as [m1 r].
  destruct (match r with Ok v => v | _ => (x_p x, None) end) as [p1 ob].
  destruct (backend_send _ _ p1) as [[p2 outs] ok] eqn:E. apply backend_send_count in E.
  destruct ok.
  - destruct (mtry s_client_transaction _) as [m3 tid]. cbn [fst x_outs]. rewrite count_msg_app, app_length.
    pose proof (count_msg_le outs). lia.
  - cbn [fst x_outs]. lia.
Qed.

Lemma handle_message_count e from m x :
  let x' := fst (handle_message e from m x) in
  count_msg (x_outs x') <= count_msg (x_outs x) + 1 /\ List.length (x_outs x') <= List.length (x_outs x) + 2.
Proof.
  unfold handle_message. destruct (is_request m).
  - destruct (next_request_hop _ _ m) as [m1 [[[host port] tr]| |]].
    + apply send_message_count.
    + destruct (is_my_message _ from m1); [apply send_to_backend_count|cbn; lia].
    + destruct (is_my_message _ from m1); [apply send_to_backend_count|cbn; lia].
  - destruct (mtry s_pop_via m) as [m1 r1]. destruct (mtry next_response_hop m1) as [m2 hop].
    destruct (mtry s_get_method m2) as [m3 ometh].
    destruct (match hop, ometh with Ok (Some (host, port, _)), Ok (Some meth) => _ | _, _ => (m3, x_p x) end) as [m4 p1].
    destruct hop as [[[[host port] tr]|]| |]; try (cbn [fst x_outs]; lia).
    set (x1 := {| x_learned := _ |}). change (x_outs x) with (x_outs x1). apply send_message_count.
Qed.

Lemma process_message_count e peer pp from rs tcp m0 x x' :
  process_message e peer pp from rs tcp m0 x = Ok x' ->
  count_msg (x_outs x') <= count_msg (x_outs x) + 1 /\ List.length (x_outs x') <= List.length (x_outs x) + 2.
Proof.
  unfold process_message.
  destruct (if (is_request m0 && negb (amem peer (ps_backends (x_p x))))%bool then _ else _) as [m1 l1].
  destruct (match tcp with Some c => _ | None => _ end) as [m3 [p1| |]]; try discriminate.
  cbv zeta. destruct (if is_response _ then _ else _) as [m5 p2].
  intros H. injection H as <-.
  set (x1 := {| x_learned := l1 |}). change (x_outs x) with (x_outs x1). apply handle_message_count.
Qed.

Lemma process_all_count e c ms : forall x x', process_all e c ms x = Ok x' ->
  count_msg (x_outs x') <= count_msg (x_outs x) + List.length ms /\
  List.length (x_outs x') <= List.length (x_outs x) + 2 * List.length ms.
Proof.
  induction ms as [|m r IH]; intros x x' H; cbn [process_all] in H.
  - injection H as <-. cbn. lia.
  - destruct (process_message _ _ _ _ _ _ m x) as [x1| |] eqn:E; cbn [rbind] in H; try discriminate.
    apply process_message_count in E. apply IH in H. cbn [List.length]. lia.
Qed.

(* the messages an event carries *)
Definition msgs_in (ev : event) : nat :=
  match ev with
  | EvUdp _ _ _ d => if is_ok (parse_message d) then 1 else 0
  | EvTcpData _ d => List.length (fst (stream_msgs (S (List.length d)) d))
  | _ => 0
  end.

Lemma run_ctx_outs st li f st' outs n :
  (forall p x x', x_outs x = [] -> f p x = Ok x' -> count_msg (x_outs x') <= n /\ List.length (x_outs x') <= 2 * n) ->
  run_ctx st li f = Ok (st', outs) -> count_msg outs <= n /\ List.length outs <= 2 * n.
Proof.
  intros Hf. unfold run_ctx. destruct (nth_p (st_proxies st) li) as [p|].
  - destruct (f p _) as [x'| |] eqn:E; try discriminate. intros H; injection H as <- <-.
    exact (Hf _ _ _ (eq_refl : x_outs {| x_learned := st_learned st; x_p := p; x_conns := st_conns st; x_world := st_world st; x_outs := [] |} = []) E).
  - intros H; injection H as <- <-. cbn. lia.
Qed.

(* every event relays at most as many messages as it carries (a datagram at most one), and
   produces at most two outputs per message (a relayed message may be preceded by the record of
   the connection that was opened for it) -- for every fix set, state and configuration *)
Theorem C08_output_bounded : forall fx c now branch st ev st' outs,
  proxy_step fx c now branch st ev = Ok (st', outs) ->
  count_msg outs <= msgs_in ev /\ List.length outs <= 2 * msgs_in ev.
Proof.
  intros fx c now branch st ev st' outs.
  destruct ev as [li src sport data|li src sport|cid data|cid|li addr|li addr]; cbn [proxy_step msgs_in].
  - destruct (nth_opt (c_listens c) li) as [lc|]; [|intros H; injection H as <- <-; cbn; lia].
    destruct (parse_message data) as [[m r]| |]; cbn [is_ok]; try (intros H; injection H as <- <-; cbn; lia).
    apply run_ctx_outs. intros p x x' Hx H. apply process_message_count in H. rewrite Hx in H. cbn in H. lia.
  - destruct (nth_opt (c_listens c) li) as [lc|]; [|intros H; injection H as <- <-; cbn; lia].
    destruct (nth_p (st_proxies st) li) as [p|]; [|intros H; injection H as <- <-; cbn; lia].
    cbv zeta. destruct (get_transport _ _ _ _ _ _) as [p1 rk]. intros H; injection H as <- <-; cbn; lia.
  - destruct (find _ (st_conns st)) as [cn|]; [|intros H; injection H as <- <-; cbn; lia].
    destruct (cn_open cn); [|intros H; injection H as <- <-; cbn; lia].
    destruct (nth_opt (c_listens c) (cn_li cn)) as [lc|]; [|intros H; injection H as <- <-; cbn; lia].
    apply run_ctx_outs. intros p x x' Hx H. rewrite tcp_messages_spec in H.
    set (sm := stream_msgs (S (List.length data)) data) in *. clearbody sm.
    destruct (process_all _ cn _ x) as [x1| |] eqn:E; cbn [rbind] in H; try discriminate.
    apply process_all_count in E. rewrite Hx in E. cbn in E. injection H as <-.
    destruct (snd sm); cbn [close_ctx x_outs]; lia.
  - intros H; injection H as <- <-; cbn; lia.
  - destruct (nth_p (st_proxies st) li) as [p|]; intros H; injection H as <- <-; cbn; lia.
  - destruct (nth_p (st_proxies st) li) as [p|]; [|intros H; injection H as <- <-; cbn; lia].
    destruct (rr_remove addr (ps_rr p)) as [r' closed]. intros H; injection H as <- <-; cbn; lia.
Qed.
(* a chunk of n bytes carries fewer than n messages *)
Lemma stream_msgs_length : forall fuel s, List.length (fst (stream_msgs fuel s)) <= fuel.
Proof.
  induction fuel as [|f IH]; intros s; cbn [stream_msgs]; [cbn; lia|].
  destruct (trim_left s); [cbn; lia|]. destruct (parse_message s) as [[m rest]| |]; try (cbn; lia).
  specialize (IH rest). destruct (stream_msgs f rest) as [l0 b0]. cbn [fst List.length] in *. lia.
Qed.

(* ------------------------------------------------------------------ non-vacuity *)
Definition routed_request : bytes :=
  lines ["OPTIONS sip:bob@example.net SIP/2.0"; "Via: SIP/2.0/UDP 10.0.0.9:5070;branch=z9hG4bK1";
         "Route: <sip:10.0.0.7:5062;lr>"; "CSeq: 1 OPTIONS"; "Content-Length: 0"; ""]%string.

Example C08_ex_undecodable : undecodable (s2b "hello") /\ garbage (s2b "hello") /\
  garbage (lines ["INVITE sip:a@h SIP/2.0"; "Content-Length: -1"; ""]%string).
Proof.
  split; [intros m r; vm_compute; discriminate|].
  split; (split; [vm_compute; discriminate|intros m r; vm_compute; discriminate]).
Qed.
Example C08_ex_chunk : exists m rest rest1,
  parse_message (bracket_request ++ s2b "hello") = Ok (m, rest) /\ garbage rest /\
  parse_message bracket_request = Ok (m, rest1) /\ trim_left rest1 = [].
Proof.
  eexists; eexists; eexists. split; [vm_compute; reflexivity|].
  split; [split; [vm_compute; discriminate|intros m r; vm_compute; discriminate]|].
  split; vm_compute; reflexivity.
Qed.
(* a routed datagram is relayed (one output, bound attained); the same run with an undecodable
   datagram in the middle relays the same *)
Example C08_ex_run :
  let ev := (0%Z, s2b "z9hG4bKa", EvUdp 0 (s2b "10.0.0.9") 5070%Z routed_request) in
  let bad := (1%Z, s2b "z9hG4bKb", EvUdp 0 (s2b "10.0.0.66") 5070%Z (s2b "hello")) in
  exists st' o, run_steps all_fixed wit_cfg (init_state wit_cfg 0%Z []) [ev; ev] = Ok (st', [[o]; [o]]) /\
                fst o = DUdp (s2b "10.0.0.7") 5062%Z /\
                run_steps all_fixed wit_cfg (init_state wit_cfg 0%Z []) [ev; bad; ev] = Ok (st', [[o]; []; [o]]) /\
                msgs_in (snd ev) = 1.
Proof.
  cbv zeta. eexists; eexists. split; [vm_compute; reflexivity|].
  split; [reflexivity|]. split; vm_compute; reflexivity.
Qed.
Example C08_ex_live :
  exists st1 o, proxy_step all_fixed wit_cfg 0%Z (s2b "z9hG4bKa") (init_state wit_cfg 0%Z []) (EvTcpAccept 0 (s2b "10.0.0.9") 40000%Z) = Ok (st1, o) /\
             tcp_live wit_cfg st1 0 = true.
Proof. eexists; eexists. split; vm_compute; reflexivity. Qed.

Print Assumptions C08_process_message_ok.
Print Assumptions C08_tcp_messages_ok.
Print Assumptions C08_no_panic.
Print Assumptions C08_no_panic_gen.
Print Assumptions C08_never_err.
Print Assumptions C08_legacy_refuted.
Print Assumptions C08_discard_udp.
Print Assumptions C08_discard_tcp.
Print Assumptions C08_garbage_is_close.
Print Assumptions C08_tcp_garbage_after.
Print Assumptions C08_discard_tcp_after.
Print Assumptions C08_serves_after.
Print Assumptions C08_serves_after_tcp.
Print Assumptions C08_output_bounded.
Print Assumptions nopanic_handle_dialog.
