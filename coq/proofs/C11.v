(* C11 — TCP framing depends on the bytes, not on the segmentation.

   Layer 1: every operation of the concrete bufio reader (Bufio.v) returns what a function of
            (alpha st, window size) says, and leaves a state whose abstraction is the function's
            remainder: the segmentation only decides how many fills it takes.
   Layer 2: the concatenation of ReadLine fragments does not depend on the window size either
            (pushed-back CR included): readLine = Message.read_line on alpha.
   Layer 3: ParseMessage and the per-connection loop over the concrete reader = Message.parse_message
            / parse_stream over the concatenated bytes. *)
From Coq Require Import List Ascii String ZArith Bool Arith Lia.
From Model Require Import Bytes BytesLemmas Message Bufio.
Import ListNotations.
Local Open Scope nat_scope.

(* ------------------------------------------------------------------ small list facts *)
Lemma unsnoc_app l c : unsnoc (l ++ [c]) = Some (l, c).
Proof.
  induction l as [|x l IH]; cbn; [reflexivity|]. rewrite IH. reflexivity.
Qed.
Lemma unsnoc_none l : unsnoc l = None -> l = [].
Proof.
  destruct l as [|x l]; [reflexivity|]. cbn. destruct (unsnoc l) as [[i z]|]; discriminate.
Qed.
Lemma unsnoc_some l i z : unsnoc l = Some (i, z) -> l = i ++ [z].
Proof.
  revert i z. induction l as [|x l IH]; intros i z H; cbn in H; [discriminate|].
  destruct (unsnoc l) as [[i' z']|] eqn:E.
  - injection H as <- <-. cbn. f_equal. apply IH. reflexivity.
  - injection H as <- <-. apply unsnoc_none in E. subst l. reflexivity.
Qed.
Lemma unsnoc_cases l : l = [] \/ exists i z, l = i ++ [z] /\ unsnoc l = Some (i, z).
Proof.
  destruct (unsnoc l) as [[i z]|] eqn:E.
  - right. exists i, z. split; [apply unsnoc_some; exact E|reflexivity].
  - left. apply unsnoc_none. exact E.
Qed.

Lemma strip_cr_snoc x c : strip_cr (x ++ [c]) = if Ascii.eqb c CR then x else x ++ [c].
Proof.
  unfold strip_cr. rewrite rev_unit. destruct (Ascii.eqb c CR); [apply rev_involutive|reflexivity].
Qed.
Lemma strip_cr_nil : strip_cr [] = [].
Proof. reflexivity. Qed.
Lemma strip_cr_app_ne x y : y <> [] -> strip_cr (x ++ y) = x ++ strip_cr y.
Proof.
  intros Hy. destruct (unsnoc_cases y) as [->|(i & z & -> & _)]; [contradiction|].
  rewrite app_assoc, !strip_cr_snoc. destruct (Ascii.eqb z CR); [reflexivity|symmetry; apply app_assoc].
Qed.
Lemma strip_cr_no_cr x : (forall i z, x = i ++ [z] -> z <> CR) -> strip_cr x = x.
Proof.
  intros H. destruct (unsnoc_cases x) as [->|(i & z & -> & _)]; [reflexivity|].
  rewrite strip_cr_snoc. destruct (Ascii.eqb_spec z CR) as [E|E]; [|reflexivity].
  exfalso. exact (H i z eq_refl E).
Qed.

Lemma drop_eol_lf x : drop_eol (x ++ [LF]) = strip_cr x.
Proof.
  unfold drop_eol. rewrite unsnoc_app. rewrite Ascii.eqb_refl.
  destruct (unsnoc_cases x) as [->|(i & z & -> & E)]; [reflexivity|].
  rewrite E, strip_cr_snoc. reflexivity.
Qed.
Lemma drop_eol_no_lf x : ~ In LF x -> drop_eol x = x.
Proof.
  intros H. unfold drop_eol. destruct (unsnoc_cases x) as [->|(i & z & -> & E)]; [reflexivity|].
  rewrite E. destruct (Ascii.eqb_spec z LF) as [->|_]; [|reflexivity].
  exfalso. apply H. apply in_or_app. right. left. reflexivity.
Qed.

Lemma index_byte_app_some c x y i : index_byte c x = Some i -> index_byte c (x ++ y) = Some i.
Proof.
  revert i. induction x as [|a x IH]; intros i H; cbn in *; [discriminate|].
  destruct (Ascii.eqb a c); [exact H|].
  destruct (index_byte c x) as [m|]; [|discriminate]. rewrite (IH m eq_refl). exact H.
Qed.
Lemma index_byte_app_none c x y :
  index_byte c x = None ->
  index_byte c (x ++ y) = match index_byte c y with Some j => Some (List.length x + j) | None => None end.
Proof.
  induction x as [|a x IH]; intros H; cbn in *.
  - destruct (index_byte c y); reflexivity.
  - destruct (Ascii.eqb a c); [discriminate|].
    destruct (index_byte c x) as [m|]; [discriminate|]. rewrite (IH eq_refl).
    destruct (index_byte c y); reflexivity.
Qed.
Lemma index_byte_firstn_some c a i n : index_byte c a = Some i -> i < n -> index_byte c (firstn n a) = Some i.
Proof.
  intros H Hn. destruct (index_byte_some _ _ _ H) as (Hs & Hni & Hl).
  rewrite Hs. rewrite firstn_app. rewrite firstn_length.
  replace (n - Nat.min i (List.length a)) with (S (n - S i)) by lia.
  rewrite (firstn_all2 (n := n)); [|rewrite firstn_length; lia].
  cbn [firstn]. rewrite index_byte_app_notin; [|exact Hni]. rewrite firstn_length. f_equal. lia.
Qed.
Lemma in_firstn {A} (x : A) n l : In x (firstn n l) -> In x l.
Proof.
  intros H. rewrite <- (firstn_skipn n l). apply in_or_app. left. exact H.
Qed.
Lemma index_byte_firstn_none c a i n : index_byte c a = Some i -> n <= i -> index_byte c (firstn n a) = None.
Proof.
  intros H Hn. destruct (index_byte_some _ _ _ H) as (Hs & Hni & Hl).
  apply index_byte_none. intros Hin. apply Hni.
  assert (Hf : firstn n a = firstn n (firstn i a)) by (rewrite firstn_firstn; f_equal; lia).
  rewrite Hf in Hin. exact (in_firstn _ _ _ Hin).
Qed.
Lemma index_byte_firstn_none2 c a n : index_byte c a = None -> index_byte c (firstn n a) = None.
Proof.
  intros H. apply index_byte_none. apply index_byte_none in H. intros Hin. apply H.
  rewrite <- (firstn_skipn n a). apply in_or_app. left. exact Hin.
Qed.
Lemma index_byte_skipn_none c a n : index_byte c a = None -> index_byte c (skipn n a) = None.
Proof.
  intros H. apply index_byte_none. apply index_byte_none in H. intros Hin. apply H.
  rewrite <- (firstn_skipn n a). apply in_or_app. right. exact Hin.
Qed.
Lemma index_byte_skipn c a i k : index_byte c a = Some i -> k <= i -> index_byte c (skipn k a) = Some (i - k).
Proof.
  intros H Hk. destruct (index_byte_some _ _ _ H) as (Hs & Hni & Hl).
  rewrite Hs. rewrite skipn_app. rewrite firstn_length.
  replace (k - Nat.min i (List.length a)) with 0 by lia. cbn [skipn].
  rewrite index_byte_app_notin.
  - rewrite skipn_length, firstn_length. f_equal. lia.
  - intros Hin. apply Hni. rewrite <- (firstn_skipn k (firstn i a)). apply in_or_app. right. exact Hin.
Qed.
Lemma firstn_add {A} (l : list A) k j : firstn (k + j) l = firstn k l ++ firstn j (skipn k l).
Proof.
  revert l. induction k as [|k IH]; intros l; cbn; [reflexivity|].
  destruct l as [|x l]; cbn; [rewrite firstn_nil; reflexivity|]. f_equal. apply IH.
Qed.
Lemma skipn_add {A} (l : list A) k j : skipn (k + j) l = skipn j (skipn k l).
Proof.
  revert l. induction k as [|k IH]; intros l; cbn; [reflexivity|].
  destruct l as [|x l]; cbn; [rewrite skipn_nil; reflexivity|]. apply IH.
Qed.

(* ------------------------------------------------------------------ well-formed reader states *)
Definition nonempty (c : bytes) : Prop := c <> [].
Definition wf (st : rd) : Prop :=
  16 <= rd_size st /\
  List.length (rd_pre st) + List.length (rd_live st) + List.length (rd_suf st) = rd_size st /\
  Forall nonempty (rd_chunks st) /\
  (rd_err st = true -> rd_chunks st = [] /\ List.length (rd_pre st) + List.length (rd_live st) < rd_size st).

Lemma new_reader_wf n cs : Forall nonempty cs -> wf (new_reader n cs).
Proof.
  intros H. unfold wf, new_reader, bufio_size. cbn. rewrite repeat_length.
  repeat split; try lia; try exact H; discriminate.
Qed.
Lemma new_reader_alpha n cs : alpha (new_reader n cs) = List.concat cs.
Proof. reflexivity. Qed.

(* the underlying Read *)
Lemma under_read_spec space cs d e cs' :
  Forall nonempty cs -> 0 < space -> under_read space cs = (d, e, cs') ->
  (cs = [] /\ d = [] /\ e = true /\ cs' = []) \/
  (e = false /\ d <> [] /\ List.length d <= space /\ d ++ List.concat cs' = List.concat cs /\
   Forall nonempty cs' /\ (List.length cs' < List.length cs \/ List.length d = space)).
Proof.
  intros Hne Hs H. destruct cs as [|c r]; cbn in H.
  - injection H as <- <- <-. left. repeat split.
  - right. inversion Hne as [|? ? Hc Hr]; subst.
    assert (Hd : firstn space c <> []).
    { destruct c as [|x c]; [contradiction|]. destruct space; [lia|]. cbn. discriminate. }
    destruct (skipn space c) as [|y c'] eqn:Es; injection H as <- <- <-.
    + repeat split; try assumption.
      * rewrite firstn_length. lia.
      * change (List.concat (c :: r)) with (c ++ List.concat r).
        rewrite <- (firstn_skipn space c) at 2. rewrite Es, app_nil_r. reflexivity.
      * left. cbn. lia.
    + repeat split; try assumption.
      * rewrite firstn_length. lia.
      * change (List.concat ((y :: c') :: r)) with ((y :: c') ++ List.concat r).
        change (List.concat (c :: r)) with (c ++ List.concat r).
        rewrite app_assoc. rewrite <- Es. rewrite firstn_skipn. reflexivity.
      * constructor; [discriminate|exact Hr].
      * right. rewrite firstn_length.
        assert (Hl : List.length (skipn space c) <> 0) by (rewrite Es; cbn; lia).
        rewrite skipn_length in Hl. lia.
Qed.

(* fill *)
Lemma fill_spec st :
  wf st -> rd_err st = false -> List.length (rd_live st) < rd_size st ->
  exists st', fill st = Ok st' /\ wf st' /\ alpha st' = alpha st /\ rd_size st' = rd_size st /\
    rd_pre st' = [] /\ (exists d, rd_live st' = rd_live st ++ d) /\
    ((rd_err st' = true /\ rd_live st' = rd_live st) \/
     (rd_err st' = false /\ List.length (rd_live st) < List.length (rd_live st') /\
      (List.length (rd_chunks st') < List.length (rd_chunks st) \/ List.length (rd_live st') = rd_size st))).
Proof.
  intros (Hsz & Hlen & Hne & Herr) He Hlt. unfold fill.
  remember (skipn (List.length (rd_live st)) (image st)) as room eqn:Er.
  assert (Hroom : List.length room = rd_size st - List.length (rd_live st)).
  { rewrite Er. unfold image. rewrite skipn_length, !app_length. lia. }
  clear Er.
  assert (Hmatch : forall (X : Type) (a b : X), match room with [] => a | _ :: _ => b end = b).
  { intros X a b. destruct room; [cbn in Hroom; lia|reflexivity]. }
  rewrite Hmatch. clear Hmatch.
  destruct (under_read (List.length room) (rd_chunks st)) as [[d e] cs'] eqn:Eu.
  assert (Hpos : 0 < List.length room) by lia.
  destruct (under_read_spec _ _ _ _ _ Hne Hpos Eu) as [(Hcs & -> & -> & ->)|(-> & Hd & Hdl & Hcat & Hne' & Hprog)].
  - eexists. split; [reflexivity|]. rewrite He. cbn [orb].
    split; [|split; [|split; [|split; [|split]]]].
    + unfold wf; cbn. rewrite app_nil_r. split; [lia|]. split; [lia|]. split; [constructor|].
      intros _. split; [reflexivity|lia].
    + unfold alpha; cbn. rewrite app_nil_r, Hcs. reflexivity.
    + reflexivity.
    + reflexivity.
    + exists []. reflexivity.
    + left. split; [reflexivity|apply app_nil_r].
  - eexists. split; [reflexivity|]. rewrite He. cbn [orb].
    split; [|split; [|split; [|split; [|split]]]].
    + unfold wf; cbn. rewrite app_length, skipn_length. split; [lia|]. split; [lia|].
      split; [exact Hne'|]. discriminate.
    + unfold alpha; cbn. rewrite <- app_assoc, Hcat. reflexivity.
    + reflexivity.
    + reflexivity.
    + exists d. reflexivity.
    + right. split; [reflexivity|]. cbn. rewrite app_length. split.
      * destruct d; [contradiction|]. cbn. lia.
      * destruct Hprog as [Hp|Hp]; [left; exact Hp|right; lia].
Qed.

(* ------------------------------------------------------------------ ReadSlice *)
(* what ReadSlice returns, as a function of the remaining stream and the window size only *)
Definition slice_spec (size : nat) (a : bytes) : bytes * rs_status * bytes :=
  match index_byte LF (firstn size a) with
  | Some i => (firstn (S i) a, RsOk, skipn (S i) a)
  | None => if Nat.leb size (List.length a) then (firstn size a, RsFull, skipn size a) else (a, RsEof, [])
  end.

Lemma read_slice_f_unfold fuel st :
  read_slice_f fuel st =
  match index_byte LF (rd_live st) with
  | Some i => Ok (firstn (S i) (rd_live st), RsOk, consume (S i) st)
  | None =>
      if rd_err st then Ok (rd_live st, RsEof, clear_err (consume (List.length (rd_live st)) st))
      else if Nat.leb (rd_size st) (List.length (rd_live st))
      then Ok (rd_live st, RsFull, consume (List.length (rd_live st)) st)
      else match fuel with
           | O => Err
           | S f => match fill st with Ok st' => read_slice_f f st' | Err => Err | Panic => Panic end
           end
  end.
Proof. destruct fuel; reflexivity. Qed.

Lemma wf_live_le st : wf st -> List.length (rd_live st) <= rd_size st.
Proof. intros (_ & H & _). lia. Qed.

Lemma firstn_alpha st : wf st ->
  firstn (rd_size st) (alpha st) =
  rd_live st ++ firstn (rd_size st - List.length (rd_live st)) (List.concat (rd_chunks st)).
Proof.
  intros H. unfold alpha. rewrite firstn_app. f_equal. apply firstn_all2. apply wf_live_le. exact H.
Qed.

Lemma spec_some st i : wf st -> index_byte LF (rd_live st) = Some i ->
  slice_spec (rd_size st) (alpha st) =
  (firstn (S i) (rd_live st), RsOk, skipn (S i) (rd_live st) ++ List.concat (rd_chunks st)).
Proof.
  intros Hwf Ei. unfold slice_spec. rewrite (firstn_alpha _ Hwf), (index_byte_app_some _ _ _ _ Ei).
  destruct (index_byte_some _ _ _ Ei) as (_ & _ & Hil).
  unfold alpha. rewrite firstn_app, skipn_app.
  replace (S i - List.length (rd_live st)) with 0 by lia. cbn [firstn skipn]. rewrite app_nil_r. reflexivity.
Qed.
Lemma spec_eof st : wf st -> index_byte LF (rd_live st) = None -> rd_chunks st = [] ->
  List.length (rd_live st) < rd_size st ->
  slice_spec (rd_size st) (alpha st) = (rd_live st, RsEof, []).
Proof.
  intros Hwf Ei Hcs Hlt. unfold slice_spec, alpha. rewrite Hcs. cbn [List.concat]. rewrite app_nil_r.
  rewrite firstn_all2 by lia. rewrite Ei.
  replace (Nat.leb (rd_size st) (List.length (rd_live st))) with false by (symmetry; apply Nat.leb_gt; lia).
  reflexivity.
Qed.
Lemma spec_full st : wf st -> index_byte LF (rd_live st) = None -> List.length (rd_live st) = rd_size st ->
  slice_spec (rd_size st) (alpha st) = (rd_live st, RsFull, List.concat (rd_chunks st)).
Proof.
  intros Hwf Ei Hfull. unfold slice_spec, alpha. rewrite firstn_app, skipn_app, app_length.
  rewrite Hfull, Nat.sub_diag. cbn [firstn skipn]. rewrite app_nil_r.
  rewrite <- Hfull, firstn_all, skipn_all, Ei.
  replace (Nat.leb (List.length (rd_live st)) (List.length (rd_live st) + List.length (List.concat (rd_chunks st))))
    with true by (symmetry; apply Nat.leb_le; lia).
  reflexivity.
Qed.

Ltac done1 := first [reflexivity|assumption|lia].
Ltac done4 := split; [done1|split; [done1|split; [done1|done1]]].
Ltac proj := cbn [rd_size rd_pre rd_live rd_suf rd_err rd_chunks consume clear_err].

Definition ready (st : rd) : Prop :=
  index_byte LF (rd_live st) <> None \/ rd_err st = true \/ rd_size st <= List.length (rd_live st).

Lemma read_slice_f_abs : forall fuel st line status rest,
  wf st -> (List.length (rd_chunks st) < fuel \/ ready st) ->
  slice_spec (rd_size st) (alpha st) = (line, status, rest) ->
  exists st', read_slice_f fuel st = Ok (line, status, st') /\
    alpha st' = rest /\ wf st' /\ rd_size st' = rd_size st /\
    (status = RsFull -> rd_live st' = [] /\ rd_pre st' = line /\ rd_err st' = false).
Proof.
  induction fuel as [|f IH]; intros st line status rest Hwf Hfuel Hspec.
  all: rewrite read_slice_f_unfold.
  all: pose proof Hwf as (Hsz & Hlen & Hne & Herr).
  all: destruct (index_byte LF (rd_live st)) as [i|] eqn:Ei.
  1, 3: (rewrite (spec_some _ _ Hwf Ei) in Hspec; injection Hspec as <- <- <-;
         destruct (index_byte_some _ _ _ Ei) as (_ & _ & Hil);
         eexists; split; [reflexivity|]; split; [reflexivity|]; split; [|split; [reflexivity|discriminate]];
         unfold wf; proj; rewrite app_length, firstn_length, skipn_length;
         split; [lia|]; split; [lia|]; split; [exact Hne|];
         intros He; destruct (Herr He) as (? & ?); split; [assumption|lia]).
  all: destruct (rd_err st) eqn:Ee.
  1, 3: (destruct (Herr eq_refl) as (Hcs & Hlt);
         rewrite (spec_eof _ Hwf Ei Hcs ltac:(lia)) in Hspec; injection Hspec as <- <- <-;
         eexists; split; [reflexivity|]; split; [unfold alpha; proj; rewrite skipn_all, Hcs; reflexivity|];
         split; [|split; [reflexivity|discriminate]];
         unfold wf; proj; rewrite app_length, firstn_length, skipn_length;
         split; [lia|]; split; [lia|]; split; [exact Hne|]; discriminate).
  all: destruct (Nat.leb (rd_size st) (List.length (rd_live st))) eqn:El.
  1, 3: (apply Nat.leb_le in El;
         assert (Hfull : List.length (rd_live st) = rd_size st) by lia;
         rewrite (spec_full _ Hwf Ei Hfull) in Hspec; injection Hspec as <- <- <-;
         assert (Hp : rd_pre st = []) by (destruct (rd_pre st); [reflexivity|cbn in Hlen; lia]);
         eexists; split; [reflexivity|]; split; [unfold alpha; proj; rewrite skipn_all; reflexivity|];
         split; [|split; [reflexivity|]];
         [unfold wf; proj; rewrite app_length, firstn_length, skipn_length;
          split; [lia|]; split; [lia|]; split; [exact Hne|]; rewrite Ee; discriminate
         |intros _; proj; rewrite skipn_all, firstn_all, Hp; repeat split; exact Ee]).
  - (* no fuel and not ready *)
    exfalso. apply Nat.leb_gt in El. destruct Hfuel as [Hf|[Hr|[Hr|Hr]]]; [lia|congruence|congruence|lia].
  - (* one more fill *)
    apply Nat.leb_gt in El.
    destruct (fill_spec st Hwf Ee El) as (st1 & Hfill & Hwf1 & Ha1 & Hs1 & Hp1 & (d & Hd) & Hcase).
    rewrite Hfill.
    assert (Hfuel1 : List.length (rd_chunks st1) < f \/ ready st1).
    { destruct Hcase as [(He1 & _)|(He1 & Hgrow & [Hc|Hc])].
      - right. right. left. exact He1.
      - destruct Hfuel as [Hf|[Hr|[Hr|Hr]]]; [left; lia|congruence|congruence|lia].
      - right. right. right. lia. }
    rewrite <- Hs1, <- Ha1 in Hspec.
    destruct (IH st1 line status rest Hwf1 Hfuel1 Hspec) as (st' & Hrs & Hal & Hwf' & Hs' & Hfull).
    exists st'. split; [exact Hrs|]. split; [exact Hal|]. split; [exact Hwf'|]. split; [lia|exact Hfull].
Qed.

Theorem read_slice_abs st line status rest : wf st ->
  slice_spec (rd_size st) (alpha st) = (line, status, rest) ->
  exists st', read_slice st = Ok (line, status, st') /\
    alpha st' = rest /\ wf st' /\ rd_size st' = rd_size st /\
    (status = RsFull -> rd_live st' = [] /\ rd_pre st' = line /\ rd_err st' = false).
Proof.
  intros H. apply read_slice_f_abs; [exact H|]. left. lia.
Qed.

(* ------------------------------------------------------------------ ReadLine *)
(* what ReadLine returns (fragment, isPrefix) and what remains, as a function of the remaining
   stream and the window size only *)
Definition frag_spec (size : nat) (a : bytes) : option (bytes * bool) * bytes :=
  match slice_spec size a with
  | (line, RsFull, rest) =>
      match unsnoc line with
      | Some (i, c) => if Ascii.eqb c CR then (Some (i, true), CR :: rest) else (Some (line, true), rest)
      | None => (Some (line, true), rest)
      end
  | (line, _, rest) => match line with [] => (None, rest) | _ => (Some (drop_eol line, false), rest) end
  end.

Lemma read_line_b_abs st o rest : wf st -> frag_spec (rd_size st) (alpha st) = (o, rest) ->
  exists st', read_line_b st = Ok (o, st') /\ alpha st' = rest /\ wf st' /\ rd_size st' = rd_size st.
Proof.
  intros Hwf Hspec. unfold frag_spec in Hspec. unfold read_line_b.
  destruct (slice_spec (rd_size st) (alpha st)) as [[line status] rest0] eqn:Es.
  destruct (read_slice_abs st _ _ _ Hwf Es) as (st1 & Hrs & Hal & Hwf1 & Hs1 & Hfull).
  rewrite Hrs. destruct status.
  - destruct line; injection Hspec as <- <-; exists st1; done4.
  - destruct line; injection Hspec as <- <-; exists st1; done4.
  - destruct (Hfull eq_refl) as (Hl & Hp & He).
    destruct (unsnoc line) as [[i c]|] eqn:Eu.
    + destruct (Ascii.eqb_spec c CR) as [->|Hc].
      * injection Hspec as <- <-. unfold unread1. rewrite Hp, Eu.
        eexists. split; [reflexivity|]. apply unsnoc_some in Eu.
        pose proof Hwf1 as (Hsz & Hlen & Hne & Herr).
        split; [unfold alpha in *; cbn; rewrite Hl in *; cbn in Hal; rewrite Hal; reflexivity|].
        split; [|exact Hs1].
        unfold wf; cbn. rewrite Hl, Hp, Eu, app_length in Hlen. cbn in Hlen. rewrite Hl. cbn.
        split; [lia|]. split; [lia|]. split; [exact Hne|]. rewrite He. discriminate.
      * injection Hspec as <- <-. exists st1. done4.
    + injection Hspec as <- <-. exists st1. done4.
Qed.

(* the continuation loop of readLine over the abstract stream; None = out of fuel *)
Fixpoint line_more_spec (fuel size : nat) (a acc : bytes) : option (option bytes * bytes) :=
  match fuel with
  | O => None
  | S f =>
      match frag_spec size a with
      | (None, rest) => Some (None, rest)
      | (Some (b, true), rest) => line_more_spec f size rest (acc ++ b)
      | (Some (b, false), rest) => Some (Some (acc ++ b), rest)
      end
  end.

Lemma read_line_more_abs : forall fuel st acc o rest, wf st ->
  line_more_spec fuel (rd_size st) (alpha st) acc = Some (o, rest) ->
  exists st', read_line_more fuel st acc = Ok (o, st') /\ alpha st' = rest /\ wf st' /\ rd_size st' = rd_size st.
Proof.
  induction fuel as [|f IH]; intros st acc o rest Hwf H; cbn in H; [discriminate|].
  destruct (frag_spec (rd_size st) (alpha st)) as [fo r1] eqn:Ef.
  destruct (read_line_b_abs st _ _ Hwf Ef) as (st1 & Hrl & Hal & Hwf1 & Hs1).
  cbn [read_line_more]. rewrite Hrl.
  destruct fo as [[b [|]]|].
  - rewrite <- Hal, <- Hs1 in H. destruct (IH st1 _ _ _ Hwf1 H) as (st' & Hm & Ha' & Hwf' & Hs').
    exists st'. done4.
  - injection H as <- <-. exists st1. done4.
  - injection H as <- <-. exists st1. done4.
Qed.

(* ---- the fragments, case by case ---- *)
Lemma slice_spec_near size a i : index_byte LF a = Some i -> i < size ->
  slice_spec size a = (firstn (S i) a, RsOk, skipn (S i) a).
Proof.
  intros H Hi. unfold slice_spec. rewrite (index_byte_firstn_some _ _ _ _ H Hi). reflexivity.
Qed.
Lemma slice_spec_far size a : index_byte LF (firstn size a) = None -> size <= List.length a ->
  slice_spec size a = (firstn size a, RsFull, skipn size a).
Proof.
  intros H Hs. unfold slice_spec. rewrite H.
  replace (Nat.leb size (List.length a)) with true by (symmetry; apply Nat.leb_le; exact Hs). reflexivity.
Qed.
Lemma slice_spec_eof size a : index_byte LF a = None -> List.length a < size ->
  slice_spec size a = (a, RsEof, []).
Proof.
  intros H Hs. unfold slice_spec. rewrite firstn_all2 by lia. rewrite H.
  replace (Nat.leb size (List.length a)) with false by (symmetry; apply Nat.leb_gt; exact Hs). reflexivity.
Qed.

Lemma firstn_S_index a i : index_byte LF a = Some i -> firstn (S i) a = firstn i a ++ [LF].
Proof.
  intros H. destruct (index_byte_some _ _ _ H) as (Hs & _ & Hl).
  rewrite Hs at 1. replace (S i) with (List.length (firstn i a) + 1) by (rewrite firstn_length; lia).
  rewrite firstn_app_2. reflexivity.
Qed.

Lemma frag_near size a i : index_byte LF a = Some i -> i < size ->
  frag_spec size a = (Some (strip_cr (firstn i a), false), skipn (S i) a).
Proof.
  intros H Hi. unfold frag_spec. rewrite (slice_spec_near _ _ _ H Hi).
  rewrite (firstn_S_index _ _ H), drop_eol_lf.
  destruct (firstn i a ++ [LF]) eqn:E; [destruct (firstn i a); discriminate|reflexivity].
Qed.

Lemma frag_eof size a : index_byte LF a = None -> List.length a < size ->
  frag_spec size a = (match a with [] => None | _ => Some (a, false) end, []).
Proof.
  intros H Hs. unfold frag_spec. rewrite (slice_spec_eof _ _ H Hs).
  destruct a; [reflexivity|]. rewrite drop_eol_no_lf; [reflexivity|]. apply index_byte_none. exact H.
Qed.

(* a full window without LF: the fragment is the window, or the window less a final CR which
   stays in the stream *)
Lemma frag_far size a : 2 <= size -> index_byte LF (firstn size a) = None -> size <= List.length a ->
  exists k, frag_spec size a = (Some (firstn k a, true), skipn k a) /\ 1 <= k <= size /\
    ((k = size /\ forall i z, firstn k a = i ++ [z] -> z <> CR) \/
     (k = size - 1 /\ exists r, skipn k a = CR :: r)).
Proof.
  intros H2 H Hs. unfold frag_spec. rewrite (slice_spec_far _ _ H Hs).
  destruct (unsnoc_cases (firstn size a)) as [E|(i & z & E & Eu)].
  - exfalso. assert (Hl : List.length (firstn size a) = 0) by (rewrite E; reflexivity).
    rewrite firstn_length in Hl. lia.
  - rewrite Eu.
    assert (Hil : List.length i = size - 1).
    { assert (Hl : List.length (firstn size a) = List.length (i ++ [z])) by (rewrite E; reflexivity).
      rewrite firstn_length, app_length in Hl. cbn in Hl. lia. }
    assert (Hi : i = firstn (size - 1) a).
    { assert (Hf : firstn (size - 1) (firstn size a) = firstn (size - 1) (i ++ [z])) by (rewrite E; reflexivity).
      rewrite firstn_firstn in Hf. replace (Nat.min (size - 1) size) with (size - 1) in Hf by lia.
      rewrite firstn_app, Hil, Nat.sub_diag in Hf. cbn [firstn] in Hf.
      rewrite app_nil_r in Hf. rewrite (firstn_all2 i) in Hf by lia. symmetry. exact Hf. }
    assert (Hz : skipn (size - 1) a = z :: skipn size a).
    { rewrite <- (firstn_skipn size a) at 1. rewrite E, <- app_assoc, skipn_app.
      rewrite (skipn_all2 i) by lia. rewrite Hil, Nat.sub_diag. reflexivity. }
    destruct (Ascii.eqb_spec z CR) as [->|Hz'].
    + exists (size - 1). rewrite <- Hi, Hz. split; [reflexivity|]. split; [lia|].
      right. split; [reflexivity|]. exists (skipn size a). reflexivity.
    + exists size. split; [reflexivity|]. split; [lia|]. left. split; [reflexivity|].
      intros i' z' E'. rewrite E in E'. apply app_inj_tail in E'. destruct E' as (_ & <-). exact Hz'.
Qed.

Lemma frag_far_lf size a i : 16 <= size -> index_byte LF a = Some i -> size <= i ->
  exists k, frag_spec size a = (Some (firstn k a, true), skipn k a) /\ 1 <= k <= size /\
    ((k = size /\ forall i z, firstn k a = i ++ [z] -> z <> CR) \/
     (k = size - 1 /\ exists r, skipn k a = CR :: r)).
Proof.
  intros Hsz H Hi. destruct (index_byte_some _ _ _ H) as (_ & _ & Hl).
  apply frag_far; [lia|exact (index_byte_firstn_none _ _ _ _ H Hi)|lia].
Qed.
Lemma frag_far_nolf size a : 16 <= size -> index_byte LF a = None -> size <= List.length a ->
  exists k, frag_spec size a = (Some (firstn k a, true), skipn k a) /\ 1 <= k <= size /\
    ((k = size /\ forall i z, firstn k a = i ++ [z] -> z <> CR) \/
     (k = size - 1 /\ exists r, skipn k a = CR :: r)).
Proof.
  intros Hsz H Hi. apply frag_far; [lia|exact (index_byte_firstn_none2 _ _ _ H)|lia].
Qed.

(* ---- readLine = Message.read_line, whatever the window ---- *)
Lemma strip_combine size a i k : 16 <= size -> size <= i -> k <= i ->
  ((k = size /\ forall i z, firstn k a = i ++ [z] -> z <> CR) \/
   (k = size - 1 /\ exists r, skipn k a = CR :: r)) ->
  firstn k a ++ strip_cr (firstn (i - k) (skipn k a)) = strip_cr (firstn i a).
Proof.
  intros Hsz Hi Hk Hcase.
  replace i with (k + (i - k)) at 2 by lia. rewrite firstn_add.
  destruct Hcase as [(-> & Hlast)|(-> & r & Hr)].
  - destruct (firstn (i - size) (skipn size a)) as [|y l] eqn:Ey.
    + change (strip_cr []) with (@nil ascii). rewrite !app_nil_r. symmetry. apply strip_cr_no_cr. exact Hlast.
    + symmetry. apply strip_cr_app_ne. discriminate.
  - symmetry. apply strip_cr_app_ne. rewrite Hr.
    replace (i - (size - 1)) with (S (i - size)) by lia. discriminate.
Qed.

Lemma line_more_lf size : 16 <= size -> forall i a acc fuel,
  index_byte LF a = Some i -> i < fuel ->
  line_more_spec fuel size a acc = Some (Some (acc ++ strip_cr (firstn i a)), skipn (S i) a).
Proof.
  intros Hsz i. induction i as [i IH] using lt_wf_ind. intros a acc fuel H Hf.
  destruct fuel as [|f]; [lia|]. cbn [line_more_spec].
  destruct (Nat.lt_ge_cases i size) as [Hi|Hi].
  - rewrite (frag_near _ _ _ H Hi). reflexivity.
  - destruct (index_byte_some _ _ _ H) as (_ & _ & Hl).
    destruct (frag_far_lf size a i Hsz H Hi) as (k & Hfr & Hk & Hcase).
    rewrite Hfr.
    assert (Hki : k <= i) by lia.
    assert (Hlt : i - k < i) by lia.
    assert (Hf' : i - k < f) by lia.
    rewrite (IH (i - k) Hlt (skipn k a) (acc ++ firstn k a) f (index_byte_skipn _ _ _ _ H Hki) Hf').
    rewrite <- app_assoc, (strip_combine size a i k Hsz Hi Hki Hcase), <- skipn_add.
    replace (k + S (i - k)) with (S i) by lia. reflexivity.
Qed.

Lemma line_more_nolf size : 16 <= size -> forall n a acc fuel,
  List.length a = n -> index_byte LF a = None -> n < fuel ->
  (exists r, line_more_spec fuel size a acc = Some (None, r)) \/
  (a <> [] /\ line_more_spec fuel size a acc = Some (Some (acc ++ a), [])).
Proof.
  intros Hsz n. induction n as [n IH] using lt_wf_ind. intros a acc fuel Hn H Hf.
  destruct fuel as [|f]; [lia|]. cbn [line_more_spec].
  destruct (Nat.lt_ge_cases n size) as [Hi|Hi].
  - assert (Hsa : List.length a < size) by lia.
    rewrite (frag_eof _ _ H Hsa). destruct a as [|x a].
    + left. eexists. reflexivity.
    + right. split; [discriminate|reflexivity].
  - assert (Hsa : size <= List.length a) by lia.
    destruct (frag_far_nolf size a Hsz H Hsa) as (k & Hfr & Hk & _).
    rewrite Hfr.
    assert (Hlt : n - k < n) by lia.
    assert (Hlen : List.length (skipn k a) = n - k) by (rewrite skipn_length; lia).
    assert (Hf' : n - k < f) by lia.
    destruct (IH (n - k) Hlt (skipn k a) (acc ++ firstn k a) f Hlen
                 (index_byte_skipn_none _ _ _ H) Hf') as [(r & Hr)|(Hne & Hr)].
    + left. exists r. exact Hr.
    + right. split; [intros ->; cbn in Hn; lia|]. rewrite Hr, <- app_assoc, firstn_skipn. reflexivity.
Qed.

Definition line_c_spec (size : nat) (a : bytes) : option (option bytes * bytes) :=
  match frag_spec size a with
  | (None, r) => Some (None, r)
  | (Some (l, false), r) => Some (Some l, r)
  | (Some (l, true), r) => line_more_spec (S (List.length r)) size r l
  end.
Lemma read_line_c_spec st o rest : wf st -> line_c_spec (rd_size st) (alpha st) = Some (o, rest) ->
  exists st', read_line_c st = Ok (o, st') /\ alpha st' = rest /\ wf st' /\ rd_size st' = rd_size st.
Proof.
  intros Hwf H. unfold line_c_spec in H. unfold read_line_c.
  destruct (frag_spec (rd_size st) (alpha st)) as [fo r1] eqn:Ef.
  destruct (read_line_b_abs st _ _ Hwf Ef) as (st1 & Hrl & Hal & Hwf1 & Hs1).
  rewrite Hrl. destruct fo as [[l [|]]|].
  - subst r1. rewrite <- Hs1 in H.
    destruct (read_line_more_abs _ st1 _ _ _ Hwf1 H) as (st' & Hm & Ha' & Hwf' & Hs').
    exists st'. done4.
  - injection H as <- <-. exists st1. done4.
  - injection H as <- <-. exists st1. done4.
Qed.

(* readLine over the concrete reader is Message.read_line over the remaining bytes: the line
   does not depend on the window size nor on the segmentation.  (When the stream ends without
   LF the concrete reader may report the error one call earlier; ParseMessage fails either way.) *)
Lemma line_c_spec_lf size a i : 16 <= size -> index_byte LF a = Some i ->
  line_c_spec size a = Some (Some (strip_cr (firstn i a)), skipn (S i) a).
Proof.
  intros Hsz Ei. unfold line_c_spec. destruct (index_byte_some _ _ _ Ei) as (_ & _ & Hl).
  destruct (Nat.lt_ge_cases i size) as [Hi|Hi].
  - rewrite (frag_near _ _ _ Ei Hi). reflexivity.
  - destruct (frag_far_lf size a i Hsz Ei Hi) as (k & -> & Hk & Hcase).
    assert (Hki : k <= i) by lia.
    assert (Hf : i - k < S (List.length (skipn k a))) by (rewrite skipn_length; lia).
    rewrite (line_more_lf size Hsz (i - k) (skipn k a) (firstn k a) _ (index_byte_skipn _ _ _ _ Ei Hki) Hf).
    rewrite (strip_combine size a i k Hsz Hi Hki Hcase), <- skipn_add.
    replace (k + S (i - k)) with (S i) by lia. reflexivity.
Qed.
Lemma line_c_spec_nolf size a : 16 <= size -> index_byte LF a = None ->
  (exists r, line_c_spec size a = Some (None, r)) \/ (a <> [] /\ line_c_spec size a = Some (Some a, [])).
Proof.
  intros Hsz Ei. unfold line_c_spec.
  destruct (Nat.lt_ge_cases (List.length a) size) as [Hi|Hi].
  - rewrite (frag_eof _ _ Ei Hi). destruct a as [|x a].
    + left. eexists. reflexivity.
    + right. split; [discriminate|reflexivity].
  - destruct (frag_far_nolf size a Hsz Ei Hi) as (k & -> & Hk & _).
    destruct (line_more_nolf size Hsz _ (skipn k a) (firstn k a) (S (List.length (skipn k a))) eq_refl
                (index_byte_skipn_none _ _ _ Ei) (Nat.lt_succ_diag_r _)) as [(r & Hr)|(Hne & Hr)].
    + left. exists r. exact Hr.
    + right. split; [intros ->; cbn in Hi; lia|]. rewrite Hr, firstn_skipn. reflexivity.
Qed.

Theorem read_line_c_abs st : wf st ->
  match index_byte LF (alpha st) with
  | Some i => exists st', read_line_c st = Ok (Some (strip_cr (firstn i (alpha st))), st') /\
                          alpha st' = skipn (S i) (alpha st) /\ wf st' /\ rd_size st' = rd_size st
  | None => (exists st', read_line_c st = Ok (None, st')) \/
            (alpha st <> [] /\ exists st', read_line_c st = Ok (Some (alpha st), st') /\
                                          alpha st' = [] /\ wf st' /\ rd_size st' = rd_size st)
  end.
Proof.
  intros Hwf. pose proof Hwf as (Hsz & _).
  destruct (index_byte LF (alpha st)) as [i|] eqn:Ei.
  - exact (read_line_c_spec st _ _ Hwf (line_c_spec_lf _ _ _ Hsz Ei)).
  - destruct (line_c_spec_nolf _ _ Hsz Ei) as [(r & Hr)|(Hne & Hr)].
    + left. destruct (read_line_c_spec st _ _ Hwf Hr) as (st' & H' & _). exists st'. exact H'.
    + right. split; [exact Hne|]. exact (read_line_c_spec st _ _ Hwf Hr).
Qed.

(* ------------------------------------------------------------------ ReadByte / UnreadByte / skipWhiteSpace *)
Lemma read_byte_f_unfold fuel st :
  read_byte_f fuel st =
  match rd_live st with
  | c :: _ => Ok (Some c, consume 1 st)
  | [] => if rd_err st then Ok (None, clear_err st)
          else match fuel with
               | O => Err
               | S f => match fill st with Ok st' => read_byte_f f st' | Err => Err | Panic => Panic end
               end
  end.
Proof. destruct fuel; reflexivity. Qed.

Lemma read_byte_abs st : wf st ->
  exists st', read_byte st = Ok (match alpha st with [] => None | c :: _ => Some c end, st') /\
    alpha st' = tl (alpha st) /\ wf st' /\ rd_size st' = rd_size st /\
    (forall c r, alpha st = c :: r ->
       exists st2, unread_byte st' = Ok st2 /\ alpha st2 = alpha st /\ wf st2 /\ rd_size st2 = rd_size st).
Proof.
  intros Hwf. pose proof Hwf as (Hsz & Hlen & Hne & Herr).
  assert (Hdirect : forall s, wf s -> forall c l, rd_live s = c :: l ->
    exists st', read_byte_f 1 s = Ok (Some c, st') /\ read_byte_f 2 s = Ok (Some c, st') /\
      alpha st' = l ++ List.concat (rd_chunks s) /\ wf st' /\ rd_size st' = rd_size s /\
      exists st2, unread_byte st' = Ok st2 /\ alpha st2 = alpha s /\ wf st2 /\ rd_size st2 = rd_size s).
  { intros s Hs c l El. pose proof Hs as (Hsz' & Hlen' & Hne' & Herr').
    exists (consume 1 s). rewrite !read_byte_f_unfold, El.
    split; [reflexivity|]. split; [reflexivity|].
    unfold alpha, consume; proj. rewrite El. cbn [firstn skipn].
    split; [reflexivity|]. split; [|split; [reflexivity|]].
    - unfold wf; proj. rewrite El in Hlen', Herr'. rewrite app_length. cbn in *.
      split; [lia|]. split; [lia|]. split; [exact Hne'|]. intros He. destruct (Herr' He). split; [assumption|lia].
    - unfold unread_byte; proj. rewrite unsnoc_app. eexists. split; [reflexivity|]. proj.
      split; [reflexivity|]. split; [|reflexivity].
      unfold wf; proj. rewrite El in Hlen', Herr'. exact Hs || (unfold wf in Hs; rewrite El in Hs; exact Hs). }
  unfold read_byte. destruct (rd_live st) as [|c l] eqn:El.
  - rewrite read_byte_f_unfold, El. destruct (rd_err st) eqn:Ee.
    + destruct (Herr eq_refl) as (Hcs & Hlt). unfold alpha. rewrite El, Hcs. cbn.
      eexists. split; [reflexivity|]. unfold alpha; proj. rewrite El, Hcs. cbn.
      split; [reflexivity|]. split; [|split; [reflexivity|intros; discriminate]].
      unfold wf; proj. rewrite El in *. split; [lia|]. split; [lia|]. split; [exact Hne|]. discriminate.
    + assert (Hlt : List.length (rd_live st) < rd_size st) by (rewrite El; cbn; lia).
      destruct (fill_spec st Hwf Ee Hlt) as (st1 & Hfill & Hwf1 & Ha1 & Hs1 & Hp1 & (d & Hd) & Hcase).
      rewrite Hfill. rewrite El in Hd. cbn in Hd.
      destruct Hcase as [(He1 & Hl1)|(He1 & Hgrow & _)].
      * pose proof Hwf1 as (_ & _ & _ & Herr1). destruct (Herr1 He1) as (Hcs1 & _).
        assert (Hnil : alpha st = []) by (rewrite <- Ha1; unfold alpha; rewrite Hl1, El, Hcs1; reflexivity).
        rewrite Hnil. rewrite read_byte_f_unfold, Hl1, El, He1.
        eexists. split; [reflexivity|]. unfold alpha; proj. rewrite Hl1, El, Hcs1. cbn.
        split; [reflexivity|]. split; [|split; [exact Hs1|intros; discriminate]].
        pose proof Hwf1 as (A & B & C & D). unfold wf; proj. rewrite Hl1, El in *.
        split; [exact A|]. split; [exact B|]. split; [exact C|]. discriminate.
      * destruct d as [|c l]; [rewrite Hd, El in Hgrow; cbn in Hgrow; lia|].
        destruct (Hdirect st1 Hwf1 c l Hd) as (st' & Hr1 & _ & Hal & Hwf' & Hs' & st2 & Hu & Ha2 & Hwf2 & Hs2).
        rewrite Hr1. rewrite <- Ha1.
        assert (Hal1 : alpha st1 = c :: l ++ List.concat (rd_chunks st1)) by (unfold alpha; rewrite Hd; reflexivity).
        rewrite Hal1. cbn [tl].
        exists st'. split; [reflexivity|]. split; [exact Hal|]. split; [exact Hwf'|]. split; [lia|].
        intros c' r' _. exists st2. split; [exact Hu|]. split; [rewrite Ha2; exact Hal1|]. split; [exact Hwf2|lia].
  - destruct (Hdirect st Hwf c l El) as (st' & _ & Hr2 & Hal & Hwf' & Hs' & st2 & Hu & Ha2 & Hwf2 & Hs2).
    rewrite Hr2.
    assert (Hal1 : alpha st = c :: l ++ List.concat (rd_chunks st)) by (unfold alpha; rewrite El; reflexivity).
    rewrite Hal1. cbn [tl].
    exists st'. split; [reflexivity|]. split; [exact Hal|]. split; [exact Hwf'|]. split; [exact Hs'|].
    intros c' r' _. exists st2. split; [exact Hu|]. split; [rewrite Ha2; exact Hal1|]. split; [exact Hwf2|exact Hs2].
Qed.

Lemma skip_ws_f_abs : forall fuel st, wf st -> List.length (alpha st) < fuel ->
  exists st', skip_ws_f fuel st = Ok st' /\ alpha st' = trim_left (alpha st) /\ wf st' /\ rd_size st' = rd_size st.
Proof.
  induction fuel as [|f IH]; intros st Hwf Hf; [lia|].
  cbn [skip_ws_f].
  destruct (read_byte_abs st Hwf) as (st1 & Hrb & Hal & Hwf1 & Hs1 & Hun).
  rewrite Hrb. destruct (alpha st) as [|c r] eqn:Ea.
  - exists st1. cbn. done4.
  - cbn [tl] in Hal. cbn [trim_left]. destruct (is_space c) eqn:Ec.
    + destruct (IH st1 Hwf1) as (st' & Hsk & Ha' & Hwf' & Hs').
      { rewrite Hal. cbn in Hf. lia. }
      exists st'. rewrite Hal in Ha'. split; [exact Hsk|]. split; [exact Ha'|]. split; [exact Hwf'|lia].
    + destruct (Hun c r eq_refl) as (st2 & Hu & Ha2 & Hwf2 & Hs2). rewrite Hu.
      exists st2. done4.
Qed.
Lemma skip_ws_abs st : wf st ->
  exists st', skip_ws st = Ok st' /\ alpha st' = trim_left (alpha st) /\ wf st' /\ rd_size st' = rd_size st.
Proof. intros H. apply skip_ws_f_abs; [exact H|lia]. Qed.

(* ------------------------------------------------------------------ Read / io.ReadFull *)
Lemma read_b_abs n st : wf st -> 0 < n ->
  exists d e st', read_b n st = Ok (d, e, st') /\ wf st' /\ rd_size st' = rd_size st /\
    ((e = true /\ d = [] /\ alpha st = [] /\ alpha st' = []) \/
     (e = false /\ d <> [] /\ List.length d <= n /\ alpha st = d ++ alpha st')).
Proof.
  intros Hwf Hn. pose proof Hwf as (Hsz & Hlen & Hne & Herr).
  unfold read_b. destruct n as [|n']; [lia|]. set (n := S n') in *.
  destruct (rd_live st) as [|c l] eqn:El.
  - destruct (rd_err st) eqn:Ee.
    + destruct (Herr eq_refl) as (Hcs & Hlt).
      eexists _, _, _. split; [reflexivity|]. split; [|split; [reflexivity|]].
      * unfold wf; proj. try rewrite El in *. split; [lia|]. split; [lia|]. split; [exact Hne|]. discriminate.
      * left. unfold alpha; proj. rewrite El, Hcs. repeat split.
    + destruct (Nat.leb (rd_size st) n) eqn:Ebig.
      * destruct (under_read n (rd_chunks st)) as [[d e] cs'] eqn:Eu.
        destruct (under_read_spec _ _ _ _ _ Hne Hn Eu) as [(Hcs & -> & -> & ->)|(-> & Hd & Hdl & Hcat & Hne' & _)].
        -- eexists _, _, _. split; [reflexivity|]. split; [|split; [reflexivity|]].
           ++ unfold wf; proj. try rewrite El in *. cbn in *. split; [lia|]. split; [lia|]. split; [constructor|]. discriminate.
           ++ left. unfold alpha; proj. rewrite El, Hcs. repeat split.
        -- eexists _, _, _. split; [reflexivity|]. split; [|split; [reflexivity|]].
           ++ unfold wf; proj. try rewrite El in *. cbn in *. split; [lia|]. split; [lia|]. split; [exact Hne'|]. discriminate.
           ++ right. unfold alpha; proj. rewrite El. cbn [app]. repeat split; try assumption. symmetry. exact Hcat.
      * assert (Himg : List.length (image st) = rd_size st) by (unfold image; rewrite El, !app_length; cbn in *; lia).
        destruct (under_read (List.length (image st)) (rd_chunks st)) as [[d e] cs'] eqn:Eu.
        assert (Hpos : 0 < List.length (image st)) by lia.
        destruct (under_read_spec _ _ _ _ _ Hne Hpos Eu) as [(Hcs & -> & -> & ->)|(-> & Hd & Hdl & Hcat & Hne' & _)].
        -- eexists _, _, _. split; [reflexivity|]. split; [|split; [reflexivity|]].
           ++ unfold wf; proj. cbn. split; [lia|]. split; [lia|]. split; [constructor|]. discriminate.
           ++ left. unfold alpha; proj. rewrite El, Hcs. repeat split.
        -- destruct d as [|x d']; [contradiction|]. set (d := x :: d') in *.
           eexists _, _, _. split; [reflexivity|]. split; [|split; [reflexivity|]].
           ++ unfold wf; proj. rewrite firstn_length, skipn_length, skipn_length.
              split; [lia|]. split; [lia|]. split; [exact Hne'|]. discriminate.
           ++ right. split; [reflexivity|]. split.
              { unfold d. cbn. discriminate. }
              split; [rewrite firstn_length; lia|].
              unfold alpha; proj. rewrite El. cbn [app]. rewrite <- Hcat, app_assoc, firstn_skipn. reflexivity.
  - assert (Hll : List.length (rd_live st) = List.length (c :: l)) by (rewrite El; reflexivity).
    rewrite <- El. eexists _, _, _. split; [reflexivity|]. split; [|split; [reflexivity|]].
    + unfold wf; proj. rewrite app_length, firstn_length, skipn_length.
      split; [lia|]. split; [lia|]. split; [exact Hne|].
      intros He. destruct (Herr He). split; [assumption|lia].
    + right. split; [reflexivity|]. split.
      { rewrite El. cbn. discriminate. }
      split; [rewrite firstn_length; lia|].
      unfold alpha; proj. rewrite app_assoc, firstn_skipn. reflexivity.
Qed.

Lemma read_full_f_abs : forall fuel st want acc, wf st -> want < fuel ->
  exists st', wf st' /\ rd_size st' = rd_size st /\
    if Nat.leb want (List.length (alpha st))
    then read_full_f fuel st want acc = Ok (Some (acc ++ firstn want (alpha st)), st') /\
         alpha st' = skipn want (alpha st)
    else read_full_f fuel st want acc = Ok (None, st').
Proof.
  induction fuel as [|f IH]; intros st want acc Hwf Hf; [lia|].
  destruct want as [|w].
  - exists st. split; [exact Hwf|]. split; [reflexivity|]. cbn. rewrite app_nil_r. split; reflexivity.
  - cbn [read_full_f].
    destruct (read_b_abs (S w) st Hwf ltac:(lia)) as (d & e & st1 & Hrb & Hwf1 & Hs1 & Hcase).
    rewrite Hrb. destruct Hcase as [(-> & -> & Ha & Ha1)|(-> & Hd & Hdl & Ha)].
    + exists st1. split; [exact Hwf1|]. split; [exact Hs1|]. rewrite Ha. cbn. reflexivity.
    + destruct (IH st1 (S w - List.length d) (acc ++ d) Hwf1) as (st' & Hwf' & Hs' & Hres).
      { destruct d; [contradiction|]. cbn. lia. }
      exists st'. split; [exact Hwf'|]. split; [lia|].
      rewrite Ha, app_length.
      destruct (Nat.leb (S w) (List.length d + List.length (alpha st1))) eqn:El.
      * apply Nat.leb_le in El.
        replace (Nat.leb (S w - List.length d) (List.length (alpha st1))) with true in Hres
          by (symmetry; apply Nat.leb_le; lia).
        destruct Hres as (Hr & Hal). rewrite Hr. split.
        -- f_equal. f_equal. f_equal. rewrite <- app_assoc. f_equal.
           rewrite firstn_app. rewrite (firstn_all2 d) by lia. reflexivity.
        -- rewrite Hal, skipn_app. rewrite (skipn_all2 d) by lia. reflexivity.
      * apply Nat.leb_gt in El.
        replace (Nat.leb (S w - List.length d) (List.length (alpha st1))) with false in Hres
          by (symmetry; apply Nat.leb_gt; lia).
        exact Hres.
Qed.
Lemma read_full_abs st want : wf st ->
  exists st', wf st' /\ rd_size st' = rd_size st /\
    if Nat.leb want (List.length (alpha st))
    then read_full st want = Ok (Some (firstn want (alpha st)), st') /\ alpha st' = skipn want (alpha st)
    else read_full st want = Ok (None, st').
Proof. intros H. apply (read_full_f_abs (S want) st want [] H). lia. Qed.

(* ------------------------------------------------------------------ the body *)
Definition body_inv (n cap : Z) (have : bytes) (alloc : Z) : Prop :=
  (have = [] /\ alloc = cap /\ (cap <= body_step)%Z) \/
  (Z.of_nat (List.length have) = cap /\ (alloc <= 2 * cap)%Z) \/
  (Z.of_nat (List.length have) = cap /\ cap = n /\ (alloc <= 3 * n)%Z).

Lemma read_body_f_abs : forall fuel st n cap have alloc,
  wf st -> List.length (alpha st) < fuel ->
  (0 < cap <= n)%Z -> (Z.of_nat (List.length have) <= cap)%Z ->
  (2 * (Z.of_nat (List.length have) + Z.of_nat (List.length (alpha st))) <= make_limit)%Z ->
  body_inv n cap have alloc ->
  exists st' a, wf st' /\ rd_size st' = rd_size st /\
    if (n <=? Z.of_nat (List.length have) + Z.of_nat (List.length (alpha st)))%Z
    then read_body_f fuel st n cap have alloc =
           (Ok (Some (have ++ firstn (Z.to_nat n - List.length have) (alpha st)), st'), a) /\
         alpha st' = skipn (Z.to_nat n - List.length have) (alpha st) /\ (a <= 3 * n)%Z
    else read_body_f fuel st n cap have alloc = (Ok (None, st'), a) /\
         (a <= 4 * (Z.of_nat (List.length have) + Z.of_nat (List.length (alpha st))) + body_step)%Z.
Proof.
  induction fuel as [|f IH]; intros st n cap have alloc Hwf Hf Hcap Hhc Hlim Hinv; [lia|].
  cbn [read_body_f].
  destruct (Z.leb n (Z.of_nat (List.length have))) eqn:Ex.
  - apply Z.leb_le in Ex. exists st, alloc. split; [exact Hwf|]. split; [reflexivity|].
    replace (n <=? Z.of_nat (List.length have) + Z.of_nat (List.length (alpha st)))%Z with true
      by (symmetry; apply Z.leb_le; lia).
    replace (Z.to_nat n - List.length have) with 0 by lia. cbn [firstn skipn]. rewrite app_nil_r.
    split; [reflexivity|]. split; [reflexivity|].
    destruct Hinv as [(-> & _ & _)|[(He & Ha)|(He & Hn & Ha)]]; [cbn in Ex; lia|lia|lia].
  - apply Z.leb_gt in Ex.
    destruct (Z.eqb (Z.of_nat (List.length have)) cap) eqn:Eg; cbn [andb].
    + (* the buffer is full of received bytes: double it *)
      apply Z.eqb_eq in Eg.
      assert (Hmk : make_ok (Z.min n (2 * cap)) = true) by (unfold make_ok; apply Z.leb_le; lia).
      rewrite Hmk. cbn [negb].
      set (cap' := Z.min n (2 * cap)).
      assert (Hinv0 : (alloc <= 2 * cap)%Z).
      { destruct Hinv as [(-> & _ & _)|[(He & Ha)|(He & Hn & Ha)]]; [cbn in Eg; lia|lia|lia]. }
      destruct (read_full_abs st (Z.to_nat (cap' - Z.of_nat (List.length have))) Hwf) as (st1 & Hwf1 & Hs1 & Hrf).
      destruct (Nat.leb (Z.to_nat (cap' - Z.of_nat (List.length have))) (List.length (alpha st))) eqn:Ew.
      * apply Nat.leb_le in Ew. destruct Hrf as (Hrf & Hal). rewrite Hrf.
        set (d := firstn (Z.to_nat (cap' - Z.of_nat (List.length have))) (alpha st)) in *.
        assert (Hdl : List.length d = Z.to_nat (cap' - Z.of_nat (List.length have)))
          by (unfold d; rewrite firstn_length; lia).
        assert (Hal1 : List.length (alpha st1) = List.length (alpha st) - List.length d)
          by (rewrite Hal, skipn_length; lia).
        assert (Hd : d = firstn (Z.to_nat (cap' - Z.of_nat (List.length have))) (alpha st)) by reflexivity.
        clearbody d.
        destruct (IH st1 n cap' (have ++ d) (alloc + cap')%Z Hwf1) as (st' & a & Hwf' & Hs' & Hres).
        { unfold cap' in *. lia. }
        { unfold cap'. lia. }
        { rewrite app_length. unfold cap' in *. lia. }
        { rewrite app_length. unfold cap' in *. lia. }
        { unfold body_inv. rewrite app_length. unfold cap' in *.
          destruct (Z.leb (2 * cap) n) eqn:E2; [apply Z.leb_le in E2|apply Z.leb_gt in E2].
          - right. left. lia.
          - right. right. lia. }
        exists st', a. split; [exact Hwf'|]. split; [lia|].
        rewrite app_length in Hres.
        replace (n <=? Z.of_nat (List.length have + List.length d) + Z.of_nat (List.length (alpha st1)))%Z
          with (n <=? Z.of_nat (List.length have) + Z.of_nat (List.length (alpha st)))%Z in Hres
          by (f_equal; unfold cap' in *; lia).
        destruct (n <=? Z.of_nat (List.length have) + Z.of_nat (List.length (alpha st)))%Z eqn:En.
        -- apply Z.leb_le in En. destruct Hres as (Hr & Ha' & Hb). rewrite Hr.
           assert (Hk : Z.to_nat n - List.length have =
                        List.length d + (Z.to_nat n - (List.length have + List.length d)))
             by (unfold cap' in *; lia).
           split; [|split; [|exact Hb]].
           ++ f_equal. f_equal. f_equal. rewrite <- app_assoc. f_equal.
              rewrite Hk, firstn_add, Hdl, <- Hal, <- Hd. reflexivity.
           ++ rewrite Ha', Hk, skipn_add, Hdl, <- Hal. reflexivity.
        -- destruct Hres as (Hr & Hb). split; [exact Hr|]. unfold cap' in *. lia.
      * apply Nat.leb_gt in Ew. rewrite Hrf.
        exists st1, (alloc + cap')%Z. split; [exact Hwf1|]. split; [exact Hs1|].
        replace (n <=? Z.of_nat (List.length have) + Z.of_nat (List.length (alpha st)))%Z with false
          by (symmetry; apply Z.leb_gt; unfold cap' in *; lia).
        split; [reflexivity|]. unfold cap', body_step in *. lia.
    + (* first round: capacity min(n, 64 KiB), nothing read yet *)
      apply Z.eqb_neq in Eg.
      destruct Hinv as [(-> & Ha & Hstep)|[(He & _)|(He & _)]]; [|lia|lia].
      cbn [List.length] in *. cbn [app].
      destruct (read_full_abs st (Z.to_nat (cap - Z.of_nat 0)) Hwf) as (st1 & Hwf1 & Hs1 & Hrf).
      destruct (Nat.leb (Z.to_nat (cap - Z.of_nat 0)) (List.length (alpha st))) eqn:Ew.
      * apply Nat.leb_le in Ew. destruct Hrf as (Hrf & Hal). rewrite Hrf.
        set (d := firstn (Z.to_nat (cap - Z.of_nat 0)) (alpha st)) in *.
        assert (Hdl : List.length d = Z.to_nat cap) by (unfold d; rewrite firstn_length; lia).
        assert (Hal1 : List.length (alpha st1) = List.length (alpha st) - List.length d)
          by (rewrite Hal, skipn_length; lia).
        assert (Hd : d = firstn (Z.to_nat (cap - Z.of_nat 0)) (alpha st)) by reflexivity.
        clearbody d.
        destruct (IH st1 n cap d alloc Hwf1) as (st' & a & Hwf' & Hs' & Hres).
        { lia. } { lia. } { lia. } { lia. }
        { right. left. lia. }
        exists st', a. split; [exact Hwf'|]. split; [lia|].
        replace (n <=? Z.of_nat (List.length d) + Z.of_nat (List.length (alpha st1)))%Z
          with (n <=? Z.of_nat 0 + Z.of_nat (List.length (alpha st)))%Z in Hres by (f_equal; lia).
        destruct (n <=? Z.of_nat 0 + Z.of_nat (List.length (alpha st)))%Z eqn:En.
        -- apply Z.leb_le in En. destruct Hres as (Hr & Ha' & Hb). rewrite Hr.
           assert (Hk : Z.to_nat n - 0 = List.length d + (Z.to_nat n - List.length d)) by lia.
           split; [|split; [|exact Hb]].
           ++ f_equal. f_equal. f_equal.
              assert (Hdl' : List.length d = Z.to_nat (cap - Z.of_nat 0)) by lia.
              rewrite Hk, firstn_add, Hdl', <- Hal, <- Hd. reflexivity.
           ++ assert (Hdl' : List.length d = Z.to_nat (cap - Z.of_nat 0)) by lia.
              rewrite Ha', Hk, skipn_add, Hdl', <- Hal. reflexivity.
        -- split; [exact (proj1 Hres)|]. destruct Hres as (_ & Hb). lia.
      * apply Nat.leb_gt in Ew. rewrite Hrf.
        exists st1, alloc. split; [exact Hwf1|]. split; [exact Hs1|].
        replace (n <=? Z.of_nat 0 + Z.of_nat (List.length (alpha st)))%Z with false
          by (symmetry; apply Z.leb_gt; lia).
        split; [reflexivity|]. unfold body_step in *. lia.
Qed.

(* the body reader: the first n bytes of the stream, or an error when fewer remain; bytes
   requested from make: at most 3n on success, at most 4 x (what was there) + 64 KiB on failure *)
Theorem read_body_abs st n : wf st -> (0 <= n)%Z ->
  (2 * Z.of_nat (List.length (alpha st)) <= make_limit)%Z ->
  exists st' a, wf st' /\ rd_size st' = rd_size st /\
    if (n <=? Z.of_nat (List.length (alpha st)))%Z
    then read_body_c st n = (Ok (Some (firstn (Z.to_nat n) (alpha st)), st'), a) /\
         alpha st' = skipn (Z.to_nat n) (alpha st) /\ (a <= 3 * n)%Z
    else read_body_c st n = (Ok (None, st'), a) /\
         (a <= 4 * Z.of_nat (List.length (alpha st)) + body_step)%Z.
Proof.
  intros Hwf Hn Hlim. unfold read_body_c.
  destruct (Z.eq_dec n 0) as [->|Hn0].
  - exists st, 0%Z. split; [exact Hwf|]. split; [reflexivity|].
    replace (0 <=? Z.of_nat (List.length (alpha st)))%Z with true by (symmetry; apply Z.leb_le; lia).
    cbn. split; [reflexivity|]. split; [reflexivity|lia].
  - destruct (read_body_f_abs (S (List.length (alpha st))) st n (Z.min n body_step) [] (Z.min n body_step) Hwf)
      as (st' & a & Hwf' & Hs' & Hres).
    { lia. } { unfold body_step. lia. } { cbn [List.length]. unfold body_step. lia. } { cbn [List.length]. lia. }
    { left. unfold body_step. repeat split. lia. }
    exists st', a. split; [exact Hwf'|]. split; [exact Hs'|].
    cbn [List.length app] in Hres. rewrite Z.add_0_l, Nat.sub_0_r in Hres. exact Hres.
Qed.

(* ------------------------------------------------------------------ ParseMessage *)
Lemma rv_rev {A} (l : list A) : rv l = rev l.
Proof. unfold rv. symmetry. apply rev_alt. Qed.
Lemma parse_header_line_c_eq line : parse_header_line_c line = parse_header_line line.
Proof.
  unfold parse_header_line_c, parse_header_line, trim_space_go, trim_right_go.
  destruct (index_byte ":"%char line); [|reflexivity]. rewrite !rv_rev. reflexivity.
Qed.
Lemma parse_header_line_cases l : parse_header_line l = Err \/ exists h, parse_header_line l = Ok h.
Proof.
  unfold parse_header_line. destruct (index_byte ":"%char l); [right; eexists; reflexivity|left; reflexivity].
Qed.
Lemma parse_headers_nil f acc : parse_headers f [] acc = Err.
Proof. destruct f; reflexivity. Qed.

Lemma read_line_some s i : index_byte LF s = Some i ->
  read_line s = Some (strip_cr (firstn i s), skipn (S i) s).
Proof.
  intros H. unfold read_line. rewrite H. destruct s; [discriminate|reflexivity].
Qed.
Lemma read_line_none s : index_byte LF s = None ->
  read_line s = match s with [] => None | _ => Some (s, []) end.
Proof. intros H. unfold read_line. rewrite H. destruct s; reflexivity. Qed.

Lemma parse_headers_rest_le : forall fuel s acc hs rest,
  parse_headers fuel s acc = Ok (hs, rest) -> List.length rest <= List.length s.
Proof.
  induction fuel as [|f IH]; intros s acc hs rest H; cbn in H; [discriminate|].
  destruct (read_line s) as [[line r]|] eqn:Er; [|discriminate].
  assert (Hr : List.length r <= List.length s).
  { unfold read_line in Er. destruct s as [|x s]; [discriminate|].
    destruct (index_byte LF (x :: s)) as [i|]; injection Er as <- <-.
    - rewrite skipn_length. cbn [List.length]. lia.
    - cbn [List.length]. lia. }
  destruct line as [|c line].
  - injection H as <- <-. exact Hr.
  - destruct (parse_header_line (c :: line)) as [h| |]; cbn in H; try discriminate.
    apply IH in H. lia.
Qed.

Lemma parse_headers_c_abs : forall fuel st acc, wf st ->
  match parse_headers fuel (alpha st) acc with
  | Ok (hs, rest) => exists st', parse_headers_c read_line_c fuel st acc = Ok (hs, st') /\
                                 alpha st' = rest /\ wf st' /\ rd_size st' = rd_size st
  | _ => parse_headers_c read_line_c fuel st acc = Err
  end.
Proof.
  induction fuel as [|f IH]; intros st acc Hwf; [reflexivity|].
  cbn [parse_headers parse_headers_c].
  pose proof (read_line_c_abs st Hwf) as Hrl.
  destruct (index_byte LF (alpha st)) as [i|] eqn:Ei.
  - destruct Hrl as (st1 & Hr & Hal & Hwf1 & Hs1). rewrite Hr, (read_line_some _ _ Ei).
    destruct (strip_cr (firstn i (alpha st))) as [|c line] eqn:El.
    + exists st1. rewrite rv_rev. done4.
    + rewrite parse_header_line_c_eq.
      destruct (parse_header_line_cases (c :: line)) as [E|(h & E)]; rewrite E; cbn [rbind]; [reflexivity|].
      specialize (IH st1 (h :: acc) Hwf1). rewrite Hal in IH.
      destruct (parse_headers f (skipn (S i) (alpha st)) (h :: acc)) as [[hs rest]| |]; try exact IH.
      destruct IH as (st' & Hp & Ha' & Hwf' & Hs'). exists st'. done4.
  - rewrite (read_line_none _ Ei).
    destruct Hrl as [(st1 & Hr)|(Hne & st1 & Hr & Hal & Hwf1 & Hs1)]; rewrite Hr.
    + destruct (alpha st) as [|x a]; [reflexivity|].
      destruct (parse_header_line_cases (x :: a)) as [E|(h & E)]; rewrite E; cbn [rbind]; [reflexivity|].
      rewrite parse_headers_nil. reflexivity.
    + destruct (alpha st) as [|x a] eqn:Ea; [contradiction|].
      rewrite parse_header_line_c_eq.
      destruct (parse_header_line_cases (x :: a)) as [E|(h & E)]; rewrite E; cbn [rbind]; [reflexivity|].
      rewrite parse_headers_nil.
      specialize (IH st1 (h :: acc) Hwf1). rewrite Hal, parse_headers_nil in IH. exact IH.
Qed.

(* decoding a URI or a start line never panics *)
Lemma parse_start_line_no_panic l : parse_start_line l <> Panic.
Proof.
  unfold parse_start_line, parse_status_line, parse_request_line.
  destruct (has_prefix (s2b "SIP/") l).
  - destruct (fields_go l) as [|v [|c [|x r]]]; try discriminate. destruct (atoi c); discriminate.
  - destruct (fields_go l) as [|m [|u [|v [|x r]]]]; try discriminate.
    unfold Uri.parse_addr_spec, Uri.parse_addr_spec_with.
    destruct (has_prefix (s2b "sip:") u || has_prefix (s2b "sips:") u)%bool; [|discriminate].
    unfold Uri.parse_sip_uri_with.
    destruct (has_prefix (s2b "sip:") u).
    + repeat match goal with
             | |- context [match ?x with _ => _ end] => destruct x
             | |- context [let '(_, _) := ?x in _] => destruct x
             end; cbn; discriminate.
    + destruct (has_prefix (s2b "sips:") u); [|cbn; discriminate].
      repeat match goal with
             | |- context [match ?x with _ => _ end] => destruct x
             | |- context [let '(_, _) := ?x in _] => destruct x
             end; cbn; discriminate.
Qed.

Lemma get_header_int_no_panic n m : get_header_int n m <> Panic.
Proof.
  unfold get_header_int, get_raw. destruct (get_header n (m_headers m)) as [h|]; cbn; [|discriminate].
  destruct (h_val h); cbn; try discriminate. destruct (atoi s); discriminate.
Qed.

Lemma parse_message_unfold s :
  parse_message s =
  match read_line (trim_left s) with
  | None => Err
  | Some ([], _) => Err
  | Some (l0, rest) =>
      rbind (parse_start_line l0) (fun st =>
      rbind (parse_headers (S (List.length rest)) rest []) (fun '(hs, rest1) =>
      let m := {| m_start := st; m_headers := hs; m_body := [] |} in
      rbind (get_header_int (s2b "Content-Length") m) (fun cl =>
      if Z.ltb cl 0 then Err
      else if Z.ltb (Z.of_nat (List.length rest1)) cl then Err
      else let n := Z.to_nat cl in
           Ok ({| m_start := st; m_headers := hs; m_body := firstn n rest1 |}, skipn n rest1))))
  end.
Proof. reflexivity. Qed.

Lemma trim_left_length s : List.length (trim_left s) <= List.length s.
Proof. induction s as [|c s IH]; cbn; [lia|]. destruct (is_space c); cbn; lia. Qed.

Lemma read_body_f_nonneg : forall fuel s n cap have al r a',
  read_body_f fuel s n cap have al = (r, a') -> (0 <= n)%Z -> (0 <= cap)%Z -> (0 <= al)%Z -> (0 <= a')%Z.
Proof.
  induction fuel as [|f IH]; intros s n cap have al r a' H Hn Hc Hal; cbn [read_body_f] in H.
  - destruct (n <=? Z.of_nat (List.length have))%Z; injection H as _ <-; exact Hal.
  - destruct (n <=? Z.of_nat (List.length have))%Z; [injection H as _ <-; exact Hal|].
    destruct (Z.of_nat (List.length have) =? cap)%Z; cbn [andb negb] in H.
    + destruct (make_ok (Z.min n (2 * cap))); cbn [negb] in H.
      * destruct (read_full s _) as [[[d|] s1]| |].
        -- apply IH in H; [exact H|lia|lia|lia].
        -- apply (f_equal snd) in H; cbn [snd] in H; lia.
        -- apply (f_equal snd) in H; cbn [snd] in H; lia.
        -- apply (f_equal snd) in H; cbn [snd] in H; lia.
      * apply (f_equal snd) in H; cbn [snd] in H; lia.
    + destruct (read_full s _) as [[[d|] s1]| |].
      * apply IH in H; [exact H|lia|lia|lia].
      * apply (f_equal snd) in H; cbn [snd] in H; lia.
      * apply (f_equal snd) in H; cbn [snd] in H; lia.
      * apply (f_equal snd) in H; cbn [snd] in H; lia.
Qed.

Theorem parse_message_c_abs st : wf st ->
  (2 * Z.of_nat (List.length (alpha st)) <= make_limit)%Z ->
  match parse_message (alpha st) with
  | Ok (m, rest) => exists st' a, parse_message_ca st = (Ok (m, st'), a) /\ alpha st' = rest /\
                      wf st' /\ rd_size st' = rd_size st /\ List.length rest < List.length (alpha st) /\
                      (a <= 4 * (Z.of_nat (List.length (alpha st)) - Z.of_nat (List.length rest)))%Z
  | _ => parse_message (alpha st) = Err /\
         exists a, parse_message_ca st = (Err, a) /\
                   (0 <= a <= 4 * Z.of_nat (List.length (alpha st)) + body_step)%Z
  end.
Proof.
  intros Hwf Hlim.
  assert (Hbad : forall (X : res (message * rd) * Z) a,
            (0 <= a <= 4 * Z.of_nat (List.length (alpha st)) + body_step)%Z ->
            parse_message (alpha st) = Err -> X = (Err, a) ->
            match parse_message (alpha st) with
            | Ok (m, rest) => exists st' a, X = (Ok (m, st'), a) /\ alpha st' = rest /\
                      wf st' /\ rd_size st' = rd_size st /\ List.length rest < List.length (alpha st) /\
                      (a <= 4 * (Z.of_nat (List.length (alpha st)) - Z.of_nat (List.length rest)))%Z
            | _ => parse_message (alpha st) = Err /\
                   exists a, X = (Err, a) /\
                             (0 <= a <= 4 * Z.of_nat (List.length (alpha st)) + body_step)%Z
            end).
  { intros X a Ha He Hc. rewrite He. split; [reflexivity|]. exists a. split; assumption. }
  assert (H0 : (0 <= 0 <= 4 * Z.of_nat (List.length (alpha st)) + body_step)%Z) by (unfold body_step; lia).
  unfold parse_message_ca, parse_message_g.
  destruct (skip_ws_abs st Hwf) as (st0 & Hsk & Ha0 & Hwf0 & Hs0). rewrite Hsk. cbn [bindz].
  pose proof (trim_left_length (alpha st)) as Htl.
  pose proof (read_line_c_abs st0 Hwf0) as Hrl. rewrite Ha0 in Hrl.
  destruct (index_byte LF (trim_left (alpha st))) as [i|] eqn:Ei.
  - destruct Hrl as (st1 & Hr & Hal & Hwf1 & Hs1). rewrite Hr. cbn [bindz].
    assert (Hpm : parse_message (alpha st) = _) by apply parse_message_unfold.
    rewrite (read_line_some _ _ Ei) in Hpm.
    set (rest := skipn (S i) (trim_left (alpha st))) in *.
    destruct (index_byte_some _ _ _ Ei) as (_ & _ & Hil).
    assert (Hrest : List.length rest < List.length (alpha st)) by (unfold rest; rewrite skipn_length; lia).
    destruct (strip_cr (firstn i (trim_left (alpha st)))) as [|c l0] eqn:El.
    { apply (Hbad _ 0%Z H0 Hpm). reflexivity. }
    destruct (parse_start_line (c :: l0)) as [sl| |] eqn:Esl; cbn [rbind bindz] in *.
    2: { apply (Hbad _ 0%Z H0 Hpm). reflexivity. }
    2: { exfalso. exact (parse_start_line_no_panic _ Esl). }
    pose proof (parse_headers_c_abs (S (List.length rest)) st1 [] Hwf1) as Hph. rewrite Hal in Hph.
    rewrite Hal.
    destruct (parse_headers (S (List.length rest)) rest []) as [[hs rest1]| |] eqn:Eph; cbn [rbind] in Hpm.
    2, 3: (rewrite Hph; cbn [bindz]; apply (Hbad _ 0%Z H0); [|reflexivity]).
    2: { exact Hpm. }
    2: { exfalso. clear -Eph.
         assert (Hnp : forall f s acc, parse_headers f s acc <> Panic).
         { induction f as [|f IH]; intros s acc; cbn; [discriminate|].
           destruct (read_line s) as [[[|c line] r]|]; try discriminate.
           destruct (parse_header_line_cases (c :: line)) as [E|(h & E)]; rewrite E; cbn; [discriminate|apply IH]. }
         exact (Hnp _ _ _ Eph). }
    destruct Hph as (st2 & Hp2 & Ha2 & Hwf2 & Hs2). rewrite Hp2. cbn [bindz].
    pose proof (parse_headers_rest_le _ _ _ _ _ Eph) as Hr1.
    destruct (get_header_int (s2b "Content-Length") {| m_start := sl; m_headers := hs; m_body := [] |})
      as [cl| |] eqn:Ecl; cbn [rbind bindz] in *.
    2: { apply (Hbad _ 0%Z H0 Hpm). reflexivity. }
    2: { exfalso. exact (get_header_int_no_panic _ _ Ecl). }
    destruct (Z.ltb cl 0) eqn:Eneg.
    { apply (Hbad _ 0%Z H0 Hpm). reflexivity. }
    apply Z.ltb_ge in Eneg.
    assert (Hlim2 : (2 * Z.of_nat (List.length (alpha st2)) <= make_limit)%Z) by (rewrite Ha2; lia).
    destruct (read_body_abs st2 cl Hwf2 Eneg Hlim2) as (st3 & a & Hwf3 & Hs3 & Hrb).
    rewrite Ha2 in Hrb.
    destruct (Z.ltb (Z.of_nat (List.length rest1)) cl) eqn:Eshort.
    + apply Z.ltb_lt in Eshort.
      replace (cl <=? Z.of_nat (List.length rest1))%Z with false in Hrb by (symmetry; apply Z.leb_gt; lia).
      destruct Hrb as (Hrb & Hb). rewrite Hrb.
      assert (Ha : (0 <= a)%Z).
      { unfold read_body_c in Hrb. apply read_body_f_nonneg in Hrb; [exact Hrb|lia|unfold body_step; lia|unfold body_step; lia]. }
      apply (Hbad _ a); [lia|exact Hpm|reflexivity].
    + apply Z.ltb_ge in Eshort.
      replace (cl <=? Z.of_nat (List.length rest1))%Z with true in Hrb by (symmetry; apply Z.leb_le; lia).
      destruct Hrb as (Hrb & Hal3 & Hb). rewrite Hrb, Hpm.
      exists st3, a. split; [reflexivity|]. split; [exact Hal3|]. split; [exact Hwf3|]. split; [lia|].
      rewrite skipn_length. split; [lia|]. lia.
  - assert (Hpm : parse_message (alpha st) = Err).
    { rewrite parse_message_unfold, (read_line_none _ Ei).
      destruct (trim_left (alpha st)) as [|x a]; [reflexivity|].
      destruct (parse_start_line (x :: a)) as [sl| |] eqn:Esl; cbn [rbind]; [|reflexivity|].
      - cbn [List.length]. rewrite (parse_headers_nil 1). reflexivity.
      - exfalso. exact (parse_start_line_no_panic _ Esl). }
    destruct Hrl as [(st1 & Hr)|(Hne & st1 & Hr & Hal & Hwf1 & Hs1)]; rewrite Hr; cbn [bindz].
    + apply (Hbad _ 0%Z H0 Hpm). reflexivity.
    + destruct (trim_left (alpha st)) as [|x a] eqn:Ea; [contradiction|].
      destruct (parse_start_line (x :: a)) as [sl| |] eqn:Esl; cbn [bindz].
      * pose proof (parse_headers_c_abs (S (List.length (alpha st1))) st1 [] Hwf1) as Hph.
        rewrite Hal in Hph. rewrite parse_headers_nil in Hph. rewrite Hal, Hph. cbn [bindz].
        apply (Hbad _ 0%Z H0 Hpm). reflexivity.
      * apply (Hbad _ 0%Z H0 Hpm). reflexivity.
      * exfalso. exact (parse_start_line_no_panic _ Esl).
Qed.

(* ------------------------------------------------------------------ the connection loop *)
Lemma parse_conn_f_abs : forall fuel st, wf st ->
  (2 * Z.of_nat (List.length (alpha st)) <= make_limit)%Z ->
  fst (fst (parse_conn_f parse_message_ca fuel st)) = parse_stream fuel (alpha st) /\
  snd (fst (parse_conn_f parse_message_ca fuel st)) <> EndPanic /\
  (List.length (alpha st) < fuel -> snd (fst (parse_conn_f parse_message_ca fuel st)) = EndErr) /\
  (snd (parse_conn_f parse_message_ca fuel st) <= 4 * Z.of_nat (List.length (alpha st)) + body_step)%Z.
Proof.
  induction fuel as [|f IH]; intros st Hwf Hlim.
  - cbn [parse_conn_f parse_stream fst snd]. split; [reflexivity|]. split; [discriminate|]. split; [lia|]. unfold body_step. lia.
  - cbn [parse_conn_f parse_stream].
    pose proof (parse_message_c_abs st Hwf Hlim) as Hpm.
    destruct (parse_message (alpha st)) as [[m rest]| |].
    + destruct Hpm as (st' & a & Hc & Hal & Hwf' & Hs' & Hlt & Ha). rewrite Hc.
      assert (Hlim' : (2 * Z.of_nat (List.length (alpha st')) <= make_limit)%Z) by (rewrite Hal; lia).
      destruct (IH st' Hwf' Hlim') as (H1 & H2 & H3 & H4).
      destruct (parse_conn_f parse_message_ca f st') as [[ms e] a'].
      cbn [fst snd] in *. rewrite Hal in *.
      split; [f_equal; exact H1|]. split; [exact H2|]. split; [intros Hf; apply H3; lia|lia].
    + destruct Hpm as (_ & a & Hc & Ha). rewrite Hc. cbn [fst snd].
      split; [reflexivity|]. split; [discriminate|]. split; [reflexivity|lia].
    + destruct Hpm as (_ & a & Hc & Ha). rewrite Hc. cbn [fst snd].
      split; [reflexivity|]. split; [discriminate|]. split; [reflexivity|lia].
Qed.

(* C11: the concrete reader over ANY segmentation of the stream, with ANY window size, extracts
   exactly what the specification parser extracts from the concatenated bytes *)
Theorem C11_framing : forall size cs, Forall nonempty cs ->
  (2 * Z.of_nat (List.length (List.concat cs)) <= make_limit)%Z ->
  parse_conn size cs = parse_stream (S (List.length (List.concat cs))) (List.concat cs).
Proof.
  intros size cs Hne Hlim. unfold parse_conn, parse_conn_full.
  apply (parse_conn_f_abs _ (new_reader size cs) (new_reader_wf size cs Hne)). exact Hlim.
Qed.
Corollary C11_segmentation_independent : forall size1 size2 cs1 cs2,
  Forall nonempty cs1 -> Forall nonempty cs2 -> List.concat cs1 = List.concat cs2 ->
  (2 * Z.of_nat (List.length (List.concat cs1)) <= make_limit)%Z ->
  parse_conn size1 cs1 = parse_conn size2 cs2.
Proof.
  intros s1 s2 cs1 cs2 H1 H2 He Hlim. rewrite (C11_framing s1 cs1 H1 Hlim).
  rewrite He in Hlim. rewrite (C11_framing s2 cs2 H2 Hlim), He. reflexivity.
Qed.

(* C08, parse part *)
Theorem C08_parse_no_panic_conn : forall size cs, Forall nonempty cs ->
  (2 * Z.of_nat (List.length (List.concat cs)) <= make_limit)%Z ->
  snd (fst (parse_conn_full size cs)) = EndErr.
Proof.
  intros size cs Hne Hlim. unfold parse_conn_full.
  destruct (parse_conn_f_abs (S (List.length (List.concat cs))) (new_reader size cs) (new_reader_wf size cs Hne) Hlim)
    as (_ & _ & H & _).
  apply H. rewrite new_reader_alpha. lia.
Qed.
Theorem C08_alloc_bounded_conn : forall size cs, Forall nonempty cs ->
  (2 * Z.of_nat (List.length (List.concat cs)) <= make_limit)%Z ->
  (snd (parse_conn_full size cs) <= 4 * Z.of_nat (List.length (List.concat cs)) + 65536)%Z.
Proof.
  intros size cs Hne Hlim. unfold parse_conn_full.
  destruct (parse_conn_f_abs (S (List.length (List.concat cs))) (new_reader size cs) (new_reader_wf size cs Hne) Hlim)
    as (_ & _ & _ & H).
  rewrite new_reader_alpha in H. exact H.
Qed.

(* the UDP parse step: what is decoded depends on the first n bytes of the buffer only *)
Lemma one_chunk_nonempty b : Forall nonempty (one_chunk b).
Proof. destruct b; cbn; [constructor|]. constructor; [discriminate|constructor]. Qed.
Lemma one_chunk_concat b : List.concat (one_chunk b) = b.
Proof. destruct b; cbn; [reflexivity|]. rewrite app_nil_r. reflexivity. Qed.

Theorem udp_parse_abs : forall buf n,
  (2 * Z.of_nat (List.length (firstn n buf)) <= make_limit)%Z ->
  udp_parse buf n = parse_bytes (firstn n buf) /\
  (snd (udp_parse_a buf n) <= 4 * Z.of_nat (List.length (firstn n buf)) + 65536)%Z.
Proof.
  intros buf n Hlim. unfold udp_parse, udp_parse_a, parse_bytes.
  set (st := new_reader n (one_chunk (firstn n buf))).
  assert (Hwf : wf st) by (apply new_reader_wf, one_chunk_nonempty).
  assert (Ha : alpha st = firstn n buf) by (unfold st; rewrite new_reader_alpha; apply one_chunk_concat).
  pose proof (parse_message_c_abs st Hwf) as Hpm. rewrite Ha in Hpm. specialize (Hpm Hlim).
  destruct (parse_message (firstn n buf)) as [[m rest]| |].
  - destruct Hpm as (st' & a & Hc & _ & _ & _ & Hlt & Hb). rewrite Hc. cbn [fst snd res_fst]. split; [reflexivity|lia].
  - destruct Hpm as (_ & a & Hc & Hb). rewrite Hc. cbn [fst snd res_fst]. split; [reflexivity|unfold body_step in Hb; lia].
  - destruct Hpm as (He & _). discriminate.
Qed.

(* the specification parser never panics *)
Lemma parse_headers_no_panic : forall f s acc, parse_headers f s acc <> Panic.
Proof.
  induction f as [|f IH]; intros s acc; cbn; [discriminate|].
  destruct (read_line s) as [[[|c line] r]|]; try discriminate.
  destruct (parse_header_line_cases (c :: line)) as [E|(h & E)]; rewrite E; cbn; [discriminate|apply IH].
Qed.
Lemma parse_message_no_panic s : parse_message s <> Panic.
Proof.
  rewrite parse_message_unfold.
  destruct (read_line (trim_left s)) as [[[|c l0] rest]|]; try discriminate.
  destruct (parse_start_line (c :: l0)) as [sl| |] eqn:Esl; cbn [rbind]; try discriminate.
  2: { exfalso. exact (parse_start_line_no_panic _ Esl). }
  destruct (parse_headers (S (List.length rest)) rest []) as [[hs rest1]| |] eqn:Eph; cbn [rbind]; try discriminate.
  2: { exfalso. exact (parse_headers_no_panic _ _ _ Eph). }
  destruct (get_header_int (s2b "Content-Length") {| m_start := sl; m_headers := hs; m_body := [] |}) as [cl| |] eqn:Ecl;
    cbn [rbind]; try discriminate.
  2: { exfalso. exact (get_header_int_no_panic _ _ Ecl). }
  destruct (Z.ltb cl 0); [discriminate|]. destruct (Z.ltb (Z.of_nat (List.length rest1)) cl); discriminate.
Qed.

(* a message is accepted only if its header section is closed by an empty line and the declared
   body lies entirely within the bytes given *)
Lemma parse_headers_shape : forall fuel s acc hs rest,
  parse_headers fuel s acc = Ok (hs, rest) ->
  exists pre, LF :: s = pre ++ LF :: LF :: rest \/ LF :: s = pre ++ LF :: CR :: LF :: rest.
Proof.
  induction fuel as [|f IH]; intros s acc hs rest H; cbn in H; [discriminate|].
  destruct (index_byte LF s) as [i|] eqn:Ei.
  - rewrite (read_line_some _ _ Ei) in H.
    destruct (index_byte_some _ _ _ Ei) as (Hs & _ & _).
    set (r0 := skipn (S i) s) in *.
    destruct (strip_cr (firstn i s)) as [|c line] eqn:El.
    + injection H as _ <-. exists [].
      destruct (unsnoc_cases (firstn i s)) as [E|(x & z & E & _)].
      * left. rewrite Hs at 1. rewrite E. reflexivity.
      * rewrite E, strip_cr_snoc in El. destruct (Ascii.eqb_spec z CR) as [Hz|Hz].
        -- subst x z. right. rewrite Hs at 1. rewrite E. reflexivity.
        -- destruct x; discriminate.
    + destruct (parse_header_line (c :: line)) as [h| |]; cbn [rbind] in H; try discriminate.
      destruct (IH _ _ _ _ H) as (pre & [E|E]); exists (LF :: firstn i s ++ pre).
      * left. rewrite Hs at 1. cbn [app]. rewrite <- app_assoc. f_equal. f_equal. exact E.
      * right. rewrite Hs at 1. cbn [app]. rewrite <- app_assoc. f_equal. f_equal. exact E.
  - rewrite (read_line_none _ Ei) in H. destruct s as [|x s]; [discriminate|].
    destruct (parse_header_line (x :: s)) as [h| |]; cbn [rbind] in H; try discriminate.
    rewrite parse_headers_nil in H. discriminate.
Qed.

Lemma trim_left_suffix s : exists w, s = w ++ trim_left s.
Proof.
  induction s as [|c s (w & IH)]; [exists []; reflexivity|]. cbn.
  destruct (is_space c); [exists (c :: w); cbn; f_equal; exact IH|exists []; reflexivity].
Qed.

Lemma get_header_int_body n sl hs b1 b2 :
  get_header_int n {| m_start := sl; m_headers := hs; m_body := b1 |} =
  get_header_int n {| m_start := sl; m_headers := hs; m_body := b2 |}.
Proof. reflexivity. Qed.

Theorem parse_message_accepts_complete : forall d m rest,
  parse_message d = Ok (m, rest) ->
  exists hdr, d = hdr ++ m_body m ++ rest /\
    (exists h0, hdr = h0 ++ [LF; LF] \/ hdr = h0 ++ [LF; CR; LF]) /\
    get_header_int (s2b "Content-Length") m = Ok (Z.of_nat (List.length (m_body m))).
Proof.
  intros d m rest H. rewrite parse_message_unfold in H.
  destruct (trim_left_suffix d) as (w & Hw).
  destruct (index_byte LF (trim_left d)) as [i|] eqn:Ei.
  - rewrite (read_line_some _ _ Ei) in H.
    destruct (index_byte_some _ _ _ Ei) as (Hs & _ & _).
    destruct (strip_cr (firstn i (trim_left d))) as [|c l0]; [discriminate|].
    destruct (parse_start_line (c :: l0)) as [sl| |]; cbn [rbind] in H; try discriminate.
    destruct (parse_headers _ (skipn (S i) (trim_left d)) []) as [[hs rest1]| |] eqn:Eph; cbn [rbind] in H; try discriminate.
    destruct (get_header_int (s2b "Content-Length") {| m_start := sl; m_headers := hs; m_body := [] |}) as [cl| |] eqn:Ecl;
      cbn [rbind] in H; try discriminate.
    destruct (Z.ltb cl 0) eqn:Eneg; [discriminate|]. apply Z.ltb_ge in Eneg.
    destruct (Z.ltb (Z.of_nat (List.length rest1)) cl) eqn:Esh; [discriminate|]. apply Z.ltb_ge in Esh.
    injection H as <- <-. cbn [m_body].
    destruct (parse_headers_shape _ _ _ _ _ Eph) as (pre & Hshape).
    assert (Hd : d = (w ++ firstn i (trim_left d)) ++ LF :: skipn (S i) (trim_left d))
      by (rewrite <- app_assoc, <- Hs; exact Hw).
    destruct Hshape as [E|E]; rewrite E in Hd.
    + exists ((w ++ firstn i (trim_left d)) ++ pre ++ [LF; LF]). split; [|split].
      * rewrite Hd at 1. rewrite <- (firstn_skipn (Z.to_nat cl) rest1) at 1.
        rewrite <- !app_assoc. cbn [app]. reflexivity.
      * exists ((w ++ firstn i (trim_left d)) ++ pre). left. rewrite <- !app_assoc. reflexivity.
      * rewrite (get_header_int_body _ _ _ _ []), Ecl, firstn_length. f_equal. lia.
    + exists ((w ++ firstn i (trim_left d)) ++ pre ++ [LF; CR; LF]). split; [|split].
      * rewrite Hd at 1. rewrite <- (firstn_skipn (Z.to_nat cl) rest1) at 1.
        rewrite <- !app_assoc. cbn [app]. reflexivity.
      * exists ((w ++ firstn i (trim_left d)) ++ pre). right. rewrite <- !app_assoc. reflexivity.
      * rewrite (get_header_int_body _ _ _ _ []), Ecl, firstn_length. f_equal. lia.
  - rewrite (read_line_none _ Ei) in H. destruct (trim_left d) as [|x a]; [discriminate|].
    destruct (parse_start_line (x :: a)) as [sl| |]; cbn [rbind] in H; try discriminate.
Qed.

(* ------------------------------------------------------------------ the defect as found *)
Definition line_of (r : res (option bytes * rd)) : option bytes :=
  match r with Ok (Some l, _) => Some l | _ => None end.
Definition legacy_stream : bytes := s2b "SIP/2.0 404 Not Found" ++ [LF] ++ s2b "l: 0" ++ [LF; LF].
Fixpoint chop (k fuel : nat) (s : bytes) : list bytes :=
  match fuel with
  | O => []
  | S f => match s with [] => [] | _ => firstn k s :: chop k f (skipn k s) end
  end.

(* readLine as found: a line longer than the window (21 bytes, window 16) comes back overwritten,
   and differently for two segmentations of the same bytes; the repaired readLine returns the
   line for both *)
Theorem C11_legacy_refuted :
  exists size cs1 cs2, List.concat cs1 = List.concat cs2 /\ Forall nonempty cs1 /\ Forall nonempty cs2 /\
    line_of (read_line_legacy (new_reader size cs1)) <> line_of (read_line_legacy (new_reader size cs2)) /\
    line_of (read_line_legacy (new_reader size cs1)) <> Some (s2b "SIP/2.0 404 Not Found") /\
    line_of (read_line_c (new_reader size cs1)) = Some (s2b "SIP/2.0 404 Not Found") /\
    line_of (read_line_c (new_reader size cs2)) = Some (s2b "SIP/2.0 404 Not Found").
Proof.
  exists 16, [legacy_stream], (chop 1 100 legacy_stream).
  split; [vm_compute; reflexivity|].
  split; [repeat constructor; discriminate|].
  split; [vm_compute; repeat constructor; discriminate|].
  split; [vm_compute; discriminate|].
  split; [vm_compute; discriminate|].
  split; vm_compute; reflexivity.
Qed.

(* the same through the real window of the TCP path: a 5000-byte header line, window 4096; the
   code as found delivers a message with a garbled header, the specification (and the repaired
   code, by C11_framing) the message that was sent *)
Definition long_stream : bytes :=
  s2b "INVITE sip:a@h SIP/2.0" ++ [CR; LF] ++ s2b "X: " ++ repeat "v"%char 5000 ++ [CR; LF] ++
  s2b "Content-Length: 0" ++ [CR; LF; CR; LF].
Theorem C11_legacy_refuted_4096 :
  fst (fst (parse_conn_legacy_full 4096 [long_stream])) <>
    parse_stream (S (List.length long_stream)) long_stream /\
  parse_conn 4096 [long_stream] = parse_stream (S (List.length long_stream)) long_stream /\
  List.length (parse_stream (S (List.length long_stream)) long_stream) = 1.
Proof.
  split; [|split].
  - vm_compute. discriminate.
  - vm_compute. reflexivity.
  - vm_compute. reflexivity.
Qed.

(* non-vacuity of C11_framing: a stream of two messages in 7-byte segments through a 16-byte window *)
Example C11_framing_ex :
  let s := legacy_stream ++ [CR; LF] ++ legacy_stream in
  Forall nonempty (chop 7 100 s) /\ List.concat (chop 7 100 s) = s /\
  List.length (parse_conn 16 (chop 7 100 s)) = 2.
Proof.
  cbv zeta. split; [vm_compute; repeat constructor; discriminate|]. split; vm_compute; reflexivity.
Qed.

(* ================================================================== C11_exact (specification side) *)

(* ---- C11 exactness: the abstract stream parser returns exactly the encoded messages ---- *)

Record raw_header := { rh_name : bytes; rh_lpad : bytes; rh_value : bytes; rh_rpad : bytes; rh_crlf : bool }.
Record raw_msg := { rm_lead : bytes; rm_line : bytes; rm_line_crlf : bool; rm_headers : list raw_header;
                    rm_blank_crlf : bool; rm_body : bytes }.
Definition eol (crlf : bool) : bytes := if crlf then [CR; LF] else [LF].
Definition encode_header (h : raw_header) : bytes :=
  rh_name h ++ ":"%char :: rh_lpad h ++ rh_value h ++ rh_rpad h ++ eol (rh_crlf h).
Definition encode_msg (m : raw_msg) : bytes :=
  rm_lead m ++ rm_line m ++ eol (rm_line_crlf m) ++ flat_map encode_header (rm_headers m) ++
  eol (rm_blank_crlf m) ++ rm_body m.
Definition encode_all (ms : list raw_msg) : bytes := flat_map encode_msg ms.
Definition start_of (m : raw_msg) : start_line :=
  match parse_start_line (rm_line m) with Ok sl => sl | _ => SResp [] 0%Z [] end.
Definition expected (m : raw_msg) : message :=
  {| m_start := start_of m;
     m_headers := map (fun h => {| h_name := rh_name h; h_val := HRaw (rh_value h) |}) (rm_headers m);
     m_body := rm_body m |}.
Definition is_pad (c : ascii) : Prop := c = " "%char \/ c = ascii_of_nat 9.
Definition no_eol (s : bytes) : Prop := ~ In CR s /\ ~ In LF s.
Definition wf_header (h : raw_header) : Prop :=
  no_eol (rh_name h) /\ ~ In ":"%char (rh_name h) /\
  Forall is_pad (rh_lpad h) /\ Forall is_pad (rh_rpad h) /\
  no_eol (rh_value h) /\ trim_space_go (rh_value h) = rh_value h.   (* no surrounding Unicode white space *)
Definition wf_msg (m : raw_msg) : Prop :=
  Forall (fun c => is_space c = true) (rm_lead m) /\
  (exists c r, rm_line m = c :: r /\ is_space c = false) /\ no_eol (rm_line m) /\
  is_ok (parse_start_line (rm_line m)) = true /\
  Forall wf_header (rm_headers m) /\
  get_header_int (s2b "Content-Length") (expected m) = Ok (Z.of_nat (List.length (rm_body m))).

(* ---- white space ---- *)
Lemma ex_is_pad_space c : is_pad c -> is_space c = true.
Proof. intros [H|H]; subst c; reflexivity. Qed.

Lemma ex_pads_blank pad : Forall is_pad pad -> Forall (fun c => is_space c = true) pad.
Proof. apply Forall_impl. exact ex_is_pad_space. Qed.

Lemma ex_trim_left_blank pad s :
  Forall (fun c => is_space c = true) pad -> trim_left (pad ++ s) = trim_left s.
Proof.
  intros H. induction H as [|c pad Hc Hp IH]; cbn [app trim_left]; [reflexivity|].
  rewrite Hc. exact IH.
Qed.

Lemma ex_trim_left_all_blank pad : Forall (fun c => is_space c = true) pad -> trim_left pad = [].
Proof.
  intros H. rewrite <- (app_nil_r pad). rewrite ex_trim_left_blank by exact H. reflexivity.
Qed.

Lemma ex_trim_left_nonblank c r : is_space c = false -> trim_left (c :: r) = c :: r.
Proof. intros H. cbn [trim_left]. rewrite H. reflexivity. Qed.

Lemma ex_trim_left_len s : List.length (trim_left s) <= List.length s.
Proof.
  induction s as [|c r IH]; cbn [trim_left]; [lia|].
  destruct (is_space c); cbn [List.length] in *; lia.
Qed.

Lemma ex_trim_left_fix s : List.length (trim_left s) = List.length s ->
  s = [] \/ exists c r, s = c :: r /\ is_space c = false.
Proof.
  destruct s as [|c r]; [left; reflexivity|]. cbn [trim_left].
  destruct (is_space c) eqn:E; intros H.
  - pose proof (ex_trim_left_len r) as HL. cbn [List.length] in H. lia.
  - right. exists c, r. split; [reflexivity|exact E].
Qed.

Lemma ex_trim_space_fix v : trim_space v = v ->
  (v = [] \/ exists c r, v = c :: r /\ is_space c = false) /\ trim_right v = v.
Proof.
  intros H.
  assert (HL : List.length (trim_left v) = List.length v).
  { pose proof (ex_trim_left_len v) as H1.
    pose proof (ex_trim_left_len (rev (trim_left v))) as H2.
    rewrite rev_length in H2.
    assert (H3 : List.length (trim_space v) = List.length v) by (rewrite H; reflexivity).
    unfold trim_space, trim_right in H3. rewrite rev_length in H3. lia. }
  pose proof (ex_trim_left_fix v HL) as HF. split; [exact HF|].
  assert (HT : trim_left v = v).
  { destruct HF as [HF|[c [r [HF Hc]]]]; subst v; [reflexivity|].
    apply ex_trim_left_nonblank. exact Hc. }
  unfold trim_space in H. rewrite HT in H. exact H.
Qed.

(* strings.TrimSpace (Unicode white space): ASCII padding around a value that has no surrounding
   Unicode white space is removed, the value is kept (BytesLemmas.trim_space_go_pads) *)
Lemma ex_trim_space_pads lpad v rpad :
  Forall is_pad lpad -> Forall is_pad rpad -> trim_space_go v = v ->
  trim_space_go (lpad ++ v ++ rpad) = v.
Proof.
  intros Hl Hr Hv. apply ex_pads_blank in Hl. apply ex_pads_blank in Hr.
  apply trim_space_go_pads; assumption.
Qed.

(* ---- lines ---- *)
Lemma ex_firstn_app_len (l x : bytes) : firstn (List.length l) (l ++ x) = l.
Proof. induction l as [|a l IH]; cbn [List.length firstn app]; [destruct x; reflexivity|]. rewrite IH. reflexivity. Qed.

Lemma ex_skipn_app_len (l x : bytes) : skipn (List.length l) (l ++ x) = x.
Proof. induction l as [|a l IH]; cbn [List.length skipn app]; [reflexivity|exact IH]. Qed.

Lemma ex_skipn_app_S (l : bytes) c x : skipn (S (List.length l)) (l ++ c :: x) = x.
Proof. induction l as [|a l IH]; cbn [List.length skipn app]; [reflexivity|exact IH]. Qed.

Lemma ex_strip_cr_snoc l : strip_cr (l ++ [CR]) = l.
Proof.
  unfold strip_cr. rewrite rev_unit. rewrite Ascii.eqb_refl. apply rev_involutive.
Qed.

Lemma ex_strip_cr_nocr l : ~ In CR l -> strip_cr l = l.
Proof.
  intros H. unfold strip_cr. destruct (rev l) as [|c r] eqn:E.
  - apply (f_equal (@rev ascii)) in E. rewrite rev_involutive in E. cbn [rev] in E.
    symmetry. exact E.
  - destruct (Ascii.eqb c CR) eqn:Ec; [|reflexivity].
    apply Ascii.eqb_eq in Ec. subst c. exfalso. apply H. apply in_rev. rewrite E.
    left. reflexivity.
Qed.

Lemma ex_read_line_unfold s : s <> [] ->
  read_line s = match index_byte LF s with
                | Some i => Some (strip_cr (firstn i s), skipn (S i) s)
                | None => Some (s, [])
                end.
Proof. destruct s as [|c r]; [intros H; contradiction|reflexivity]. Qed.

Lemma ex_read_line_lf l rest : ~ In LF l -> read_line (l ++ LF :: rest) = Some (strip_cr l, rest).
Proof.
  intros H. rewrite ex_read_line_unfold by (destruct l; discriminate).
  rewrite index_byte_app_notin by exact H.
  rewrite ex_firstn_app_len, ex_skipn_app_S. reflexivity.
Qed.

Lemma ex_read_line_eol l b rest : ~ In LF l -> ~ In CR l ->
  read_line (l ++ eol b ++ rest) = Some (l, rest).
Proof.
  intros HL HC. destruct b; cbn [eol app].
  - change (l ++ CR :: LF :: rest) with (l ++ [CR] ++ LF :: rest).
    rewrite app_assoc. rewrite ex_read_line_lf.
    + rewrite ex_strip_cr_snoc. reflexivity.
    + intros HI. apply in_app_or in HI. destruct HI as [HI|[HI|[]]]; [exact (HL HI)|discriminate HI].
  - rewrite ex_read_line_lf by exact HL. rewrite ex_strip_cr_nocr by exact HC. reflexivity.
Qed.

(* ---- one header line ---- *)
Definition ex_hline (h : raw_header) : bytes :=
  rh_name h ++ ":"%char :: rh_lpad h ++ rh_value h ++ rh_rpad h.
Definition ex_conv (h : raw_header) : header := {| h_name := rh_name h; h_val := HRaw (rh_value h) |}.

Lemma ex_encode_header_eq h : encode_header h = ex_hline h ++ eol (rh_crlf h).
Proof.
  unfold encode_header, ex_hline. rewrite <- app_assoc. cbn [app].
  rewrite <- !app_assoc. reflexivity.
Qed.

Lemma ex_hline_notin c h :
  c <> ":"%char -> ~ is_pad c -> ~ In c (rh_name h) -> ~ In c (rh_value h) ->
  Forall is_pad (rh_lpad h) -> Forall is_pad (rh_rpad h) -> ~ In c (ex_hline h).
Proof.
  intros Hc Hp Hn Hv Hl Hr HI. unfold ex_hline in HI.
  rewrite Forall_forall in Hl, Hr.
  apply in_app_or in HI. destruct HI as [HI|[HI|HI]]; [exact (Hn HI)|exact (Hc (eq_sym HI))|].
  apply in_app_or in HI. destruct HI as [HI|HI]; [exact (Hp (Hl _ HI))|].
  apply in_app_or in HI. destruct HI as [HI|HI]; [exact (Hv HI)|exact (Hp (Hr _ HI))].
Qed.

Lemma ex_hline_no_eol h : wf_header h -> ~ In LF (ex_hline h) /\ ~ In CR (ex_hline h).
Proof.
  intros [[HnC HnL] [_ [Hl [Hr [[HvC HvL] _]]]]].
  split; apply ex_hline_notin; try assumption; try discriminate;
    intros [HP|HP]; discriminate HP.
Qed.

Lemma ex_hline_nonempty h : ex_hline h <> [].
Proof. unfold ex_hline. destruct (rh_name h); discriminate. Qed.

Lemma ex_parse_header_line h : wf_header h -> parse_header_line (ex_hline h) = Ok (ex_conv h).
Proof.
  intros [_ [Hcol [Hl [Hr [_ Hv]]]]]. unfold parse_header_line, ex_hline.
  rewrite index_byte_app_notin by exact Hcol.
  rewrite ex_firstn_app_len, ex_skipn_app_S.
  rewrite ex_trim_space_pads by assumption. reflexivity.
Qed.

(* ---- the header block ---- *)
Lemma ex_flat_len hs : List.length hs <= List.length (flat_map encode_header hs).
Proof.
  induction hs as [|h hs IH]; cbn [flat_map List.length]; [lia|].
  rewrite app_length. rewrite ex_encode_header_eq, app_length.
  assert (0 < List.length (eol (rh_crlf h))) by (destruct (rh_crlf h); cbn; lia). lia.
Qed.

Lemma ex_parse_headers hs : Forall wf_header hs -> forall fuel acc b rest,
  List.length hs < fuel ->
  parse_headers fuel (flat_map encode_header hs ++ eol b ++ rest) acc =
  Ok (rev acc ++ map ex_conv hs, rest).
Proof.
  intros H. induction H as [|h hs Hh Hhs IH]; intros fuel acc b rest Hf.
  - destruct fuel as [|f]; [cbn [List.length] in Hf; lia|].
    cbn [flat_map app parse_headers map].
    pose proof (ex_read_line_eol [] b rest) as HR. cbn [app] in HR.
    rewrite HR by (intros HI; exact HI). rewrite app_nil_r. reflexivity.
  - destruct fuel as [|f]; [lia|]. cbn [List.length] in Hf.
    cbn [flat_map parse_headers map]. rewrite <- app_assoc.
    rewrite ex_encode_header_eq. rewrite <- app_assoc.
    destruct (ex_hline_no_eol h Hh) as [HL HC].
    rewrite ex_read_line_eol by assumption.
    pose proof (ex_hline_nonempty h) as HN.
    destruct (ex_hline h) as [|x l] eqn:E; [contradiction|]. rewrite <- E.
    rewrite ex_parse_header_line by exact Hh. cbn [rbind].
    rewrite IH by lia. cbn [rev]. rewrite <- app_assoc. reflexivity.
Qed.

(* ---- one message ---- *)
Lemma ex_parse_message_unfold s l0 rest :
  read_line (trim_left s) = Some (l0, rest) -> l0 <> [] ->
  parse_message s =
  (let! st := parse_start_line l0 in
   let! (hs, rest1) := parse_headers (S (List.length rest)) rest [] in
   let m := {| m_start := st; m_headers := hs; m_body := [] |} in
   let! cl := get_header_int (s2b "Content-Length") m in
   if Z.ltb cl 0 then Err
   else if Z.ltb (Z.of_nat (List.length rest1)) cl then Err
   else let n := Z.to_nat cl in
        Ok ({| m_start := st; m_headers := hs; m_body := firstn n rest1 |}, skipn n rest1)).
Proof.
  intros H Hn. unfold parse_message. rewrite H.
  destruct l0 as [|c r]; [contradiction|reflexivity].
Qed.

Lemma ex_ghi_body n s hs b b' :
  get_header_int n {| m_start := s; m_headers := hs; m_body := b |} =
  get_header_int n {| m_start := s; m_headers := hs; m_body := b' |}.
Proof. reflexivity. Qed.

Lemma parse_message_encoded : forall m rest, wf_msg m ->
  parse_message (encode_msg m ++ rest) = Ok (expected m, rest).
Proof.
  intros m rest [Hlead [[c [r [Hline Hc]]] [[HlC HlL] [Hok [Hhs Hcl]]]]].
  assert (Hread : read_line (trim_left (encode_msg m ++ rest)) =
                  Some (rm_line m, flat_map encode_header (rm_headers m) ++
                                   eol (rm_blank_crlf m) ++ rm_body m ++ rest)).
  { unfold encode_msg. rewrite <- !app_assoc.
    rewrite ex_trim_left_blank by exact Hlead.
    assert (HT : forall x, trim_left (rm_line m ++ x) = rm_line m ++ x).
    { intros x. rewrite Hline. cbn [app]. apply ex_trim_left_nonblank. exact Hc. }
    rewrite HT. apply ex_read_line_eol; assumption. }
  rewrite (ex_parse_message_unfold _ _ _ Hread) by (rewrite Hline; discriminate).
  assert (Hst : parse_start_line (rm_line m) = Ok (start_of m)).
  { unfold start_of. destruct (parse_start_line (rm_line m)); [reflexivity|discriminate Hok|discriminate Hok]. }
  rewrite Hst. cbn [rbind].
  rewrite (ex_parse_headers _ Hhs).
  2:{ pose proof (ex_flat_len (rm_headers m)) as HL. rewrite app_length. lia. }
  cbn [rbind rev app]. cbv zeta.
  unfold expected in Hcl. fold ex_conv in Hcl.
  rewrite (ex_ghi_body _ _ _ (rm_body m) []) in Hcl. rewrite Hcl. cbn [rbind].
  rewrite (proj2 (Z.ltb_ge _ _)) by lia.
  rewrite (proj2 (Z.ltb_ge _ _)) by (rewrite app_length; lia).
  rewrite Nat2Z.id. rewrite ex_firstn_app_len, ex_skipn_app_len. reflexivity.
Qed.

(* ---- the stream ---- *)
Lemma ex_encode_msg_len m : wf_msg m -> 0 < List.length (encode_msg m).
Proof.
  intros [_ [[c [r [Hline _]]] _]]. unfold encode_msg.
  rewrite app_length, app_length, Hline. cbn [List.length]. lia.
Qed.

Lemma ex_encode_all_len ms : Forall wf_msg ms -> List.length ms <= List.length (encode_all ms).
Proof.
  intros H. induction H as [|m ms Hm Hms IH]; cbn [encode_all flat_map List.length]; [lia|].
  rewrite app_length. pose proof (ex_encode_msg_len m Hm) as HL. fold (encode_all ms). lia.
Qed.

Lemma ex_parse_stream_tail fuel tail :
  Forall (fun c => is_space c = true) tail -> parse_stream fuel tail = [].
Proof.
  intros H. destruct fuel as [|f]; [reflexivity|]. cbn [parse_stream].
  unfold parse_message. rewrite ex_trim_left_all_blank by exact H. reflexivity.
Qed.

Lemma ex_parse_stream_gen ms : Forall wf_msg ms -> forall fuel tail,
  Forall (fun c => is_space c = true) tail -> List.length ms < fuel ->
  parse_stream fuel (encode_all ms ++ tail) = map expected ms.
Proof.
  intros H. induction H as [|m ms Hm Hms IH]; intros fuel tail Ht Hf.
  - cbn [encode_all flat_map app map]. apply ex_parse_stream_tail. exact Ht.
  - destruct fuel as [|f]; [lia|]. cbn [List.length] in Hf.
    cbn [encode_all flat_map parse_stream map]. rewrite <- app_assoc.
    rewrite parse_message_encoded by exact Hm. fold (encode_all ms).
    rewrite IH by (try exact Ht; lia). reflexivity.
Qed.

Theorem parse_stream_exact : forall ms tail,
  Forall wf_msg ms -> Forall (fun c => is_space c = true) tail ->
  parse_stream (S (List.length (encode_all ms ++ tail))) (encode_all ms ++ tail) = map expected ms.
Proof.
  intros ms tail Hms Ht. apply ex_parse_stream_gen; [exact Hms|exact Ht|].
  pose proof (ex_encode_all_len ms Hms) as HL. rewrite app_length. lia.
Qed.

(* ---- non-vacuity: a request (CRLF ends, compact `l: 4`, a body containing CR LF) and a
        response (LF ends, empty body) preceded by a keep-alive CRLF ---- *)
Definition ex_req : raw_msg :=
  {| rm_lead := [];
     rm_line := s2b "INVITE sip:bob@example.com SIP/2.0";
     rm_line_crlf := true;
     rm_headers :=
       [ {| rh_name := s2b "Call-ID"; rh_lpad := s2b " "; rh_value := s2b "a84b4c76e66710";
            rh_rpad := []; rh_crlf := true |};
         {| rh_name := s2b "l"; rh_lpad := s2b " "; rh_value := s2b "4";
            rh_rpad := [" "%char; ascii_of_nat 9]; rh_crlf := true |} ];
     rm_blank_crlf := true;
     rm_body := ["a"%char; CR; LF; "b"%char] |}.
Definition ex_resp : raw_msg :=
  {| rm_lead := [CR; LF];
     rm_line := s2b "SIP/2.0 200 OK";
     rm_line_crlf := false;
     rm_headers :=
       [ {| rh_name := s2b "Content-Length"; rh_lpad := []; rh_value := s2b "0";
            rh_rpad := []; rh_crlf := false |} ];
     rm_blank_crlf := false;
     rm_body := [] |}.

Lemma ex_notin_by_index c s : index_byte c s = None -> ~ In c s.
Proof. apply index_byte_none. Qed.

Ltac ex_notin := apply ex_notin_by_index; vm_compute; reflexivity.
Ltac ex_pads := repeat (constructor; [first [left; reflexivity | right; reflexivity]|]); try constructor.
Ltac ex_wf_header :=
  split; [split; ex_notin|];
  split; [ex_notin|];
  split; [ex_pads|];
  split; [ex_pads|];
  split; [split; ex_notin|];
  vm_compute; reflexivity.

Example ex_two_wf : Forall wf_msg [ex_req; ex_resp].
Proof.
  constructor; [|constructor; [|constructor]].
  - split; [constructor|].
    split; [eexists; eexists; split; [vm_compute; reflexivity|reflexivity]|].
    split; [split; ex_notin|].
    split; [vm_compute; reflexivity|].
    split; [|vm_compute; reflexivity].
    constructor; [ex_wf_header|]. constructor; [ex_wf_header|]. constructor.
  - split; [repeat constructor|].
    split; [eexists; eexists; split; [vm_compute; reflexivity|reflexivity]|].
    split; [split; ex_notin|].
    split; [vm_compute; reflexivity|].
    split; [|vm_compute; reflexivity].
    constructor; [ex_wf_header|]. constructor.
Qed.

Example ex_two_parsed :
  parse_stream (S (List.length (encode_all [ex_req; ex_resp] ++ [CR; LF])))
               (encode_all [ex_req; ex_resp] ++ [CR; LF]) = map expected [ex_req; ex_resp].
Proof. apply parse_stream_exact; [exact ex_two_wf|repeat constructor]. Qed.

Example ex_two_is_request_response :
  map is_request (map expected [ex_req; ex_resp]) = [true; false] /\
  map m_body (map expected [ex_req; ex_resp]) = [["a"%char; CR; LF; "b"%char]; []].
Proof. split; vm_compute; reflexivity. Qed.

Print Assumptions parse_message_encoded.
Print Assumptions parse_stream_exact.


(* ------------------------------------------------------------------ statements for Properties.v *)
Theorem C11_exact : forall ms tail,
  Forall wf_msg ms -> Forall (fun c => is_space c = true) tail ->
  parse_stream (S (List.length (encode_all ms ++ tail))) (encode_all ms ++ tail) = map expected ms.
Proof. exact parse_stream_exact. Qed.

(* both together: the real reader model over any segmentation of any well-formed sequence *)
Theorem C11_exact_segmented : forall size cs ms tail,
  Forall wf_msg ms -> Forall (fun c => is_space c = true) tail ->
  Forall nonempty cs -> List.concat cs = encode_all ms ++ tail ->
  (2 * Z.of_nat (List.length (List.concat cs)) <= make_limit)%Z ->
  parse_conn size cs = map expected ms.
Proof.
  intros size cs ms tail Hms Htail Hne Hcat Hlim.
  rewrite (C11_framing size cs Hne Hlim), Hcat. apply parse_stream_exact; assumption.
Qed.

Print Assumptions read_slice_abs.
Print Assumptions C11_framing.
Print Assumptions C11_exact_segmented.
Print Assumptions C11_legacy_refuted.
Print Assumptions C08_parse_no_panic_conn.
Print Assumptions C08_alloc_bounded_conn.
Print Assumptions udp_parse_abs.
